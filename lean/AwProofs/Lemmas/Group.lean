import AwModel.Group
/-!
# Lemmas for C16 (grouping, chunking, limiting, filtering)
-/
namespace AwProofs.Group
open Aw Aw.Group

/-- sum of the durations -/
def durSum : List Event → Int
  | [] => 0
  | e :: r => e.dur + durSum r

theorem durSum_append (a b : List Event) : durSum (a ++ b) = durSum a + durSum b := by
  induction a with
  | nil => simp [durSum]
  | cons e r ih => simp only [List.cons_append, durSum, ih]; omega

/-- the presence/value pattern of the keys in a data dict: `d.get(k)` for every key -/
def pattern (keys : List String) (d : Data) : List (Option JVal) := keys.map (fun k => lookup k d)

/-! ## dict helpers -/

theorem lookup_dictSet (k k' : String) (v : JVal) (d : Data) :
    lookup k (dictSet k' v d) = if k' = k then some v else lookup k d := by
  induction d with
  | nil => simp [dictSet, lookup]
  | cons kv r ih =>
    obtain ⟨k0, v0⟩ := kv
    simp only [dictSet]
    by_cases h0 : k0 = k'
    · subst h0
      by_cases h1 : k0 = k <;> simp [lookup, h1]
    · simp only [h0, if_false, lookup]
      by_cases h1 : k0 = k
      · subst h1
        simp
        intro h; exact absurd h.symm h0
      · simp [h1, ih]

theorem lookup_pickData (d : Data) (k : String) (ks : List String) (acc : Data) :
    lookup k (pickData d ks acc) =
      if k ∈ ks ∧ (lookup k d).isSome then lookup k d else lookup k acc := by
  induction ks generalizing acc with
  | nil => simp [pickData]
  | cons k' ks ih =>
    simp only [pickData]
    cases hk : lookup k' d with
    | none =>
      simp only [ih]
      by_cases h : k' = k
      · subst h; simp [hk]
      · have : (k = k') = False := by simp; exact fun e => h e.symm
        simp [this]
    | some v =>
      simp only [ih, lookup_dictSet]
      by_cases h : k' = k
      · subst h; simp [hk]
      · have : (k = k') = False := by simp; exact fun e => h e.symm
        simp [this, h]

theorem pattern_pickData (keys : List String) (d : Data) :
    pattern keys (pickData d keys []) = pattern keys d := by
  unfold pattern
  apply List.map_congr_left
  intro k hk
  rw [lookup_pickData]
  cases h : lookup k d <;> simp [hk, lookup]

theorem mem_pickData (d : Data) (ks : List String) (k : String) (v : JVal) :
    lookup k (pickData d ks []) = some v → k ∈ ks ∧ lookup k d = some v := by
  rw [lookup_pickData]
  split
  · rename_i h; intro hv; exact ⟨h.1, hv⟩
  · simp [lookup]

/-! ## composite key -/

theorem mem_compositeKey (keys : List String) (d : Data) (k : String) (v : JVal) :
    (k, v) ∈ compositeKey keys d ↔ k ∈ keys ∧ lookup k d = some v := by
  induction keys with
  | nil => simp [compositeKey]
  | cons k' ks ih =>
    simp only [compositeKey]
    cases hk : lookup k' d with
    | none =>
      simp only [ih, List.mem_cons]
      constructor
      · rintro ⟨a, b⟩; exact ⟨Or.inr a, b⟩
      · rintro ⟨a | a, b⟩
        · subst a; rw [hk] at b; cases b
        · exact ⟨a, b⟩
    | some w =>
      simp only [List.mem_cons, ih, Prod.mk.injEq]
      constructor
      · rintro (⟨a, b⟩ | ⟨a, b⟩)
        · subst a; subst b; exact ⟨Or.inl rfl, hk⟩
        · exact ⟨Or.inr a, b⟩
      · rintro ⟨a | a, b⟩
        · subst a; rw [hk] at b; cases b; exact Or.inl ⟨rfl, rfl⟩
        · exact Or.inr ⟨a, b⟩

/-- two data dicts get the same composite key iff they agree on presence and value of every key
    (this is what fails for the unrepaired key, which drops the key names) -/
theorem compositeKey_eq_iff (keys : List String) (d d' : Data) :
    compositeKey keys d = compositeKey keys d' ↔ pattern keys d = pattern keys d' := by
  induction keys with
  | nil => simp [compositeKey, pattern]
  | cons k ks ih =>
    unfold pattern at ih ⊢
    simp only [compositeKey, List.map_cons, List.cons.injEq]
    cases h : lookup k d with
    | none =>
      cases h' : lookup k d' with
      | none => simpa using ih
      | some v' =>
        simp only [reduceCtorEq, false_and, iff_false]
        intro e
        have : (k, v') ∈ compositeKey ks d := by rw [e]; exact List.mem_cons_self
        have := (mem_compositeKey ks d k v').1 this
        rw [h] at this; cases this.2
    | some v =>
      cases h' : lookup k d' with
      | none =>
        simp only [reduceCtorEq, false_and, iff_false]
        intro e
        have : (k, v) ∈ compositeKey ks d' := by rw [← e]; exact List.mem_cons_self
        have := (mem_compositeKey ks d' k v).1 this
        rw [h'] at this; cases this.2
      | some v' =>
        simp only [List.cons.injEq, Prod.mk.injEq, true_and, Option.some.injEq]
        rw [ih]

theorem compositeKey_all_hashable (keys : List String) (d : Data) :
    (compositeKey keys d).all (fun kv => kv.2.hashable) = true ↔
      ∀ k ∈ keys, ∀ v, lookup k d = some v → v.hashable = true := by
  rw [List.all_eq_true]
  constructor
  · intro h k hk v hv
    exact h (k, v) ((mem_compositeKey keys d k v).2 ⟨hk, hv⟩)
  · rintro h ⟨k, v⟩ hm
    have := (mem_compositeKey keys d k v).1 hm
    exact h k this.1 v this.2

/-! ## the insertion-ordered table -/

/-- `merged_events.get(c)` -/
def getT (c : List (String × JVal)) : Table → Option Event
  | [] => none
  | (c', m) :: r => if c' = c then some m else getT c r

def tkeys (t : Table) : List (List (String × JVal)) := t.map (·.1)

/-- the event stored for a new composite key -/
def fresh (keys : List String) (e : Event) : Event :=
  { id := none, ts := e.ts, dur := e.dur, data := pickData e.data keys [] }

theorem getT_upsert (keys : List String) (ck c : List (String × JVal)) (e : Event) (t : Table) :
    getT c (upsert keys ck e t) =
      if ck = c then
        (match getT ck t with
         | some m => some { m with dur := m.dur + e.dur }
         | none => some (fresh keys e))
      else getT c t := by
  induction t with
  | nil =>
    by_cases h : ck = c <;> simp [upsert, getT, fresh, h]
  | cons cm r ih =>
    obtain ⟨c0, m0⟩ := cm
    simp only [upsert]
    by_cases h0 : c0 = ck
    · subst h0
      by_cases h : c0 = c <;> simp [getT, h]
    · simp only [h0, if_false, getT, ih]
      by_cases h : ck = c
      · subst h; simp [h0]
      · simp [h]

theorem tkeys_upsert (keys : List String) (ck : List (String × JVal)) (e : Event) (t : Table) :
    tkeys (upsert keys ck e t) = if ck ∈ tkeys t then tkeys t else tkeys t ++ [ck] := by
  induction t with
  | nil => simp [upsert, tkeys]
  | cons cm r ih =>
    obtain ⟨c0, m0⟩ := cm
    unfold tkeys at ih ⊢
    simp only [upsert]
    by_cases h0 : c0 = ck
    · subst h0; simp
    · have h0' : ¬ ck = c0 := fun e => h0 e.symm
      simp only [h0, if_false, List.map_cons, ih, List.mem_cons, h0', false_or]
      split <;> simp

theorem nodup_tkeys_upsert (keys : List String) (ck : List (String × JVal)) (e : Event) (t : Table)
    (h : (tkeys t).Nodup) : (tkeys (upsert keys ck e t)).Nodup := by
  rw [tkeys_upsert]
  split
  · exact h
  · rename_i hn
    rw [List.nodup_append]
    refine ⟨h, by simp, ?_⟩
    intro a ha b hb
    simp at hb; subst hb
    intro e; subst e; exact hn ha

theorem getT_of_mem (t : Table) (h : (tkeys t).Nodup) (c : List (String × JVal)) (m : Event)
    (hm : (c, m) ∈ t) : getT c t = some m := by
  induction t with
  | nil => cases hm
  | cons cm r ih =>
    obtain ⟨c0, m0⟩ := cm
    unfold tkeys at h ih
    simp only [List.map_cons, List.nodup_cons] at h
    rcases List.mem_cons.1 hm with e | hm
    · cases e; simp [getT]
    · have : c0 ≠ c := by
        intro e; subst e
        exact h.1 (List.mem_map.2 ⟨(c0, m), hm, rfl⟩)
      simp [getT, this, ih h.2 hm]

theorem mem_of_getT (t : Table) (c : List (String × JVal)) (m : Event)
    (h : getT c t = some m) : (c, m) ∈ t := by
  induction t with
  | nil => cases h
  | cons cm r ih =>
    obtain ⟨c0, m0⟩ := cm
    simp only [getT] at h
    split at h
    · rename_i e; subst e; cases h; exact List.mem_cons_self
    · exact List.mem_cons_of_mem _ (ih h)

/-! ## the merge loop -/

/-- what the loop leaves in the table under composite key `c` -/
theorem getT_mergeLoop (keys : List String) (l : List Event) (acc t : Table)
    (h : mergeLoop keys acc l = .ok t) (c : List (String × JVal)) :
    getT c t =
      match getT c acc with
      | some m => some { m with dur := m.dur + durSum (l.filter (fun e => compositeKey keys e.data = c)) }
      | none =>
        match l.find? (fun e => compositeKey keys e.data = c) with
        | some e => some { fresh keys e with
            dur := durSum (l.filter (fun e => compositeKey keys e.data = c)) }
        | none => none := by
  induction l generalizing acc with
  | nil =>
    simp only [mergeLoop, Except.ok.injEq] at h
    subst h
    cases hg : getT c acc <;> simp [durSum]
  | cons e es ih =>
    simp only [mergeLoop] at h
    split at h
    · have := ih _ h
      rw [this, getT_upsert]
      by_cases hc : compositeKey keys e.data = c
      · subst hc
        cases hg : getT (compositeKey keys e.data) acc with
        | none => simp [durSum, fresh]
        | some m => simp [durSum, Int.add_assoc]
      · simp only [hc, if_false]
        cases hg : getT c acc <;> simp [hc]
    · cases h

theorem nodup_mergeLoop (keys : List String) (l : List Event) (acc t : Table)
    (h : mergeLoop keys acc l = .ok t) (hn : (tkeys acc).Nodup) : (tkeys t).Nodup := by
  induction l generalizing acc with
  | nil => simp only [mergeLoop, Except.ok.injEq] at h; subst h; exact hn
  | cons e es ih =>
    simp only [mergeLoop] at h
    split at h
    · exact ih _ h (nodup_tkeys_upsert _ _ _ _ hn)
    · cases h

theorem durSum_upsert (keys : List String) (ck : List (String × JVal)) (e : Event) (t : Table) :
    durSum ((upsert keys ck e t).map (·.2)) = durSum (t.map (·.2)) + e.dur := by
  induction t with
  | nil => simp [upsert, durSum]
  | cons cm r ih =>
    obtain ⟨c0, m0⟩ := cm
    simp only [upsert]
    split
    · simp only [List.map_cons, durSum]; omega
    · simp only [List.map_cons, durSum, ih]; omega

theorem durSum_mergeLoop (keys : List String) (l : List Event) (acc t : Table)
    (h : mergeLoop keys acc l = .ok t) :
    durSum (t.map (·.2)) = durSum (acc.map (·.2)) + durSum l := by
  induction l generalizing acc with
  | nil => simp only [mergeLoop, Except.ok.injEq] at h; subst h; simp [durSum]
  | cons e es ih =>
    simp only [mergeLoop] at h
    split at h
    · rw [ih _ h, durSum_upsert]; simp only [durSum]; omega
    · cases h

theorem mergeLoop_ok_iff (keys : List String) (l : List Event) (acc : Table) :
    (∃ t, mergeLoop keys acc l = .ok t) ↔
      ∀ e ∈ l, (compositeKey keys e.data).all (fun kv => kv.2.hashable) = true := by
  induction l generalizing acc with
  | nil => simp [mergeLoop]
  | cons e es ih =>
    simp only [mergeLoop, List.mem_cons, forall_eq_or_imp]
    split
    · rename_i hh
      rw [ih]
      exact ⟨fun a => ⟨hh, a⟩, fun a => a.2⟩
    · rename_i hh
      simp only [reduceCtorEq, exists_false, false_iff]
      intro a; exact hh a.1

/-! ## chunking -/

theorem takeWhile_all {α : Type} (p : α → Bool) (l : List α) (h : ∀ x ∈ l, p x = true) :
    l.takeWhile p = l := by
  induction l with
  | nil => rfl
  | cons a r ih =>
    rw [List.takeWhile_cons, h a List.mem_cons_self]
    simp only [if_true]
    rw [ih (fun x hx => h x (List.mem_cons_of_mem _ hx))]

def HasKey (key : String) (e : Event) : Bool := (lookup key e.data).isSome

/-- a well-formed chunk: non-empty, starts at its first sub-event, lasts the sum of its sub-events,
    and all sub-events carry the chunk's value under the key -/
def GoodChunk (key : String) (c : Chunk) : Prop :=
  (∃ e r, c.subs = e :: r ∧ c.ts = e.ts) ∧ c.dur = durSum c.subs ∧
    ∀ x ∈ c.subs, lookup key x.data = some c.val

theorem chunkLoop_flat (key : String) (pt lf : Int) (acc : List Chunk) (l : List Event) :
    (chunkLoop key pt lf acc l).flatMap (·.subs) =
      acc.reverse.flatMap (·.subs) ++ l.takeWhile (HasKey key) := by
  induction l generalizing acc with
  | nil => simp [chunkLoop]
  | cons e es ih =>
    simp only [chunkLoop]
    cases hk : lookup key e.data with
    | none => simp [HasKey, hk]
    | some v =>
      have hk' : HasKey key e = true := by simp [HasKey, hk]
      cases acc with
      | nil => simp [ih, hk']
      | cons c acc' =>
        simp only
        split
        · simp [ih, hk', List.flatMap_append]
        · simp [ih, hk', List.flatMap_append]

theorem chunkLoop_good (key : String) (pt lf : Int) (acc : List Chunk) (l : List Event)
    (h : ∀ c ∈ acc, GoodChunk key c) : ∀ c ∈ chunkLoop key pt lf acc l, GoodChunk key c := by
  induction l generalizing acc with
  | nil => simpa [chunkLoop] using h
  | cons e es ih =>
    simp only [chunkLoop]
    cases hk : lookup key e.data with
    | none => simpa using h
    | some v =>
      have hnew : GoodChunk key ⟨e.ts, e.dur, v, [e]⟩ :=
        ⟨⟨e, [], rfl, rfl⟩, by simp [durSum], by simp [hk]⟩
      cases acc with
      | nil =>
        apply ih
        intro c hc
        simp at hc; subst hc; exact hnew
      | cons c acc' =>
        simp only
        split
        · rename_i hcond
          apply ih
          intro c' hc'
          rcases List.mem_cons.1 hc' with rfl | hc'
          · obtain ⟨⟨f, r, hs, ht⟩, hd, hv⟩ := h c List.mem_cons_self
            refine ⟨⟨f, r ++ [e], by simp [hs], ht⟩, ?_, ?_⟩
            · simp only [durSum_append, durSum, hd]; omega
            · intro x hx
              simp only [List.mem_append, List.mem_singleton] at hx
              rcases hx with hx | rfl
              · exact hv x hx
              · rw [hk, hcond.1]
          · exact h c' (List.mem_cons_of_mem _ hc')
        · apply ih
          intro c' hc'
          rcases List.mem_cons.1 hc' with rfl | hc'
          · exact hnew
          · exact h c' hc'

theorem durSum_flatMap_good (key : String) (cs : List Chunk) (h : ∀ c ∈ cs, GoodChunk key c) :
    durSum (cs.flatMap (·.subs)) = (cs.map (·.dur)).sum := by
  induction cs with
  | nil => simp [durSum]
  | cons c r ih =>
    simp only [List.flatMap_cons, durSum_append, List.map_cons, List.sum_cons]
    rw [ih (fun c' hc' => h c' (List.mem_cons_of_mem _ hc')), (h c List.mem_cons_self).2.1]

end AwProofs.Group
