import AwModel.Store.Datastore
/-! The `bucket_instances` cache stays coherent with the storage listing. -/
namespace Aw.Store.Datastore
open Aw Aw.Store
variable {σ : Type}

theorem coherent_init (listed : σ → List String) (s : σ) : Coherent listed ({ st := s } : DS σ) := by
  intro b hb; simp at hb

theorem getitem_coherent {listed : σ → List String} {d d' : DS σ} {b : String}
    (h : Coherent listed d) (hg : getitem listed d b = .ok d') : Coherent listed d' ∧ d'.st = d.st ∧ b ∈ d'.cache := by
  unfold getitem at hg
  by_cases hc : b ∈ d.cache
  · simp [hc] at hg; subst hg; exact ⟨h, rfl, hc⟩
  · by_cases hl : b ∈ listed d.st
    · simp [hc, hl] at hg; subst hg
      refine ⟨?_, rfl, by simp⟩
      intro x hx
      rcases List.mem_cons.1 hx with rfl | hx'
      · exact hl
      · exact h x hx'
    · simp [hc, hl] at hg

/-- a successful lookup means the bucket is listed -/
theorem getitem_listed {listed : σ → List String} {d d' : DS σ} {b : String}
    (h : Coherent listed d) (hg : getitem listed d b = .ok d') : b ∈ listed d.st := by
  unfold getitem at hg
  by_cases hc : b ∈ d.cache
  · exact h b hc
  · by_cases hl : b ∈ listed d.st
    · exact hl
    · simp [hc, hl] at hg

/-- a lookup of a bucket that is not listed raises KeyError (no stale handle can answer it) -/
theorem getitem_missing {listed : σ → List String} {d : DS σ} {b : String}
    (h : Coherent listed d) (hb : b ∉ listed d.st) : getitem listed d b = .error .keyError := by
  unfold getitem
  have hc : b ∉ d.cache := fun hc => hb (h b hc)
  simp [hc, hb]

theorem createBucket_coherent {listed : σ → List String} {create : σ → String → Meta → Except Err σ}
    (hcreate : ∀ s s' b m, create s b m = .ok s' → ∀ x, x ∈ listed s → x ∈ listed s')
    {d d' : DS σ} {b : String} {m : Meta} (h : Coherent listed d)
    (hc : createBucket listed create d b m = .ok d') : Coherent listed d' := by
  unfold createBucket at hc
  cases hcr : create d.st b m with
  | error e => simp [hcr] at hc
  | ok st' =>
    simp only [hcr] at hc
    have h1 : Coherent listed ({ d with st := st' } : DS σ) := fun x hx => hcreate _ _ _ _ hcr x (h x hx)
    exact (getitem_coherent h1 hc).1

theorem deleteBucket_coherent {listed : σ → List String} {delete : σ → String → Except Err σ}
    (hdel : ∀ s s' b, delete s b = .ok s' → ∀ x, x ≠ b → x ∈ listed s → x ∈ listed s')
    {d : DS σ} {b : String} (h : Coherent listed d) :
    Coherent listed (deleteBucket delete d b).1 ∧ b ∉ (deleteBucket delete d b).1.cache := by
  unfold deleteBucket
  cases hd : delete d.st b with
  | error e =>
    simp only [hd]
    refine ⟨?_, by simp⟩
    intro x hx
    have hx' : x ∈ d.cache ∧ x ≠ b := by simpa using hx
    exact h x hx'.1
  | ok st' =>
    simp only [hd]
    refine ⟨?_, by simp⟩
    intro x hx
    have hx' : x ∈ d.cache ∧ x ≠ b := by simpa using hx
    exact hdel _ _ _ hd x hx'.2 (h x hx'.1)

theorem onStore_coherent {listed : σ → List String} {f : σ → σ}
    (hf : ∀ s x, x ∈ listed s → x ∈ listed (f s)) {d : DS σ} (h : Coherent listed d) :
    Coherent listed (onStore f d) := fun x hx => hf _ x (h x hx)

end Aw.Store.Datastore
