import AwProofs.Lemmas.Spec
import AwProofs.Lemmas.StoreSqlite
import AwProofs.Lemmas.StoreMemory
import AwProofs.Lemmas.StorePeewee
/-!
# Store operations as data: one step function per backend, the reference step relation

* `Op D`            — the write operations of the storage API as a datatype; `Op.bucket`
* `B.step s op`     — the backend state after `op`; a rejected operation (any `.error` of the model
                      function, or Peewee's `replaceLast` answering `none` for an illegal hint) leaves
                      the state unchanged. Defined by matching on the model functions' results only.
* `B.run s ops`     — left fold of `step`
* `Spec.Only b v v'` — `v'` differs from `v` at most in bucket `b` (the shape of every frame lemma)
* `Kind`            — which backend: fixes the two places where backends legitimately differ in the
                      *metadata* they store (`Kind.stored`, `Kind.apply`)
* `SpecStep k v v' op` — the reference list model's step as a relation on views; the backend's
                      choices (fresh ids, which of several newest events) are existentially quantified
* `Pre k v op`      — the precondition of C02 (the property's quantifier)
* `SpecRun k v ops v'` — a history of the reference model, `Pre` holding before every step
-/
namespace Aw.Store
open Aw
variable {D : Type}

/-- the write operations of `AbstractStorage` -/
inductive Op (D : Type) where
  | create (b : String) (m : Meta)
  | update (b : String) (u : Upd)
  | deleteBucket (b : String)
  | insert (b : String) (e : Ev D)
  | insertMany (b : String) (es : List (Ev D))
  | replace (b : String) (i : Int) (e : Ev D)
  | replaceLast (b : String) (hint : Option Int) (e : Ev D)
  | delete (b : String) (i : Int)

/-- the bucket an operation is addressed to -/
def Op.bucket : Op D → String
  | .create b _ => b
  | .update b _ => b
  | .deleteBucket b => b
  | .insert b _ => b
  | .insertMany b _ => b
  | .replace b _ _ => b
  | .replaceLast b _ _ => b
  | .delete b _ => b

/-! ## step functions -/

namespace Sqlite

/-- the state after `op`; rejected operations change nothing -/
def step (s : St D) : Op D → St D
  | .create b m => match createBucket s b m with | .ok s' => s' | .error _ => s
  | .update b u => match updateBucket s b u with | .ok s' => s' | .error _ => s
  | .deleteBucket b => match deleteBucket s b with | .ok s' => s' | .error _ => s
  | .insert b e => match insertOne s b e with | .ok (s', _) => s' | .error _ => s
  | .insertMany b es => match insertMany s b es with | .ok s' => s' | .error _ => s
  | .replace b i e => replace s b i e
  | .replaceLast b _ e => replaceLast s b e
  | .delete b i => (delete s b i).1

def run (s : St D) (ops : List (Op D)) : St D := ops.foldl step s

end Sqlite

namespace Memory

/-- the state after `op`; rejected operations change nothing -/
def step (s : St D) : Op D → St D
  | .create b m => createBucket s b m
  | .update b u => match updateBucket s b u with | .ok s' => s' | .error _ => s
  | .deleteBucket b => match deleteBucket s b with | .ok s' => s' | .error _ => s
  | .insert b e => match insertOne s b e with | .ok (s', _) => s' | .error _ => s
  | .insertMany b es => match insertMany s b es with | .ok s' => s' | .error _ => s
  | .replace b i e => match replace s b i e with | .ok s' => s' | .error _ => s
  | .replaceLast b _ e => match replaceLast s b e with | .ok s' => s' | .error _ => s
  | .delete b i => match delete s b i with | .ok (s', _) => s' | .error _ => s

def run (s : St D) (ops : List (Op D)) : St D := ops.foldl step s

end Memory

namespace Peewee

/-- the state after `op`; rejected operations (and an illegal `replace_last` hint) change nothing -/
def step (s : St D) : Op D → St D
  | .create b m => match createBucket s b m with | .ok s' => s' | .error _ => s
  | .update b u => match updateBucket s b u with | .ok s' => s' | .error _ => s
  | .deleteBucket b => match deleteBucket s b with | .ok s' => s' | .error _ => s
  | .insert b e => match insertOne s b e with | .ok (s', _) => s' | .error _ => s
  | .insertMany b es => match insertMany s b es with | .ok s' => s' | .error _ => s
  | .replace b i e => match replace s b i e with | .ok s' => s' | .error _ => s
  | .replaceLast b hint e =>
    match replaceLast s b hint e with | .ok (some (s', _)) => s' | .ok none => s | .error _ => s
  | .delete b i => match delete s b i with | .ok (s', _) => s' | .error _ => s

def run (s : St D) (ops : List (Op D)) : St D := ops.foldl step s

end Peewee

/-! ## `Only b`: views that agree outside bucket `b` -/

namespace Spec

/-- `v'` differs from `v` at most in the entry of bucket `b` -/
def Only (b : String) (v v' : View D) : Prop := ∀ b', b' ≠ b → v' b' = v b'

theorem Only.refl (b : String) (v : View D) : Only b v v := fun _ _ => rfl

theorem Only.of_eq {b : String} {v v' : View D} (h : v' = v) : Only b v v' := by
  subst h; exact Only.refl b _

theorem Only.trans {b : String} {v v' v'' : View D} (h : Only b v v') (h' : Only b v' v'') :
    Only b v v'' := fun b' hb => (h' b' hb).trans (h b' hb)

theorem only_create (v : View D) (b : String) (m : Meta) : Only b v (create v b m) :=
  fun _ h => frame_create h
theorem only_update (v : View D) (b : String) (f : Meta → Meta) : Only b v (update v b f) :=
  fun _ h => frame_update h
theorem only_deleteBucket (v : View D) (b : String) : Only b v (deleteBucket v b) :=
  fun _ h => frame_deleteBucket h
theorem only_insert (v : View D) (b : String) (i : Int) (e : Ev D) : Only b v (insert v b i e) :=
  fun _ h => frame_insert h
theorem only_replaceId (v : View D) (b : String) (i : Int) (e : Ev D) :
    Only b v (replaceId v b i e) := fun _ h => frame_replaceId h
theorem only_delete (v : View D) (b : String) (i : Int) : Only b v (delete v b i) :=
  fun _ h => frame_delete h

/-- frame lemma for a left fold of operations that each touch bucket `b` only -/
theorem only_foldl {α : Type} (b : String) (f : View D → α → View D)
    (hf : ∀ v a, Only b v (f v a)) (l : List α) (v : View D) : Only b v (l.foldl f v) := by
  induction l generalizing v with
  | nil => exact Only.refl b v
  | cons a t ih => exact (hf v a).trans (ih (f v a))

theorem only_foldl_replaceId (b : String) (l : List (Ev D)) (v : View D) :
    Only b v (l.foldl (fun v e => replaceId v b (e.id.getD 0) e) v) :=
  only_foldl b _ (fun v e => only_replaceId v b _ e) l v

theorem only_foldl_insert (b : String) (l : List (Ev D × Int)) (v : View D) :
    Only b v (l.foldl (fun v (p : Ev D × Int) => insert v b p.2 p.1) v) :=
  only_foldl b _ (fun v _ => only_insert v b _ _) l v

/-- frame lemma for Memory's interleaved `insert_many` -/
theorem only_seqFold (b : String) (es : List (Ev D)) (js : List Int) (v : View D) :
    Only b v (Memory.seqFold b es js v) := by
  induction es generalizing js v with
  | nil => exact Only.refl b v
  | cons e t ih =>
    unfold Memory.seqFold
    cases he : e.id with
    | some i => exact (only_replaceId v b i e).trans (ih js _)
    | none =>
      cases js with
      | nil => exact Only.refl b v
      | cons j js => exact (only_insert v b j e).trans (ih js _)

/-- the two-fold form of `insert_many`: upserts (events carrying an id) first, then the id-less
    events appended with the ids `ids` -/
def insertManyWith (v : View D) (b : String) (es : List (Ev D)) (ids : List Int) : View D :=
  ((es.filter (fun e => e.id.isNone)).zip ids).foldl
    (fun v (p : Ev D × Int) => insert v b p.2 p.1)
    ((es.filter (fun e => e.id.isSome)).foldl (fun v e => replaceId v b (e.id.getD 0) e) v)

theorem only_insertManyWith (v : View D) (b : String) (es : List (Ev D)) (ids : List Int) :
    Only b v (insertManyWith v b es ids) :=
  (only_foldl_replaceId b _ v).trans (only_foldl_insert b _ _)

/-! ### what the list operations do to the addressed bucket -/

theorem replaceId_self {v : View D} {b : String} {m : Meta} {es : List (Ev D)}
    (h : v b = some (m, es)) (i : Int) (e : Ev D) :
    replaceId v b i e b =
      some (m, es.map (fun x => if x.id = some i then { e with id := some i } else x)) :=
  onEvents_self h

theorem delete_self {v : View D} {b : String} {m : Meta} {es : List (Ev D)}
    (h : v b = some (m, es)) (i : Int) :
    delete v b i b = some (m, es.filter (fun x => x.id ≠ some i)) :=
  onEvents_self h

theorem insert_self {v : View D} {b : String} {m : Meta} {es : List (Ev D)}
    (h : v b = some (m, es)) (i : Int) (e : Ev D) :
    insert v b i e b = some (m, es ++ [{ e with id := some i }]) :=
  onEvents_self h

theorem mem_ids {v : View D} {b : String} {m : Meta} {es : List (Ev D)}
    (h : v b = some (m, es)) (i : Int) : i ∈ ids v b ↔ ∃ x ∈ es, x.id = some i := by
  unfold ids
  rw [h]
  simp only [List.mem_filterMap]

/-- with pairwise distinct ids, rewriting id `i` changes exactly the one position holding it -/
theorem map_replace_split {es : List (Ev D)} (hn : (es.filterMap (·.id)).Nodup) {t : Ev D}
    {i : Int} (ht : t ∈ es) (hi : t.id = some i) (e : Ev D) :
    ∃ l1 l2, es = l1 ++ t :: l2 ∧ (∀ x ∈ l1 ++ l2, x.id ≠ some i) ∧
      es.map (fun x => if x.id = some i then { e with id := some i } else x) =
        l1 ++ { e with id := some i } :: l2 := by
  obtain ⟨l1, l2, rfl⟩ := List.append_of_mem ht
  have hne : ∀ x ∈ l1 ++ l2, x.id ≠ some i := by
    intro x hx hxi
    rw [List.filterMap_append, List.filterMap_cons, hi] at hn
    simp only [List.nodup_append, List.nodup_cons, List.mem_filterMap, List.mem_cons] at hn
    rcases List.mem_append.mp hx with h1 | h2
    · exact hn.2.2 i ⟨x, h1, hxi⟩ i (Or.inl rfl) rfl
    · exact hn.2.1.1 ⟨x, h2, hxi⟩
  refine ⟨l1, l2, rfl, hne, ?_⟩
  have hfix : ∀ l : List (Ev D), (∀ x ∈ l, x.id ≠ some i) →
      l.map (fun x => if x.id = some i then { e with id := some i } else x) = l := by
    intro l hl
    induction l with
    | nil => rfl
    | cons a t ih =>
      simp only [List.map_cons, if_neg (hl a (List.mem_cons_self ..)),
        ih (fun x hx => hl x (List.mem_cons_of_mem _ hx))]
  rw [List.map_append, List.map_cons, if_pos hi,
    hfix l1 (fun x hx => hne x (List.mem_append_left _ hx)),
    hfix l2 (fun x hx => hne x (List.mem_append_right _ hx))]

/-- with pairwise distinct ids, deleting id `i` removes exactly the one position holding it -/
theorem filter_delete_split {es : List (Ev D)} (hn : (es.filterMap (·.id)).Nodup) {t : Ev D}
    {i : Int} (ht : t ∈ es) (hi : t.id = some i) :
    ∃ l1 l2, es = l1 ++ t :: l2 ∧ (∀ x ∈ l1 ++ l2, x.id ≠ some i) ∧
      es.filter (fun x => x.id ≠ some i) = l1 ++ l2 := by
  obtain ⟨l1, l2, h, hne, _⟩ := map_replace_split hn ht hi t
  refine ⟨l1, l2, h, hne, ?_⟩
  subst h
  have hfix : ∀ l : List (Ev D), (∀ x ∈ l, x.id ≠ some i) →
      l.filter (fun x => x.id ≠ some i) = l := by
    intro l hl
    rw [List.filter_eq_self]
    intro x hx
    simpa using hl x hx
  rw [List.filter_append, List.filter_cons, hfix l1 (fun x hx => hne x (List.mem_append_left _ hx)),
    hfix l2 (fun x hx => hne x (List.mem_append_right _ hx))]
  simp [hi]

/-- deleting an id that is not live changes nothing -/
theorem filter_delete_notLive {es : List (Ev D)} {i : Int} (h : ∀ x ∈ es, x.id ≠ some i) :
    es.filter (fun x => x.id ≠ some i) = es := by
  rw [List.filter_eq_self]
  intro x hx
  simpa using h x hx

end Spec

/-! ## the reference step relation -/

/-- which backend -/
inductive Kind | sqlite | memory | peewee
deriving DecidableEq, Repr

/-- the metadata `create_bucket` stores (memory defaults a falsy `name` to the bucket id) -/
def Kind.stored : Kind → String → Meta → Meta
  | .memory, b, m => Memory.storedMeta b m
  | _, _, m => m

/-- the backend's `update_bucket` field semantics (SQL backends: every supplied field; memory:
    every truthy field) -/
def Kind.apply : Kind → Upd → Meta → Meta
  | .memory => Memory.memApply
  | _ => Upd.apply

/-- one step of the reference list model; the backend's choices are existentially quantified -/
def SpecStep (k : Kind) (v v' : View D) : Op D → Prop
  | .create b m => v' = Spec.create v b (k.stored b m)
  | .update b u => v' = Spec.update v b (k.apply u)
  | .deleteBucket b => v' = Spec.deleteBucket v b
  | .insert b e => ∃ i, i ∉ Spec.ids v b ∧ v' = Spec.insert v b i e
  | .insertMany b es =>
    ∃ ids : List Int, ids.length = (es.filter (fun e => e.id.isNone)).length ∧ ids.Nodup ∧
      (∀ i ∈ ids, i ∉ Spec.ids v b) ∧ v' = Spec.insertManyWith v b es ids
  | .replace b i e => v' = Spec.replaceId v b i e
  | .replaceLast b _ e =>
    ∃ m es t, v b = some (m, es) ∧ Spec.IsNewest es t ∧ v' = Spec.replaceId v b (t.id.getD 0) e
  | .delete b i => v' = Spec.delete v b i

/-- the quantifier of C02: the bucket exists; ids passed to replace / upsert are live in that
    bucket; inserts carry no id; replace-last only on a non-empty bucket (for Peewee, whose SQL
    leaves the order among equal timestamps open, a hint names a newest event — what the limit-1
    read returned); create only on a fresh id; Sqlite's update needs at least one field -/
def Pre (k : Kind) (v : View D) : Op D → Prop
  | .create b _ => v b = none
  | .update b u => (v b).isSome ∧ (k = .sqlite → u.isEmpty = false)
  | .deleteBucket b => (v b).isSome
  | .insert b e => (v b).isSome ∧ e.id = none
  | .insertMany b es => (v b).isSome ∧ ∀ e ∈ es, ∀ i, e.id = some i → i ∈ Spec.ids v b
  | .replace b i _ => (v b).isSome ∧ i ∈ Spec.ids v b
  | .replaceLast b hint _ =>
    ∃ m es, v b = some (m, es) ∧ es ≠ [] ∧
      (k = .peewee → ∀ h, hint = some h → ∃ t, Spec.IsNewest es t ∧ t.id = some h)
  | .delete b _ => (v b).isSome

/-- a history of the reference model: `Pre` holds before every step -/
inductive SpecRun (k : Kind) : View D → List (Op D) → View D → Prop
  | nil (v : View D) : SpecRun k v [] v
  | cons {v v' v'' : View D} {op : Op D} {ops : List (Op D)} :
      Pre k v op → SpecStep k v v' op → SpecRun k v' ops v'' → SpecRun k v (op :: ops) v''

/-- every reference step touches the addressed bucket only -/
theorem SpecStep.only {k : Kind} {v v' : View D} {op : Op D} (h : SpecStep k v v' op) :
    Spec.Only op.bucket v v' := by
  cases op with
  | create b m => have h : v' = _ := h; subst h; exact Spec.only_create v b _
  | update b u => have h : v' = _ := h; subst h; exact Spec.only_update v b _
  | deleteBucket b => have h : v' = _ := h; subst h; exact Spec.only_deleteBucket v b
  | insert b e => obtain ⟨i, _, h⟩ := h; subst h; exact Spec.only_insert v b i e
  | insertMany b es => obtain ⟨ids, _, _, _, h⟩ := h; subst h; exact Spec.only_insertManyWith v b es ids
  | replace b i e => have h : v' = _ := h; subst h; exact Spec.only_replaceId v b i e
  | replaceLast b hint e => obtain ⟨m, es, t, _, _, h⟩ := h; subst h; exact Spec.only_replaceId v b _ e
  | delete b i => have h : v' = _ := h; subst h; exact Spec.only_delete v b i

/-- a reference history leaves every bucket it never addresses as it was -/
theorem SpecRun.frame {k : Kind} {v v' : View D} {ops : List (Op D)} (h : SpecRun k v ops v')
    {b' : String} (hb : ∀ op ∈ ops, op.bucket ≠ b') : v' b' = v b' := by
  induction h with
  | nil v => rfl
  | cons _ hs _ ih =>
    rw [ih (fun op hop => hb op (List.mem_cons_of_mem _ hop))]
    exact hs.only b' (fun e => hb _ (List.mem_cons_self ..) e.symm)

/-! ## generic history lemmas (instantiated per backend) -/

section Generic
variable {S : Type} (view : S → View D) (step : S → Op D → S) (Inv : S → Prop) (k : Kind)

/-- `Pre` holds (on the backend's own observable state) before every step of the history -/
def Admissible : S → List (Op D) → Prop
  | _, [] => True
  | s, op :: ops => Pre k (view s) op ∧ Admissible (step s op) ops

theorem inv_foldl (hinv : ∀ s op, Inv s → Inv (step s op)) (ops : List (Op D)) (s : S)
    (h : Inv s) : Inv (ops.foldl step s) := by
  induction ops generalizing s with
  | nil => exact h
  | cons op t ih => exact ih _ (hinv s op h)

theorem frame_foldl (hinv : ∀ s op, Inv s → Inv (step s op))
    (hfr : ∀ s op, Inv s → Spec.Only op.bucket (view s) (view (step s op)))
    (ops : List (Op D)) (s : S) (h : Inv s) (b' : String) (hb : ∀ op ∈ ops, op.bucket ≠ b') :
    view (ops.foldl step s) b' = view s b' := by
  induction ops generalizing s with
  | nil => rfl
  | cons op t ih =>
    rw [List.foldl_cons, ih _ (hinv s op h) (fun o ho => hb o (List.mem_cons_of_mem _ ho))]
    exact hfr s op h b' (fun e => hb op (List.mem_cons_self ..) e.symm)

theorem refines_foldl (hinv : ∀ s op, Inv s → Inv (step s op))
    (href : ∀ s op, Inv s → Pre k (view s) op → SpecStep k (view s) (view (step s op)) op)
    (ops : List (Op D)) (s : S) (h : Inv s) (ha : Admissible view step k s ops) :
    SpecRun k (view s) ops (view (ops.foldl step s)) := by
  induction ops generalizing s with
  | nil => exact SpecRun.nil _
  | cons op t ih =>
    exact SpecRun.cons ha.1 (href s op h ha.1) (ih _ (hinv s op h) ha.2)

end Generic

end Aw.Store
