import AwModel.Store.Migrate
import AwProofs.Lemmas.StorePeewee
import AwProofs.Lemmas.StoreSqlite
import AwProofs.Lemmas.StoreReads
/-!
# The migration `peewee_v2_to_sqlite_v1` (model: `AwModel/Store/Migrate.lean`)

One step of the loop (`migrateBucket_step`): on an accumulator that satisfies the Sqlite invariant
and does not contain the bucket yet, the step succeeds, keeps the invariant, leaves every other
bucket as it was and creates the bucket with the legacy metadata and — up to ids — exactly the
legacy events (as a multiset). The loop (`foldl_migrateBucket`) is the induction over the legacy
bucket table; `migrate_spec` is the statement for the whole migration into the empty store.
-/
namespace Aw.Store.Migrate
open Aw Aw.Store
variable {D : Type}

/-- forget the id of an event: what is left is (instant, duration, data) -/
def noId (e : Ev D) : Ev D := { e with id := none }

theorem noId_noId (e : Ev D) : noId (noId e) = noId e := rfl

theorem noId_setId (e : Ev D) (i : Int) : noId { e with id := some i } = noId e := rfl

theorem noId_eq_iff (x y : Ev D) : noId x = noId y ↔ x.ts = y.ts ∧ x.dur = y.dur ∧ x.data = y.data := by
  cases x; cases y
  simp [noId]

/-! ## the list model: a run of inserts into one bucket -/

theorem foldl_insert_frame {b b' : String} (h : b' ≠ b) (ps : List (Ev D × Int)) (v : View D) :
    (ps.foldl (fun v p => Spec.insert v b p.2 p.1) v) b' = v b' := by
  induction ps generalizing v with
  | nil => rfl
  | cons p t ih => rw [List.foldl_cons, ih, Spec.frame_insert h]

theorem foldl_insert_self {b : String} (ps : List (Ev D × Int)) (v : View D) (m : Meta)
    (es : List (Ev D)) (hv : v b = some (m, es)) :
    (ps.foldl (fun v p => Spec.insert v b p.2 p.1) v) b =
      some (m, es ++ ps.map (fun p => { p.1 with id := some p.2 })) := by
  induction ps generalizing v es with
  | nil => rw [List.foldl_nil, hv, List.map_nil, List.append_nil]
  | cons p t ih =>
    rw [List.foldl_cons,
      ih (Spec.insert v b p.2 p.1) (es ++ [({ p.1 with id := some p.2 } : Ev D)])
        (Spec.onEvents_self (f := fun es => es ++ [({ p.1 with id := some p.2 } : Ev D)]) hv),
      List.map_cons, List.append_assoc]
    rfl

theorem map_fst_zip {α β : Type} : ∀ (l : List α) (k : List β), k.length = l.length →
    (l.zip k).map (·.1) = l
  | [], _, _ => rfl
  | a :: t, [], h => by cases h
  | a :: t, c :: k, h => by
    rw [List.zip_cons_cons, List.map_cons, map_fst_zip t k (by simpa using h)]

/-- the events appended by a run of inserts of id-less events are, up to ids, the inserted ones -/
theorem map_noId_zip (l : List (Ev D)) (ids : List Int) (h : ids.length = l.length) :
    ((l.zip ids).map (fun p => ({ p.1 with id := some p.2 } : Ev D))).map noId = l.map noId := by
  rw [List.map_map]
  have : (noId ∘ fun (p : Ev D × Int) => ({ p.1 with id := some p.2 } : Ev D)) = noId ∘ (·.1) := rfl
  rw [this, ← List.map_map, map_fst_zip l ids h]

/-! ## the legacy side: `get_events(bucket_id, -1)` returns every row of the bucket -/

theorem keyOf_row {old : Peewee.St D} (h : Peewee.Inv old) {r : Peewee.BRow} (hr : r ∈ old.buckets) :
    Peewee.keyOf old r.bid = some r.key := by
  rw [Peewee.keyOf_eq h, Peewee.find_bid h hr]
  rfl

theorem view_row {old : Peewee.St D} (h : Peewee.Inv old) {r : Peewee.BRow} (hr : r ∈ old.buckets) :
    Peewee.view old r.bid = some (r.md, (Peewee.rowsOf old r.key).map Peewee.toEv) := by
  rw [Peewee.view_eq, Peewee.find_bid h hr]
  rfl

theorem selected_all_perm (old : Peewee.St D) (k : Int) :
    (Peewee.selected old k none none).Perm (Peewee.rowsOf old k) := by
  unfold Peewee.selected
  rw [Peewee.filter_inRange_none]
  exact (List.reverse_perm _).trans ((Aw.PySort.sortBy_perm _ _).trans (List.reverse_perm _))

theorem getEvents_all {old : Peewee.St D} (h : Peewee.Inv old) {r : Peewee.BRow}
    (hr : r ∈ old.buckets) :
    ∃ evs, Peewee.getEvents old r.bid (-1) none none = .ok evs ∧
      evs.Perm ((Peewee.rowsOf old r.key).map Peewee.toEv) := by
  refine ⟨(Peewee.selected old r.key none none).map Peewee.toEv, ?_, (selected_all_perm old r.key).map _⟩
  rw [Peewee.getEvents_eq old r.bid r.key (keyOf_row h hr), applyLimit_neg _ (by decide)]
  rfl

/-! ## the new side: a bulk insert of id-less events into an existing bucket -/

theorem filter_isSome_noId (l : List (Ev D)) :
    (l.map noId).filter (fun e => e.id.isSome) = [] := by
  rw [List.filter_eq_nil_iff]
  intro a ha
  obtain ⟨x, _, rfl⟩ := List.mem_map.mp ha
  simp [noId]

theorem filter_isNone_noId (l : List (Ev D)) :
    (l.map noId).filter (fun e => e.id.isNone) = l.map noId := by
  rw [List.filter_eq_self]
  intro a ha
  obtain ⟨x, _, rfl⟩ := List.mem_map.mp ha
  rfl

theorem insertMany_noId (s : Sqlite.St D) (b : String) (l : List (Ev D)) :
    Sqlite.insertMany s b (l.map noId) = Sqlite.insertRows s b (l.map noId) := by
  unfold Sqlite.insertMany
  simp only [filter_isSome_noId, filter_isNone_noId, List.foldl_nil]

theorem insertRows_total {s : Sqlite.St D} {b : String} {r : Int} (hr : Sqlite.rowOf s b = some r)
    (l : List (Ev D)) : ∃ s', Sqlite.insertRows s b l = .ok s' := by
  induction l generalizing s with
  | nil => exact ⟨s, rfl⟩
  | cons e t ih =>
    simp only [Sqlite.insertRows, Sqlite.insertOne, hr]
    exact ih (s := { s with events := _, seqE := _ }) hr

/-- bulk insert of id-less events into an existing, empty or not, bucket: succeeds, keeps the
    invariant, touches no other bucket, appends the events (up to the fresh ids) -/
theorem insertRows_spec {s : Sqlite.St D} (hI : Sqlite.Inv s) {b : String} {m : Meta}
    {es : List (Ev D)} (hv : Sqlite.view s b = some (m, es)) (l : List (Ev D)) :
    ∃ s', Sqlite.insertRows s b l = .ok s' ∧ Sqlite.Inv s' ∧
      (∀ b', b' ≠ b → Sqlite.view s' b' = Sqlite.view s b') ∧
      ∃ new, Sqlite.view s' b = some (m, es ++ new) ∧ new.map noId = l.map noId := by
  obtain ⟨br, hbr, _, _⟩ := Sqlite.view_some_iff.mp hv
  obtain ⟨s', hs'⟩ := insertRows_total (Sqlite.rowOf_of_find hbr) l
  have hview := Sqlite.insertRows_view hI hs'
  refine ⟨s', hs', Sqlite.insertRows_inv hI hs', ?_,
    (l.zip (Sqlite.idsFrom s.seqE l.length)).map (fun p => ({ p.1 with id := some p.2 } : Ev D)),
    ?_, ?_⟩
  · intro b' hb'
    rw [hview, foldl_insert_frame hb']
  · rw [hview]
    exact foldl_insert_self _ _ m es hv
  · exact map_noId_zip l _ (Sqlite.length_idsFrom _ _)

/-! ## one step of the migration loop -/

theorem createBucket_fresh {s : Sqlite.St D} (hI : Sqlite.Inv s) {b : String} (m : Meta)
    (hb : Sqlite.view s b = none) :
    ∃ s1, Sqlite.createBucket s b m = .ok s1 ∧ Sqlite.Inv s1 ∧
      Sqlite.view s1 = Spec.create (Sqlite.view s) b m := by
  have hany : ¬ s.buckets.any (fun r => r.bid = b) = true := by
    intro hany
    obtain ⟨r, hr⟩ := Sqlite.any_iff_find.mp hany
    rw [Sqlite.view_none_iff.mp hb] at hr
    cases hr
  have hc : Sqlite.createBucket s b m =
      .ok { s with buckets := s.buckets ++ [⟨s.seqB + 1, b, m⟩], seqB := s.seqB + 1 } := by
    unfold Sqlite.createBucket
    rw [if_neg hany]
  exact ⟨_, hc, Sqlite.createBucket_inv hI hc, (Sqlite.createBucket_view hI hc).2⟩

theorem migrateBucket_step {old : Peewee.St D} (h : Peewee.Inv old) {r : Peewee.BRow}
    (hr : r ∈ old.buckets) {s : Sqlite.St D} (hI : Sqlite.Inv s)
    (hb : Sqlite.view s r.bid = none) :
    ∃ s', migrateBucket old (.ok s) r = .ok s' ∧ Sqlite.Inv s' ∧
      (∀ b', b' ≠ r.bid → Sqlite.view s' b' = Sqlite.view s b') ∧
      ∃ es', Sqlite.view s' r.bid = some (r.md, es') ∧
        (es'.map noId).Perm (((Peewee.rowsOf old r.key).map Peewee.toEv).map noId) := by
  obtain ⟨s1, hc, hI1, hv1⟩ := createBucket_fresh hI r.md hb
  obtain ⟨evs, hg, hperm⟩ := getEvents_all h hr
  have hv1b : Sqlite.view s1 r.bid = some (r.md, []) := by
    rw [hv1]
    simp only [Spec.create, Spec.setB, if_true]
  obtain ⟨s', hs', hI', hframe, new, hnew, hmap⟩ := insertRows_spec hI1 hv1b (evs.map noId)
  refine ⟨s', ?_, hI', ?_, new, ?_, ?_⟩
  · unfold migrateBucket
    simp only [bind, Except.bind, hc, hg]
    exact (insertMany_noId s1 r.bid evs).trans hs'
  · intro b' hb'
    rw [hframe b' hb', hv1, Spec.frame_create hb']
  · simpa using hnew
  · rw [hmap, List.map_map]
    have : (noId ∘ noId : Ev D → Ev D) = noId := rfl
    rw [this]
    exact hperm.map _

/-! ## the loop -/

theorem foldl_migrateBucket {old : Peewee.St D} (h : Peewee.Inv old) (l : List Peewee.BRow)
    (hl : ∀ r ∈ l, r ∈ old.buckets) (hnd : (l.map (·.bid)).Nodup)
    (s : Sqlite.St D) (hI : Sqlite.Inv s) (hfresh : ∀ r ∈ l, Sqlite.view s r.bid = none) :
    ∃ s', l.foldl (migrateBucket old) (.ok s) = .ok s' ∧ Sqlite.Inv s' ∧
      (∀ b, (∀ r ∈ l, r.bid ≠ b) → Sqlite.view s' b = Sqlite.view s b) ∧
      (∀ r ∈ l, ∃ es', Sqlite.view s' r.bid = some (r.md, es') ∧
        (es'.map noId).Perm (((Peewee.rowsOf old r.key).map Peewee.toEv).map noId)) := by
  induction l generalizing s with
  | nil =>
    exact ⟨s, rfl, hI, fun _ _ => rfl, fun r hr => by cases hr⟩
  | cons r t ih =>
    rw [List.map_cons, List.nodup_cons] at hnd
    have hrt : ∀ x ∈ t, x.bid ≠ r.bid := by
      intro x hx e
      exact hnd.1 (e ▸ List.mem_map_of_mem hx)
    obtain ⟨s1, hs1, hI1, hframe1, es1, hv1, hp1⟩ :=
      migrateBucket_step h (hl r List.mem_cons_self) hI (hfresh r List.mem_cons_self)
    obtain ⟨s', hs', hI', hframe', hall⟩ := ih (fun x hx => hl x (List.mem_cons_of_mem _ hx)) hnd.2 s1 hI1
      (fun x hx => by rw [hframe1 _ (hrt x hx)]; exact hfresh x (List.mem_cons_of_mem _ hx))
    refine ⟨s', ?_, hI', ?_, ?_⟩
    · rw [List.foldl_cons, hs1, hs']
    · intro b hb
      rw [hframe' b (fun x hx => hb x (List.mem_cons_of_mem _ hx)),
        hframe1 b (fun e => hb r List.mem_cons_self e.symm)]
    · intro x hx
      rcases List.mem_cons.mp hx with rfl | hx
      · refine ⟨es1, ?_, hp1⟩
        rw [hframe' x.bid (fun y hy => hrt y hy), hv1]
      · exact hall x hx

/-- the whole migration into the empty new store -/
theorem migrate_spec {old : Peewee.St D} (h : Peewee.Inv old) :
    ∃ s', migrate old ({} : Sqlite.St D) = .ok s' ∧ Sqlite.Inv s' ∧
      ∀ b, (Peewee.view old b = none → Sqlite.view s' b = none) ∧
        (∀ m es, Peewee.view old b = some (m, es) →
          ∃ es', Sqlite.view s' b = some (m, es') ∧ (es'.map noId).Perm (es.map noId)) := by
  obtain ⟨s', hs', hI', hframe, hall⟩ := foldl_migrateBucket h old.buckets (fun _ hr => hr) h.bids
    {} Sqlite.inv_init (fun _ _ => rfl)
  refine ⟨s', hs', hI', fun b => ⟨?_, ?_⟩⟩
  · intro hv
    rw [hframe b]
    · rfl
    · intro r hr e
      rw [← e, view_row h hr] at hv
      cases hv
  · intro m es hv
    obtain ⟨r, _, hr, hb, _, hm, hes⟩ := Peewee.view_some h hv
    obtain ⟨es', hv', hp⟩ := hall r hr
    subst hb hm hes
    exact ⟨es', hv', hp⟩

/-! ## the trigger -/

theorem isLegacyFile_iff (testing : Bool) (f : String) :
    isLegacyFile testing f = true ↔
      ∃ n v rest, f.splitOn "." = n :: v :: rest ∧ n = legacyName testing ∧ v = "v2" := by
  unfold isLegacyFile
  split
  · rename_i n v rest heq
    rw [heq]
    simp
  · rename_i hno
    constructor
    · intro hf; cases hf
    · rintro ⟨n, v, rest, heq, _, _⟩
      exact absurd heq (hno n v rest)

theorem triggers_iff (testing newDbFile customPath : Bool) (files : List String) :
    triggers testing newDbFile customPath files = true ↔
      newDbFile = true ∧ customPath = false ∧
        ∃ f ∈ files, ∃ n v rest, f.splitOn "." = n :: v :: rest ∧ n = legacyName testing ∧ v = "v2" := by
  unfold triggers
  simp only [Bool.and_eq_true, Bool.not_eq_true', List.any_eq_true, isLegacyFile_iff, and_assoc]

/-- `"peewee-sqlite.v2.db".split(".")` — `decide` alone cannot unfold the well-founded
    `String.splitOnAux`; its defining equation is unrolled and every test decided -/
theorem split_normal : "peewee-sqlite.v2.db".splitOn "." = ["peewee-sqlite", "v2", "db"] := by
  simp (config := { decide := true }) [String.splitOn, String.splitOnAux.eq_1]

theorem split_testing :
    "peewee-sqlite-testing.v2.db".splitOn "." = ["peewee-sqlite-testing", "v2", "db"] := by
  simp (config := { decide := true }) [String.splitOn, String.splitOnAux.eq_1]

theorem split_log : "aw-server.log".splitOn "." = ["aw-server", "log"] := by
  simp (config := { decide := true }) [String.splitOn, String.splitOnAux.eq_1]

/-! ## a concrete legacy database: three buckets (one empty, one with a unicode id and a data
dict), five events with coinciding instants, ids interleaved between the buckets, table order not
the timestamp order -/
namespace Example

def mA : Meta := ⟨none, "currentwindow", "aw-watcher-window", "host", "2020-01-01T00:00:00+00:00", "{}"⟩
def mB : Meta := ⟨some "näme", "afk", "aw-watcher-afk", "höst", "2021-06-01T00:00:00+00:00", "{\"k\": [1, 2]}"⟩

def old : Peewee.St Nat :=
  { buckets := [⟨1, "a", mA⟩, ⟨2, "bücket-ü", mB⟩, ⟨5, "empty", mA⟩]
    events := [⟨1, 1, 10, 5, 7⟩, ⟨2, 2, 10, 0, 8⟩, ⟨3, 1, 30, 1, 9⟩, ⟨4, 2, 5, 2, 8⟩, ⟨7, 1, 10, 5, 7⟩]
    keys := [("a", 1), ("bücket-ü", 2), ("empty", 5)] }

theorem old_inv : Peewee.Inv old := ⟨by decide, by decide, by decide, rfl, by decide⟩

/-- the new store after the migration -/
def new : Sqlite.St Nat :=
  { buckets := [⟨1, "a", mA⟩, ⟨2, "bücket-ü", mB⟩, ⟨3, "empty", mA⟩]
    events := [⟨1, 1, 30, 31, 9⟩, ⟨2, 1, 10, 15, 7⟩, ⟨3, 1, 10, 15, 7⟩, ⟨4, 2, 10, 10, 8⟩, ⟨5, 2, 5, 7, 8⟩]
    seqB := 3, seqE := 5 }

end Example

end Aw.Store.Migrate
