import AwProofs.Lemmas.QueryLoops
/-! Parsing the rendered text of a well-formed expression yields its token tree. -/
namespace Aw.Query

/-! ### induction over expressions with membership hypotheses for the children -/

section
variable {P : Expr → Prop}
  (hint : ∀ n, P (.int n)) (hstr : ∀ s, P (.str s)) (hvar : ∀ n, P (.var n))
  (hcall : ∀ f args, (∀ e ∈ args, P e) → P (.call f args))
  (hlist : ∀ xs, (∀ e ∈ xs, P e) → P (.list xs))
  (hdict : ∀ kvs : List (Str × Expr), (∀ p ∈ kvs, P p.2) → P (.dict kvs))
include hint hstr hvar hcall hlist hdict

mutual
theorem Expr.ind : ∀ e : Expr, P e
  | .int n => hint n
  | .str s => hstr s
  | .var n => hvar n
  | .call f args => hcall f args (Expr.ind_list args)
  | .list xs => hlist xs (Expr.ind_list xs)
  | .dict kvs => hdict kvs (Expr.ind_dict kvs)
theorem Expr.ind_list : ∀ es : List Expr, ∀ e ∈ es, P e
  | [] => fun _ h => absurd h List.not_mem_nil
  | x :: xs => fun e h =>
    (List.mem_cons.mp h).elim (fun heq => heq ▸ Expr.ind x) (fun h' => Expr.ind_list xs e h')
theorem Expr.ind_dict : ∀ kvs : List (Str × Expr), ∀ p ∈ kvs, P p.2
  | [] => fun _ h => absurd h List.not_mem_nil
  | (_, x) :: xs => fun p h =>
    (List.mem_cons.mp h).elim (fun heq => heq ▸ Expr.ind x) (fun h' => Expr.ind_dict xs p h')
end
end

theorem wfList_iff : ∀ es : List Expr, WFList es ↔ ∀ e ∈ es, WF e
  | [] => by rw [WFList]; simp
  | e :: es => by rw [WFList, wfList_iff es]; simp

theorem wfDict_iff : ∀ es : List (Str × Expr), WFDict es ↔ ∀ p ∈ es, StrOK p.1 ∧ WF p.2
  | [] => by rw [WFDict]; simp
  | (k, e) :: es => by
    rw [WFDict, wfDict_iff es]
    constructor
    · rintro ⟨h1, h2, h3⟩ p hp
      rcases List.mem_cons.mp hp with rfl | hp
      · exact ⟨h1, h2⟩
      · exact h3 p hp
    · intro h
      exact ⟨(h (k, e) (by simp)).1, (h (k, e) (by simp)).2, fun p hp => h p (by simp [hp])⟩

/-! ### shapes -/

theorem commaSep_zero (l : Layout) (a b : Nat) : commaSep l a b 0 = [] := by simp [commaSep]

theorem commaSep_pos (l : Layout) (a b : Nat) {j : Nat} (h : 1 ≤ j) : commaSep l a b j = l.slot a ++ ',' :: l.slot b := by
  have : ¬ j = 0 := by omega
  simp [commaSep, this]

theorem edges_cons {c : Char} {x : Str} (hc : isSpace c = false) (hx : Tail x) : Edges (c :: x) := by
  have h : Edges [c] := ⟨c, c, rfl, rfl, hc, hc⟩
  exact edges_append_tail h hx

theorem delim_ws_cons {w x : Str} {ch : Char} (hw : ∀ c ∈ w, isSpace c = true) (h1 : ¬ Word ch) (h2 : ch ≠ '(') :
    Delim (w ++ ch :: x) := by
  cases w with
  | nil => exact delim_cons h1 h2
  | cons y ys =>
    exact delim_cons (not_word_of_space (hw y (by simp))) (by
      intro h; subst h; have := hw '(' (by simp); revert this; decide)

theorem not_word_comma : ¬ Word ',' := fun h => by have := word_toNat h; simp at this

theorem delim_commaSep {l : Layout} (hl : LayoutOK l) (a b : Nat) {j : Nat} (hj : 1 ≤ j) (x : Str) :
    Delim (commaSep l a b j ++ x) := by
  rw [commaSep_pos l a b hj]
  have : l.slot a ++ ',' :: l.slot b ++ x = l.slot a ++ ',' :: (l.slot b ++ x) := by simp
  rw [this]
  exact delim_ws_cons (slot_space hl a) not_word_comma (by decide)

theorem delim_renderArgs {l : Layout} (hl : LayoutOK l) : ∀ (es : List Expr) {j : Nat}, 1 ≤ j → Delim (renderArgs l j es)
  | [], _, _ => by rw [renderArgs]; exact delim_nil
  | e :: es, j, hj => by rw [renderArgs]; exact delim_commaSep hl _ _ hj _

theorem delim_renderEntries {l : Layout} (hl : LayoutOK l) : ∀ (es : List (Str × Expr)) {j : Nat}, 1 ≤ j →
    Delim (renderEntries l j es)
  | [], _, _ => by rw [renderEntries]; exact delim_nil
  | (k, e) :: es, j, hj => by rw [renderEntries]; exact delim_commaSep hl _ _ hj _

theorem parseArgs_nil (ns : Ns) (f : Nat) (acc : List Tok) : parseArgs ns (f + 1) [] acc = .ok acc.reverse := by
  rw [parseArgs]; simp

theorem parseList_nil (ns : Ns) (f : Nat) (acc : List Tok) : parseList ns (f + 1) [] acc = .ok acc.reverse := by
  rw [parseList]; simp

theorem parseDict_nil (ns : Ns) (f : Nat) (acc : List (Str × Tok)) : parseDict ns (f + 1) [] acc = .ok acc.reverse := by
  rw [parseDict]; simp

/-- what the induction supplies for the children of a node -/
def TokIH (ns : Ns) (e : Expr) : Prop :=
  ∀ (l : Layout) (fuel : Nat), LayoutOK l → 2 * (renderExpr l e).length + 1 ≤ fuel →
    parseTok ns fuel (tyOf e) (renderExpr l e) = .ok (tokOf ns e)

/-! ### QFunction.parse loop -/

theorem parseArgs_all (ns : Ns) (l : Layout) (hl : LayoutOK l) :
    ∀ (es : List Expr), (∀ e ∈ es, WF e) → (∀ e ∈ es, TokIH ns e) →
    ∀ (j : Nat) (acc : List Tok) (fuel : Nat), 1 ≤ j → 2 * (renderArgs l j es).length + 2 ≤ fuel →
      parseArgs ns fuel (afterComma (renderArgs l j es)) acc = .ok (acc.reverse ++ tokOfList ns es)
  | [], _, _, j, acc, fuel, _, hf => by
    obtain ⟨f, rfl⟩ : ∃ f, fuel = f + 1 := ⟨fuel - 1, by omega⟩
    rw [renderArgs, afterComma_nil, parseArgs_nil, tokOfList]; simp
  | e :: es, hwf, hih, j, acc, fuel, hj, hf => by
    obtain ⟨f, rfl⟩ : ∃ f, fuel = f + 1 := ⟨fuel - 1, by omega⟩
    have hwe := hwf e (by simp)
    have hwes : WFList es := (wfList_iff es).mpr (fun x hx => hwf x (by simp [hx]))
    rw [renderArgs] at hf ⊢
    rw [afterComma_sep hl _ _ j hj]
    have hk := delim_renderArgs hl es (j := j + 1) (by omega)
    have hkt := tail_renderArgs es l (j + 1) hwes
    have hpt := parseToken_render (w := l.slot (2 * j + 1)) e (l.sub j) hwe (layoutOK_sub hl j)
      (slot_space hl _) hk hkt
    have hne : l.slot (2 * j + 1) ++ (renderExpr (l.sub j) e ++ renderArgs l (j + 1) es) ≠ [] := by
      simp [(edges_renderExpr e (l.sub j) hwe).ne_nil]
    have hlen : (commaSep l (2 * j) (2 * j + 1) j ++ (renderExpr (l.sub j) e ++ renderArgs l (j + 1) es)).length =
        (commaSep l (2 * j) (2 * j + 1) j).length + (renderExpr (l.sub j) e).length + (renderArgs l (j + 1) es).length := by
      simp; omega
    have hRpos : 0 < (renderExpr (l.sub j) e).length := List.length_pos_iff.mpr (edges_renderExpr e (l.sub j) hwe).ne_nil
    have htok := hih e (by simp) (l.sub j) f (layoutOK_sub hl j) (by omega)
    rw [args_step hne hpt htok]
    rw [parseArgs_all ns l hl es (fun x hx => hwf x (by simp [hx])) (fun x hx => hih x (by simp [hx]))
      (j + 1) (tokOf ns e :: acc) f (by omega) (by omega)]
    rw [tokOfList]; simp

theorem parseArgs_head (ns : Ns) (l : Layout) (hl : LayoutOK l) (es : List Expr) (hwf : ∀ e ∈ es, WF e)
    (hih : ∀ e ∈ es, TokIH ns e) (fuel : Nat) (hf : 2 * (renderArgs l 0 es).length + 2 ≤ fuel) :
    parseArgs ns fuel (renderArgs l 0 es) [] = .ok (tokOfList ns es) := by
  obtain ⟨f, rfl⟩ : ∃ f, fuel = f + 1 := ⟨fuel - 1, by omega⟩
  cases es with
  | nil => rw [renderArgs, parseArgs_nil, tokOfList]; rfl
  | cons e es =>
    have hwe := hwf e (by simp)
    have hwes : WFList es := (wfList_iff es).mpr (fun x hx => hwf x (by simp [hx]))
    rw [renderArgs, commaSep_zero] at hf ⊢
    have hk := delim_renderArgs hl es (j := 1) (by omega)
    have hkt := tail_renderArgs es l 1 hwes
    have hpt := parseToken_render (w := []) e (l.sub 0) hwe (layoutOK_sub hl 0) (by simp) hk hkt
    have hne : [] ++ (renderExpr (l.sub 0) e ++ renderArgs l (0 + 1) es) ≠ [] := by
      simp [(edges_renderExpr e (l.sub 0) hwe).ne_nil]
    have hRpos : 0 < (renderExpr (l.sub 0) e).length := List.length_pos_iff.mpr (edges_renderExpr e (l.sub 0) hwe).ne_nil
    simp only [List.nil_append, List.length_append] at hf
    have htok := hih e (by simp) (l.sub 0) f (layoutOK_sub hl 0) (by omega)
    rw [args_step hne hpt htok]
    rw [parseArgs_all ns l hl es (fun x hx => hwf x (by simp [hx])) (fun x hx => hih x (by simp [hx]))
      (0 + 1) [tokOf ns e] f (by omega) (by omega)]
    rw [tokOfList]; simp

/-! ### QList.parse loop -/

theorem strip_sep {l : Layout} (hl : LayoutOK l) (a b : Nat) {j : Nat} (hj : 1 ≤ j) {y : Str} (hy : Edges y) :
    strip (commaSep l a b j ++ y) = ',' :: (l.slot b ++ y) := by
  rw [commaSep_pos l a b hj]
  have e : l.slot a ++ ',' :: l.slot b ++ y = l.slot a ++ (',' :: (l.slot b ++ y)) := by simp
  rw [e]
  exact strip_ws_edges (slot_space hl a) (edges_cons (by decide) (tail_append_right (tail_of_edges hy) hy.ne_nil))

theorem parseList_all (ns : Ns) (l : Layout) (hl : LayoutOK l) :
    ∀ (es : List Expr), (∀ e ∈ es, WF e) → (∀ e ∈ es, TokIH ns e) →
    ∀ (j : Nat) (acc : List Tok) (fuel : Nat), 1 ≤ j → acc ≠ [] → 2 * (renderArgs l j es).length + 2 ≤ fuel →
      parseList ns fuel (renderArgs l j es) acc = .ok (acc.reverse ++ tokOfList ns es)
  | [], _, _, j, acc, fuel, _, _, hf => by
    obtain ⟨f, rfl⟩ : ∃ f, fuel = f + 1 := ⟨fuel - 1, by omega⟩
    rw [renderArgs, parseList_nil, tokOfList]; simp
  | e :: es, hwf, hih, j, acc, fuel, hj, hacc, hf => by
    obtain ⟨f, rfl⟩ : ∃ f, fuel = f + 1 := ⟨fuel - 1, by omega⟩
    have hwe := hwf e (by simp)
    have hwes : WFList es := (wfList_iff es).mpr (fun x hx => hwf x (by simp [hx]))
    rw [renderArgs] at hf ⊢
    have hk := delim_renderArgs hl es (j := j + 1) (by omega)
    have hkt := tail_renderArgs es l (j + 1) hwes
    have hy := edges_append_tail (edges_renderExpr e (l.sub j) hwe) hkt
    have hstrip := strip_sep hl (2 * j) (2 * j + 1) hj hy
    have hpt := parseToken_render (w := l.slot (2 * j + 1)) e (l.sub j) hwe (layoutOK_sub hl j)
      (slot_space hl _) hk hkt
    have hne : commaSep l (2 * j) (2 * j + 1) j ++ (renderExpr (l.sub j) e ++ renderArgs l (j + 1) es) ≠ [] := by
      simp [hy.ne_nil]
    have hlen : (commaSep l (2 * j) (2 * j + 1) j ++ (renderExpr (l.sub j) e ++ renderArgs l (j + 1) es)).length =
        (commaSep l (2 * j) (2 * j + 1) j).length + (renderExpr (l.sub j) e).length + (renderArgs l (j + 1) es).length := by
      simp; omega
    have hRpos : 0 < (renderExpr (l.sub j) e).length := List.length_pos_iff.mpr (edges_renderExpr e (l.sub j) hwe).ne_nil
    have htok := hih e (by simp) (l.sub j) f (layoutOK_sub hl j) (by omega)
    rw [list_step hne (by rw [hstrip]; simp) (by rw [hstrip]; simp [hacc]) hpt htok]
    rw [parseList_all ns l hl es (fun x hx => hwf x (by simp [hx])) (fun x hx => hih x (by simp [hx]))
      (j + 1) (tokOf ns e :: acc) f (by omega) (by simp) (by omega)]
    rw [tokOfList]; simp

theorem parseList_head (ns : Ns) (l : Layout) (hl : LayoutOK l) (es : List Expr) (hwf : ∀ e ∈ es, WF e)
    (hih : ∀ e ∈ es, TokIH ns e) (fuel : Nat) (hf : 2 * (renderArgs l 0 es).length + 2 ≤ fuel) :
    parseList ns fuel (renderArgs l 0 es) [] = .ok (tokOfList ns es) := by
  obtain ⟨f, rfl⟩ : ∃ f, fuel = f + 1 := ⟨fuel - 1, by omega⟩
  cases es with
  | nil => rw [renderArgs, parseList_nil, tokOfList]; rfl
  | cons e es =>
    have hwe := hwf e (by simp)
    have hwes : WFList es := (wfList_iff es).mpr (fun x hx => hwf x (by simp [hx]))
    rw [renderArgs, commaSep_zero] at hf ⊢
    have hk := delim_renderArgs hl es (j := 1) (by omega)
    have hkt := tail_renderArgs es l 1 hwes
    have hy := edges_append_tail (edges_renderExpr e (l.sub 0) hwe) hkt
    have hpt := parseToken_render (w := []) e (l.sub 0) hwe (layoutOK_sub hl 0) (by simp) hk hkt
    have hne : [] ++ (renderExpr (l.sub 0) e ++ renderArgs l (0 + 1) es) ≠ [] := by simp [hy.ne_nil]
    have hRpos : 0 < (renderExpr (l.sub 0) e).length := List.length_pos_iff.mpr (edges_renderExpr e (l.sub 0) hwe).ne_nil
    simp only [List.nil_append, List.length_append] at hf
    have htok := hih e (by simp) (l.sub 0) f (layoutOK_sub hl 0) (by omega)
    rw [list_step hne (by simp) (by simp [strip_edges hy]) hpt htok]
    rw [parseList_all ns l hl es (fun x hx => hwf x (by simp [hx])) (fun x hx => hih x (by simp [hx]))
      (0 + 1) [tokOf ns e] f (by omega) (by simp) (by omega)]
    rw [tokOfList]; simp

/-! ### QDict.parse loop -/

theorem dictSet_new {acc : List (Str × Tok)} {key : Str} (v : Tok) (h : ∀ p ∈ acc, p.1 ≠ key) :
    dictSet acc key v = (key, v) :: acc := by
  unfold dictSet
  have : acc.any (fun x => decide (x.1 = key)) = false := by
    rw [List.any_eq_false]; intro p hp; simpa using h p hp
  simp [this]

/-- the pieces of one rendered dict entry and what the parser sees after each of them -/
theorem entry_facts {l : Layout} (hl : LayoutOK l) (j : Nat) (key : Str) (e : Expr) (hwe : WF e) {k' : Str}
    (hkt : Tail k') :
    let val := renderExpr (l.sub j) e ++ k'
    let rest := l.slot (4 * j + 2) ++ ':' :: (l.slot (4 * j + 3) ++ val)
    Tail rest ∧ Edges (renderStr (l.quote (4 * j + 2)) key ++ rest) ∧
      strip rest = ':' :: (l.slot (4 * j + 3) ++ val) := by
  intro val rest
  have hy : Edges val := edges_append_tail (edges_renderExpr e (l.sub j) hwe) hkt
  have h1 : Tail (l.slot (4 * j + 3) ++ val) := tail_append_right (tail_of_edges hy) hy.ne_nil
  have h2 : Edges (':' :: (l.slot (4 * j + 3) ++ val)) := edges_cons (by decide) h1
  have h3 : Tail rest := tail_append_right (tail_of_edges h2) h2.ne_nil
  exact ⟨h3, edges_append_tail (edges_renderStr (quote_cases l _) key) h3,
    strip_ws_edges (slot_space hl _) h2⟩

theorem parseDict_all (ns : Ns) (l : Layout) (hl : LayoutOK l) :
    ∀ (es : List (Str × Expr)), (∀ p ∈ es, StrOK p.1 ∧ WF p.2) → (∀ p ∈ es, TokIH ns p.2) →
    ∀ (j : Nat) (acc : List (Str × Tok)) (fuel : Nat), 1 ≤ j → acc ≠ [] → (es.map (·.1)).Nodup →
      (∀ p ∈ acc, p.1 ∉ es.map (·.1)) → 2 * (renderEntries l j es).length + 2 ≤ fuel →
      parseDict ns fuel (renderEntries l j es) acc = .ok (acc.reverse ++ tokOfDict ns es)
  | [], _, _, j, acc, fuel, _, _, _, _, hf => by
    obtain ⟨f, rfl⟩ : ∃ f, fuel = f + 1 := ⟨fuel - 1, by omega⟩
    rw [renderEntries, parseDict_nil, tokOfDict]; simp
  | (key, e) :: es, hwf, hih, j, acc, fuel, hj, hacc, hnd, hfresh, hf => by
    obtain ⟨f, rfl⟩ : ∃ f, fuel = f + 1 := ⟨fuel - 1, by omega⟩
    have hwe := (hwf (key, e) (by simp)).2
    have hwk := (hwf (key, e) (by simp)).1
    have hwes : WFDict es := (wfDict_iff es).mpr (fun x hx => hwf x (by simp [hx]))
    rw [renderEntries] at hf ⊢
    have hk := delim_renderEntries hl es (j := j + 1) (by omega)
    have hkt := tail_renderEntries es l (j + 1) hwes
    obtain ⟨hrt, hyE, hstripRest⟩ := entry_facts hl j key e hwe hkt
    have hstrip := strip_sep hl (4 * j) (4 * j + 1) hj hyE
    have hkey := parseToken_renderStr (w := l.slot (4 * j + 1)) (quote_cases l (4 * j + 2)) key hwk
      (slot_space hl _) hrt
    have hpt := parseToken_render (w := l.slot (4 * j + 3)) e (l.sub j) hwe (layoutOK_sub hl j)
      (slot_space hl _) hk hkt
    have hne : commaSep l (4 * j) (4 * j + 1) j ++ (renderStr (l.quote (4 * j + 2)) key ++
        (l.slot (4 * j + 2) ++ ':' :: (l.slot (4 * j + 3) ++ (renderExpr (l.sub j) e ++ renderEntries l (j + 1) es)))) ≠ [] := by
      simp [hyE.ne_nil]
    have hRpos : 0 < (renderExpr (l.sub j) e).length := List.length_pos_iff.mpr (edges_renderExpr e (l.sub j) hwe).ne_nil
    have hlen : (commaSep l (4 * j) (4 * j + 1) j ++ (renderStr (l.quote (4 * j + 2)) key ++
        (l.slot (4 * j + 2) ++ ':' :: (l.slot (4 * j + 3) ++ (renderExpr (l.sub j) e ++ renderEntries l (j + 1) es))))).length ≥
        (renderExpr (l.sub j) e).length + (renderEntries l (j + 1) es).length + 1 := by
      simp; omega
    have htok := hih (key, e) (by simp) (l.sub j) f (layoutOK_sub hl j) (by simp only; omega)
    rw [dict_step hne (by rw [hstrip]; simp) (by rw [hstrip]; simp [hacc]) hkey
      (parseStrTok_render (quote_cases l _) key hwk) (by rw [hstripRest]; rfl)
      (by rw [hstripRest]; exact hpt) htok]
    have hfr : ∀ p ∈ acc, p.1 ≠ key := fun p hp h => hfresh p hp (by simp [h])
    rw [dictSet_new _ hfr]
    simp only [List.map_cons, List.nodup_cons] at hnd
    rw [parseDict_all ns l hl es (fun x hx => hwf x (by simp [hx])) (fun x hx => hih x (by simp [hx]))
      (j + 1) ((key, tokOf ns e) :: acc) f (by omega) (by simp) hnd.2 (by
        intro p hp
        rcases List.mem_cons.mp hp with rfl | hp
        · exact hnd.1
        · intro h; exact hfresh p hp (by simp [h])) (by omega)]
    rw [tokOfDict]; simp

theorem parseDict_head (ns : Ns) (l : Layout) (hl : LayoutOK l) (es : List (Str × Expr))
    (hwf : ∀ p ∈ es, StrOK p.1 ∧ WF p.2) (hih : ∀ p ∈ es, TokIH ns p.2) (hnd : (es.map (·.1)).Nodup)
    (fuel : Nat) (hf : 2 * (renderEntries l 0 es).length + 2 ≤ fuel) :
    parseDict ns fuel (renderEntries l 0 es) [] = .ok (tokOfDict ns es) := by
  obtain ⟨f, rfl⟩ : ∃ f, fuel = f + 1 := ⟨fuel - 1, by omega⟩
  cases es with
  | nil => rw [renderEntries, parseDict_nil, tokOfDict]; rfl
  | cons p es =>
    obtain ⟨key, e⟩ := p
    have hwe := (hwf (key, e) (by simp)).2
    have hwk := (hwf (key, e) (by simp)).1
    have hwes : WFDict es := (wfDict_iff es).mpr (fun x hx => hwf x (by simp [hx]))
    rw [renderEntries, commaSep_zero] at hf ⊢
    have hk := delim_renderEntries hl es (j := 1) (by omega)
    have hkt := tail_renderEntries es l 1 hwes
    obtain ⟨hrt, hyE, hstripRest⟩ := entry_facts hl 0 key e hwe hkt
    have hkey := parseToken_renderStr (w := []) (quote_cases l (4 * 0 + 2)) key hwk (by simp) hrt
    have hpt := parseToken_render (w := l.slot (4 * 0 + 3)) e (l.sub 0) hwe (layoutOK_sub hl 0)
      (slot_space hl _) hk hkt
    have hne : [] ++ (renderStr (l.quote (4 * 0 + 2)) key ++
        (l.slot (4 * 0 + 2) ++ ':' :: (l.slot (4 * 0 + 3) ++ (renderExpr (l.sub 0) e ++ renderEntries l (0 + 1) es)))) ≠ [] := by
      simp [hyE.ne_nil]
    have hRpos : 0 < (renderExpr (l.sub 0) e).length := List.length_pos_iff.mpr (edges_renderExpr e (l.sub 0) hwe).ne_nil
    have hlen : ([] ++ (renderStr (l.quote (4 * 0 + 2)) key ++
        (l.slot (4 * 0 + 2) ++ ':' :: (l.slot (4 * 0 + 3) ++ (renderExpr (l.sub 0) e ++ renderEntries l (0 + 1) es))))).length ≥
        (renderExpr (l.sub 0) e).length + (renderEntries l (0 + 1) es).length + 1 := by
      simp; omega
    have htok := hih (key, e) (by simp) (l.sub 0) f (layoutOK_sub hl 0) (by simp only; omega)
    rw [dict_step hne (by simp) (by simp [strip_edges hyE]) hkey
      (parseStrTok_render (quote_cases l _) key hwk) (by rw [hstripRest]; rfl)
      (by rw [hstripRest]; exact hpt) htok]
    rw [dictSet_new _ (by simp)]
    simp only [List.map_cons, List.nodup_cons] at hnd
    rw [parseDict_all ns l hl es (fun x hx => hwf x (by simp [hx])) (fun x hx => hih x (by simp [hx]))
      (0 + 1) [(key, tokOf ns e)] f (by omega) (by simp) hnd.2 (by
        intro p hp
        simp at hp; subst hp; exact hnd.1) (by omega)]
    rw [tokOfDict]; simp

/-! ### the whole tree -/

theorem ident_no_paren {f : Str} (h : Ident f) : ∀ c ∈ f, c ≠ '(' :=
  fun c hc => word_ne (ident_word h c hc) (by decide)

/-- `t.parse(token)` on the rendered text of a well-formed expression builds its token tree
    (any layout, any sufficient fuel) -/
theorem parseTok_render (ns : Ns) : ∀ e : Expr, WF e → TokIH ns e := by
  intro e
  induction e using Expr.ind with
  | hint n =>
    intro hw l fuel _ hf
    obtain ⟨f, rfl⟩ : ∃ f, fuel = f + 1 := ⟨fuel - 1, by omega⟩
    rw [WF] at hw
    rw [renderExpr, tyOf, parseTok.eq_def]
    simp only [parseIntTok_decimal n hw, tokOf]; rfl
  | hstr s =>
    intro hw l fuel _ hf
    obtain ⟨f, rfl⟩ : ∃ f, fuel = f + 1 := ⟨fuel - 1, by omega⟩
    rw [WF] at hw
    rw [renderExpr, tyOf, parseTok.eq_def]
    simp only [parseStrTok_render (quote_cases l 0) s hw, tokOf]; rfl
  | hvar name =>
    intro _ l fuel _ hf
    obtain ⟨f, rfl⟩ : ∃ f, fuel = f + 1 := ⟨fuel - 1, by omega⟩
    rw [renderExpr, tyOf, parseTok.eq_def]
    simp only [tokOf]
  | hcall fn args ih =>
    intro hw l fuel hl hf
    obtain ⟨f, rfl⟩ : ∃ f, fuel = f + 1 := ⟨fuel - 1, by omega⟩
    rw [WF] at hw
    have hwa := (wfList_iff args).mp hw.2
    rw [renderExpr] at hf ⊢
    obtain ⟨h1, h2, h3⟩ := call_slices fn (renderArgs l 0 args) (ident_no_paren hw.1)
    rw [tyOf, parseTok.eq_def]
    simp only [h1, h2, h3]
    rw [parseArgs_head ns l hl args hwa (fun e he => ih e he (hwa e he)) f (by
      simp at hf; omega)]
    simp only [tokOf]; rfl
  | hlist xs ih =>
    intro hw l fuel hl hf
    obtain ⟨f, rfl⟩ : ∃ f, fuel = f + 1 := ⟨fuel - 1, by omega⟩
    rw [WF] at hw
    have hwa := (wfList_iff xs).mp hw
    rw [renderExpr] at hf ⊢
    rw [tyOf, parseTok.eq_def]
    simp only [bracket_inner]
    rw [parseList_head ns l hl xs hwa (fun e he => ih e he (hwa e he)) f (by
      simp at hf; omega)]
    simp only [tokOf]; rfl
  | hdict kvs ih =>
    intro hw l fuel hl hf
    obtain ⟨f, rfl⟩ : ∃ f, fuel = f + 1 := ⟨fuel - 1, by omega⟩
    rw [WF] at hw
    have hwa := (wfDict_iff kvs).mp hw.1
    rw [renderExpr] at hf ⊢
    rw [tyOf, parseTok.eq_def]
    simp only [bracket_inner]
    rw [parseDict_head ns l hl kvs hwa (fun p hp => ih p hp (hwa p hp).2) hw.2 f (by
      simp at hf; omega)]
    simp only [tokOf]; rfl

end Aw.Query
