import AwProofs.Lemmas.QueryInterp
import AwModel.Query.Render
/-! Well-formed programs and layouts; facts about identifiers, numerals and string literals. -/
namespace Aw.Query

/-- `[A-Za-z_][A-Za-z0-9_]*` from position `i` on (`i = 0`: first character) -/
def identFrom : Nat → Str → Bool
  | _, [] => true
  | i, c :: cs => isIdent i c && identFrom (i + 1) cs

def Ident (name : Str) : Prop := name ≠ [] ∧ identFrom 0 name = true

/-- a string value the language can write: no backslash, no `;` (`query()` splits on every `;`) -/
def StrOK (s : Str) : Prop := ∀ c ∈ s, c ≠ '\\' ∧ c ≠ ';'

mutual
def WF : Expr → Prop
  | .int n => (decimal n).length ≤ maxIntDigits
  | .str s => StrOK s
  | .var name => Ident name
  | .call f args => Ident f ∧ WFList args
  | .list xs => WFList xs
  | .dict kvs => WFDict kvs ∧ (kvs.map (·.1)).Nodup
def WFList : List Expr → Prop
  | [] => True
  | e :: es => WF e ∧ WFList es
def WFDict : List (Str × Expr) → Prop
  | [] => True
  | (k, e) :: es => StrOK k ∧ WF e ∧ WFDict es
end

def WFProg : Prog → Prop
  | [] => True
  | (name, e) :: rest => Ident name ∧ WF e ∧ WFProg rest

/-- every whitespace slot of the layout holds ASCII whitespace only -/
def LayoutOK (l : Layout) : Prop := ∀ p, ∀ c ∈ l.ws p, isSpace c = true

theorem layoutOK_sub {l : Layout} (h : LayoutOK l) (j : Nat) : LayoutOK (l.sub j) :=
  fun p => h ((j + 1) :: p)

theorem slot_space {l : Layout} (h : LayoutOK l) (m : Nat) : ∀ c ∈ l.slot m, isSpace c = true := h [0, m]

theorem quote_cases (l : Layout) (m : Nat) : l.quote m = '"' ∨ l.quote m = '\'' := by
  unfold Layout.quote; split <;> simp

/-! ### character classes are disjoint where the parser relies on it -/

theorem isSpace_cases {c : Char} (h : isSpace c = true) :
    c = ' ' ∨ c = '\t' ∨ c = '\n' ∨ c = '\r' ∨ c = '\x0b' ∨ c = '\x0c' ∨
    c = '\x1c' ∨ c = '\x1d' ∨ c = '\x1e' ∨ c = '\x1f' := by
  simpa [isSpace, or_assoc] using h

theorem char_le_iff (a b : Char) : a ≤ b ↔ a.toNat ≤ b.toNat := by
  rw [Char.le_def, UInt32.le_iff_toNat_le]; rfl

theorem isDigit_iff {c : Char} : isDigit c = true ↔ 48 ≤ c.toNat ∧ c.toNat ≤ 57 := by
  have e5 : '0'.toNat = 48 := rfl
  have e6 : '9'.toNat = 57 := rfl
  simp only [isDigit, Bool.and_eq_true, decide_eq_true_eq, char_le_iff, e5, e6]

theorem isAlpha_iff {c : Char} : isAlpha c = true ↔
    (97 ≤ c.toNat ∧ c.toNat ≤ 122) ∨ (65 ≤ c.toNat ∧ c.toNat ≤ 90) := by
  have e1 : 'a'.toNat = 97 := rfl
  have e2 : 'z'.toNat = 122 := rfl
  have e3 : 'A'.toNat = 65 := rfl
  have e4 : 'Z'.toNat = 90 := rfl
  simp only [isAlpha, Bool.or_eq_true, Bool.and_eq_true, decide_eq_true_eq, char_le_iff, e1, e2, e3, e4]

theorem not_digit_of_alpha {c : Char} (h : isAlpha c = true) : isDigit c = false := by
  have := isAlpha_iff.mp h
  cases hd : isDigit c with
  | false => rfl
  | true => have := isDigit_iff.mp hd; omega

theorem isIdent_succ (i : Nat) (c : Char) : isIdent (i + 1) c = (isAlpha c || c = '_' || isDigit c) := by
  simp [isIdent]

theorem isIdent_zero (c : Char) : isIdent 0 c = (isAlpha c || c = '_') := by
  simp [isIdent]

/-- an identifier's first character is not a digit -/
theorem not_digit_of_isIdent_zero {c : Char} (h : isIdent 0 c = true) : isDigit c = false := by
  rw [isIdent_zero] at h
  simp only [Bool.or_eq_true, decide_eq_true_eq] at h
  rcases h with h | h
  · exact not_digit_of_alpha h
  · subst h; decide

/-- characters that are neither quotes, backslash, brackets nor separators -/
def Word (c : Char) : Prop := isAlpha c = true ∨ c = '_' ∨ isDigit c = true

theorem word_of_isIdent {i : Nat} {c : Char} (h : isIdent i c = true) : Word c := by
  unfold isIdent at h
  simp only [Bool.or_eq_true, Bool.and_eq_true, decide_eq_true_eq] at h
  rcases h with (h | h) | h
  · exact Or.inl h
  · exact Or.inr (Or.inl h)
  · exact Or.inr (Or.inr h.2)

theorem word_toNat {c : Char} (h : Word c) :
    (97 ≤ c.toNat ∧ c.toNat ≤ 122) ∨ (65 ≤ c.toNat ∧ c.toNat ≤ 90) ∨ c.toNat = 95 ∨ (48 ≤ c.toNat ∧ c.toNat ≤ 57) := by
  rcases h with h | h | h
  · rcases isAlpha_iff.mp h with h | h
    · exact Or.inl h
    · exact Or.inr (Or.inl h)
  · subst h; exact Or.inr (Or.inr (Or.inl rfl))
  · exact Or.inr (Or.inr (Or.inr (isDigit_iff.mp h)))

/-- a word character is none of the special characters (given by code point) -/
theorem word_ne {c d : Char} (h : Word c) (hd : d.toNat < 48 ∨ (57 < d.toNat ∧ d.toNat < 65) ∨
    (90 < d.toNat ∧ d.toNat < 95) ∨ d.toNat = 96 ∨ 122 < d.toNat) : c ≠ d := by
  intro heq; subst heq
  have := word_toNat h
  omega

theorem word_not_space {c : Char} (h : Word c) : isSpace c = false := by
  cases hs : isSpace c with
  | false => rfl
  | true =>
    have := word_toNat h
    rcases isSpace_cases hs with rfl | rfl | rfl | rfl | rfl | rfl | rfl | rfl | rfl | rfl <;>
      simp at this

end Aw.Query
