import AwProofs.Lemmas.StoreSqliteInv
import AwProofs.Lemmas.StoreSqliteBuckets
import AwProofs.Lemmas.StoreSqliteEvents
import AwProofs.Lemmas.StoreSqliteLast
import AwProofs.Lemmas.StoreSqliteMany
/-!
# Sqlite store model: invariant and refinement of the list model — entry point

* `StoreSqliteInv`     — `Inv`, `inv_init`, `<op>_inv`
* `StoreSqliteBuckets` — `createBucket_view/_exists`, `updateBucket_view/_missing/_empty/_nonempty`,
                         `deleteBucket_view/_missing`, `getMetadata_eq`, `bucketsOf_eq`
* `StoreSqliteEvents`  — `insertOne_view/_missing`, `replace_view`, `delete_view`, `getEvent_eq`,
                         `ids_nodup`
* `StoreSqliteLast`    — `replaceLast_view` (unconditional since the repair F22), the former
                         counterexample to its read part, now read
* `StoreSqliteMany`    — `insertMany_view`, `insertMany_missing`

Below: the hypotheses of every family are satisfiable on a concrete state with two buckets and
three events with coinciding instants, ids interleaved between the buckets.
-/
namespace Aw.Store.Sqlite
open Aw Aw.Store

def exS : St Unit :=
  { buckets := [⟨1, "a", default⟩, ⟨2, "b", default⟩],
    events := [⟨1, 1, 10, 15, ()⟩, ⟨2, 2, 10, 12, ()⟩, ⟨3, 1, 10, 20, ()⟩],
    seqB := 2, seqE := 3 }

theorem exS_inv : Inv exS := by
  unfold Inv exS
  decide

def exEv : Ev Unit := { ts := 30, dur := 1, data := () }

example : view exS "a" = some (default, [⟨some 1, 10, 5, ()⟩, ⟨some 3, 10, 10, ()⟩]) := rfl

example := createBucket_view (m := default) exS_inv (b := "c") rfl
example := createBucket_exists (s := exS) (b := "a") (m := default) exS_inv rfl
example := updateBucket_view (s := exS) (b := "a") (u := { name := some "n" }) exS_inv rfl
example := updateBucket_missing (s := exS) (b := "c") (u := { name := some "n" }) exS_inv rfl
example := deleteBucket_view (s := exS) (b := "a") exS_inv rfl
example := deleteBucket_missing (s := exS) (b := "c") exS_inv rfl
example := insertOne_view (s := exS) (b := "a") (e := exEv) exS_inv rfl rfl
example := insertOne_missing (s := exS) (b := "c") (e := exEv) exS_inv rfl
example := replace_view exS_inv "a" 2 exEv
example := delete_view (s := exS) (b := "a") (i := 2) exS_inv rfl
example := replaceLast_view (s := exS) (b := "a") exS_inv rfl (by decide) exEv
example := insertMany_view (s := exS) (b := "a")
  (es := [{ exEv with id := some 1 }, exEv, { exEv with id := some 2 }, exEv]) exS_inv rfl rfl
example := getEvent_eq (s := exS) (b := "a") exS_inv rfl 3
example := ids_nodup (s := exS) (b := "a") exS_inv rfl

end Aw.Store.Sqlite
