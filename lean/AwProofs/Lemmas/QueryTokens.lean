import AwProofs.Lemmas.QueryEdges
/-! `_parse_token` on rendered text: each checker on each kind of literal. -/
namespace Aw.Query

def tyOf : Expr → Ty
  | .int _ => .int
  | .str _ => .str
  | .var _ => .var
  | .call _ _ => .func
  | .list _ => .list
  | .dict _ => .dict

/-- what may follow a token: not a word character, not `(` -/
def Delim (k : Str) : Prop := ∀ c, k.head? = some c → ¬ Word c ∧ c ≠ '('

theorem delim_nil : Delim [] := by intro c h; simp at h

theorem delim_cons {c : Char} {k : Str} (h1 : ¬ Word c) (h2 : c ≠ '(') : Delim (c :: k) := by
  intro d hd; simp at hd; subst hd; exact ⟨h1, h2⟩

theorem not_word_of_space {c : Char} (h : isSpace c = true) : ¬ Word c := by
  intro hw; rw [word_not_space hw] at h; cases h

theorem firstMatch_cons_fail {s : Str} {ty : Ty} {f : Checker} {rest : List (Ty × Checker)}
    (h : f s = .ok ([], s)) : firstMatch s ((ty, f) :: rest) = firstMatch s rest := by
  rw [firstMatch, h]; simp

theorem firstMatch_cons_hit {s tok r : Str} {ty : Ty} {f : Checker} {rest : List (Ty × Checker)}
    (h : f s = .ok (tok, r)) (hne : tok ≠ []) :
    firstMatch s ((ty, f) :: rest) = .ok (some (ty, tok), r) := by
  rw [firstMatch, h]; simp [hne]

/-! ### QString.check -/

theorem checkString_fail {s : Str} {a : Char} (h : s.head? = some a) (h1 : a ≠ '"') (h2 : a ≠ '\'') :
    checkString s = .ok ([], s) := by
  cases s with
  | nil => simp at h
  | cons x xs =>
    simp at h; subst h
    unfold checkString
    simp [h1, h2]

theorem strBody_escape (q : Char) (hq : q ≠ '\\') (s k : Str) (hs : ∀ ch ∈ s, ch ≠ '\\') :
    ∀ prev : Option Char, prev ≠ some '\\' →
      strBody q prev (escape q s ++ q :: k) = escape q s ++ [q] := by
  induction s with
  | nil => intro prev hp; simp [escape, strBody, hp]
  | cons ch t ih =>
    intro prev hp
    have hch := hs ch (by simp)
    have ht : ∀ x ∈ t, x ≠ '\\' := fun x hx => hs x (by simp [hx])
    unfold escape
    by_cases hcq : ch = q
    · subst hcq
      simp only [if_true]
      show strBody ch prev ('\\' :: ch :: (escape ch t ++ ch :: k)) = _
      rw [strBody]
      have n1 : ¬ ('\\' = ch ∧ prev ≠ some '\\') := by intro h; exact hq h.1.symm
      rw [if_neg n1, strBody]
      have n2 : ¬ (ch = ch ∧ some '\\' ≠ some '\\') := by intro h; exact h.2 rfl
      rw [if_neg n2, ih ht (some ch) (by simp [hq])]
      rfl
    · simp only [hcq, if_false]
      show strBody q prev (ch :: (escape q t ++ q :: k)) = _
      rw [strBody]
      have n1 : ¬ (ch = q ∧ prev ≠ some '\\') := by intro h; exact hcq h.1
      rw [if_neg n1, ih ht (some ch) (by simp [hch])]
      rfl

theorem checkString_render {q : Char} (hq : q = '"' ∨ q = '\'') (s k : Str) (hs : ∀ ch ∈ s, ch ≠ '\\') :
    checkString (renderStr q s ++ k) = .ok (renderStr q s, k) := by
  have hq' : q ≠ '\\' := by rcases hq with rfl | rfl <;> decide
  have hb : strBody q none (escape q s ++ q :: k) = escape q s ++ [q] :=
    strBody_escape q hq' s k hs none (by simp)
  have e : renderStr q s ++ k = q :: (escape q s ++ q :: k) := by simp [renderStr]
  rw [e]
  unfold checkString
  have hnq : ¬ (q ≠ '"' ∧ q ≠ '\'') := by rcases hq with rfl | rfl <;> simp
  simp only [hnq, if_false, hb]
  have hl : (q :: (escape q s ++ [q])).getLast? = some q := by
    simp [List.getLast?_cons, List.getLast?_append]
  have hlen : ¬ ((q :: (escape q s ++ [q])).getLast? ≠ some q ∨ (q :: (escape q s ++ [q])).length < 2) := by
    rw [hl]; simp
  rw [if_neg hlen]
  have : (q :: (escape q s ++ q :: k)).drop (q :: (escape q s ++ [q])).length = k := by
    have e2 : q :: (escape q s ++ q :: k) = (q :: (escape q s ++ [q])) ++ k := by simp
    rw [e2, List.drop_left]
  rw [this]
  rfl

/-! ### QInteger.check -/

theorem checkInt_fail {s : Str} (h : ∀ a, s.head? = some a → isDigit a = false) : checkInt s = ([], s) := by
  cases s with
  | nil => rfl
  | cons x xs =>
    have hx := h x rfl
    simp [checkInt, hx]

theorem takeWhile_digits {ds k : Str} (hd : ∀ c ∈ ds, isDigit c = true)
    (hk : ∀ a, k.head? = some a → isDigit a = false) : (ds ++ k).takeWhile isDigit = ds := by
  induction ds with
  | nil =>
    cases k with
    | nil => rfl
    | cons x xs => simp [hk x rfl]
  | cons d t ih =>
    simp only [List.cons_append, List.takeWhile_cons, hd d (by simp), if_true]
    rw [ih (fun c hc => hd c (by simp [hc]))]

theorem checkInt_digits {ds k : Str} (hd : ∀ c ∈ ds, isDigit c = true)
    (hk : ∀ a, k.head? = some a → isDigit a = false) : checkInt (ds ++ k) = (ds, k) := by
  unfold checkInt
  simp only [takeWhile_digits hd hk, List.drop_left]

/-! ### identifiers: QVariable.check and the first loop of QFunction.check -/

theorem not_isIdent_of_not_word {i : Nat} {c : Char} (h : ¬ Word c) : isIdent i c = false := by
  cases hh : isIdent i c with
  | false => rfl
  | true => exact absurd (word_of_isIdent hh) h

theorem identLen_ident : ∀ (i : Nat) (name k : Str), identFrom i name = true → Delim k →
    identLen i (name ++ k) = name.length
  | i, [], k, _, hk => by
    cases k with
    | nil => rfl
    | cons c cs => simp [identLen, not_isIdent_of_not_word (hk c rfl).1]
  | i, x :: xs, k, h, hk => by
    unfold identFrom at h
    simp only [Bool.and_eq_true] at h
    show identLen i (x :: (xs ++ k)) = _
    rw [identLen, if_pos h.1, identLen_ident (i + 1) xs k h.2 hk]
    simp; omega

theorem checkVar_ident {name k : Str} (h : Ident name) (hk : Delim k) : checkVar (name ++ k) = (name, k) := by
  unfold checkVar
  simp only [identLen_ident 0 name k h.2 hk, List.take_left, List.drop_left]

theorem funcHead_ident_none : ∀ (i : Nat) (name k : Str), identFrom i name = true → Delim k →
    funcHead i (name ++ k) = none
  | i, [], k, _, hk => by
    cases k with
    | nil => rfl
    | cons c cs => simp [funcHead, not_isIdent_of_not_word (hk c rfl).1, (hk c rfl).2]
  | i, x :: xs, k, h, hk => by
    unfold identFrom at h
    simp only [Bool.and_eq_true] at h
    show funcHead i (x :: (xs ++ k)) = _
    rw [funcHead, if_pos h.1, funcHead_ident_none (i + 1) xs k h.2 hk]

theorem funcHead_ident_paren : ∀ (i : Nat) (name rest : Str), identFrom i name = true →
    funcHead i (name ++ '(' :: rest) = some (i + name.length + 1)
  | i, [], rest, _ => by
    have : isIdent i '(' = false := not_isIdent_of_not_word (fun h => by
      have := word_toNat h; simp at this)
    simp [funcHead, this]
  | i, x :: xs, rest, h => by
    unfold identFrom at h
    simp only [Bool.and_eq_true] at h
    show funcHead i (x :: (xs ++ '(' :: rest)) = _
    rw [funcHead, if_pos h.1, funcHead_ident_paren (i + 1) xs rest h.2]
    simp; omega

theorem checkFunc_fail {s : Str} (h : funcHead 0 s = none) : checkFunc s = ([], s) := by
  unfold checkFunc; rw [h]

theorem funcHead_bracket {a : Char} {s : Str} (h1 : ¬ Word a) (h2 : a ≠ '(') : funcHead 0 (a :: s) = none := by
  simp [funcHead, not_isIdent_of_not_word h1, h2]

theorem checkFunc_render {f inner k : Str} (hf : Ident f) (hi : Passes '(' ')' inner) :
    checkFunc (f ++ '(' :: (inner ++ [')']) ++ k) = (f ++ '(' :: (inner ++ [')']), k) := by
  have e : f ++ '(' :: (inner ++ [')']) ++ k = f ++ '(' :: (inner ++ ')' :: k) := by simp
  unfold checkFunc
  rw [e, funcHead_ident_paren 0 f _ hf.2]
  simp only [Nat.zero_add]
  have hd : (f ++ '(' :: (inner ++ ')' :: k)).drop (f.length + 1) = inner ++ ')' :: k := by
    have : f ++ '(' :: (inner ++ ')' :: k) = (f ++ ['(']) ++ (inner ++ ')' :: k) := by simp
    rw [this, List.drop_left' (by simp)]
  rw [hd, brScan_closed (Or.inl ⟨rfl, rfl⟩) hi]
  simp only [ne_eq, not_true_eq_false, if_false]
  have e2 : f ++ '(' :: (inner ++ ')' :: k) = (f ++ '(' :: (inner ++ [')'])) ++ k := by simp
  have hl : (f ++ '(' :: (inner ++ [')'])).length = f.length + 1 + inner.length + 1 := by simp; omega
  rw [e2, ← hl, List.take_left, List.drop_left]

/-! ### QDict.check / QList.check -/

theorem checkBr_fail {o c a : Char} {s : Str} (h : a ≠ o) : checkBr o c (a :: s) = .ok ([], a :: s) := by
  unfold checkBr; simp [h]

theorem checkBr_render {o c : Char} (hp : BrPair o c) {inner : Str} (hi : Passes o c inner) (k : Str) :
    checkBr o c (o :: (inner ++ [c]) ++ k) = .ok (o :: (inner ++ [c]), k) := by
  have e : o :: (inner ++ [c]) ++ k = o :: (inner ++ c :: k) := by simp
  rw [e]
  unfold checkBr
  simp only [ne_eq, not_true_eq_false, if_false]
  rw [brScan_closed hp hi]
  have e2 : o :: (inner ++ c :: k) = (o :: (inner ++ [c])) ++ k := by simp
  have hl : (o :: (inner ++ [c])).length = 1 + inner.length + 1 := by simp; omega
  rw [e2, ← hl, List.take_left, List.drop_left]

end Aw.Query

namespace Aw.Query

theorem head_append_of_head {r k : Str} {a : Char} (h : r.head? = some a) : (r ++ k).head? = some a := by
  cases r with
  | nil => simp at h
  | cons x xs => simpa using h

theorem ident_head {name : Str} (h : Ident name) : ∃ a, name.head? = some a ∧ isIdent 0 a = true := by
  obtain ⟨hne, hi⟩ := h
  cases name with
  | nil => exact absurd rfl hne
  | cons x xs =>
    unfold identFrom at hi
    simp only [Bool.and_eq_true] at hi
    exact ⟨x, rfl, hi.1⟩

theorem word_not_quote {a : Char} (h : Word a) : a ≠ '"' ∧ a ≠ '\'' :=
  ⟨word_ne h (by decide), word_ne h (by decide)⟩

theorem not_word_lbrack : ¬ Word '[' := fun h => by have := word_toNat h; simp at this
theorem not_word_lbrace : ¬ Word '{' := fun h => by have := word_toNat h; simp at this

/-- `_parse_token`'s checker loop on a rendered expression followed by a delimiter: the token is
    exactly the rendered text, with the class of the expression -/
theorem firstMatch_render (e : Expr) (l : Layout) (hw : WF e) (hl : LayoutOK l) (k : Str) (hk : Delim k) :
    firstMatch (renderExpr l e ++ k) checkers = .ok (some (tyOf e, renderExpr l e), k) := by
  have hne := (edges_renderExpr e l hw).ne_nil
  cases e with
  | int n =>
    rw [renderExpr] at hne ⊢
    obtain ⟨h1, h2, _⟩ := decimal_spec n
    obtain ⟨a, ha⟩ : ∃ a, (decimal n).head? = some a := by
      cases hd : decimal n with
      | nil => exact absurd hd h1
      | cons x xs => exact ⟨x, rfl⟩
    have haw : Word a := Or.inr (Or.inr (h2 a (List.mem_of_head? ha)))
    have hk' : ∀ a, k.head? = some a → isDigit a = false := by
      intro c hc
      cases hd : isDigit c with
      | false => rfl
      | true => exact absurd (Or.inr (Or.inr hd)) (hk c hc).1
    rw [checkers, firstMatch_cons_fail (checkString_fail (head_append_of_head ha) (word_not_quote haw).1 (word_not_quote haw).2)]
    exact firstMatch_cons_hit (by rw [checkInt_digits h2 hk']) h1
  | str s =>
    rw [renderExpr] at hne ⊢
    rw [WF] at hw
    rw [checkers]
    exact firstMatch_cons_hit (checkString_render (quote_cases l 0) s k (strOK_noBackslash hw)) hne
  | var name =>
    rw [renderExpr] at hne ⊢
    rw [WF] at hw
    obtain ⟨a, ha, hai⟩ := ident_head hw
    have haw : Word a := word_of_isIdent hai
    have hh := head_append_of_head (k := k) ha
    have hnd : ∀ c, (name ++ k).head? = some c → isDigit c = false := by
      intro c hc; rw [hh] at hc; cases hc; exact not_digit_of_isIdent_zero hai
    obtain ⟨x, xs, hx⟩ : ∃ x xs, name ++ k = x :: xs := by
      cases hnk : name ++ k with
      | nil => simp at hnk; exact absurd hnk.1 hne
      | cons x xs => exact ⟨x, xs, rfl⟩
    have hxa : x = a := by rw [hx] at hh; simpa using hh
    rw [checkers, firstMatch_cons_fail (checkString_fail hh (word_not_quote haw).1 (word_not_quote haw).2)]
    rw [firstMatch_cons_fail (show (fun s => Except.ok (checkInt s)) (name ++ k) = .ok ([], name ++ k) by
      simp only [checkInt_fail hnd])]
    rw [firstMatch_cons_fail (show (fun s => Except.ok (checkFunc s)) (name ++ k) = .ok ([], name ++ k) by
      simp only [checkFunc_fail (funcHead_ident_none 0 name k hw.2 hk)])]
    rw [hx, firstMatch_cons_fail (checkBr_fail (by rw [hxa]; exact word_ne haw (by decide)))]
    rw [firstMatch_cons_fail (checkBr_fail (by rw [hxa]; exact word_ne haw (by decide)))]
    rw [← hx]
    exact firstMatch_cons_hit (show (fun s => Except.ok (checkVar s)) (name ++ k) = .ok (name, k) by
      simp only [checkVar_ident hw hk]) hw.1
  | call f args =>
    rw [renderExpr] at hne ⊢
    rw [WF] at hw
    obtain ⟨a, ha, hai⟩ := ident_head hw.1
    have haw : Word a := word_of_isIdent hai
    have hh : (f ++ '(' :: (renderArgs l 0 args ++ [')']) ++ k).head? = some a :=
      head_append_of_head (head_append_of_head ha)
    have hnd : ∀ c, (f ++ '(' :: (renderArgs l 0 args ++ [')']) ++ k).head? = some c → isDigit c = false := by
      intro c hc; rw [hh] at hc; cases hc; exact not_digit_of_isIdent_zero hai
    rw [checkers, firstMatch_cons_fail (checkString_fail hh (word_not_quote haw).1 (word_not_quote haw).2)]
    rw [firstMatch_cons_fail (show (fun s => Except.ok (checkInt s)) _ = .ok ([], _) by
      simp only [checkInt_fail hnd])]
    exact firstMatch_cons_hit (show (fun s => Except.ok (checkFunc s)) _ = .ok (_, k) by
      simp only [checkFunc_render hw.1 (passes_renderArgs (Or.inl ⟨rfl, rfl⟩) args l 0 hw.2 hl)]) hne
  | list xs =>
    rw [renderExpr] at hne ⊢
    rw [WF] at hw
    have hnd : ∀ c, ('[' :: (renderArgs l 0 xs ++ [']']) ++ k).head? = some c → isDigit c = false := by
      intro c hc; simp at hc; subst hc; decide
    rw [checkers, firstMatch_cons_fail (checkString_fail (a := '[') rfl (by decide) (by decide))]
    rw [firstMatch_cons_fail (show (fun s => Except.ok (checkInt s)) _ = .ok ([], _) by
      simp only [checkInt_fail hnd])]
    rw [firstMatch_cons_fail (show (fun s => Except.ok (checkFunc s)) _ = .ok ([], _) by
      simp only [List.cons_append, checkFunc_fail (funcHead_bracket not_word_lbrack (by decide))])]
    rw [List.cons_append, firstMatch_cons_fail (checkBr_fail (by decide))]
    rw [← List.cons_append]
    exact firstMatch_cons_hit (checkBr_render (Or.inr (Or.inr ⟨rfl, rfl⟩))
      (passes_renderArgs (Or.inr (Or.inr ⟨rfl, rfl⟩)) xs l 0 hw hl) k) hne
  | dict kvs =>
    rw [renderExpr] at hne ⊢
    rw [WF] at hw
    have hnd : ∀ c, ('{' :: (renderEntries l 0 kvs ++ ['}']) ++ k).head? = some c → isDigit c = false := by
      intro c hc; simp at hc; subst hc; decide
    rw [checkers, firstMatch_cons_fail (checkString_fail (a := '{') rfl (by decide) (by decide))]
    rw [firstMatch_cons_fail (show (fun s => Except.ok (checkInt s)) _ = .ok ([], _) by
      simp only [checkInt_fail hnd])]
    rw [firstMatch_cons_fail (show (fun s => Except.ok (checkFunc s)) _ = .ok ([], _) by
      simp only [List.cons_append, checkFunc_fail (funcHead_bracket not_word_lbrace (by decide))])]
    exact firstMatch_cons_hit (checkBr_render (Or.inr (Or.inl ⟨rfl, rfl⟩))
      (passes_renderEntries (Or.inr (Or.inl ⟨rfl, rfl⟩)) kvs l 0 hw.1 hl) k) hne

end Aw.Query
