import AwProofs.Lemmas.StoreSqliteEvents
/-!
# Sqlite store model: `insert_many` = the upserts through `replace`, then the fresh rows
-/
namespace Aw.Store.Sqlite
open Aw Aw.Store
variable {D : Type}

/-- the `n` ids following counter value `a` -/
def idsFrom (a : Int) : Nat → List Int
  | 0 => []
  | n + 1 => (a + 1) :: idsFrom (a + 1) n

theorem length_idsFrom (a : Int) (n : Nat) : (idsFrom a n).length = n := by
  induction n generalizing a with
  | zero => rfl
  | succ n ih => simp only [idsFrom, List.length_cons, ih]

theorem mem_idsFrom_gt {a : Int} {n : Nat} {i : Int} (h : i ∈ idsFrom a n) : a < i := by
  induction n generalizing a with
  | zero => cases h
  | succ n ih =>
    simp only [idsFrom, List.mem_cons] at h
    rcases h with rfl | h
    · omega
    · have := ih h; omega

theorem nodup_idsFrom (a : Int) (n : Nat) : (idsFrom a n).Nodup := by
  induction n generalizing a with
  | zero => exact List.Pairwise.nil
  | succ n ih =>
    simp only [idsFrom]
    rw [List.nodup_cons]
    refine ⟨?_, ih (a + 1)⟩
    intro h
    have := mem_idsFrom_gt h
    omega

theorem replace_seqE (s : St D) (b : String) (i : Int) (e : Ev D) :
    (replace s b i e).seqE = s.seqE := by
  unfold replace
  split <;> rfl

theorem foldl_replace_seqE (s : St D) (b : String) (l : List (Ev D)) :
    (l.foldl (fun s e => replace s b (e.id.getD 0) e) s).seqE = s.seqE := by
  induction l generalizing s with
  | nil => rfl
  | cons a t ih => rw [List.foldl_cons, ih, replace_seqE]

theorem foldl_replace_view {s : St D} (hI : Inv s) (b : String) (l : List (Ev D)) :
    view (l.foldl (fun s e => replace s b (e.id.getD 0) e) s) =
      l.foldl (fun v e => Spec.replaceId v b (e.id.getD 0) e) (view s) := by
  induction l generalizing s with
  | nil => rfl
  | cons a t ih =>
    rw [List.foldl_cons, List.foldl_cons, ih (replace_inv b _ a hI), replace_view hI]

theorem insertRows_view {s s' : St D} {b : String} {l : List (Ev D)} (hI : Inv s)
    (h : insertRows s b l = .ok s') :
    view s' = (l.zip (idsFrom s.seqE l.length)).foldl
      (fun v (p : Ev D × Int) => Spec.insert v b p.2 p.1) (view s) := by
  induction l generalizing s with
  | nil =>
    unfold insertRows at h
    injection h with h
    subst h
    rfl
  | cons a t ih =>
    unfold insertRows at h
    cases h1 : insertOne s b a with
    | error x => rw [h1] at h; cases h
    | ok p =>
      obtain ⟨s1, i⟩ := p
      rw [h1] at h
      obtain ⟨hi, hs⟩ := insertOne_seq h1
      have hv := (insertOne_view' hI h1).2.1
      have := ih (insertOne_inv hI h1) h
      rw [this, hv, hs, hi]
      rfl

theorem insertMany_view {s s' : St D} {b : String} {es : List (Ev D)} (hI : Inv s)
    (_hb : (view s b).isSome) (h : insertMany s b es = .ok s') :
    ∃ ids : List Int, ids.length = (es.filter (fun e => e.id.isNone)).length ∧ ids.Nodup ∧
      (∀ i ∈ ids, ∀ b', i ∉ Spec.ids (view s) b') ∧
      view s' = ((es.filter (fun e => e.id.isNone)).zip ids).foldl
        (fun v (p : Ev D × Int) => Spec.insert v b p.2 p.1)
        ((es.filter (fun e => e.id.isSome)).foldl
          (fun v e => Spec.replaceId v b (e.id.getD 0) e) (view s)) := by
  unfold insertMany at h
  refine ⟨idsFrom s.seqE (es.filter (fun e => e.id.isNone)).length, length_idsFrom _ _,
    nodup_idsFrom _ _, ?_, ?_⟩
  · intro i hi b' hmem
    have h1 := mem_idsFrom_gt hi
    have h2 := ids_le hI hmem
    omega
  · have := insertRows_view (foldl_replace_inv b _ hI) h
    rw [foldl_replace_seqE, foldl_replace_view hI] at this
    exact this

/-- a missing bucket with at least one event to insert: IntegrityError (NOT NULL on bucketrow) -/
theorem insertMany_missing {s : St D} {b : String} {es : List (Ev D)} (_hI : Inv s)
    (hb : view s b = none) (hne : es.filter (fun e => e.id.isNone) ≠ []) :
    insertMany s b es = .error .integrity := by
  unfold insertMany
  have hs : ∀ (l : List (Ev D)) (s : St D), rowOf s b = none →
      l.foldl (fun s e => replace s b (e.id.getD 0) e) s = s := by
    intro l
    induction l with
    | nil => intro s _; rfl
    | cons a t ih =>
      intro s hr
      have : replace s b (a.id.getD 0) a = s := by unfold replace; rw [hr]
      rw [List.foldl_cons, this, ih s hr]
  show insertRows ((es.filter (fun e => e.id.isSome)).foldl
    (fun s e => replace s b (e.id.getD 0) e) s) b (es.filter (fun e => e.id.isNone)) = _
  rw [hs _ s (rowOf_none_iff.mpr hb)]
  cases hl : es.filter (fun e => e.id.isNone) with
  | nil => exact absurd hl hne
  | cons a t =>
    unfold insertRows
    rw [insertOne_missing _hI hb]

end Aw.Store.Sqlite
