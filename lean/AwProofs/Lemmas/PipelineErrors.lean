import AwProofs.Lemmas.Pipeline
import AwProofs.Lemmas.QueryInterp
import AwProofs.Lemmas.QueryBuiltins
/-!
# The modelled builtin bodies raise only query errors (or `TypeError`, which the call site converts)

`ApplyQ` for `Pipeline.fullApply`: the value-only builtins (`pipeApply`) over any `other` that has the
property, and the three datastore readers (`dsApply`) over any read interface whose reads of LISTED
buckets succeed (`ReadsTotal`; true of the sqlite and memory store models below, for every state).
-/
namespace AwProofs.PipelineErrors
open Aw Aw.Query Aw.Query.Pipeline Aw.Group AwProofs.Pipeline

variable {D : Type}

theorem qerrC_ok (v : Val) : QErr (catchTypeError (.ok v)) := by
  intro e h; simp [catchTypeError] at h

theorem qerrC_func (m : String) : QErr (catchTypeError (.error (.func m))) := by
  intro e h; simp [catchTypeError] at h; subst h; exact Or.inr (Or.inr ⟨m, rfl⟩)

theorem qerrC_typeError : QErr (catchTypeError (.error (.py .typeError))) := by
  intro e h; simp [catchTypeError] at h; subst h; exact Or.inr (Or.inl ⟨_, rfl⟩)

theorem ite_q {c : Prop} [Decidable c] {a b : Except Err Val} (ha : QErr (catchTypeError a))
    (hb : QErr (catchTypeError b)) : QErr (catchTypeError (if c then a else b)) := by
  split <;> assumption

theorem pipeApply_applyQ (o : Apply) (ho : ApplyQ o) : ApplyQ (pipeApply o) := by
  intro nm a
  unfold pipeApply
  repeat' apply ite_q
  all_goals (repeat' split)
  all_goals first
    | exact ho _ _
    | exact qerrC_ok _
    | exact qerrC_typeError

/-- the reads a query can make never fail on a LISTED bucket (true of the three backend models:
    `C12.query_bucket_total_*`, `hostname_listed_*`) -/
structure ReadsTotal (r : Reads D) : Prop where
  get_ok : ∀ b ∈ r.buckets, ∀ lim st en, ∃ l, r.get b lim st en = .ok l
  count_ok : ∀ b ∈ r.buckets, ∀ st en, ∃ k, r.count b st en = .ok k
  host_ok : ∀ b ∈ r.buckets, ∃ h, r.hostname b = some h

theorem queryBucket_func (r : Reads D) (hr : ReadsTotal r) (b : String) (S E : Int) :
    (∃ l, queryBucket r b S E = .ok l) ∨ ∃ m, queryBucket r b S E = .error (.func m) := by
  unfold queryBucket verifyBucketExists
  by_cases hb : b ∈ r.buckets
  · obtain ⟨l, hl⟩ := hr.get_ok b hb (-1) (roundWin (some S) (some E)).1 (roundWin (some S) (some E)).2
    left; simp [hb, hl, BErr.lift]
  · right; simp [hb]

theorem queryBucketEventcount_func (r : Reads D) (hr : ReadsTotal r) (b : String) (S E : Int) :
    (∃ k, queryBucketEventcount r b S E = .ok k) ∨ ∃ m, queryBucketEventcount r b S E = .error (.func m) := by
  unfold queryBucketEventcount verifyBucketExists
  by_cases hb : b ∈ r.buckets
  · obtain ⟨k, hk⟩ := hr.count_ok b hb (some S) (some E)
    left; simp [hb, hk, BErr.lift]
  · right; simp [hb]

theorem findBucketLoop_func (r : Reads D) (hr : ReadsTotal r) (f : String) (h : Option String) :
    ∀ l : List String, (∀ b ∈ l, b ∈ r.buckets) →
      (∃ b, findBucketLoop r f h l = .ok b) ∨ ∃ m, findBucketLoop r f h l = .error (.func m)
  | [], _ => Or.inr ⟨_, rfl⟩
  | b :: rest, hl => by
    have ih := findBucketLoop_func r hr f h rest (fun x hx => hl x (List.mem_cons_of_mem _ hx))
    obtain ⟨hn, hhn⟩ := hr.host_ok b (hl b List.mem_cons_self)
    unfold findBucketLoop
    split
    · simp only [hhn]
      split
      · split
        · exact Or.inl ⟨_, rfl⟩
        · exact ih
      · exact Or.inl ⟨_, rfl⟩
    · exact ih

theorem findBucket_func (r : Reads D) (hr : ReadsTotal r) (f : String) (h : Option String) :
    (∃ b, findBucket r f h = .ok b) ∨ ∃ m, findBucket r f h = .error (.func m) :=
  findBucketLoop_func r hr f h r.buckets (fun _ hb => hb)

theorem dsApply_applyQ (r : Reads D) (enc : Enc D) (S E : Int) (o : Apply) (hr : ReadsTotal r) (ho : ApplyQ o) :
    ApplyQ (dsApply r enc S E o) := by
  intro nm a
  unfold dsApply
  repeat' apply ite_q
  · split
    · rename_i b
      rcases queryBucket_func r hr (String.ofList b) S E with ⟨l, h⟩ | ⟨m, h⟩
      · simp only [h]; exact qerrC_ok _
      · simp only [h, Enc.err]; exact qerrC_func _
    · exact ho _ _
  · split
    · rename_i b
      rcases queryBucketEventcount_func r hr (String.ofList b) S E with ⟨l, h⟩ | ⟨m, h⟩
      · simp only [h]; exact qerrC_ok _
      · simp only [h, Enc.err]; exact qerrC_func _
    · exact ho _ _
  · split
    · rename_i f
      rcases findBucket_func r hr (String.ofList f) none with ⟨l, h⟩ | ⟨m, h⟩
      · simp only [h]; exact qerrC_ok _
      · simp only [h, Enc.err]; exact qerrC_func _
    · rename_i f
      rcases findBucket_func r hr (String.ofList f) none with ⟨l, h⟩ | ⟨m, h⟩
      · simp only [h]; exact qerrC_ok _
      · simp only [h, Enc.err]; exact qerrC_func _
    · rename_i f hst
      rcases findBucket_func r hr (String.ofList f) (some (String.ofList hst)) with ⟨l, h⟩ | ⟨m, h⟩
      · simp only [h]; exact qerrC_ok _
      · simp only [h, Enc.err]; exact qerrC_func _
    · exact ho _ _
  · exact ho _ _

theorem fullApply_applyQ (r : Reads Data) (S E : Int) (o : Apply) (hr : ReadsTotal r) (ho : ApplyQ o) :
    ApplyQ (fullApply r S E o) :=
  dsApply_applyQ r Pipeline.enc S E _ hr (pipeApply_applyQ o ho)

open Aw.Store in
theorem readsTotal_ofSqlite (s : Sqlite.St D) : ReadsTotal (Reads.ofSqlite s) where
  get_ok := fun _ _ _ _ _ => ⟨_, rfl⟩
  count_ok := fun _ _ _ _ => ⟨_, rfl⟩
  host_ok := fun b hb => by
    obtain ⟨m, _, _, h⟩ := hostname_listed_sqlite s b hb
    exact ⟨_, h⟩

open Aw.Store in
theorem readsTotal_ofMemory (s : Memory.St D) : ReadsTotal (Reads.ofMemory s) where
  get_ok := fun b hb lim st en => by
    obtain ⟨m, es, hv, _⟩ := hostname_listed_memory s b hb
    unfold Memory.view at hv
    show ∃ l, Memory.getEvents s b lim st en = .ok l
    unfold Memory.getEvents; rw [hv]; exact ⟨_, rfl⟩
  count_ok := fun b hb st en => by
    obtain ⟨m, es, hv, _⟩ := hostname_listed_memory s b hb
    unfold Memory.view at hv
    show ∃ k, Memory.getEventcount s b st en = .ok k
    unfold Memory.getEventcount; rw [hv]; exact ⟨_, rfl⟩
  host_ok := fun b hb => by
    obtain ⟨m, _, _, h⟩ := hostname_listed_memory s b hb
    exact ⟨_, h⟩

open Aw.Store in
/-- … and of the peewee model in every state that satisfies its invariant with a coherent key cache -/
theorem readsTotal_ofPeewee (s : Peewee.St D) (hi : Peewee.Inv s) (hc : Peewee.CacheOk s) (dec : Ev D → Ev D) :
    ReadsTotal (Reads.ofPeewee s dec) where
  get_ok := fun b hb lim st en =>
    (reads_ok_peewee s hc b ((listed_peewee s dec b).1 hb) lim st en dec).1
  count_ok := fun b hb st en =>
    (reads_ok_peewee s hc b ((listed_peewee s dec b).1 hb) (-1) st en dec).2
  host_ok := fun b hb => by
    obtain ⟨m, _, _, h⟩ := hostname_listed_peewee s hi dec b hb
    exact ⟨_, h⟩

end AwProofs.PipelineErrors
