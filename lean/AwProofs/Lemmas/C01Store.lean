import AwProofs.Lemmas.Spec
/-!
# List-model facts used by C01: what a bucket looks like after inserts, and lookup by id

Generic over the backend: everything is a statement about `Spec.insert` on a `View` and about
`List.find?` on an event list whose ids are pairwise distinct.
-/
namespace Aw.Store.Spec
open Aw Aw.Store
variable {D : Type}

/-- the event as the store returns it: the id the backend chose, everything else as passed -/
abbrev withId (e : Ev D) (i : Int) : Ev D := { e with id := some i }

theorem insert_apply {v : View D} {b : String} {m : Meta} {es : List (Ev D)} (h : v b = some (m, es))
    (i : Int) (e : Ev D) : (insert v b i e) b = some (m, es ++ [withId e i]) :=
  onEvents_self h

/-- inserting the events of `l` (paired with their ids) appends them in order -/
theorem foldl_insert_apply (b : String) :
    ∀ (l : List (Ev D × Int)) (v : View D) (m : Meta) (es : List (Ev D)), v b = some (m, es) →
      (l.foldl (fun v p => insert v b p.2 p.1) v) b = some (m, es ++ l.map (fun p => withId p.1 p.2))
  | [], v, m, es, h => by simpa using h
  | p :: l, v, m, es, h => by
    have := foldl_insert_apply b l (insert v b p.2 p.1) m _ (insert_apply h p.2 p.1)
    simpa [List.append_assoc] using this

theorem ids_of {v : View D} {b : String} {m : Meta} {es : List (Ev D)} (h : v b = some (m, es)) :
    ids v b = es.filterMap (·.id) := by
  unfold ids; rw [h]

/-- with pairwise distinct ids, lookup by id finds exactly the member carrying that id -/
theorem find_of_nodup : ∀ {es : List (Ev D)}, (es.filterMap (·.id)).Nodup → ∀ {x : Ev D} {i : Int},
    x ∈ es → x.id = some i → es.find? (fun y => decide (y.id = some i)) = some x
  | [], _, _, _, hx, _ => by cases hx
  | y :: es, hnd, x, i, hx, hi => by
    by_cases hy : y.id = some i
    · -- y carries i: x must be y, otherwise i occurs twice
      rcases List.mem_cons.mp hx with rfl | hx'
      · simp [List.find?, hi]
      · exfalso
        have : i ∈ es.filterMap (·.id) := List.mem_filterMap.mpr ⟨x, hx', hi⟩
        rw [List.filterMap_cons, hy] at hnd
        exact (List.nodup_cons.mp hnd).1 this
    · rcases List.mem_cons.mp hx with rfl | hx'
      · exact absurd hi hy
      · have hnd' : (es.filterMap (·.id)).Nodup := by
          rw [List.filterMap_cons] at hnd
          cases hyi : y.id with
          | none => simpa [hyi] using hnd
          | some j => rw [hyi] at hnd; exact (List.nodup_cons.mp hnd).2
        simp only [List.find?, hy, decide_false]
        exact find_of_nodup hnd' hx' hi

theorem filter_isNone_of_all {es : List (Ev D)} (h : ∀ e ∈ es, e.id = none) :
    es.filter (fun e => e.id.isNone) = es ∧ es.filter (fun e => e.id.isSome) = [] := by
  constructor
  · exact List.filter_eq_self.mpr (fun e he => by simp [h e he])
  · exact List.filter_eq_nil_iff.mpr (fun e he => by simp [h e he])

end Aw.Store.Spec
