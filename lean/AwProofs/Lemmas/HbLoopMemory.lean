import AwProofs.Lemmas.HbLoop
import AwProofs.Lemmas.StoreMemory
/-!
# One turn of the heartbeat loop on the memory backend refines `SpecStep`
-/
namespace Aw.Store.Memory
open Aw Aw.Store Aw.Heartbeat Aw.Store.HbLoop
variable {D : Type} [DecidableEq D]
set_option linter.unusedSectionVars false

theorem getEvents_one_empty {s : St D} {b : String} {m : Meta} (hv : view s b = some (m, [])) :
    getEvents s b 1 none none = .ok [] := by
  have hl : lookup s b = some (m, []) := hv
  unfold getEvents
  rw [hl]
  rfl

theorem insertOne_new_eq {s : St D} {b : String} {m : Meta} {es : List (Ev D)} {e : Ev D}
    (hv : view s b = some (m, es)) (he : e.id = none) :
    insertOne s b e =
      .ok (setKey s b (m, es ++ [{ e with id := some (nextId es) }]), some (nextId es)) := by
  have hl : lookup s b = some (m, es) := hv
  unfold insertOne
  rw [he]
  simp only
  rw [hl]

/-- appending the heartbeat -/
theorem hb_insert {s : St D} {b : String} {m : Meta} {es : List (Ev D)} (hb : Ev D) (hI : Inv s)
    (hv : view s b = some (m, es)) :
    ∃ s' i, (insertOne s b { hb with id := none }).map (·.1) = .ok s' ∧ Inv s' ∧
      view s' b = some (m, es ++ [{ hb with id := some i }]) ∧ i ∉ es.filterMap (·.id) ∧
      ∀ b', b' ≠ b → view s' b' = view s b' := by
  have heq := insertOne_new_eq (e := { hb with id := none }) hv rfl
  obtain ⟨_, hview, hfresh⟩ := insertOne_view hI rfl heq
  refine ⟨_, nextId es, by rw [heq]; rfl, insertOne_inv hI heq, ?_, ?_, ?_⟩
  · rw [hview]; exact Spec.onEvents_self hv
  · unfold Spec.ids at hfresh; rw [hv] at hfresh; exact hfresh
  · intro b' hb'; rw [hview]; exact Spec.frame_insert hb'

theorem hbStep_refines (pt : Int) (b : String) (s : St D) (hb : Ev D) (m : Meta)
    (es : List (Ev D)) (hI : Inv s) (hv : view s b = some (m, es)) :
    ∃ s', hbStep pt b s hb = .ok s' ∧ Inv s' ∧
      (∃ es', view s' b = some (m, es') ∧ SpecStep pt es hb es') ∧
      ∀ b', b' ≠ b → view s' b' = view s b' := by
  by_cases hne : es = []
  · subst hne
    obtain ⟨s', i, hi, hI', hv', _, hfr⟩ := hb_insert hb hI hv
    refine ⟨s', ?_, hI', ⟨_, hv', SpecStep.first i rfl⟩, hfr⟩
    unfold hbStep
    rw [getEvents_one_empty hv]
    exact hi
  · obtain ⟨t, _, hn, hg, _, _⟩ := replaceLast_view hI hv hne hb
    obtain ⟨ti, hti⟩ := Option.isSome_iff_exists.mp ((ids_nodup hI hv).2 t hn.1)
    cases hm : merge pt t hb with
    | none =>
      obtain ⟨s', i, hi, hI', hv', hfresh, hfr⟩ := hb_insert hb hI hv
      refine ⟨s', ?_, hI', ⟨_, hv', SpecStep.appended t i hn hm hfresh⟩, hfr⟩
      unfold hbStep
      rw [hg]
      simp only [bind, Except.bind, hm]
      exact hi
    | some mg =>
      obtain ⟨t', s', hn', hg', hr, hview⟩ := replaceLast_view hI hv hne mg
      rw [hg] at hg'
      simp only [Except.ok.injEq, List.cons.injEq, and_true] at hg'
      subst hg'
      rw [hti, Option.getD_some] at hview
      refine ⟨s', ?_, replaceLast_inv hI hr, ⟨_, ?_, SpecStep.merged t mg ti hn hti hm⟩, ?_⟩
      · unfold hbStep
        rw [hg]
        simp only [bind, Except.bind, hm]
        exact hr
      · rw [hview]; exact Spec.onEvents_self hv
      · intro b' hb'; rw [hview]; exact Spec.frame_replaceId hb'

/-! ## a concrete state: two populated buckets and the empty bucket "c" -/

def exHb : St Nat := createBucket exSt "c" exMeta

theorem exHb_inv : Inv exHb := createBucket_inv exSt_inv "c" exMeta

theorem exHb_view : view exHb "c" = some (exMeta, []) := rfl

end Aw.Store.Memory
