import AwModel.Heartbeat
/-! Helper lemmas for C08 (and C07): heartbeat merge rule, reduce loop invariants. -/
namespace Aw.Heartbeat
open Aw
variable {D : Type} [DecidableEq D]
set_option linter.unusedSectionVars false

/-- the pulsetime hull rule of C08, stated directly -/
def Mergeable (pt : Int) (a b : Ev D) : Prop :=
  a.data = b.data ∧ a.ts ≤ b.ts ∧ b.ts ≤ a.fin + pt ∧ 0 ≤ a.dur

instance (pt : Int) (a b : Ev D) : Decidable (Mergeable pt a b) := by
  unfold Mergeable; infer_instance

/-- spec-shaped merge: the rule, with the result given as "ends at the later end" -/
def mergeSpec (pt : Int) (a b : Ev D) : Option (Ev D) :=
  if Mergeable pt a b then some { a with dur := max a.fin b.fin - a.ts } else none

theorem merge_eq_spec (pt : Int) (a b : Ev D) : merge pt a b = mergeSpec pt a b := by
  grind [merge, mergeSpec, Mergeable, Ev.fin]

theorem merge_isSome_iff (pt : Int) (a b : Ev D) : (merge pt a b).isSome ↔ Mergeable pt a b := by
  grind [merge, Mergeable, Ev.fin]

theorem merge_eq (pt : Int) (a b m : Ev D) (h : merge pt a b = some m) :
    m.ts = a.ts ∧ m.data = a.data ∧ m.id = a.id ∧ m.fin = max a.fin b.fin ∧ a.dur ≤ m.dur := by
  grind [merge, Ev.fin]

theorem merge_none_iff (pt : Int) (a b : Ev D) : merge pt a b = none ↔ ¬ Mergeable pt a b := by
  grind [merge, Mergeable, Ev.fin]

theorem mergeable_congr (pt : Int) (a b b' : Ev D) (h1 : b'.ts = b.ts) (h2 : b'.data = b.data) :
    Mergeable pt a b' ↔ Mergeable pt a b := by
  unfold Mergeable; rw [h1, h2]

/-- no two consecutive events are mergeable -/
def NoAdj (pt : Int) : List (Ev D) → Prop
  | [] => True
  | [_] => True
  | a :: b :: t => ¬ Mergeable pt a b ∧ NoAdj pt (b :: t)

/-- the same on the reversed accumulator (head is newest) -/
def NoAdjRev (pt : Int) : List (Ev D) → Prop
  | [] => True
  | [_] => True
  | b :: a :: t => ¬ Mergeable pt a b ∧ NoAdjRev pt (a :: t)

theorem noAdj_reverse_aux (pt : Int) : ∀ (acc : List (Ev D)) (out : List (Ev D)),
    NoAdjRev pt acc → NoAdj pt out →
    (∀ a b, acc.head? = some a → out.head? = some b → ¬ Mergeable pt a b) →
    NoAdj pt (acc.reverseAux out)
  | [], out, _, h2, _ => by simpa [List.reverseAux] using h2
  | [a], out, _, h2, h3 => by
      cases out with
      | nil => simp [List.reverseAux, NoAdj]
      | cons b t => simp [List.reverseAux, NoAdj]; exact ⟨h3 a b rfl rfl, h2⟩
  | b :: a :: t, out, h1, h2, h3 => by
      simp only [List.reverseAux]
      apply noAdj_reverse_aux pt (a :: t) (b :: out)
      · exact h1.2
      · cases out with
        | nil => simp [NoAdj]
        | cons c t' => exact ⟨h3 b c rfl rfl, h2⟩
      · intro a' b' ha hb
        simp at ha hb; subst ha; subst hb; exact h1.1

theorem noAdj_reverse (pt : Int) (acc : List (Ev D)) (h : NoAdjRev pt acc) :
    NoAdj pt acc.reverse := by
  have := noAdj_reverse_aux pt acc [] h (by simp [NoAdj]) (by simp)
  exact this

theorem reduceAux_noAdj (pt : Int) : ∀ (es acc : List (Ev D)),
    NoAdjRev pt acc → NoAdj pt (reduceAux pt acc es)
  | [], acc, h => by simpa [reduceAux] using noAdj_reverse pt acc h
  | e :: es, [], _ => by
      simp only [reduceAux]; exact reduceAux_noAdj pt es [e] (by simp [NoAdjRev])
  | e :: es, l :: acc, h => by
      simp only [reduceAux]
      cases hm : merge pt l e with
      | none =>
        simp only
        apply reduceAux_noAdj pt es
        exact ⟨(merge_none_iff pt l e).1 hm, h⟩
      | some m =>
        simp only
        apply reduceAux_noAdj pt es
        have hm' := merge_eq pt l e m hm
        cases acc with
        | nil => simp [NoAdjRev]
        | cons p t =>
          refine ⟨?_, h.2⟩
          rw [mergeable_congr pt p l m hm'.1 hm'.2.1]
          exact h.1

theorem reduce_noAdj (pt : Int) (l : List (Ev D)) : NoAdj pt (reduce pt l) :=
  reduceAux_noAdj pt l [] (by simp [NoAdjRev])

theorem noAdj_mid (pt : Int) : ∀ (p : List (Ev D)) (l e : Ev D) (s : List (Ev D)),
    NoAdj pt (p ++ l :: e :: s) → ¬ Mergeable pt l e
  | [], l, e, s, h => h.1
  | [x], l, e, s, h => by
    have : NoAdj pt (x :: l :: e :: s) := h
    exact this.2.1
  | x :: y :: t, l, e, s, h => by
    have : NoAdj pt (x :: y :: (t ++ l :: e :: s)) := h
    exact noAdj_mid pt (y :: t) l e s this.2

/-- reducing a list that has no adjacent mergeable pair changes nothing -/
theorem reduceAux_of_noAdj (pt : Int) : ∀ (es acc : List (Ev D)),
    NoAdj pt (acc.reverse ++ es) → reduceAux pt acc es = acc.reverse ++ es
  | [], acc, _ => by simp [reduceAux]
  | e :: es, [], h => by
    simp only [reduceAux]
    have := reduceAux_of_noAdj pt es [e] (by simpa using h)
    simpa using this
  | e :: es, l :: acc, h => by
    simp only [reduceAux]
    have hadj : ¬ Mergeable pt l e := by
      have : NoAdj pt ((l :: acc).reverse ++ e :: es) := h
      simp only [List.reverse_cons, List.append_assoc, List.singleton_append] at this
      exact noAdj_mid pt acc.reverse l e es this
    have hm := (merge_none_iff pt l e).2 hadj
    simp only [hm]
    have := reduceAux_of_noAdj pt es (e :: l :: acc) (by simpa using h)
    simpa using this

/-- `o` covers the interval of `e` -/
def Covers (o e : Ev D) : Prop := o.ts ≤ e.ts ∧ e.fin ≤ o.fin

theorem reduceAux_covers (pt : Int) : ∀ (es acc : List (Ev D)) (x : Ev D), 0 ≤ x.dur →
    ((∃ o ∈ acc, Covers o x) ∨ x ∈ es) → ∃ o ∈ reduceAux pt acc es, Covers o x
  | [], acc, x, _, h => by
    rcases h with ⟨o, ho, hc⟩ | h
    · exact ⟨o, by simp [reduceAux, ho], hc⟩
    · simp at h
  | e :: es, [], x, hx, h => by
    simp only [reduceAux]
    apply reduceAux_covers pt es [e] x hx
    rcases h with ⟨o, ho, _⟩ | h
    · simp at ho
    · rcases List.mem_cons.1 h with rfl | h'
      · exact Or.inl ⟨x, by simp, ⟨Int.le_refl _, Int.le_refl _⟩⟩
      · exact Or.inr h'
  | e :: es, l :: acc, x, hx, h => by
    simp only [reduceAux]
    cases hm : merge pt l e with
    | none =>
      simp only
      apply reduceAux_covers pt es (e :: l :: acc) x hx
      rcases h with ⟨o, ho, hc⟩ | h
      · exact Or.inl ⟨o, List.mem_cons_of_mem _ ho, hc⟩
      · rcases List.mem_cons.1 h with rfl | h'
        · exact Or.inl ⟨x, by simp, ⟨Int.le_refl _, Int.le_refl _⟩⟩
        · exact Or.inr h'
    | some m =>
      simp only
      have me := merge_eq pt l e m hm
      have hmg := (merge_isSome_iff pt l e).1 (by simp [hm])
      apply reduceAux_covers pt es (m :: acc) x hx
      rcases h with ⟨o, ho, hc⟩ | h
      · rcases List.mem_cons.1 ho with rfl | ho'
        · refine Or.inl ⟨m, by simp, ?_⟩
          unfold Covers Ev.fin at *
          have := me.1; have := me.2.2.2.2; omega
        · exact Or.inl ⟨o, List.mem_cons_of_mem _ ho', hc⟩
      · rcases List.mem_cons.1 h with rfl | h'
        · refine Or.inl ⟨m, by simp, ?_⟩
          unfold Covers Mergeable Ev.fin at *
          have := me.1; have := me.2.2.2.1
          omega
        · exact Or.inr h'

/-- one step of the left fold of the spec rule over a reversed accumulator -/
def specStep (pt : Int) (acc : List (Ev D)) (e : Ev D) : List (Ev D) :=
  match acc with
  | [] => [e]
  | l :: acc' =>
    match mergeSpec pt l e with
    | some m => m :: acc'
    | none => e :: l :: acc'

theorem reduceAux_eq_foldl (pt : Int) : ∀ (es acc : List (Ev D)),
    reduceAux pt acc es = (es.foldl (specStep pt) acc).reverse
  | [], acc => by simp [reduceAux]
  | e :: es, [] => by
    simp only [reduceAux, List.foldl_cons, specStep]
    exact reduceAux_eq_foldl pt es [e]
  | e :: es, l :: acc => by
    simp only [reduceAux, List.foldl_cons, specStep, ← merge_eq_spec]
    cases hm : merge pt l e with
    | none => exact reduceAux_eq_foldl pt es (e :: l :: acc)
    | some m => exact reduceAux_eq_foldl pt es (m :: acc)

end Aw.Heartbeat
