import AwModel.Query.Parse
/-! Lemmas about `lstrip` / `strip` / `find` and the "not blank at the end" invariant. -/
namespace Aw.Query

theorem lstrip_length_le (s : Str) : (lstrip s).length ≤ s.length := by
  induction s with
  | nil => simp [lstrip]
  | cons c cs ih => unfold lstrip; split <;> simp <;> omega

theorem rstrip_length_le (s : Str) : (rstrip s).length ≤ s.length := by
  unfold rstrip
  have := lstrip_length_le s.reverse
  simpa using this

theorem strip_length_le (s : Str) : (strip s).length ≤ s.length := by
  unfold strip
  exact Nat.le_trans (rstrip_length_le _) (lstrip_length_le _)

theorem lstrip_eq_nil_iff (s : Str) : lstrip s = [] ↔ ∀ c ∈ s, isSpace c = true := by
  induction s with
  | nil => simp [lstrip]
  | cons c cs ih =>
    unfold lstrip
    by_cases h : isSpace c = true
    · simp [h, ih]
    · simp [h]

theorem mem_lstrip {s : Str} {c : Char} (hc : c ∈ s) (hs : isSpace c = false) : c ∈ lstrip s := by
  induction s with
  | nil => simp at hc
  | cons x xs ih =>
    unfold lstrip
    by_cases h : isSpace x = true
    · simp only [h, if_true]
      rcases List.mem_cons.mp hc with rfl | h'
      · simp [hs] at h
      · exact ih h'
    · simp only [h]; exact hc

theorem mem_of_mem_lstrip {s : Str} {c : Char} (hc : c ∈ lstrip s) : c ∈ s := by
  induction s with
  | nil => simp [lstrip] at hc
  | cons x xs ih =>
    unfold lstrip at hc
    by_cases h : isSpace x = true
    · simp only [h, if_true] at hc; exact List.mem_cons_of_mem _ (ih hc)
    · simp only [h] at hc; exact hc

theorem rstrip_eq_nil_iff (s : Str) : rstrip s = [] ↔ ∀ c ∈ s, isSpace c = true := by
  unfold rstrip
  rw [List.reverse_eq_nil_iff, lstrip_eq_nil_iff]
  simp

theorem strip_eq_nil_iff (s : Str) : strip s = [] ↔ ∀ c ∈ s, isSpace c = true := by
  unfold strip
  rw [rstrip_eq_nil_iff]
  constructor
  · intro h c hc
    by_cases hs : isSpace c = true
    · exact hs
    · exact h c (mem_lstrip hc (by simpa using hs))
  · intro h c hc
    exact h c (mem_of_mem_lstrip hc)

/-- the string is empty or ends in a non-blank character (what is left of a stripped string
    after cutting a prefix off) -/
def Tail (s : Str) : Prop := s = [] ∨ ∃ c, s.getLast? = some c ∧ isSpace c = false

theorem lstrip_head (s : Str) : lstrip s = [] ∨ ∃ c, (lstrip s).head? = some c ∧ isSpace c = false := by
  induction s with
  | nil => simp [lstrip]
  | cons x xs ih =>
    unfold lstrip
    by_cases h : isSpace x = true
    · simpa [h] using ih
    · right; exact ⟨x, by simp [h], by simpa using h⟩

theorem tail_rstrip (s : Str) : Tail (rstrip s) := by
  unfold rstrip Tail
  rcases lstrip_head s.reverse with h | ⟨c, h1, h2⟩
  · left; simp [h]
  · right; exact ⟨c, by rw [List.getLast?_reverse]; exact h1, h2⟩

theorem tail_strip (s : Str) : Tail (strip s) := tail_rstrip _

theorem tail_drop {s : Str} (h : Tail s) (n : Nat) : Tail (s.drop n) := by
  by_cases hn : s.length ≤ n
  · left; exact List.drop_eq_nil_of_le hn
  · rcases h with h | ⟨c, h1, h2⟩
    · left; simp [h]
    · right; refine ⟨c, ?_, h2⟩
      rw [List.getLast?_drop]; simp [hn, h1]

theorem tail_nil : Tail [] := Or.inl rfl

theorem strip_ne_nil_of_tail {s : Str} (h : Tail s) (hne : s ≠ []) : strip s ≠ [] := by
  rcases h with h | ⟨c, h1, h2⟩
  · exact absurd h hne
  · intro hs
    have := (strip_eq_nil_iff s).mp hs c (List.mem_of_getLast? h1)
    simp [h2] at this

theorem find_lt {c : Char} {s : Str} {k : Nat} (h : find c s = some k) : k < s.length := by
  induction s generalizing k with
  | nil => simp [find] at h
  | cons x xs ih =>
    unfold find at h
    split at h
    · cases h; simp
    · cases hf : find c xs with
      | none => simp [hf] at h
      | some j => simp [hf] at h; have := ih hf; simp; omega

end Aw.Query
