import AwModel.Config
/-!
# Lemmas about the model of `_comment_out_toml` (characters and lines)
-/
namespace AwProofs.Config
open Aw.Config

/-! ## `split("\n")` / `"\n".join` -/

theorem splitNl_ne_nil : ∀ s : Text, splitNl s ≠ []
  | [] => by simp [splitNl]
  | c :: cs => by
    simp only [splitNl]
    split
    · simp
    · split <;> simp

theorem splitNl_cons_ne (c : Char) (cs : Text) (hc : c ≠ '\n') :
    ∃ l ls, splitNl cs = l :: ls ∧ splitNl (c :: cs) = (c :: l) :: ls := by
  cases h : splitNl cs with
  | nil => exact absurd h (splitNl_ne_nil cs)
  | cons l ls => exact ⟨l, ls, rfl, by simp [splitNl, hc, h]⟩

theorem splitNl_no_nl : ∀ (s : Text), ∀ l ∈ splitNl s, '\n' ∉ l
  | [] => by simp [splitNl]
  | c :: cs => by
    by_cases hc : c = '\n'
    · subst hc
      intro l hl
      simp only [splitNl, if_true, List.mem_cons] at hl
      rcases hl with rfl | hl
      · simp
      · exact splitNl_no_nl cs l hl
    · obtain ⟨l0, ls, h1, h2⟩ := splitNl_cons_ne c cs hc
      intro l hl
      rw [h2] at hl
      have ih := splitNl_no_nl cs
      rw [h1] at ih
      simp only [List.mem_cons] at hl
      rcases hl with rfl | hl
      · have := ih l0 (by simp)
        simp only [List.mem_cons, not_or]
        exact ⟨fun h => hc h.symm, this⟩
      · exact ih l (by simp [hl])

theorem splitNl_append_nl : ∀ (l : Text) (rest : Text), '\n' ∉ l →
    splitNl (l ++ '\n' :: rest) = l :: splitNl rest
  | [], rest, _ => by simp [splitNl]
  | c :: l, rest, h => by
    simp only [List.mem_cons, not_or] at h
    have hc : c ≠ '\n' := fun e => h.1 e.symm
    have ih := splitNl_append_nl l rest h.2
    simp [splitNl, hc, ih]

theorem splitNl_single : ∀ (l : Text), '\n' ∉ l → splitNl l = [l]
  | [], _ => by simp [splitNl]
  | c :: l, h => by
    simp only [List.mem_cons, not_or] at h
    have hc : c ≠ '\n' := fun e => h.1 e.symm
    simp [splitNl, hc, splitNl_single l h.2]

/-- `"\n".join(ls).split("\n") == ls` for non-empty `ls` whose lines contain no newline -/
theorem splitNl_joinNl : ∀ (ls : List Text), ls ≠ [] → (∀ l ∈ ls, '\n' ∉ l) → splitNl (joinNl ls) = ls
  | [], h, _ => absurd rfl h
  | [l], _, h => by simpa [joinNl] using splitNl_single l (h l (by simp))
  | l :: l' :: ls, _, h => by
    simp only [joinNl]
    rw [splitNl_append_nl l _ (h l (by simp)),
      splitNl_joinNl (l' :: ls) (by simp) (fun x hx => h x (by simp [hx]))]

/-! ## `strip()` of a commented line -/

theorem dropWhile_append_stop {α} (p : α → Bool) (a : α) (ha : p a = false) :
    ∀ xs : List α, (xs ++ [a]).dropWhile p = xs.dropWhile p ++ [a]
  | [] => by simp [List.dropWhile, ha]
  | x :: xs => by
    by_cases hx : p x = true
    · simp [List.dropWhile, hx, dropWhile_append_stop p a ha xs]
    · simp [List.dropWhile, hx]

theorem hash_not_space : pyIsSpace '#' = false := by decide

/-- a line that got a `#` in front is a comment line: its stripped text starts with `#` -/
theorem pyStrip_hash (l : Text) : ∃ r, pyStrip ('#' :: l) = '#' :: r := by
  unfold pyStrip
  have h1 : ('#' :: l).dropWhile pyIsSpace = '#' :: l := by simp [List.dropWhile, hash_not_space]
  rw [h1, List.reverse_cons, dropWhile_append_stop pyIsSpace '#' hash_not_space]
  refine ⟨(List.dropWhile pyIsSpace l.reverse).reverse, ?_⟩
  simp

/-! ## the line loop -/

def isBlankLine (l : Text) : Bool := (pyStrip l).isEmpty

def isCommentLine (l : Text) : Bool :=
  match pyStrip l with
  | '#' :: _ => true
  | _ => false

/-- `[table]` header line: stripped text starts with `[` but not with `[[` -/
def isPlainHeader (l : Text) : Bool := startsBr (pyStrip l) && !startsBrBr (pyStrip l)

/-- the lines `_comment_out_toml` leaves uncommented although they are not blank -/
def kept : Bool → List Text → List Text
  | _, [] => []
  | seen, l :: ls =>
    let t := pyStrip l
    let seen' := seen || startsBrBr t
    if !t.isEmpty && (seen' || !startsBr t) then kept seen' ls
    else if t.isEmpty then kept seen' ls
    else l :: kept seen' ls

theorem startsBrBr_startsBr (t : Text) (h : startsBrBr t = true) : startsBr t = true := by
  unfold startsBrBr at h
  split at h
  · simp [startsBr]
  · simp at h

theorem startsBr_nonempty (t : Text) (h : startsBr t = true) : t.isEmpty = false := by
  unfold startsBr at h
  split at h
  · simp
  · simp at h

/-- the kept lines are the plain `[table]` header lines before the first `[[..]]` header line -/
theorem kept_false_eq : ∀ ls : List Text,
    kept false ls =
      (ls.takeWhile (fun l => !startsBrBr (pyStrip l))).filter (fun l => startsBr (pyStrip l))
  | [] => by simp [kept]
  | l :: ls => by
    have ih := kept_false_eq ls
    by_cases h2 : startsBrBr (pyStrip l) = true
    · have h1 := startsBrBr_startsBr _ h2
      have h0 := startsBr_nonempty _ h1
      have : ∀ ls', kept true ls' = [] := by
        intro ls'
        induction ls' with
        | nil => simp [kept]
        | cons a r ih' =>
          by_cases he : (pyStrip a).isEmpty = true <;> simp [kept, he, ih']
      simp [kept, h2, h0, this, List.takeWhile]
    · simp only [Bool.not_eq_true] at h2
      by_cases h1 : startsBr (pyStrip l) = true
      · have h0 := startsBr_nonempty _ h1
        simp [kept, h2, h1, h0, ih, List.takeWhile]
      · simp only [Bool.not_eq_true] at h1
        by_cases he : (pyStrip l).isEmpty = true <;>
          simp [kept, h2, h1, he, ih, List.takeWhile]

theorem commentLines_length : ∀ (seen : Bool) (ls : List Text),
    (commentLines seen ls).length = ls.length
  | _, [] => by simp [commentLines]
  | seen, l :: ls => by simp [commentLines, commentLines_length _ ls]

theorem commentLines_no_nl : ∀ (seen : Bool) (ls : List Text), (∀ l ∈ ls, '\n' ∉ l) →
    ∀ o ∈ commentLines seen ls, '\n' ∉ o
  | _, [], _ => by simp [commentLines]
  | seen, l :: ls, h => by
    intro o ho
    simp only [commentLines, List.mem_cons] at ho
    rcases ho with rfl | ho
    · have hl := h l (by simp)
      split
      · simp only [List.mem_cons, not_or]; exact ⟨by decide, hl⟩
      · exact hl
    · exact commentLines_no_nl _ ls (fun x hx => h x (by simp [hx])) o ho

/-- every line of the first-run file is blank (an untouched blank line of the input), a `#` comment,
    or one of the kept header lines -/
theorem commentLines_classes : ∀ (seen : Bool) (ls : List Text), ∀ o ∈ commentLines seen ls,
    (isBlankLine o = true ∧ o ∈ ls) ∨ isCommentLine o = true ∨ o ∈ kept seen ls
  | _, [], o, ho => by simp [commentLines] at ho
  | seen, l :: ls, o, ho => by
    simp only [commentLines, List.mem_cons] at ho
    rcases ho with rfl | ho
    · by_cases hc : (!(pyStrip l).isEmpty && ((seen || startsBrBr (pyStrip l)) || !startsBr (pyStrip l))) = true
      · right; left
        simp only [hc, if_true]
        obtain ⟨r, hr⟩ := pyStrip_hash l
        simp [isCommentLine, hr]
      · simp only [hc]
        by_cases he : (pyStrip l).isEmpty = true
        · left; simp [isBlankLine, he]
        · right; right
          simp only [Bool.not_eq_true] at he
          simp only [he, Bool.not_false, Bool.true_and] at hc
          simp [kept, he, hc]
    · rcases commentLines_classes _ ls o ho with ⟨hb, hm⟩ | hcm | hk
      · left; exact ⟨hb, by simp [hm]⟩
      · right; left; exact hcm
      · right; right
        simp only [kept]
        split
        · exact hk
        · split
          · exact hk
          · simp [hk]

theorem isPlainHeader_of_comment (o : Text) (h : isCommentLine o = true) : isPlainHeader o = false := by
  unfold isCommentLine at h
  unfold isPlainHeader
  split at h
  · rename_i r heq; simp [heq, startsBr]
  · simp at h

theorem isPlainHeader_of_blank (o : Text) (h : (pyStrip o).isEmpty = true) : isPlainHeader o = false := by
  unfold isPlainHeader
  have : pyStrip o = [] := by simpa using h
  simp [this, startsBr]

/-- the plain header lines of the first-run file are exactly the kept lines, in order -/
theorem commentLines_headers : ∀ (seen : Bool) (ls : List Text),
    (commentLines seen ls).filter isPlainHeader = kept seen ls
  | _, [] => by simp [commentLines, kept]
  | seen, l :: ls => by
    have ih := commentLines_headers (seen || startsBrBr (pyStrip l)) ls
    by_cases hc : (!(pyStrip l).isEmpty && ((seen || startsBrBr (pyStrip l)) || !startsBr (pyStrip l))) = true
    · have : isPlainHeader ('#' :: l) = false := by
        apply isPlainHeader_of_comment
        obtain ⟨r, hr⟩ := pyStrip_hash l
        simp [isCommentLine, hr]
      simp [commentLines, kept, hc, this, ih]
    · by_cases he : (pyStrip l).isEmpty = true
      · have := isPlainHeader_of_blank l he
        simp [commentLines, kept, he, this, ih]
      · simp only [Bool.not_eq_true] at he
        have hc' := hc
        simp only [he, Bool.not_false, Bool.true_and, Bool.or_eq_true, Bool.not_eq_true', not_or,
          Bool.not_eq_true, Bool.not_eq_false] at hc'
        have : isPlainHeader l = true := by simp [isPlainHeader, hc'.1.2, hc'.2]
        simp only [hc'.1.1, hc'.1.2, Bool.or_false] at ih
        simp [commentLines, kept, he, hc'.1.1, hc'.1.2, hc'.2, this, ih]

/-- the lines of the first-run file are the loop's output on the lines of the defaults -/
theorem lines_commentOut (s : Text) : splitNl (commentOut s) = commentLines false (splitNl s) := by
  unfold commentOut
  apply splitNl_joinNl
  · intro h
    have := commentLines_length false (splitNl s)
    rw [h] at this
    exact splitNl_ne_nil s (List.length_eq_zero_iff.mp this.symm)
  · exact commentLines_no_nl false _ (splitNl_no_nl s)

end AwProofs.Config
