import AwModel.Store.Heap
/-!
# Heap model of the memory backend: the store and its client share no mutable object

`Sep s`: no object reachable from the store (bucket metadata dicts, event objects, and the data
dicts behind them) is held by the client; everything reachable is allocated; nothing beyond `next`
is allocated or held. Every API step keeps it (`api_sep`), client mutations keep it
(`mutate_sep`) and cannot change `observe` (`mutate_observe`).
-/
namespace Aw.Store.Heap
open Aw Aw.Store

/-- objects the store dict `st` refers to directly: metadata dicts and event objects -/
def storeObjOf (st : Store) (r : Ref) : Prop := ∃ p ∈ st, r = p.2.1 ∨ r ∈ p.2.2

/-- the data dict an object points to -/
def cellRef : Cell → Option Ref
  | .ev o => some o.dataRef
  | .mdict o => some o.dataRef
  | .dict _ => none

/-- the data dict behind an event object or a metadata dict -/
def dataRefOf (s : State) (r : Ref) : Option Ref :=
  match s.heap r with
  | some (.ev o) => some o.dataRef
  | some (.mdict o) => some o.dataRef
  | _ => none

theorem dataRefOf_eq (s : State) (r : Ref) : dataRefOf s r = (s.heap r).bind cellRef := by
  unfold dataRefOf
  cases s.heap r with
  | none => rfl
  | some c => cases c <;> rfl

/-- objects reachable from the root set `R`: the roots and the data dicts behind them -/
def reach (R : Ref → Prop) (s : State) (r : Ref) : Prop :=
  R r ∨ ∃ x, R x ∧ dataRefOf s x = some r

/-- separation of everything reachable from `R` from the client. The root set is a parameter: while
    an API function runs, the deep copies it has made and not yet put into the store dict are
    roots as well. -/
structure SepR (R : Ref → Prop) (s : State) : Prop where
  sep : ∀ r, reach R s r → s.client r = false
  bound : ∀ r, reach R s r → r < s.next
  fresh : ∀ r, s.next ≤ r → s.heap r = none ∧ s.client r = false
  /-- the client holds the data dict of every object it holds (so it can mutate it) -/
  closed : ∀ r, s.client r = true → ∀ d, dataRefOf s r = some d → s.client d = true

/-- objects reachable from the store -/
def storeReach (s : State) (r : Ref) : Prop := reach (storeObjOf s.store) s r

/-- the separation invariant: no object reachable from the store is client-held (and everything
    reachable is allocated, nothing beyond `next` is allocated or held, and the client holds the
    data dicts of the objects it holds) -/
def Sep (s : State) : Prop := SepR (storeObjOf s.store) s

theorem sep_init : Sep {} := by
  refine ⟨?_, ?_, fun r _ => ⟨rfl, rfl⟩, fun r hr => by cases hr⟩ <;>
  · intro r h
    rcases h with ⟨p, hp, _⟩ | ⟨x, ⟨p, hp, _⟩, _⟩ <;> cases hp

/-! ## primitives -/

theorem SepR.mono {R R' : Ref → Prop} {s : State} (h : SepR R s) (hm : ∀ r, R' r → R r) :
    SepR R' s := by
  have hr : ∀ r, reach R' s r → reach R s r := by
    intro r hr
    rcases hr with hr | ⟨x, hx, hd⟩
    · exact Or.inl (hm r hr)
    · exact Or.inr ⟨x, hm x hx, hd⟩
  exact ⟨fun r h' => h.sep r (hr r h'), fun r h' => h.bound r (hr r h'), h.fresh, h.closed⟩

/-- the store dict is not part of `SepR` -/
theorem SepR.setStore {R : Ref → Prop} {s : State} (h : SepR R s) (st : Store) :
    SepR R { s with store := st } :=
  ⟨fun r hr => h.sep r hr, fun r hr => h.bound r hr, h.fresh, h.closed⟩

theorem dataRefOf_alloc {s : State} {c : Cell} {x : Ref} (hx : x ≠ s.next) :
    dataRefOf (alloc s c).1 x = dataRefOf s x := by
  simp only [dataRefOf, alloc, hx, if_false]

theorem reach_alloc {R : Ref → Prop} {s : State} (h : SepR R s) (c : Cell) {r : Ref}
    (hr : reach R (alloc s c).1 r) : reach R s r := by
  rcases hr with hr | ⟨x, hx, hd⟩
  · exact Or.inl hr
  · have : x ≠ s.next := Nat.ne_of_lt (h.bound x (Or.inl hx))
    rw [dataRefOf_alloc this] at hd
    exact Or.inr ⟨x, hx, hd⟩

/-- a newly allocated object is garbage: neither reachable from the roots nor held -/
theorem SepR.held_lt {R : Ref → Prop} {s : State} (h : SepR R s) {r : Ref} (hr : s.client r = true) :
    r < s.next := by
  rcases Nat.lt_or_ge r s.next with hlt | hge
  · exact hlt
  · have := (h.fresh r hge).2
    rw [hr] at this
    cases this

theorem SepR.alloc {R : Ref → Prop} {s : State} (h : SepR R s) (c : Cell) : SepR R (Heap.alloc s c).1 := by
  refine ⟨fun r hr => h.sep r (reach_alloc h c hr), fun r hr => ?_, fun r hr => ?_, fun r hr d hd => ?_⟩
  rotate_left 2
  · have hr' : s.client r = true := hr
    rw [dataRefOf_alloc (Nat.ne_of_lt (h.held_lt hr'))] at hd
    exact h.closed r hr' d hd
  · have := h.bound r (reach_alloc h c hr)
    show r < s.next + 1
    grind
  · have hr' : s.next + 1 ≤ r := hr
    have := h.fresh r (by grind)
    refine ⟨?_, this.2⟩
    show (if r = s.next then some c else s.heap r) = none
    rw [if_neg (by grind)]
    exact this.1

/-- a newly allocated object that the client holds -/
theorem SepR.allocHeld {R : Ref → Prop} {s : State} (h : SepR R s) (c : Cell)
    (hcl : ∀ d, cellRef c = some d → s.client d = true) :
    SepR R (Heap.allocHeld s c).1 := by
  have h1 := h.alloc c
  refine ⟨fun r hr => ?_, fun r hr => h1.bound r hr, fun r hr => ?_, fun r hr d hd => ?_⟩
  rotate_left 2
  · have hr' : (decide (r = s.next) || s.client r) = true := hr
    have hd' : dataRefOf (Heap.alloc s c).1 r = some d := hd
    show (decide (d = s.next) || s.client d) = true
    by_cases he : r = s.next
    · subst he
      have : cellRef c = some d := by
        rw [dataRefOf_eq] at hd'
        simpa [Heap.alloc] using hd'
      rw [hcl d this, Bool.or_true]
    · simp only [he, decide_false, Bool.false_or] at hr'
      rw [dataRefOf_alloc he] at hd'
      rw [h.closed r hr' d hd', Bool.or_true]
  · have hr' : reach R (Heap.alloc s c).1 r := hr
    have hb := h.bound r (reach_alloc h c hr')
    show (decide (r = s.next) || s.client r) = false
    rw [h.sep r (reach_alloc h c hr')]
    simp only [Bool.or_false, decide_eq_false_iff_not]
    grind
  · have hr' : s.next + 1 ≤ r := hr
    refine ⟨(h1.fresh r hr).1, ?_⟩
    show (decide (r = s.next) || s.client r) = false
    rw [(h.fresh r (by grind)).2]
    simp only [Bool.or_false, decide_eq_false_iff_not]
    grind

/-- adopting a garbage object whose data dict is garbage as a root -/
theorem SepR.adopt {R : Ref → Prop} {s : State} (h : SepR R s) {r : Ref} (hc : s.client r = false)
    (hn : r < s.next) (hd : ∀ d, dataRefOf s r = some d → s.client d = false ∧ d < s.next) :
    SepR (fun x => R x ∨ x = r) s := by
  have key : ∀ y, reach (fun x => R x ∨ x = r) s y → reach R s y ∨ y = r ∨ dataRefOf s r = some y := by
    intro y hy
    rcases hy with (hy | hy) | ⟨x, (hx | hx), hxd⟩
    · exact Or.inl (Or.inl hy)
    · exact Or.inr (Or.inl hy)
    · exact Or.inl (Or.inr ⟨x, hx, hxd⟩)
    · subst hx; exact Or.inr (Or.inr hxd)
  refine ⟨fun y hy => ?_, fun y hy => ?_, h.fresh, h.closed⟩
  · rcases key y hy with hy | rfl | hy
    · exact h.sep y hy
    · exact hc
    · exact (hd y hy).1
  · rcases key y hy with hy | rfl | hy
    · exact h.bound y hy
    · exact hn
    · exact (hd y hy).2

/-- a new data dict and a new object pointing to it, adopted as a root -/
theorem SepR.allocOwned {R : Ref → Prop} {s : State} (h : SepR R s) (t : String) (c : Cell)
    (hc : ∀ d, dataRefOf (Heap.alloc (Heap.alloc s (.dict t)).1 c).1 (s.next + 1) = some d → d = s.next) :
    SepR (fun x => R x ∨ x = s.next + 1) (Heap.alloc (Heap.alloc s (.dict t)).1 c).1 := by
  have h2 := (h.alloc (.dict t)).alloc c
  have hf := h.fresh
  refine h2.adopt ?_ ?_ ?_
  · exact (hf (s.next + 1) (by grind)).2
  · show s.next + 1 < s.next + 1 + 1
    grind
  · intro d hd
    have := hc d hd
    subst this
    exact ⟨(hf s.next (by grind)).2, by show s.next < s.next + 1 + 1; grind⟩

/-- `copy.deepcopy` of an event into the root set -/
theorem SepR.deepEv {R : Ref → Prop} {s : State} (h : SepR R s) (o : EvObj) :
    SepR (fun x => R x ∨ x = (Heap.deepEv s o).2) (Heap.deepEv s o).1 := by
  refine h.allocOwned (textAt s o.dataRef) (.ev { o with dataRef := s.next }) ?_
  intro d hd
  simp [dataRefOf, Heap.alloc] at hd
  exact hd.symm

theorem SepR.deepMeta {R : Ref → Prop} {s : State} (h : SepR R s) (o : MetaObj) :
    SepR (fun x => R x ∨ x = (Heap.deepMeta s o).2) (Heap.deepMeta s o).1 := by
  refine h.allocOwned (textAt s o.dataRef) (.mdict { o with dataRef := s.next }) ?_
  intro d hd
  simp [dataRefOf, Heap.alloc] at hd
  exact hd.symm

theorem client_allocHeld_self (s : State) (c : Cell) : (Heap.allocHeld s c).1.client s.next = true := by
  simp [Heap.allocHeld, Heap.alloc, Heap.hold]

theorem SepR.handOutEv {R : Ref → Prop} {s : State} (h : SepR R s) (o : EvObj) :
    SepR R (Heap.handOutEv s o).1 := by
  refine (h.allocHeld (.dict (textAt s o.dataRef)) (fun d hd => by cases hd)).allocHeld _ ?_
  intro d hd
  simp only [cellRef, Option.some.injEq] at hd
  subst hd
  exact client_allocHeld_self s _

theorem SepR.handOutMeta {R : Ref → Prop} {s : State} (h : SepR R s) (o : MetaObj) :
    SepR R (Heap.handOutMeta s o).1 := by
  refine (h.allocHeld (.dict (textAt s o.dataRef)) (fun d hd => by cases hd)).allocHeld _ ?_
  intro d hd
  simp only [cellRef, Option.some.injEq] at hd
  subst hd
  exact client_allocHeld_self s _

theorem dataRefOf_write {s : State} {r x : Ref} {c : Cell} (hx : x ≠ r) :
    dataRefOf (write s r c) x = dataRefOf s x := by
  simp only [dataRefOf, write, hx, if_false]

/-- the client overwrites an object it holds -/
theorem SepR.writeHeld {R : Ref → Prop} {s : State} (h : SepR R s) {r : Ref} (hc : s.client r = true)
    (c : Cell) (hcl : ∀ d, cellRef c = some d → s.client d = true) : SepR R (write s r c) := by
  have hne : ∀ x, R x → x ≠ r := by
    intro x hx he
    have := h.sep x (Or.inl hx)
    rw [he, hc] at this
    cases this
  have hr : ∀ y, reach R (write s r c) y → reach R s y := by
    intro y hy
    rcases hy with hy | ⟨x, hx, hd⟩
    · exact Or.inl hy
    · rw [dataRefOf_write (hne x hx)] at hd
      exact Or.inr ⟨x, hx, hd⟩
  refine ⟨fun y hy => h.sep y (hr y hy), fun y hy => h.bound y (hr y hy), fun y hy => ?_,
    fun x hx d hd => ?_⟩
  rotate_left
  · have hx' : s.client x = true := hx
    show s.client d = true
    by_cases he : x = r
    · subst he
      have : cellRef c = some d := by
        rw [dataRefOf_eq] at hd
        simpa [write] using hd
      exact hcl d this
    · rw [dataRefOf_write he] at hd
      exact h.closed x hx' d hd
  have hf := h.fresh y hy
  refine ⟨?_, hf.2⟩
  have : y ≠ r := by
    intro he
    rw [he, hc] at hf
    cases hf.2
  show (if y = r then some c else s.heap y) = none
  rw [if_neg this]
  exact hf.1

/-- the store overwrites one of its own objects; the data dict it now points to is not held -/
theorem SepR.writeRoot {R : Ref → Prop} {s : State} (h : SepR R s) {r : Ref} (hr : R r) (c : Cell)
    (hd : ∀ d, dataRefOf (write s r c) r = some d → s.client d = false ∧ d < s.next) :
    SepR R (write s r c) := by
  have key : ∀ y, reach R (write s r c) y → reach R s y ∨ dataRefOf (write s r c) r = some y := by
    intro y hy
    rcases hy with hy | ⟨x, hx, hxd⟩
    · exact Or.inl (Or.inl hy)
    · by_cases he : x = r
      · subst he; exact Or.inr hxd
      · rw [dataRefOf_write he] at hxd
        exact Or.inl (Or.inr ⟨x, hx, hxd⟩)
  refine ⟨fun y hy => ?_, fun y hy => ?_, fun y hy => ?_, fun x hx d hxd => ?_⟩
  rotate_left 3
  · have hx' : s.client x = true := hx
    have he : x ≠ r := by
      intro he
      have := h.sep r (Or.inl hr)
      rw [← he, hx'] at this
      cases this
    rw [dataRefOf_write he] at hxd
    exact h.closed x hx' d hxd
  · rcases key y hy with hy | hy
    · exact h.sep y hy
    · exact (hd y hy).1
  · rcases key y hy with hy | hy
    · exact h.bound y hy
    · exact (hd y hy).2
  · have hf := h.fresh y hy
    refine ⟨?_, hf.2⟩
    have hb := h.bound r (Or.inl hr)
    have hy' : s.next ≤ y := hy
    have : y ≠ r := by grind
    show (if y = r then some c else s.heap y) = none
    rw [if_neg this]
    exact hf.1

/-! ## the store dict -/

theorem storeObjOf_setKey {st : Store} {b : String} {m : Ref} {es : List Ref} {r : Ref}
    (h : storeObjOf (setKey st b (m, es)) r) : storeObjOf st r ∨ r = m ∨ r ∈ es := by
  obtain ⟨p, hp, hr⟩ := h
  unfold setKey at hp
  split at hp
  · obtain ⟨q, hq, rfl⟩ := List.mem_map.mp hp
    by_cases hb : q.1 = b
    · simp only [hb, if_true] at hr
      exact Or.inr hr
    · simp only [hb, if_false] at hr
      exact Or.inl ⟨q, hq, hr⟩
  · rcases List.mem_append.mp hp with hq | hq
    · exact Or.inl ⟨p, hq, hr⟩
    · simp only [List.mem_singleton] at hq
      subst hq
      exact Or.inr hr

theorem lookup_mem {st : Store} {b : String} {v : Ref × List Ref} (h : lookup st b = some v) :
    (b, v) ∈ st := by
  unfold lookup at h
  cases hf : st.find? (fun p => p.1 = b) with
  | none => rw [hf] at h; cases h
  | some p =>
    rw [hf] at h
    have hm := List.mem_of_find?_eq_some hf
    have hb := List.find?_some hf
    simp only [Option.map_some, Option.some.injEq] at h
    simp only [decide_eq_true_eq] at hb
    obtain ⟨p1, p2⟩ := p
    simp only at h hb
    subst h hb
    exact hm

theorem storeObjOf_lookup {st : Store} {b : String} {m : Ref} {es : List Ref}
    (h : lookup st b = some (m, es)) : storeObjOf st m ∧ ∀ r ∈ es, storeObjOf st r :=
  ⟨⟨_, lookup_mem h, Or.inl rfl⟩, fun _ hr => ⟨_, lookup_mem h, Or.inr hr⟩⟩

theorem storeObjOf_filter {st : Store} {f : String × (Ref × List Ref) → Bool} {r : Ref}
    (h : storeObjOf (st.filter f) r) : storeObjOf st r := by
  obtain ⟨p, hp, hr⟩ := h
  exact ⟨p, (List.mem_filter.mp hp).1, hr⟩

end Aw.Store.Heap
