import AwProofs.Lemmas.StoreOps
/-!
# Properties of the reference step relation

* exactness of `replaceId` / `delete` on a bucket whose ids are pairwise distinct
* `Op.Det`: the operations whose reference step is a function (no fresh id, no tie to break);
  `SpecStep.det`, `SpecRun.det`
* `evView`: the event part of a view; reference steps of *different* backend kinds (which differ in
  metadata conventions only) keep the event parts equal (`SpecStep.det_events`, `SpecRun.det_events`)
-/
namespace Aw.Store
open Aw
variable {D : Type}

namespace Spec

/-- rewriting a live id of a bucket with pairwise distinct ids: exactly that position changes -/
theorem replaceId_exact {v : View D} {b : String} {m : Meta} {es : List (Ev D)}
    (hv : v b = some (m, es)) (hn : (es.filterMap (·.id)).Nodup) {t : Ev D} {i : Int}
    (ht : t ∈ es) (hi : t.id = some i) (e : Ev D) :
    ∃ l1 l2, es = l1 ++ t :: l2 ∧ (∀ x ∈ l1 ++ l2, x.id ≠ some i) ∧
      replaceId v b i e b = some (m, l1 ++ { e with id := some i } :: l2) := by
  obtain ⟨l1, l2, h1, h2, h3⟩ := map_replace_split hn ht hi e
  exact ⟨l1, l2, h1, h2, by rw [replaceId_self hv, h3]⟩

/-- deleting a live id of a bucket with pairwise distinct ids: exactly that position goes -/
theorem delete_exact {v : View D} {b : String} {m : Meta} {es : List (Ev D)}
    (hv : v b = some (m, es)) (hn : (es.filterMap (·.id)).Nodup) {t : Ev D} {i : Int}
    (ht : t ∈ es) (hi : t.id = some i) :
    ∃ l1 l2, es = l1 ++ t :: l2 ∧ (∀ x ∈ l1 ++ l2, x.id ≠ some i) ∧
      delete v b i b = some (m, l1 ++ l2) := by
  obtain ⟨l1, l2, h1, h2, h3⟩ := filter_delete_split hn ht hi
  exact ⟨l1, l2, h1, h2, by rw [delete_self hv, h3]⟩

/-- operations on an id that is not live in the addressed bucket change nothing at all -/
theorem onEvents_id {v : View D} {b : String} {f : List (Ev D) → List (Ev D)}
    (h : ∀ m es, v b = some (m, es) → f es = es) : onEvents v b f = v := by
  funext b'
  by_cases hb : b' = b
  · subst hb
    cases hv : v b' with
    | none => unfold onEvents; rw [hv]; exact hv
    | some p => obtain ⟨m, es⟩ := p; rw [onEvents_self hv, h m es hv]
  · exact frame_onEvents hb

theorem delete_notLive {v : View D} {b : String} {i : Int} (hi : i ∉ ids v b) :
    delete v b i = v := by
  apply onEvents_id
  intro m es hv
  apply filter_delete_notLive
  intro x hx hxi
  exact hi ((mem_ids hv i).mpr ⟨x, hx, hxi⟩)

theorem replaceId_notLive {v : View D} {b : String} {i : Int} (e : Ev D) (hi : i ∉ ids v b) :
    replaceId v b i e = v := by
  apply onEvents_id
  intro m es hv
  have h : es.map (fun x => if x.id = some i then { e with id := some i } else x) = es.map id := by
    apply List.map_congr_left
    intro x hx
    rw [if_neg]
    · rfl
    · intro hxi
      exact hi ((mem_ids hv i).mpr ⟨x, hx, hxi⟩)
  rw [h, List.map_id]

end Spec

/-! ## deterministic operations -/

/-- operations whose reference step is a function of the view: no fresh id to choose, no tie
    among newest events to break -/
def Op.Det : Op D → Prop
  | .insert _ _ => False
  | .insertMany _ es => ∀ e ∈ es, e.id.isSome = true
  | .replaceLast _ _ _ => False
  | _ => True

theorem filter_none_of_all_some {es : List (Ev D)} (h : ∀ e ∈ es, e.id.isSome = true) :
    es.filter (fun e => e.id.isNone) = [] := by
  rw [List.filter_eq_nil_iff]
  intro e he hn
  have := h e he
  cases hi : e.id with
  | none => rw [hi] at this; cases this
  | some i => rw [hi] at hn; cases hn

theorem insertManyWith_all_some (v : View D) (b : String) {es : List (Ev D)}
    (h : ∀ e ∈ es, e.id.isSome = true) (ids : List Int) :
    Spec.insertManyWith v b es ids =
      (es.filter (fun e => e.id.isSome)).foldl (fun v e => Spec.replaceId v b (e.id.getD 0) e) v := by
  unfold Spec.insertManyWith
  rw [filter_none_of_all_some h]
  rfl

/-- on deterministic operations the reference step is a function -/
theorem SpecStep.det {k : Kind} {v v1 v2 : View D} {op : Op D} (hd : op.Det)
    (h1 : SpecStep k v v1 op) (h2 : SpecStep k v v2 op) : v1 = v2 := by
  cases op with
  | create b m => exact (show v1 = _ from h1).trans (show v2 = _ from h2).symm
  | update b u => exact (show v1 = _ from h1).trans (show v2 = _ from h2).symm
  | deleteBucket b => exact (show v1 = _ from h1).trans (show v2 = _ from h2).symm
  | insert b e => exact absurd hd id
  | insertMany b es =>
    obtain ⟨ids1, _, _, _, e1⟩ := h1
    obtain ⟨ids2, _, _, _, e2⟩ := h2
    rw [e1, e2, insertManyWith_all_some v b hd, insertManyWith_all_some v b hd]
  | replace b i e => exact (show v1 = _ from h1).trans (show v2 = _ from h2).symm
  | replaceLast b hint e => exact absurd hd id
  | delete b i => exact (show v1 = _ from h1).trans (show v2 = _ from h2).symm

/-- a history of deterministic operations has one outcome in the reference model -/
theorem SpecRun.det {k : Kind} {v v1 v2 : View D} {ops : List (Op D)} (hd : ∀ op ∈ ops, op.Det)
    (h1 : SpecRun k v ops v1) (h2 : SpecRun k v ops v2) : v1 = v2 := by
  induction h1 with
  | nil v => cases h2; rfl
  | cons _ hs _ ih =>
    cases h2 with
    | cons _ hs' hr' =>
      have := SpecStep.det (hd _ (List.mem_cons_self ..)) hs hs'
      subst this
      exact ih (fun op hop => hd op (List.mem_cons_of_mem _ hop)) hr'

/-- the two SQL kinds have the same reference step (they differ in `Pre` only) -/
theorem SpecStep.peewee_iff_sqlite {v v' : View D} {op : Op D} :
    SpecStep .peewee v v' op ↔ SpecStep .sqlite v v' op := by
  cases op <;> exact Iff.rfl

/-- a history of deterministic operations has the same outcome under the two SQL kinds -/
theorem SpecRun.det_sql {v v1 v2 : View D} {ops : List (Op D)} (hd : ∀ op ∈ ops, op.Det)
    (h1 : SpecRun .sqlite v ops v1) (h2 : SpecRun .peewee v ops v2) : v1 = v2 := by
  induction h1 with
  | nil v => cases h2; rfl
  | cons _ hs _ ih =>
    cases h2 with
    | cons _ hs' hr' =>
      have := SpecStep.det (hd _ (List.mem_cons_self ..)) hs (SpecStep.peewee_iff_sqlite.mp hs')
      subst this
      exact ih (fun op hop => hd op (List.mem_cons_of_mem _ hop)) hr'

/-! ## the event part of a view -/

/-- the events of every bucket, metadata forgotten -/
def evView (v : View D) : String → Option (List (Ev D)) := fun b => (v b).map (·.2)

/-- `onEvents` on event parts -/
def evOn (w : String → Option (List (Ev D))) (b : String) (f : List (Ev D) → List (Ev D)) :
    String → Option (List (Ev D)) := fun b' => if b' = b then (w b).map f else w b'

theorem evView_setB (v : View D) (b : String) (x : Option (Meta × List (Ev D))) :
    evView (Spec.setB v b x) = fun b' => if b' = b then x.map (·.2) else evView v b' := by
  funext b'
  unfold evView Spec.setB
  split <;> rfl

theorem evView_onEvents (v : View D) (b : String) (f : List (Ev D) → List (Ev D)) :
    evView (Spec.onEvents v b f) = evOn (evView v) b f := by
  funext b'
  unfold evOn
  by_cases hb : b' = b
  · subst hb
    rw [if_pos rfl]
    unfold evView
    cases hv : v b' with
    | none => unfold Spec.onEvents; rw [hv]; simp only [hv, Option.map_none]
    | some p => obtain ⟨m, es⟩ := p; rw [Spec.onEvents_self hv]; rfl
  · rw [if_neg hb]
    unfold evView
    rw [Spec.frame_onEvents hb]

/-- `replaceId` on event parts -/
def evReplace (w : String → Option (List (Ev D))) (b : String) (i : Int) (e : Ev D) :
    String → Option (List (Ev D)) :=
  evOn w b (fun es => es.map (fun x => if x.id = some i then { e with id := some i } else x))

theorem evView_replaceId (v : View D) (b : String) (i : Int) (e : Ev D) :
    evView (Spec.replaceId v b i e) = evReplace (evView v) b i e := evView_onEvents v b _

theorem evView_update (v : View D) (b : String) (f : Meta → Meta) :
    evView (Spec.update v b f) = evView v := by
  funext b'
  unfold evView
  by_cases hb : b' = b
  · subst hb
    unfold Spec.update
    cases hv : v b' with
    | none => simp only [hv]
    | some p => obtain ⟨m, es⟩ := p; simp only [Spec.setB, if_true, Option.map_some]
  · rw [Spec.frame_update hb]

theorem evView_foldl {α : Type} (g : View D → α → View D)
    (g' : (String → Option (List (Ev D))) → α → (String → Option (List (Ev D))))
    (h : ∀ v a, evView (g v a) = g' (evView v) a) (l : List α) (v : View D) :
    evView (l.foldl g v) = l.foldl g' (evView v) := by
  induction l generalizing v with
  | nil => rfl
  | cons a t ih => rw [List.foldl_cons, ih, h, List.foldl_cons]

/-- on deterministic operations, reference steps of two backend kinds from views with equal
    event parts end in views with equal event parts (kinds differ in metadata conventions only) -/
theorem SpecStep.det_events {k k' : Kind} {v v1 w w1 : View D} {op : Op D} (hd : op.Det)
    (hvw : evView v = evView w) (h1 : SpecStep k v v1 op) (h2 : SpecStep k' w w1 op) :
    evView v1 = evView w1 := by
  cases op with
  | create b m =>
    rw [show v1 = _ from h1, show w1 = _ from h2]
    unfold Spec.create
    rw [evView_setB, evView_setB, hvw]
    rfl
  | update b u =>
    rw [show v1 = _ from h1, show w1 = _ from h2, evView_update, evView_update, hvw]
  | deleteBucket b =>
    rw [show v1 = _ from h1, show w1 = _ from h2]
    unfold Spec.deleteBucket
    rw [evView_setB, evView_setB, hvw]
  | insert b e => exact absurd hd id
  | insertMany b es =>
    obtain ⟨ids1, _, _, _, e1⟩ := h1
    obtain ⟨ids2, _, _, _, e2⟩ := h2
    rw [e1, e2, insertManyWith_all_some v b hd, insertManyWith_all_some w b hd,
      evView_foldl _ (fun w e => evReplace w b (e.id.getD 0) e)
        (fun v e => evView_replaceId v b _ e),
      evView_foldl _ (fun w e => evReplace w b (e.id.getD 0) e)
        (fun v e => evView_replaceId v b _ e), hvw]
  | replace b i e =>
    rw [show v1 = _ from h1, show w1 = _ from h2]
    unfold Spec.replaceId
    rw [evView_onEvents, evView_onEvents, hvw]
  | replaceLast b hint e => exact absurd hd id
  | delete b i =>
    rw [show v1 = _ from h1, show w1 = _ from h2]
    unfold Spec.delete
    rw [evView_onEvents, evView_onEvents, hvw]

theorem SpecRun.det_events {k k' : Kind} {v v1 w w1 : View D} {ops : List (Op D)}
    (hd : ∀ op ∈ ops, op.Det) (hvw : evView v = evView w)
    (h1 : SpecRun k v ops v1) (h2 : SpecRun k' w ops w1) : evView v1 = evView w1 := by
  induction h1 generalizing w with
  | nil v => cases h2; exact hvw
  | cons _ hs _ ih =>
    cases h2 with
    | cons _ hs' hr' =>
      exact ih (fun op hop => hd op (List.mem_cons_of_mem _ hop))
        (SpecStep.det_events (hd _ (List.mem_cons_self ..)) hvw hs hs') hr'

/-! ## determinism relative to a view: replace-last without ties -/

/-- `op` leaves the reference model no choice in view `v`: as `Op.Det`, plus replace-last on a
    bucket whose newest events all carry the same id (no tie among equal timestamps) -/
def DetAt (v : View D) : Op D → Prop
  | .insert _ _ => False
  | .insertMany _ es => ∀ e ∈ es, e.id.isSome = true
  | .replaceLast b _ _ =>
    ∀ m es t t', v b = some (m, es) → Spec.IsNewest es t → Spec.IsNewest es t' → t.id = t'.id
  | _ => True

theorem Op.Det.detAt {op : Op D} (h : op.Det) (v : View D) : DetAt v op := by
  cases op <;> first | exact h | exact absurd h id

theorem SpecStep.detAt {k : Kind} {v v1 v2 : View D} {op : Op D} (hd : DetAt v op)
    (h1 : SpecStep k v v1 op) (h2 : SpecStep k v v2 op) : v1 = v2 := by
  cases op with
  | replaceLast b hint e =>
    obtain ⟨m, es, t, hv, ht, e1⟩ := h1
    obtain ⟨m', es', t', hv', ht', e2⟩ := h2
    rw [hv] at hv'
    injection hv' with hv'
    injection hv' with _ hes
    subst hes
    rw [e1, e2, hd m es t t' hv ht ht']
  | insert b e => exact absurd hd id
  | create b m => exact SpecStep.det (op := .create b m) trivial h1 h2
  | update b u => exact SpecStep.det (op := .update b u) trivial h1 h2
  | deleteBucket b => exact SpecStep.det (op := .deleteBucket b) trivial h1 h2
  | insertMany b es => exact SpecStep.det (op := .insertMany b es) hd h1 h2
  | replace b i e => exact SpecStep.det (op := .replace b i e) trivial h1 h2
  | delete b i => exact SpecStep.det (op := .delete b i) trivial h1 h2

theorem SpecStep.detAt_events {k k' : Kind} {v v1 w w1 : View D} {op : Op D} (hd : DetAt v op)
    (hvw : evView v = evView w) (h1 : SpecStep k v v1 op) (h2 : SpecStep k' w w1 op) :
    evView v1 = evView w1 := by
  cases op with
  | replaceLast b hint e =>
    obtain ⟨m, es, t, hv, ht, e1⟩ := h1
    obtain ⟨m', es', t', hv', ht', e2⟩ := h2
    have hb := congrFun hvw b
    unfold evView at hb
    rw [hv, hv'] at hb
    injection hb with hes
    have hes : es = es' := hes
    subst hes
    rw [e1, e2, evView_replaceId, evView_replaceId, hvw, hd m es t t' hv ht ht']
  | insert b e => exact absurd hd id
  | create b m => exact SpecStep.det_events (op := .create b m) trivial hvw h1 h2
  | update b u => exact SpecStep.det_events (op := .update b u) trivial hvw h1 h2
  | deleteBucket b => exact SpecStep.det_events (op := .deleteBucket b) trivial hvw h1 h2
  | insertMany b es => exact SpecStep.det_events (op := .insertMany b es) hd hvw h1 h2
  | replace b i e => exact SpecStep.det_events (op := .replace b i e) trivial hvw h1 h2
  | delete b i => exact SpecStep.det_events (op := .delete b i) trivial hvw h1 h2

section Lockstep
variable {S1 S2 : Type} (view1 : S1 → View D) (step1 : S1 → Op D → S1) (Inv1 : S1 → Prop)
  (view2 : S2 → View D) (step2 : S2 → Op D → S2) (Inv2 : S2 → Prop) (k1 k2 : Kind)

/-- `Admissible` and no choice left to the reference model before every step -/
def AdmissibleDet : S1 → List (Op D) → Prop
  | _, [] => True
  | s, op :: ops => Pre k1 (view1 s) op ∧ DetAt (view1 s) op ∧ AdmissibleDet (step1 s op) ops

theorem AdmissibleDet.admissible {s : S1} {ops : List (Op D)}
    (h : AdmissibleDet view1 step1 k1 s ops) : Admissible view1 step1 k1 s ops := by
  induction ops generalizing s with
  | nil => trivial
  | cons op t ih => exact ⟨h.1, ih h.2.2⟩

theorem admissibleDet_of_det {s : S1} {ops : List (Op D)} (hd : ∀ op ∈ ops, op.Det)
    (h : Admissible view1 step1 k1 s ops) : AdmissibleDet view1 step1 k1 s ops := by
  induction ops generalizing s with
  | nil => trivial
  | cons op t ih =>
    exact ⟨h.1, (hd op (List.mem_cons_self ..)).detAt _,
      ih (fun o ho => hd o (List.mem_cons_of_mem _ ho)) h.2⟩

/-- two backends refining the reference model, run in lockstep on a history that leaves the
    reference model no choice, keep equal event contents -/
theorem lockstep_events
    (hinv1 : ∀ s op, Inv1 s → Inv1 (step1 s op)) (hinv2 : ∀ s op, Inv2 s → Inv2 (step2 s op))
    (href1 : ∀ s op, Inv1 s → Pre k1 (view1 s) op → SpecStep k1 (view1 s) (view1 (step1 s op)) op)
    (href2 : ∀ s op, Inv2 s → Pre k2 (view2 s) op → SpecStep k2 (view2 s) (view2 (step2 s op)) op)
    (ops : List (Op D)) (s1 : S1) (s2 : S2) (h1 : Inv1 s1) (h2 : Inv2 s2)
    (e : evView (view1 s1) = evView (view2 s2))
    (a1 : AdmissibleDet view1 step1 k1 s1 ops) (a2 : Admissible view2 step2 k2 s2 ops) :
    evView (view1 (ops.foldl step1 s1)) = evView (view2 (ops.foldl step2 s2)) := by
  induction ops generalizing s1 s2 with
  | nil => exact e
  | cons op t ih =>
    exact ih _ _ (hinv1 s1 op h1) (hinv2 s2 op h2)
      (SpecStep.detAt_events a1.2.1 e (href1 s1 op h1 a1.1) (href2 s2 op h2 a2.1)) a1.2.2 a2.2

/-- … and equal views when the two kinds have the same reference step -/
theorem lockstep_eq (hk : ∀ (v v' : View D) op, SpecStep k2 v v' op → SpecStep k1 v v' op)
    (hinv1 : ∀ s op, Inv1 s → Inv1 (step1 s op)) (hinv2 : ∀ s op, Inv2 s → Inv2 (step2 s op))
    (href1 : ∀ s op, Inv1 s → Pre k1 (view1 s) op → SpecStep k1 (view1 s) (view1 (step1 s op)) op)
    (href2 : ∀ s op, Inv2 s → Pre k2 (view2 s) op → SpecStep k2 (view2 s) (view2 (step2 s op)) op)
    (ops : List (Op D)) (s1 : S1) (s2 : S2) (h1 : Inv1 s1) (h2 : Inv2 s2)
    (e : view1 s1 = view2 s2)
    (a1 : AdmissibleDet view1 step1 k1 s1 ops) (a2 : Admissible view2 step2 k2 s2 ops) :
    view1 (ops.foldl step1 s1) = view2 (ops.foldl step2 s2) := by
  induction ops generalizing s1 s2 with
  | nil => exact e
  | cons op t ih =>
    refine ih _ _ (hinv1 s1 op h1) (hinv2 s2 op h2) ?_ a1.2.2 a2.2
    have r2 := hk _ _ _ (href2 s2 op h2 a2.1)
    rw [← e] at r2
    exact SpecStep.detAt a1.2.1 (href1 s1 op h1 a1.1) r2

end Lockstep

/-! ## listings determined by a view -/

theorem listed_of_view {L : List (String × Meta)} {v : View D}
    (hL : ∀ b m, (b, m) ∈ L ↔ ∃ es, v b = some (m, es)) {b : String} {m : Meta} {es : List (Ev D)}
    (hv : v b = some (m, es)) : (b, m) ∈ L ∧ ∀ m', (b, m') ∈ L → m' = m := by
  refine ⟨(hL b m).mpr ⟨es, hv⟩, ?_⟩
  intro m' hm'
  obtain ⟨es', h'⟩ := (hL b m').mp hm'
  rw [hv] at h'
  injection h' with h'
  injection h' with h' _
  exact h'.symm

theorem unlisted_of_view {L : List (String × Meta)} {v : View D}
    (hL : ∀ b m, (b, m) ∈ L ↔ ∃ es, v b = some (m, es)) {b : String}
    (hv : v b = none) (m : Meta) : (b, m) ∉ L := by
  intro hm
  obtain ⟨es, h⟩ := (hL b m).mp hm
  rw [hv] at h
  cases h

/-- listings of two states whose views agree at `b'` agree at `b'` -/
theorem listed_congr {L L' : List (String × Meta)} {v v' : View D}
    (hL : ∀ b m, (b, m) ∈ L ↔ ∃ es, v b = some (m, es))
    (hL' : ∀ b m, (b, m) ∈ L' ↔ ∃ es, v' b = some (m, es)) {b' : String} (h : v' b' = v b')
    (m : Meta) : (b', m) ∈ L' ↔ (b', m) ∈ L := by
  rw [hL, hL', h]

theorem create_self (v : View D) (b : String) (m : Meta) : Spec.create v b m b = some (m, []) := by
  simp only [Spec.create, Spec.setB, if_true]

theorem deleteBucket_self (v : View D) (b : String) : Spec.deleteBucket v b b = none := by
  simp only [Spec.deleteBucket, Spec.setB, if_true]

theorem update_self {v : View D} {b : String} {m : Meta} {es : List (Ev D)}
    (h : v b = some (m, es)) (f : Meta → Meta) : Spec.update v b f b = some (f m, es) := by
  unfold Spec.update
  rw [h]
  simp only [Spec.setB, if_true]

end Aw.Store
