import AwProofs.Lemmas.QueryBuiltins
import AwModel.Query.RegistryGen
/-!
# `query_bucket` / `query_bucket_eventcount` inside a query, and what they return (C12)

* the call protocol on the generated registry: the three datastore-taking entries receive exactly
  the argument tuples `dsApply` models; every other entry receives its interpreted arguments;
* `interp` of `query_bucket(t)` / `query_bucket_eventcount(t)` where `t` evaluates to a string;
* the read theorems of C03 (`StoreReads.lean`) transported to `queryBucket`: soundness in the
  rounded window (within 1 ms of the requested one), completeness for the requested window.
-/
namespace Aw.Query
open Aw Aw.Store

variable {D : Type}

/-! ## the call protocol -/

theorem inject_noDs (e : Entry) (h : e.takesDs = false) (args : List Val) :
    inject e args = if e.takesNs then Val.ns :: args else args := by
  unfold inject
  cases e.takesNs <;> simp [h]

theorem lookup_queryBucket :
    lookupEntry Registry.registry nameQueryBucket =
      some { name := nameQueryBucket, params := [⟨.other, true⟩, ⟨.other, true⟩, ⟨.str, true⟩],
             takesDs := true, takesNs := true, typechecked := true, minArgs := 3, maxArgs := some 3 } := by
  decide

theorem lookup_queryBucketEventcount :
    lookupEntry Registry.registry nameQueryBucketEventcount =
      some { name := nameQueryBucketEventcount, params := [⟨.other, true⟩, ⟨.other, true⟩, ⟨.str, true⟩],
             takesDs := true, takesNs := true, typechecked := true, minArgs := 3, maxArgs := some 3 } := by
  decide

theorem lookup_findBucket :
    lookupEntry Registry.registry nameFindBucket =
      some { name := nameFindBucket, params := [⟨.other, true⟩, ⟨.str, true⟩, ⟨.other, false⟩],
             takesDs := true, takesNs := false, typechecked := true, minArgs := 2, maxArgs := some 3 } := by
  decide

/-- `query_bucket(b)` with a string argument reaches the body with `(datastore, namespace, b)` -/
theorem call_queryBucket (apply : Apply) (e : Entry)
    (he : lookupEntry Registry.registry nameQueryBucket = some e) (b : Str) :
    callBuiltin apply e [.str b] = catchTypeError (apply nameQueryBucket [.ds, .ns, .str b]) := by
  rw [lookup_queryBucket] at he
  cases he
  rfl

theorem call_queryBucketEventcount (apply : Apply) (e : Entry)
    (he : lookupEntry Registry.registry nameQueryBucketEventcount = some e) (b : Str) :
    callBuiltin apply e [.str b] =
      catchTypeError (apply nameQueryBucketEventcount [.ds, .ns, .str b]) := by
  rw [lookup_queryBucketEventcount] at he
  cases he
  rfl

theorem catchTypeError_ok (v : Val) : catchTypeError (.ok v) = .ok v := rfl
theorem catchTypeError_func (m : String) : catchTypeError (.error (.func m)) = .error (.func m) := rfl

theorem dsApply_queryBucket (r : Reads D) (enc : Enc D) (S E : Int) (other : Apply) (b : Str) :
    dsApply r enc S E other nameQueryBucket [.ds, .ns, .str b] =
      match queryBucket r (String.ofList b) S E with
      | .ok es => .ok (.list (es.map enc.ev))
      | .error e => .error (enc.err e) := by
  unfold dsApply
  simp only [if_true]
  cases queryBucket r (String.ofList b) S E <;> rfl

theorem dsApply_queryBucketEventcount (r : Reads D) (enc : Enc D) (S E : Int) (other : Apply)
    (b : Str) :
    dsApply r enc S E other nameQueryBucketEventcount [.ds, .ns, .str b] =
      match queryBucketEventcount r (String.ofList b) S E with
      | .ok n => .ok (.int n)
      | .error e => .error (enc.err e) := by
  unfold dsApply
  have h : ¬ nameQueryBucketEventcount = nameQueryBucket := by decide
  simp only [h, if_false, if_true]
  cases queryBucketEventcount r (String.ofList b) S E <;> rfl

/-- `query_bucket(t)` where the argument expression evaluates to the string `b` -/
theorem interp_queryBucket (r : Reads D) (enc : Enc D) (S E : Int) (other : Apply) (t : Tok)
    (ns ns' : Ns) (b : Str)
    (ht : interp Registry.registry (dsApply r enc S E other) t ns = .ok (.str b, ns')) :
    interp Registry.registry (dsApply r enc S E other) (.call nameQueryBucket [t]) ns =
      (catchTypeError (match queryBucket r (String.ofList b) S E with
        | .ok es => .ok (.list (es.map enc.ev))
        | .error e => .error (enc.err e))).map (fun v => (v, ns')) := by
  rw [interp, lookup_queryBucket]
  simp only []
  rw [interpList, ht]
  simp only []
  rw [interpList]
  simp only [Except.map]
  rw [call_queryBucket _ _ lookup_queryBucket, dsApply_queryBucket]

theorem interp_queryBucketEventcount (r : Reads D) (enc : Enc D) (S E : Int) (other : Apply) (t : Tok)
    (ns ns' : Ns) (b : Str)
    (ht : interp Registry.registry (dsApply r enc S E other) t ns = .ok (.str b, ns')) :
    interp Registry.registry (dsApply r enc S E other) (.call nameQueryBucketEventcount [t]) ns =
      (catchTypeError (match queryBucketEventcount r (String.ofList b) S E with
        | .ok n => .ok (.int n)
        | .error e => .error (enc.err e))).map (fun v => (v, ns')) := by
  rw [interp, lookup_queryBucketEventcount]
  simp only []
  rw [interpList, ht]
  simp only []
  rw [interpList]
  simp only [Except.map]
  rw [call_queryBucketEventcount _ _ lookup_queryBucketEventcount, dsApply_queryBucketEventcount]

theorem call_findBucket (apply : Apply) (e : Entry)
    (he : lookupEntry Registry.registry nameFindBucket = some e) (f : Str) :
    callBuiltin apply e [.str f] = catchTypeError (apply nameFindBucket [.ds, .str f]) := by
  rw [lookup_findBucket] at he
  cases he
  rfl

theorem dsApply_findBucket (r : Reads D) (enc : Enc D) (S E : Int) (other : Apply) (f : Str) :
    dsApply r enc S E other nameFindBucket [.ds, .str f] =
      match findBucket r (String.ofList f) none with
      | .ok b => .ok (.str b.toList)
      | .error e => .error (enc.err e) := by
  unfold dsApply
  have h1 : ¬ nameFindBucket = nameQueryBucket := by decide
  have h2 : ¬ nameFindBucket = nameQueryBucketEventcount := by decide
  simp only [h1, h2, if_false, if_true]
  cases findBucket r (String.ofList f) none <;> rfl

/-- `find_bucket(t)` (no hostname filter) where the argument expression evaluates to the string `f` -/
theorem interp_findBucket (r : Reads D) (enc : Enc D) (S E : Int) (other : Apply) (t : Tok)
    (ns ns' : Ns) (f : Str)
    (ht : interp Registry.registry (dsApply r enc S E other) t ns = .ok (.str f, ns')) :
    interp Registry.registry (dsApply r enc S E other) (.call nameFindBucket [t]) ns =
      (catchTypeError (match findBucket r (String.ofList f) none with
        | .ok b => .ok (.str b.toList)
        | .error e => .error (enc.err e))).map (fun v => (v, ns')) := by
  rw [interp, lookup_findBucket]
  simp only []
  rw [interpList, ht]
  simp only []
  rw [interpList]
  simp only [Except.map]
  rw [call_findBucket _ _ lookup_findBucket, dsApply_findBucket]

/-- what `find_bucket` returns is a listed bucket whose id contains the filter string -/
theorem findBucketLoop_ok (r : Reads D) (f : String) (host : Option String) :
    ∀ (l : List String) (b : String), findBucketLoop r f host l = .ok b →
      b ∈ l ∧ isInfixB f.toList b.toList = true ∧
      (∀ h, truthyHost host = some h → r.hostname b = some h)
  | [], b, h => by simp [findBucketLoop] at h
  | x :: rest, b, h => by
    unfold findBucketLoop at h
    split at h
    · rename_i hin
      split at h
      · cases h
      · rename_i hn hhn
        split at h
        · rename_i hh hth
          split at h
          · rename_i heq
            injection h with h
            subst h
            exact ⟨List.mem_cons_self, hin, fun h' hh' => by rw [hth] at hh'; cases hh'; rw [hhn, heq]⟩
          · obtain ⟨h1, h2, h3⟩ := findBucketLoop_ok r f host rest b h
            exact ⟨List.mem_cons_of_mem _ h1, h2, h3⟩
        · rename_i hth
          injection h with h
          subst h
          exact ⟨List.mem_cons_self, hin, fun h' hh' => by rw [hth] at hh'; cases hh'⟩
    · obtain ⟨h1, h2, h3⟩ := findBucketLoop_ok r f host rest b h
      exact ⟨List.mem_cons_of_mem _ h1, h2, h3⟩

theorem findBucket_ok (r : Reads D) (f : String) (host : Option String) (b : String)
    (h : findBucket r f host = .ok b) :
    b ∈ r.buckets ∧ isInfixB f.toList b.toList = true ∧
      (∀ h, truthyHost host = some h → r.hostname b = some h) :=
  findBucketLoop_ok r f host r.buckets b h

/-! ## what `queryBucket` returns (C03 transported) -/

theorem isSome_of_view {α : Type} {o : Option α} {a : α} (h : o = some a) : o.isSome = true := by
  rw [h]; rfl

/-- the rounded window lies within 1 ms of the requested one -/
theorem rounded_near (S E : Int) (x : Ev D)
    (h : inWindow (Store.roundWin (some S) (some E)).1 (Store.roundWin (some S) (some E)).2 x = true) :
    S - 1000 < x.ts + x.dur ∧ x.ts ≤ E + 1000 := by
  have := (Store.window_tolerance (some S) (some E) x).2 h
  exact ⟨this.1 S rfl, this.2 E rfl⟩

theorem rounded_of_true (S E : Int) (x : Ev D) (h : inWindow (some S) (some E) x = true) :
    inWindow (Store.roundWin (some S) (some E)).1 (Store.roundWin (some S) (some E)).2 x = true :=
  (Store.window_tolerance (some S) (some E) x).1 h

/-! ### sqlite -/

theorem queryBucket_sound_sqlite (s : Sqlite.St D) (b : String) (S E : Int) (r : List (Ev D))
    (hr : queryBucket (Reads.ofSqlite s) b S E = .ok r) (x : Ev D) (hx : x ∈ r) :
    ∃ m es, Sqlite.view s b = some (m, es) ∧ x ∈ es ∧
      inWindow (Store.roundWin (some S) (some E)).1 (Store.roundWin (some S) (some E)).2 x = true ∧
      S - 1000 < x.ts + x.dur ∧ x.ts ≤ E + 1000 := by
  rw [queryBucket_sqlite] at hr
  split at hr
  · injection hr with hr
    subst hr
    obtain ⟨m, es, hv, hm, hw⟩ := Sqlite.get_sound s b (-1) _ _ x hx
    exact ⟨m, es, hv, hm, hw, rounded_near S E x hw⟩
  · cases hr

theorem queryBucket_complete_sqlite (s : Sqlite.St D) (b : String) (S E : Int) (m : Meta)
    (es : List (Ev D)) (hv : Sqlite.view s b = some (m, es)) (e : Ev D) (he : e ∈ es)
    (hw : inWindow (some S) (some E) e = true) :
    ∃ r, queryBucket (Reads.ofSqlite s) b S E = .ok r ∧ e ∈ r := by
  rw [queryBucket_sqlite, isSome_of_view hv]
  refine ⟨_, rfl, ?_⟩
  exact Sqlite.get_complete s b (-1) (by omega) _ _ m es hv e he (rounded_of_true S E e hw)

theorem queryBucketEventcount_matches_sqlite (s : Sqlite.St D) (b : String) (S E : Int) (n : Nat)
    (hn : queryBucketEventcount (Reads.ofSqlite s) b S E = .ok n) :
    n = (Sqlite.getEvents s b (-1) (some S) (some E)).length ∧
    ∃ r, queryBucket (Reads.ofSqlite s) b S E = .ok r ∧ n ≤ r.length := by
  rw [queryBucketEventcount_sqlite] at hn
  rw [queryBucket_sqlite]
  split at hn
  · rename_i hs
    injection hn with hn
    subst hn
    rw [hs]
    exact ⟨Sqlite.count_eq s b _ _, _, rfl, Sqlite.count_le_get_rounded_some s b S E⟩
  · cases hn

/-! ### memory -/

theorem queryBucket_sound_memory (s : Memory.St D) (b : String) (S E : Int) (r : List (Ev D))
    (hr : queryBucket (Reads.ofMemory s) b S E = .ok r) (x : Ev D) (hx : x ∈ r) :
    ∃ m es, Memory.view s b = some (m, es) ∧ x ∈ es ∧
      inWindow (Store.roundWin (some S) (some E)).1 (Store.roundWin (some S) (some E)).2 x = true ∧
      S - 1000 < x.ts + x.dur ∧ x.ts ≤ E + 1000 := by
  rw [queryBucket_memory] at hr
  split at hr
  · rw [lift_eq_ok] at hr
    obtain ⟨m, es, hv, hm, hw⟩ := Memory.get_sound s b (-1) _ _ r hr x hx
    exact ⟨m, es, hv, hm, hw, rounded_near S E x hw⟩
  · cases hr

theorem queryBucket_complete_memory (s : Memory.St D) (b : String) (S E : Int) (m : Meta)
    (es : List (Ev D)) (hv : Memory.view s b = some (m, es)) (e : Ev D) (he : e ∈ es)
    (hw : inWindow (some S) (some E) e = true) :
    ∃ r, queryBucket (Reads.ofMemory s) b S E = .ok r ∧ e ∈ r := by
  rw [queryBucket_memory, isSome_of_view hv]
  obtain ⟨r, hr, hm⟩ := Memory.get_complete s b (-1) (by omega) _ _ m es hv e he (rounded_of_true S E e hw)
  exact ⟨r, by simp only [if_true]; rw [hr]; rfl, hm⟩

/-- on an existing bucket neither builtin raises -/
theorem queryBucket_total_memory (s : Memory.St D) (b : String) (S E : Int)
    (h : (Memory.view s b).isSome = true) :
    (∃ r, queryBucket (Reads.ofMemory s) b S E = .ok r) ∧
    (∃ n, queryBucketEventcount (Reads.ofMemory s) b S E = .ok n) := by
  rw [queryBucket_memory, queryBucketEventcount_memory, h]
  obtain ⟨⟨r, hr⟩, _⟩ := reads_ok_memory s b h (-1) (Store.roundWin (some S) (some E)).1
    (Store.roundWin (some S) (some E)).2
  obtain ⟨_, ⟨n, hn⟩⟩ := reads_ok_memory s b h (-1) (some S) (some E)
  exact ⟨⟨r, by simp only [if_true]; rw [hr]; rfl⟩, ⟨n, by simp only [if_true]; rw [hn]; rfl⟩⟩

theorem queryBucketEventcount_matches_memory (s : Memory.St D) (b : String) (S E : Int) (n : Nat)
    (hn : queryBucketEventcount (Reads.ofMemory s) b S E = .ok n) :
    (∃ r0, Memory.getEvents s b (-1) (some S) (some E) = .ok r0 ∧ n = r0.length) ∧
    ∃ r, queryBucket (Reads.ofMemory s) b S E = .ok r ∧ n ≤ r.length := by
  rw [queryBucketEventcount_memory] at hn
  rw [queryBucket_memory]
  split at hn
  · rename_i hs
    rw [lift_eq_ok] at hn
    rw [hs]
    constructor
    · have h1 := Memory.count_eq s b (some S) (some E)
      rw [hn] at h1
      cases hg : Memory.getEvents s b (-1) (some S) (some E) with
      | error e => rw [hg] at h1; cases h1
      | ok r0 =>
        rw [hg] at h1
        injection h1 with h1
        exact ⟨r0, rfl, h1⟩
    · obtain ⟨r, hr, hle⟩ := Memory.count_le_get_rounded s b (some S) (some E) n hn
      exact ⟨r, by simp only [if_true]; rw [hr]; rfl, hle⟩
  · cases hn

/-! ### peewee -/

theorem queryBucket_sound_peewee (s : Peewee.St D) (hc : Peewee.CacheOk s) (dec : Ev D → Ev D)
    (b : String) (S E : Int) (r : List (Ev D))
    (hr : queryBucket (Reads.ofPeewee s dec) b S E = .ok r) (x : Ev D) (hx : x ∈ r) :
    ∃ m es e, Peewee.view s b = some (m, es) ∧ e ∈ es ∧
      x = Peewee.clip (Store.roundWin (some S) (some E)).1 (Store.roundWin (some S) (some E)).2 (dec e) ∧
      inWindow (Store.roundWin (some S) (some E)).1 (Store.roundWin (some S) (some E)).2 e = true ∧
      S - 1000 < e.ts + e.dur ∧ e.ts ≤ E + 1000 := by
  rw [queryBucket_peewee] at hr
  split at hr
  · rw [lift_eq_ok] at hr
    obtain ⟨m, es, e, hv, hm, hx', hw, _⟩ := Peewee.get_sound s hc b (-1) _ _ dec r hr x hx
    exact ⟨m, es, e, hv, hm, hx', hw, rounded_near S E e hw⟩
  · cases hr

theorem queryBucket_complete_peewee (s : Peewee.St D) (hc : Peewee.CacheOk s) (dec : Ev D → Ev D)
    (b : String) (S E : Int) (m : Meta) (es : List (Ev D)) (hv : Peewee.view s b = some (m, es))
    (e : Ev D) (he : e ∈ es) (hw : inWindow (some S) (some E) e = true) (hd : e.dur ≤ 86400000000) :
    ∃ r, queryBucket (Reads.ofPeewee s dec) b S E = .ok r ∧
      Peewee.clip (Store.roundWin (some S) (some E)).1 (Store.roundWin (some S) (some E)).2 (dec e) ∈ r := by
  rw [queryBucket_peewee, isSome_of_view hv]
  obtain ⟨r, hr, hm⟩ := Peewee.get_complete s hc b (-1) (by omega) _ _ dec m es hv e he
    (rounded_of_true S E e hw) hd
  exact ⟨r, by simp only [if_true]; rw [hr]; rfl, hm⟩

theorem queryBucket_total_peewee (s : Peewee.St D) (hc : Peewee.CacheOk s) (dec : Ev D → Ev D)
    (b : String) (S E : Int) (h : (Peewee.view s b).isSome = true) :
    (∃ r, queryBucket (Reads.ofPeewee s dec) b S E = .ok r) ∧
    (∃ n, queryBucketEventcount (Reads.ofPeewee s dec) b S E = .ok n) := by
  rw [queryBucket_peewee, queryBucketEventcount_peewee, h]
  obtain ⟨⟨r, hr⟩, _⟩ := reads_ok_peewee s hc b h (-1) (Store.roundWin (some S) (some E)).1
    (Store.roundWin (some S) (some E)).2 dec
  obtain ⟨_, ⟨n, hn⟩⟩ := reads_ok_peewee s hc b h (-1) (some S) (some E) dec
  exact ⟨⟨r, by simp only [if_true]; rw [hr]; rfl⟩, ⟨n, by simp only [if_true]; rw [hn]; rfl⟩⟩

theorem queryBucketEventcount_matches_peewee (s : Peewee.St D) (dec : Ev D → Ev D) (b : String)
    (S E : Int) (n : Nat) (hn : queryBucketEventcount (Reads.ofPeewee s dec) b S E = .ok n) :
    (∃ r0, Peewee.getEvents s b (-1) (some S) (some E) dec = .ok r0 ∧ n = r0.length) ∧
    ∃ r, queryBucket (Reads.ofPeewee s dec) b S E = .ok r ∧ n ≤ r.length := by
  rw [queryBucketEventcount_peewee] at hn
  rw [queryBucket_peewee]
  split at hn
  · rename_i hs
    rw [lift_eq_ok] at hn
    rw [hs]
    constructor
    · have h1 := Peewee.count_eq s b (some S) (some E) dec
      rw [hn] at h1
      cases hg : Peewee.getEvents s b (-1) (some S) (some E) dec with
      | error e => rw [hg] at h1; cases h1
      | ok r0 =>
        rw [hg] at h1
        injection h1 with h1
        exact ⟨r0, rfl, h1⟩
    · obtain ⟨r, hr, hle⟩ := Peewee.count_le_get_rounded s b (some S) (some E) dec n hn
      exact ⟨r, by simp only [if_true]; rw [hr]; rfl, hle⟩
  · cases hn

end Aw.Query
