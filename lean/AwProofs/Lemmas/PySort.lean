import AwModel.PySort
/-!
# Lemmas on the stable insertion sort `sortBy` (model of `sorted(key=…)` / `ORDER BY`)

`sortBy_perm`, `mem_sortBy`, `sortBy_sorted`, `sortBy_stable` (equal keys keep input order),
`sortBy_filter` (filtering commutes with the stable sort) and `sortBy_lex` (a stable sort of a list
already ordered by `R` orders ties by `R`).
-/
namespace Aw
variable {α : Type} (key : α → Int)

theorem insertBy_nil (x : α) : insertBy key x [] = [x] := rfl
theorem insertBy_cons_le (x y : α) (ys : List α) (h : key x ≤ key y) :
    insertBy key x (y :: ys) = x :: y :: ys := by
  show (if key x ≤ key y then _ else _) = _; rw [if_pos h]
theorem insertBy_cons_gt (x y : α) (ys : List α) (h : ¬ key x ≤ key y) :
    insertBy key x (y :: ys) = y :: insertBy key x ys := by
  show (if key x ≤ key y then _ else _) = _; rw [if_neg h]
theorem sortBy_nil : sortBy key ([] : List α) = [] := rfl
theorem sortBy_cons (x : α) (xs : List α) : sortBy key (x :: xs) = insertBy key x (sortBy key xs) := rfl

theorem insertBy_perm (x : α) (l : List α) : (insertBy key x l).Perm (x :: l) := by
  induction l with
  | nil => exact List.Perm.refl _
  | cons y ys ih =>
    unfold insertBy
    by_cases h : key x ≤ key y
    · simp only [h, if_true]; exact List.Perm.refl _
    · simp only [h, if_false]
      exact (List.Perm.cons y ih).trans (List.Perm.swap x y ys)

theorem sortBy_perm (l : List α) : (sortBy key l).Perm l := by
  induction l with
  | nil => exact List.Perm.refl _
  | cons x xs ih =>
    unfold sortBy
    exact (insertBy_perm key x _).trans (List.Perm.cons x ih)

theorem mem_insertBy (x a : α) (l : List α) : a ∈ insertBy key x l ↔ a = x ∨ a ∈ l := by
  rw [(insertBy_perm key x l).mem_iff, List.mem_cons]

theorem mem_sortBy (a : α) (l : List α) : a ∈ sortBy key l ↔ a ∈ l :=
  (sortBy_perm key l).mem_iff

theorem length_sortBy (l : List α) : (sortBy key l).length = l.length :=
  (sortBy_perm key l).length_eq

theorem insertBy_sorted (x : α) (l : List α)
    (h : List.Pairwise (fun a b => key a ≤ key b) l) :
    List.Pairwise (fun a b => key a ≤ key b) (insertBy key x l) := by
  induction l with
  | nil => simp [insertBy]
  | cons y ys ih =>
    have hy := List.pairwise_cons.mp h
    unfold insertBy
    by_cases hxy : key x ≤ key y
    · simp only [hxy, if_true]
      refine List.pairwise_cons.mpr ⟨?_, h⟩
      intro z hz
      rcases List.mem_cons.mp hz with rfl | hz
      · exact hxy
      · exact Int.le_trans hxy (hy.1 z hz)
    · simp only [hxy, if_false]
      refine List.pairwise_cons.mpr ⟨?_, ih hy.2⟩
      intro z hz
      rcases (mem_insertBy key x z ys).mp hz with rfl | hz
      · omega
      · exact hy.1 z hz

theorem sortBy_sorted (l : List α) :
    List.Pairwise (fun a b => key a ≤ key b) (sortBy key l) := by
  induction l with
  | nil => simp [sortBy]
  | cons x xs ih => unfold sortBy; exact insertBy_sorted key x _ ih

theorem insertBy_of_le_all (x : α) (l : List α) (h : ∀ z ∈ l, key x ≤ key z) :
    insertBy key x l = x :: l := by
  cases l with
  | nil => rfl
  | cons y ys => unfold insertBy; simp [h y (List.mem_cons_self)]

/-- filtering commutes with insertion into a sorted list -/
theorem insertBy_filter (p : α → Bool) (x : α) (l : List α)
    (hs : List.Pairwise (fun a b => key a ≤ key b) l) :
    (insertBy key x l).filter p =
      if p x then insertBy key x (l.filter p) else l.filter p := by
  induction l with
  | nil => cases hp : p x <;> simp [insertBy, hp]
  | cons y ys ih =>
    have hy := List.pairwise_cons.mp hs
    have ih := ih hy.2
    by_cases hxy : key x ≤ key y
    · have hall : ∀ z ∈ (y :: ys).filter p, key x ≤ key z := by
        intro z hz
        rcases List.mem_cons.mp (List.mem_filter.mp hz).1 with rfl | hz'
        · exact hxy
        · exact Int.le_trans hxy (hy.1 z hz')
      rw [insertBy_of_le_all key x _ hall]
      rw [insertBy_cons_le key x y ys hxy]
      cases hpx : p x <;> simp [List.filter_cons, hpx]
    · rw [insertBy_cons_gt key x y ys hxy, List.filter_cons, ih]
      cases hpx : p x <;> cases hpy : p y <;> simp [hpy, insertBy_cons_gt, hxy]

/-- filtering commutes with the stable sort -/
theorem sortBy_filter (p : α → Bool) (l : List α) :
    (sortBy key l).filter p = sortBy key (l.filter p) := by
  induction l with
  | nil => rfl
  | cons x xs ih =>
    rw [sortBy_cons, insertBy_filter key p x _ (sortBy_sorted key xs), ih]
    cases hpx : p x <;> simp [hpx, sortBy_cons]

/-- sorting a list whose keys are all equal changes nothing -/
theorem sortBy_const (l : List α) (k : Int) (h : ∀ x ∈ l, key x = k) : sortBy key l = l := by
  induction l with
  | nil => rfl
  | cons x xs ih =>
    unfold sortBy
    rw [ih (fun z hz => h z (List.mem_cons_of_mem _ hz))]
    apply insertBy_of_le_all
    intro z hz
    rw [h x List.mem_cons_self, h z (List.mem_cons_of_mem _ hz)]
    exact Int.le_refl _

/-- stability: the elements of any one key keep their input order -/
theorem sortBy_stable (l : List α) (k : Int) :
    (sortBy key l).filter (fun x => key x = k) = l.filter (fun x => key x = k) := by
  rw [sortBy_filter]
  apply sortBy_const key _ k
  intro x hx
  simpa using (List.mem_filter.mp hx).2

/-- stability, relational form: if the input is ordered by `R`, the output is ordered by
    `key` and, among equal keys, by `R` -/
theorem insertBy_lex (R : α → α → Prop) (x : α) (l : List α)
    (hx : ∀ y ∈ l, R x y)
    (h : List.Pairwise (fun a b => key a < key b ∨ (key a = key b ∧ R a b)) l) :
    List.Pairwise (fun a b => key a < key b ∨ (key a = key b ∧ R a b)) (insertBy key x l) := by
  induction l with
  | nil => simp [insertBy]
  | cons y ys ih =>
    have hy := List.pairwise_cons.mp h
    unfold insertBy
    by_cases hxy : key x ≤ key y
    · simp only [hxy, if_true]
      refine List.pairwise_cons.mpr ⟨?_, h⟩
      intro z hz
      have hR := hx z hz
      rcases List.mem_cons.mp hz with rfl | hz'
      · rcases Int.lt_or_eq_of_le hxy with h1 | h1
        · exact Or.inl h1
        · exact Or.inr ⟨h1, hR⟩
      · have h2 : key y ≤ key z := by rcases hy.1 z hz' with h2 | h2 <;> omega
        rcases Int.lt_or_eq_of_le (Int.le_trans hxy h2) with h1 | h1
        · exact Or.inl h1
        · exact Or.inr ⟨h1, hR⟩
    · simp only [hxy, if_false]
      refine List.pairwise_cons.mpr ⟨?_, ih (fun z hz => hx z (List.mem_cons_of_mem _ hz)) hy.2⟩
      intro z hz
      rcases (mem_insertBy key x z ys).mp hz with rfl | hz
      · exact Or.inl (by omega)
      · exact hy.1 z hz

theorem sortBy_lex (R : α → α → Prop) (l : List α) (h : List.Pairwise R l) :
    List.Pairwise (fun a b => key a < key b ∨ (key a = key b ∧ R a b)) (sortBy key l) := by
  induction l with
  | nil => simp [sortBy]
  | cons x xs ih =>
    have hx := List.pairwise_cons.mp h
    unfold sortBy
    exact insertBy_lex key R x _ (fun y hy => hx.1 y ((mem_sortBy key y xs).mp hy)) (ih hx.2)

/-- a concrete instance: pairs sorted by first component, ties in input order -/
example : sortBy (fun p : Int × Int => p.1) [(3, 0), (1, 1), (3, 2), (1, 3), (2, 4)]
    = [(1, 1), (1, 3), (2, 4), (3, 0), (3, 2)] := by decide

end Aw
