import AwModel.PySort
/-!
Lemmas about the model of Python's stable `sorted(key=…)`: the result is a permutation of the
input, sorted by key, and stable (elements of equal key keep their input order). A stable sort is
a function of its input, so these three facts pin the result down whatever algorithm CPython uses.
-/
namespace Aw.PySort
variable {α : Type}

theorem insertBy_perm (key : α → Int) (x : α) : ∀ l : List α, (insertBy key x l).Perm (x :: l)
  | [] => List.Perm.refl _
  | y :: ys => by
    unfold insertBy
    split
    · exact List.Perm.refl _
    · exact ((insertBy_perm key x ys).cons y).trans (List.Perm.swap x y ys)

/-- the sorted list is a permutation of the input -/
theorem sortBy_perm (key : α → Int) : ∀ l : List α, (sortBy key l).Perm l
  | [] => List.Perm.refl _
  | x :: xs => (insertBy_perm key x _).trans ((sortBy_perm key xs).cons x)

theorem mem_sortBy (key : α → Int) (l : List α) (x : α) : x ∈ sortBy key l ↔ x ∈ l :=
  (sortBy_perm key l).mem_iff

theorem length_sortBy (key : α → Int) (l : List α) : (sortBy key l).length = l.length :=
  (sortBy_perm key l).length_eq

theorem mem_insertBy (key : α → Int) (x a : α) (l : List α) :
    a ∈ insertBy key x l ↔ a = x ∨ a ∈ l := by
  rw [(insertBy_perm key x l).mem_iff]; simp

theorem insertBy_sorted (key : α → Int) (x : α) :
    ∀ l : List α, l.Pairwise (fun a b => key a ≤ key b) →
      (insertBy key x l).Pairwise (fun a b => key a ≤ key b)
  | [], _ => by simp [insertBy]
  | y :: ys, h => by
    unfold insertBy
    split
    · rename_i hxy
      refine List.Pairwise.cons ?_ h
      intro a ha
      rcases List.mem_cons.1 ha with rfl | ha
      · exact hxy
      · exact Int.le_trans hxy (List.rel_of_pairwise_cons h ha)
    · rename_i hxy
      refine List.Pairwise.cons ?_ (insertBy_sorted key x ys (List.Pairwise.of_cons h))
      intro a ha
      rcases (mem_insertBy key x a ys).1 ha with rfl | ha
      · omega
      · exact List.rel_of_pairwise_cons h ha

/-- the result is sorted by key -/
theorem sortBy_sorted (key : α → Int) : ∀ l : List α, (sortBy key l).Pairwise (fun a b => key a ≤ key b)
  | [] => List.Pairwise.nil
  | x :: xs => insertBy_sorted key x _ (sortBy_sorted key xs)

theorem insertBy_filter_eq (key : α → Int) (k : Int) (x : α) :
    ∀ l : List α, l.Pairwise (fun a b => key a ≤ key b) →
      (insertBy key x l).filter (fun a => key a = k) = (x :: l).filter (fun a => key a = k)
  | [], _ => by simp [insertBy]
  | y :: ys, h => by
    unfold insertBy
    split
    · rfl
    · rename_i hxy
      have ih := insertBy_filter_eq key k x ys (List.Pairwise.of_cons h)
      simp only [List.filter_cons] at ih ⊢
      by_cases hx : key x = k <;> by_cases hy : key y = k <;> simp [hx, hy] at ih ⊢
      · omega
      · exact ih
      · exact ih
      · exact ih

/-- stability: for every key value, the elements with that key appear in their input order -/
theorem sortBy_stable (key : α → Int) (k : Int) :
    ∀ l : List α, (sortBy key l).filter (fun a => key a = k) = l.filter (fun a => key a = k)
  | [] => rfl
  | x :: xs => by
    show (insertBy key x (sortBy key xs)).filter _ = _
    rw [insertBy_filter_eq key k x _ (sortBy_sorted key xs)]
    simp only [List.filter_cons, sortBy_stable key k xs]

/-- a list that is already sorted is left as it is -/
theorem sortBy_of_sorted (key : α → Int) :
    ∀ l : List α, l.Pairwise (fun a b => key a ≤ key b) → sortBy key l = l
  | [], _ => rfl
  | x :: xs, h => by
    show insertBy key x (sortBy key xs) = _
    rw [sortBy_of_sorted key xs (List.Pairwise.of_cons h)]
    cases xs with
    | nil => rfl
    | cons y ys =>
      have : key x ≤ key y := List.rel_of_pairwise_cons h (List.mem_cons_self ..)
      simp [insertBy, this]

end Aw.PySort
