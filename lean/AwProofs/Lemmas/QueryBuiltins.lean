import AwModel.Query.Builtins
import AwProofs.Lemmas.StoreReads
import AwProofs.Lemmas.StorePeewee
/-!
# The datastore-taking builtins as functions of the read interface (C12)

* `roundWin_eq`: the rounding restated in `AwModel/Query/Builtins.lean` is `Aw.Store.roundWin`.
* `dsApply_congr`: the builtin bodies depend on the backend only through the reads the three
  builtins make with the query's window.
* per backend: "listed by `buckets()`" is "the view has the bucket"; `queryBucket` /
  `queryBucketEventcount` in closed form; a listed bucket's reads do not raise.
-/
namespace Aw.Query
open Aw Aw.Store

variable {D : Type}

theorem floorMs_eq (t : Int) : Aw.Query.floorMs t = Aw.Store.floorMs t := rfl

theorem roundWin_eq (st en : Option Int) : Aw.Query.roundWin st en = Aw.Store.roundWin st en := rfl

/-! ## the builtins are functions of the reads they make -/

/-- the two interfaces answer alike to everything the three builtins ask with window `S`, `E` -/
structure ReadsAgree (r r' : Reads D) (S E : Int) : Prop where
  buckets : r.buckets = r'.buckets
  get : ∀ b ∈ r.buckets,
    r.get b (-1) (Aw.Query.roundWin (some S) (some E)).1 (Aw.Query.roundWin (some S) (some E)).2 =
    r'.get b (-1) (Aw.Query.roundWin (some S) (some E)).1 (Aw.Query.roundWin (some S) (some E)).2
  count : ∀ b ∈ r.buckets, r.count b (some S) (some E) = r'.count b (some S) (some E)
  hostname : ∀ b ∈ r.buckets, r.hostname b = r'.hostname b

theorem ReadsAgree.of_ext {r r' : Reads D} (S E : Int) (hb : r.buckets = r'.buckets)
    (hg : ∀ b l st en, r.get b l st en = r'.get b l st en)
    (hc : ∀ b st en, r.count b st en = r'.count b st en)
    (hh : ∀ b, r.hostname b = r'.hostname b) : ReadsAgree r r' S E :=
  ⟨hb, fun b _ => hg b _ _ _, fun b _ => hc b _ _, fun b _ => hh b⟩

theorem verifyBucketExists_congr {r r' : Reads D} (hb : r.buckets = r'.buckets) (b : String) :
    verifyBucketExists r b = verifyBucketExists r' b := by
  unfold verifyBucketExists; rw [hb]

theorem verifyBucketExists_ok {r : Reads D} {b : String} (h : verifyBucketExists r b = .ok ()) :
    b ∈ r.buckets := by
  unfold verifyBucketExists at h
  by_cases hm : b ∈ r.buckets
  · exact hm
  · simp [hm] at h

theorem queryBucket_congr {r r' : Reads D} {S E : Int} (h : ReadsAgree r r' S E) (b : String) :
    queryBucket r b S E = queryBucket r' b S E := by
  unfold queryBucket
  rw [← verifyBucketExists_congr h.buckets b]
  cases hv : verifyBucketExists r b with
  | error e => rfl
  | ok u => cases u; simp only []; rw [h.get b (verifyBucketExists_ok hv)]

theorem queryBucketEventcount_congr {r r' : Reads D} {S E : Int} (h : ReadsAgree r r' S E)
    (b : String) : queryBucketEventcount r b S E = queryBucketEventcount r' b S E := by
  unfold queryBucketEventcount
  rw [← verifyBucketExists_congr h.buckets b]
  cases hv : verifyBucketExists r b with
  | error e => rfl
  | ok u => cases u; simp only []; rw [h.count b (verifyBucketExists_ok hv)]

theorem findBucketLoop_congr {r r' : Reads D} (f : String) (host : Option String) :
    ∀ (l : List String), (∀ b ∈ l, r.hostname b = r'.hostname b) →
      findBucketLoop r f host l = findBucketLoop r' f host l
  | [], _ => rfl
  | b :: rest, h => by
    have ih := findBucketLoop_congr (r := r) (r' := r') f host rest
      (fun x hx => h x (List.mem_cons_of_mem _ hx))
    unfold findBucketLoop
    rw [h b List.mem_cons_self, ih]

theorem findBucket_congr {r r' : Reads D} {S E : Int} (h : ReadsAgree r r' S E) (f : String)
    (host : Option String) : findBucket r f host = findBucket r' f host := by
  unfold findBucket
  rw [← h.buckets]
  exact findBucketLoop_congr f host r.buckets h.hostname

/-- the builtin bodies depend on the backend only through the reads -/
theorem dsApply_congr {r r' : Reads D} {S E : Int} (h : ReadsAgree r r' S E) (enc : Enc D)
    (other : Apply) : dsApply r enc S E other = dsApply r' enc S E other := by
  funext name args
  unfold dsApply
  simp only [queryBucket_congr h, queryBucketEventcount_congr h, findBucket_congr h]

/-! ## `BErr.lift` -/

theorem lift_ok {α : Type} (a : α) : BErr.lift (.ok a : Except Store.Err α) = .ok a := rfl

theorem lift_eq_ok {α : Type} {x : Except Store.Err α} {a : α} :
    BErr.lift x = .ok a ↔ x = .ok a := by
  cases x <;> simp [BErr.lift]

theorem lift_map {α β : Type} (f : α → β) (x : Except Store.Err α) :
    BErr.lift (x.map f) = (BErr.lift x).map f := by
  cases x <;> rfl

/-! ## listing and view -/

theorem mem_map_iff_find {α : Type} (l : List α) (f : α → String) (b : String) :
    b ∈ l.map f ↔ (l.find? (fun r => f r = b)).isSome = true := by
  simp [List.find?_isSome, List.mem_map]

theorem verifyBucketExists_eq (r : Reads D) (b : String) (p : Bool) (h : b ∈ r.buckets ↔ p = true) :
    verifyBucketExists r b = if p then .ok () else .error (.func (noBucketMsg b)) := by
  unfold verifyBucketExists
  cases p
  · have : ¬ b ∈ r.buckets := by simpa using h
    simp [this]
  · have : b ∈ r.buckets := h.mpr rfl
    simp [this]

/-! ### sqlite -/

theorem listed_sqlite (s : Sqlite.St D) (b : String) :
    b ∈ (Reads.ofSqlite s).buckets ↔ (Sqlite.view s b).isSome = true := by
  show b ∈ (s.buckets.map (fun r => (r.bid, r.md))).map (·.1) ↔ _
  rw [List.map_map]
  rw [show ((fun (x : String × Meta) => x.1) ∘ fun (r : Sqlite.BRow) => (r.bid, r.md)) = (fun r => r.bid) from rfl]
  rw [mem_map_iff_find]
  unfold Sqlite.view
  cases s.buckets.find? (fun r => r.bid = b) <;> simp

theorem queryBucket_sqlite (s : Sqlite.St D) (b : String) (S E : Int) :
    queryBucket (Reads.ofSqlite s) b S E =
      if (Sqlite.view s b).isSome then
        .ok (Sqlite.getEvents s b (-1) (Store.roundWin (some S) (some E)).1 (Store.roundWin (some S) (some E)).2)
      else .error (.func (noBucketMsg b)) := by
  unfold queryBucket
  rw [verifyBucketExists_eq _ b _ (listed_sqlite s b)]
  cases (Sqlite.view s b).isSome <;> rfl

theorem queryBucketEventcount_sqlite (s : Sqlite.St D) (b : String) (S E : Int) :
    queryBucketEventcount (Reads.ofSqlite s) b S E =
      if (Sqlite.view s b).isSome then .ok (Sqlite.getEventcount s b (some S) (some E))
      else .error (.func (noBucketMsg b)) := by
  unfold queryBucketEventcount
  rw [verifyBucketExists_eq _ b _ (listed_sqlite s b)]
  cases (Sqlite.view s b).isSome <;> rfl

theorem hostname_listed_sqlite (s : Sqlite.St D) (b : String) (h : b ∈ (Reads.ofSqlite s).buckets) :
    ∃ m es, Sqlite.view s b = some (m, es) ∧ (Reads.ofSqlite s).hostname b = some m.hostname := by
  rw [listed_sqlite] at h
  show ∃ m es, _ ∧ hostnameOf (Sqlite.getMetadata s b) = _
  unfold Sqlite.view Sqlite.getMetadata at *
  cases hf : s.buckets.find? (fun r => r.bid = b) with
  | none => simp [hf] at h
  | some r => exact ⟨r.md, _, rfl, rfl⟩

/-- the count over the requested window never exceeds the number of events `query_bucket`
    returns (an instance of `Sqlite.count_le_get_rounded`, which since the repair F22 carries no
    hypothesis about the epoch) -/
theorem Sqlite.count_le_get_rounded_some (s : Sqlite.St D) (b : String) (S E : Int) :
    Sqlite.getEventcount s b (some S) (some E) ≤
      (Sqlite.getEvents s b (-1) (Store.roundWin (some S) (some E)).1 (Store.roundWin (some S) (some E)).2).length :=
  Sqlite.count_le_get_rounded s b (some S) (some E)

/-! ### memory -/

theorem listed_memory (s : Memory.St D) (b : String) :
    b ∈ (Reads.ofMemory s).buckets ↔ (Memory.view s b).isSome = true := by
  show b ∈ (s.map (fun p => (p.1, p.2.1))).map (·.1) ↔ _
  rw [List.map_map]
  rw [show ((fun (x : String × Meta) => x.1) ∘ fun (p : String × (Meta × List (Ev D))) => (p.1, p.2.1))
        = (fun p => p.1) from rfl]
  rw [mem_map_iff_find]
  unfold Memory.view Memory.lookup
  cases s.find? (fun p => p.1 = b) <;> simp

theorem queryBucket_memory (s : Memory.St D) (b : String) (S E : Int) :
    queryBucket (Reads.ofMemory s) b S E =
      if (Memory.view s b).isSome then
        BErr.lift (Memory.getEvents s b (-1) (Store.roundWin (some S) (some E)).1 (Store.roundWin (some S) (some E)).2)
      else .error (.func (noBucketMsg b)) := by
  unfold queryBucket
  rw [verifyBucketExists_eq _ b _ (listed_memory s b)]
  cases (Memory.view s b).isSome <;> rfl

theorem queryBucketEventcount_memory (s : Memory.St D) (b : String) (S E : Int) :
    queryBucketEventcount (Reads.ofMemory s) b S E =
      if (Memory.view s b).isSome then BErr.lift (Memory.getEventcount s b (some S) (some E))
      else .error (.func (noBucketMsg b)) := by
  unfold queryBucketEventcount
  rw [verifyBucketExists_eq _ b _ (listed_memory s b)]
  cases (Memory.view s b).isSome <;> rfl

theorem hostname_listed_memory (s : Memory.St D) (b : String) (h : b ∈ (Reads.ofMemory s).buckets) :
    ∃ m es, Memory.view s b = some (m, es) ∧ (Reads.ofMemory s).hostname b = some m.hostname := by
  rw [listed_memory] at h
  show ∃ m es, _ ∧ hostnameOf (Memory.getMetadata s b) = _
  unfold Memory.view Memory.getMetadata at *
  cases hl : Memory.lookup s b with
  | none => simp [hl] at h
  | some p => exact ⟨p.1, p.2, rfl, rfl⟩

/-- a listed bucket's reads do not raise -/
theorem reads_ok_memory (s : Memory.St D) (b : String) (h : (Memory.view s b).isSome = true)
    (limit : Int) (st en : Option Int) :
    (∃ r, Memory.getEvents s b limit st en = .ok r) ∧ (∃ n, Memory.getEventcount s b st en = .ok n) := by
  constructor
  · cases hg : Memory.getEvents s b limit st en with
    | ok r => exact ⟨r, rfl⟩
    | error e =>
      have := ((Memory.getEvents_error_iff s b limit st en e).mp hg).2
      rw [this] at h; cases h
  · cases hg : Memory.getEventcount s b st en with
    | ok r => exact ⟨r, rfl⟩
    | error e =>
      have := ((Memory.getEventcount_error_iff s b st en e).mp hg).2
      rw [this] at h; cases h

/-! ### peewee -/

theorem listed_peewee (s : Peewee.St D) (dec : Ev D → Ev D) (b : String) :
    b ∈ (Reads.ofPeewee s dec).buckets ↔ (Peewee.view s b).isSome = true := by
  show b ∈ (s.buckets.map (fun r => (r.bid, r.md))).map (·.1) ↔ _
  rw [List.map_map]
  rw [show ((fun (x : String × Meta) => x.1) ∘ fun (r : Peewee.BRow) => (r.bid, r.md)) = (fun r => r.bid) from rfl]
  rw [mem_map_iff_find]
  unfold Peewee.view
  cases s.buckets.find? (fun r => r.bid = b) <;> simp

theorem queryBucket_peewee (s : Peewee.St D) (dec : Ev D → Ev D) (b : String) (S E : Int) :
    queryBucket (Reads.ofPeewee s dec) b S E =
      if (Peewee.view s b).isSome then
        BErr.lift (Peewee.getEvents s b (-1) (Store.roundWin (some S) (some E)).1
          (Store.roundWin (some S) (some E)).2 dec)
      else .error (.func (noBucketMsg b)) := by
  unfold queryBucket
  rw [verifyBucketExists_eq _ b _ (listed_peewee s dec b)]
  cases (Peewee.view s b).isSome <;> rfl

theorem queryBucketEventcount_peewee (s : Peewee.St D) (dec : Ev D → Ev D) (b : String) (S E : Int) :
    queryBucketEventcount (Reads.ofPeewee s dec) b S E =
      if (Peewee.view s b).isSome then BErr.lift (Peewee.getEventcount s b (some S) (some E))
      else .error (.func (noBucketMsg b)) := by
  unfold queryBucketEventcount
  rw [verifyBucketExists_eq _ b _ (listed_peewee s dec b)]
  cases (Peewee.view s b).isSome <;> rfl

/-- a listed bucket's reads do not raise when the key cache is coherent -/
theorem reads_ok_peewee (s : Peewee.St D) (hc : Peewee.CacheOk s) (b : String)
    (h : (Peewee.view s b).isSome = true) (limit : Int) (st en : Option Int) (dec : Ev D → Ev D) :
    (∃ r, Peewee.getEvents s b limit st en dec = .ok r) ∧
    (∃ n, Peewee.getEventcount s b st en = .ok n) := by
  constructor
  · cases hg : Peewee.getEvents s b limit st en dec with
    | ok r => exact ⟨r, rfl⟩
    | error e =>
      have := ((Peewee.getEvents_error_iff s hc b limit st en dec e).mp hg).2.2
      rw [this] at h; cases h
  · cases hg : Peewee.getEventcount s b st en with
    | ok r => exact ⟨r, rfl⟩
    | error e =>
      have := ((Peewee.getEventcount_error_iff s hc b st en e).mp hg).2
      rw [this] at h; cases h

/-- under the table invariant of `StorePeewee.lean` (`Peewee.Inv`: distinct bucket ids and keys, coherent
    key cache) `get_metadata` of a listed bucket succeeds -/
theorem hostname_listed_peewee (s : Peewee.St D) (hi : Peewee.Inv s) (dec : Ev D → Ev D) (b : String)
    (h : b ∈ (Reads.ofPeewee s dec).buckets) :
    ∃ m es, Peewee.view s b = some (m, es) ∧ (Reads.ofPeewee s dec).hostname b = some m.hostname := by
  rw [listed_peewee] at h
  show ∃ m es, _ ∧ hostnameOf (Peewee.getMetadata s b) = _
  rw [Peewee.getMetadata_eq hi]
  cases hv : Peewee.view s b with
  | none => rw [hv] at h; cases h
  | some p => exact ⟨p.1, p.2, rfl, rfl⟩

end Aw.Query
