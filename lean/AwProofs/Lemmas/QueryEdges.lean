import AwProofs.Lemmas.QueryRenderFacts
/-! Rendered expressions begin and end with a non-blank character; `strip` around them; no `;`. -/
namespace Aw.Query

/-- non-empty, first and last character not blank -/
def Edges (s : Str) : Prop :=
  ∃ a b, s.head? = some a ∧ s.getLast? = some b ∧ isSpace a = false ∧ isSpace b = false

theorem Edges.ne_nil {s : Str} (h : Edges s) : s ≠ [] := by
  obtain ⟨a, _, h1, _⟩ := h
  intro hs; simp [hs] at h1

theorem edges_of_all {s : Str} (hne : s ≠ []) (h : ∀ c ∈ s, isSpace c = false) : Edges s := by
  cases hh : s.head? with
  | none => simp at hh; exact absurd hh hne
  | some a =>
    cases hl : s.getLast? with
    | none => simp at hl; exact absurd hl hne
    | some b =>
      exact ⟨a, b, hh, hl, h a (List.mem_of_head? hh), h b (List.mem_of_getLast? hl)⟩

theorem edges_cons_concat (a b : Char) (m : Str) (ha : isSpace a = false) (hb : isSpace b = false) :
    Edges (a :: (m ++ [b])) :=
  ⟨a, b, rfl, by simp [List.getLast?_cons, List.getLast?_append], ha, hb⟩

theorem edges_append_cons_concat {f : Str} (hf : Edges f) (a b : Char) (m : Str) (hb : isSpace b = false) :
    Edges (f ++ a :: (m ++ [b])) := by
  obtain ⟨x, _, h1, _, h3, _⟩ := hf
  refine ⟨x, b, ?_, ?_, h3, hb⟩
  · cases f with
    | nil => simp at h1
    | cons y ys => simpa using h1
  · simp [List.getLast?_append, List.getLast?_cons]

theorem lstrip_of_head {s : Str} {a : Char} (h : s.head? = some a) (ha : isSpace a = false) : lstrip s = s := by
  cases s with
  | nil => rfl
  | cons x xs =>
    simp at h; subst h
    unfold lstrip; simp [ha]

theorem lstrip_ws_append {w : Str} (hw : ∀ c ∈ w, isSpace c = true) (s : Str) : lstrip (w ++ s) = lstrip s := by
  induction w with
  | nil => rfl
  | cons x xs ih =>
    have e : lstrip (x :: (xs ++ s)) = lstrip (xs ++ s) := by
      rw [lstrip]; rw [if_pos (hw x (by simp))]
    show lstrip (x :: (xs ++ s)) = _
    rw [e]
    exact ih (fun c hc => hw c (by simp [hc]))

theorem rstrip_of_last {s : Str} {b : Char} (h : s.getLast? = some b) (hb : isSpace b = false) : rstrip s = s := by
  unfold rstrip
  have : s.reverse.head? = some b := by rw [List.head?_reverse]; exact h
  rw [lstrip_of_head this hb, List.reverse_reverse]

theorem rstrip_of_tail {s : Str} (h : Tail s) : rstrip s = s := by
  rcases h with rfl | ⟨b, h1, h2⟩
  · rfl
  · exact rstrip_of_last h1 h2

theorem tail_of_edges {s : Str} (h : Edges s) : Tail s := by
  obtain ⟨_, b, _, h2, _, h4⟩ := h
  exact Or.inr ⟨b, h2, h4⟩

theorem tail_append {x k : Str} (hx : Tail x) (hk : Tail k) : Tail (x ++ k) := by
  rcases hk with rfl | ⟨b, h1, h2⟩
  · simpa using hx
  · right
    refine ⟨b, ?_, h2⟩
    cases k with
    | nil => simp at h1
    | cons y ys => rw [List.getLast?_append]; simp [h1]

theorem tail_append_right {w x : Str} (hx : Tail x) (hne : x ≠ []) : Tail (w ++ x) := by
  rcases hx with rfl | ⟨b, h1, h2⟩
  · exact absurd rfl hne
  · right
    refine ⟨b, ?_, h2⟩
    rw [List.getLast?_append]; simp [h1]

theorem edges_append_tail {r k : Str} (hr : Edges r) (hk : Tail k) : Edges (r ++ k) := by
  obtain ⟨a, b, h1, h2, h3, h4⟩ := hr
  have hne := Edges.ne_nil ⟨a, b, h1, h2, h3, h4⟩
  have hhead : (r ++ k).head? = some a := by
    cases r with
    | nil => exact absurd rfl hne
    | cons y ys => simpa using h1
  rcases tail_append (tail_of_edges ⟨a, b, h1, h2, h3, h4⟩) hk with h | ⟨b', h5, h6⟩
  · simp at h; exact absurd h.1 hne
  · exact ⟨a, b', hhead, h5, h3, h6⟩

/-- `strip` removes exactly the leading blanks in front of text with solid edges -/
theorem strip_ws_edges {w x : Str} (hw : ∀ c ∈ w, isSpace c = true) (hx : Edges x) : strip (w ++ x) = x := by
  obtain ⟨a, b, h1, h2, h3, h4⟩ := hx
  unfold strip
  rw [lstrip_ws_append hw, lstrip_of_head h1 h3, rstrip_of_last h2 h4]

theorem strip_edges {x : Str} (hx : Edges x) : strip x = x := by
  have := strip_ws_edges (w := []) (by simp) hx
  simpa using this

theorem strip_ws {w : Str} (hw : ∀ c ∈ w, isSpace c = true) : strip w = [] :=
  (strip_eq_nil_iff w).mpr hw

theorem strip_edges_ws {x w : Str} (hx : Edges x) (hw : ∀ c ∈ w, isSpace c = true) : strip (x ++ w) = x := by
  obtain ⟨a, b, h1, h2, h3, h4⟩ := hx
  have hne := Edges.ne_nil ⟨a, b, h1, h2, h3, h4⟩
  unfold strip
  have hh : (x ++ w).head? = some a := by
    cases x with
    | nil => exact absurd rfl hne
    | cons y ys => simpa using h1
  rw [lstrip_of_head hh h3]
  unfold rstrip
  rw [List.reverse_append, lstrip_ws_append (by simpa using hw)]
  have : x.reverse.head? = some b := by rw [List.head?_reverse]; exact h2
  rw [lstrip_of_head this h4, List.reverse_reverse]

/-! ### edges of rendered expressions -/

theorem word_str_edges {s : Str} (hne : s ≠ []) (h : ∀ c ∈ s, Word c) : Edges s :=
  edges_of_all hne (fun c hc => word_not_space (h c hc))

theorem quote_not_space {q : Char} (hq : q = '"' ∨ q = '\'') : isSpace q = false := by
  rcases hq with rfl | rfl <;> decide

theorem edges_renderStr {q : Char} (hq : q = '"' ∨ q = '\'') (s : Str) : Edges (renderStr q s) :=
  edges_cons_concat q q _ (quote_not_space hq) (quote_not_space hq)

theorem edges_renderExpr : ∀ (e : Expr) (l : Layout), WF e → Edges (renderExpr l e)
  | .int n, l, _ => by
    rw [renderExpr]
    exact word_str_edges (decimal_spec n).1 (fun c hc => Or.inr (Or.inr ((decimal_spec n).2.1 c hc)))
  | .str s, l, _ => by rw [renderExpr]; exact edges_renderStr (quote_cases l 0) s
  | .var name, l, hw => by
    rw [renderExpr]; rw [WF] at hw
    exact word_str_edges hw.1 (ident_word hw)
  | .call f args, l, hw => by
    rw [renderExpr]; rw [WF] at hw
    exact edges_append_cons_concat (word_str_edges hw.1.1 (ident_word hw.1)) _ _ _ (by decide)
  | .list xs, l, _ => by rw [renderExpr]; exact edges_cons_concat _ _ _ (by decide) (by decide)
  | .dict kvs, l, _ => by rw [renderExpr]; exact edges_cons_concat _ _ _ (by decide) (by decide)

theorem tail_renderArgs : ∀ (es : List Expr) (l : Layout) (j : Nat), WFList es → Tail (renderArgs l j es)
  | [], l, j, _ => by rw [renderArgs]; exact tail_nil
  | e :: es, l, j, hw => by
    rw [renderArgs]; rw [WFList] at hw
    have h1 := edges_append_tail (edges_renderExpr e (l.sub j) hw.1) (tail_renderArgs es l (j + 1) hw.2)
    exact tail_append_right (tail_of_edges h1) h1.ne_nil

theorem tail_renderEntries : ∀ (es : List (Str × Expr)) (l : Layout) (j : Nat), WFDict es →
    Tail (renderEntries l j es)
  | [], l, j, _ => by rw [renderEntries]; exact tail_nil
  | (k, e) :: es, l, j, hw => by
    rw [renderEntries]; rw [WFDict] at hw
    have h1 := edges_append_tail (edges_renderExpr e (l.sub j) hw.2.1) (tail_renderEntries es l (j + 1) hw.2.2)
    have h2 : Tail (l.slot (4 * j + 3) ++ (renderExpr (l.sub j) e ++ renderEntries l (j + 1) es)) :=
      tail_append_right (tail_of_edges h1) h1.ne_nil
    have n2 : (l.slot (4 * j + 3) ++ (renderExpr (l.sub j) e ++ renderEntries l (j + 1) es)) ≠ [] := by
      simp [h1.ne_nil]
    have h3 : Tail (':' :: (l.slot (4 * j + 3) ++ (renderExpr (l.sub j) e ++ renderEntries l (j + 1) es))) :=
      tail_append_right (w := [':']) h2 n2
    refine tail_append_right (tail_append_right (tail_append_right h3 (by simp)) (by simp)) (by simp)

end Aw.Query
