import AwProofs.Lemmas.QueryPasses
/-! Facts about rendered text: numerals, identifiers, transparency for the scanners, edges, no `;`. -/
namespace Aw.Query

/-! ### numerals -/

theorem digitChar_isDigit {d : Nat} (h : d < 10) : isDigit (digitChar d) = true := by
  have : d = 0 ∨ d = 1 ∨ d = 2 ∨ d = 3 ∨ d = 4 ∨ d = 5 ∨ d = 6 ∨ d = 7 ∨ d = 8 ∨ d = 9 := by omega
  rcases this with rfl | rfl | rfl | rfl | rfl | rfl | rfl | rfl | rfl | rfl <;> decide

theorem digitChar_val {d : Nat} (h : d < 10) : (digitChar d).toNat - '0'.toNat = d := by
  have : d = 0 ∨ d = 1 ∨ d = 2 ∨ d = 3 ∨ d = 4 ∨ d = 5 ∨ d = 6 ∨ d = 7 ∨ d = 8 ∨ d = 9 := by omega
  rcases this with rfl | rfl | rfl | rfl | rfl | rfl | rfl | rfl | rfl | rfl <;> decide

theorem decimal_spec (n : Nat) :
    decimal n ≠ [] ∧ (∀ c ∈ decimal n, isDigit c = true) ∧ ∀ acc, (decimal n).foldl (fun m c => 10 * m + (c.toNat - '0'.toNat)) acc = acc * 10 ^ (decimal n).length + n := by
  induction n using Nat.strongRecOn with
  | _ n ih =>
    rw [decimal]
    split
    · rename_i h
      refine ⟨by simp, ?_, ?_⟩
      · intro c hc; simp at hc; subst hc; exact digitChar_isDigit h
      · intro acc
        simp only [List.foldl_cons, List.foldl_nil, List.length_singleton, Nat.pow_one]
        rw [digitChar_val h]; omega
    · rename_i h
      obtain ⟨h1, h2, h3⟩ := ih (n / 10) (by omega)
      refine ⟨by simp, ?_, ?_⟩
      · intro c hc
        rcases List.mem_append.mp hc with hc | hc
        · exact h2 c hc
        · simp at hc; subst hc; exact digitChar_isDigit (by omega)
      · intro acc
        rw [List.foldl_append, h3]
        simp only [List.foldl_cons, List.foldl_nil, List.length_append, List.length_singleton]
        rw [digitChar_val (by omega), Nat.pow_succ]
        have := Nat.div_add_mod n 10
        generalize 10 ^ (decimal (n / 10)).length = X
        have e : 10 * (acc * X + n / 10) = acc * (X * 10) + 10 * (n / 10) := by
          rw [Nat.mul_add, Nat.mul_comm 10 (acc * X), Nat.mul_assoc]
        rw [e]; omega

theorem natOfDigits_decimal (n : Nat) : natOfDigits (decimal n) = n := by
  have := (decimal_spec n).2.2 0
  simpa [natOfDigits] using this

theorem pyInt_decimal (n : Nat) (hlen : (decimal n).length ≤ maxIntDigits) : pyInt (decimal n) = .ok n := by
  obtain ⟨h1, h2, _⟩ := decimal_spec n
  unfold pyInt
  rw [if_pos ⟨h1, List.all_eq_true.mpr h2, hlen⟩, natOfDigits_decimal]

/-- `QInteger.parse` on the numeral of `n`, when the runtime's `int()` accepts its length -/
theorem parseIntTok_decimal (n : Nat) (hlen : (decimal n).length ≤ maxIntDigits) :
    parseIntTok (decimal n) = .ok n := by
  unfold parseIntTok; rw [pyInt_decimal n hlen]

/-! ### identifiers -/

theorem identFrom_word : ∀ (i : Nat) (s : Str), identFrom i s = true → ∀ c ∈ s, Word c
  | _, [], _, c, hc => by simp at hc
  | i, x :: xs, h, c, hc => by
    unfold identFrom at h
    simp only [Bool.and_eq_true] at h
    rcases List.mem_cons.mp hc with rfl | hc
    · exact word_of_isIdent h.1
    · exact identFrom_word (i + 1) xs h.2 c hc

theorem ident_word {name : Str} (h : Ident name) : ∀ c ∈ name, Word c := identFrom_word 0 name h.2

/-! ### which characters are plain for a scanner -/

theorem plainFor_word {o c ch : Char} (hp : BrPair o c) (h : Word ch) : PlainFor o c ch := by
  refine ⟨word_ne h (by decide), word_ne h (by decide), word_ne h (by decide), ?_, ?_⟩ <;>
    rcases hp with ⟨rfl, rfl⟩ | ⟨rfl, rfl⟩ | ⟨rfl, rfl⟩ <;> exact word_ne h (by decide)

theorem plainFor_space {o c ch : Char} (hp : BrPair o c) (h : isSpace ch = true) : PlainFor o c ch := by
  rcases hp with ⟨rfl, rfl⟩ | ⟨rfl, rfl⟩ | ⟨rfl, rfl⟩ <;>
    rcases isSpace_cases h with rfl | rfl | rfl | rfl | rfl | rfl | rfl | rfl | rfl | rfl <;>
    exact ⟨by decide, by decide, by decide, by decide, by decide⟩

theorem plainFor_comma {o c : Char} (hp : BrPair o c) : PlainFor o c ',' := by
  rcases hp with ⟨rfl, rfl⟩ | ⟨rfl, rfl⟩ | ⟨rfl, rfl⟩ <;>
    exact ⟨by decide, by decide, by decide, by decide, by decide⟩

theorem plainFor_colon {o c : Char} (hp : BrPair o c) : PlainFor o c ':' := by
  rcases hp with ⟨rfl, rfl⟩ | ⟨rfl, rfl⟩ | ⟨rfl, rfl⟩ <;>
    exact ⟨by decide, by decide, by decide, by decide, by decide⟩

theorem passes_ws {o c : Char} (hp : BrPair o c) {w : Str} (h : ∀ ch ∈ w, isSpace ch = true) :
    Passes o c w := passes_plain_str (fun ch hch => plainFor_space hp (h ch hch))

theorem passes_words {o c : Char} (hp : BrPair o c) {w : Str} (h : ∀ ch ∈ w, Word ch) :
    Passes o c w := passes_plain_str (fun ch hch => plainFor_word hp (h ch hch))

/-- a bracket group of any of the three kinds around transparent text is transparent -/
theorem passes_group {o c o' c' : Char} (hp : BrPair o c) (hp' : BrPair o' c') {w : Str}
    (hw : Passes o c w) : Passes o c (o' :: (w ++ [c'])) := by
  have key : ∀ x y : Char, PlainFor o c x → PlainFor o c y → Passes o c (x :: (w ++ [y])) := by
    intro x y hx hy
    show Passes o c ([x] ++ (w ++ [y]))
    exact passes_append (passes_plain hx) (passes_append hw (passes_plain hy))
  rcases hp with ⟨rfl, rfl⟩ | ⟨rfl, rfl⟩ | ⟨rfl, rfl⟩ <;>
    rcases hp' with ⟨rfl, rfl⟩ | ⟨rfl, rfl⟩ | ⟨rfl, rfl⟩ <;>
    first
    | exact passes_own_brackets (by simp [BrPair]) hw
    | exact key _ _ ⟨by decide, by decide, by decide, by decide, by decide⟩
        ⟨by decide, by decide, by decide, by decide, by decide⟩

theorem passes_cons {o c ch : Char} {w : Str} (hch : PlainFor o c ch) (h : Passes o c w) :
    Passes o c (ch :: w) := by
  show Passes o c ([ch] ++ w)
  exact passes_append (passes_plain hch) h

theorem passes_sep {o c : Char} (hp : BrPair o c) {l : Layout} (hl : LayoutOK l) (a b : Nat) (ch : Char)
    (hch : PlainFor o c ch) : Passes o c (l.slot a ++ ch :: l.slot b) := by
  show Passes o c (l.slot a ++ ([ch] ++ l.slot b))
  exact passes_append (passes_ws hp (slot_space hl a))
    (passes_append (passes_plain hch) (passes_ws hp (slot_space hl b)))

theorem passes_commaSep {o c : Char} (hp : BrPair o c) {l : Layout} (hl : LayoutOK l) (a b j : Nat) :
    Passes o c (commaSep l a b j) := by
  unfold commaSep
  split
  · exact passes_nil o c
  · exact passes_sep hp hl _ _ ',' (plainFor_comma hp)

theorem strOK_noBackslash {s : Str} (h : StrOK s) : ∀ ch ∈ s, ch ≠ '\\' := fun ch hch => (h ch hch).1

mutual
theorem passes_renderExpr {o c : Char} (hp : BrPair o c) :
    ∀ (e : Expr) (l : Layout), WF e → LayoutOK l → Passes o c (renderExpr l e)
  | .int n, l, _, _ => by
    rw [renderExpr]
    exact passes_words hp (fun ch hch => Or.inr (Or.inr ((decimal_spec n).2.1 ch hch)))
  | .str s, l, hw, _ => by
    rw [renderExpr]
    rw [WF] at hw
    exact passes_string o c _ (quote_cases l 0) s (strOK_noBackslash hw)
  | .var name, l, hw, _ => by
    rw [renderExpr]
    rw [WF] at hw
    exact passes_words hp (ident_word hw)
  | .call f args, l, hw, hl => by
    rw [renderExpr]
    rw [WF] at hw
    exact passes_append (passes_words hp (ident_word hw.1))
      (passes_group hp (Or.inl ⟨rfl, rfl⟩) (passes_renderArgs hp args l 0 hw.2 hl))
  | .list xs, l, hw, hl => by
    rw [renderExpr]
    rw [WF] at hw
    exact passes_group hp (Or.inr (Or.inr ⟨rfl, rfl⟩)) (passes_renderArgs hp xs l 0 hw hl)
  | .dict kvs, l, hw, hl => by
    rw [renderExpr]
    rw [WF] at hw
    exact passes_group hp (Or.inr (Or.inl ⟨rfl, rfl⟩)) (passes_renderEntries hp kvs l 0 hw.1 hl)
theorem passes_renderArgs {o c : Char} (hp : BrPair o c) :
    ∀ (es : List Expr) (l : Layout) (j : Nat), WFList es → LayoutOK l → Passes o c (renderArgs l j es)
  | [], l, j, _, _ => by rw [renderArgs]; exact passes_nil o c
  | e :: es, l, j, hw, hl => by
    rw [renderArgs]
    rw [WFList] at hw
    refine passes_append ?_ (passes_append (passes_renderExpr hp e (l.sub j) hw.1 (layoutOK_sub hl j))
      (passes_renderArgs hp es l (j + 1) hw.2 hl))
    exact passes_commaSep hp hl _ _ _
theorem passes_renderEntries {o c : Char} (hp : BrPair o c) :
    ∀ (es : List (Str × Expr)) (l : Layout) (j : Nat), WFDict es → LayoutOK l →
      Passes o c (renderEntries l j es)
  | [], l, j, _, _ => by rw [renderEntries]; exact passes_nil o c
  | (k, e) :: es, l, j, hw, hl => by
    rw [renderEntries]
    rw [WFDict] at hw
    refine passes_append ?_ (passes_append (passes_string o c _ (quote_cases l _) k (strOK_noBackslash hw.1))
      (passes_append (passes_ws hp (slot_space hl _)) (passes_cons (plainFor_colon hp)
        (passes_append (passes_ws hp (slot_space hl _))
          (passes_append (passes_renderExpr hp e (l.sub j) hw.2.1 (layoutOK_sub hl j))
            (passes_renderEntries hp es l (j + 1) hw.2.2 hl))))))
    exact passes_commaSep hp hl _ _ _
end

end Aw.Query
