import AwProofs.Lemmas.HeapOwn
/-!
# What a query can do to the memory backend's objects (C12, heap level)

A running query touches the datastore's objects in two ways only: its datastore-taking builtins
call the READ API (`get_events` through `Bucket.get`, `get_event`, `get_metadata`, `buckets`), and
its transforms (`categorize`, `tag`, `flood`, `merge_events_by_keys`, `split_url_events`, …) mutate
event objects in place — objects they were handed by those reads. `QStep` is that vocabulary;
`qrun` runs a list of such steps with the trace semantics of `Heap.step` (a mutation of an object
the client does not hold at that point is not a step it can take).

The read API functions leave the store dict alone and allocate above `next` only, so `observe` is
unchanged by them; client mutations do not change it by `mutate_observe` (C01). Hence no sequence
of query steps changes what reads return.
-/
namespace Aw.Store.Heap
open Aw Aw.Store

/-! ## the read API allocates above `next` and leaves the store dict alone -/

theorem allocHeld_next (s : State) (c : Cell) : (allocHeld s c).1.next = s.next + 1 := rfl
theorem allocHeld_store (s : State) (c : Cell) : (allocHeld s c).1.store = s.store := rfl

theorem handOutEv_next (s : State) (o : EvObj) : (handOutEv s o).1.next = s.next + 2 := rfl
theorem handOutEv_store (s : State) (o : EvObj) : (handOutEv s o).1.store = s.store := rfl
theorem handOutMeta_next (s : State) (o : MetaObj) : (handOutMeta s o).1.next = s.next + 2 := rfl
theorem handOutMeta_store (s : State) (o : MetaObj) : (handOutMeta s o).1.store = s.store := rfl

theorem handOutEv_heap {s : State} (o : EvObj) {x : Ref} (hx : x < s.next) :
    (handOutEv s o).1.heap x = s.heap x := by
  unfold handOutEv
  show (allocHeld (allocHeld s _).1 _).1.heap x = s.heap x
  rw [heap_allocHeld_ne, heap_allocHeld_ne]
  · exact Nat.ne_of_lt hx
  · show x ≠ s.next + 1
    exact Nat.ne_of_lt (Nat.lt_succ_of_lt hx)

theorem handOutMeta_heap {s : State} (o : MetaObj) {x : Ref} (hx : x < s.next) :
    (handOutMeta s o).1.heap x = s.heap x := by
  unfold handOutMeta
  show (allocHeld (allocHeld s _).1 _).1.heap x = s.heap x
  rw [heap_allocHeld_ne, heap_allocHeld_ne]
  · exact Nat.ne_of_lt hx
  · show x ≠ s.next + 1
    exact Nat.ne_of_lt (Nat.lt_succ_of_lt hx)

theorem handOutEvs_next_le : ∀ (l : List Ref) (s : State), s.next ≤ (handOutEvs s l).1.next
  | [], _ => Nat.le_refl _
  | x :: rest, s => by
    unfold handOutEvs
    split
    · exact handOutEvs_next_le rest s
    · rename_i o _
      have h2 : (handOutEv s o).1.next ≤ (handOutEvs (handOutEv s o).1 rest).1.next :=
        handOutEvs_next_le rest (handOutEv s o).1
      exact Nat.le_trans (Nat.le_add_right s.next 2) h2

theorem handOutEvs_heap : ∀ (l : List Ref) (s : State) {x : Ref}, x < s.next →
    (handOutEvs s l).1.heap x = s.heap x
  | [], _, _, _ => rfl
  | y :: rest, s, x, hx => by
    unfold handOutEvs
    split
    · exact handOutEvs_heap rest s hx
    · rename_i o _
      have h1 : x < (handOutEv s o).1.next := Nat.lt_of_lt_of_le hx (Nat.le_add_right s.next 2)
      exact (handOutEvs_heap rest (handOutEv s o).1 h1).trans (handOutEv_heap o hx)

theorem handOutMetas_heap : ∀ (l : List (String × Ref)) (s : State) {x : Ref}, x < s.next →
    (handOutMetas s l).1.heap x = s.heap x
  | [], _, _, _ => rfl
  | (b, mr) :: rest, s, x, hx => by
    unfold handOutMetas
    split
    · exact handOutMetas_heap rest s hx
    · rename_i o _
      have h1 : x < (handOutMeta s o).1.next := Nat.lt_of_lt_of_le hx (Nat.le_add_right s.next 2)
      exact (handOutMetas_heap rest (handOutMeta s o).1 h1).trans (handOutMeta_heap o hx)

/-! ## the read API -/

/-- the API calls a query's builtins make -/
inductive ReadApi
  /-- `get_events` (what `Bucket.get` calls after rounding the window) -/
  | getEvents (b : String) (limit : Int) (st en : Option Int)
  | getEvent (b : String) (eid : Int)
  | getMetadata (b : String)
  | buckets
deriving Repr

def ReadApi.toApi : ReadApi → Api
  | .getEvents b l st en => .getEvents b l st en
  | .getEvent b eid => .getEvent b eid
  | .getMetadata b => .getMetadata b
  | .buckets => .buckets

/-- a read leaves the store dict alone -/
theorem read_store (s : State) (a : ReadApi) : (api s a.toApi).1.store = s.store := by
  cases a with
  | getEvents b l st en =>
    show (getEvents s b l st en).1.store = s.store
    unfold getEvents
    split
    · rfl
    · exact handOutEvs_store _ s
  | getEvent b eid =>
    show (getEvent s b eid).1.store = s.store
    unfold getEvent
    split
    · rfl
    split
    · rfl
    split
    · rfl
    · rfl
  | getMetadata b =>
    show (getMetadata s b).1.store = s.store
    unfold getMetadata
    split
    · rfl
    split
    · rfl
    · rfl
  | buckets =>
    show (bucketsOf s).1.store = s.store
    exact handOutMetas_store _ s

/-- a read writes no existing cell -/
theorem read_heap (s : State) (a : ReadApi) {x : Ref} (hx : x < s.next) :
    (api s a.toApi).1.heap x = s.heap x := by
  cases a with
  | getEvents b l st en =>
    show (getEvents s b l st en).1.heap x = s.heap x
    unfold getEvents
    split
    · rfl
    · exact handOutEvs_heap _ s hx
  | getEvent b eid =>
    show (getEvent s b eid).1.heap x = s.heap x
    unfold getEvent
    split
    · rfl
    split
    · rfl
    split
    · rfl
    · exact handOutEv_heap _ hx
  | getMetadata b =>
    show (getMetadata s b).1.heap x = s.heap x
    unfold getMetadata
    split
    · rfl
    split
    · rfl
    · exact handOutMeta_heap _ hx
  | buckets =>
    show (bucketsOf s).1.heap x = s.heap x
    exact handOutMetas_heap _ s hx

/-- under the separation invariant a read does not change what reads return -/
theorem read_observe {s : State} (h : Sep s) (a : ReadApi) :
    observe (api s a.toApi).1 = observe s :=
  observe_congr (read_store s a) fun r hr => read_heap s a (h.bound r hr)

theorem read_sep {s : State} (h : Sep s) (a : ReadApi) : Sep (api s a.toApi).1 := api_sep h _

/-! ## what the reads hand out is new and client-held -/

theorem allocHeld_client_mono (s : State) (c : Cell) {r : Ref} (h : s.client r = true) :
    (allocHeld s c).1.client r = true := by
  simp [allocHeld, alloc, hold, h]

theorem handOutEv_client_mono (s : State) (o : EvObj) {r : Ref} (h : s.client r = true) :
    (handOutEv s o).1.client r = true :=
  allocHeld_client_mono _ _ (allocHeld_client_mono _ _ h)

theorem handOutEv_ref (s : State) (o : EvObj) : (handOutEv s o).2 = s.next + 1 := rfl

theorem handOutEv_holds (s : State) (o : EvObj) : (handOutEv s o).1.client (s.next + 1) = true := by
  simp [handOutEv, allocHeld, alloc, hold]

theorem handOutEvs_client_mono : ∀ (l : List Ref) (s : State) {r : Ref}, s.client r = true →
    (handOutEvs s l).1.client r = true
  | [], _, _, h => h
  | x :: rest, s, r, h => by
    unfold handOutEvs
    split
    · exact handOutEvs_client_mono rest s h
    · exact handOutEvs_client_mono rest _ (handOutEv_client_mono s _ h)

theorem handOutEvs_cons_some {s : State} {x : Ref} {o : EvObj} (h : evAt s x = some o) (rest : List Ref) :
    handOutEvs s (x :: rest) =
      ((handOutEvs (handOutEv s o).1 rest).1, (handOutEv s o).2 :: (handOutEvs (handOutEv s o).1 rest).2) := by
  rw [handOutEvs]
  simp only [h]

theorem handOutEvs_cons_none {s : State} {x : Ref} (h : evAt s x = none) (rest : List Ref) :
    handOutEvs s (x :: rest) = handOutEvs s rest := by
  rw [handOutEvs]
  simp only [h]

theorem handOutEvs_fresh : ∀ (l : List Ref) (s : State) (r : Ref), r ∈ (handOutEvs s l).2 →
    s.next ≤ r ∧ (handOutEvs s l).1.client r = true
  | [], _, r, h => by cases h
  | x :: rest, s, r, h => by
    cases ho : evAt s x with
    | none =>
      rw [handOutEvs_cons_none ho] at h ⊢
      exact handOutEvs_fresh rest s r h
    | some o =>
      rw [handOutEvs_cons_some ho] at h ⊢
      rcases List.mem_cons.mp h with rfl | h
      · exact ⟨Nat.le_add_right _ 1, handOutEvs_client_mono rest _ (handOutEv_holds s o)⟩
      · obtain ⟨h1, h2⟩ := handOutEvs_fresh rest _ r h
        exact ⟨Nat.le_trans (Nat.le_add_right s.next 2) h1, h2⟩
/-- the event objects `get_events` returns are new (allocated by this call) and client-held -/
theorem getEvents_fresh (s : State) (b : String) (limit : Int) (st en : Option Int) (rs : List Ref)
    (h : (getEvents s b limit st en).2 = .refs rs) :
    ∀ r ∈ rs, s.next ≤ r ∧ (getEvents s b limit st en).1.client r = true := by
  cases hl : lookup s.store b with
  | none => simp only [getEvents, hl] at h; cases h
  | some p =>
    simp only [getEvents, hl] at h ⊢
    injection h with h
    subst h
    exact fun r hr => handOutEvs_fresh _ s r hr

/-- the event object `get_event` returns is new and client-held -/
theorem getEvent_fresh (s : State) (b : String) (eid : Int) (r : Ref)
    (h : (getEvent s b eid).2 = .optRef (some r)) :
    s.next ≤ r ∧ (getEvent s b eid).1.client r = true := by
  cases hl : lookup s.store b with
  | none => simp only [getEvent, hl] at h; cases h
  | some p =>
    cases hf : p.2.reverse.find? (fun x => idOf s x = some eid) with
    | none => simp only [getEvent, hl, hf] at h; cases h
    | some x =>
      cases ho : evAt s x with
      | none => simp only [getEvent, hl, hf, ho] at h; cases h
      | some o =>
        simp only [getEvent, hl, hf, ho] at h ⊢
        injection h with h
        injection h with h
        subst h
        exact ⟨Nat.le_add_right _ 1, handOutEv_holds s _⟩

/-- under the separation invariant a client-held object is not reachable from the store -/
theorem held_not_storeReach {s : State} (h : Sep s) {r : Ref} (hr : s.client r = true) :
    ¬ storeReach s r := by
  intro hs
  rw [h.sep r hs] at hr
  cases hr

/-! ## query steps -/

/-- what a running query does to the datastore's objects: a read API call, or a mutation of an
    object the client (the query's transforms) holds -/
inductive QStep
  | read (a : ReadApi)
  | mutation (m : Mut)
deriving Repr

def QStep.toStep : QStep → Step
  | .read a => .api a.toApi
  | .mutation m => .mutation m

/-- run the steps in order, with the trace semantics of `Heap.step` -/
def qrun (s : State) : List QStep → State
  | [] => s
  | q :: qs => qrun (step s q.toStep) qs

/-- the steps are ones the client can take: every mutation acts on refs it holds at that point -/
def HeldAlong : State → List QStep → Prop
  | _, [] => True
  | s, .read a :: qs => HeldAlong (api s a.toApi).1 qs
  | s, .mutation m :: qs => m.held s = true ∧ HeldAlong (mutate s m) qs

def decHeldAlong : ∀ (qs : List QStep) (s : State), Decidable (HeldAlong s qs)
  | [], _ => isTrue trivial
  | .read a :: qs, s => decHeldAlong qs (api s a.toApi).1
  | .mutation m :: qs, s =>
    have := decHeldAlong qs (mutate s m)
    inferInstanceAs (Decidable (m.held s = true ∧ HeldAlong (mutate s m) qs))

instance (s : State) (qs : List QStep) : Decidable (HeldAlong s qs) := decHeldAlong qs s

/-- the same run without `step`'s guard: mutations are applied as they are -/
def qrunRaw (s : State) : List QStep → State
  | [] => s
  | .read a :: qs => qrunRaw (api s a.toApi).1 qs
  | .mutation m :: qs => qrunRaw (mutate s m) qs

theorem qrunRaw_eq_qrun : ∀ (qs : List QStep) (s : State), HeldAlong s qs → qrunRaw s qs = qrun s qs
  | [], _, _ => rfl
  | .read _ :: qs, _, h => qrunRaw_eq_qrun qs _ h
  | .mutation m :: qs, s, h => by
    have h' : HeldAlong (mutate s m) qs := h.2
    show qrunRaw (mutate s m) qs = qrun (step s (.mutation m)) qs
    simp only [step, h.1, if_true]
    exact qrunRaw_eq_qrun qs _ h'

theorem qstep_observe {s : State} (h : Sep s) (q : QStep) : observe (step s q.toStep) = observe s := by
  cases q with
  | read a => exact read_observe h a
  | mutation m =>
    show observe (step s (.mutation m)) = observe s
    simp only [step]
    split
    · rename_i hm
      exact mutate_observe h m hm
    · rfl

theorem qrun_reachable : ∀ (qs : List QStep) {s : State}, Reachable s → Reachable (qrun s qs)
  | [], _, h => h
  | q :: qs, _, h => qrun_reachable qs (Reachable.step q.toStep h)

theorem qrun_sep : ∀ (qs : List QStep) {s : State}, Sep s → Sep (qrun s qs)
  | [], _, h => h
  | q :: qs, _, h => qrun_sep qs (step_sep h q.toStep)

theorem qrun_observe : ∀ (qs : List QStep) {s : State}, Sep s → observe (qrun s qs) = observe s
  | [], _, _ => rfl
  | q :: qs, _, h => (qrun_observe qs (step_sep h q.toStep)).trans (qstep_observe h q)

end Aw.Store.Heap
