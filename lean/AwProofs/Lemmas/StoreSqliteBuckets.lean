import AwProofs.Lemmas.StoreSqliteInv
import AwProofs.Lemmas.Spec
/-!
# Sqlite store model refines the list model (`Spec`) on views
-/
namespace Aw.Store.Sqlite
open Aw Aw.Store
variable {D : Type}

/-! ## the view as a function of the two tables -/

def viewOf (bk : List BRow) (ev : List (ERow D)) : View D := fun b =>
  match bk.find? (fun r => r.bid = b) with
  | none => none
  | some r => some (r.md, (ev.filter (fun e => e.brow = r.rowid)).map toEv)

theorem view_eq (s : St D) : view s = viewOf s.buckets s.events := rfl

theorem viewOf_none {bk : List BRow} {ev : List (ERow D)} {b : String}
    (h : bk.find? (fun r => r.bid = b) = none) : viewOf bk ev b = none := by
  simp only [viewOf, h]

theorem viewOf_some {bk : List BRow} {ev : List (ERow D)} {b : String} {r : BRow}
    (h : bk.find? (fun r => r.bid = b) = some r) :
    viewOf bk ev b = some (r.md, (ev.filter (fun e => e.brow = r.rowid)).map toEv) := by
  simp only [viewOf, h]

theorem view_none_iff {s : St D} {b : String} :
    view s b = none ↔ s.buckets.find? (fun r => r.bid = b) = none := by
  rw [view_eq]
  cases h : s.buckets.find? (fun r => r.bid = b) with
  | none => simp [viewOf_none h]
  | some r => simp [viewOf_some h]

theorem view_isSome_iff {s : St D} {b : String} :
    (view s b).isSome ↔ ∃ r, s.buckets.find? (fun r => r.bid = b) = some r := by
  rw [view_eq]
  cases h : s.buckets.find? (fun r => r.bid = b) with
  | none => simp [viewOf_none h]
  | some r => simp [viewOf_some h]

theorem view_some_iff {s : St D} {b : String} {m : Meta} {es : List (Ev D)} :
    view s b = some (m, es) ↔
      ∃ r, s.buckets.find? (fun r => r.bid = b) = some r ∧ m = r.md ∧
        es = (s.events.filter (fun e => e.brow = r.rowid)).map toEv := by
  rw [view_eq]
  cases h : s.buckets.find? (fun r => r.bid = b) with
  | none => simp [viewOf_none h]
  | some r =>
    rw [viewOf_some h]
    constructor
    · intro e
      injection e with e
      injection e with e1 e2
      exact ⟨r, rfl, e1.symm, e2.symm⟩
    · rintro ⟨r', e, rfl, rfl⟩
      injection e with e
      subst e
      rfl

theorem any_iff_find {s : St D} {b : String} :
    s.buckets.any (fun r => r.bid = b) = true ↔ ∃ r, s.buckets.find? (fun r => r.bid = b) = some r := by
  rw [List.any_eq_true]
  constructor
  · rintro ⟨x, hx, hb⟩
    cases hf : s.buckets.find? (fun r => r.bid = b) with
    | none =>
      rw [List.find?_eq_none] at hf
      exact absurd hb (hf x hx)
    | some r => exact ⟨r, rfl⟩
  · rintro ⟨r, hr⟩
    exact ⟨r, (find_spec hr).1, by simpa using (find_spec hr).2⟩

theorem find_congr {α : Type} {p q : α → Bool} : ∀ {l : List α}, (∀ x ∈ l, p x = q x) →
    l.find? p = l.find? q
  | [], _ => rfl
  | a :: t, h => by
    rw [List.find?_cons, List.find?_cons, h a List.mem_cons_self,
      find_congr (l := t) (fun x hx => h x (List.mem_cons_of_mem _ hx))]

/-! ## buckets -/

theorem createBucket_view {s s' : St D} {b : String} {m : Meta} (hI : Inv s)
    (h : createBucket s b m = .ok s') :
    view s b = none ∧ view s' = Spec.create (view s) b m := by
  unfold createBucket at h
  split at h
  · cases h
  · rename_i hany
    injection h with h
    subst h
    have hnone : s.buckets.find? (fun r => r.bid = b) = none := by
      cases hf : s.buckets.find? (fun r => r.bid = b) with
      | none => rfl
      | some r => exact absurd (any_iff_find.mpr ⟨r, hf⟩) hany
    refine ⟨view_none_iff.mpr hnone, ?_⟩
    funext b'
    rw [view_eq, view_eq]
    show viewOf (s.buckets ++ [(⟨s.seqB + 1, b, m⟩ : BRow)]) s.events b' = _
    by_cases hb : b' = b
    · subst hb
      have hf : (s.buckets ++ [(⟨s.seqB + 1, b', m⟩ : BRow)]).find? (fun r => r.bid = b') =
          some (⟨s.seqB + 1, b', m⟩ : BRow) := by
        rw [List.find?_append, hnone]
        simp
      rw [viewOf_some hf]
      have he : s.events.filter (fun e => e.brow = s.seqB + 1) = [] := by
        rw [List.filter_eq_nil_iff]
        intro x hx
        have := (hI.2.2.2 x hx).2
        simp only [decide_eq_true_eq]
        omega
      simp only [he, List.map_nil, Spec.create, Spec.setB, if_true]
    · rw [Spec.frame_create hb]
      cases hf : s.buckets.find? (fun r => r.bid = b') with
      | none =>
        have hf' : (s.buckets ++ [(⟨s.seqB + 1, b, m⟩ : BRow)]).find? (fun r => r.bid = b') = none := by
          rw [List.find?_append, hf]
          simp [Ne.symm hb]
        rw [viewOf_none hf, viewOf_none hf']
      | some r =>
        have hf' : (s.buckets ++ [(⟨s.seqB + 1, b, m⟩ : BRow)]).find? (fun r => r.bid = b') = some r := by
          rw [List.find?_append, hf]
          rfl
        rw [viewOf_some hf, viewOf_some hf']

theorem createBucket_exists {s : St D} {b : String} {m : Meta} (_hI : Inv s)
    (h : (view s b).isSome) : createBucket s b m = .error .integrity := by
  unfold createBucket
  rw [if_pos (any_iff_find.mpr (view_isSome_iff.mp h))]

theorem updateBucket_empty {s : St D} {b : String} {u : Upd} (hu : u.isEmpty = true) :
    updateBucket s b u = .error .valueError := by
  unfold updateBucket
  rw [if_pos hu]

theorem updateBucket_nonempty {s s' : St D} {b : String} {u : Upd}
    (h : updateBucket s b u = .ok s') : u.isEmpty = false := by
  cases hu : u.isEmpty with
  | false => rfl
  | true => rw [updateBucket_empty hu] at h; cases h

theorem updateBucket_view {s s' : St D} {b : String} {u : Upd} (_hI : Inv s)
    (h : updateBucket s b u = .ok s') :
    (view s b).isSome ∧ view s' = Spec.update (view s) b u.apply := by
  unfold updateBucket at h
  split at h
  · cases h
  · rename_i hu
    split at h
    · rename_i hany
      injection h with h
      subst h
      obtain ⟨r, hr⟩ := any_iff_find.mp hany
      refine ⟨view_isSome_iff.mpr ⟨r, hr⟩, ?_⟩
      funext b'
      rw [view_eq, view_eq]
      show viewOf (s.buckets.map _) s.events b' = _
      have hfm : ∀ b'', (s.buckets.map (fun r => if r.bid = b then { r with md := u.apply r.md } else r)).find?
          (fun r => r.bid = b'') = (s.buckets.find? (fun r => r.bid = b'')).map
            (fun r => if r.bid = b then { r with md := u.apply r.md } else r) := by
        intro b''
        rw [List.find?_map]
        congr 1
        apply find_congr
        intro x _
        simp only [Function.comp]
        split <;> rfl
      by_cases hb : b' = b
      · subst hb
        have h1 := hfm b'
        rw [hr] at h1
        have hrb := (find_spec hr).2
        simp only [Option.map_some, hrb, if_true] at h1
        rw [viewOf_some h1, Spec.update, viewOf_some hr]
        simp only [Spec.setB, if_true]
      · rw [Spec.frame_update hb]
        have h1 := hfm b'
        cases hf : s.buckets.find? (fun r => r.bid = b') with
        | none =>
          rw [hf] at h1
          rw [viewOf_none hf, viewOf_none h1]
        | some r' =>
          rw [hf] at h1
          have hrb : r'.bid ≠ b := by
            rw [(find_spec hf).2]; exact hb
          simp only [Option.map_some, hrb, if_false] at h1
          rw [viewOf_some hf, viewOf_some h1]
    · cases h

theorem updateBucket_missing {s : St D} {b : String} {u : Upd} (_hI : Inv s)
    (h : view s b = none) : updateBucket s b u = .error .valueError := by
  unfold updateBucket
  split
  · rfl
  · have : ¬ s.buckets.any (fun r => r.bid = b) = true := by
      intro hany
      obtain ⟨r, hr⟩ := any_iff_find.mp hany
      rw [view_none_iff.mp h] at hr
      cases hr
    rw [if_neg this]

theorem deleteBucket_view {s s' : St D} {b : String} (hI : Inv s)
    (h : deleteBucket s b = .ok s') :
    (view s b).isSome ∧ view s' = Spec.deleteBucket (view s) b := by
  unfold deleteBucket at h
  split at h
  · cases h
  · rename_i r hr
    injection h with h
    subst h
    rw [rowOf_eq, Option.map_eq_some_iff] at hr
    obtain ⟨br, hbr, rfl⟩ := hr
    refine ⟨view_isSome_iff.mpr ⟨br, hbr⟩, ?_⟩
    funext b'
    rw [view_eq, view_eq]
    show viewOf (s.buckets.filter _) (s.events.filter _) b' = _
    by_cases hb : b' = b
    · subst hb
      have : (s.buckets.filter (fun x => x.bid ≠ b')).find? (fun r => r.bid = b') = none := by
        rw [List.find?_eq_none]
        intro x hx
        have := (List.mem_filter.mp hx).2
        simpa using this
      rw [viewOf_none this]
      simp only [Spec.deleteBucket, Spec.setB, if_true]
    · rw [Spec.frame_deleteBucket hb]
      have hff : (s.buckets.filter (fun x => x.bid ≠ b)).find? (fun r => r.bid = b') =
          s.buckets.find? (fun r => r.bid = b') := by
        rw [List.find?_filter]
        apply find_congr
        intro x _
        by_cases hx : x.bid = b' <;> simp [hx, hb]
      cases hf : s.buckets.find? (fun r => r.bid = b') with
      | none =>
        rw [hf] at hff
        rw [viewOf_none hf, viewOf_none hff]
      | some r' =>
        rw [hf] at hff
        rw [viewOf_some hf, viewOf_some hff]
        have hne : r'.rowid ≠ br.rowid := fun e => hb (find_inj hI hf hbr e)
        congr 3
        rw [List.filter_filter]
        apply List.filter_congr
        intro x _
        by_cases hx : x.brow = r'.rowid <;> simp [hx, hne]

theorem deleteBucket_missing {s : St D} {b : String} (_hI : Inv s)
    (h : view s b = none) : deleteBucket s b = .error .valueError := by
  unfold deleteBucket
  rw [rowOf_eq, view_none_iff.mp h]
  rfl

theorem getMetadata_eq {s : St D} (_hI : Inv s) (b : String) :
    getMetadata s b = (match view s b with | some (m, _) => .ok m | none => .error .valueError) := by
  unfold getMetadata
  rw [view_eq]
  cases h : s.buckets.find? (fun r => r.bid = b) with
  | none => rw [viewOf_none h]
  | some r => rw [viewOf_some h]

theorem bucketsOf_eq {s : St D} (hI : Inv s) (b : String) (m : Meta) :
    (b, m) ∈ bucketsOf s ↔ ∃ es, view s b = some (m, es) := by
  unfold bucketsOf
  rw [List.mem_map]
  constructor
  · rintro ⟨r, hr, e⟩
    injection e with e1 e2
    subst e1 e2
    exact ⟨_, view_some_iff.mpr ⟨r, find_of_mem hI hr, rfl, rfl⟩⟩
  · rintro ⟨es, h⟩
    obtain ⟨r, hr, rfl, _⟩ := view_some_iff.mp h
    obtain ⟨hm, hb⟩ := find_spec hr
    exact ⟨r, hm, by rw [hb]⟩

end Aw.Store.Sqlite
