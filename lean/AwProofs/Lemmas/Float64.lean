import AwModel.Float64
import Mathlib.Algebra.Order.Floor.Ring
import Mathlib.Data.Rat.Floor
import Mathlib.Tactic.Linarith
import Mathlib.Tactic.Ring
import Mathlib.Tactic.Positivity
import Mathlib.Tactic.FieldSimp
import Mathlib.Tactic.NormNum
import Mathlib.Algebra.Order.Field.Power
/-!
# Lemmas about the binary64 model (`AwModel/Float64.lean`)

`rne_err`, `ilog2_spec`, `fl_err`, `fl_err_lt`, `rne_of_near`, `fl_exact_int`, `decF_exact`
(used by C01, C03, C13). All for arbitrary rationals; nothing is enumerated.
-/
namespace Aw.Fl

theorem floor_eq (q : Rat) : q.floor = ⌊q⌋ := by
  rfl

/-- round-half-even moves a rational by at most 1/2 -/
theorem rne_err (q : Rat) : |((rne q : Int) : Rat) - q| ≤ 1/2 := by
  unfold rne
  have h1 : (⌊q⌋ : Rat) ≤ q := Int.floor_le q
  have h2 : q < ⌊q⌋ + 1 := Int.lt_floor_add_one q
  simp only [floor_eq]
  split_ifs with ha hb hc <;> rw [abs_le] <;> constructor <;> push_cast <;> linarith

theorem pow2_eq (e : Int) : pow2 e = (2:Rat) ^ e := by
  unfold pow2
  split_ifs with h
  · obtain ⟨k, rfl⟩ := Int.eq_ofNat_of_zero_le h
    simp
  · have h' : 0 ≤ -e := by omega
    have : e = -((-e).toNat : Int) := by rw [Int.toNat_of_nonneg h']; ring
    conv_rhs => rw [this]
    rw [zpow_neg, zpow_natCast]; simp

theorem pow2_pos (e : Int) : 0 < pow2 e := by rw [pow2_eq]; positivity

theorem pow2_succ (e : Int) : pow2 (e+1) = 2 * pow2 e := by
  rw [pow2_eq, pow2_eq, zpow_add_one₀ (by norm_num : (2:Rat) ≠ 0)]; ring

theorem pow2_mono {a b : Int} (h : a ≤ b) : pow2 a ≤ pow2 b := by
  rw [pow2_eq, pow2_eq]
  exact zpow_le_zpow_right₀ (by norm_num) h

/-- `ilog2 x` is the binade of `x`: `2^(ilog2 x) ≤ x < 2·2^(ilog2 x)` -/
theorem ilog2_spec (x : Rat) (hx : 0 < x) : pow2 (ilog2 x) ≤ x ∧ x < 2 * pow2 (ilog2 x) := by
  have hnum : 0 < x.num := Rat.num_pos.mpr hx
  have hden : 0 < x.den := x.den_pos
  set n := x.num.toNat with hn
  set d := x.den with hd
  have hn0 : n ≠ 0 := by omega
  have hd0 : d ≠ 0 := by omega
  have hxe : x = (n : Rat) / (d : Rat) := by
    have : (x.num : Rat) = (n : Rat) := by
      have : x.num = (n : Int) := by omega
      rw [this]; simp
    rw [← this]; exact (Rat.num_div_den x).symm
  have a1 : 2 ^ n.log2 ≤ n := Nat.log2_self_le hn0
  have a2 : n < 2 ^ (n.log2 + 1) := Nat.lt_log2_self
  have b1 : 2 ^ d.log2 ≤ d := Nat.log2_self_le hd0
  have b2 : d < 2 ^ (d.log2 + 1) := Nat.lt_log2_self
  have a1' : ((2:Rat) ^ n.log2) ≤ n := by exact_mod_cast a1
  have a2' : (n:Rat) < (2:Rat) ^ (n.log2 + 1) := by exact_mod_cast a2
  have b1' : ((2:Rat) ^ d.log2) ≤ d := by exact_mod_cast b1
  have b2' : (d:Rat) < (2:Rat) ^ (d.log2 + 1) := by exact_mod_cast b2
  have dpos : (0:Rat) < d := by exact_mod_cast hden
  -- p := 2^(a-b)
  have hp : pow2 ((n.log2 : Int) - (d.log2 : Int)) = (2:Rat)^n.log2 / (2:Rat)^d.log2 := by
    rw [pow2_eq, zpow_sub₀ (by norm_num : (2:Rat) ≠ 0), zpow_natCast, zpow_natCast]
  have P2a : (0:Rat) < (2:Rat)^n.log2 := by positivity
  have P2b : (0:Rat) < (2:Rat)^d.log2 := by positivity
  -- upper: x < 2 * p
  have up : x < 2 * pow2 ((n.log2 : Int) - (d.log2 : Int)) := by
    rw [hp, hxe, div_lt_iff₀ dpos]
    have : (2:Rat) ^ (n.log2 + 1) = 2 * 2 ^ n.log2 := by ring
    rw [this] at a2'
    calc (n:Rat) < 2 * 2 ^ n.log2 := a2'
      _ = 2 * (2 ^ n.log2 / 2 ^ d.log2) * 2 ^ d.log2 := by field_simp
      _ ≤ 2 * (2 ^ n.log2 / 2 ^ d.log2) * d := by
          apply mul_le_mul_of_nonneg_left b1'; positivity
  -- lower: p / 2 < x
  have lo : pow2 ((n.log2 : Int) - (d.log2 : Int)) < 2 * x := by
    rw [hp, hxe, div_lt_iff₀ P2b]
    have : (2:Rat) ^ (d.log2 + 1) = 2 * 2 ^ d.log2 := by ring
    rw [this] at b2'
    calc (2:Rat) ^ n.log2 ≤ n := a1'
      _ = (n / d) * d := by field_simp
      _ < (n / d) * (2 * 2 ^ d.log2) := by
          apply mul_lt_mul_of_pos_left b2'; positivity
      _ = 2 * (n / d) * 2 ^ d.log2 := by ring
  unfold ilog2
  simp only [← hn, ← hd]
  have hpe : (if (n.log2 : Int) - (d.log2 : Int) ≥ 0 then ((2:Rat)^((n.log2 : Int) - (d.log2 : Int)).toNat) else 1 / ((2:Rat)^(-((n.log2 : Int) - (d.log2 : Int))).toNat)) = pow2 ((n.log2 : Int) - (d.log2 : Int)) := rfl
  rw [hpe]
  split_ifs with h1 h2
  · exfalso; linarith
  · exact ⟨h1, up⟩
  · have := pow2_succ ((n.log2 : Int) - (d.log2 : Int) - 1)
    rw [show (n.log2 : Int) - (d.log2 : Int) - 1 + 1 = (n.log2 : Int) - (d.log2 : Int) by ring] at this
    constructor
    · linarith
    · rw [← this]; linarith

/-- absolute error of one rounding, in terms of the binade of |x|: half a unit in the last place -/
theorem fl_err (x : Rat) (hx : x ≠ 0) :
    |fl x - x| ≤ pow2 (ilog2 |x| - 53) := by
  unfold fl
  simp only [hx, if_false]
  have habs : (if x < 0 then -x else x) = |x| := by
    split_ifs with h
    · exact (abs_of_neg h).symm
    · exact (abs_of_nonneg (not_lt.mp h)).symm
  rw [habs]
  set a := |x| with ha
  have apos : 0 < a := abs_pos.mpr hx
  set s := pow2 (ilog2 a - 52) with hs
  have spos : 0 < s := pow2_pos _
  have hr := rne_err (a / s)
  have hhalf : pow2 (ilog2 a - 53) = s / 2 := by
    have := pow2_succ (ilog2 a - 53)
    rw [show ilog2 a - 53 + 1 = ilog2 a - 52 by ring] at this
    rw [hs, this]; ring
  rw [hhalf]
  have key : |(rne (a / s) : Rat) * s - a| ≤ s / 2 := by
    have : (rne (a / s) : Rat) * s - a = ((rne (a / s) : Rat) - a / s) * s := by
      field_simp
    rw [this, abs_mul, abs_of_pos spos]
    calc |(rne (a / s) : Rat) - a / s| * s ≤ (1/2) * s := by
          apply mul_le_mul_of_nonneg_right hr spos.le
      _ = s / 2 := by ring
  split_ifs with h
  · have : x = -a := by rw [ha, abs_of_neg h]; ring
    rw [this]
    have : -((rne (a / s) : Rat) * s) - -a = -(((rne (a / s) : Rat) * s) - a) := by ring
    rw [this, abs_neg]; exact key
  · have : x = a := by rw [ha, abs_of_nonneg (not_lt.mp h)]
    rw [this]; exact key

theorem ilog2_lt (x : Rat) (hx : 0 < x) (k : Int) (h : x < pow2 k) : ilog2 x < k := by
  by_contra hc
  have hc : k ≤ ilog2 x := not_lt.mp hc
  have h1 := (ilog2_spec x hx).1
  have : pow2 k ≤ pow2 (ilog2 x) := pow2_mono hc
  linarith

/-- `0 < |x| < 2^k` → the rounding error is at most `2^(k-54)` -/
theorem fl_err_lt (x : Rat) (hx : x ≠ 0) (k : Int) (h : |x| < pow2 k) :
    |fl x - x| ≤ pow2 (k - 54) := by
  have h1 := fl_err x hx
  have h2 := ilog2_lt |x| (abs_pos.mpr hx) k h
  have : pow2 (ilog2 |x| - 53) ≤ pow2 (k - 54) := by
    apply pow2_mono
    omega
  linarith

/-- the same bound without the side condition `x ≠ 0` -/
theorem fl_err_lt' (x : Rat) (k : Int) (h : |x| < pow2 k) : |fl x - x| ≤ pow2 (k - 54) := by
  by_cases hx : x = 0
  · subst hx; simp [fl]; exact (pow2_pos _).le
  · exact fl_err_lt x hx k h

theorem rne_of_near (p : Rat) (n : Int) (h : |p - n| < 1/2) : rne p = n := by
  unfold rne
  simp only [floor_eq]
  rw [abs_lt] at h
  have h1 : (⌊p⌋ : Rat) ≤ p := Int.floor_le p
  have h2 : p < ⌊p⌋ + 1 := Int.lt_floor_add_one p
  -- floor p is n or n-1
  have hf : ⌊p⌋ = n ∨ ⌊p⌋ = n - 1 := by
    have a1 : (n:Rat) - 1 < p := by linarith [h.1]
    have a2 : p < (n:Rat) + 1 := by linarith [h.2]
    have b1 : n - 1 ≤ ⌊p⌋ := by
      apply Int.le_floor.mpr; push_cast; linarith
    have b2 : ⌊p⌋ < n + 1 := by
      apply Int.floor_lt.mpr; push_cast; linarith
    omega
  rcases hf with hf | hf
  · have : p - (⌊p⌋:Rat) < 1/2 := by rw [hf]; linarith [h.2]
    rw [if_pos this]; exact hf
  · have hf' : (⌊p⌋ : Rat) = n - 1 := by rw [hf]; push_cast; ring
    have g1 : ¬ (p - (⌊p⌋:Rat) < 1/2) := by rw [hf']; linarith [h.1]
    have g2 : (1/2 : Rat) < p - (⌊p⌋:Rat) := by rw [hf']; linarith [h.1]
    simp only [g1, g2, if_false, if_true]
    omega

theorem rne_int (n : Int) : rne (n : Rat) = n := rne_of_near _ n (by simp)

/-- integers below 2^53 are fixed points of fl -/
theorem fl_exact_int (k : Int) (hk : 0 < k) (hlt : (k:Rat) < pow2 53) : fl (k : Rat) = k := by
  have hk' : (0:Rat) < k := by exact_mod_cast hk
  have hne : (k:Rat) ≠ 0 := ne_of_gt hk'
  unfold fl
  simp only [hne, if_false, not_lt.mpr hk'.le]
  have he : ilog2 (k:Rat) < 53 := ilog2_lt _ hk' 53 hlt
  have he0 : 0 ≤ 52 - ilog2 (k:Rat) := by omega
  -- k / 2^(e-52) = k * 2^(52-e), an integer
  have hs : pow2 (ilog2 (k:Rat) - 52) = 1 / ((2:Rat) ^ (52 - ilog2 (k:Rat)).toNat) := by
    rw [pow2_eq]
    have : ilog2 (k:Rat) - 52 = -(((52 - ilog2 (k:Rat)).toNat : Int)) := by
      rw [Int.toNat_of_nonneg he0]; ring
    rw [this, zpow_neg, zpow_natCast]; simp
  rw [hs]
  have hq : (k:Rat) / (1 / ((2:Rat) ^ (52 - ilog2 (k:Rat)).toNat)) = ((k * 2 ^ (52 - ilog2 (k:Rat)).toNat : Int) : Rat) := by
    push_cast; field_simp
  rw [hq, rne_int]
  push_cast; field_simp

theorem fl_zero : fl 0 = 0 := by simp [fl]

/-- non-negative integers below 2^53 are fixed points of fl -/
theorem fl_exact_nat (k : Int) (hk : 0 ≤ k) (hlt : (k:Rat) < pow2 53) : fl (k : Rat) = k := by
  rcases Int.lt_or_eq_of_le hk with h | h
  · exact fl_exact_int k h hlt
  · subst h; simp [fl]

/-- decoding an exactly stored integer microsecond count (`datetime.fromtimestamp(m / 1e6)`):
    exact for every instant from 1970 up to 2^32 s (year 2106) -/
theorem decFNonneg_exact (m : Int) (h0 : 0 ≤ m) (h1 : m < 4294967296000000) : decFNonneg (m : Rat) = m := by
  -- q = m / 10^6, rho = m % 10^6
  set q : Int := m / 1000000 with hq
  set ρ : Int := m % 1000000 with hρ
  have hm : m = q * 1000000 + ρ := by rw [hq, hρ]; omega
  have hρ0 : 0 ≤ ρ := by omega
  have hρ1 : ρ < 1000000 := by omega
  have hq0 : 0 ≤ q := by omega
  have hq1 : q < 4294967296 := by omega
  have hx : (m:Rat) / 1000000 = q + (ρ:Rat) / 1000000 := by
    rw [hm]; push_cast; field_simp
  have p32 : pow2 32 = 4294967296 := by rw [pow2_eq]; norm_num
  have p22 : pow2 (32 - 54) = 1 / 4194304 := by rw [pow2_eq]; norm_num
  have p34 : pow2 (20 - 54) = 1 / 17179869184 := by rw [pow2_eq]; norm_num
  have p20 : pow2 20 = 1048576 := by rw [pow2_eq]; norm_num
  have p53 : pow2 53 = 9007199254740992 := by rw [pow2_eq]; norm_num
  have hq0' : (0:Rat) ≤ q := by exact_mod_cast hq0
  have hq1' : (q:Rat) ≤ 4294967295 := by exact_mod_cast (by omega : q ≤ 4294967295)
  have hρ0' : (0:Rat) ≤ ρ := by exact_mod_cast hρ0
  have hρ1' : (ρ:Rat) ≤ 999999 := by exact_mod_cast (by omega : ρ ≤ 999999)
  unfold decFNonneg
  simp only [floor_eq]
  by_cases hz : m = 0
  · subst hz; simp [fl, rne, floor_eq]
  have hmpos : (0:Rat) < m := by exact_mod_cast (by omega : 0 < m)
  have hxne : (m:Rat) / 1000000 ≠ 0 := by positivity
  have hxlt : |(m:Rat) / 1000000| < pow2 32 := by
    rw [abs_of_pos (by positivity), p32, hx]
    have : (ρ:Rat)/1000000 < 1 := by rw [div_lt_one (by norm_num)]; linarith
    linarith
  have herr := fl_err_lt _ hxne 32 hxlt
  rw [p22, abs_le] at herr
  set r := fl ((m:Rat) / 1000000) with hr
  by_cases hρz : ρ = 0
  · -- exact second
    have hxq : (m:Rat) / 1000000 = q := by rw [hx, hρz]; simp
    have hqpos : 0 < q := by omega
    have : r = q := by
      rw [hr, hxq]
      apply fl_exact_int q hqpos
      rw [p53]; linarith
    rw [this]
    have hz0 : rne 0 = 0 := by have := rne_int 0; simpa using this
    simp [fl, hz0]
    rw [hm, hρz]; ring
  · have hρ1'' : (1:Rat) ≤ ρ := by exact_mod_cast (by omega : 1 ≤ ρ)
    -- floor r = q
    have hfl : ⌊r⌋ = q := by
      rw [Int.floor_eq_iff]
      rw [hx] at herr
      constructor
      · have : (1:Rat)/1000000 ≤ (ρ:Rat)/1000000 := by
          apply div_le_div_of_nonneg_right hρ1'' (by norm_num)
        linarith [herr.1]
      · have : (ρ:Rat)/1000000 ≤ 999999/1000000 := by
          apply div_le_div_of_nonneg_right hρ1' (by norm_num)
        linarith [herr.2]
    rw [hfl]
    -- y = (r - q) * 10^6 within 0.2385 of rho
    set y := (r - (q:Rat)) * 1000000 with hy
    have hy1 : |y - ρ| ≤ 1000000 / 4194304 := by
      rw [hx] at herr
      rw [abs_le]
      constructor
      · have := herr.1
        rw [hy]; field_simp at this ⊢; linarith
      · have := herr.2
        rw [hy]; field_simp at this ⊢; linarith
    have hypos : 0 < y := by
      rw [abs_le] at hy1
      have : (1000000:Rat) / 4194304 < 1 := by norm_num
      linarith [hy1.1]
    have hyne : y ≠ 0 := ne_of_gt hypos
    have hylt : |y| < pow2 20 := by
      rw [abs_of_pos hypos, p20]
      rw [abs_le] at hy1
      have : (1000000:Rat) / 4194304 < 1 := by norm_num
      linarith [hy1.2]
    have herr2 := fl_err_lt y hyne 20 hylt
    rw [p34] at herr2
    have hnear : |fl y - (ρ:Rat)| < 1/2 := by
      calc |fl y - (ρ:Rat)| = |(fl y - y) + (y - ρ)| := by ring_nf
        _ ≤ |fl y - y| + |y - ρ| := abs_add_le _ _
        _ ≤ 1 / 17179869184 + 1000000 / 4194304 := add_le_add herr2 hy1
        _ < 1/2 := by norm_num
    rw [rne_of_near _ ρ hnear, hm]

/-! ### sign, truncation, `timedelta(seconds=·)` -/

theorem rne_nonneg (q : Rat) (h : 0 ≤ q) : 0 ≤ rne q := by
  unfold rne
  simp only [floor_eq]
  have hf : 0 ≤ ⌊q⌋ := Int.floor_nonneg.mpr h
  split_ifs <;> omega

theorem fl_nonneg (x : Rat) (h : 0 ≤ x) : 0 ≤ fl x := by
  unfold fl
  split_ifs with h0 h1
  · exact le_refl _
  · exact absurd h (not_le.mpr h1)
  · have hs : 0 < pow2 (ilog2 x - 52) := pow2_pos _
    have : 0 ≤ rne (x / pow2 (ilog2 x - 52)) := rne_nonneg _ (div_nonneg h hs.le)
    have : (0:Rat) ≤ (rne (x / pow2 (ilog2 x - 52)) : Rat) := by exact_mod_cast this
    positivity

theorem trunc_of_nonneg (r : Rat) (h : 0 ≤ r) : trunc r = ⌊r⌋ := by
  unfold trunc
  rw [if_neg (not_lt.mpr h)]; rfl

/-- `int(x)` is within 1 of `x` -/
theorem trunc_err (r : Rat) : |r - (trunc r : Rat)| < 1 := by
  unfold trunc
  simp only [floor_eq]
  split_ifs with h
  · have h1 : (⌊-r⌋ : Rat) ≤ -r := Int.floor_le _
    have h2 : -r < ⌊-r⌋ + 1 := Int.lt_floor_add_one _
    rw [abs_lt]; push_cast; constructor <;> linarith
  · have h1 : (⌊r⌋ : Rat) ≤ r := Int.floor_le _
    have h2 : r < ⌊r⌋ + 1 := Int.lt_floor_add_one _
    rw [abs_lt]; constructor <;> linarith

/-- for a non-negative double, `timedelta(seconds=r)` and `fromtimestamp(r)` do the same
    arithmetic -/
theorem decF_of_nonneg (m : Rat) (h : 0 ≤ m) : decF m = decFNonneg m := by
  unfold decF; rw [if_neg (not_lt.mpr h)]

/-- decoding an exactly stored integer microsecond count (`datetime.fromtimestamp(m / 1e6)`):
    exact for every instant within 2^32 s of the epoch, on either side (1833 … 2106) -/
theorem decF_exact (m : Int) (h0 : -4294967296000000 < m) (h1 : m < 4294967296000000) :
    decF (m : Rat) = m := by
  unfold decF
  split
  · rename_i hneg
    have hm : m < 0 := by exact_mod_cast hneg
    have := decFNonneg_exact (-m) (by omega) (by omega)
    rw [Int.cast_neg] at this
    rw [this]; omega
  · rename_i hnn
    have hm : 0 ≤ m := by
      have : (0 : Rat) ≤ m := not_lt.mp hnn
      exact_mod_cast this
    exact decFNonneg_exact m hm h1

theorem decF_eq_td (m : Rat) (h : 0 ≤ m) : decF m = tdOfSeconds (fl (m / 1000000)) := by
  have hr : 0 ≤ fl (m / 1000000) := fl_nonneg _ (by positivity)
  rw [decF_of_nonneg m h]
  unfold decFNonneg tdOfSeconds modf fmul
  simp only [trunc_of_nonneg _ hr, floor_eq]

/-- `timedelta(seconds=td.total_seconds()) == td` for every `0 ≤ td < 2^32 s` (136 years) -/
theorem td_total_roundtrip (D : Int) (h0 : 0 ≤ D) (h1 : D < 4294967296000000) :
    tdOfSeconds (totalSeconds D) = D := by
  have := decF_exact D (by omega) h1
  rw [decF_eq_td _ (by exact_mod_cast h0)] at this
  exact this

/-- `timedelta(seconds=r)` is `r` to the microsecond, for every rational (double) `r`:
    off by at most half a microsecond plus the rounding error of one product below 2^20 -/
theorem td_near (r : Rat) : |(tdOfSeconds r : Rat) - r * 1000000| ≤ 1/2 + 1/17179869184 := by
  unfold tdOfSeconds modf fmul
  simp only
  set i := trunc r with hi
  set y := (r - (i:Rat)) * 1000000 with hy
  have hfp := trunc_err r
  rw [← hi] at hfp
  have hylt : |y| < pow2 20 := by
    have p20 : pow2 20 = 1048576 := by rw [pow2_eq]; norm_num
    rw [p20, hy, abs_mul]
    have : |(1000000:Rat)| = 1000000 := abs_of_pos (by norm_num)
    rw [this]
    have := abs_nonneg (r - (i:Rat))
    nlinarith
  have e1 := fl_err_lt' y 20 hylt
  have p34 : pow2 (20 - 54) = 1 / 17179869184 := by rw [pow2_eq]; norm_num
  rw [p34] at e1
  have e2 := rne_err (fl y)
  have : ((i * 1000000 + rne (fl y) : Int) : Rat) - r * 1000000
      = ((rne (fl y) : Rat) - fl y) + (fl y - y) := by
    rw [hy]; push_cast; ring
  rw [this]
  calc |((rne (fl y) : Rat) - fl y) + (fl y - y)| ≤ |(rne (fl y) : Rat) - fl y| + |fl y - y| :=
        abs_add_le _ _
    _ ≤ 1/2 + 1/17179869184 := add_le_add e2 e1

/-! ### symmetry under negation (round-half-even and truncation are odd functions) -/

theorem rne_neg (q : Rat) : rne (-q) = - rne q := by
  have h1 : (⌊q⌋ : Rat) ≤ q := Int.floor_le q
  have h2 : q < ⌊q⌋ + 1 := Int.lt_floor_add_one q
  rcases eq_or_lt_of_le h1 with he | hl
  · -- q is an integer
    have : q = ((⌊q⌋ : Int) : Rat) := he.symm
    rw [this, ← Int.cast_neg, rne_int, rne_int]
  · have hg : ⌊-q⌋ = -⌊q⌋ - 1 := by
      rw [Int.floor_eq_iff]; push_cast; constructor <;> linarith
    unfold rne
    simp only [floor_eq, hg]
    push_cast
    split_ifs <;> first | omega | (exfalso; linarith)

theorem fl_neg (x : Rat) : fl (-x) = - fl x := by
  unfold fl
  rcases lt_trichotomy x 0 with h | h | h
  · have a1 : ¬ (-x < 0) := by linarith
    have a2 : -x ≠ 0 := by linarith
    have a3 : x ≠ 0 := ne_of_lt h
    simp only [a1, a2, a3, h, if_true, if_false, neg_neg]
  · subst h; simp
  · have a1 : -x < 0 := by linarith
    have a2 : -x ≠ 0 := by linarith
    have a3 : x ≠ 0 := ne_of_gt h
    have a4 : ¬ (x < 0) := by linarith
    simp only [a1, a2, a3, a4, if_true, if_false, neg_neg]

theorem trunc_neg (r : Rat) : trunc (-r) = - trunc r := by
  unfold trunc
  rcases lt_trichotomy r 0 with h | h | h
  · have a1 : ¬ (-r < 0) := by linarith
    simp only [a1, h, if_true, if_false, neg_neg]
  · subst h; simp [floor_eq]
  · have a1 : -r < 0 := by linarith
    have a4 : ¬ (r < 0) := by linarith
    simp only [a1, a4, if_true, if_false, neg_neg]

theorem tdOfSeconds_neg (r : Rat) : tdOfSeconds (-r) = - tdOfSeconds r := by
  unfold tdOfSeconds modf fmul
  simp only [trunc_neg]
  have : (-r - ((-trunc r : Int) : Rat)) * 1000000 = -((r - (trunc r : Rat)) * 1000000) := by
    push_cast; ring
  rw [this, fl_neg, rne_neg]; ring

theorem totalSeconds_neg (D : Int) : totalSeconds (-D) = - totalSeconds D := by
  unfold totalSeconds fdiv
  rw [← fl_neg]; congr 1; push_cast; ring

/-- `timedelta(seconds=td.total_seconds()) == td` for every `|td| < 2^32 s` -/
theorem td_total_roundtrip_abs (D : Int) (h0 : -4294967296000000 < D) (h1 : D < 4294967296000000) :
    tdOfSeconds (totalSeconds D) = D := by
  rcases le_or_gt 0 D with h | h
  · exact td_total_roundtrip D h h1
  · have := td_total_roundtrip (-D) (by omega) (by omega)
    rw [totalSeconds_neg, tdOfSeconds_neg] at this
    omega

end Aw.Fl
