import AwProofs.Lemmas.HeapOwn
/-!
# The heap model's `insert_one` refines the value model's

`observe` maps a heap state to a state of `Store/Memory.lean`. Inserting a client event object
without an id into the heap model is, through `observe`, `Memory.insertOne` of the event's value:
the value theorems of C01 part A speak about what the heap model's reads return.
-/
namespace Aw.Store.Heap
open Aw Aw.Store

/-- the value of a bucket entry -/
def entryVal (s : State) (v : Ref × List Ref) : Meta × List (Ev String) :=
  (metaVal s v.1, v.2.map (evVal s))

theorem observe_eq (s : State) : observe s = s.store.map (fun p => (p.1, entryVal s p.2)) := rfl

theorem lookup_map (g : Ref × List Ref → Meta × List (Ev String)) (b : String) :
    ∀ st : Store, Memory.lookup (st.map (fun p => (p.1, g p.2))) b = (lookup st b).map g
  | [] => rfl
  | p :: st => by
    have ih := lookup_map g b st
    unfold Memory.lookup lookup at *
    simp only [List.map_cons, List.find?_cons]
    by_cases hp : p.1 = b
    · simp [hp]
    · simp only [hp, decide_false]
      exact ih

theorem any_map (g : Ref × List Ref → Meta × List (Ev String)) (b : String) (st : Store) :
    (st.map (fun p => (p.1, g p.2))).any (fun p => p.1 = b) = st.any (fun p => p.1 = b) := by
  rw [List.any_map]
  rfl

theorem setKey_map (g : Ref × List Ref → Meta × List (Ev String)) (b : String) (v : Ref × List Ref)
    (st : Store) :
    (setKey st b v).map (fun p => (p.1, g p.2)) = Memory.setKey (st.map (fun p => (p.1, g p.2))) b (g v) := by
  unfold setKey Memory.setKey
  rw [any_map]
  split
  · rw [List.map_map, List.map_map]
    refine List.map_congr_left fun p _ => ?_
    by_cases hp : p.1 = b <;> simp [hp]
  · simp

theorem evVal_id (s : State) (x : Ref) : (evVal s x).id = idOf s x := by
  unfold evVal idOf
  cases evAt s x <;> rfl

theorem nextId_map (s : State) (evs : List Ref) : Memory.nextId (evs.map (evVal s)) = nextId s evs := by
  cases evs with
  | nil => rfl
  | cons x xs =>
    show (List.foldl _ 0 ((x :: xs).map (evVal s))) + 1 = (List.foldl _ 0 (x :: xs)) + 1
    rw [List.foldl_map]
    simp only [evVal_id]

theorem evVal_congr {s s' : State} {x : Ref} (h1 : s'.heap x = s.heap x)
    (h2 : ∀ d, dataRefOf s x = some d → s'.heap d = s.heap d) : evVal s' x = evVal s x := by
  unfold evVal evAt
  rw [h1]
  cases hc : s.heap x with
  | none => rfl
  | some c =>
    cases c with
    | ev o =>
      have hd : dataRefOf s x = some o.dataRef := by simp [dataRefOf, hc]
      simp only [textAt, h2 _ hd]
    | mdict o => rfl
    | dict t => rfl

theorem metaVal_congr {s s' : State} {x : Ref} (h1 : s'.heap x = s.heap x)
    (h2 : ∀ d, dataRefOf s x = some d → s'.heap d = s.heap d) : metaVal s' x = metaVal s x := by
  unfold metaVal metaAt
  rw [h1]
  cases hc : s.heap x with
  | none => rfl
  | some c =>
    cases c with
    | mdict o =>
      have hd : dataRefOf s x = some o.dataRef := by simp [dataRefOf, hc]
      simp only [textAt, h2 _ hd]
    | ev o => rfl
    | dict t => rfl

/-- values of store objects survive any change of the heap above `next` -/
theorem entryVal_congr {s s' : State} (h : Sep s) (hh : ∀ x, x < s.next → s'.heap x = s.heap x)
    {p : String × (Ref × List Ref)} (hp : p ∈ s.store) : entryVal s' p.2 = entryVal s p.2 := by
  have hm : storeObjOf s.store p.2.1 := ⟨p, hp, Or.inl rfl⟩
  unfold entryVal
  congr 1
  · exact metaVal_congr (hh _ (h.bound _ (Or.inl hm)))
      (fun d hd => hh _ (h.bound _ (Or.inr ⟨_, hm, hd⟩)))
  · refine List.map_congr_left fun e he => ?_
    have hroot : storeObjOf s.store e := ⟨p, hp, Or.inr he⟩
    exact evVal_congr (hh _ (h.bound _ (Or.inl hroot)))
      (fun d hd => hh _ (h.bound _ (Or.inr ⟨_, hroot, hd⟩)))

/-- the state after `insert_one` of an id-less event whose fields (with the new id) are `o'` -/
def afterInsert (s : State) (b : String) (o' : EvObj) (mr : Ref) (evs : List Ref) : State :=
  { (deepEv (allocHeld s (.ev o')).1 o').1 with store := setKey s.store b (mr, evs ++ [s.next + 2]) }

theorem afterInsert_heap (s : State) (b : String) (o' : EvObj) (mr : Ref) (evs : List Ref) {x : Ref}
    (hx : x < s.next) : (afterInsert s b o' mr evs).heap x = s.heap x := by
  simp only [afterInsert, deepEv, allocHeld, alloc, hold]
  have h0 : x ≠ s.next := Nat.ne_of_lt hx
  have h1 : x ≠ s.next + 1 := Nat.ne_of_lt (Nat.lt_succ_of_lt hx)
  have h2 : x ≠ s.next + 1 + 1 := Nat.ne_of_lt (Nat.lt_succ_of_lt (Nat.lt_succ_of_lt hx))
  simp only [h0, h1, h2, if_false]

theorem afterInsert_new (s : State) (b : String) (o' : EvObj) (mr : Ref) (evs : List Ref)
    (hd : o'.dataRef < s.next) :
    evVal (afterInsert s b o' mr evs) (s.next + 2) =
      { id := o'.id, ts := o'.ts, dur := o'.dur, data := textAt s o'.dataRef } := by
  have h0 : o'.dataRef ≠ s.next := Nat.ne_of_lt hd
  simp [evVal, evAt, textAt, afterInsert, deepEv, allocHeld, alloc, hold, h0]

/-- `insert_one` of a held event object without an id is `Memory.insertOne` of its value -/
theorem insertOne_observe {s : State} (h : Sep s) {b : String} {r : Ref} {o : EvObj} {mr : Ref}
    {evs : List Ref} (hr : s.client r = true) (ho : evAt s r = some o) (hid : o.id = none)
    (hl : lookup s.store b = some (mr, evs)) :
    Memory.insertOne (observe s) b (evVal s r) =
      .ok (observe (insertOne s b r).1, some (nextId s evs)) := by
  have hvid : (evVal s r).id = none := by rw [evVal_id, idOf, ho]; exact hid
  have hlook : Memory.lookup (observe s) b = some (metaVal s mr, evs.map (evVal s)) := by
    rw [observe_eq, lookup_map (entryVal s), hl]; rfl
  have hins : (insertOne s b r).1 = afterInsert s b { o with id := some (nextId s evs) } mr evs := by
    unfold insertOne insertOneWith afterInsert
    simp [hr, ho, hid, hl, deepEv, allocHeld, alloc, hold]
  have hh : ∀ x, x < s.next →
      (afterInsert s b { o with id := some (nextId s evs) } mr evs).heap x = s.heap x :=
    fun x hx => afterInsert_heap s b _ mr evs hx
  have hdl : o.dataRef < s.next := h.held_lt (h.closed r hr _ (dataRefOf_evAt ho))
  have hnew := afterInsert_new s b { o with id := some (nextId s evs) } mr evs hdl
  have hval : evVal s r = { id := o.id, ts := o.ts, dur := o.dur, data := textAt s o.dataRef } := by
    simp only [evVal, ho]
  have hentry : entryVal (afterInsert s b { o with id := some (nextId s evs) } mr evs)
        (mr, evs ++ [s.next + 2]) =
      (metaVal s mr, evs.map (evVal s) ++ [{ evVal s r with id := some (nextId s evs) }]) := by
    have := entryVal_congr h hh (lookup_mem hl)
    unfold entryVal at this ⊢
    simp only [Prod.mk.injEq] at this
    simp only [List.map_append, List.map_singleton, hnew, this.1, this.2, hval]
  have hold : s.store.map (fun p => (p.1,
      entryVal (afterInsert s b { o with id := some (nextId s evs) } mr evs) p.2)) = observe s := by
    rw [observe_eq]
    exact List.map_congr_left fun p hp => by rw [entryVal_congr h hh hp]
  -- the value-model side
  unfold Memory.insertOne
  simp only [hvid, hlook]
  rw [nextId_map, hins, observe_eq]
  show Except.ok _ = Except.ok ((setKey s.store b (mr, evs ++ [s.next + 2])).map
    (fun p => (p.1, entryVal (afterInsert s b { o with id := some (nextId s evs) } mr evs) p.2)), _)
  rw [setKey_map (entryVal (afterInsert s b { o with id := some (nextId s evs) } mr evs)), hold, hentry]
  rfl

/-- the event `insert_one` returns is a client-held object with the passed values and the new id -/
theorem insertOne_returns {s : State} (h : Sep s) {b : String} {r : Ref} {o : EvObj} {mr : Ref}
    {evs : List Ref} (hr : s.client r = true) (ho : evAt s r = some o) (hid : o.id = none)
    (hl : lookup s.store b = some (mr, evs)) :
    (insertOne s b r).2 = .ref s.next ∧ (insertOne s b r).1.client s.next = true ∧
      evVal (insertOne s b r).1 s.next = { evVal s r with id := some (nextId s evs) } := by
  have hdl : o.dataRef < s.next := h.held_lt (h.closed r hr _ (dataRefOf_evAt ho))
  have h0 : o.dataRef ≠ s.next := Nat.ne_of_lt hdl
  have h1 : o.dataRef ≠ s.next + 1 := Nat.ne_of_lt (Nat.lt_succ_of_lt hdl)
  have h2 : o.dataRef ≠ s.next + 1 + 1 := Nat.ne_of_lt (Nat.lt_succ_of_lt (Nat.lt_succ_of_lt hdl))
  have hval : evVal s r = { id := o.id, ts := o.ts, dur := o.dur, data := textAt s o.dataRef } := by
    simp only [evVal, ho]
  have hins : insertOne s b r =
      (afterInsert s b { o with id := some (nextId s evs) } mr evs, .ref s.next) := by
    unfold insertOne insertOneWith afterInsert
    simp [hr, ho, hid, hl, deepEv, allocHeld, alloc, hold]
  rw [hins, hval]
  refine ⟨rfl, ?_, ?_⟩
  · simp [afterInsert, deepEv, allocHeld, alloc, hold]
  · have n1 : s.next ≠ s.next + 1 := Nat.ne_of_lt (Nat.lt_succ_self _)
    have n2 : s.next ≠ s.next + 1 + 1 := Nat.ne_of_lt (Nat.lt_succ_of_lt (Nat.lt_succ_self _))
    simp [evVal, evAt, textAt, afterInsert, deepEv, allocHeld, alloc, hold, h0, h1, h2, n2]

end Aw.Store.Heap
