import AwModel.UnionNoOverlap
/-!
# Lemmas about the `union_no_overlap` model (C15)

Coverage is **half-open**: an event covers `t` when `ts ≤ t < ts + dur` (a zero-length event covers
nothing; zero-length events are treated by separate statements).
-/
namespace AwProofs.Unov
open Aw Aw.Unov
variable {D : Type}

/-- sorted, internally non-overlapping, durations ≥ 0: every event ends at or before the start of
    every later one -/
def Chain (l : List (Ev D)) : Prop :=
  (∀ e ∈ l, 0 ≤ e.dur) ∧ l.Pairwise (fun a b => a.ts + a.dur ≤ b.ts)

/-- instants and durations are whole milliseconds -/
def MsAligned (l : List (Ev D)) : Prop := ∀ e ∈ l, 1000 ∣ e.ts ∧ 1000 ∣ e.dur

/-- instants are whole milliseconds (true of every `Event` object: the timestamp setter floors) -/
def TsMs (l : List (Ev D)) : Prop := ∀ e ∈ l, 1000 ∣ e.ts

/-- durations are whole milliseconds -/
def WholeMsDurations (l : List (Ev D)) : Prop := ∀ e ∈ l, 1000 ∣ e.dur

theorem msAligned_of {l : List (Ev D)} (h1 : TsMs l) (h2 : WholeMsDurations l) : MsAligned l :=
  fun e he => ⟨h1 e he, h2 e he⟩

theorem tsMs_cons {e : Ev D} {r : List (Ev D)} : TsMs (e :: r) ↔ 1000 ∣ e.ts ∧ TsMs r := by
  simp [TsMs]

/-- half-open coverage `ts ≤ t < ts + dur` -/
def Covers (e : Ev D) (t : Int) : Prop := e.ts ≤ t ∧ t < e.ts + e.dur

/-- some event of the list covers `t` -/
def CovBy (l : List (Ev D)) (t : Int) : Prop := ∃ e ∈ l, Covers e t

/-- some event of the list with payload `p` covers `t` -/
def CovByData (l : List (Ev D)) (p : D) (t : Int) : Prop := ∃ f ∈ l, f.data = p ∧ Covers f t

/-- some list-two output with payload `p` covers `t` -/
def OutCov2 (o : List (Bool × Ev D)) (p : D) (t : Int) : Prop :=
  ∃ x ∈ o, x.1 = false ∧ x.2.data = p ∧ Covers x.2 t

/-- `e.ts < t < e.ts + e.dur` for some event of the list: `t` is strictly inside it -/
def StrictlyInside (l : List (Ev D)) (t : Int) : Prop := ∃ e ∈ l, e.ts < t ∧ t < e.ts + e.dur

/-- the list-one / list-two outputs -/
def out1 (o : List (Bool × Ev D)) : List (Ev D) := (o.filter (·.1)).map (·.2)
def out2 (o : List (Bool × Ev D)) : List (Ev D) := (o.filter (fun x => !x.1)).map (·.2)

theorem mem_out1 {o : List (Bool × Ev D)} {e : Ev D} : e ∈ out1 o ↔ (true, e) ∈ o := by
  simp only [out1, List.mem_map, List.mem_filter]
  constructor
  · rintro ⟨⟨b, x⟩, ⟨hm, hb⟩, rfl⟩
    simp only at hb
    subst hb
    exact hm
  · intro h
    exact ⟨(true, e), ⟨h, rfl⟩, rfl⟩

theorem mem_out2 {o : List (Bool × Ev D)} {e : Ev D} : e ∈ out2 o ↔ (false, e) ∈ o := by
  simp only [out2, List.mem_map, List.mem_filter]
  constructor
  · rintro ⟨⟨b, x⟩, ⟨hm, hb⟩, rfl⟩
    cases b
    · exact hm
    · simp at hb
  · intro h
    exact ⟨(false, e), ⟨h, rfl⟩, rfl⟩

/-! ### cons / nil rules -/

theorem chain_cons {e : Ev D} {r : List (Ev D)} :
    Chain (e :: r) ↔ 0 ≤ e.dur ∧ (∀ x ∈ r, e.ts + e.dur ≤ x.ts) ∧ Chain r := by
  simp only [Chain, List.mem_cons, forall_eq_or_imp, List.pairwise_cons]
  constructor
  · rintro ⟨⟨h0, hr⟩, hp, hpr⟩
    exact ⟨h0, hp, hr, hpr⟩
  · rintro ⟨h0, hp, hr, hpr⟩
    exact ⟨⟨h0, hr⟩, hp, hpr⟩

theorem chain_nil : Chain ([] : List (Ev D)) := ⟨by simp, List.Pairwise.nil⟩

/-- every event of a chain starts at or after the start of its head -/
theorem chain_head_le {e : Ev D} {r : List (Ev D)} (h : Chain (e :: r)) :
    ∀ x ∈ e :: r, e.ts ≤ x.ts := by
  intro x hx
  rw [chain_cons] at h
  rcases List.mem_cons.1 hx with rfl | hx
  · exact Int.le_refl _
  · have := h.2.1 x hx
    omega

/-- the head of a chain may be replaced by a (non-negative) part of it that keeps within it -/
theorem chain_replace_head {e t : Ev D} {r : List (Ev D)} (h : Chain (e :: r))
    (h0 : 0 ≤ t.dur) (hfin : t.ts + t.dur ≤ e.ts + e.dur) : Chain (t :: r) := by
  rw [chain_cons] at h ⊢
  refine ⟨h0, ?_, h.2.2⟩
  intro x hx
  have := h.2.1 x hx
  omega

theorem msAligned_cons {e : Ev D} {r : List (Ev D)} :
    MsAligned (e :: r) ↔ (1000 ∣ e.ts ∧ 1000 ∣ e.dur) ∧ MsAligned r := by
  simp [MsAligned]

@[simp] theorem covBy_nil (t : Int) : CovBy ([] : List (Ev D)) t ↔ False := by simp [CovBy]
theorem covBy_cons (e : Ev D) (r : List (Ev D)) (t : Int) :
    CovBy (e :: r) t ↔ Covers e t ∨ CovBy r t := by simp [CovBy]
@[simp] theorem covByData_nil (p : D) (t : Int) : CovByData ([] : List (Ev D)) p t ↔ False := by
  simp [CovByData]
theorem covByData_cons (e : Ev D) (r : List (Ev D)) (p : D) (t : Int) :
    CovByData (e :: r) p t ↔ (e.data = p ∧ Covers e t) ∨ CovByData r p t := by simp [CovByData]
theorem outCov2_cons_false (e : Ev D) (o : List (Bool × Ev D)) (p : D) (t : Int) :
    OutCov2 ((false, e) :: o) p t ↔ (e.data = p ∧ Covers e t) ∨ OutCov2 o p t := by
  simp [OutCov2]
theorem outCov2_cons_true (e : Ev D) (o : List (Bool × Ev D)) (p : D) (t : Int) :
    OutCov2 ((true, e) :: o) p t ↔ OutCov2 o p t := by
  simp [OutCov2]
theorem outCov2_map_false (l : List (Ev D)) (p : D) (t : Int) :
    OutCov2 (l.map (fun e => (false, e))) p t ↔ CovByData l p t := by
  simp [OutCov2, CovByData]
theorem outCov2_map_true (l : List (Ev D)) (p : D) (t : Int) :
    OutCov2 (l.map (fun e => (true, e))) p t ↔ False := by
  simp [OutCov2]

/-- nothing of a chain is covered before its head starts -/
theorem not_covBy_of_lt {e : Ev D} {r : List (Ev D)} (h : Chain (e :: r)) {t : Int}
    (ht : t < e.ts) : ¬ CovBy (e :: r) t := by
  rintro ⟨x, hx, hc⟩
  have := chain_head_le h x hx
  unfold Covers at hc
  omega

theorem covByData_ge {l : List (Ev D)} {p : D} {t lb : Int} (hl : ∀ f ∈ l, lb ≤ f.ts)
    (h : CovByData l p t) : lb ≤ t := by
  rcases h with ⟨f, hf, _, hc⟩
  have := hl f hf
  unfold Covers at hc
  omega

/-- the shape of the two pieces when the cut point is a whole millisecond -/
theorem split_aligned {e hd t : Ev D} {dt : Int} (hdt : 1000 ∣ dt)
    (h : splitEvent e dt = (hd, some t)) :
    e.ts < dt ∧ dt < e.ts + e.dur ∧ hd = { e with dur := dt - e.ts } ∧
      t = { e with ts := dt, dur := (e.ts + e.dur) - dt } := by
  have := splitEvent_some h
  rw [msFloor_of_dvd hdt] at this
  exact this

/-! ### the loop -/

/-- time covered by a list-two output with payload `p` = time covered by a list-two event with
    payload `p` and by no list-one event -/
theorem pieces_iff (l1 l2 : List (Ev D)) (p : D) (t : Int) :
    Chain l1 → Chain l2 → MsAligned l1 →
    (OutCov2 (unov l1 l2) p t ↔ CovByData l2 p t ∧ ¬ CovBy l1 t) := by
  fun_induction unov l1 l2 with
  | case1 l2 => intro _ _ _; simp [outCov2_map_false]
  | case2 e1 r1 => intro _ _ _; rw [outCov2_map_true]; simp
  | case3 e1 r1 e2 r2 h ih =>
    intro c1 c2 a
    have c2' := chain_cons.1 c2
    have ih := ih c1 c2'.2.2 a
    rw [outCov2_cons_false, covByData_cons, ih]
    have : Covers e2 t → ¬ CovBy (e1 :: r1) t := fun hc =>
      not_covBy_of_lt c1 (by unfold Covers at hc; omega)
    grind
  | case4 e1 r1 e2 r2 h1 h2 ih =>
    intro c1 c2 a
    have c1' := chain_cons.1 c1
    have ih := ih c1'.2.2 c2 (msAligned_cons.1 a).2
    rw [outCov2_cons_true, covBy_cons, ih]
    have : CovByData (e2 :: r2) p t → ¬ Covers e1 t := fun hc => by
      have := covByData_ge (chain_head_le c2) hc
      unfold Covers; omega
    grind
  | case5 e1 r1 e2 r2 h1 h2 h3 hd t' hs ih =>
    intro c1 c2 a
    have c2' := chain_cons.1 c2
    obtain ⟨s1, s2, rfl, rfl⟩ := split_aligned (msAligned_cons.1 a).1.1 hs
    have ih := ih c1 (chain_replace_head c2 (by (try simp only); omega) (by (try simp only); omega)) a
    rw [outCov2_cons_false, covByData_cons, ih, covByData_cons]
    have k1 : ∀ x : Int, x < e1.ts → ¬ CovBy (e1 :: r1) x := fun x hx => not_covBy_of_lt c1 hx
    have := k1 t
    simp only [Covers] at *
    grind
  | case6 e1 r1 e2 r2 h1 h2 h3 fst t' hs ih =>
    intro c1 c2 a
    have c1' := chain_cons.1 c1
    have c2' := chain_cons.1 c2
    have a' := msAligned_cons.1 a
    obtain ⟨s1, s2, _, rfl⟩ := split_aligned (Int.dvd_add a'.1.1 a'.1.2) hs
    have ih := ih c1'.2.2 (chain_replace_head c2 (by (try simp only); omega) (by (try simp only); omega)) a'.2
    rw [outCov2_cons_true, covByData_cons, ih, covByData_cons, covBy_cons]
    have k : CovByData r2 p t → e2.ts + e2.dur ≤ t := covByData_ge c2'.2.1
    simp only [Covers] at *
    grind
  | case7 e1 r1 e2 r2 h1 h2 h3 fst hs ih =>
    intro c1 c2 a
    have c2' := chain_cons.1 c2
    have hn := (splitEvent_none hs).1
    have ih := ih c1 c2'.2.2 a
    rw [ih, covByData_cons, covBy_cons]
    simp only [Covers] at *
    grind

theorem out1_map_true (l : List (Ev D)) : out1 (l.map (fun e => (true, e))) = l := by
  induction l with
  | nil => rfl
  | cons a r ih => simpa [out1] using ih

theorem out1_map_false (l : List (Ev D)) : out1 (l.map (fun e => (false, e))) = [] := by
  simp [out1]

theorem out1_cons_true (e : Ev D) (o : List (Bool × Ev D)) : out1 ((true, e) :: o) = e :: out1 o := by
  simp [out1]

theorem out1_cons_false (e : Ev D) (o : List (Bool × Ev D)) : out1 ((false, e) :: o) = out1 o := by
  simp [out1]

theorem list1_eq (l1 l2 : List (Ev D)) : out1 (unov l1 l2) = l1 := by
  fun_induction unov l1 l2 with
  | case1 l2 => exact out1_map_false l2
  | case2 e1 r1 => exact out1_map_true (e1 :: r1)
  | case3 e1 r1 e2 r2 h ih => rw [out1_cons_false, ih]
  | case4 e1 r1 e2 r2 h1 h2 ih => rw [out1_cons_true, ih]
  | case5 e1 r1 e2 r2 h1 h2 h3 hd t' hs ih => rw [out1_cons_false, ih]
  | case6 e1 r1 e2 r2 h1 h2 h3 fst t' hs ih => rw [out1_cons_true, ih]
  | case7 e1 r1 e2 r2 h1 h2 h3 fst hs ih => exact ih

theorem pieces_within (l1 l2 : List (Ev D)) :
    TsMs l1 → TsMs l2 →
    ∀ x ∈ unov l1 l2, x.1 = false →
      ∃ f ∈ l2, x.2.data = f.data ∧ x.2.id = f.id ∧ f.ts ≤ x.2.ts ∧
        x.2.ts + x.2.dur ≤ f.ts + f.dur := by
  fun_induction unov l1 l2 with
  | case1 l2 =>
    intro _ _ x hx _
    obtain ⟨f, hf, rfl⟩ := List.mem_map.1 hx
    exact ⟨f, hf, rfl, rfl, Int.le_refl _, Int.le_refl _⟩
  | case2 e1 r1 =>
    intro _ _ x hx hb
    obtain ⟨f, hf, rfl⟩ := List.mem_map.1 hx
    simp at hb
  | case3 e1 r1 e2 r2 h ih =>
    intro a1 a2 x hx hb
    rcases List.mem_cons.1 hx with rfl | hx
    · exact ⟨e2, List.mem_cons_self, rfl, rfl, Int.le_refl _, Int.le_refl _⟩
    · obtain ⟨f, hf, h⟩ := ih a1 (tsMs_cons.1 a2).2 x hx hb
      exact ⟨f, List.mem_cons_of_mem _ hf, h⟩
  | case4 e1 r1 e2 r2 h1 h2 ih =>
    intro a1 a2 x hx hb
    rcases List.mem_cons.1 hx with rfl | hx
    · simp at hb
    · exact ih (tsMs_cons.1 a1).2 a2 x hx hb
  | case5 e1 r1 e2 r2 h1 h2 h3 hd t' hs ih =>
    intro a1 a2 x hx hb
    have a1' := tsMs_cons.1 a1
    have a2' := tsMs_cons.1 a2
    obtain ⟨s1, s2, rfl, rfl⟩ := split_aligned a1'.1 hs
    rcases List.mem_cons.1 hx with rfl | hx
    · exact ⟨e2, List.mem_cons_self, rfl, rfl, Int.le_refl _, by (try simp only); omega⟩
    · obtain ⟨f, hf, h⟩ := ih a1 (tsMs_cons.2 ⟨a1'.1, a2'.2⟩) x hx hb
      rcases List.mem_cons.1 hf with rfl | hf
      · exact ⟨e2, List.mem_cons_self, by simpa using h.1, by simpa using h.2.1,
          by have := h.2.2.1; simp only at this; omega, by have := h.2.2.2; simp only at this; omega⟩
      · exact ⟨f, List.mem_cons_of_mem _ hf, h⟩
  | case6 e1 r1 e2 r2 h1 h2 h3 fst t' hs ih =>
    intro a1 a2 x hx hb
    have a1' := tsMs_cons.1 a1
    have a2' := tsMs_cons.1 a2
    obtain ⟨s1, s2, _, rfl⟩ := splitEvent_some hs
    have hfl : 1000 ∣ msFloor (e1.ts + e1.dur) := by unfold msFloor; omega
    have hle : e2.ts ≤ msFloor (e1.ts + e1.dur) := by
      have := a2'.1; unfold msFloor; omega
    have hle2 := msFloor_le (e1.ts + e1.dur)
    rcases List.mem_cons.1 hx with rfl | hx
    · simp at hb
    · obtain ⟨f, hf, h⟩ := ih a1'.2 (tsMs_cons.2 ⟨hfl, a2'.2⟩) x hx hb
      rcases List.mem_cons.1 hf with rfl | hf
      · exact ⟨e2, List.mem_cons_self, by simpa using h.1, by simpa using h.2.1,
          by have := h.2.2.1; simp only at this; omega, by have := h.2.2.2; simp only at this; omega⟩
      · exact ⟨f, List.mem_cons_of_mem _ hf, h⟩
  | case7 e1 r1 e2 r2 h1 h2 h3 fst hs ih =>
    intro a1 a2 x hx hb
    obtain ⟨f, hf, h⟩ := ih a1 (tsMs_cons.1 a2).2 x hx hb
    exact ⟨f, List.mem_cons_of_mem _ hf, h⟩

/-- nothing is emitted before the earlier of the two heads -/
theorem out_lower_bound (l1 l2 : List (Ev D)) (lb : Int) :
    Chain l1 → Chain l2 → MsAligned l1 → (∀ e ∈ l1, lb ≤ e.ts) → (∀ f ∈ l2, lb ≤ f.ts) →
    ∀ x ∈ unov l1 l2, lb ≤ x.2.ts := by
  fun_induction unov l1 l2 with
  | case1 l2 =>
    intro _ _ _ _ h2 x hx
    obtain ⟨f, hf, rfl⟩ := List.mem_map.1 hx
    exact h2 f hf
  | case2 e1 r1 =>
    intro _ _ _ h1 _ x hx
    obtain ⟨f, hf, rfl⟩ := List.mem_map.1 hx
    exact h1 f hf
  | case3 e1 r1 e2 r2 h ih =>
    intro c1 c2 a b1 b2 x hx
    rcases List.mem_cons.1 hx with rfl | hx
    · exact b2 e2 List.mem_cons_self
    · exact ih c1 (chain_cons.1 c2).2.2 a b1 (fun f hf => b2 f (List.mem_cons_of_mem _ hf)) x hx
  | case4 e1 r1 e2 r2 h1 h2 ih =>
    intro c1 c2 a b1 b2 x hx
    rcases List.mem_cons.1 hx with rfl | hx
    · exact b1 e1 List.mem_cons_self
    · exact ih (chain_cons.1 c1).2.2 c2 (msAligned_cons.1 a).2
        (fun f hf => b1 f (List.mem_cons_of_mem _ hf)) b2 x hx
  | case5 e1 r1 e2 r2 h1 h2 h3 hd t' hs ih =>
    intro c1 c2 a b1 b2 x hx
    obtain ⟨s1, s2, rfl, rfl⟩ := split_aligned (msAligned_cons.1 a).1.1 hs
    rcases List.mem_cons.1 hx with rfl | hx
    · exact b2 e2 List.mem_cons_self
    · refine ih c1 (chain_replace_head c2 (by (try simp only); omega) (by (try simp only); omega)) a b1 ?_ x hx
      intro f hf
      rcases List.mem_cons.1 hf with rfl | hf
      · exact b1 e1 List.mem_cons_self
      · exact b2 f (List.mem_cons_of_mem _ hf)
  | case6 e1 r1 e2 r2 h1 h2 h3 fst t' hs ih =>
    intro c1 c2 a b1 b2 x hx
    have a' := msAligned_cons.1 a
    have c1' := chain_cons.1 c1
    obtain ⟨s1, s2, _, rfl⟩ := split_aligned (Int.dvd_add a'.1.1 a'.1.2) hs
    rcases List.mem_cons.1 hx with rfl | hx
    · exact b1 e1 List.mem_cons_self
    · refine ih c1'.2.2 (chain_replace_head c2 (by (try simp only); omega) (by (try simp only); omega)) a'.2
        (fun f hf => b1 f (List.mem_cons_of_mem _ hf)) ?_ x hx
      intro f hf
      rcases List.mem_cons.1 hf with rfl | hf
      · have := b1 e1 List.mem_cons_self
        simp only
        omega
      · exact b2 f (List.mem_cons_of_mem _ hf)
  | case7 e1 r1 e2 r2 h1 h2 h3 fst hs ih =>
    intro c1 c2 a b1 b2 x hx
    exact ih c1 (chain_cons.1 c2).2.2 a b1 (fun f hf => b2 f (List.mem_cons_of_mem _ hf)) x hx

theorem chain_map_tag (b : Bool) (l : List (Ev D)) (h : Chain l) :
    Chain ((l.map (fun e => (b, e))).map (·.2)) := by
  have : (l.map (fun e => (b, e))).map (·.2) = l := by simp [Function.comp_def]
  rw [this]; exact h

/-- the whole output, in the order returned, is a chain -/
theorem out_chain (l1 l2 : List (Ev D)) :
    Chain l1 → Chain l2 → MsAligned l1 → Chain ((unov l1 l2).map (·.2)) := by
  fun_induction unov l1 l2 with
  | case1 l2 => intro _ c2 _; exact chain_map_tag false l2 c2
  | case2 e1 r1 => intro c1 _ _; exact chain_map_tag true (e1 :: r1) c1
  | case3 e1 r1 e2 r2 h ih =>
    intro c1 c2 a
    have c2' := chain_cons.1 c2
    rw [List.map_cons, chain_cons]
    refine ⟨c2'.1, ?_, ih c1 c2'.2.2 a⟩
    intro x hx
    obtain ⟨y, hy, rfl⟩ := List.mem_map.1 hx
    refine out_lower_bound (e1 :: r1) r2 _ c1 c2'.2.2 a ?_ c2'.2.1 y hy
    intro e he
    have := chain_head_le c1 e he
    (try simp only); omega
  | case4 e1 r1 e2 r2 h1 h2 ih =>
    intro c1 c2 a
    have c1' := chain_cons.1 c1
    have a' := msAligned_cons.1 a
    rw [List.map_cons, chain_cons]
    refine ⟨c1'.1, ?_, ih c1'.2.2 c2 a'.2⟩
    intro x hx
    obtain ⟨y, hy, rfl⟩ := List.mem_map.1 hx
    refine out_lower_bound r1 (e2 :: r2) _ c1'.2.2 c2 a'.2 c1'.2.1 ?_ y hy
    intro f hf
    have := chain_head_le c2 f hf
    (try simp only); omega
  | case5 e1 r1 e2 r2 h1 h2 h3 hd t' hs ih =>
    intro c1 c2 a
    have c2' := chain_cons.1 c2
    obtain ⟨s1, s2, rfl, rfl⟩ := split_aligned (msAligned_cons.1 a).1.1 hs
    have ct := chain_replace_head (t := { e2 with ts := e1.ts, dur := e2.ts + e2.dur - e1.ts }) c2
      (by (try simp only); omega) (by (try simp only); omega)
    rw [List.map_cons, chain_cons]
    refine ⟨by (try simp only); omega, ?_, ih c1 ct a⟩
    intro x hx
    obtain ⟨y, hy, rfl⟩ := List.mem_map.1 hx
    refine out_lower_bound (e1 :: r1) _ _ c1 ct a ?_ ?_ y hy
    · intro e he
      have := chain_head_le c1 e he
      (try simp only); omega
    · intro f hf
      rcases List.mem_cons.1 hf with rfl | hf
      · (try simp only); omega
      · have := c2'.2.1 f hf
        (try simp only); omega
  | case6 e1 r1 e2 r2 h1 h2 h3 fst t' hs ih =>
    intro c1 c2 a
    have c1' := chain_cons.1 c1
    have c2' := chain_cons.1 c2
    have a' := msAligned_cons.1 a
    obtain ⟨s1, s2, _, rfl⟩ := split_aligned (Int.dvd_add a'.1.1 a'.1.2) hs
    have ct := chain_replace_head
      (t := { e2 with ts := e1.ts + e1.dur, dur := e2.ts + e2.dur - (e1.ts + e1.dur) }) c2
      (by (try simp only); omega) (by (try simp only); omega)
    rw [List.map_cons, chain_cons]
    refine ⟨c1'.1, ?_, ih c1'.2.2 ct a'.2⟩
    intro x hx
    obtain ⟨y, hy, rfl⟩ := List.mem_map.1 hx
    refine out_lower_bound r1 _ _ c1'.2.2 ct a'.2 c1'.2.1 ?_ y hy
    intro f hf
    rcases List.mem_cons.1 hf with rfl | hf
    · (try simp only); omega
    · have := c2'.2.1 f hf
      (try simp only); omega
  | case7 e1 r1 e2 r2 h1 h2 h3 fst hs ih =>
    intro c1 c2 a
    exact ih c1 (chain_cons.1 c2).2.2 a


theorem strictlyInside_cons (e : Ev D) (r : List (Ev D)) (t : Int) :
    StrictlyInside (e :: r) t ↔ (e.ts < t ∧ t < e.ts + e.dur) ∨ StrictlyInside r t := by
  simp [StrictlyInside]

theorem not_strictlyInside_of_le {e : Ev D} {r : List (Ev D)} (h : Chain (e :: r)) {t : Int}
    (ht : t ≤ e.ts) : ¬ StrictlyInside (e :: r) t := by
  rintro ⟨x, hx, hc⟩
  have := chain_head_le h x hx
  omega

/-- a zero-length list-two event is returned (as it is) exactly when it is not strictly inside a
    list-one event, and every zero-length list-two output is such an event -/
theorem zero_length_iff (l1 l2 : List (Ev D)) (f : Ev D) (hf0 : f.dur = 0) :
    Chain l1 → Chain l2 → TsMs l1 →
    ((false, f) ∈ unov l1 l2 ↔ f ∈ l2 ∧ ¬ StrictlyInside l1 f.ts) := by
  fun_induction unov l1 l2 with
  | case1 l2 =>
    intro _ _ _
    simp [StrictlyInside]
  | case2 e1 r1 =>
    intro _ _ _
    simp
  | case3 e1 r1 e2 r2 h ih =>
    intro c1 c2 a
    have ih := ih c1 (chain_cons.1 c2).2.2 a
    have k : f = e2 → ¬ StrictlyInside (e1 :: r1) f.ts := fun he =>
      not_strictlyInside_of_le c1 (by subst he; omega)
    rw [List.mem_cons, ih, List.mem_cons]
    simp only [Prod.mk.injEq, true_and]
    grind
  | case4 e1 r1 e2 r2 h1 h2 ih =>
    intro c1 c2 a
    have ih := ih (chain_cons.1 c1).2.2 c2 (tsMs_cons.1 a).2
    have k : f ∈ e2 :: r2 → e2.ts ≤ f.ts := chain_head_le c2 f
    rw [List.mem_cons, ih, strictlyInside_cons]
    simp only [Prod.mk.injEq, Bool.false_eq_true, false_and, false_or]
    grind
  | case5 e1 r1 e2 r2 h1 h2 h3 hd t' hs ih =>
    intro c1 c2 a
    obtain ⟨s1, s2, rfl, rfl⟩ := split_aligned (tsMs_cons.1 a).1 hs
    have ih := ih c1 (chain_replace_head c2 (by (try simp only); omega) (by (try simp only); omega)) a
    rw [List.mem_cons, ih, List.mem_cons, List.mem_cons]
    simp only [Prod.mk.injEq, true_and]
    have n1 : f ≠ { e2 with dur := e1.ts - e2.ts } := by
      intro he; rw [he] at hf0; simp only at hf0; omega
    have n2 : f ≠ { e2 with ts := e1.ts, dur := e2.ts + e2.dur - e1.ts } := by
      intro he; rw [he] at hf0; simp only at hf0; omega
    have n3 : f ≠ e2 := by
      intro he; rw [he] at hf0; omega
    grind
  | case6 e1 r1 e2 r2 h1 h2 h3 fst t' hs ih =>
    intro c1 c2 a
    have a' := tsMs_cons.1 a
    have c2' := chain_cons.1 c2
    obtain ⟨s1, s2, _, rfl⟩ := splitEvent_some hs
    have hle2 := msFloor_le (e1.ts + e1.dur)
    have ih := ih (chain_cons.1 c1).2.2
      (chain_replace_head c2 (by (try simp only); omega) (by (try simp only); omega)) a'.2
    rw [List.mem_cons, ih, List.mem_cons, List.mem_cons, strictlyInside_cons]
    simp only [Prod.mk.injEq, Bool.false_eq_true, false_and, false_or]
    have n2 : f ≠ { e2 with ts := msFloor (e1.ts + e1.dur),
                            dur := e2.ts + e2.dur - (e1.ts + e1.dur) } := by
      intro he; rw [he] at hf0; simp only at hf0; omega
    have n3 : f ≠ e2 := by
      intro he; rw [he] at hf0; omega
    have k : f ∈ r2 → e2.ts + e2.dur ≤ f.ts := c2'.2.1 f
    grind
  | case7 e1 r1 e2 r2 h1 h2 h3 fst hs ih =>
    intro c1 c2 a
    have hn := (splitEvent_none hs).1
    have ih := ih c1 (chain_cons.1 c2).2.2 a
    rw [ih, List.mem_cons, strictlyInside_cons]
    have k : f = e2 → e1.ts < f.ts ∧ f.ts < e1.ts + e1.dur := by
      intro he; subst he; omega
    grind

/-- the loop with an iteration budget finishes for some budget and returns what the total
    function returns -/
theorem fuel_exists (l1 l2 : List (Ev D)) : ∃ n, unovFuel n l1 l2 = some (unov l1 l2) := by
  fun_induction unov l1 l2 with
  | case1 l2 => exact ⟨0, by simp [unovFuel]⟩
  | case2 e1 r1 => exact ⟨0, by simp [unovFuel]⟩
  | case3 e1 r1 e2 r2 h ih =>
    obtain ⟨n, hn⟩ := ih
    exact ⟨n + 1, by simp [unovFuel, h, hn]⟩
  | case4 e1 r1 e2 r2 h1 h2 ih =>
    obtain ⟨n, hn⟩ := ih
    exact ⟨n + 1, by simp [unovFuel, h1, h2, hn]⟩
  | case5 e1 r1 e2 r2 h1 h2 h3 hd t' hs ih =>
    obtain ⟨n, hn⟩ := ih
    exact ⟨n + 1, by simp [unovFuel, h1, h2, h3, hs, hn]⟩
  | case6 e1 r1 e2 r2 h1 h2 h3 fst t' hs ih =>
    obtain ⟨n, hn⟩ := ih
    exact ⟨n + 1, by simp [unovFuel, h1, h2, h3, hs, hn]⟩
  | case7 e1 r1 e2 r2 h1 h2 h3 fst hs ih =>
    obtain ⟨n, hn⟩ := ih
    exact ⟨n + 1, by simp [unovFuel, h1, h2, h3, hs, hn]⟩

/-- whatever the budgeted loop returns is what the total function returns -/
theorem fuel_sound (l1 l2 : List (Ev D)) :
    ∀ (n : Nat) (out : List (Bool × Ev D)), unovFuel n l1 l2 = some out → unov l1 l2 = out := by
  fun_induction unov l1 l2 with
  | case1 l2 => intro n out h; cases n <;> simpa [unovFuel] using h
  | case2 e1 r1 => intro n out h; cases n <;> simpa [unovFuel] using h
  | case3 e1 r1 e2 r2 h ih =>
    intro n out hf
    cases n with
    | zero => simp [unovFuel] at hf
    | succ n =>
      simp only [unovFuel, h, if_true, Option.map_eq_some_iff] at hf
      obtain ⟨o, ho, rfl⟩ := hf
      rw [ih n o ho]
  | case4 e1 r1 e2 r2 h1 h2 ih =>
    intro n out hf
    cases n with
    | zero => simp [unovFuel] at hf
    | succ n =>
      simp only [unovFuel, h1, h2, if_true, if_false, Option.map_eq_some_iff] at hf
      obtain ⟨o, ho, rfl⟩ := hf
      rw [ih n o ho]
  | case5 e1 r1 e2 r2 h1 h2 h3 hd t' hs ih =>
    intro n out hf
    cases n with
    | zero => simp [unovFuel] at hf
    | succ n =>
      simp only [unovFuel, h1, h2, h3, hs, if_true, if_false, Option.map_eq_some_iff] at hf
      obtain ⟨o, ho, rfl⟩ := hf
      rw [ih n o ho]
  | case6 e1 r1 e2 r2 h1 h2 h3 fst t' hs ih =>
    intro n out hf
    cases n with
    | zero => simp [unovFuel] at hf
    | succ n =>
      simp only [unovFuel, h1, h2, h3, hs, if_false, Option.map_eq_some_iff] at hf
      obtain ⟨o, ho, rfl⟩ := hf
      rw [ih n o ho]
  | case7 e1 r1 e2 r2 h1 h2 h3 fst hs ih =>
    intro n out hf
    cases n with
    | zero => simp [unovFuel] at hf
    | succ n =>
      simp only [unovFuel, h1, h2, h3, hs, if_false] at hf
      exact ih n out hf

end AwProofs.Unov
