import AwModel.Store.Memory
import AwModel.Store.Spec
/-!
# Memory backend refines the list model

`Inv` : bucket keys pairwise distinct; in every bucket all events carry an id and the ids are
pairwise distinct (memory ids are per bucket). `view s = lookup s`, and every write is a `setKey`
or a key filter, so each operation reads back as the pointwise `Spec` operation
(`view_setKey`, `view_filter`, `view_onEvents`).

The requested two-fold form of `insert_many` is FALSE of the model (`insertMany_view_false`): an
event of the batch may carry the id that an earlier event of the same batch was just given.
`insertMany_view_seq` is the unconditional (interleaved) refinement, `insertMany_view_cond` the
two-fold form under exactly the non-collision condition, `insertMany_view_partial` under the
hypothesis that carried ids already exist in the bucket.
-/
namespace Aw.Store.Memory
open Aw Aw.Store
variable {D : Type}

/-! ## the invariant -/

/-- a well-formed bucket list: ids present and pairwise distinct -/
def EvsOk (es : List (Ev D)) : Prop := (es.filterMap (·.id)).Nodup ∧ ∀ x ∈ es, x.id.isSome

/-- keys pairwise distinct; every bucket's event list is well formed -/
def Inv (s : St D) : Prop := (s.map (·.1)).Nodup ∧ ∀ p ∈ s, EvsOk p.2.2

theorem inv_init : Inv ([] : St D) := by
  refine ⟨List.nodup_nil, ?_⟩
  intro p hp; cases hp

theorem evsOk_nil : EvsOk ([] : List (Ev D)) := by
  refine ⟨List.nodup_nil, ?_⟩
  intro p hp; cases hp

/-! ## the association list -/

theorem lookup_cons (p : String × (Meta × List (Ev D))) (s : St D) (b : String) :
    lookup (p :: s) b = if p.1 = b then some p.2 else lookup s b := by
  unfold lookup
  by_cases h : p.1 = b <;> simp [h]

theorem lookup_mem {s : St D} {b : String} {v : Meta × List (Ev D)} (h : lookup s b = some v) :
    (b, v) ∈ s := by
  induction s with
  | nil => cases h
  | cons p t ih =>
    rw [lookup_cons] at h
    by_cases hp : p.1 = b
    · simp only [hp, if_true, Option.some.injEq] at h
      have : p = (b, v) := by rw [← hp, ← h]
      rw [this]; exact List.mem_cons_self
    · simp only [hp, if_false] at h
      exact List.mem_cons_of_mem _ (ih h)

theorem lookup_none_iff {s : St D} {b : String} : lookup s b = none ↔ ∀ p ∈ s, p.1 ≠ b := by
  induction s with
  | nil => simp [lookup]
  | cons p t ih =>
    rw [lookup_cons]
    by_cases hp : p.1 = b <;> simp [hp, ih]

theorem lookup_of_mem {s : St D} (hk : (s.map (·.1)).Nodup) {b : String}
    {v : Meta × List (Ev D)} (h : (b, v) ∈ s) : lookup s b = some v := by
  induction s with
  | nil => cases h
  | cons p t ih =>
    rw [lookup_cons]
    simp only [List.map_cons, List.nodup_cons, List.mem_map, not_exists, not_and] at hk
    rcases List.mem_cons.mp h with h | h
    · subst h; simp
    · have hne : p.1 ≠ b := fun e => hk.1 (b, v) h (e ▸ rfl)
      simp only [hne, if_false]
      exact ih hk.2 h

theorem any_eq_false_iff {s : St D} {b : String} :
    (s.any (fun p => decide (p.1 = b))) = false ↔ lookup s b = none := by
  rw [lookup_none_iff]
  simp [List.any_eq_false]

theorem lookup_map_set (s : St D) (b b' : String) (v : Meta × List (Ev D)) :
    lookup (s.map (fun p => if p.1 = b then (b, v) else p)) b' =
      if b' = b then (lookup s b).map (fun _ => v) else lookup s b' := by
  induction s with
  | nil => simp [lookup]
  | cons p t ih =>
    rw [List.map_cons, lookup_cons, lookup_cons, lookup_cons, ih]
    by_cases hb : b' = b
    · subst hb
      by_cases hp : p.1 = b' <;> simp [hp]
    · by_cases hp : p.1 = b
      · have : ¬ b = b' := fun e => hb e.symm
        have h2 : ¬ p.1 = b' := fun e => hb (e ▸ hp)
        simp [hp, hb, this]
      · simp [hp, hb]

theorem lookup_append (s : St D) (b b' : String) (v : Meta × List (Ev D)) :
    lookup (s ++ [(b, v)]) b' =
      match lookup s b' with
      | some x => some x
      | none => if b = b' then some v else none := by
  induction s with
  | nil => simp [lookup]
  | cons p t ih =>
    rw [List.cons_append, lookup_cons, lookup_cons, ih]
    by_cases hp : p.1 = b' <;> simp [hp]

/-- `d[b] = v` reads back as the pointwise overwrite -/
theorem lookup_setKey (s : St D) (b b' : String) (v : Meta × List (Ev D)) :
    lookup (setKey s b v) b' = if b' = b then some v else lookup s b' := by
  unfold setKey
  cases ha : s.any (fun p => decide (p.1 = b)) with
  | true =>
    simp only [if_true]
    rw [lookup_map_set]
    by_cases hb : b' = b
    · simp only [hb, if_true]
      cases hl : lookup s b with
      | none => rw [← any_eq_false_iff, ha] at hl; cases hl
      | some x => rfl
    · simp only [hb, if_false]
  | false =>
    simp only [Bool.false_eq_true, if_false]
    rw [lookup_append]
    rw [any_eq_false_iff] at ha
    by_cases hb : b' = b
    · subst hb; simp [ha]
    · have : ¬ b = b' := fun e => hb e.symm
      cases lookup s b' <;> simp [hb, this]

theorem view_setKey (s : St D) (b : String) (v : Meta × List (Ev D)) :
    view (setKey s b v) = Spec.setB (view s) b (some v) := by
  funext b'
  simp only [view, Spec.setB, lookup_setKey]

theorem lookup_filter (s : St D) (b b' : String) :
    lookup (s.filter (fun p => decide (p.1 ≠ b))) b' = if b' = b then none else lookup s b' := by
  induction s with
  | nil => simp [lookup]
  | cons p t ih =>
    by_cases hp : p.1 = b
    · rw [List.filter_cons_of_neg (by simp [hp]), ih, lookup_cons]
      by_cases hb : b' = b
      · simp [hb]
      · have : ¬ p.1 = b' := fun e => hb (e ▸ hp)
        simp [hb, this]
    · rw [List.filter_cons_of_pos (by simp [hp]), lookup_cons, lookup_cons, ih]
      by_cases hb : b' = b
      · have : ¬ p.1 = b' := fun e => hp (e ▸ hb)
        simp [hb]; intro h; exact absurd (hb ▸ h) hp
      · simp [hb]

theorem view_filter (s : St D) (b : String) :
    view (s.filter (fun p => decide (p.1 ≠ b))) = Spec.setB (view s) b none := by
  funext b'
  simp only [view, Spec.setB, lookup_filter]

theorem setKey_inv {s : St D} (h : Inv s) (b : String) {v : Meta × List (Ev D)}
    (hv : EvsOk v.2) : Inv (setKey s b v) := by
  unfold setKey
  cases ha : s.any (fun p => decide (p.1 = b)) with
  | true =>
    simp only [if_true]
    refine ⟨?_, ?_⟩
    · have : (s.map (fun p => if p.1 = b then (b, v) else p)).map (·.1) = s.map (·.1) := by
        rw [List.map_map]
        apply List.map_congr_left
        intro p _
        by_cases hp : p.1 = b <;> simp [hp]
      rw [this]; exact h.1
    · intro p hp
      rw [List.mem_map] at hp
      obtain ⟨q, hq, rfl⟩ := hp
      by_cases hqb : q.1 = b
      · simp only [hqb, if_true]; exact hv
      · simp only [hqb, if_false]; exact h.2 q hq
  | false =>
    simp only [Bool.false_eq_true, if_false]
    rw [any_eq_false_iff, lookup_none_iff] at ha
    refine ⟨?_, ?_⟩
    · rw [List.map_append, List.nodup_append]
      refine ⟨h.1, by simp, ?_⟩
      intro a ha' c hc
      simp only [List.map_cons, List.map_nil, List.mem_singleton] at hc
      rw [List.mem_map] at ha'
      obtain ⟨q, hq, rfl⟩ := ha'
      rw [hc]; exact ha q hq
    · intro p hp
      rcases List.mem_append.mp hp with hp | hp
      · exact h.2 p hp
      · rw [List.mem_singleton] at hp; subst hp; exact hv

theorem filter_inv {s : St D} (h : Inv s) (b : String) :
    Inv (s.filter (fun p => decide (p.1 ≠ b))) := by
  refine ⟨?_, ?_⟩
  · exact List.Nodup.sublist (List.Sublist.map _ List.filter_sublist) h.1
  · intro p hp
    exact h.2 p (List.mem_filter.mp hp).1

theorem inv_lookup {s : St D} (h : Inv s) {b : String} {v : Meta × List (Ev D)}
    (hl : lookup s b = some v) : EvsOk v.2 := h.2 _ (lookup_mem hl)

/-! ## event lists -/

theorem nodup_reverse' {α} {l : List α} (h : l.Nodup) : l.reverse.Nodup := by
  simp only [List.Nodup, List.pairwise_reverse] at *
  exact h.imp (fun h => Ne.symm h)

/-- under distinct ids, two members with the same id are the same element -/
theorem eq_of_id_eq {l : List (Ev D)} (hn : (l.filterMap (·.id)).Nodup) {x y : Ev D} {i : Int}
    (hx : x ∈ l) (hy : y ∈ l) (hxi : x.id = some i) (hyi : y.id = some i) : x = y := by
  induction l with
  | nil => cases hx
  | cons a t ih =>
    have key : ∀ z ∈ t, z.id = some i → a.id = some i → False := by
      intro z hz hzi hai
      rw [List.filterMap_cons, hai] at hn
      simp only [List.nodup_cons] at hn
      exact hn.1 (List.mem_filterMap.mpr ⟨z, hz, hzi⟩)
    have hn' : (t.filterMap (·.id)).Nodup := by
      rw [List.filterMap_cons] at hn
      cases ha : a.id with
      | none => simpa [ha] using hn
      | some j => rw [ha] at hn; exact (List.nodup_cons.mp hn).2
    rcases List.mem_cons.mp hx with hx | hx <;> rcases List.mem_cons.mp hy with hy | hy
    · rw [hx, hy]
    · exact (key y hy hyi (hx ▸ hxi)).elim
    · exact (key x hx hxi (hy ▸ hyi)).elim
    · exact ih hn' hx hy

theorem replaceIn_ids (evs : List (Ev D)) (i : Int) (e : Ev D) :
    (replaceIn evs i e).filterMap (·.id) = evs.filterMap (·.id) := by
  unfold replaceIn
  induction evs with
  | nil => rfl
  | cons x t ih =>
    rw [List.map_cons, List.filterMap_cons, List.filterMap_cons, ih]
    by_cases hx : x.id = some i <;> simp [hx]

theorem replaceIn_ok {evs : List (Ev D)} (h : EvsOk evs) (i : Int) (e : Ev D) :
    EvsOk (replaceIn evs i e) := by
  refine ⟨by rw [replaceIn_ids]; exact h.1, ?_⟩
  intro x hx
  unfold replaceIn at hx
  rw [List.mem_map] at hx
  obtain ⟨y, hy, rfl⟩ := hx
  by_cases hyi : y.id = some i
  · simp [hyi]
  · simp only [hyi, if_false]; exact h.2 y hy

theorem foldl_max_le (l : List (Ev D)) (acc : Int) :
    acc ≤ l.foldl (fun acc x => max acc (x.id.getD 0)) acc ∧
      ∀ x ∈ l, x.id.getD 0 ≤ l.foldl (fun acc x => max acc (x.id.getD 0)) acc := by
  induction l generalizing acc with
  | nil => exact ⟨Int.le_refl _, fun x hx => by cases hx⟩
  | cons a t ih =>
    simp only [List.foldl_cons]
    obtain ⟨h1, h2⟩ := ih (max acc (a.id.getD 0))
    refine ⟨by omega, ?_⟩
    intro x hx
    rcases List.mem_cons.mp hx with hx | hx
    · subst hx; omega
    · exact h2 x hx

/-- the id chosen by `insert_one` exceeds every id of the bucket -/
theorem nextId_fresh {evs : List (Ev D)} {x : Ev D} {i : Int} (hx : x ∈ evs) (hi : x.id = some i) :
    i < nextId evs := by
  cases evs with
  | nil => cases hx
  | cons a t =>
    have := (foldl_max_le (a :: t) 0).2 x hx
    rw [hi] at this
    simp only [Option.getD_some] at this
    show i < (a :: t).foldl (fun acc x => max acc (x.id.getD 0)) 0 + 1
    omega

theorem nextId_not_mem (evs : List (Ev D)) : nextId evs ∉ evs.filterMap (·.id) := by
  intro h
  obtain ⟨x, hx, hi⟩ := List.mem_filterMap.mp h
  have := nextId_fresh hx hi
  omega

theorem append_ok {evs : List (Ev D)} (h : EvsOk evs) (e : Ev D) {i : Int}
    (hi : i ∉ evs.filterMap (·.id)) : EvsOk (evs ++ [{ e with id := some i }]) := by
  refine ⟨?_, ?_⟩
  · rw [List.filterMap_append, List.nodup_append]
    refine ⟨h.1, by simp, ?_⟩
    intro a ha c hc
    simp only [List.filterMap_cons, List.filterMap_nil, List.mem_singleton] at hc
    intro hac; rw [hac, hc] at ha; exact hi ha
  · intro x hx
    rcases List.mem_append.mp hx with hx | hx
    · exact h.2 x hx
    · rw [List.mem_singleton] at hx; rw [hx]; rfl

/-- `removeLast` on the reversed list, by position -/
theorem erase_first (r : List (Ev D)) (i : Int) (hn : (r.filterMap (·.id)).Nodup) :
    match r.findIdx? (fun x => decide (x.id = some i)) with
    | none => r.filter (fun x => decide (x.id ≠ some i)) = r ∧ i ∉ r.filterMap (·.id)
    | some k => r.eraseIdx k = r.filter (fun x => decide (x.id ≠ some i)) ∧
        i ∈ r.filterMap (·.id) := by
  induction r with
  | nil => simp
  | cons a t ih =>
    rw [List.findIdx?_cons]
    by_cases ha : a.id = some i
    · simp only [ha, decide_true, if_true, List.eraseIdx_cons_zero]
      rw [List.filterMap_cons, ha] at hn
      have hni := (List.nodup_cons.mp hn).1
      refine ⟨?_, by simp [ha]⟩
      rw [List.filter_cons_of_neg (by simp [ha])]
      symm
      rw [List.filter_eq_self]
      intro x hx
      simp only [ne_eq, decide_not, Bool.not_eq_eq_eq_not, Bool.not_true, decide_eq_false_iff_not]
      intro hxi
      exact hni (List.mem_filterMap.mpr ⟨x, hx, hxi⟩)
    · have hn' : (t.filterMap (·.id)).Nodup := by
        rw [List.filterMap_cons] at hn
        cases haa : a.id with
        | none => simpa [haa] using hn
        | some j => rw [haa] at hn; exact (List.nodup_cons.mp hn).2
      have := ih hn'
      simp only [ha, decide_false, Bool.false_eq_true, if_false]
      have hmem : i ∈ (a :: t).filterMap (·.id) ↔ i ∈ t.filterMap (·.id) := by
        simp only [List.mem_filterMap, List.mem_cons]
        constructor
        · rintro ⟨x, hx | hx, hxi⟩
          · subst hx; exact absurd hxi ha
          · exact ⟨x, hx, hxi⟩
        · rintro ⟨x, hx, hxi⟩; exact ⟨x, Or.inr hx, hxi⟩
      cases hf : t.findIdx? (fun x => decide (x.id = some i)) with
      | none =>
        rw [hf] at this
        simp only [Option.map_none]
        rw [List.filter_cons_of_pos (by simp [ha]), this.1, hmem]
        exact ⟨rfl, this.2⟩
      | some k =>
        rw [hf] at this
        simp only [Option.map_some, List.eraseIdx_cons_succ]
        rw [List.filter_cons_of_pos (by simp [ha]), this.1, hmem]
        exact ⟨rfl, this.2⟩

/-- under distinct ids, removing the last position holding `i` is the filter of the list model -/
theorem removeLast_eq {evs : List (Ev D)} (hn : (evs.filterMap (·.id)).Nodup) (i : Int) :
    removeLast evs i =
      (evs.filter (fun x => decide (x.id ≠ some i)), decide (i ∈ evs.filterMap (·.id))) := by
  have hr : (evs.reverse.filterMap (·.id)).Nodup := by
    rw [List.filterMap_reverse]; exact nodup_reverse' hn
  have := erase_first evs.reverse i hr
  unfold removeLast
  simp only
  cases hf : evs.reverse.findIdx? (fun x => decide (x.id = some i)) with
  | none =>
    rw [hf] at this
    simp only
    rw [List.filter_reverse] at this
    have h1 := List.reverse_inj.mp this.1
    have h2 : i ∉ evs.filterMap (·.id) := by
      intro hh; apply this.2; rw [List.filterMap_reverse]; exact List.mem_reverse.mpr hh
    rw [h1]; simp [h2]
  | some k =>
    rw [hf] at this
    simp only
    rw [this.1, List.filter_reverse, List.reverse_reverse]
    have h2 : i ∈ evs.filterMap (·.id) := by
      have := this.2; rw [List.filterMap_reverse] at this; exact List.mem_reverse.mp this
    simp [h2]

theorem filter_ok {evs : List (Ev D)} (h : EvsOk evs) (p : Ev D → Bool) : EvsOk (evs.filter p) :=
  ⟨List.Nodup.sublist (List.Sublist.filterMap _ List.filter_sublist) h.1,
    fun x hx => h.2 x (List.mem_filter.mp hx).1⟩

/-- the last match is the first match when ids are distinct -/
theorem find_reverse {evs : List (Ev D)} (hn : (evs.filterMap (·.id)).Nodup) (i : Int) :
    evs.reverse.find? (fun x => decide (x.id = some i)) =
      evs.find? (fun x => decide (x.id = some i)) := by
  cases h1 : evs.find? (fun x => decide (x.id = some i)) with
  | none =>
    rw [List.find?_eq_none] at h1 ⊢
    intro x hx; exact h1 x (List.mem_reverse.mp hx)
  | some x =>
    have hx := List.mem_of_find?_eq_some h1
    have px : x.id = some i := by simpa using List.find?_some h1
    cases h2 : evs.reverse.find? (fun x => decide (x.id = some i)) with
    | none =>
      rw [List.find?_eq_none] at h2
      exact absurd (by simpa using px) (h2 x (List.mem_reverse.mpr hx))
    | some y =>
      have hy := List.mem_reverse.mp (List.mem_of_find?_eq_some h2)
      have py : y.id = some i := by simpa using List.find?_some h2
      rw [eq_of_id_eq hn hy hx py px]

/-! ## `sorted(db, key=timestamp)[-1]` -/

theorem mem_insertBy {α} (key : α → Int) (x y : α) (l : List α) :
    y ∈ insertBy key x l ↔ y = x ∨ y ∈ l := by
  induction l with
  | nil => simp [insertBy]
  | cons a t ih =>
    unfold insertBy
    by_cases h : key x ≤ key a
    · simp [h]
    · simp only [h, if_false, List.mem_cons, ih]
      constructor
      · rintro (h | h | h) <;> simp [h]
      · rintro (h | h | h) <;> simp [h]

theorem mem_sortBy {α} (key : α → Int) (y : α) (l : List α) : y ∈ sortBy key l ↔ y ∈ l := by
  induction l with
  | nil => simp [sortBy]
  | cons a t ih => simp only [sortBy, mem_insertBy, ih, List.mem_cons]

theorem insertBy_last {α} (key : α → Int) (x : α) (l : List α) :
    ((insertBy key x l).getLast? = some x ∧ ∀ y ∈ l, key y < key x) ∨
    (∃ t, l.getLast? = some t ∧ (insertBy key x l).getLast? = some t ∧ ∃ y ∈ l, key x ≤ key y) := by
  induction l with
  | nil => left; simp [insertBy]
  | cons a t ih =>
    unfold insertBy
    by_cases h : key x ≤ key a
    · right
      simp only [h, if_true]
      refine ⟨(t.getLast?.getD a), List.getLast?_cons, ?_, a, List.mem_cons_self, h⟩
      rw [List.getLast?_cons, List.getLast?_cons]; rfl
    · simp only [h, if_false]
      rcases ih with ⟨h1, h2⟩ | ⟨u, h1, h2, y, hy, hxy⟩
      · left
        refine ⟨by rw [List.getLast?_cons, h1]; rfl, ?_⟩
        intro y hy
        rcases List.mem_cons.mp hy with hy | hy
        · subst hy; omega
        · exact h2 y hy
      · right
        refine ⟨u, by rw [List.getLast?_cons, h1]; rfl, by rw [List.getLast?_cons, h2]; rfl,
          y, List.mem_cons_of_mem _ hy, hxy⟩

theorem sortBy_last {α} (key : α → Int) (l : List α) (hl : l ≠ []) :
    ∃ t, (sortBy key l).getLast? = some t ∧ t ∈ l ∧ ∀ y ∈ l, key y ≤ key t := by
  induction l with
  | nil => exact absurd rfl hl
  | cons a t ih =>
    simp only [sortBy]
    rcases insertBy_last key a (sortBy key t) with ⟨h1, h2⟩ | ⟨u, h1, h2, y, hy, hxy⟩
    · refine ⟨a, h1, List.mem_cons_self, ?_⟩
      intro y hy
      rcases List.mem_cons.mp hy with hy | hy
      · subst hy; omega
      · have := h2 y ((mem_sortBy key y t).mpr hy); omega
    · have ht : t ≠ [] := by
        intro e; subst e; simp [sortBy] at h1
      obtain ⟨u', hu1, hu2, hu3⟩ := ih ht
      rw [hu1] at h1
      have e := Option.some.inj h1
      rw [← e] at h2
      refine ⟨u', h2, List.mem_cons_of_mem _ hu2, ?_⟩
      intro z hz
      rcases List.mem_cons.mp hz with hz | hz
      · subst hz
        have := hu3 y ((mem_sortBy key y t).mp hy); omega
      · exact hu3 z hz

theorem newest_spec {evs : List (Ev D)} (h : evs ≠ []) :
    ∃ t, newest evs = some t ∧ Spec.IsNewest evs t :=
  let ⟨t, h1, h2, h3⟩ := sortBy_last (fun x : Ev D => x.ts) evs h
  ⟨t, h1, h2, h3⟩

/-! ## buckets -/

/-- the metadata `create_bucket` stores: `name` defaults to the bucket id when not truthy -/
def storedMeta (b : String) (m : Meta) : Meta :=
  { m with name := match truthy m.name with | some n => some n | none => some b }

theorem createBucket_inv {s : St D} (h : Inv s) (b : String) (m : Meta) :
    Inv (createBucket s b m) := setKey_inv h b evsOk_nil

/-- `create_bucket` always succeeds; an existing bucket is replaced and emptied -/
theorem createBucket_view {s : St D} (_h : Inv s) (b : String) (m : Meta) :
    view (createBucket s b m) = Spec.create (view s) b (storedMeta b m) :=
  view_setKey s b _

/-- truthy-only update of memory's `update_bucket` (`{}` is falsy) -/
def memApply (u : Upd) (m : Meta) : Meta :=
  { m with
    type := (truthy u.type).getD m.type
    client := (truthy u.client).getD m.client
    hostname := (truthy u.hostname).getD m.hostname
    name := match truthy u.name with | some n => some n | none => m.name
    data := match u.data with | some d => if d = "{}" then m.data else d | none => m.data }

theorem updateBucket_ok {s s' : St D} {b : String} {u : Upd} (hu : updateBucket s b u = .ok s') :
    ∃ m evs, lookup s b = some (m, evs) ∧ s' = setKey s b (memApply u m, evs) := by
  unfold updateBucket at hu
  cases hl : lookup s b with
  | none => rw [hl] at hu; cases hu
  | some p =>
    obtain ⟨m, evs⟩ := p
    rw [hl] at hu
    simp only [Except.ok.injEq] at hu
    exact ⟨m, evs, rfl, hu.symm⟩

theorem updateBucket_inv {s s' : St D} {b : String} {u : Upd} (h : Inv s)
    (hu : updateBucket s b u = .ok s') : Inv s' := by
  obtain ⟨m, evs, hl, rfl⟩ := updateBucket_ok hu
  have ho : EvsOk evs := inv_lookup (v := (m, evs)) h hl
  exact setKey_inv h b (v := (memApply u m, evs)) ho

theorem updateBucket_view {s s' : St D} {b : String} {u : Upd} (_h : Inv s)
    (hu : updateBucket s b u = .ok s') :
    (view s b).isSome ∧ view s' = Spec.update (view s) b (memApply u) := by
  obtain ⟨m, evs, hl, rfl⟩ := updateBucket_ok hu
  have hv : view s b = some (m, evs) := hl
  refine ⟨by rw [hv]; rfl, ?_⟩
  rw [view_setKey]
  unfold Spec.update
  rw [hv]

theorem updateBucket_missing {s : St D} {b : String} (_h : Inv s) (hb : view s b = none)
    (u : Upd) : updateBucket s b u = .error .valueError := by
  have hl : lookup s b = none := hb
  unfold updateBucket; rw [hl]

theorem deleteBucket_ok {s s' : St D} {b : String} (hd : deleteBucket s b = .ok s') :
    (lookup s b).isSome ∧ s' = s.filter (fun p => decide (p.1 ≠ b)) := by
  unfold deleteBucket at hd
  cases hl : lookup s b with
  | none => rw [hl] at hd; cases hd
  | some p =>
    rw [hl] at hd
    simp only [Except.ok.injEq] at hd
    exact ⟨rfl, hd.symm⟩

theorem deleteBucket_inv {s s' : St D} {b : String} (h : Inv s)
    (hd : deleteBucket s b = .ok s') : Inv s' := by
  obtain ⟨_, rfl⟩ := deleteBucket_ok hd
  exact filter_inv h b

theorem deleteBucket_view {s s' : St D} {b : String} (_h : Inv s)
    (hd : deleteBucket s b = .ok s') :
    (view s b).isSome ∧ view s' = Spec.deleteBucket (view s) b := by
  obtain ⟨h1, rfl⟩ := deleteBucket_ok hd
  exact ⟨h1, view_filter s b⟩

theorem deleteBucket_missing {s : St D} {b : String} (_h : Inv s) (hb : view s b = none) :
    deleteBucket s b = .error .valueError := by
  have hl : lookup s b = none := hb
  unfold deleteBucket; rw [hl]

theorem getMetadata_eq {s : St D} (_h : Inv s) (b : String) :
    getMetadata s b =
      (match view s b with | some (m, _) => .ok m | none => .error .valueError) := by
  unfold getMetadata view
  cases lookup s b with
  | none => rfl
  | some p => rfl

theorem bucketsOf_eq {s : St D} (h : Inv s) (b : String) (m : Meta) :
    (b, m) ∈ bucketsOf s ↔ ∃ es, view s b = some (m, es) := by
  unfold bucketsOf view
  rw [List.mem_map]
  constructor
  · rintro ⟨p, hp, he⟩
    obtain ⟨k, m', es⟩ := p
    simp only [Prod.mk.injEq] at he
    obtain ⟨rfl, rfl⟩ := he
    exact ⟨es, lookup_of_mem h.1 hp⟩
  · rintro ⟨es, hl⟩
    exact ⟨(b, (m, es)), lookup_mem hl, rfl⟩

/-! ## events -/

theorem ids_nodup {s : St D} {b : String} {m : Meta} {es : List (Ev D)} (h : Inv s)
    (hv : view s b = some (m, es)) : (es.filterMap (·.id)).Nodup ∧ ∀ x ∈ es, x.id.isSome :=
  inv_lookup (v := (m, es)) h hv

theorem view_onEvents {s : St D} {b : String} {m : Meta} {evs : List (Ev D)}
    (hl : lookup s b = some (m, evs)) (f : List (Ev D) → List (Ev D)) :
    view (setKey s b (m, f evs)) = Spec.onEvents (view s) b f := by
  have hv : view s b = some (m, evs) := hl
  rw [view_setKey]
  unfold Spec.onEvents
  rw [hv]

theorem replace_ok {s s' : St D} {b : String} {i : Int} {e : Ev D}
    (hr : replace s b i e = .ok s') :
    ∃ m evs, lookup s b = some (m, evs) ∧ s' = setKey s b (m, replaceIn evs i e) := by
  unfold replace at hr
  cases hl : lookup s b with
  | none => rw [hl] at hr; cases hr
  | some p =>
    obtain ⟨m, evs⟩ := p
    rw [hl] at hr
    simp only [Except.ok.injEq] at hr
    exact ⟨m, evs, rfl, hr.symm⟩

theorem replace_inv {s s' : St D} {b : String} {i : Int} {e : Ev D} (h : Inv s)
    (hr : replace s b i e = .ok s') : Inv s' := by
  obtain ⟨m, evs, hl, rfl⟩ := replace_ok hr
  exact setKey_inv h b (replaceIn_ok (inv_lookup h hl) i e)

/-- for ANY id `i` (of this bucket, of another bucket, or of none) -/
theorem replace_view {s s' : St D} {b : String} {i : Int} {e : Ev D} (_h : Inv s)
    (hr : replace s b i e = .ok s') : view s' = Spec.replaceId (view s) b i e := by
  obtain ⟨m, evs, hl, rfl⟩ := replace_ok hr
  exact view_onEvents hl (fun es => replaceIn es i e)

theorem replace_missing {s : St D} {b : String} (_h : Inv s) (hb : view s b = none)
    (i : Int) (e : Ev D) : replace s b i e = .error .keyError := by
  have hl : lookup s b = none := hb
  unfold replace; rw [hl]

theorem replace_exists {s : St D} {b : String} (_h : Inv s) (hb : (view s b).isSome)
    (i : Int) (e : Ev D) : ∃ s', replace s b i e = .ok s' := by
  unfold replace
  cases hl : lookup s b with
  | none => have : view s b = none := hl; rw [this] at hb; cases hb
  | some p => exact ⟨_, rfl⟩

theorem insertOne_new_ok {s s' : St D} {b : String} {e : Ev D} {oi : Option Int}
    (he : e.id = none) (hi : insertOne s b e = .ok (s', oi)) :
    ∃ m evs, lookup s b = some (m, evs) ∧ oi = some (nextId evs) ∧
      s' = setKey s b (m, evs ++ [{ e with id := some (nextId evs) }]) := by
  unfold insertOne at hi
  rw [he] at hi
  simp only at hi
  cases hl : lookup s b with
  | none => rw [hl] at hi; cases hi
  | some p =>
    obtain ⟨m, evs⟩ := p
    rw [hl] at hi
    simp only [Except.ok.injEq, Prod.mk.injEq] at hi
    exact ⟨m, evs, rfl, hi.2.symm, hi.1.symm⟩

theorem insertOne_carry_ok {s s' : St D} {b : String} {e : Ev D} {i : Int} {oi : Option Int}
    (he : e.id = some i) (hi : insertOne s b e = .ok (s', oi)) :
    oi = some i ∧ replace s b i e = .ok s' := by
  unfold insertOne at hi
  rw [he] at hi
  simp only at hi
  cases hr : replace s b i e with
  | error x => rw [hr] at hi; cases hi
  | ok s'' =>
    rw [hr] at hi
    simp only [Except.map, Except.ok.injEq, Prod.mk.injEq] at hi
    exact ⟨hi.2.symm, by rw [hi.1]⟩

theorem insertOne_inv {s s' : St D} {b : String} {e : Ev D} {oi : Option Int} (h : Inv s)
    (hi : insertOne s b e = .ok (s', oi)) : Inv s' := by
  cases he : e.id with
  | none =>
    obtain ⟨m, evs, hl, _, rfl⟩ := insertOne_new_ok he hi
    exact setKey_inv h b (append_ok (inv_lookup h hl) e (nextId_not_mem evs))
  | some i => exact replace_inv h (insertOne_carry_ok he hi).2

/-- an event without id is appended under an id fresh in THIS bucket -/
theorem insertOne_view' {s s' : St D} {b : String} {e : Ev D} {oi : Option Int} (_h : Inv s)
    (he : e.id = none) (hi : insertOne s b e = .ok (s', oi)) :
    ∃ i, oi = some i ∧ (view s b).isSome ∧ view s' = Spec.insert (view s) b i e ∧
      i ∉ Spec.ids (view s) b := by
  obtain ⟨m, evs, hl, ho, rfl⟩ := insertOne_new_ok he hi
  have hv : view s b = some (m, evs) := hl
  refine ⟨nextId evs, ho, by rw [hv]; rfl, ?_, ?_⟩
  · exact view_onEvents hl (fun es => es ++ [{ e with id := some (nextId evs) }])
  · unfold Spec.ids; rw [hv]; exact nextId_not_mem evs

theorem insertOne_view {s s' : St D} {b : String} {e : Ev D} {i : Int} (h : Inv s)
    (he : e.id = none) (hi : insertOne s b e = .ok (s', some i)) :
    (view s b).isSome ∧ view s' = Spec.insert (view s) b i e ∧ i ∉ Spec.ids (view s) b := by
  obtain ⟨j, hj, h1, h2, h3⟩ := insertOne_view' h he hi
  cases hj
  exact ⟨h1, h2, h3⟩

/-- an event carrying an id is a `replace` (nothing happens if the bucket has no such id) -/
theorem insertOne_carry_view {s s' : St D} {b : String} {e : Ev D} {i : Int} {oi : Option Int}
    (h : Inv s) (he : e.id = some i) (hi : insertOne s b e = .ok (s', oi)) :
    oi = some i ∧ (view s b).isSome ∧ view s' = Spec.replaceId (view s) b i e := by
  obtain ⟨h1, h2⟩ := insertOne_carry_ok he hi
  refine ⟨h1, ?_, replace_view h h2⟩
  obtain ⟨m, evs, hl, _⟩ := replace_ok h2
  have hv : view s b = some (m, evs) := hl
  rw [hv]; rfl

theorem insertOne_missing {s : St D} {b : String} (_h : Inv s) (hb : view s b = none)
    (e : Ev D) : insertOne s b e = .error .keyError := by
  have hl : lookup s b = none := hb
  unfold insertOne replace
  cases e.id with
  | none => simp only; rw [hl]
  | some i => simp only; rw [hl]; rfl

theorem delete_ok {s s' : St D} {b : String} {i : Int} {r : Bool}
    (hd : delete s b i = .ok (s', r)) :
    ∃ m evs, lookup s b = some (m, evs) ∧ s' = setKey s b (m, (removeLast evs i).1) ∧
      r = (removeLast evs i).2 := by
  unfold delete at hd
  cases hl : lookup s b with
  | none => rw [hl] at hd; cases hd
  | some p =>
    obtain ⟨m, evs⟩ := p
    rw [hl] at hd
    simp only [Except.ok.injEq, Prod.mk.injEq] at hd
    exact ⟨m, evs, rfl, hd.1.symm, hd.2.symm⟩

theorem delete_inv {s s' : St D} {b : String} {i : Int} {r : Bool} (h : Inv s)
    (hd : delete s b i = .ok (s', r)) : Inv s' := by
  obtain ⟨m, evs, hl, rfl, _⟩ := delete_ok hd
  have ho := inv_lookup h hl
  rw [removeLast_eq ho.1]
  exact setKey_inv h b (filter_ok ho _)

/-- for ANY id `i`; the flag says whether the bucket had it -/
theorem delete_view {s s' : St D} {b : String} {i : Int} {r : Bool} (h : Inv s)
    (hd : delete s b i = .ok (s', r)) :
    view s' = Spec.delete (view s) b i ∧ (r = true ↔ i ∈ Spec.ids (view s) b) := by
  obtain ⟨m, evs, hl, rfl, rfl⟩ := delete_ok hd
  have ho := inv_lookup h hl
  have hv : view s b = some (m, evs) := hl
  rw [removeLast_eq ho.1]
  refine ⟨view_onEvents hl (fun es => es.filter (fun x => decide (x.id ≠ some i))), ?_⟩
  unfold Spec.ids; rw [hv]; simp

theorem delete_missing {s : St D} {b : String} (_h : Inv s) (hb : view s b = none) (i : Int) :
    delete s b i = .error .keyError := by
  have hl : lookup s b = none := hb
  unfold delete; rw [hl]

theorem getEvent_eq {s : St D} {b : String} {m : Meta} {es : List (Ev D)} (h : Inv s)
    (hv : view s b = some (m, es)) (i : Int) :
    getEvent s b i = .ok (es.find? (fun x => decide (x.id = some i))) := by
  have hl : lookup s b = some (m, es) := hv
  unfold getEvent; rw [hl]
  simp only
  rw [find_reverse (inv_lookup h hl).1]

theorem getEvent_missing {s : St D} {b : String} (_h : Inv s) (hb : view s b = none) (i : Int) :
    getEvent s b i = .error .keyError := by
  have hl : lookup s b = none := hb
  unfold getEvent; rw [hl]

theorem replaceLast_ok {s s' : St D} {b : String} {e : Ev D} (hr : replaceLast s b e = .ok s') :
    ∃ m evs l, lookup s b = some (m, evs) ∧ newest evs = some l ∧
      s' = setKey s b (m, replaceIn evs (l.id.getD 0) e) := by
  unfold replaceLast at hr
  cases hl : lookup s b with
  | none => rw [hl] at hr; cases hr
  | some p =>
    obtain ⟨m, evs⟩ := p
    rw [hl] at hr
    simp only at hr
    cases hn : newest evs with
    | none => rw [hn] at hr; cases hr
    | some l =>
      rw [hn] at hr
      simp only [Except.ok.injEq] at hr
      exact ⟨m, evs, l, rfl, hn, hr.symm⟩

theorem replaceLast_inv {s s' : St D} {b : String} {e : Ev D} (h : Inv s)
    (hr : replaceLast s b e = .ok s') : Inv s' := by
  obtain ⟨m, evs, l, hl, _, rfl⟩ := replaceLast_ok hr
  exact setKey_inv h b (replaceIn_ok (inv_lookup h hl) _ e)

/-- `replace_last` rewrites the event a `get_events(limit=1)` returns, a newest one -/
theorem replaceLast_view {s : St D} {b : String} {m : Meta} {es : List (Ev D)} (_h : Inv s)
    (hv : view s b = some (m, es)) (hne : es ≠ []) (e : Ev D) :
    ∃ t s', Spec.IsNewest es t ∧ getEvents s b 1 none none = .ok [t] ∧
      replaceLast s b e = .ok s' ∧ view s' = Spec.replaceId (view s) b (t.id.getD 0) e := by
  have hl : lookup s b = some (m, es) := hv
  obtain ⟨t, hn, hnew⟩ := newest_spec hne
  refine ⟨t, setKey s b (m, replaceIn es (t.id.getD 0) e), hnew, ?_, ?_, ?_⟩
  · unfold getEvents; rw [hl]
    simp only
    unfold newest at hn
    obtain ⟨ys, hys⟩ := List.getLast?_eq_some_iff.mp hn
    rw [hys]
    simp [applyLimit]
  · unfold replaceLast; rw [hl]; simp only; rw [hn]
  · exact view_onEvents hl (fun es => replaceIn es (t.id.getD 0) e)

theorem replaceLast_missing {s : St D} {b : String} (_h : Inv s) (hb : view s b = none)
    (e : Ev D) : replaceLast s b e = .error .keyError := by
  have hl : lookup s b = none := hb
  unfold replaceLast; rw [hl]

theorem replaceLast_empty {s : St D} {b : String} {m : Meta} (_h : Inv s)
    (hb : view s b = some (m, [])) (e : Ev D) : replaceLast s b e = .error .indexError := by
  have hl : lookup s b = some (m, []) := hb
  unfold replaceLast; rw [hl]; rfl

/-! ## `insert_many` -/

theorem onEvents_comp (v : View D) (b : String) (f g : List (Ev D) → List (Ev D)) :
    Spec.onEvents (Spec.onEvents v b f) b g = Spec.onEvents v b (fun es => g (f es)) := by
  cases hv : v b with
  | none =>
    have : Spec.onEvents v b f = v := by unfold Spec.onEvents; rw [hv]
    rw [this]; unfold Spec.onEvents; rw [hv]
  | some p =>
    obtain ⟨m, es⟩ := p
    have h1 : Spec.onEvents v b f = Spec.setB v b (some (m, f es)) := by
      unfold Spec.onEvents; rw [hv]
    have h2 : Spec.onEvents v b (fun es => g (f es)) = Spec.setB v b (some (m, g (f es))) := by
      unfold Spec.onEvents; rw [hv]
    rw [h1, h2]
    unfold Spec.onEvents
    have h3 : Spec.setB v b (some (m, f es)) b = some (m, f es) := by simp [Spec.setB]
    rw [h3]
    funext b'
    by_cases hb : b' = b <;> simp [Spec.setB, hb]

theorem onEvents_congr (v : View D) (b : String) {f g : List (Ev D) → List (Ev D)}
    (h : ∀ m es, v b = some (m, es) → f es = g es) : Spec.onEvents v b f = Spec.onEvents v b g := by
  unfold Spec.onEvents
  cases hv : v b with
  | none => rfl
  | some p => obtain ⟨m, es⟩ := p; simp only; rw [h m es hv]

theorem ids_onEvents (v : View D) (b : String) (f : List (Ev D) → List (Ev D)) :
    Spec.ids (Spec.onEvents v b f) b =
      match v b with
      | some (_, es) => (f es).filterMap (·.id)
      | none => [] := by
  unfold Spec.ids Spec.onEvents
  cases hv : v b with
  | none => simp [hv]
  | some p => simp [Spec.setB]

theorem ids_replaceId (v : View D) (b : String) (i : Int) (e : Ev D) :
    Spec.ids (Spec.replaceId v b i e) b = Spec.ids v b := by
  unfold Spec.replaceId
  rw [ids_onEvents]
  unfold Spec.ids
  cases v b with
  | none => rfl
  | some p => exact replaceIn_ids p.2 i e

theorem mem_ids_insert {v : View D} {b : String} (hb : (v b).isSome) (j : Int) (e : Ev D)
    (i : Int) : i ∈ Spec.ids (Spec.insert v b j e) b ↔ i ∈ Spec.ids v b ∨ i = j := by
  unfold Spec.insert
  rw [ids_onEvents]
  unfold Spec.ids
  cases hv : v b with
  | none => rw [hv] at hb; cases hb
  | some p => simp [List.filterMap_append, eq_comm]

/-- an insert commutes with a replace of another id -/
theorem replaceId_insert (v : View D) (b : String) {i j : Int} (hij : i ≠ j) (e x : Ev D) :
    Spec.replaceId (Spec.insert v b j x) b i e = Spec.insert (Spec.replaceId v b i e) b j x := by
  unfold Spec.replaceId Spec.insert
  rw [onEvents_comp, onEvents_comp]
  apply onEvents_congr
  intro m es _
  have : ¬ j = i := fun h => hij h.symm
  simp [this]

/-- the interleaved run of `insert_many` on the list model: an event carrying an id rewrites that
    id, an event without id is appended under the next id of `js` -/
def seqFold (b : String) : List (Ev D) → List Int → View D → View D
  | [], _, v => v
  | e :: es, js, v =>
    match e.id with
    | some i => seqFold b es js (Spec.replaceId v b i e)
    | none =>
      match js with
      | j :: js => seqFold b es js (Spec.insert v b j e)
      | [] => v

theorem filter_none_cons_some {e : Ev D} {i : Int} (he : e.id = some i) (es : List (Ev D)) :
    (e :: es).filter (·.id.isNone) = es.filter (·.id.isNone) := by
  simp [he]

theorem filter_some_cons_some {e : Ev D} {i : Int} (he : e.id = some i) (es : List (Ev D)) :
    (e :: es).filter (·.id.isSome) = e :: es.filter (·.id.isSome) := by
  simp [he]

theorem filter_none_cons_none {e : Ev D} (he : e.id = none) (es : List (Ev D)) :
    (e :: es).filter (·.id.isNone) = e :: es.filter (·.id.isNone) := by
  simp [he]

theorem filter_some_cons_none {e : Ev D} (he : e.id = none) (es : List (Ev D)) :
    (e :: es).filter (·.id.isSome) = es.filter (·.id.isSome) := by
  simp [he]

theorem insertMany_cons {s s' : St D} {b : String} {e : Ev D} {es : List (Ev D)}
    (h : insertMany s b (e :: es) = .ok s') :
    ∃ s1 oi, insertOne s b e = .ok (s1, oi) ∧ insertMany s1 b es = .ok s' := by
  unfold insertMany at h
  cases hi : insertOne s b e with
  | error x => rw [hi] at h; cases h
  | ok p => obtain ⟨s1, oi⟩ := p; rw [hi] at h; exact ⟨s1, oi, rfl, h⟩

theorem insertMany_inv {s s' : St D} {b : String} {es : List (Ev D)} (h : Inv s)
    (hm : insertMany s b es = .ok s') : Inv s' := by
  induction es generalizing s with
  | nil => unfold insertMany at hm; cases hm; exact h
  | cons e es ih =>
    obtain ⟨s1, oi, h1, h2⟩ := insertMany_cons hm
    exact ih (insertOne_inv h h1) h2

/-- `insert_many` is the interleaved run on the list model, with ids fresh in THIS bucket
    (no precondition on the events: ids of other buckets, unknown ids, missing ids, any mix) -/
theorem insertMany_view_seq {s s' : St D} {b : String} {es : List (Ev D)} (h : Inv s)
    (hm : insertMany s b es = .ok s') :
    ∃ ids : List Int, ids.length = (es.filter (·.id.isNone)).length ∧ ids.Nodup ∧
      (∀ i ∈ ids, i ∉ Spec.ids (view s) b) ∧ view s' = seqFold b es ids (view s) := by
  induction es generalizing s with
  | nil =>
    unfold insertMany at hm; cases hm
    exact ⟨[], rfl, List.nodup_nil, fun i hi => (by cases hi), rfl⟩
  | cons e es ih =>
    obtain ⟨s1, oi, h1, h2⟩ := insertMany_cons hm
    obtain ⟨ids, hlen, hnd, hfresh, hview⟩ := ih (insertOne_inv h h1) h2
    cases he : e.id with
    | some i =>
      obtain ⟨_, _, hv1⟩ := insertOne_carry_view h he h1
      refine ⟨ids, ?_, hnd, ?_, ?_⟩
      · rw [hlen, filter_none_cons_some he]
      · intro k hk; have := hfresh k hk; rw [hv1, ids_replaceId] at this; exact this
      · rw [hview, hv1]; simp only [seqFold, he]
    | none =>
      obtain ⟨j, _, hsome, hv1, hj⟩ := insertOne_view' h he h1
      refine ⟨j :: ids, ?_, ?_, ?_, ?_⟩
      · rw [filter_none_cons_none he, List.length_cons, List.length_cons, hlen]
      · rw [List.nodup_cons]
        refine ⟨?_, hnd⟩
        intro hjm
        apply hfresh j hjm
        rw [hv1, mem_ids_insert hsome]; exact Or.inr rfl
      · intro k hk
        rcases List.mem_cons.mp hk with hk | hk
        · rw [hk]; exact hj
        · intro hmem
          apply hfresh k hk
          rw [hv1, mem_ids_insert hsome]; exact Or.inl hmem
      · rw [hview, hv1]; simp only [seqFold, he]

theorem foldl_replaceId_insert (b : String) (cs : List (Ev D)) (v : View D) (j : Int) (x : Ev D)
    (hc : ∀ e ∈ cs, e.id.getD 0 ≠ j) :
    cs.foldl (fun v e => Spec.replaceId v b (e.id.getD 0) e) (Spec.insert v b j x) =
      Spec.insert (cs.foldl (fun v e => Spec.replaceId v b (e.id.getD 0) e) v) b j x := by
  induction cs generalizing v with
  | nil => rfl
  | cons c cs ih =>
    simp only [List.foldl_cons]
    rw [replaceId_insert v b (hc c List.mem_cons_self), ih]
    intro e he; exact hc e (List.mem_cons_of_mem _ he)

/-- when no carried id is one of the fresh ids, the interleaved run is: all replaces, then all
    inserts -/
theorem seqFold_eq_folds (b : String) (es : List (Ev D)) (js : List Int) (v : View D)
    (hlen : js.length = (es.filter (·.id.isNone)).length)
    (hc : ∀ e ∈ es, ∀ i, e.id = some i → i ∉ js) :
    seqFold b es js v =
      ((es.filter (·.id.isNone)).zip js).foldl (fun v p => Spec.insert v b p.2 p.1)
        ((es.filter (·.id.isSome)).foldl (fun v e => Spec.replaceId v b (e.id.getD 0) e) v) := by
  induction es generalizing js v with
  | nil => simp [seqFold]
  | cons e es ih =>
    cases he : e.id with
    | some i =>
      rw [filter_none_cons_some he, filter_some_cons_some he]
      rw [filter_none_cons_some he] at hlen
      simp only [seqFold, he, List.foldl_cons, Option.getD_some]
      exact ih js _ hlen (fun e' he' => hc e' (List.mem_cons_of_mem _ he'))
    | none =>
      rw [filter_none_cons_none he, filter_some_cons_none he]
      rw [filter_none_cons_none he] at hlen
      cases js with
      | nil => simp at hlen
      | cons j js =>
        simp only [List.length_cons, Nat.add_right_cancel_iff] at hlen
        simp only [seqFold, he, List.zip_cons_cons, List.foldl_cons]
        rw [ih js _ hlen (fun e' he' i hi hm =>
          hc e' (List.mem_cons_of_mem _ he') i hi (List.mem_cons_of_mem _ hm))]
        rw [foldl_replaceId_insert]
        intro c hcm
        have hcm' := List.mem_filter.mp hcm
        cases hci : c.id with
        | none => rw [hci] at hcm'; simp at hcm'
        | some i =>
          simp only [Option.getD_some]
          intro hij
          exact hc c (List.mem_cons_of_mem _ hcm'.1) i hci (hij ▸ List.mem_cons_self)

/-- the two-fold form holds as soon as no event of the batch carries one of the ids the batch
    itself assigns -/
theorem insertMany_view_cond {s s' : St D} {b : String} {es : List (Ev D)} (h : Inv s)
    (_hb : (view s b).isSome) (hm : insertMany s b es = .ok s') :
    ∃ ids : List Int, ids.length = (es.filter (·.id.isNone)).length ∧ ids.Nodup ∧
      (∀ i ∈ ids, i ∉ Spec.ids (view s) b) ∧
      ((∀ e ∈ es, ∀ i, e.id = some i → i ∉ ids) →
        view s' =
          ((es.filter (·.id.isNone)).zip ids).foldl (fun v p => Spec.insert v b p.2 p.1)
            ((es.filter (·.id.isSome)).foldl
              (fun v e => Spec.replaceId v b (e.id.getD 0) e) (view s))) := by
  obtain ⟨ids, hlen, hnd, hfresh, hview⟩ := insertMany_view_seq h hm
  exact ⟨ids, hlen, hnd, hfresh, fun hc => by rw [hview, seqFold_eq_folds b es ids _ hlen hc]⟩

/-- the requested statement, under the extra hypothesis that every id carried by an event of the
    batch is already an id of the bucket (it is FALSE without: `insertMany_view_false`) -/
theorem insertMany_view_partial {s s' : St D} {b : String} {es : List (Ev D)} (h : Inv s)
    (hb : (view s b).isSome) (hm : insertMany s b es = .ok s')
    (hc : ∀ e ∈ es, ∀ i, e.id = some i → i ∈ Spec.ids (view s) b) :
    ∃ ids : List Int, ids.length = (es.filter (·.id.isNone)).length ∧ ids.Nodup ∧
      (∀ i ∈ ids, i ∉ Spec.ids (view s) b) ∧
      view s' =
        ((es.filter (·.id.isNone)).zip ids).foldl (fun v p => Spec.insert v b p.2 p.1)
          ((es.filter (·.id.isSome)).foldl
            (fun v e => Spec.replaceId v b (e.id.getD 0) e) (view s)) := by
  obtain ⟨ids, hlen, hnd, hfresh, hview⟩ := insertMany_view_cond h hb hm
  exact ⟨ids, hlen, hnd, hfresh, hview (fun e he i hi hmem => hfresh i hmem (hc e he i hi))⟩

/-- a batch of events without ids: plain appends under fresh ids -/
theorem insertMany_view_new {s s' : St D} {b : String} {es : List (Ev D)} (h : Inv s)
    (hb : (view s b).isSome) (hm : insertMany s b es = .ok s')
    (hc : ∀ e ∈ es, e.id = none) :
    ∃ ids : List Int, ids.length = es.length ∧ ids.Nodup ∧
      (∀ i ∈ ids, i ∉ Spec.ids (view s) b) ∧
      view s' = (es.zip ids).foldl (fun v p => Spec.insert v b p.2 p.1) (view s) := by
  obtain ⟨ids, hlen, hnd, hfresh, hview⟩ := insertMany_view_cond h hb hm
  have h1 : es.filter (·.id.isNone) = es :=
    List.filter_eq_self.mpr (fun e he => by rw [hc e he]; rfl)
  have h2 : es.filter (·.id.isSome) = [] :=
    List.filter_eq_nil_iff.mpr (fun e he => by rw [hc e he]; simp)
  rw [h1] at hlen
  refine ⟨ids, hlen, hnd, hfresh, ?_⟩
  have := hview (fun e he i hi => by rw [hc e he] at hi; cases hi)
  rw [h1, h2] at this
  exact this

theorem insertMany_missing {s : St D} {b : String} (h : Inv s) (hb : view s b = none)
    (e : Ev D) (es : List (Ev D)) : insertMany s b (e :: es) = .error .keyError := by
  unfold insertMany
  rw [insertOne_missing h hb]

/-! ## the two-fold form of `insert_many` is false without the extra hypothesis

An empty bucket and the batch `[event without id, event carrying id 0]`: the first event is stored
under the fresh id 0 and the second event then REPLACES it; in the two-fold form the replace of
id 0 runs first (on the empty list, a no-op) and the first event survives. -/

def cexMeta : Meta := ⟨none, "t", "c", "h", "2020", "{}"⟩
def cexSt : St Nat := createBucket [] "b" cexMeta
def cexNew : Ev Nat := ⟨none, 0, 0, 1⟩
def cexCarry : Ev Nat := ⟨some 0, 0, 0, 2⟩

/-- what the model does on the witness -/
example : insertMany cexSt "b" [cexNew, cexCarry] =
    .ok [("b", (storedMeta "b" cexMeta, [⟨some 0, 0, 0, 2⟩]))] := rfl

theorem insertMany_view_false :
    ¬ ∀ (s s' : St Nat) (b : String) (es : List (Ev Nat)), Inv s → (view s b).isSome →
        insertMany s b es = .ok s' →
        ∃ ids : List Int, ids.length = (es.filter (·.id.isNone)).length ∧ ids.Nodup ∧
          (∀ i ∈ ids, i ∉ Spec.ids (view s) b) ∧
          view s' =
            ((es.filter (·.id.isNone)).zip ids).foldl (fun v p => Spec.insert v b p.2 p.1)
              ((es.filter (·.id.isSome)).foldl
                (fun v e => Spec.replaceId v b (e.id.getD 0) e) (view s)) := by
  intro H
  obtain ⟨ids, hlen, _, _, hv⟩ :=
    H cexSt [("b", (storedMeta "b" cexMeta, [⟨some 0, 0, 0, 2⟩]))] "b" [cexNew, cexCarry]
      (createBucket_inv inv_init _ _) rfl rfl
  match ids, hlen with
  | [j], _ =>
    have := congrFun hv "b"
    simp [view, lookup, cexSt, cexNew, cexCarry, createBucket, setKey, Spec.insert, Spec.replaceId,
      Spec.onEvents, Spec.setB] at this

/-! ## the hypotheses are satisfiable: a concrete state with two buckets (ids are per bucket) -/

def exMeta : Meta := ⟨some "n", "t", "c", "h", "2020", "{}"⟩
def exEvs : List (Ev Nat) := [⟨some 0, 5, 1, 20⟩, ⟨some 1, 9, 1, 21⟩, ⟨some 2, 9, 0, 22⟩]
def exSt : St Nat := [("a", (exMeta, [⟨some 0, 1, 1, 10⟩])), ("b", (exMeta, exEvs))]

theorem exSt_inv : Inv exSt := by
  simp [Inv, EvsOk, exSt, exEvs]

example : Inv exSt ∧ view exSt "b" = some (exMeta, exEvs) ∧ exEvs ≠ [] :=
  ⟨exSt_inv, rfl, by simp [exEvs]⟩
example : Inv exSt ∧ view exSt "zz" = none := ⟨exSt_inv, rfl⟩
/-- `create_bucket` on an existing bucket replaces and empties it; a falsy name defaults to the id -/
example : view (createBucket exSt "b" { exMeta with name := some "" }) "b" =
    some ({ exMeta with name := some "b" }, []) := rfl
example : ∃ s', updateBucket exSt "b" { name := some "x", type := some "" } = .ok s' := ⟨_, rfl⟩
example : ∃ s', deleteBucket exSt "a" = .ok s' := ⟨_, rfl⟩
example : (⟨none, 7, 1, 30⟩ : Ev Nat).id = none ∧
    ∃ s', insertOne exSt "b" ⟨none, 7, 1, 30⟩ = .ok (s', some 3) := ⟨rfl, _, rfl⟩
example : ∃ s', insertOne exSt "a" ⟨none, 7, 1, 30⟩ = .ok (s', some 1) := ⟨_, rfl⟩
example : (∃ s', replace exSt "b" 1 ⟨none, 7, 1, 30⟩ = .ok s') ∧
    (∃ s', replace exSt "a" 2 ⟨some 5, 7, 1, 30⟩ = .ok s') := ⟨⟨_, rfl⟩, ⟨_, rfl⟩⟩
example : (∃ s', delete exSt "b" 1 = .ok (s', true)) ∧ (∃ s', delete exSt "a" 1 = .ok (s', false)) :=
  ⟨⟨_, rfl⟩, ⟨_, rfl⟩⟩
example : getEvents exSt "b" 1 none none = .ok [⟨some 2, 9, 0, 22⟩] := rfl
example : (view exSt "b").isSome ∧
    (∃ s', insertMany exSt "b" [⟨none, 7, 1, 30⟩, ⟨some 1, 8, 1, 31⟩, ⟨none, 7, 1, 32⟩] = .ok s') ∧
    (∀ e ∈ ([⟨none, 7, 1, 30⟩, ⟨some 1, 8, 1, 31⟩, ⟨none, 7, 1, 32⟩] : List (Ev Nat)),
      ∀ i, e.id = some i → i ∈ Spec.ids (view exSt) "b") :=
  ⟨rfl, ⟨_, rfl⟩, by simp [Spec.ids, view, lookup, exSt, exEvs]⟩

end Aw.Store.Memory
