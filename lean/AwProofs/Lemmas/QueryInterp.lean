import AwProofs.Lemmas.QueryParse
import AwModel.Query.Interp
/-! Error kinds of name / arity / type resolution and of a whole query run. -/
namespace Aw.Query

/-- the query-error family -/
def IsQueryErr (e : Err) : Prop := (∃ m, e = .parse m) ∨ (∃ m, e = .interp m) ∨ (∃ m, e = .func m)

/-- only query errors come out of `r` -/
def QErr {α} (r : Except Err α) : Prop := ∀ e, r = .error e → IsQueryErr e

/-- the builtin bodies raise only query errors — or `TypeError`, which `QFunction.interpret` turns into a
    `QueryInterpretException` whatever raised it (`catchTypeError`) -/
def ApplyQ (apply : Apply) : Prop := ∀ n a, QErr (catchTypeError (apply n a))

theorem qerr_ok {α} (a : α) : QErr (.ok a : Except Err α) := by intro e h; cases h
theorem qerr_interp {α} (m : String) : QErr (.error (.interp m) : Except Err α) := by
  intro e h; cases h; exact Or.inr (Or.inl ⟨m, rfl⟩)
theorem qerr_parse {α} (m : String) : QErr (.error (.parse m) : Except Err α) := by
  intro e h; cases h; exact Or.inl ⟨m, rfl⟩
theorem qerr_of_onlyParse {α} {r : Except Err α} (h : OnlyParse r) : QErr r := by
  intro e he; exact Or.inl (h e he)
theorem qerr_map {α β} {r : Except Err α} (f : α → β) (h : QErr r) : QErr (r.map f) := by
  intro e he
  cases r with
  | error e' => simp [Except.map] at he; subst he; exact h e' rfl
  | ok a => simp [Except.map] at he

/-- position `i` is a parameter `q2_typecheck` checks and the argument there has another type -/
def Mismatch (ps : List Param) (as : List Val) : Prop :=
  ∃ (i : Nat) (p : Param) (a : Val), ps[i]? = some p ∧ as[i]? = some a ∧
    p.kind.checked = true ∧ p.required = true ∧ typeOk p.kind a = false

theorem typecheck_error {ps : List Param} {as : List Val} {e : Err} (h : typecheck ps as = .error e) :
    ∃ m, e = .func m := by
  induction ps generalizing as with
  | nil => simp [typecheck] at h
  | cons p ps ih =>
    cases as with
    | nil => simp [typecheck] at h
    | cons a as =>
      rw [typecheck] at h
      split at h
      · cases h; exact ⟨_, rfl⟩
      · exact ih h

theorem typecheck_ok_or_error (ps : List Param) (as : List Val) :
    typecheck ps as = .ok () ∨ ∃ m, typecheck ps as = .error (.func m) := by
  cases h : typecheck ps as with
  | ok u => left; rfl
  | error e => right; obtain ⟨m, rfl⟩ := typecheck_error h; exact ⟨m, rfl⟩

theorem typecheck_mismatch {ps : List Param} {as : List Val} (h : Mismatch ps as) :
    ∃ m, typecheck ps as = .error (.func m) := by
  obtain ⟨i, p, a, hp, ha, h1, h2, h3⟩ := h
  induction ps generalizing as i with
  | nil => simp at hp
  | cons p0 ps ih =>
    cases as with
    | nil => simp at ha
    | cons a0 as =>
      rw [typecheck]
      split
      · exact ⟨_, rfl⟩
      · cases i with
        | zero =>
          simp at hp ha
          subst hp; subst ha
          rename_i hn
          exact absurd ⟨h1, h2, h3⟩ hn
        | succ j =>
          simp at hp ha
          exact ih j hp ha

theorem typecheck_ok_no_mismatch {ps : List Param} {as : List Val} (h : typecheck ps as = .ok ()) :
    ¬ Mismatch ps as := by
  intro hm
  obtain ⟨m, hm⟩ := typecheck_mismatch hm
  rw [h] at hm; cases hm

/-- the type check that `callEntry` performs -/
def entryCheck (e : Entry) (a : List Val) : Except Err Unit :=
  if e.typechecked then typecheck e.params a else .ok ()

theorem callBuiltin_func {apply : Apply} {e : Entry} {args : List Val} {m : String}
    (h : entryCheck e (inject e args) = .error (.func m)) :
    callBuiltin apply e args = .error (.func m) := by
  unfold entryCheck at h
  unfold callBuiltin callEntry
  simp only [h]
  rfl

theorem callBuiltin_arity {apply : Apply} {e : Entry} {args : List Val}
    (h : entryCheck e (inject e args) = .ok ()) (ha : e.accepts (inject e args).length = false) :
    ∃ m, callBuiltin apply e args = .error (.interp m) := by
  unfold entryCheck at h
  unfold callBuiltin callEntry
  simp only [h, ha]
  exact ⟨_, rfl⟩

theorem callBuiltin_apply {apply : Apply} {e : Entry} {args : List Val}
    (h : entryCheck e (inject e args) = .ok ()) (ha : e.accepts (inject e args).length = true) :
    callBuiltin apply e args = catchTypeError (apply e.name (inject e args)) := by
  unfold entryCheck at h
  unfold callBuiltin callEntry
  simp only [h, ha, if_true]

theorem entryCheck_cases (e : Entry) (a : List Val) :
    entryCheck e a = .ok () ∨ ∃ m, entryCheck e a = .error (.func m) := by
  unfold entryCheck
  split
  · exact typecheck_ok_or_error _ _
  · left; rfl

theorem catchTypeError_qerr {r : Except Err Val} (h : QErr r) : QErr (catchTypeError r) := by
  unfold catchTypeError
  split
  · exact qerr_interp _
  · exact h

theorem callBuiltin_qerr {apply : Apply} (hA : ApplyQ apply) (e : Entry) (args : List Val) :
    QErr (callBuiltin apply e args) := by
  rcases entryCheck_cases e (inject e args) with h | ⟨m, h⟩
  · cases ha : e.accepts (inject e args).length with
    | false =>
      obtain ⟨m, hm⟩ := callBuiltin_arity (apply := apply) h ha
      rw [hm]; exact qerr_interp _
    | true =>
      rw [callBuiltin_apply h ha]
      exact hA _ _
  · rw [callBuiltin_func h]
    intro e' he'; cases he'; exact Or.inr (Or.inr ⟨m, rfl⟩)

mutual
theorem interp_qerr {reg : List Entry} {apply : Apply} (hA : ApplyQ apply) :
    ∀ (t : Tok) (ns : Ns), QErr (interp reg apply t ns)
  | .int n, ns => by rw [interp]; exact qerr_ok _
  | .str s, ns => by rw [interp]; exact qerr_ok _
  | .var name cap, ns => by
    rw [interp]
    split
    · exact qerr_interp _
    · exact qerr_ok _
  | .call f args, ns => by
    rw [interp]
    split
    · exact qerr_interp _
    · rename_i e _
      have h1 := interpList_qerr (reg := reg) hA args ns
      split
      · rename_i err he
        intro e' he'; cases he'; exact h1 err he
      · exact qerr_map _ (callBuiltin_qerr hA e _)
  | .list xs, ns => by
    rw [interp]
    exact qerr_map _ (interpList_qerr (reg := reg) hA xs ns)
  | .dict kvs, ns => by
    rw [interp]
    exact qerr_map _ (interpDict_qerr (reg := reg) hA kvs ns)
theorem interpList_qerr {reg : List Entry} {apply : Apply} (hA : ApplyQ apply) :
    ∀ (ts : List Tok) (ns : Ns), QErr (interpList reg apply ts ns)
  | [], ns => by rw [interpList]; exact qerr_ok _
  | t :: ts, ns => by
    rw [interpList]
    have h1 := interp_qerr (reg := reg) hA t ns
    split
    · rename_i err he
      intro e' he'; cases he'; exact h1 err he
    · exact qerr_map _ (interpList_qerr (reg := reg) hA ts _)
theorem interpDict_qerr {reg : List Entry} {apply : Apply} (hA : ApplyQ apply) :
    ∀ (ts : List (Str × Tok)) (ns : Ns), QErr (interpDict reg apply ts ns)
  | [], ns => by rw [interpDict]; exact qerr_ok _
  | (k, t) :: ts, ns => by
    rw [interpDict]
    have h1 := interp_qerr (reg := reg) hA t ns
    split
    · rename_i err he
      intro e' he'; cases he'; exact h1 err he
    · exact qerr_map _ (interpDict_qerr (reg := reg) hA ts _)
end

theorem runStmts_qerr {reg : List Entry} {apply : Apply} (hA : ApplyQ apply) :
    ∀ (l : List Str) (ns : Ns), (∀ s ∈ l, Tail s) → QErr (runStmts reg apply l ns)
  | [], ns, _ => by rw [runStmts]; exact qerr_ok _
  | st :: rest, ns, h => by
    rw [runStmts]
    have h1 := parseStmt_onlyParse ns st (h st (by simp))
    split
    · rename_i e he
      intro e' he'; cases he'; exact Or.inl (h1 e he)
    · rename_i name tok _
      have h2 := interp_qerr (reg := reg) hA tok ns
      split
      · rename_i e he
        intro e' he'; cases he'; exact h2 e he
      · exact runStmts_qerr hA rest _ (fun s hs => h s (by simp [hs]))

theorem runQuery_qerr {reg : List Entry} {apply : Apply} (hA : ApplyQ apply) (env : Ns) (text : Str) :
    QErr (runQuery reg apply env text) := by
  unfold runQuery
  have h1 := runStmts_qerr (reg := reg) hA (statements text) (baseNs ++ env)
    (fun s hs => (mem_statements hs).2)
  split
  · rename_i e he
    intro e' he'; cases he'; exact h1 e he
  · split
    · exact qerr_parse _
    · exact qerr_ok _

end Aw.Query
