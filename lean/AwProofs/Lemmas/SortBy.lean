import AwModel.PySort
/-!
# The stable insertion sort `sortBy`: membership, sortedness, stability (as a lexicographic order)
-/
namespace Aw
variable {α : Type}

theorem mem_insertBy (k : α → Int) (x z : α) (l : List α) :
    z ∈ insertBy k x l ↔ z = x ∨ z ∈ l := by
  induction l with
  | nil => simp [insertBy]
  | cons y ys ih =>
    unfold insertBy
    split
    · simp
    · rw [List.mem_cons, ih, List.mem_cons]
      constructor
      · rintro (h | h | h)
        · exact Or.inr (Or.inl h)
        · exact Or.inl h
        · exact Or.inr (Or.inr h)
      · rintro (h | h | h)
        · exact Or.inr (Or.inl h)
        · exact Or.inl h
        · exact Or.inr (Or.inr h)

theorem mem_sortBy (k : α → Int) (z : α) (l : List α) : z ∈ sortBy k l ↔ z ∈ l := by
  induction l with
  | nil => simp [sortBy]
  | cons y ys ih =>
    unfold sortBy
    rw [mem_insertBy, ih, List.mem_cons]

theorem length_insertBy (k : α → Int) (x : α) (l : List α) :
    (insertBy k x l).length = l.length + 1 := by
  induction l with
  | nil => rfl
  | cons y ys ih =>
    unfold insertBy
    split
    · rfl
    · simp only [List.length_cons, ih]

theorem length_sortBy (k : α → Int) (l : List α) : (sortBy k l).length = l.length := by
  induction l with
  | nil => rfl
  | cons y ys ih =>
    unfold sortBy
    rw [length_insertBy, ih, List.length_cons]

/-- ascending by `k1`, ties ascending by `k2` -/
def Lex (k1 k2 : α → Int) (x y : α) : Prop := k1 x < k1 y ∨ (k1 x = k1 y ∧ k2 x ≤ k2 y)

theorem insertBy_lex (k1 k2 : α → Int) (x : α) (l : List α)
    (hl : l.Pairwise (Lex k1 k2)) (hx : ∀ y ∈ l, k2 x ≤ k2 y) :
    (insertBy k1 x l).Pairwise (Lex k1 k2) := by
  induction l with
  | nil => exact List.pairwise_singleton _ _
  | cons y ys ih =>
    rw [List.pairwise_cons] at hl
    unfold insertBy
    split
    · rename_i hxy
      rw [List.pairwise_cons]
      refine ⟨?_, List.pairwise_cons.mpr hl⟩
      intro z hz
      have hk := hx z hz
      rcases List.mem_cons.mp hz with rfl | hz'
      · unfold Lex; omega
      · have := hl.1 z hz'
        unfold Lex at this ⊢; omega
    · rename_i hxy
      rw [List.pairwise_cons]
      refine ⟨?_, ih hl.2 (fun z hz => hx z (List.mem_cons_of_mem _ hz))⟩
      intro z hz
      rcases (mem_insertBy k1 x z ys).mp hz with rfl | hz'
      · unfold Lex; omega
      · exact hl.1 z hz'

/-- stability: sorting by `k1` a list already ascending in `k2` orders ties by `k2` -/
theorem sortBy_lex (k1 k2 : α → Int) (l : List α) (hl : l.Pairwise (fun x y => k2 x ≤ k2 y)) :
    (sortBy k1 l).Pairwise (Lex k1 k2) := by
  induction l with
  | nil => exact List.Pairwise.nil
  | cons x xs ih =>
    rw [List.pairwise_cons] at hl
    unfold sortBy
    exact insertBy_lex k1 k2 x _ (ih hl.2) (fun y hy => hl.1 y ((mem_sortBy k1 y xs).mp hy))

theorem pairwise_of_forall {R : α → α → Prop} (h : ∀ x y, R x y) : ∀ l : List α, l.Pairwise R
  | [] => List.Pairwise.nil
  | _ :: t => List.pairwise_cons.mpr ⟨fun _ _ => h _ _, pairwise_of_forall h t⟩

theorem sortBy_sorted (k : α → Int) (l : List α) :
    (sortBy k l).Pairwise (fun x y => k x ≤ k y) := by
  have := sortBy_lex k (fun _ => 0) l (pairwise_of_forall (fun _ _ => Int.le_refl 0) l)
  refine this.imp ?_
  intro x y h
  unfold Lex at h
  omega

theorem exists_concat : ∀ (l : List α), l ≠ [] → ∃ init t, l = init ++ [t]
  | [], h => absurd rfl h
  | [a], _ => ⟨[], a, rfl⟩
  | a :: b :: t, _ => by
    obtain ⟨i, z, h⟩ := exists_concat (b :: t) (by simp)
    exact ⟨a :: i, z, by rw [h]; rfl⟩

end Aw
