import AwProofs.Lemmas.QueryTokens
/-! The `parse` methods on rendered text: one loop iteration at a time, then the whole tree. -/
namespace Aw.Query

mutual
/-- the `QToken` tree the parser builds for an expression (variables capture the namespace) -/
def tokOf (ns : Ns) : Expr → Tok
  | .int n => .int n
  | .str s => .str s
  | .var name => .var name (ns.get? name)
  | .call f args => .call f (tokOfList ns args)
  | .list xs => .list (tokOfList ns xs)
  | .dict kvs => .dict (tokOfDict ns kvs)
def tokOfList (ns : Ns) : List Expr → List Tok
  | [] => []
  | e :: es => tokOf ns e :: tokOfList ns es
def tokOfDict (ns : Ns) : List (Str × Expr) → List (Str × Tok)
  | [] => []
  | (k, e) :: es => (k, tokOf ns e) :: tokOfDict ns es
end

/-! ### `_parse_token` on `blanks ++ rendered ++ continuation` -/

theorem delim_of_tail_sep {k : Str} (h : k = [] ∨ ∃ c r, k = c :: r ∧ ¬ Word c ∧ c ≠ '(') : Delim k := by
  rcases h with rfl | ⟨c, r, rfl, h1, h2⟩
  · exact delim_nil
  · exact delim_cons h1 h2

theorem parseToken_render {w k : Str} (e : Expr) (l : Layout) (hw : WF e) (hl : LayoutOK l)
    (hws : ∀ c ∈ w, isSpace c = true) (hk : Delim k) (hkt : Tail k) :
    parseToken (w ++ (renderExpr l e ++ k)) = .ok (some (tyOf e, renderExpr l e), k) := by
  have hedge := edges_append_tail (edges_renderExpr e l hw) hkt
  unfold parseToken
  simp only [strip_ws_edges hws hedge, hedge.ne_nil, if_false]
  exact firstMatch_render e l hw hl k hk

theorem parseToken_renderStr {w k : Str} {q : Char} (hq : q = '"' ∨ q = '\'') (s : Str) (hs : StrOK s)
    (hws : ∀ c ∈ w, isSpace c = true) (hkt : Tail k) :
    parseToken (w ++ (renderStr q s ++ k)) = .ok (some (.str, renderStr q s), k) := by
  have hedge := edges_append_tail (edges_renderStr hq s) hkt
  unfold parseToken
  simp only [strip_ws_edges hws hedge, hedge.ne_nil, if_false]
  rw [checkers]
  exact firstMatch_cons_hit (checkString_render hq s k (strOK_noBackslash hs)) (edges_renderStr hq s).ne_nil

/-! ### `QString.parse` -/

theorem unescapeAux_escape (q : Char) (hq : q ≠ '\\') (s tl : Str) (hs : ∀ ch ∈ s, ch ≠ '\\') :
    unescapeAux q false (escape q s ++ tl) = s ++ unescapeAux q false tl := by
  induction s with
  | nil => simp [escape]
  | cons ch t ih =>
    have hch := hs ch (by simp)
    have ht : ∀ x ∈ t, x ≠ '\\' := fun x hx => hs x (by simp [hx])
    unfold escape
    by_cases hcq : ch = q
    · subst hcq
      simp only [if_true]
      show unescapeAux ch false ('\\' :: ch :: (escape ch t ++ tl)) = _
      rw [unescapeAux]; simp only [if_true]
      rw [unescapeAux]; simp only [if_true]
      rw [ih ht]; rfl
    · simp only [hcq, if_false]
      show unescapeAux q false (ch :: (escape q t ++ tl)) = _
      rw [unescapeAux]; simp only [hch, if_false]
      rw [ih ht]; rfl

theorem parseStrTok_render {q : Char} (hq : q = '"' ∨ q = '\'') (s : Str) (hs : StrOK s) :
    parseStrTok (renderStr q s) = .ok s := by
  have hq' : q ≠ '\\' := by rcases hq with rfl | rfl <;> decide
  unfold renderStr parseStrTok
  simp only
  have : unescape q (q :: (escape q s ++ [q])) = q :: (s ++ [q]) := by
    unfold unescape
    rw [unescapeAux]; simp only [hq', if_false]
    rw [unescapeAux_escape q hq' s [q] (strOK_noBackslash hs)]
    rw [unescapeAux]; simp only [hq', if_false]
    rw [unescapeAux]; simp
  rw [this]
  simp

/-! ### slices -/

theorem find_append_cons {ch : Char} {w x : Str} (h : ∀ c ∈ w, c ≠ ch) : find ch (w ++ ch :: x) = some w.length := by
  induction w with
  | nil => simp [find]
  | cons y ys ih =>
    show find ch (y :: (ys ++ ch :: x)) = _
    rw [find, if_neg (h y (by simp)), ih (fun c hc => h c (by simp [hc]))]
    simp

theorem find_none {ch : Char} {w : Str} (h : ∀ c ∈ w, c ≠ ch) : find ch w = none := by
  induction w with
  | nil => rfl
  | cons y ys ih =>
    rw [find, if_neg (h y (by simp)), ih (fun c hc => h c (by simp [hc]))]
    rfl

theorem afterComma_nil : afterComma [] = [] := rfl

theorem space_ne_of {ch : Char} (hch : isSpace ch = false) {w : Str} (hw : ∀ c ∈ w, isSpace c = true) :
    ∀ c ∈ w, c ≠ ch := by
  intro c hc heq; subst heq; rw [hw c hc] at hch; cases hch

theorem afterComma_sep {l : Layout} (hl : LayoutOK l) (a b j : Nat) (hj : 1 ≤ j) (x : Str) :
    afterComma (commaSep l a b j ++ x) = l.slot b ++ x := by
  unfold commaSep afterComma
  have : ¬ j = 0 := by omega
  simp only [this, if_false]
  have e : l.slot a ++ ',' :: l.slot b ++ x = l.slot a ++ ',' :: (l.slot b ++ x) := by simp
  rw [e, find_append_cons (space_ne_of (by decide) (slot_space hl a))]
  simp only
  have : l.slot a ++ ',' :: (l.slot b ++ x) = (l.slot a ++ [',']) ++ (l.slot b ++ x) := by simp
  rw [this, List.drop_left' (by simp)]

theorem call_slices (f A : Str) (hf : ∀ c ∈ f, c ≠ '(') :
    let R := f ++ '(' :: (A ++ [')'])
    (find '(' R).getD R.length = f.length ∧ R.take f.length = f ∧
      (R.take (R.length - 1)).drop (f.length + 1) = A := by
  intro R
  refine ⟨by simp [R, find_append_cons hf], by simp [R], ?_⟩
  have e : R = (f ++ '(' :: A) ++ [')'] := by simp [R]
  have hl : R.length - 1 = (f ++ '(' :: A).length := by simp [R]
  rw [hl, e, List.take_left]
  have : f ++ '(' :: A = (f ++ ['(']) ++ A := by simp
  rw [this, List.drop_left' (by simp)]

theorem bracket_inner (o c : Char) (A : Str) : ((o :: (A ++ [c])).drop 1).dropLast = A := by
  simp

/-! ### single loop iterations -/

theorem args_step {ns : Ns} {f : Nat} {s k : Str} {acc : List Tok} {ty : Ty} {R : Str} {t : Tok}
    (hs : s ≠ []) (hpt : parseToken s = .ok (some (ty, R), k)) (htok : parseTok ns f ty R = .ok t) :
    parseArgs ns (f + 1) s acc = parseArgs ns f (afterComma k) (t :: acc) := by
  rw [parseArgs]
  simp only [hs, if_false, hpt, htok]

theorem list_step {ns : Ns} {f : Nat} {s s2 k : Str} {acc : List Tok} {ty : Ty} {R : Str} {t : Tok}
    (hs : s ≠ []) (hidx : ¬ (acc ≠ [] ∧ strip s = []))
    (hs2 : (if acc ≠ [] ∧ (strip s).head? = some ',' then (strip s).drop 1 else strip s) = s2)
    (hpt : parseToken s2 = .ok (some (ty, R), k)) (htok : parseTok ns f ty R = .ok t) :
    parseList ns (f + 1) s acc = parseList ns f k (t :: acc) := by
  rw [parseList]
  simp only [hs, if_false, hidx, hs2, hpt, htok]

theorem dict_step {ns : Ns} {f : Nat} {s s2 rest k : Str} {acc : List (Str × Tok)} {ktok key : Str}
    {ty : Ty} {R : Str} {t : Tok}
    (hs : s ≠ []) (hidx : ¬ (acc ≠ [] ∧ strip s = []))
    (hs2 : (if acc ≠ [] ∧ (strip s).head? = some ',' then (strip s).drop 1 else strip s) = s2)
    (hkey : parseToken s2 = .ok (some (.str, ktok), rest)) (hkv : parseStrTok ktok = .ok key)
    (hcolon : (strip rest).head? = some ':')
    (hpt : parseToken ((strip rest).drop 1) = .ok (some (ty, R), k)) (htok : parseTok ns f ty R = .ok t) :
    parseDict ns (f + 1) s acc = parseDict ns f k (dictSet acc key t) := by
  rw [parseDict]
  simp only [hs, if_false, hidx, hs2, hkey, hkv, hcolon, ne_eq, not_true_eq_false, hpt, htok]

end Aw.Query
