import AwProofs.Lemmas.QueryWF
/-!
The bracket-matching loop shared by `QFunction/QDict/QList.check`: text that is "transparent" for
the scanner of a bracket pair (`Passes`), closed under concatenation; plain characters, bracket
groups and string literals (with escaped quotes) are transparent.
-/
namespace Aw.Query

/-- scanner state "outside quotes, depth ≥ 1, previous char not a backslash" -/
def Calm (st : BrSt) : Prop := st.sq = false ∧ st.dq = false ∧ 1 ≤ st.depth ∧ st.prev ≠ some '\\'

/-- `w` is transparent for the `(o,c)` scanner: from any calm state it is consumed entirely, never
    closing the outer bracket, and leaves a calm state of the same depth -/
def Passes (o c : Char) (w : Str) : Prop :=
  ∀ st, Calm st → ∃ st', Calm st' ∧ st'.depth = st.depth ∧
    ∀ rest i, brScan o c st (w ++ rest) i = brScan o c st' rest (i + w.length)

theorem passes_nil (o c : Char) : Passes o c [] := by
  intro st h; exact ⟨st, h, rfl, by intro rest i; simp⟩

theorem passes_append {o c : Char} {u v : Str} (hu : Passes o c u) (hv : Passes o c v) :
    Passes o c (u ++ v) := by
  intro st h
  obtain ⟨s1, c1, d1, e1⟩ := hu st h
  obtain ⟨s2, c2, d2, e2⟩ := hv s1 c1
  refine ⟨s2, c2, by omega, ?_⟩
  intro rest i
  rw [List.append_assoc, e1, e2, List.length_append]; congr 1; omega

/-- not a quote, not a backslash, not one of this scanner's brackets -/
def PlainFor (o c ch : Char) : Prop := ch ≠ '\'' ∧ ch ≠ '"' ∧ ch ≠ '\\' ∧ ch ≠ o ∧ ch ≠ c

theorem passes_plain {o c ch : Char} (h : PlainFor o c ch) : Passes o c [ch] := by
  obtain ⟨h1, h2, h3, h4, h5⟩ := h
  intro st ⟨a, b, d, e⟩
  refine ⟨{ st with prev := some ch }, ⟨a, b, d, by simp [h3]⟩, rfl, ?_⟩
  intro rest i
  simp only [List.singleton_append, brScan, brStep, h1, h2, h4, h5, a, b, false_and, if_false,
    Bool.false_eq_true, or_self, List.length_singleton]
  have : ¬ st.depth = 0 := by omega
  simp [this]

theorem passes_plain_str {o c : Char} {w : Str} (h : ∀ ch ∈ w, PlainFor o c ch) : Passes o c w := by
  induction w with
  | nil => exact passes_nil o c
  | cons x xs ih =>
    have : x :: xs = [x] ++ xs := rfl
    rw [this]
    exact passes_append (passes_plain (h x (by simp))) (ih (fun ch hch => h ch (by simp [hch])))

/-- the three bracket pairs -/
def BrPair (o c : Char) : Prop := (o = '(' ∧ c = ')') ∨ (o = '{' ∧ c = '}') ∨ (o = '[' ∧ c = ']')

/-- a bracketed group of this scanner's own kind -/
theorem passes_own_brackets {o c : Char} (hp : BrPair o c) {w : Str} (hw : Passes o c w) :
    Passes o c (o :: (w ++ [c])) := by
  have hoc : o ≠ c := by rcases hp with ⟨rfl, rfl⟩ | ⟨rfl, rfl⟩ | ⟨rfl, rfl⟩ <;> decide
  have ho1 : o ≠ '\'' := by rcases hp with ⟨rfl, rfl⟩ | ⟨rfl, rfl⟩ | ⟨rfl, rfl⟩ <;> decide
  have ho2 : o ≠ '"' := by rcases hp with ⟨rfl, rfl⟩ | ⟨rfl, rfl⟩ | ⟨rfl, rfl⟩ <;> decide
  have ho3 : o ≠ '\\' := by rcases hp with ⟨rfl, rfl⟩ | ⟨rfl, rfl⟩ | ⟨rfl, rfl⟩ <;> decide
  have hc1 : c ≠ '\'' := by rcases hp with ⟨rfl, rfl⟩ | ⟨rfl, rfl⟩ | ⟨rfl, rfl⟩ <;> decide
  have hc2 : c ≠ '"' := by rcases hp with ⟨rfl, rfl⟩ | ⟨rfl, rfl⟩ | ⟨rfl, rfl⟩ <;> decide
  have hc3 : c ≠ '\\' := by rcases hp with ⟨rfl, rfl⟩ | ⟨rfl, rfl⟩ | ⟨rfl, rfl⟩ <;> decide
  intro st ⟨a, b, d, e⟩
  let s1 : BrSt := { st with depth := st.depth + 1, prev := some o }
  have cs1 : Calm s1 := ⟨a, b, by simp [s1], by simp [s1, ho3]⟩
  obtain ⟨s2, c2, d2, e2⟩ := hw s1 cs1
  obtain ⟨a2, b2, dd2, p2⟩ := c2
  let s3 : BrSt := { s2 with depth := s2.depth - 1, prev := some c }
  have hd2 : s2.depth = st.depth + 1 := by rw [d2]
  refine ⟨s3, ⟨by simp [s3, a2], by simp [s3, b2], by simp [s3]; omega, by simp [s3, hc3]⟩,
    by simp [s3]; omega, ?_⟩
  intro rest i
  have step1 : brStep o c st o = s1 := by
    simp [brStep, ho1, ho2, a, b, hoc, s1]
  have step3 : brStep o c s2 c = s3 := by
    simp [brStep, hc1, hc2, a2, b2, s3]
  show brScan o c st (o :: ((w ++ [c]) ++ rest)) i = _
  rw [brScan]
  simp only [step1]
  have : ¬ s1.depth = 0 := by simp [s1]
  simp only [this, if_false]
  rw [List.append_assoc, e2]
  show brScan o c s2 (c :: rest) _ = _
  rw [brScan]
  simp only [step3]
  have : ¬ s3.depth = 0 := by simp [s3]; omega
  simp only [this, if_false]
  congr 1
  simp; omega

/-- the closing bracket after transparent text ends the scan: index and depth 0 -/
theorem brScan_closed {o c : Char} (hp : BrPair o c) {inner : Str} (h : Passes o c inner)
    (k : Str) (i : Nat) :
    brScan o c brInit (inner ++ c :: k) i = (i + inner.length + 1, 0) := by
  have hc1 : c ≠ '\'' := by rcases hp with ⟨rfl, rfl⟩ | ⟨rfl, rfl⟩ | ⟨rfl, rfl⟩ <;> decide
  have hc2 : c ≠ '"' := by rcases hp with ⟨rfl, rfl⟩ | ⟨rfl, rfl⟩ | ⟨rfl, rfl⟩ <;> decide
  obtain ⟨s2, ⟨a2, b2, _, _⟩, d2, e2⟩ := h brInit ⟨rfl, rfl, by simp [brInit], by simp [brInit]⟩
  rw [e2]
  have hd : s2.depth = 1 := d2
  have : (brStep o c s2 c).depth = 0 := by
    simp [brStep, a2, b2, hd, hc1, hc2]
  rw [brScan]
  simp only [this, if_true]

/-! ### string literals -/

/-- the scanner is inside a `q`-quoted string -/
def InQuote (q : Char) (st : BrSt) : Prop :=
  (q = '"' ∧ st.dq = true ∧ st.sq = false) ∨ (q = '\'' ∧ st.sq = true ∧ st.dq = false)

theorem inq_step_other {o c q ch : Char} {st : BrSt} (hq : InQuote q st) (h1 : ch ≠ q) :
    brStep o c st ch = { st with prev := some ch } := by
  rcases hq with ⟨rfl, a, b⟩ | ⟨rfl, a, b⟩
  · simp [brStep, a, b, h1]
  · simp [brStep, a, b, h1]

theorem inq_step_escaped {o c q : Char} {st : BrSt} (hq : InQuote q st) (hp : st.prev = some '\\') :
    brStep o c st q = { st with prev := some q } := by
  rcases hq with ⟨rfl, a, b⟩ | ⟨rfl, a, b⟩
  · simp [brStep, a, b, hp]
  · simp [brStep, a, b, hp]

/-- inside a quoted string the escaped body of a backslash-free value is skipped -/
theorem inq_body (o c q : Char) (s : Str) (hs : ∀ ch ∈ s, ch ≠ '\\') :
    ∀ st : BrSt, InQuote q st → 1 ≤ st.depth → st.prev ≠ some '\\' →
    ∃ st', InQuote q st' ∧ st'.depth = st.depth ∧ st'.prev ≠ some '\\' ∧
      (st'.sq = st.sq ∧ st'.dq = st.dq) ∧
      ∀ rest i, brScan o c st (escape q s ++ rest) i = brScan o c st' rest (i + (escape q s).length) := by
  have hqne : (q = '"' ∨ q = '\'') → q ≠ '\\' := by
    intro h; rcases h with rfl | rfl <;> decide
  induction s with
  | nil => intro st a d e; exact ⟨st, a, rfl, e, ⟨rfl, rfl⟩, by intro rest i; simp [escape]⟩
  | cons ch t ih =>
    intro st a d e
    have hch := hs ch (by simp)
    have ht : ∀ x ∈ t, x ≠ '\\' := fun x hx => hs x (by simp [hx])
    have hq' : q ≠ '\\' := hqne (by rcases a with ⟨h, _⟩ | ⟨h, _⟩ <;> simp [h])
    unfold escape
    by_cases hcq : ch = q
    · -- `\q`
      subst hcq
      simp only [if_true]
      let s1 : BrSt := { st with prev := some '\\' }
      have a1 : InQuote ch s1 := by
        rcases a with ⟨h, x, y⟩ | ⟨h, x, y⟩
        · exact Or.inl ⟨h, x, y⟩
        · exact Or.inr ⟨h, x, y⟩
      have hs1 : brStep o c st '\\' = s1 := inq_step_other a (Ne.symm hq')
      let s2 : BrSt := { s1 with prev := some ch }
      have a2 : InQuote ch s2 := by
        rcases a with ⟨h, x, y⟩ | ⟨h, x, y⟩
        · exact Or.inl ⟨h, x, y⟩
        · exact Or.inr ⟨h, x, y⟩
      have hs2 : brStep o c s1 ch = s2 := inq_step_escaped a1 rfl
      obtain ⟨s3, a3, d3, e3, f3, g3⟩ := ih ht s2 a2 d (by simp [s2, hq'])
      refine ⟨s3, a3, by rw [d3], e3, f3, ?_⟩
      intro rest i
      show brScan o c st ('\\' :: ch :: (escape ch t ++ rest)) i = _
      rw [brScan]
      simp only [hs1]
      have n1 : ¬ s1.depth = 0 := by simp [s1]; omega
      simp only [n1, if_false]
      rw [brScan]
      simp only [hs2]
      have n2 : ¬ s2.depth = 0 := by simp [s2, s1]; omega
      simp only [n2, if_false]
      rw [g3]; congr 1; simp; omega
    · simp only [hcq, if_false]
      let s1 : BrSt := { st with prev := some ch }
      have a1 : InQuote q s1 := by
        rcases a with ⟨h, x, y⟩ | ⟨h, x, y⟩
        · exact Or.inl ⟨h, x, y⟩
        · exact Or.inr ⟨h, x, y⟩
      have hs1 : brStep o c st ch = s1 := inq_step_other a hcq
      obtain ⟨s3, a3, d3, e3, f3, g3⟩ := ih ht s1 a1 d (by simp [s1, hch])
      refine ⟨s3, a3, by rw [d3], e3, f3, ?_⟩
      intro rest i
      show brScan o c st (ch :: (escape q t ++ rest)) i = _
      rw [brScan]
      simp only [hs1]
      have n1 : ¬ s1.depth = 0 := by simp [s1]; omega
      simp only [n1, if_false]
      rw [g3]; congr 1; simp; omega

/-- a string literal (either quote style, own quotes escaped) is transparent for every scanner -/
theorem passes_string (o c q : Char) (hq : q = '"' ∨ q = '\'') (s : Str) (hs : ∀ ch ∈ s, ch ≠ '\\') :
    Passes o c (renderStr q s) := by
  intro st ⟨a, b, d, e⟩
  have hq' : q ≠ '\\' := by rcases hq with rfl | rfl <;> decide
  -- opening quote
  obtain ⟨s1, a1, hs1, hd1, hp1⟩ : ∃ s1 : BrSt, InQuote q s1 ∧ brStep o c st q = s1 ∧
      s1.depth = st.depth ∧ s1.prev = some q := by
    rcases hq with rfl | rfl
    · exact ⟨{ st with dq := true, prev := some '"' }, Or.inl ⟨rfl, rfl, a⟩,
        by simp [brStep, a, b, e], rfl, rfl⟩
    · exact ⟨{ st with sq := true, prev := some '\'' }, Or.inr ⟨rfl, rfl, b⟩,
        by simp [brStep, a, b, e], rfl, rfl⟩
  obtain ⟨s2, a2, d2, e2, _, g2⟩ := inq_body o c q s hs s1 a1 (by omega) (by simp [hp1, hq'])
  -- closing quote
  obtain ⟨s3, hs3, c3, d3⟩ : ∃ s3 : BrSt, brStep o c s2 q = s3 ∧ Calm s3 ∧ s3.depth = s2.depth := by
    rcases a2 with ⟨rfl, x, y⟩ | ⟨rfl, x, y⟩
    · exact ⟨{ s2 with dq := false, prev := some '"' }, by simp [brStep, x, y, e2],
        ⟨y, rfl, by show 1 ≤ s2.depth; omega, by simp⟩, rfl⟩
    · exact ⟨{ s2 with sq := false, prev := some '\'' }, by simp [brStep, x, y, e2],
        ⟨rfl, y, by show 1 ≤ s2.depth; omega, by simp⟩, rfl⟩
  refine ⟨s3, c3, by omega, ?_⟩
  intro rest i
  show brScan o c st (q :: ((escape q s ++ [q]) ++ rest)) i = _
  rw [brScan]
  simp only [hs1]
  have n1 : ¬ s1.depth = 0 := by omega
  simp only [n1, if_false]
  rw [List.append_assoc, g2]
  show brScan o c s2 (q :: rest) _ = _
  rw [brScan]
  simp only [hs3]
  have n3 : ¬ s3.depth = 0 := by omega
  simp only [n3, if_false]
  congr 1
  simp [renderStr]; omega

end Aw.Query
