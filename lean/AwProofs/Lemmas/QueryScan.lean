import AwProofs.Lemmas.QueryChars
/-! What every `check` scanner returns: a cut of its input; only parse errors on non-empty input. -/
namespace Aw.Query

def IsParseErr (e : Err) : Prop := ∃ m, e = .parse m

/-- the only errors of `r` are `QueryParseException`s -/
def OnlyParse {α} (r : Except Err α) : Prop := ∀ e, r = .error e → IsParseErr e

/-- Boolean view, for examples -/
def isParseError {α} : Except Err α → Bool
  | .error (.parse _) => true
  | _ => false

theorem onlyParse_ok {α} (a : α) : OnlyParse (.ok a : Except Err α) := by
  intro e h; cases h

theorem onlyParse_parse {α} (m : String) : OnlyParse (.error (.parse m) : Except Err α) := by
  intro e h; cases h; exact ⟨m, rfl⟩

theorem onlyParse_map {α β} {r : Except Err α} (f : α → β) (h : OnlyParse r) : OnlyParse (r.map f) := by
  intro e he
  cases r with
  | error e' => simp [Except.map] at he; subst he; exact h e' rfl
  | ok a => simp [Except.map] at he

/-- a token with the properties its `parse` method relies on -/
def TokOK (ty : Ty) (tok : Str) : Prop := tok ≠ [] ∧ (ty = .int → tok.all isDigit = true)

/-- `(tok, r)` is a cut of `s`: `r` is `s` without a prefix at least as long as a non-empty token;
    a falsy token leaves `s` untouched -/
def Cut (s tok r : Str) : Prop :=
  ∃ n, r = s.drop n ∧ tok.length ≤ s.length ∧ (tok = [] → r = s) ∧ (tok ≠ [] → 0 < n)

theorem cut_take_drop (s : Str) (n : Nat) : Cut s (s.take n) (s.drop n) := by
  refine ⟨n, rfl, by simp; omega, ?_, ?_⟩
  · intro h
    rcases List.take_eq_nil_iff.mp h with h | h
    · simp [h]
    · simp [h]
  · intro h
    cases n with
    | zero => simp at h
    | succ k => omega

theorem cut_fail (s : Str) : Cut s [] s := ⟨0, by simp, by simp, fun _ => rfl, fun h => absurd rfl h⟩

theorem strBody_length_le (q : Char) (p : Option Char) (s : Str) : (strBody q p s).length ≤ s.length := by
  induction s generalizing p with
  | nil => simp [strBody]
  | cons c cs ih =>
    unfold strBody
    split
    · simp
    · simp; exact ih _

theorem length_takeWhile_le (p : Char → Bool) (s : Str) : (s.takeWhile p).length ≤ s.length := by
  induction s with
  | nil => simp
  | cons c cs ih =>
    rw [List.takeWhile_cons]
    split <;> simp <;> omega

theorem all_takeWhile (p : Char → Bool) (s : Str) : (s.takeWhile p).all p = true := by
  induction s with
  | nil => simp
  | cons c cs ih =>
    rw [List.takeWhile_cons]
    split
    · simp_all
    · simp

/-- result specification shared by all six checkers -/
def CheckSpec (ty : Ty) (f : Checker) : Prop :=
  ∀ s, s ≠ [] → OnlyParse (f s) ∧ ∀ tok r, f s = .ok (tok, r) → Cut s tok r ∧ (tok ≠ [] → TokOK ty tok)

theorem checkString_spec : CheckSpec .str checkString := by
  intro s hs
  cases s with
  | nil => exact absurd rfl hs
  | cons q rest =>
    unfold checkString
    simp only
    split
    · refine ⟨onlyParse_ok _, ?_⟩
      intro tok r h
      cases h
      exact ⟨cut_fail _, fun h => absurd rfl h⟩
    · split
      · refine ⟨onlyParse_parse _, ?_⟩
        intro tok r h; cases h
      · refine ⟨onlyParse_ok _, ?_⟩
        intro tok r h
        cases h
        refine ⟨⟨(q :: strBody q none rest).length, rfl, ?_, ?_, ?_⟩, fun _ => ⟨by simp, by simp⟩⟩
        · have := strBody_length_le q none rest
          simp; omega
        · intro h; simp at h
        · intro _; simp

theorem checkInt_spec : CheckSpec .int (fun s => .ok (checkInt s)) := by
  intro s _
  refine ⟨onlyParse_ok _, ?_⟩
  intro tok r h
  simp only [checkInt, Except.ok.injEq, Prod.mk.injEq] at h
  obtain ⟨h1, h2⟩ := h
  subst h1; subst h2
  refine ⟨⟨(s.takeWhile isDigit).length, rfl, length_takeWhile_le _ _, ?_, ?_⟩, ?_⟩
  · intro h; simp [h]
  · intro h; exact List.length_pos_iff.mpr h
  · intro h; exact ⟨h, fun _ => all_takeWhile _ _⟩

theorem checkFunc_spec : CheckSpec .func (fun s => .ok (checkFunc s)) := by
  intro s _
  refine ⟨onlyParse_ok _, ?_⟩
  intro tok r h
  simp only [Except.ok.injEq] at h
  have key : Cut s (checkFunc s).1 (checkFunc s).2 := by
    unfold checkFunc
    split
    · exact cut_fail _
    · simp only
      split
      · exact cut_fail _
      · exact cut_take_drop _ _
  rw [h] at key
  exact ⟨key, fun h => ⟨h, fun h' => by cases h'⟩⟩

theorem checkVar_spec : CheckSpec .var (fun s => .ok (checkVar s)) := by
  intro s _
  refine ⟨onlyParse_ok _, ?_⟩
  intro tok r h
  simp only [checkVar, Except.ok.injEq, Prod.mk.injEq] at h
  obtain ⟨h1, h2⟩ := h
  subst h1; subst h2
  exact ⟨cut_take_drop _ _, fun h => ⟨h, fun h' => by cases h'⟩⟩

theorem checkBr_spec (ty : Ty) (hty : ty ≠ .int) (o c : Char) : CheckSpec ty (checkBr o c) := by
  intro s hs
  cases s with
  | nil => exact absurd rfl hs
  | cons h rest =>
    unfold checkBr
    simp only
    split
    · refine ⟨onlyParse_ok _, ?_⟩
      intro tok r hh; cases hh
      exact ⟨cut_fail _, fun h => absurd rfl h⟩
    · refine ⟨onlyParse_ok _, ?_⟩
      intro tok r hh; cases hh
      exact ⟨cut_take_drop _ _, fun h => ⟨h, fun h' => absurd h' hty⟩⟩

theorem checkers_spec : ∀ p ∈ checkers, CheckSpec p.1 p.2 := by
  intro p hp
  simp only [checkers, List.mem_cons, List.not_mem_nil, or_false] at hp
  rcases hp with rfl | rfl | rfl | rfl | rfl | rfl
  · exact checkString_spec
  · exact checkInt_spec
  · exact checkFunc_spec
  · exact checkBr_spec _ (by decide) _ _
  · exact checkBr_spec _ (by decide) _ _
  · exact checkVar_spec

/-- `firstMatch` on a non-empty string: only parse errors; a result is a non-empty, well-formed
    token and a proper cut -/
theorem firstMatch_spec (s : Str) (hs : s ≠ []) :
    ∀ l : List (Ty × Checker), (∀ p ∈ l, CheckSpec p.1 p.2) →
      OnlyParse (firstMatch s l) ∧
      ∀ t r, firstMatch s l = .ok (t, r) →
        ∃ ty tok, t = some (ty, tok) ∧ TokOK ty tok ∧ tok.length ≤ s.length ∧
          ∃ n, 0 < n ∧ r = s.drop n
  | [], _ => by
    unfold firstMatch
    exact ⟨onlyParse_parse _, fun t r h => by cases h⟩
  | (ty, f) :: rest, h => by
    have hf := h (ty, f) (by simp) s hs
    have ih := firstMatch_spec s hs rest (fun p hp => h p (by simp [hp]))
    unfold firstMatch
    cases hfs : f s with
    | error e =>
      refine ⟨?_, fun t r h => by cases h⟩
      intro e' he'
      cases he'
      exact hf.1 e hfs
    | ok v =>
      obtain ⟨tok, r⟩ := v
      obtain ⟨⟨n, hn1, hn2, hn3, hn4⟩, hok⟩ := hf.2 tok r hfs
      simp only
      split
      · rename_i hne
        refine ⟨onlyParse_ok _, ?_⟩
        intro t r' hh
        cases hh
        exact ⟨ty, tok, rfl, hok hne, hn2, n, hn4 hne, hn1⟩
      · rename_i hne
        have : tok = [] := by simpa using hne
        rw [hn3 this]
        exact ih

theorem parseToken_onlyParse (s : Str) : OnlyParse (parseToken s) := by
  unfold parseToken
  simp only
  split
  · exact onlyParse_ok _
  · rename_i h
    exact (firstMatch_spec _ h _ checkers_spec).1

/-- shape of a successful `_parse_token` -/
theorem parseToken_some {s : Str} {t : Option (Ty × Str)} {r : Str} (h : parseToken s = .ok (t, r)) :
    (t = none ∧ strip s = []) ∨
    ∃ ty tok, t = some (ty, tok) ∧ TokOK ty tok ∧ tok.length ≤ s.length ∧ r.length < s.length ∧ Tail r := by
  unfold parseToken at h
  simp only at h
  split at h
  · rename_i hs
    cases h
    exact Or.inl ⟨rfl, hs⟩
  · rename_i hs
    right
    obtain ⟨ty, tok, rfl, hok, hlen, n, hn, rfl⟩ := (firstMatch_spec _ hs _ checkers_spec).2 t r h
    refine ⟨ty, tok, rfl, hok, Nat.le_trans hlen (strip_length_le s), ?_, tail_drop (tail_strip s) n⟩
    have h1 := strip_length_le s
    have h2 : 0 < (strip s).length := List.length_pos_iff.mpr hs
    simp; omega

end Aw.Query
