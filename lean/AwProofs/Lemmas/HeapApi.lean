import AwProofs.Lemmas.Heap
/-!
# Every API function of the heap model keeps the separation invariant
-/
namespace Aw.Store.Heap
open Aw Aw.Store

/-- putting roots into the store dict -/
theorem Sep.of {R : Ref → Prop} {s : State} (h : SepR R s) (st : Store)
    (hm : ∀ r, storeObjOf st r → R r) : Sep { s with store := st } :=
  (h.setStore st).mono hm

theorem dataRefOf_metaAt {s : State} {r : Ref} {o : MetaObj} (h : metaAt s r = some o) :
    dataRefOf s r = some o.dataRef := by
  unfold metaAt at h
  unfold dataRefOf
  split at h <;> simp_all

theorem dataRefOf_evAt {s : State} {r : Ref} {o : EvObj} (h : evAt s r = some o) :
    dataRefOf s r = some o.dataRef := by
  unfold evAt at h
  unfold dataRefOf
  split at h <;> simp_all

theorem createBucket_sep {s : State} (h : Sep s) (b : String) (m : Meta) (data : Option Ref) :
    Sep (createBucket s b m data).1 := by
  unfold createBucket
  split
  · exact h
  · show Sep { (alloc (alloc s _).1 _).1 with store := _ }
    refine Sep.of (SepR.allocOwned h _ _ ?_) _ ?_
    · intro d hd
      simp [dataRefOf, alloc] at hd
      exact hd.symm
    · intro r hr
      rcases storeObjOf_setKey hr with hr | rfl | hr
      · exact Or.inl hr
      · exact Or.inr rfl
      · cases hr

theorem updateBucket_sep {s : State} (h : Sep s) (b : String) (u : Upd) (data : Option Ref) :
    Sep (updateBucket s b u data).1 := by
  unfold updateBucket
  split
  · exact h
  split
  · exact h
  rename_i mr evs hl
  split
  · exact h
  rename_i mo hm
  have hroot : storeObjOf s.store mr := (storeObjOf_lookup hl).1
  have hold : s.client mo.dataRef = false ∧ mo.dataRef < s.next :=
    ⟨h.sep _ (Or.inr ⟨mr, hroot, dataRefOf_metaAt hm⟩), h.bound _ (Or.inr ⟨mr, hroot, dataRefOf_metaAt hm⟩)⟩
  have hsame : ∀ (mo1 : MetaObj), mo1.dataRef = mo.dataRef → Sep (write s mr (.mdict mo1)) := by
    intro mo1 he
    refine SepR.writeRoot h hroot _ ?_
    intro d hd
    simp [dataRefOf, write] at hd
    rw [← hd, he]
    exact hold
  split
  · exact hsame _ rfl
  · split
    · exact hsame _ rfl
    · have h1 := SepR.alloc h (.dict (textAt s ‹Ref›))
      refine SepR.writeRoot (s := (alloc s _).1) h1 hroot _ ?_
      intro d hd
      simp [dataRefOf, write] at hd
      subst hd
      exact ⟨(h.fresh s.next (Nat.le_refl _)).2, Nat.lt_succ_self _⟩

theorem deleteBucket_sep {s : State} (h : Sep s) (b : String) : Sep (deleteBucket s b).1 := by
  unfold deleteBucket
  split
  · exact h
  · exact Sep.of h _ (fun r hr => storeObjOf_filter hr)

theorem getMetadata_sep {s : State} (h : Sep s) (b : String) : Sep (getMetadata s b).1 := by
  unfold getMetadata
  split
  · exact h
  split
  · exact h
  · exact SepR.handOutMeta h _

theorem handOutMetas_store : ∀ (l : List (String × Ref)) (s : State),
    (handOutMetas s l).1.store = s.store
  | [], _ => rfl
  | (b, mr) :: rest, s => by
    unfold handOutMetas
    split
    · exact handOutMetas_store rest s
    · exact handOutMetas_store rest _

theorem handOutMetas_sepR {R : Ref → Prop} : ∀ (l : List (String × Ref)) (s : State), SepR R s →
    SepR R (handOutMetas s l).1
  | [], _, h => h
  | (b, mr) :: rest, s, h => by
    unfold handOutMetas
    split
    · exact handOutMetas_sepR rest s h
    · exact handOutMetas_sepR rest _ (SepR.handOutMeta h _)

theorem bucketsOf_sep {s : State} (h : Sep s) : Sep (bucketsOf s).1 := by
  have h1 := handOutMetas_sepR (s.store.map (fun p => (p.1, p.2.1))) s h
  have h2 := handOutMetas_store (s.store.map (fun p => (p.1, p.2.1))) s
  unfold Sep
  show SepR (storeObjOf (handOutMetas s _).1.store) (handOutMetas s _).1
  rw [h2]
  exact h1

/-! ## events -/

theorem replaceRefs_cons (eid : Option Int) (o : EvObj) (s : State) (r : Ref) (rs : List Ref) :
    replaceRefs eid o s (r :: rs) =
      if idOf s r = eid then
        ((replaceRefs eid o (deepEv s { o with id := eid }).1 rs).1,
          (deepEv s { o with id := eid }).2 :: (replaceRefs eid o (deepEv s { o with id := eid }).1 rs).2)
      else ((replaceRefs eid o s rs).1, r :: (replaceRefs eid o s rs).2) := by
  rw [replaceRefs]

/-- the loop of `replace`: the deep copies it makes are roots, nothing else changes -/
theorem replaceRefs_sepR (eid : Option Int) (o : EvObj) : ∀ (evs : List Ref) (s : State)
    (R : Ref → Prop), SepR R s → (∀ r ∈ evs, R r) →
    SepR (fun x => R x ∨ x ∈ (replaceRefs eid o s evs).2) (replaceRefs eid o s evs).1
  | [], s, R, h, _ => h.mono (fun r hr => by
      rcases hr with hr | hr
      · exact hr
      · cases hr)
  | r :: rs, s, R, h, hin => by
    rw [replaceRefs_cons]
    split
    · have h1 := SepR.deepEv h { o with id := eid }
      have ih := replaceRefs_sepR eid o rs _ _ h1
        (fun x hx => Or.inl (hin x (List.mem_cons_of_mem _ hx)))
      refine ih.mono (fun x hx => ?_)
      rcases hx with hx | hx
      · exact Or.inl (Or.inl hx)
      · rcases List.mem_cons.mp hx with rfl | hx
        · exact Or.inl (Or.inr rfl)
        · exact Or.inr hx
    · have ih := replaceRefs_sepR eid o rs s R h (fun x hx => hin x (List.mem_cons_of_mem _ hx))
      refine ih.mono (fun x hx => ?_)
      rcases hx with hx | hx
      · exact Or.inl hx
      · rcases List.mem_cons.mp hx with rfl | hx
        · exact Or.inl (hin _ (List.mem_cons_self ..))
        · exact Or.inr hx

theorem replace_sep {s : State} (h : Sep s) (b : String) (eid : Option Int) (r : Ref) :
    Sep (replace s b eid r).1 := by
  unfold replace
  split
  · exact h
  split
  · exact h
  rename_i o _
  split
  · exact h
  rename_i mr evs hl
  have hr := storeObjOf_lookup hl
  show Sep { (replaceRefs eid o s evs).1 with store := _ }
  refine Sep.of (replaceRefs_sepR eid o evs s _ h hr.2) _ ?_
  intro x hx
  rcases storeObjOf_setKey hx with hx | rfl | hx
  · exact Or.inl hx
  · exact Or.inl hr.1
  · exact Or.inr hx

theorem insertOne_sep {s : State} (h : Sep s) (b : String) (r : Ref) : Sep (insertOne s b r).1 := by
  unfold insertOne insertOneWith
  split
  · exact h
  split
  · exact h
  rename_i hcr _ o ho
  have hheld : s.client r = true := by simpa using hcr
  split
  · rename_i eid _
    have := replace_sep h b (some eid) r
    split
    · rename_i s' heq
      rw [heq] at this
      exact this
    · exact this
  · split
    · exact h
    rename_i mr evs hl
    have hr := storeObjOf_lookup hl
    simp only [if_true]
    show Sep { (deepEv (allocHeld s _).1 _).1 with store := _ }
    refine Sep.of (SepR.deepEv (SepR.allocHeld h _ ?_) _) _ ?_
    · intro d hd
      simp only [cellRef, Option.some.injEq] at hd
      subst hd
      exact h.closed r hheld _ (dataRefOf_evAt ho)
    intro x hx
    rcases storeObjOf_setKey hx with hx | rfl | hx
    · exact Or.inl hx
    · exact Or.inl hr.1
    · rcases List.mem_append.mp hx with hx | hx
      · exact Or.inl (hr.2 x hx)
      · exact Or.inr (List.mem_singleton.mp hx)

theorem insertMany_sep (b : String) : ∀ (rs : List Ref) {s : State}, Sep s → Sep (insertMany s b rs).1
  | [], _, h => h
  | r :: rs, s, h => by
    have h1 := insertOne_sep h b r
    unfold insertMany
    split
    · rename_i s' e heq
      rw [heq] at h1
      exact h1
    · rename_i s' res _ heq
      rw [heq] at h1
      exact insertMany_sep b rs h1

theorem replaceLast_sep {s : State} (h : Sep s) (b : String) (r : Ref) :
    Sep (replaceLast s b r).1 := by
  unfold replaceLast
  split
  · exact h
  split
  · exact h
  · exact replace_sep h b _ r

theorem removeLast_sub (s : State) (evs : List Ref) (eid : Int) :
    ∀ r ∈ (removeLast s evs eid).1, r ∈ evs := by
  intro r hr
  unfold removeLast at hr
  cases hf : List.findIdx? (fun x => decide (idOf s x = some eid)) evs.reverse with
  | none => simp only [hf] at hr; exact hr
  | some i =>
    simp only [hf, List.mem_reverse] at hr
    exact List.mem_reverse.mp (List.mem_of_mem_eraseIdx hr)

theorem delete_sep {s : State} (h : Sep s) (b : String) (eid : Int) : Sep (delete s b eid).1 := by
  unfold delete
  split
  · exact h
  rename_i mr evs hl
  have hr := storeObjOf_lookup hl
  refine Sep.of h _ ?_
  intro x hx
  rcases storeObjOf_setKey hx with hx | rfl | hx
  · exact hx
  · exact hr.1
  · exact hr.2 x (removeLast_sub s evs eid x hx)

theorem getEvent_sep {s : State} (h : Sep s) (b : String) (eid : Int) : Sep (getEvent s b eid).1 := by
  unfold getEvent
  split
  · exact h
  split
  · exact h
  split
  · exact h
  · exact SepR.handOutEv h _

theorem handOutEvs_store : ∀ (l : List Ref) (s : State), (handOutEvs s l).1.store = s.store
  | [], _ => rfl
  | x :: rest, s => by
    unfold handOutEvs
    split
    · exact handOutEvs_store rest s
    · exact handOutEvs_store rest _

theorem handOutEvs_sepR {R : Ref → Prop} : ∀ (l : List Ref) (s : State), SepR R s →
    SepR R (handOutEvs s l).1
  | [], _, h => h
  | x :: rest, s, h => by
    unfold handOutEvs
    split
    · exact handOutEvs_sepR rest s h
    · exact handOutEvs_sepR rest _ (SepR.handOutEv h _)

theorem getEvents_sep {s : State} (h : Sep s) (b : String) (limit : Int) (st en : Option Int) :
    Sep (getEvents s b limit st en).1 := by
  unfold getEvents
  split
  · exact h
  · show SepR (storeObjOf (handOutEvs s _).1.store) (handOutEvs s _).1
    rw [handOutEvs_store]
    exact handOutEvs_sepR _ s h

/-- every API step preserves the separation invariant -/
theorem api_sep {s : State} (h : Sep s) (a : Api) : Sep (api s a).1 := by
  cases a with
  | createBucket b m d => exact createBucket_sep h b m d
  | updateBucket b u d => exact updateBucket_sep h b u d
  | deleteBucket b => exact deleteBucket_sep h b
  | getMetadata b => exact getMetadata_sep h b
  | buckets => exact bucketsOf_sep h
  | insertOne b r => exact insertOne_sep h b r
  | insertMany b rs => exact insertMany_sep b rs h
  | replace b eid r => exact replace_sep h b eid r
  | replaceLast b r => exact replaceLast_sep h b r
  | delete b eid => exact delete_sep h b eid
  | getEvent b eid => exact getEvent_sep h b eid
  | getEvents b l st en => exact getEvents_sep h b l st en

end Aw.Store.Heap
