import AwModel.Config
/-!
# Lemmas about the model of aw_core/config.py (`_merge` part)
-/
namespace AwProofs.Config
open Aw.Config
variable {V : Type}

/-! ## well-formed trees: dicts have unique keys, hereditarily -/

mutual
def TWF : Toml V → Prop
  | .leaf _ => True
  | .table es => EWF es
def EWF : Entries V → Prop
  | .nil => True
  | .cons k t r => r.lookup k = none ∧ TWF t ∧ EWF r
end

theorem EWF_lookup : ∀ (es : Entries V) (k : String) (t : Toml V), EWF es → es.lookup k = some t → TWF t
  | .nil, _, _, _, h => by simp [Entries.lookup] at h
  | .cons k' t' r, k, t, hw, h => by
    simp only [EWF] at hw
    simp only [Entries.lookup] at h
    by_cases hk : k' = k
    · simp [hk] at h; subst h; exact hw.2.1
    · simp [hk] at h; exact EWF_lookup r k t hw.2.2 h

/-! ## lookup after upd -/

theorem lookup_upd_same (f : Option (Toml V) → Toml V) :
    ∀ (es : Entries V) (k : String), (es.upd f k).lookup k = some (f (es.lookup k))
  | .nil, k => by simp [Entries.upd, Entries.lookup]
  | .cons k' t r, k => by
    by_cases hk : k' = k
    · simp [Entries.upd, Entries.lookup, hk]
    · simp [Entries.upd, Entries.lookup, hk, lookup_upd_same f r k]

theorem lookup_upd_other (f : Option (Toml V) → Toml V) :
    ∀ (es : Entries V) (k k' : String), k ≠ k' → (es.upd f k).lookup k' = es.lookup k'
  | .nil, k, k', h => by simp [Entries.upd, Entries.lookup, h]
  | .cons k0 t r, k, k', h => by
    by_cases hk : k0 = k
    · subst hk; simp [Entries.upd, Entries.lookup, h]
    · by_cases hk' : k0 = k'
      · subst hk'; simp [Entries.upd, Entries.lookup, hk]
      · simp [Entries.upd, Entries.lookup, hk, hk', lookup_upd_other f r k k' h]

theorem upd_id (f : Option (Toml V) → Toml V) :
    ∀ (es : Entries V) (k : String) (t : Toml V), es.lookup k = some t → f (some t) = t → es.upd f k = es
  | .nil, _, _, h, _ => by simp [Entries.lookup] at h
  | .cons k' t' r, k, t, h, hf => by
    by_cases hk : k' = k
    · simp [Entries.lookup, hk] at h; subst h; simp [Entries.upd, hk, hf]
    · simp [Entries.lookup, hk] at h; simp [Entries.upd, hk, upd_id f r k t h hf]

/-! ## `_merge`: what is under a key afterwards -/

theorem mergeE_nil (a : Entries V) : mergeE .nil a = a := by simp [mergeE]

theorem mergeE_cons (k : String) (bv : Toml V) (rest a : Entries V) :
    mergeE (.cons k bv rest) a =
      mergeE rest (a.upd (fun | some av => combine bv av | none => bv) k) := by
  rw [mergeE]; rfl

theorem lookup_mergeE : ∀ (b a : Entries V) (k : String), EWF b →
    (mergeE b a).lookup k =
      match b.lookup k with
      | some bv => some (match a.lookup k with | some av => combine bv av | none => bv)
      | none => a.lookup k
  | .nil, a, k, _ => by simp [mergeE_nil, Entries.lookup]
  | .cons k' bv rest, a, k, hw => by
    simp only [EWF] at hw
    rw [mergeE_cons, lookup_mergeE rest _ k hw.2.2]
    by_cases hk : k' = k
    · subst hk
      simp only [hw.1, Entries.lookup, if_true, lookup_upd_same]
    · simp only [Entries.lookup, hk, if_false, lookup_upd_other _ a k' k hk]


/-! ## the overlay by paths -/

theorem combine_leaf (y : V) (d : Toml V) : combine (.leaf y) d = .leaf y := by
  cases d <;> simp [combine]

theorem combine_table_leaf (eb : Entries V) (x : V) : combine (.table eb) (.leaf x) = .table eb := by
  simp [combine]

theorem combine_table_table (eb ea : Entries V) :
    combine (.table eb) (.table ea) = .table (mergeE eb ea) := by
  simp [combine]

/-- Master lemma: what `_merge` leaves at a path. `u` is the user's side, `d` the default's. -/
theorem get_combine : ∀ (p : Path) (u d : Toml V), TWF u →
    (combine u d).get? p =
      match u.get? p with
      | some ut => some (match d.get? p with | some dt => combine ut dt | none => ut)
      | none => if u.leafAbove p then none else d.get? p
  | [], u, d, _ => by simp [Toml.get?]
  | k :: p, .leaf y, d, _ => by
    simp [combine_leaf, Toml.get?, Toml.leafAbove]
  | k :: p, .table eb, .leaf x, _ => by
    rw [combine_table_leaf]
    cases h : (Toml.table eb).get? (k :: p) <;> simp [Toml.get?]
  | k :: p, .table eb, .table ea, hw => by
    rw [combine_table_table]
    simp only [TWF] at hw
    cases hb : eb.lookup k with
    | none => simp [Toml.get?, Toml.leafAbove, lookup_mergeE eb ea k hw, hb]
    | some bv =>
      have hbv : TWF bv := EWF_lookup eb k bv hw hb
      cases ha : ea.lookup k with
      | none =>
        simp only [Toml.get?, Toml.leafAbove, lookup_mergeE eb ea k hw, hb, ha]
        cases bv.get? p <;> simp
      | some av =>
        simp only [Toml.get?, Toml.leafAbove, lookup_mergeE eb ea k hw, hb, ha]
        exact get_combine p bv av hbv

theorem get_prefix : ∀ (q r : Path) (t x : Toml V), t.get? (q ++ r) = some x → ∃ y, t.get? q = some y
  | [], _, t, _, _ => ⟨t, by simp [Toml.get?]⟩
  | k :: q, r, .leaf _, x, h => by simp [Toml.get?] at h
  | k :: q, r, .table es, x, h => by
    simp only [List.cons_append, Toml.get?] at h ⊢
    cases hl : es.lookup k with
    | none => simp [hl] at h
    | some t => simp only [hl] at h ⊢; exact get_prefix q r t x h

/-- a path below which something is defined leads through tables only -/
theorem table_of_get_append : ∀ (q r : Path) (t x : Toml V), r ≠ [] → t.get? (q ++ r) = some x →
    t.tableAt q = true
  | [], r, .leaf _, x, hr, h => by
    cases r with
    | nil => exact absurd rfl hr
    | cons a r => simp [Toml.get?] at h
  | [], _, .table _, _, _, _ => by simp [Toml.tableAt, Toml.get?]
  | k :: q, r, .leaf _, x, _, h => by simp [Toml.get?] at h
  | k :: q, r, .table es, x, hr, h => by
    simp only [List.cons_append, Toml.get?, Toml.tableAt] at h ⊢
    cases hl : es.lookup k with
    | none => simp [hl] at h
    | some t =>
      simp only [hl] at h ⊢
      have := table_of_get_append q r t x hr h
      simpa [Toml.tableAt] using this

/-- `leafAbove` says: some proper prefix of the path is a leaf -/
theorem leafAbove_iff : ∀ (p : Path) (t : Toml V),
    t.leafAbove p = true ↔ ∃ q, q <+: p ∧ q ≠ p ∧ (t.leafAt q).isSome
  | [], .leaf v => by
    simp only [Toml.leafAbove, Bool.false_eq_true, false_iff]
    rintro ⟨q, hq, hne, _⟩
    exact hne (List.prefix_nil.mp hq)
  | [], .table es => by
    simp only [Toml.leafAbove, Bool.false_eq_true, false_iff]
    rintro ⟨q, hq, hne, _⟩
    exact hne (List.prefix_nil.mp hq)
  | k :: p, .leaf v => by
    simp only [Toml.leafAbove, true_iff]
    exact ⟨[], List.nil_prefix, by simp, by simp [Toml.leafAt, Toml.get?]⟩
  | k :: p, .table es => by
    simp only [Toml.leafAbove]
    cases hl : es.lookup k with
    | none =>
      simp only [Bool.false_eq_true, false_iff]
      rintro ⟨q, hq, hne, hs⟩
      cases q with
      | nil => simp [Toml.leafAt, Toml.get?] at hs
      | cons a q =>
        obtain ⟨rfl, _⟩ := List.cons_prefix_cons.mp hq
        simp [Toml.leafAt, Toml.get?, hl] at hs
    | some t =>
      simp only []
      rw [leafAbove_iff p t]
      constructor
      · rintro ⟨q, hq, hne, hs⟩
        refine ⟨k :: q, List.cons_prefix_cons.mpr ⟨rfl, hq⟩, by simpa using hne, ?_⟩
        simpa [Toml.leafAt, Toml.get?, hl] using hs
      · rintro ⟨q, hq, hne, hs⟩
        cases q with
        | nil => simp [Toml.leafAt, Toml.get?] at hs
        | cons a q =>
          obtain ⟨rfl, hq'⟩ := List.cons_prefix_cons.mp hq
          refine ⟨q, hq', by simpa using hne, ?_⟩
          simpa [Toml.leafAt, Toml.get?, hl] using hs

/-! ## skeletons -/

mutual
/-- `s` has no leaves and every table of `s` is a table of `d` (recursive form) -/
def TSkel : Toml V → Toml V → Prop
  | .leaf _, _ => False
  | .table es, d =>
    match d with
    | .table ed => ESkel es ed
    | .leaf _ => False
def ESkel : Entries V → Entries V → Prop
  | .nil, _ => True
  | .cons k t r, ed => (∃ dt, ed.lookup k = some dt ∧ TSkel t dt) ∧ ESkel r ed
end

mutual
theorem combine_skel : ∀ (s d : Toml V), TSkel s d → combine s d = d
  | .leaf _, _, h => by simp [TSkel] at h
  | .table _, .leaf _, h => by simp [TSkel] at h
  | .table es, .table ed, h => by
    simp only [TSkel] at h
    rw [combine_table_table, mergeE_skel es ed h]
theorem mergeE_skel : ∀ (es ed : Entries V), ESkel es ed → mergeE es ed = ed
  | .nil, ed, _ => mergeE_nil ed
  | .cons k t r, ed, h => by
    simp only [ESkel] at h
    obtain ⟨⟨dt, hl, hs⟩, hr⟩ := h
    rw [mergeE_cons, upd_id _ ed k dt hl (by simpa using combine_skel t dt hs)]
    exact mergeE_skel r ed hr
end

/-- path form of "leafless, and every table of `s` is a table of `d`" -/
def PathSkel (s d : Toml V) : Prop :=
  ∀ p, s.leafAt p = none ∧ (s.tableAt p = true → d.tableAt p = true)

theorem get_cons_of_ne {k k' : String} (t : Toml V) (r : Entries V) (p : Path) (h : k ≠ k') :
    (Toml.table (.cons k t r)).get? (k' :: p) = (Toml.table r).get? (k' :: p) := by
  simp [Toml.get?, Entries.lookup, h]

mutual
theorem tskel_of_paths : ∀ (s d : Toml V), TWF s → PathSkel s d → TSkel s d
  | .leaf v, d, _, h => by
    have := (h []).1
    simp [Toml.leafAt, Toml.get?] at this
  | .table es, .leaf x, _, h => by
    have := (h []).2
    simp [Toml.tableAt, Toml.get?] at this
  | .table es, .table ed, hw, h => by
    simp only [TSkel]
    simp only [TWF] at hw
    exact eskel_of_paths es ed hw h
theorem eskel_of_paths : ∀ (es ed : Entries V), EWF es → PathSkel (.table es) (.table ed) → ESkel es ed
  | .nil, _, _, _ => by simp [ESkel]
  | .cons k t r, ed, hw, h => by
    simp only [EWF] at hw
    simp only [ESkel]
    refine ⟨?_, ?_⟩
    · -- the entry under `k`
      cases t with
      | leaf v =>
        have := (h [k]).1
        simp [Toml.leafAt, Toml.get?, Entries.lookup] at this
      | table et =>
        have h1 := (h [k]).2
        simp only [Toml.tableAt, Toml.get?, Entries.lookup, if_true, forall_const] at h1
        cases hl : ed.lookup k with
        | none => simp [hl] at h1
        | some dt =>
          cases dt with
          | leaf x => simp [hl] at h1
          | table edt =>
            refine ⟨.table edt, rfl, ?_⟩
            apply tskel_of_paths (.table et) (.table edt) hw.2.1
            intro p
            have := h (k :: p)
            simpa [Toml.leafAt, Toml.tableAt, Toml.get?, Entries.lookup, hl] using this
    · -- the remaining entries: their keys differ from `k`
      apply eskel_of_paths r ed hw.2.2
      intro p
      cases p with
      | nil => simp [Toml.leafAt, Toml.tableAt, Toml.get?]
      | cons k' p =>
        by_cases hk : k = k'
        · subst hk
          simp [Toml.leafAt, Toml.tableAt, Toml.get?, hw.1]
        · have := h (k' :: p)
          simpa [Toml.leafAt, Toml.tableAt, get_cons_of_ne t r p hk] using this
end

theorem tableAt_prefix (t : Toml V) (q p : Path) (hq : q <+: p) (h : t.tableAt p = true) :
    t.tableAt q = true := by
  obtain ⟨r, rfl⟩ := hq
  by_cases hr : r = []
  · subst hr; simpa using h
  · cases hg : t.get? (q ++ r) with
    | none => simp [Toml.tableAt, hg] at h
    | some x => exact table_of_get_append q r t x hr hg

end AwProofs.Config
