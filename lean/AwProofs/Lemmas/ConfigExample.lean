import AwProofs.Lemmas.ConfigFirstRun
/-!
# A concrete instance of the hypotheses of `C20.first_run_identity` (used by its `example`)

`exParse` is a toy parser that satisfies `ParserSpec` (every header names the path `["a"]`), and
`exText` a default document with a comment, a table, a blank line, an array of tables and a
sub-table header after it.
-/
namespace AwProofs.Config
open Aw.Config

def exText : Text := "# defaults\n[a]\nx = 1\n\n  [[b]]\ny = 2\n[a.c]\nz = 3".toList

def exParse (s : Text) : Option (Entries Nat) :=
  if s = exText then
    some (.ofList [("a", .table (.ofList [("x", .leaf 1)])),
      ("b", .leaf 0 /- the array of tables: a leaf for `_merge` -/)])
  else if ((splitNl s).filter isPlainHeader).isEmpty then some .nil
  else some (.cons "a" (.table .nil) .nil)

def exHdr (_ : Text) : Option Path := some ["a"]

theorem exSpec : ParserSpec exParse exHdr := by
  constructor
  intro s hl _
  by_cases h0 : s = exText
  · subst h0
    have : ∀ l ∈ splitNl exText,
        ¬ (tomlBlank l ∨ isCommentLine l = true ∨ (isPlainHeader l = true ∧ (exHdr (pyStrip l)).isSome = true)) →
        False := fun l hm hn => hn (hl l hm)
    exact absurd (hl "x = 1".toList (by decide)) (by
      simp only [tomlBlank]
      decide)
  · by_cases he : ((splitNl s).filter isPlainHeader).isEmpty = true
    · refine ⟨.nil, by simp [exParse, h0, he], by simp [EWF], ?_, ?_⟩
      · intro p; cases p <;> simp [Toml.leafAt, Toml.get?, Entries.lookup]
      · intro q hq hne
        cases q with
        | nil => exact absurd rfl hne
        | cons k q => simp [Toml.tableAt, Toml.get?, Entries.lookup] at hq
    · refine ⟨.cons "a" (.table .nil) .nil, by simp [exParse, h0, he], by simp [EWF, TWF, Entries.lookup], ?_, ?_⟩
      · intro p
        cases p with
        | nil => simp [Toml.leafAt, Toml.get?]
        | cons k p =>
          by_cases hk : "a" = k
          · cases p <;> simp [Toml.leafAt, Toml.get?, Entries.lookup, hk]
          · simp [Toml.leafAt, Toml.get?, Entries.lookup, hk]
      · intro q hq hne
        cases q with
        | nil => exact absurd rfl hne
        | cons k q =>
          by_cases hk : "a" = k
          · cases q with
            | nil =>
              cases hf : (splitNl s).filter isPlainHeader with
              | nil => simp [hf] at he
              | cons l ls =>
                have hm : l ∈ (splitNl s).filter isPlainHeader := by simp [hf]
                obtain ⟨hm1, hm2⟩ := List.mem_filter.mp hm
                exact ⟨l, hm1, hm2, ["a"], rfl, by simp [hk]⟩
            | cons k2 q => simp [Toml.tableAt, Toml.get?, Entries.lookup, hk] at hq
          · simp [Toml.tableAt, Toml.get?, Entries.lookup, hk] at hq

theorem exOne : OneLinePerValue exHdr exText
    (.ofList [("a", .table (.ofList [("x", .leaf 1)])), ("b", .leaf 0)] : Entries Nat) := by
  have hk : keptHeaders exText = ["[a]".toList] := by decide
  refine ⟨?_, ?_, ?_⟩
  · have : ∀ l ∈ splitNl exText, isBlankLine l = true → l = [] := by decide
    intro l hm hb
    rw [this l hm hb]
    simp [tomlBlank]
  · intro l hm
    exact ⟨["a"], rfl, rfl⟩
  · rw [hk]; simp

end AwProofs.Config
