import AwModel.Intersect
namespace Aw.Intersect
end Aw.Intersect
