import AwModel.Intersect
/-!
Helper lemmas for C09: the stable insertion sort (membership, sortedness, transport of symmetric
pairwise relations and of sums), `Timeslot.intersection`, the two-pointer sweep of
`_intersecting_eventpairs`, the loop of `period_union`.
-/
namespace Aw
variable {α : Type}

/-! ## `sortBy` -/

theorem mem_insertBy (key : α → Int) (x y : α) (l : List α) :
    y ∈ insertBy key x l ↔ y = x ∨ y ∈ l := by
  induction l with
  | nil => simp [insertBy]
  | cons z zs ih =>
    unfold insertBy
    split
    · simp
    · simp [ih]; grind

theorem mem_sortBy (key : α → Int) (y : α) (l : List α) : y ∈ sortBy key l ↔ y ∈ l := by
  induction l with
  | nil => simp [sortBy]
  | cons z zs ih => simp [sortBy, mem_insertBy, ih]

theorem pairwise_insertBy_sorted (key : α → Int) (x : α) (l : List α)
    (h : l.Pairwise (fun a b => key a ≤ key b)) :
    (insertBy key x l).Pairwise (fun a b => key a ≤ key b) := by
  induction l with
  | nil => simp [insertBy]
  | cons z zs ih =>
    have hz := List.pairwise_cons.1 h
    unfold insertBy
    split
    · rename_i hle
      refine List.pairwise_cons.2 ⟨?_, h⟩
      intro y hy
      rcases List.mem_cons.1 hy with rfl | hy
      · exact hle
      · have := hz.1 y hy; omega
    · rename_i hgt
      refine List.pairwise_cons.2 ⟨?_, ih hz.2⟩
      intro y hy
      rcases (mem_insertBy key x y zs).1 hy with rfl | hy
      · omega
      · exact hz.1 y hy

/-- the output of the sort is ordered by the key -/
theorem sortBy_sorted (key : α → Int) (l : List α) :
    (sortBy key l).Pairwise (fun a b => key a ≤ key b) := by
  induction l with
  | nil => simp [sortBy]
  | cons z zs ih => exact pairwise_insertBy_sorted key z _ ih

theorem pairwise_insertBy_symm (key : α → Int) (R : α → α → Prop) (hs : ∀ a b, R a b → R b a)
    (x : α) (l : List α) (hx : ∀ y ∈ l, R x y) (h : l.Pairwise R) :
    (insertBy key x l).Pairwise R := by
  induction l with
  | nil => simp [insertBy]
  | cons z zs ih =>
    have hz := List.pairwise_cons.1 h
    unfold insertBy
    split
    · exact List.pairwise_cons.2 ⟨hx, h⟩
    · refine List.pairwise_cons.2 ⟨?_, ih (fun y hy => hx y (List.mem_cons_of_mem _ hy)) hz.2⟩
      intro y hy
      rcases (mem_insertBy key x y zs).1 hy with rfl | hy
      · exact hs _ _ (hx z (by simp))
      · exact hz.1 y hy

/-- a symmetric relation that holds between any two elements still does after sorting -/
theorem pairwise_sortBy_symm (key : α → Int) (R : α → α → Prop) (hs : ∀ a b, R a b → R b a)
    (l : List α) (h : l.Pairwise R) : (sortBy key l).Pairwise R := by
  induction l with
  | nil => simp [sortBy]
  | cons z zs ih =>
    have hz := List.pairwise_cons.1 h
    exact pairwise_insertBy_symm key R hs z _
      (fun y hy => hz.1 y ((mem_sortBy key y zs).1 hy)) (ih hz.2)

theorem sum_map_insertBy (key : α → Int) (f : α → Int) (x : α) (l : List α) :
    ((insertBy key x l).map f).sum = f x + (l.map f).sum := by
  induction l with
  | nil => simp [insertBy]
  | cons z zs ih =>
    unfold insertBy
    split
    · simp
    · simp [ih]; omega

/-- sums over a list do not change when it is sorted -/
theorem sum_map_sortBy (key : α → Int) (f : α → Int) (l : List α) :
    ((sortBy key l).map f).sum = (l.map f).sum := by
  induction l with
  | nil => simp [sortBy]
  | cons z zs ih => simp [sortBy, sum_map_insertBy, ih]

end Aw

namespace Aw.Intersect
open Aw
variable {D : Type}
set_option linter.unusedSectionVars false

/-! ## `Timeslot.intersection` -/

/-- slots overlapping for a positive time intersect in `[max start, min end]` -/
theorem inter_of_pos (a b : Slot) (h : max a.s b.s < min a.e b.e) :
    a.intersection b = some ⟨max a.s b.s, min a.e b.e⟩ := by
  obtain ⟨as, ae⟩ := a
  obtain ⟨bs, be⟩ := b
  unfold Slot.intersection Slot.contains
  simp only at h ⊢
  grind

/-- for slots with `start ≤ end`, an intersection is `[max start, min end]` and is not inverted -/
theorem inter_sound (a b ip : Slot) (ha : a.s ≤ a.e) (hb : b.s ≤ b.e)
    (h : a.intersection b = some ip) :
    ip.s = max a.s b.s ∧ ip.e = min a.e b.e ∧ ip.s ≤ ip.e := by
  unfold Slot.intersection Slot.contains at h
  grind

/-- when `intersection` returns `None`, one slot ends before the other starts: the `else` of the
    sweep's `elif e2_p.end <= e1_p.start` cannot be entered (for any slots, even inverted ones) -/
theorem inter_none (a b : Slot) (h : a.intersection b = none) : a.e ≤ b.s ∨ b.e ≤ a.s := by
  unfold Slot.intersection Slot.contains at h
  grind

/-! ## hypotheses on event lists -/

/-- every duration is non-negative -/
def Nonneg (l : List (Ev D)) : Prop := ∀ x ∈ l, 0 ≤ x.dur

/-- every timestamp is a multiple of 1 ms (what the `Event.timestamp` setter guarantees) -/
def MsAligned (l : List (Ev D)) : Prop := ∀ x ∈ l, x.ts % 1000 = 0

/-- two events share no positive amount of time -/
def Disj (x y : Ev D) : Prop := x.ts + x.dur ≤ y.ts ∨ y.ts + y.dur ≤ x.ts

/-- no two events of the list (at different positions) share a positive amount of time -/
def NonOverlap (l : List (Ev D)) : Prop := l.Pairwise Disj

/-- ordered by timestamp -/
def SortedTs (l : List (Ev D)) : Prop := l.Pairwise (fun a b => a.ts ≤ b.ts)

theorem Disj.symm {x y : Ev D} (h : Disj x y) : Disj y x := Or.symm h

/-- a list as the sweep sees it: sorted by timestamp, non-overlapping, durations ≥ 0 -/
structure Ready (l : List (Ev D)) : Prop where
  sorted : SortedTs l
  disj : NonOverlap l
  nonneg : Nonneg l

theorem Ready.tail {a : Ev D} {l : List (Ev D)} (h : Ready (a :: l)) : Ready l :=
  ⟨(List.pairwise_cons.1 h.sorted).2, (List.pairwise_cons.1 h.disj).2,
   fun x hx => h.nonneg x (List.mem_cons_of_mem _ hx)⟩

/-- a later event of positive length starts after the head has ended -/
theorem Ready.head_before {a x : Ev D} {l : List (Ev D)} (h : Ready (a :: l)) (hx : x ∈ l) :
    a.ts ≤ x.ts ∧ 0 ≤ a.dur ∧ 0 ≤ x.dur ∧ (0 < x.dur → a.ts + a.dur ≤ x.ts) := by
  have h1 := (List.pairwise_cons.1 h.sorted).1 x hx
  have h2 := (List.pairwise_cons.1 h.disj).1 x hx
  have h3 := h.nonneg a (by simp)
  have h4 := h.nonneg x (List.mem_cons_of_mem _ hx)
  unfold Disj at h2
  refine ⟨h1, h3, h4, ?_⟩
  intro; omega

theorem ready_sortBy (l : List (Ev D)) (hd : NonOverlap l) (hn : Nonneg l) :
    Ready (sortBy (·.ts) l) :=
  ⟨sortBy_sorted _ l, pairwise_sortBy_symm _ Disj (fun _ _ h => h.symm) l hd,
   fun x hx => hn x ((mem_sortBy _ x l).1 hx)⟩

/-! ## the sweep -/

/-- whatever the loop yields is a pair of events of the two lists with their
    `Timeslot.intersection` -/
theorem sweep_sound (A B : List (Ev D)) (a b : Ev D) (ip : Slot)
    (h : Step.pair a b ip ∈ sweep A B) :
    a ∈ A ∧ b ∈ B ∧ (period a).intersection (period b) = some ip := by
  fun_induction sweep A B
  case case1 => simp at h
  case case2 => simp at h
  case case3 a0 as b0 bs ip0 hi ih2 ih1 =>
    rcases List.mem_cons.1 h with h | h
    · cases h; simp [hi]
    · split at h
      · have := ih2 h; simp_all
      · have := ih1 h; simp_all
  case case4 a0 as b0 bs hi hle ih => have := ih h; simp_all
  case case5 a0 as b0 bs hi hn hle ih => have := ih h; simp_all
  case case6 a0 as b0 bs hi h1 h2 ih =>
    rcases List.mem_cons.1 h with h | h
    · cases h
    · have := ih h; simp_all

/-- the branch the source marks "Should be unreachable" is never taken, for any two lists -/
theorem sweep_dead (A B : List (Ev D)) : Step.unreachable ∉ sweep A B := by
  fun_induction sweep A B
  case case1 => simp
  case case2 => simp
  case case3 a0 as b0 bs ip0 hi ih2 ih1 =>
    intro h
    rcases List.mem_cons.1 h with h | h
    · cases h
    · split at h
      · exact ih2 h
      · exact ih1 h
  case case4 => assumption
  case case5 => assumption
  case case6 a0 as b0 bs hi h1 h2 ih =>
    exfalso
    have := inter_none _ _ hi
    omega

/-- positive overlap of two events -/
def PosOverlap (a b : Ev D) : Prop := max a.ts b.ts < min (a.ts + a.dur) (b.ts + b.dur)

/-- every pair of events overlapping for a positive time is yielded, with `[max start, min end]` -/
theorem sweep_complete (A B : List (Ev D)) (hA : Ready A) (hB : Ready B) (a b : Ev D)
    (ha : a ∈ A) (hb : b ∈ B) (h : PosOverlap a b) :
    Step.pair a b ⟨max a.ts b.ts, min (a.ts + a.dur) (b.ts + b.dur)⟩ ∈ sweep A B := by
  fun_induction sweep A B
  case case1 => simp at ha
  case case2 => simp at hb
  case case3 a0 as b0 bs ip hi ih2 ih1 =>
    unfold PosOverlap at h
    by_cases hle : (period a0).e ≤ (period b0).e
    · simp only [hle, if_true]
      rcases List.mem_cons.1 ha with rfl | ha'
      · rcases List.mem_cons.1 hb with rfl | hb'
        · rw [inter_of_pos _ _ (by simpa [period] using h)] at hi
          cases hi; simp [period]
        · exfalso
          have := hB.head_before hb'
          simp only [period] at hle
          omega
      · exact List.mem_cons_of_mem _ (ih2 hA.tail hB ha' hb)
    · simp only [hle, if_false]
      rcases List.mem_cons.1 hb with rfl | hb'
      · rcases List.mem_cons.1 ha with rfl | ha'
        · rw [inter_of_pos _ _ (by simpa [period] using h)] at hi
          cases hi; simp [period]
        · exfalso
          have := hA.head_before ha'
          simp only [period] at hle
          omega
      · exact List.mem_cons_of_mem _ (ih1 hA hB.tail ha hb')
  case case4 a0 as b0 bs hi hle ih =>
    unfold PosOverlap at h
    simp only [period] at hle
    rcases List.mem_cons.1 ha with rfl | ha'
    · exfalso
      rcases List.mem_cons.1 hb with rfl | hb'
      · omega
      · have := hB.head_before hb'; omega
    · exact ih hA.tail hB ha' hb
  case case5 a0 as b0 bs hi hn hle ih =>
    unfold PosOverlap at h
    simp only [period] at hle
    rcases List.mem_cons.1 hb with rfl | hb'
    · exfalso
      rcases List.mem_cons.1 ha with rfl | ha'
      · omega
      · have := hA.head_before ha'; omega
    · exact ih hA hB.tail ha hb'
  case case6 a0 as b0 bs hi h1 h2 ih =>
    exfalso
    have := inter_none _ _ hi
    omega

end Aw.Intersect

namespace Aw.Intersect
open Aw
variable {D : Type}
set_option linter.unusedSectionVars false

/-! ## pieces -/

theorem mem_pieces (steps : List (Step D)) (p : Ev D) :
    p ∈ pieces steps ↔ ∃ a b ip, Step.pair a b ip ∈ steps ∧ p = replacePeriod a ip := by
  induction steps with
  | nil => simp [pieces]
  | cons st r ih =>
    cases st with
    | pair a b ip =>
      simp only [pieces, List.mem_cons, ih]
      constructor
      · rintro (h | ⟨a', b', ip', h, rfl⟩)
        · exact ⟨a, b, ip, Or.inl rfl, h⟩
        · exact ⟨a', b', ip', Or.inr h, rfl⟩
      · rintro ⟨a', b', ip', h | h, rfl⟩
        · cases h; exact Or.inl rfl
        · exact Or.inr ⟨a', b', ip', h, rfl⟩
    | unreachable =>
      simp only [pieces, List.mem_cons, ih]
      constructor
      · rintro ⟨a', b', ip', h, rfl⟩; exact ⟨a', b', ip', Or.inr h, rfl⟩
      · rintro ⟨a', b', ip', h | h, rfl⟩
        · cases h
        · exact ⟨a', b', ip', h, rfl⟩

/-- the event made from a yielded pair: `e1`'s id and data, period `[max start, min end]` -/
theorem piece_spec (a b : Ev D) (ip : Slot) (ha : 0 ≤ a.dur) (hb : 0 ≤ b.dur)
    (ma : a.ts % 1000 = 0) (mb : b.ts % 1000 = 0)
    (h : (period a).intersection (period b) = some ip) :
    (replacePeriod a ip).id = a.id ∧ (replacePeriod a ip).data = a.data ∧
    (replacePeriod a ip).ts = max a.ts b.ts ∧
    (replacePeriod a ip).ts + (replacePeriod a ip).dur = min (a.ts + a.dur) (b.ts + b.dur) ∧
    0 ≤ (replacePeriod a ip).dur := by
  have := inter_sound _ _ ip (by simp [period]; omega) (by simp [period]; omega) h
  simp only [period] at this
  refine ⟨rfl, rfl, ?_, ?_, ?_⟩ <;> simp only [replacePeriod, msFloor, Slot.duration] <;> omega

/-- what is known of a piece of `sweep A B` -/
theorem piece_of_sweep (A B : List (Ev D)) (hA : Nonneg A) (hB : Nonneg B)
    (mA : MsAligned A) (mB : MsAligned B) (p : Ev D) (hp : p ∈ pieces (sweep A B)) :
    ∃ a ∈ A, ∃ b ∈ B, p.id = a.id ∧ p.data = a.data ∧ p.ts = max a.ts b.ts ∧
      p.ts + p.dur = min (a.ts + a.dur) (b.ts + b.dur) ∧ 0 ≤ p.dur := by
  obtain ⟨a, b, ip, hs, rfl⟩ := (mem_pieces _ p).1 hp
  obtain ⟨ha, hb, hi⟩ := sweep_sound A B a b ip hs
  exact ⟨a, ha, b, hb, piece_spec a b ip (hA a ha) (hB b hb) (mA a ha) (mB b hb) hi⟩

theorem Nonneg.tail {a : Ev D} {l : List (Ev D)} (h : Nonneg (a :: l)) : Nonneg l :=
  fun x hx => h x (List.mem_cons_of_mem _ hx)
theorem MsAligned.tail {a : Ev D} {l : List (Ev D)} (h : MsAligned (a :: l)) : MsAligned l :=
  fun x hx => h x (List.mem_cons_of_mem _ hx)

/-- pieces come out in time order and a piece of positive length starts only after every earlier
    piece has ended -/
theorem sweep_no_double (A B : List (Ev D)) (hA : Ready A) (hB : Ready B)
    (mA : MsAligned A) (mB : MsAligned B) :
    (pieces (sweep A B)).Pairwise (fun p q => 0 < q.dur → p.ts + p.dur ≤ q.ts) := by
  fun_induction sweep A B
  case case1 => simp [pieces]
  case case2 => simp [pieces]
  case case3 a0 as b0 bs ip hi ih2 ih1 =>
    have hp := piece_spec a0 b0 ip (hA.nonneg a0 (by simp)) (hB.nonneg b0 (by simp))
      (mA a0 (by simp)) (mB b0 (by simp)) hi
    simp only [pieces]
    by_cases hle : (period a0).e ≤ (period b0).e
    · simp only [hle, if_true]
      refine List.pairwise_cons.2 ⟨?_, ih2 hA.tail hB mA.tail mB⟩
      intro q hq hpos
      obtain ⟨a, ha, b, hb, -, -, h3, h4, -⟩ :=
        piece_of_sweep as (b0 :: bs) hA.tail.nonneg hB.nonneg mA.tail mB q hq
      have := hA.head_before ha
      simp only [period] at hle
      omega
    · simp only [hle, if_false]
      refine List.pairwise_cons.2 ⟨?_, ih1 hA hB.tail mA mB.tail⟩
      intro q hq hpos
      obtain ⟨a, ha, b, hb, -, -, h3, h4, -⟩ :=
        piece_of_sweep (a0 :: as) bs hA.nonneg hB.tail.nonneg mA mB.tail q hq
      have := hB.head_before hb
      simp only [period] at hle
      omega
  case case4 a0 as b0 bs hi hle ih => exact ih hA.tail hB mA.tail mB
  case case5 a0 as b0 bs hi hn hle ih => exact ih hA hB.tail mA mB.tail
  case case6 a0 as b0 bs hi h1 h2 ih =>
    exfalso
    have := inter_none _ _ hi
    omega

/-! ## total duration -/

/-- length of the time two events have in common -/
def ov (a b : Ev D) : Int := max 0 (min (a.ts + a.dur) (b.ts + b.dur) - max a.ts b.ts)

/-- `Σ duration` of a list of events -/
def durSum (l : List (Ev D)) : Int := (l.map (·.dur)).sum

def ovRow (a : Ev D) (B : List (Ev D)) : Int := (B.map (ov a)).sum
def ovCol (A : List (Ev D)) (b : Ev D) : Int := (A.map (fun a => ov a b)).sum

/-- `Σ_{a ∈ A} Σ_{b ∈ B} |a ∩ b|`: for two lists that are each free of internal overlap this is the
    measure of the time covered by both lists -/
def ovSum (A B : List (Ev D)) : Int := (A.map (fun a => ovRow a B)).sum

theorem ovSum_cons_left (a : Ev D) (A B : List (Ev D)) :
    ovSum (a :: A) B = ovRow a B + ovSum A B := by simp [ovSum]

theorem ovSum_cons_right (A : List (Ev D)) (b : Ev D) (B : List (Ev D)) :
    ovSum A (b :: B) = ovCol A b + ovSum A B := by
  induction A with
  | nil => simp [ovSum, ovCol]
  | cons a as ih =>
    rw [ovSum_cons_left, ovSum_cons_left, ih]
    simp [ovCol, ovRow]; omega

theorem ovRow_zero (a : Ev D) (B : List (Ev D)) (h : ∀ b ∈ B, ov a b = 0) : ovRow a B = 0 := by
  induction B with
  | nil => simp [ovRow]
  | cons b bs ih =>
    have h1 := h b (by simp)
    have h2 := ih (fun x hx => h x (List.mem_cons_of_mem _ hx))
    simp [ovRow] at h2 ⊢; omega

theorem ovCol_zero (A : List (Ev D)) (b : Ev D) (h : ∀ a ∈ A, ov a b = 0) : ovCol A b = 0 := by
  induction A with
  | nil => simp [ovCol]
  | cons a as ih =>
    have h1 := h a (by simp)
    have h2 := ih (fun x hx => h x (List.mem_cons_of_mem _ hx))
    simp [ovCol] at h2 ⊢; omega

theorem sweep_total (A B : List (Ev D)) (hA : Ready A) (hB : Ready B) :
    durSum (pieces (sweep A B)) = ovSum A B := by
  fun_induction sweep A B
  case case1 B => simp [pieces, durSum, ovSum]
  case case2 a0 as =>
    simp only [pieces, durSum, List.map_nil, List.sum_nil]
    generalize a0 :: as = A
    induction A with
    | nil => simp [ovSum]
    | cons a as ih => rw [ovSum_cons_left, ← ih]; simp [ovRow]
  case case3 a0 as b0 bs ip hi ih2 ih1 =>
    have wa := hA.nonneg a0 (by simp)
    have wb := hB.nonneg b0 (by simp)
    have hs := inter_sound _ _ ip (by simp [period]; omega) (by simp [period]; omega) hi
    simp only [period] at hs
    have hd : durSum (pieces (Step.pair a0 b0 ip :: (if (period a0).e ≤ (period b0).e
        then sweep as (b0 :: bs) else sweep (a0 :: as) bs))) =
        ov a0 b0 + durSum (pieces (if (period a0).e ≤ (period b0).e
        then sweep as (b0 :: bs) else sweep (a0 :: as) bs)) := by
      simp [pieces, durSum, replacePeriod, Slot.duration, ov]; omega
    rw [hd]
    by_cases hle : (period a0).e ≤ (period b0).e
    · simp only [hle, if_true]
      rw [ih2 hA.tail hB, ovSum_cons_left]
      have : ovRow a0 (b0 :: bs) = ov a0 b0 + ovRow a0 bs := by simp [ovRow]
      rw [this, ovRow_zero a0 bs]
      · omega
      · intro b hb
        have := hB.head_before hb
        simp only [period] at hle
        unfold ov; omega
    · simp only [hle, if_false]
      rw [ih1 hA hB.tail, ovSum_cons_right]
      have : ovCol (a0 :: as) b0 = ov a0 b0 + ovCol as b0 := by simp [ovCol]
      rw [this, ovCol_zero as b0]
      · omega
      · intro a ha
        have := hA.head_before ha
        simp only [period] at hle
        unfold ov; omega
  case case4 a0 as b0 bs hi hle ih =>
    rw [ih hA.tail hB, ovSum_cons_left, ovRow_zero a0 (b0 :: bs)]
    · omega
    · intro b hb
      simp only [period] at hle
      have wa := hA.nonneg a0 (by simp)
      rcases List.mem_cons.1 hb with rfl | hb'
      · unfold ov; omega
      · have := hB.head_before hb'; unfold ov; omega
  case case5 a0 as b0 bs hi hn hle ih =>
    rw [ih hA hB.tail, ovSum_cons_right, ovCol_zero (a0 :: as) b0]
    · omega
    · intro a ha
      simp only [period] at hle
      have wb := hB.nonneg b0 (by simp)
      rcases List.mem_cons.1 ha with rfl | ha'
      · unfold ov; omega
      · have := hA.head_before ha'; unfold ov; omega
  case case6 a0 as b0 bs hi h1 h2 ih =>
    exfalso
    have := inter_none _ _ hi
    omega

end Aw.Intersect

namespace Aw.Intersect
open Aw
variable {D : Type}
set_option linter.unusedSectionVars false

/-! ## `period_union` -/

/-- the condition `not e_p.gap(le_p)` of the loop -/
def NoGap (last e : Ev D) : Prop :=
  ¬ (e.ts + e.dur < last.ts) ∧ ¬ (last.ts + last.dur < e.ts)

instance (last e : Ev D) : Decidable (NoGap last e) := by unfold NoGap; infer_instance

theorem gap_none_iff (last e : Ev D) : (period e).gap (period last) = none ↔ NoGap last e := by
  unfold Slot.gap NoGap period
  grind

/-- `_replace_event_period(last_event, e_p.union(le_p))` -/
def mergeLast (last e : Ev D) : Ev D :=
  replacePeriod last ⟨min e.ts last.ts, max (e.ts + e.dur) (last.ts + last.dur)⟩

/-- the merged list built by the loop, front to back, starting from `merged_events = [last]` -/
def groups (last : Ev D) : List (Ev D) → List (Ev D)
  | [] => [last]
  | e :: es => if NoGap last e then groups (mergeLast last e) es else last :: groups e es

/-- the loop never raises (`union` is only called where `gap` returned `None`) and computes
    `groups` behind what was already closed -/
theorem unionLoop_eq (last : Ev D) (done es : List (Ev D)) :
    unionLoop last done es = .ok (done.reverse ++ groups last es) := by
  induction es generalizing last done with
  | nil => simp [unionLoop, groups]
  | cons e es ih =>
    unfold unionLoop
    simp only
    by_cases h : NoGap last e
    · have hg := (gap_none_iff last e).2 h
      have hu : (period e).union (period last) =
          .ok ⟨min e.ts last.ts, max (e.ts + e.dur) (last.ts + last.dur)⟩ := by
        unfold Slot.union; rw [hg]; simp [period]
      rw [hg]; simp only [hu]
      rw [ih]; simp [groups, h, mergeLast]
    · have hg : (period e).gap (period last) ≠ none := fun x => h ((gap_none_iff last e).1 x)
      cases hgp : (period e).gap (period last) with
      | none => exact absurd hgp hg
      | some g => simp only; rw [ih]; simp [groups, h]

/-- closed-interval membership -/
def Covers (e : Ev D) (t : Int) : Prop := e.ts ≤ t ∧ t ≤ e.ts + e.dur

/-- what the loop needs of `last` and the events still to come -/
structure Pending (last : Ev D) (es : List (Ev D)) : Prop where
  lb : ∀ e ∈ es, last.ts ≤ e.ts
  sorted : SortedTs es
  nn : 0 ≤ last.dur
  nns : Nonneg es
  al : last.ts % 1000 = 0
  als : MsAligned es

theorem Pending.merge {last e : Ev D} {es : List (Ev D)} (h : Pending last (e :: es))
    : Pending (mergeLast last e) es := by
  have h1 := h.lb e (by simp)
  have h2 := h.nns e (by simp)
  have h3 := h.nn
  have h4 := h.al
  have hts : (mergeLast last e).ts = last.ts := by
    simp only [mergeLast, replacePeriod, msFloor]; omega
  refine ⟨?_, (List.pairwise_cons.1 h.sorted).2, ?_, h.nns.tail, ?_, h.als.tail⟩
  · intro x hx; rw [hts]; exact h.lb x (List.mem_cons_of_mem _ hx)
  · simp only [mergeLast, replacePeriod, Slot.duration]; omega
  · rw [hts]; exact h4

theorem Pending.next {last e : Ev D} {es : List (Ev D)} (h : Pending last (e :: es))
    : Pending e es :=
  ⟨(List.pairwise_cons.1 h.sorted).1, (List.pairwise_cons.1 h.sorted).2, h.nns e (by simp),
   h.nns.tail, h.als e (by simp), h.als.tail⟩

theorem mergeLast_spec {last e : Ev D} {es : List (Ev D)} (h : Pending last (e :: es))
    (hg : NoGap last e) :
    (mergeLast last e).ts = last.ts ∧
    (mergeLast last e).ts + (mergeLast last e).dur = max (e.ts + e.dur) (last.ts + last.dur) ∧
    last.ts ≤ e.ts ∧ e.ts ≤ last.ts + last.dur ∧ 0 ≤ e.dur ∧ 0 ≤ last.dur := by
  have h1 := h.lb e (by simp)
  have h2 := h.nns e (by simp)
  have h3 := h.nn
  have h4 := h.al
  unfold NoGap at hg
  simp only [mergeLast, replacePeriod, msFloor, Slot.duration]
  omega

/-- nothing in the merged list starts before `last` -/
theorem groups_lb (last : Ev D) (es : List (Ev D)) (h : Pending last es) :
    ∀ o ∈ groups last es, last.ts ≤ o.ts := by
  induction es generalizing last with
  | nil => simp [groups]
  | cons e es ih =>
    unfold groups
    split
    · rename_i hg
      intro o ho
      have := ih _ h.merge o ho
      have := mergeLast_spec h hg
      omega
    · intro o ho
      rcases List.mem_cons.1 ho with rfl | ho
      · omega
      · have := ih _ h.next o ho
        have := h.lb e (by simp)
        omega

/-- merged events are in time order with a strictly positive gap between any two -/
theorem groups_gapped (last : Ev D) (es : List (Ev D)) (h : Pending last es) :
    (groups last es).Pairwise (fun p q => p.ts + p.dur < q.ts) := by
  induction es generalizing last with
  | nil => simp [groups]
  | cons e es ih =>
    unfold groups
    split
    · exact ih _ h.merge
    · rename_i hg
      refine List.pairwise_cons.2 ⟨?_, ih _ h.next⟩
      intro o ho
      have := groups_lb e es h.next o ho
      have := h.lb e (by simp)
      have := h.nns e (by simp)
      unfold NoGap at hg
      omega

theorem groups_nonneg (last : Ev D) (es : List (Ev D)) (h : Pending last es) :
    ∀ o ∈ groups last es, 0 ≤ o.dur := by
  induction es generalizing last with
  | nil => simp [groups]; exact h.nn
  | cons e es ih =>
    unfold groups
    split
    · exact ih _ h.merge
    · intro o ho
      rcases List.mem_cons.1 ho with rfl | ho
      · exact h.nn
      · exact ih _ h.next o ho

/-- an instant lies in a merged event iff it lies in `last` or in one of the events to come -/
theorem groups_cover (last : Ev D) (es : List (Ev D)) (h : Pending last es) (t : Int) :
    (∃ o ∈ groups last es, Covers o t) ↔ (Covers last t ∨ ∃ e ∈ es, Covers e t) := by
  induction es generalizing last with
  | nil => simp [groups]
  | cons e es ih =>
    unfold groups
    split
    · rename_i hg
      rw [ih _ h.merge]
      have hm := mergeLast_spec h hg
      have : Covers (mergeLast last e) t ↔ (Covers last t ∨ Covers e t) := by
        unfold Covers; omega
      rw [this]
      simp only [List.mem_cons, exists_eq_or_imp]
      exact or_assoc
    · simp only [List.mem_cons, exists_eq_or_imp]
      rw [ih _ h.next]


/-- the value `period_union` returns, written with `groups` -/
def unionOut (empty : D) (l1 l2 : List (Ev D)) : List (Ev D) :=
  match sortBy (·.ts) (l1 ++ l2) with
  | [] => []
  | e0 :: es => (groups e0 es).map fun ev => { ev with data := empty }

theorem periodUnion_eq (empty : D) (l1 l2 : List (Ev D)) :
    periodUnion empty l1 l2 = .ok (unionOut empty l1 l2) := by
  unfold periodUnion unionOut
  cases sortBy (·.ts) (l1 ++ l2) with
  | nil => rfl
  | cons e0 es => simp only [unionLoop_eq]; simp

theorem pending_of_sorted (l : List (Ev D)) (hn : Nonneg l) (ha : MsAligned l) (e0 : Ev D)
    (es : List (Ev D)) (hs : sortBy (·.ts) l = e0 :: es) : Pending e0 es := by
  have hsorted := sortBy_sorted (·.ts) l
  have hmem : ∀ x, x ∈ e0 :: es → x ∈ l := fun x hx => (mem_sortBy (·.ts) x l).1 (hs ▸ hx)
  rw [hs] at hsorted
  exact ⟨(List.pairwise_cons.1 hsorted).1, (List.pairwise_cons.1 hsorted).2,
    hn e0 (hmem e0 (by simp)), fun x hx => hn x (hmem x (List.mem_cons_of_mem _ hx)),
    ha e0 (hmem e0 (by simp)), fun x hx => ha x (hmem x (List.mem_cons_of_mem _ hx))⟩

/-- everything C09 says about the value of `period_union` -/
theorem unionOut_spec (empty : D) (l1 l2 : List (Ev D)) (hn : Nonneg (l1 ++ l2))
    (ha : MsAligned (l1 ++ l2)) :
    (unionOut empty l1 l2).Pairwise (fun p q => p.ts + p.dur < q.ts) ∧
    (∀ t, (∃ o ∈ unionOut empty l1 l2, Covers o t) ↔ ∃ e ∈ l1 ++ l2, Covers e t) ∧
    (∀ o ∈ unionOut empty l1 l2, o.data = empty ∧ 0 ≤ o.dur) := by
  unfold unionOut
  split
  · rename_i hs
    have hnil : l1 ++ l2 = [] := by
      cases hl : l1 ++ l2 with
      | nil => rfl
      | cons x xs =>
        have : x ∈ sortBy (·.ts) (l1 ++ l2) := (mem_sortBy _ x _).2 (by rw [hl]; simp)
        rw [hs] at this; simp at this
    rw [hnil]; simp
  · rename_i e0 es hs
    have hp := pending_of_sorted _ hn ha e0 es hs
    refine ⟨?_, ?_, ?_⟩
    · rw [List.pairwise_map]; exact groups_gapped e0 es hp
    · intro t
      have hc := groups_cover e0 es hp t
      have hm : (∃ e ∈ l1 ++ l2, Covers e t) ↔ (Covers e0 t ∨ ∃ e ∈ es, Covers e t) := by
        constructor
        · rintro ⟨e, he, hce⟩
          have : e ∈ e0 :: es := hs ▸ (mem_sortBy (·.ts) e _).2 he
          rcases List.mem_cons.1 this with rfl | h
          · exact Or.inl hce
          · exact Or.inr ⟨e, h, hce⟩
        · rintro (h | ⟨e, he, h⟩)
          · exact ⟨e0, (mem_sortBy (·.ts) e0 _).1 (hs ▸ List.mem_cons_self), h⟩
          · exact ⟨e, (mem_sortBy (·.ts) e _).1 (hs ▸ List.mem_cons_of_mem _ he), h⟩
      rw [hm, ← hc]
      simp only [List.mem_map]
      constructor
      · rintro ⟨o, ⟨x, hx, rfl⟩, h⟩; exact ⟨x, hx, h⟩
      · rintro ⟨x, hx, h⟩; exact ⟨_, ⟨x, hx, rfl⟩, h⟩
    · intro o ho
      obtain ⟨x, hx, rfl⟩ := List.mem_map.1 ho
      exact ⟨rfl, groups_nonneg e0 es hp x hx⟩

/-! ## transport through the sorts of `filter_period_intersect` -/

theorem mem_sort2 (l : List (Ev D)) (x : Ev D) :
    x ∈ sortBy (·.ts) (sortBy (·.ts) l) ↔ x ∈ l := by
  rw [mem_sortBy, mem_sortBy]

theorem ready_sort2 (l : List (Ev D)) (hd : NonOverlap l) (hn : Nonneg l) :
    Ready (sortBy (·.ts) (sortBy (·.ts) l)) := by
  have h1 := ready_sortBy l hd hn
  exact ready_sortBy _ h1.disj h1.nonneg

theorem nonneg_sort2 (l : List (Ev D)) (hn : Nonneg l) :
    Nonneg (sortBy (·.ts) (sortBy (·.ts) l)) := fun x hx => hn x ((mem_sort2 l x).1 hx)

theorem aligned_sort2 (l : List (Ev D)) (hn : MsAligned l) :
    MsAligned (sortBy (·.ts) (sortBy (·.ts) l)) := fun x hx => hn x ((mem_sort2 l x).1 hx)

theorem ovSum_sort2 (A B : List (Ev D)) :
    ovSum (sortBy (·.ts) (sortBy (·.ts) A)) (sortBy (·.ts) (sortBy (·.ts) B)) = ovSum A B := by
  unfold ovSum
  rw [sum_map_sortBy, sum_map_sortBy]
  congr 1
  apply List.map_congr_left
  intro a _
  unfold ovRow
  rw [sum_map_sortBy, sum_map_sortBy]

theorem unreachableCount_zero (steps : List (Step D)) (h : Step.unreachable ∉ steps) :
    unreachableCount steps = 0 := by
  induction steps with
  | nil => rfl
  | cons st r ih =>
    cases st with
    | pair a b ip => simp [unreachableCount]; exact ih (fun x => h (List.mem_cons_of_mem _ x))
    | unreachable => simp at h

end Aw.Intersect

namespace Aw.Intersect
open Aw
variable {D : Type}
set_option linter.unusedSectionVars false

/-! ## measure as a count of microsecond cells -/

open Classical in
/-- number of instants `t` (microsecond cells `[t, t+1)`) in the window `[lo, lo + n)` with `P t` -/
noncomputable def cells (P : Int → Prop) (lo : Int) : Nat → Int
  | 0 => 0
  | n + 1 => cells P lo n + (if P (lo + n) then 1 else 0)

theorem cells_congr (P Q : Int → Prop) (h : ∀ t, P t ↔ Q t) (lo : Int) (n : Nat) :
    cells P lo n = cells Q lo n := by
  induction n with
  | zero => rfl
  | succ n ih =>
    simp only [cells, ih]
    by_cases hp : P (lo + n)
    · have hq := (h _).1 hp; simp [hp, hq]
    · have hq : ¬ Q (lo + n) := fun x => hp ((h _).2 x); simp [hp, hq]

theorem cells_or (P Q : Int → Prop) (h : ∀ t, ¬ (P t ∧ Q t)) (lo : Int) (n : Nat) :
    cells (fun t => P t ∨ Q t) lo n = cells P lo n + cells Q lo n := by
  induction n with
  | zero => rfl
  | succ n ih =>
    simp only [cells, ih]
    have := h (lo + n)
    by_cases hp : P (lo + n) <;> by_cases hq : Q (lo + n) <;> simp [hp, hq] <;> first | omega | (exfalso; exact this ⟨hp, hq⟩)

theorem cells_false (lo : Int) (n : Nat) : cells (fun _ => False) lo n = 0 := by
  induction n with
  | zero => rfl
  | succ n ih => simp [cells, ih]

theorem cells_interval (a b lo : Int) (n : Nat) :
    cells (fun t => a ≤ t ∧ t < b) lo n = max 0 (min b (lo + n) - max a lo) := by
  induction n with
  | zero => simp only [cells]; omega
  | succ n ih =>
    simp only [cells, ih]
    by_cases h : a ≤ lo + n ∧ lo + n < b
    · simp only [h, and_self, if_true]; omega
    · simp only [h, if_false]; omega

/-- half-open membership -/
def Inside (e : Ev D) (t : Int) : Prop := e.ts ≤ t ∧ t < e.ts + e.dur

/-- for events of which the positive-length ones are disjoint and in order, the number of cells
    covered is the sum of the durations -/
theorem cells_eq_durSum (out : List (Ev D)) (hn : Nonneg out)
    (hp : out.Pairwise (fun p q => 0 < q.dur → p.ts + p.dur ≤ q.ts))
    (lo : Int) (n : Nat) (hw : ∀ o ∈ out, lo ≤ o.ts ∧ o.ts + o.dur ≤ lo + n) :
    cells (fun t => ∃ o ∈ out, Inside o t) lo n = durSum out := by
  induction out with
  | nil => simp [durSum]; exact cells_false lo n
  | cons o os ih =>
    have hpc := List.pairwise_cons.1 hp
    have h1 : ∀ t, (∃ x ∈ o :: os, Inside x t) ↔ (o.ts ≤ t ∧ t < o.ts + o.dur) ∨ (∃ x ∈ os, Inside x t) := by
      intro t; simp only [List.mem_cons, exists_eq_or_imp, Inside]
    rw [cells_congr _ _ h1, cells_or, cells_interval, ih hn.tail hpc.2
      (fun x hx => hw x (List.mem_cons_of_mem _ hx))]
    · have := hw o (by simp)
      have := hn o (by simp)
      simp only [durSum, List.map_cons, List.sum_cons]
      omega
    · rintro t ⟨⟨h2, h3⟩, x, hx, h4, h5⟩
      have := hpc.1 x hx
      omega

end Aw.Intersect

namespace Aw.Intersect
open Aw
variable {D : Type}
set_option linter.unusedSectionVars false

/-- half-open form of `groups_cover` -/
theorem groups_inside (last : Ev D) (es : List (Ev D)) (h : Pending last es) (t : Int) :
    (∃ o ∈ groups last es, Inside o t) ↔ (Inside last t ∨ ∃ e ∈ es, Inside e t) := by
  induction es generalizing last with
  | nil => simp [groups]
  | cons e es ih =>
    unfold groups
    split
    · rename_i hg
      rw [ih _ h.merge]
      have hm := mergeLast_spec h hg
      have : Inside (mergeLast last e) t ↔ (Inside last t ∨ Inside e t) := by
        unfold Inside; omega
      rw [this]
      simp only [List.mem_cons, exists_eq_or_imp]
      exact or_assoc
    · simp only [List.mem_cons, exists_eq_or_imp]
      rw [ih _ h.next]

/-- half-open form of the cover statement of `unionOut_spec` -/
theorem unionOut_inside (empty : D) (l1 l2 : List (Ev D)) (hn : Nonneg (l1 ++ l2))
    (ha : MsAligned (l1 ++ l2)) (t : Int) :
    (∃ o ∈ unionOut empty l1 l2, Inside o t) ↔ ∃ e ∈ l1 ++ l2, Inside e t := by
  unfold unionOut
  split
  · rename_i hs
    have hnil : l1 ++ l2 = [] := by
      cases hl : l1 ++ l2 with
      | nil => rfl
      | cons x xs =>
        have : x ∈ sortBy (·.ts) (l1 ++ l2) := (mem_sortBy _ x _).2 (by rw [hl]; simp)
        rw [hs] at this; simp at this
    simp [hnil]
  · rename_i e0 es hs
    have hp := pending_of_sorted _ hn ha e0 es hs
    have hc := groups_inside e0 es hp t
    have hm : (∃ e ∈ l1 ++ l2, Inside e t) ↔ (Inside e0 t ∨ ∃ e ∈ es, Inside e t) := by
      constructor
      · rintro ⟨e, he, hce⟩
        have : e ∈ e0 :: es := hs ▸ (mem_sortBy (·.ts) e _).2 he
        rcases List.mem_cons.1 this with rfl | h
        · exact Or.inl hce
        · exact Or.inr ⟨e, h, hce⟩
      · rintro (h | ⟨e, he, h⟩)
        · exact ⟨e0, (mem_sortBy (·.ts) e0 _).1 (hs ▸ List.mem_cons_self), h⟩
        · exact ⟨e, (mem_sortBy (·.ts) e _).1 (hs ▸ List.mem_cons_of_mem _ he), h⟩
    rw [hm, ← hc]
    simp only [List.mem_map]
    constructor
    · rintro ⟨o, ⟨x, hx, rfl⟩, h⟩; exact ⟨x, hx, h⟩
    · rintro ⟨x, hx, h⟩; exact ⟨_, ⟨x, hx, rfl⟩, h⟩

end Aw.Intersect
