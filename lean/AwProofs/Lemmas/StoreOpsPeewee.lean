import AwProofs.Lemmas.StoreOps
/-!
# Peewee: every step preserves the invariant, touches the addressed bucket only, and refines the
reference step under `Pre`
-/
namespace Aw.Store.Peewee
open Aw Aw.Store
variable {D : Type}

/-! ## totality under the precondition -/

theorem createBucket_total {s : St D} {b : String} (m : Meta) (h : view s b = none) :
    ∃ s', createBucket s b m = .ok s' := by
  unfold createBucket
  split
  · rename_i hany
    obtain ⟨r, hr, hrb⟩ := List.any_eq_true.mp hany
    have hf : (s.buckets.find? (fun r => decide (r.bid = b))).isSome := by
      rw [List.find?_isSome]; exact ⟨r, hr, hrb⟩
    rw [view_eq] at h
    cases hx : s.buckets.find? (fun r => decide (r.bid = b)) with
    | none => rw [hx] at hf; cases hf
    | some x => rw [hx] at h; cases h
  · exact ⟨_, rfl⟩

theorem deleteBucket_total {s : St D} {b : String} (hI : Inv s) (h : (view s b).isSome) :
    ∃ s', deleteBucket s b = .ok s' := by
  obtain ⟨k, hk⟩ := view_isSome_keyOf hI h
  unfold deleteBucket
  rw [hk]
  exact ⟨_, rfl⟩

theorem replaceLast_some_view {s s' : St D} {b : String} {hint : Option Int} {e : Ev D} {j : Int}
    (hI : Inv s) (hc : replaceLast s b hint e = .ok (some (s', j))) :
    view s' = Spec.replaceId (view s) b j e := by
  obtain ⟨k, t, hk, _⟩ := replaceLast_ok hc
  obtain ⟨r, _, _, _, _, hv⟩ := keyOf_some hI hk
  obtain ⟨_, _, _, _, h⟩ := replaceLast_hint_view hI hv hc
  exact h

/-! ## invariant -/

theorem inv_step {s : St D} (hI : Inv s) (op : Op D) : Inv (step s op) := by
  cases op with
  | create b m =>
    simp only [step]
    cases h : createBucket s b m with
    | ok s' => exact createBucket_inv hI h
    | error x => exact hI
  | update b u =>
    simp only [step]
    cases h : updateBucket s b u with
    | ok s' => exact updateBucket_inv hI h
    | error x => exact hI
  | deleteBucket b =>
    simp only [step]
    cases h : deleteBucket s b with
    | ok s' => exact deleteBucket_inv hI h
    | error x => exact hI
  | insert b e =>
    simp only [step]
    cases h : insertOne s b e with
    | ok p => obtain ⟨s', i⟩ := p; exact insertOne_inv hI h
    | error x => exact hI
  | insertMany b es =>
    simp only [step]
    cases h : insertMany s b es with
    | ok s' => exact insertMany_inv hI h
    | error x => exact hI
  | replace b i e =>
    simp only [step]
    cases h : replace s b i e with
    | ok s' => exact replace_inv hI h
    | error x => exact hI
  | replaceLast b hint e =>
    simp only [step]
    cases h : replaceLast s b hint e with
    | ok o =>
      cases o with
      | none => exact hI
      | some p => obtain ⟨s', j⟩ := p; exact replaceLast_inv hI h
    | error x => exact hI
  | delete b i =>
    simp only [step]
    cases h : delete s b i with
    | ok p => obtain ⟨s', r⟩ := p; exact delete_inv hI h
    | error x => exact hI

/-! ## frame -/

theorem only_step {s : St D} (hI : Inv s) (op : Op D) :
    Spec.Only op.bucket (view s) (view (step s op)) := by
  cases op with
  | create b m =>
    simp only [step, Op.bucket]
    cases h : createBucket s b m with
    | ok s' => simp only; rw [(createBucket_view hI h).2]; exact Spec.only_create _ _ _
    | error x => exact Spec.Only.refl _ _
  | update b u =>
    simp only [step, Op.bucket]
    cases h : updateBucket s b u with
    | ok s' => simp only; rw [(updateBucket_view hI h).2]; exact Spec.only_update _ _ _
    | error x => exact Spec.Only.refl _ _
  | deleteBucket b =>
    simp only [step, Op.bucket]
    cases h : deleteBucket s b with
    | ok s' => simp only; rw [(deleteBucket_view hI h).2]; exact Spec.only_deleteBucket _ _
    | error x => exact Spec.Only.refl _ _
  | insert b e =>
    simp only [step, Op.bucket]
    cases h : insertOne s b e with
    | ok p =>
      obtain ⟨s', oi⟩ := p
      simp only
      cases he : e.id with
      | none =>
        obtain ⟨i, _, _, hv, _⟩ := insertOne_view hI he h
        rw [hv]; exact Spec.only_insert _ _ _ _
      | some i =>
        rw [(insertOne_upsert_view hI he h).2.2]; exact Spec.only_replaceId _ _ _ _
    | error x => exact Spec.Only.refl _ _
  | insertMany b es =>
    simp only [step, Op.bucket]
    cases hv : view s b with
    | none =>
      rw [insertMany_missing hI hv]
      cases es with
      | nil => exact Spec.Only.refl _ _
      | cons a t => exact Spec.Only.refl _ _
    | some p =>
      cases h : insertMany s b es with
      | ok s' =>
        simp only
        obtain ⟨ids, _, _, _, hv'⟩ := insertMany_view hI (by rw [hv]; rfl) h
        rw [hv']; exact Spec.only_insertManyWith _ b es ids
      | error x => exact Spec.Only.refl _ _
  | replace b i e =>
    simp only [step, Op.bucket]
    cases h : replace s b i e with
    | ok s' => simp only; rw [(replace_view hI h).2]; exact Spec.only_replaceId _ _ _ _
    | error x => exact Spec.Only.refl _ _
  | replaceLast b hint e =>
    simp only [step, Op.bucket]
    cases h : replaceLast s b hint e with
    | ok o =>
      cases o with
      | none => exact Spec.Only.refl _ _
      | some p =>
        obtain ⟨s', j⟩ := p
        simp only; rw [replaceLast_some_view hI h]; exact Spec.only_replaceId _ _ _ _
    | error x => exact Spec.Only.refl _ _
  | delete b i =>
    simp only [step, Op.bucket]
    cases h : delete s b i with
    | ok p =>
      obtain ⟨s', r⟩ := p
      simp only; rw [(delete_view hI h).1]; exact Spec.only_delete _ _ _
    | error x => exact Spec.Only.refl _ _

/-! ## refinement of the reference step -/

theorem refines {s : St D} (hI : Inv s) (op : Op D) (hp : Pre .peewee (view s) op) :
    SpecStep .peewee (view s) (view (step s op)) op := by
  cases op with
  | create b m =>
    obtain ⟨s', h⟩ := createBucket_total m (show view s b = none from hp)
    simp only [step, h, SpecStep]
    exact (createBucket_view hI h).2
  | update b u =>
    obtain ⟨hb, _⟩ := (show _ ∧ _ from hp)
    obtain ⟨s', h⟩ := updateBucket_total (u := u) hI hb
    simp only [step, h, SpecStep]
    exact (updateBucket_view hI h).2
  | deleteBucket b =>
    obtain ⟨s', h⟩ := deleteBucket_total hI (show (view s b).isSome from hp)
    simp only [step, h, SpecStep]
    exact (deleteBucket_view hI h).2
  | insert b e =>
    obtain ⟨hb, he⟩ := (show _ ∧ _ from hp)
    obtain ⟨s', i, h⟩ := insertOne_total (e := e) hI hb
    simp only [step, h, SpecStep]
    obtain ⟨i', hi', _, hv, hf⟩ := insertOne_view hI he h
    exact ⟨i', hf b, hv⟩
  | insertMany b es =>
    obtain ⟨hb, _⟩ := (show _ ∧ _ from hp)
    obtain ⟨s', ids, h, _, hl, hn, hf, hv⟩ := insertMany_run es hI hb
    simp only [step, h, SpecStep]
    exact ⟨ids, hl, hn, fun i hi => hf i hi b, hv⟩
  | replace b i e =>
    obtain ⟨_, hi⟩ := (show _ ∧ _ from hp)
    obtain ⟨s', h⟩ := replace_live (e := e) hI hi
    simp only [step, h, SpecStep]
    exact (replace_view hI h).2
  | replaceLast b hint e =>
    obtain ⟨m, es, hv, hne, hh⟩ := (show ∃ m es, _ ∧ _ ∧ _ from hp)
    have key : ∃ s' j, replaceLast s b hint e = .ok (some (s', j)) := by
      cases hint with
      | none =>
        obtain ⟨t, hid, _, _, _, _, hr⟩ := getEvents_one_first hI hv hne
        obtain ⟨s', h⟩ := hr e
        exact ⟨s', hid, h⟩
      | some h0 =>
        obtain ⟨t, hn, ht⟩ := hh rfl h0 rfl
        obtain ⟨s', h⟩ := replaceLast_accepts hI hv hn ht e
        exact ⟨s', h0, h⟩
    obtain ⟨s', j, h⟩ := key
    simp only [step, h, SpecStep]
    obtain ⟨t, ht, hj, _, hv'⟩ := replaceLast_hint_view hI hv h
    refine ⟨m, es, t, hv, ht, ?_⟩
    rw [hv', hj]; rfl
  | delete b i =>
    obtain ⟨s', n, h⟩ := delete_total (i := i) hI (show (view s b).isSome from hp)
    simp only [step, h, SpecStep]
    exact (delete_view hI h).1

end Aw.Store.Peewee
