import AwModel.Query.Pipeline
import AwModel.Query.RegistryGen
/-!
# Lemmas for `AwModel/Query/Pipeline.lean`: events survive the encoding into query values, and each
# modelled builtin, called through the registry's call protocol, is its transform model
-/
namespace AwProofs.Pipeline
open Aw Aw.Query Aw.Query.Pipeline Aw.Group

/-- decoding the image of an encoding, element by element (in the form `simp` leaves it) -/
theorem mapM_comp_some {α β : Type} (f : β → Option α) (g : α → β) (h : ∀ x, f (g x) = some x)
    (l : List α) : List.mapM (f ∘ g) l = some l := by
  induction l with
  | nil => rfl
  | cons a t ih => simp [List.mapM_cons, h, ih]

theorem decStr_enc (s : String) : decStr (Val.str s.toList) = some s := by simp [decStr]

@[simp] theorem decJ_encJ (v : JVal) : decJ (encJ v) = some v := by
  cases v with
  | str s => simp [encJ, decJ]
  | list l =>
    simp only [encJ, decJ, List.mapM_map]
    rw [mapM_comp_some decStr (fun s => Val.str s.toList) decStr_enc]; rfl
  | other t => simp [encJ, decJ]

@[simp] theorem decData_encData (d : Data) : decData (encData d) = some d := by
  simp only [encData, decData, List.mapM_map]
  exact mapM_comp_some (fun kv : Str × Val => (decJ kv.2).map fun v => (String.ofList kv.1, v))
    (fun kv : String × JVal => (kv.1.toList, encJ kv.2)) (by intro x; simp) d

@[simp] theorem decId_encId (i : Option Int) : decId (encId i) = some i := by
  cases i <;> rfl

@[simp] theorem decEv_encEv (e : Event) : decEv (encEv e) = some e := by
  simp [encEv, decEv]

/-- a list of events handed to a query survives as that list -/
@[simp] theorem decEvs_encEvs (l : List Event) : decEvs (encEvs l) = some l := by
  simp only [encEvs, decEvs, List.mapM_map]
  exact mapM_comp_some decEv encEv decEv_encEv l

@[simp] theorem decStrs_enc (l : List String) :
    decStrs (.list (l.map fun s => Val.str s.toList)) = some l := by
  simp only [decStrs, List.mapM_map]
  exact mapM_comp_some decStr (fun s => Val.str s.toList) decStr_enc l

/-- an encoded event list is a `list` for `q2_typecheck` -/
@[simp] theorem typeOk_list_encEvs (l : List Event) : typeOk .list (encEvs l) = true := rfl

@[simp] theorem typeOk_list_list (xs : List Val) : typeOk .list (.list xs) = true := rfl
@[simp] theorem typeOk_str_str (s : Str) : typeOk .str (.str s) = true := rfl
@[simp] theorem typeOk_int_int (i : Int) : typeOk .int (.int i) = true := rfl

end AwProofs.Pipeline
