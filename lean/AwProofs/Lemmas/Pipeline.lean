import AwModel.Query.Pipeline
import AwModel.Query.RegistryGen
import AwModel.Query.Reference
import AwProofs.Lemmas.Group
/-!
# Lemmas for `AwModel/Query/Pipeline.lean`: events survive the encoding into query values, and each
# modelled builtin, called through the registry's call protocol, is its transform model
-/
namespace AwProofs.Pipeline
open Aw Aw.Query Aw.Query.Pipeline Aw.Group

/-- decoding the image of an encoding, element by element (in the form `simp` leaves it) -/
theorem mapM_comp_some {α β : Type} (f : β → Option α) (g : α → β) (h : ∀ x, f (g x) = some x)
    (l : List α) : List.mapM (f ∘ g) l = some l := by
  induction l with
  | nil => rfl
  | cons a t ih => simp [List.mapM_cons, h, ih]

theorem decStr_enc (s : String) : decStr (Val.str s.toList) = some s := by simp [decStr]

@[simp] theorem decJ_encJ (v : JVal) : decJ (encJ v) = some v := by
  cases v with
  | str s => simp [encJ, decJ]
  | list l =>
    simp only [encJ, decJ, List.mapM_map]
    rw [mapM_comp_some decStr (fun s => Val.str s.toList) decStr_enc]; rfl
  | other t => simp [encJ, decJ]

@[simp] theorem decData_encData (d : Data) : decData (encData d) = some d := by
  simp only [encData, decData, List.mapM_map]
  exact mapM_comp_some (fun kv : Str × Val => (decJ kv.2).map fun v => (String.ofList kv.1, v))
    (fun kv : String × JVal => (kv.1.toList, encJ kv.2)) (by intro x; simp) d

@[simp] theorem decId_encId (i : Option Int) : decId (encId i) = some i := by
  cases i <;> rfl

@[simp] theorem decEv_encEv (e : Event) : decEv (encEv e) = some e := by
  simp [encEv, decEv]

/-- a list of events handed to a query survives as that list -/
@[simp] theorem decEvs_encEvs (l : List Event) : decEvs (encEvs l) = some l := by
  simp only [encEvs, decEvs, List.mapM_map]
  exact mapM_comp_some decEv encEv decEv_encEv l

@[simp] theorem decStrs_enc (l : List String) :
    decStrs (.list (l.map fun s => Val.str s.toList)) = some l := by
  simp only [decStrs, List.mapM_map]
  exact mapM_comp_some decStr (fun s => Val.str s.toList) decStr_enc l

/-- an encoded event list is a `list` for `q2_typecheck` -/
@[simp] theorem typeOk_list_encEvs (l : List Event) : typeOk .list (encEvs l) = true := rfl

@[simp] theorem typeOk_list_list (xs : List Val) : typeOk .list (.list xs) = true := rfl
@[simp] theorem typeOk_str_str (s : Str) : typeOk .str (.str s) = true := rfl
@[simp] theorem typeOk_int_int (i : Int) : typeOk .int (.int i) = true := rfl

theorem sumDurations_eq_durSum (l : List Event) : sumDurations l = AwProofs.Group.durSum l := by
  unfold sumDurations
  have h : ∀ (l : List Event) (acc : Int), (l.map (·.dur)).foldl (· + ·) acc = acc + AwProofs.Group.durSum l := by
    intro l
    induction l with
    | nil => intro acc; simp [AwProofs.Group.durSum]
    | cons e r ih => intro acc; simp only [List.map_cons, List.foldl_cons, AwProofs.Group.durSum, ih]; omega
  simpa using h l 0


theorem denoteList_strs (reg : List Entry) (apply : Apply) (ns : Ns) (keys : List String) :
    denoteList reg apply ns (keys.map fun k => Expr.str k.toList) = .ok (keys.map fun s => Val.str s.toList) := by
  induction keys with
  | nil => rfl
  | cons k r ih => simp [denoteList, denote, ih, Except.bind, Except.map]


theorem get_set_self (ns : Ns) (k : Str) (v : Val) : (ns.set k v).get? k = some v := by
  induction ns with
  | nil => simp [Ns.set, Ns.get?]
  | cons p r ih =>
    obtain ⟨k', v'⟩ := p
    by_cases h : k' = k
    · simp [Ns.set, Ns.get?, h]
    · simp [Ns.set, Ns.get?, h, ih]


/-- a builtin that is none of the three datastore readers is called with the value-only bodies -/
theorem callBuiltin_fullApply (r : Reads Data) (S E : Int) (other : Apply) (e : Entry) (args : List Val)
    (hne : e.name ≠ nameQueryBucket ∧ e.name ≠ nameQueryBucketEventcount ∧ e.name ≠ nameFindBucket) :
    callBuiltin (fullApply r S E other) e args = callBuiltin (pipeApply other) e args := by
  simp [callBuiltin, callEntry, fullApply, dsApply, hne.1, hne.2.1, hne.2.2]


end AwProofs.Pipeline
