import AwProofs.Lemmas.StoreOps
/-!
# Memory: every step preserves the invariant, touches the addressed bucket only, and refines the
reference step under `Pre`
-/
namespace Aw.Store.Memory
open Aw Aw.Store
variable {D : Type}

/-! ## totality under the precondition -/

theorem lookup_isSome {s : St D} {b : String} (h : (view s b).isSome) :
    ∃ m evs, lookup s b = some (m, evs) := by
  cases hl : lookup s b with
  | none => rw [show view s b = lookup s b from rfl, hl] at h; cases h
  | some p => exact ⟨p.1, p.2, rfl⟩

theorem updateBucket_total {s : St D} {b : String} (u : Upd) (h : (view s b).isSome) :
    ∃ s', updateBucket s b u = .ok s' := by
  obtain ⟨m, evs, hl⟩ := lookup_isSome h
  unfold updateBucket
  rw [hl]
  exact ⟨_, rfl⟩

theorem deleteBucket_total {s : St D} {b : String} (h : (view s b).isSome) :
    ∃ s', deleteBucket s b = .ok s' := by
  obtain ⟨m, evs, hl⟩ := lookup_isSome h
  unfold deleteBucket
  rw [hl]
  exact ⟨_, rfl⟩

theorem onEvents_isSome {v : View D} {b : String} (f : List (Ev D) → List (Ev D))
    (h : (v b).isSome) : (Spec.onEvents v b f b).isSome := by
  cases hv : v b with
  | none => rw [hv] at h; cases h
  | some p => obtain ⟨m, es⟩ := p; rw [Spec.onEvents_self hv]; rfl

theorem insertOne_total {s : St D} {b : String} (hI : Inv s) (e : Ev D) (h : (view s b).isSome) :
    ∃ s' oi, insertOne s b e = .ok (s', oi) ∧ (view s' b).isSome := by
  cases he : e.id with
  | some i =>
    obtain ⟨s', hr⟩ := replace_exists hI h i e
    have hi : insertOne s b e = .ok (s', some i) := by
      unfold insertOne; rw [he]; simp only [hr]; rfl
    refine ⟨s', some i, hi, ?_⟩
    rw [replace_view hI hr]
    exact onEvents_isSome _ h
  | none =>
    obtain ⟨m, evs, hl⟩ := lookup_isSome h
    have hi : insertOne s b e =
        .ok (setKey s b (m, evs ++ [{ e with id := some (nextId evs) }]), some (nextId evs)) := by
      unfold insertOne; rw [he]; simp only [hl]
    refine ⟨_, _, hi, ?_⟩
    obtain ⟨i, _, _, hv, _⟩ := insertOne_view' hI he hi
    rw [hv]
    exact onEvents_isSome _ h

theorem insertMany_total {b : String} (es : List (Ev D)) (s : St D) (hI : Inv s)
    (h : (view s b).isSome) : ∃ s', insertMany s b es = .ok s' := by
  induction es generalizing s with
  | nil => exact ⟨s, rfl⟩
  | cons e t ih =>
    obtain ⟨s1, oi, h1, hb1⟩ := insertOne_total hI e h
    obtain ⟨s', h'⟩ := ih s1 (insertOne_inv hI h1) hb1
    refine ⟨s', ?_⟩
    unfold insertMany
    simp only [h1]
    exact h'

theorem delete_total {s : St D} {b : String} (i : Int) (h : (view s b).isSome) :
    ∃ s' r, delete s b i = .ok (s', r) := by
  obtain ⟨m, evs, hl⟩ := lookup_isSome h
  unfold delete
  rw [hl]
  exact ⟨_, _, rfl⟩

/-! ## invariant -/

theorem inv_step {s : St D} (hI : Inv s) (op : Op D) : Inv (step s op) := by
  cases op with
  | create b m => exact createBucket_inv hI b m
  | update b u =>
    simp only [step]
    cases h : updateBucket s b u with
    | ok s' => exact updateBucket_inv hI h
    | error x => exact hI
  | deleteBucket b =>
    simp only [step]
    cases h : deleteBucket s b with
    | ok s' => exact deleteBucket_inv hI h
    | error x => exact hI
  | insert b e =>
    simp only [step]
    cases h : insertOne s b e with
    | ok p => obtain ⟨s', i⟩ := p; exact insertOne_inv hI h
    | error x => exact hI
  | insertMany b es =>
    simp only [step]
    cases h : insertMany s b es with
    | ok s' => exact insertMany_inv hI h
    | error x => exact hI
  | replace b i e =>
    simp only [step]
    cases h : replace s b i e with
    | ok s' => exact replace_inv hI h
    | error x => exact hI
  | replaceLast b hint e =>
    simp only [step]
    cases h : replaceLast s b e with
    | ok s' => exact replaceLast_inv hI h
    | error x => exact hI
  | delete b i =>
    simp only [step]
    cases h : delete s b i with
    | ok p => obtain ⟨s', r⟩ := p; exact delete_inv hI h
    | error x => exact hI

/-! ## frame -/

theorem only_step {s : St D} (hI : Inv s) (op : Op D) :
    Spec.Only op.bucket (view s) (view (step s op)) := by
  cases op with
  | create b m =>
    simp only [step, Op.bucket]
    rw [createBucket_view hI]; exact Spec.only_create _ _ _
  | update b u =>
    simp only [step, Op.bucket]
    cases h : updateBucket s b u with
    | ok s' => simp only; rw [(updateBucket_view hI h).2]; exact Spec.only_update _ _ _
    | error x => exact Spec.Only.refl _ _
  | deleteBucket b =>
    simp only [step, Op.bucket]
    cases h : deleteBucket s b with
    | ok s' => simp only; rw [(deleteBucket_view hI h).2]; exact Spec.only_deleteBucket _ _
    | error x => exact Spec.Only.refl _ _
  | insert b e =>
    simp only [step, Op.bucket]
    cases h : insertOne s b e with
    | ok p =>
      obtain ⟨s', oi⟩ := p
      simp only
      cases he : e.id with
      | none =>
        obtain ⟨i, _, _, hv, _⟩ := insertOne_view' hI he h
        rw [hv]; exact Spec.only_insert _ _ _ _
      | some i =>
        rw [(insertOne_carry_view hI he h).2.2]; exact Spec.only_replaceId _ _ _ _
    | error x => exact Spec.Only.refl _ _
  | insertMany b es =>
    simp only [step, Op.bucket]
    cases h : insertMany s b es with
    | ok s' =>
      simp only
      obtain ⟨ids, _, _, _, hv⟩ := insertMany_view_seq hI h
      rw [hv]; exact Spec.only_seqFold b es ids _
    | error x => exact Spec.Only.refl _ _
  | replace b i e =>
    simp only [step, Op.bucket]
    cases h : replace s b i e with
    | ok s' => simp only; rw [replace_view hI h]; exact Spec.only_replaceId _ _ _ _
    | error x => exact Spec.Only.refl _ _
  | replaceLast b hint e =>
    simp only [step, Op.bucket]
    cases h : replaceLast s b e with
    | ok s' =>
      simp only
      obtain ⟨m, evs, l, hl, _, hs⟩ := replaceLast_ok h
      rw [hs, view_onEvents hl (fun evs => replaceIn evs (l.id.getD 0) e)]
      exact fun b' hb => Spec.frame_onEvents hb
    | error x => exact Spec.Only.refl _ _
  | delete b i =>
    simp only [step, Op.bucket]
    cases h : delete s b i with
    | ok p =>
      obtain ⟨s', r⟩ := p
      simp only; rw [(delete_view hI h).1]; exact Spec.only_delete _ _ _
    | error x => exact Spec.Only.refl _ _

/-! ## refinement of the reference step -/

theorem refines {s : St D} (hI : Inv s) (op : Op D) (hp : Pre .memory (view s) op) :
    SpecStep .memory (view s) (view (step s op)) op := by
  cases op with
  | create b m =>
    simp only [step, SpecStep]
    exact createBucket_view hI b m
  | update b u =>
    obtain ⟨hb, _⟩ := (show _ ∧ _ from hp)
    obtain ⟨s', h⟩ := updateBucket_total u hb
    simp only [step, h, SpecStep]
    exact (updateBucket_view hI h).2
  | deleteBucket b =>
    obtain ⟨s', h⟩ := deleteBucket_total (show (view s b).isSome from hp)
    simp only [step, h, SpecStep]
    exact (deleteBucket_view hI h).2
  | insert b e =>
    obtain ⟨hb, he⟩ := (show _ ∧ _ from hp)
    obtain ⟨s', oi, h, _⟩ := insertOne_total hI e hb
    simp only [step, h, SpecStep]
    obtain ⟨i, _, _, hv, hf⟩ := insertOne_view' hI he h
    exact ⟨i, hf, hv⟩
  | insertMany b es =>
    obtain ⟨hb, hc⟩ := (show _ ∧ _ from hp)
    obtain ⟨s', h⟩ := insertMany_total es s hI hb
    simp only [step, h, SpecStep]
    exact insertMany_view_partial hI hb h hc
  | replace b i e =>
    obtain ⟨hb, _⟩ := (show _ ∧ _ from hp)
    obtain ⟨s', h⟩ := replace_exists hI hb i e
    simp only [step, h, SpecStep]
    exact replace_view hI h
  | replaceLast b hint e =>
    obtain ⟨m, es, hv, hne, _⟩ := (show ∃ m es, _ ∧ _ ∧ _ from hp)
    obtain ⟨t, s', ht, _, h, hv'⟩ := replaceLast_view hI hv hne e
    simp only [step, h, SpecStep]
    exact ⟨m, es, t, hv, ht, hv'⟩
  | delete b i =>
    obtain ⟨s', r, h⟩ := delete_total i (show (view s b).isSome from hp)
    simp only [step, h, SpecStep]
    exact (delete_view hI h).1

end Aw.Store.Memory
