import AwProofs.Lemmas.HbLoop
import AwProofs.Lemmas.StoreSqlite
import AwProofs.Lemmas.StoreReads
/-!
# One turn of the heartbeat loop on the sqlite backend refines `SpecStep`

The limit-1 read of this backend returns the newest event of the bucket wherever it ends (repaired,
F22: a read without a start instant has no lower bound), so the refinement needs no hypothesis on
the stored events or the heartbeat. History: before the repair the read added `endtime >= 0`, and
this file carried the hypothesis "no stored event and no heartbeat ends before the epoch"
(a predicate `NonNeg`, kept by merging) through `hbStep_refines`.
-/
namespace Aw.Store.Sqlite
open Aw Aw.Store Aw.Heartbeat Aw.Store.HbLoop
variable {D : Type} [DecidableEq D]
set_option linter.unusedSectionVars false

theorem getEvents_one_empty {s : St D} {b : String} {m : Meta} (hv : view s b = some (m, [])) :
    getEvents s b 1 none none = [] := by
  obtain ⟨r, hr, hes⟩ := rows_of_view hv
  rw [getEvents_one hr]
  have h0 : rowsOf s r = [] := by
    cases hl : rowsOf s r with
    | nil => rfl
    | cons a l => rw [hl] at hes; cases hes
  rw [h0]
  rfl

/-- appending the heartbeat -/
theorem hb_insert {s : St D} {b : String} {m : Meta} {es : List (Ev D)} (hb : Ev D) (hI : Inv s)
    (hv : view s b = some (m, es)) :
    ∃ s' i, (insertOne s b hb).map (·.1) = .ok s' ∧ Inv s' ∧
      view s' b = some (m, es ++ [{ hb with id := some i }]) ∧ i ∉ es.filterMap (·.id) ∧
      ∀ b', b' ≠ b → view s' b' = view s b' := by
  obtain ⟨r, hr, _⟩ := rows_of_view hv
  have heq : insertOne s b hb =
      .ok ({ s with events := s.events ++ [⟨s.seqE + 1, r, hb.ts, hb.ts + hb.dur, hb.data⟩],
                    seqE := s.seqE + 1 }, s.seqE + 1) := by
    unfold insertOne; rw [hr]
  obtain ⟨_, hview, hfresh⟩ := insertOne_view' hI heq
  refine ⟨_, s.seqE + 1, by rw [heq]; rfl, insertOne_inv hI heq, ?_, ?_, ?_⟩
  · rw [hview]; exact Spec.onEvents_self hv
  · have := hfresh b; unfold Spec.ids at this; rw [hv] at this; exact this
  · intro b' hb'; rw [hview]; exact Spec.frame_insert hb'

theorem hbStep_refines (pt : Int) (b : String) (s : St D) (hb : Ev D) (m : Meta)
    (es : List (Ev D)) (hI : Inv s) (hv : view s b = some (m, es)) :
    ∃ s', hbStep pt b s hb = .ok s' ∧ Inv s' ∧
      (∃ es', view s' b = some (m, es') ∧ SpecStep pt es hb es') ∧
      ∀ b', b' ≠ b → view s' b' = view s b' := by
  by_cases hne : es = []
  · subst hne
    obtain ⟨s', i, hi, hI', hv', _, hfr⟩ := hb_insert hb hI hv
    refine ⟨s', ?_, hI', ⟨_, hv', SpecStep.first i rfl⟩, hfr⟩
    unfold hbStep
    rw [getEvents_one_empty hv]
    exact hi
  · obtain ⟨t, hn, hg, _⟩ := replaceLast_view hI hv hne hb
    obtain ⟨ti, hti⟩ := Option.isSome_iff_exists.mp ((ids_nodup hI hv).2 t hn.1)
    cases hm : merge pt t hb with
    | none =>
      obtain ⟨s', i, hi, hI', hv', hfresh, hfr⟩ := hb_insert hb hI hv
      refine ⟨s', ?_, hI', ⟨_, hv', SpecStep.appended t i hn hm hfresh⟩, hfr⟩
      unfold hbStep
      rw [hg]
      simp only [hm]
      exact hi
    | some mg =>
      obtain ⟨t', hn', hg', hview⟩ := replaceLast_view hI hv hne mg
      rw [hg] at hg'
      simp only [List.cons.injEq, and_true] at hg'
      subst hg'
      rw [hti, Option.getD_some] at hview
      refine ⟨replaceLast s b mg, ?_, replaceLast_inv b mg hI,
        ⟨_, ?_, SpecStep.merged t mg ti hn hti hm⟩, ?_⟩
      · unfold hbStep
        rw [hg]
        simp only [hm]
      · rw [hview]; exact Spec.onEvents_self hv
      · intro b' hb'; rw [hview]; exact Spec.frame_replaceId hb'

/-! ## a concrete state: two populated buckets and the empty bucket "c" -/

def exHb : St Nat :=
  { buckets := [⟨1, "a", default⟩, ⟨2, "b", default⟩, ⟨3, "c", default⟩],
    events := [⟨1, 1, 10, 15, 0⟩, ⟨2, 2, 10, 12, 1⟩, ⟨3, 1, 10, 20, 2⟩],
    seqB := 3, seqE := 3 }

theorem exHb_inv : Inv exHb := by
  unfold Inv exHb
  decide

theorem exHb_view : view exHb "c" = some (default, []) := rfl

/-- two heartbeats before the epoch, 1 µs apart, same data (history of repair F22: the stream on
    which the loop used to store two events where `heartbeat_reduce` yields one) -/
def cexStream : List (Ev Nat) := [⟨none, -10, 1, 7⟩, ⟨none, -9, 1, 7⟩]

end Aw.Store.Sqlite
