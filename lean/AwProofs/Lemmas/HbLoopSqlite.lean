import AwProofs.Lemmas.HbLoop
import AwProofs.Lemmas.StoreSqlite
import AwProofs.Lemmas.StoreReads
/-!
# One turn of the heartbeat loop on the sqlite backend refines `SpecStep`

The limit-1 read of this backend has the default lower bound `endtime >= 0`, so it returns the
newest event only if that event does not end before the epoch; the refinement needs that no stored
event ends before the epoch (`NonNeg`).
-/
namespace Aw.Store.Sqlite
open Aw Aw.Store Aw.Heartbeat Aw.Store.HbLoop
variable {D : Type} [DecidableEq D]
set_option linter.unusedSectionVars false

/-- the event does not end before the epoch -/
def NonNeg (e : Ev D) : Prop := 0 ≤ e.ts + e.dur

theorem nonNeg_withId (e : Ev D) (i : Option Int) (h : NonNeg e) : NonNeg { e with id := i } := h

theorem nonNeg_merge (pt : Int) (l hb m : Ev D) (hm : merge pt l hb = some m) (hl : NonNeg l)
    (_h : NonNeg hb) : NonNeg m := by
  have := merge_eq pt l hb m hm
  unfold NonNeg Ev.fin at *
  omega

theorem getEvents_one_empty {s : St D} {b : String} {m : Meta} (hv : view s b = some (m, [])) :
    getEvents s b 1 none none = [] := by
  obtain ⟨r, hr, hes⟩ := rows_of_view hv
  rw [getEvents_one hr]
  have h0 : rowsOf s r = [] := by
    cases hl : rowsOf s r with
    | nil => rfl
    | cons a l => rw [hl] at hes; cases hes
  rw [h0]
  rfl

/-- appending the heartbeat -/
theorem hb_insert {s : St D} {b : String} {m : Meta} {es : List (Ev D)} (hb : Ev D) (hI : Inv s)
    (hv : view s b = some (m, es)) :
    ∃ s' i, (insertOne s b hb).map (·.1) = .ok s' ∧ Inv s' ∧
      view s' b = some (m, es ++ [{ hb with id := some i }]) ∧ i ∉ es.filterMap (·.id) ∧
      ∀ b', b' ≠ b → view s' b' = view s b' := by
  obtain ⟨r, hr, _⟩ := rows_of_view hv
  have heq : insertOne s b hb =
      .ok ({ s with events := s.events ++ [⟨s.seqE + 1, r, hb.ts, hb.ts + hb.dur, hb.data⟩],
                    seqE := s.seqE + 1 }, s.seqE + 1) := by
    unfold insertOne; rw [hr]
  obtain ⟨_, hview, hfresh⟩ := insertOne_view' hI heq
  refine ⟨_, s.seqE + 1, by rw [heq]; rfl, insertOne_inv hI heq, ?_, ?_, ?_⟩
  · rw [hview]; exact Spec.onEvents_self hv
  · have := hfresh b; unfold Spec.ids at this; rw [hv] at this; exact this
  · intro b' hb'; rw [hview]; exact Spec.frame_insert hb'

theorem hbStep_refines (pt : Int) (b : String) (s : St D) (hb : Ev D) (m : Meta)
    (es : List (Ev D)) (hI : Inv s) (hv : view s b = some (m, es)) (hpos : ∀ x ∈ es, NonNeg x)
    (_hq : NonNeg hb) :
    ∃ s', hbStep pt b s hb = .ok s' ∧ Inv s' ∧
      (∃ es', view s' b = some (m, es') ∧ SpecStep pt es hb es') ∧
      ∀ b', b' ≠ b → view s' b' = view s b' := by
  by_cases hne : es = []
  · subst hne
    obtain ⟨s', i, hi, hI', hv', _, hfr⟩ := hb_insert hb hI hv
    refine ⟨s', ?_, hI', ⟨_, hv', SpecStep.first i rfl⟩, hfr⟩
    unfold hbStep
    rw [getEvents_one_empty hv]
    exact hi
  · obtain ⟨t, hn, hg, _⟩ := replaceLast_view_partial hI hv hne hpos hb
    obtain ⟨ti, hti⟩ := Option.isSome_iff_exists.mp ((ids_nodup hI hv).2 t hn.1)
    cases hm : merge pt t hb with
    | none =>
      obtain ⟨s', i, hi, hI', hv', hfresh, hfr⟩ := hb_insert hb hI hv
      refine ⟨s', ?_, hI', ⟨_, hv', SpecStep.appended t i hn hm hfresh⟩, hfr⟩
      unfold hbStep
      rw [hg]
      simp only [hm]
      exact hi
    | some mg =>
      obtain ⟨t', hn', hg', hview⟩ := replaceLast_view_partial hI hv hne hpos mg
      rw [hg] at hg'
      simp only [List.cons.injEq, and_true] at hg'
      subst hg'
      rw [hti, Option.getD_some] at hview
      refine ⟨replaceLast s b mg, ?_, replaceLast_inv b mg hI,
        ⟨_, ?_, SpecStep.merged t mg ti hn hti hm⟩, ?_⟩
      · unfold hbStep
        rw [hg]
        simp only [hm]
      · rw [hview]; exact Spec.onEvents_self hv
      · intro b' hb'; rw [hview]; exact Spec.frame_replaceId hb'

/-! ## a concrete state: two populated buckets and the empty bucket "c" -/

def exHb : St Nat :=
  { buckets := [⟨1, "a", default⟩, ⟨2, "b", default⟩, ⟨3, "c", default⟩],
    events := [⟨1, 1, 10, 15, 0⟩, ⟨2, 2, 10, 12, 1⟩, ⟨3, 1, 10, 20, 2⟩],
    seqB := 3, seqE := 3 }

theorem exHb_inv : Inv exHb := by
  unfold Inv exHb
  decide

theorem exHb_view : view exHb "c" = some (default, []) := rfl

/-- two heartbeats before the epoch, 1 µs apart, same data -/
def cexStream : List (Ev Nat) := [⟨none, -10, 1, 7⟩, ⟨none, -9, 1, 7⟩]

end Aw.Store.Sqlite
