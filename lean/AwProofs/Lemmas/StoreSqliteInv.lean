import AwModel.Store.Sqlite
import AwModel.Store.Spec
/-!
# Sqlite store model: the invariant and its preservation

`Inv s`: bucket ids pairwise distinct, bucket rowids pairwise distinct, event ids pairwise
distinct (all three as `List.Pairwise`, so also no row occurs twice), every bucket rowid ≤ `seqB`,
every event id ≤ `seqE`, every `event.brow ≤ seqB`.
-/
namespace Aw.Store.Sqlite
open Aw Aw.Store
variable {D : Type}

def Inv (s : St D) : Prop :=
  s.buckets.Pairwise (fun x y => x.bid ≠ y.bid ∧ x.rowid ≠ y.rowid) ∧
  s.events.Pairwise (fun x y => x.id ≠ y.id) ∧
  (∀ x ∈ s.buckets, x.rowid ≤ s.seqB) ∧
  (∀ x ∈ s.events, x.id ≤ s.seqE ∧ x.brow ≤ s.seqB)

/-! ## generic list helpers -/

theorem pairwise_mem {α : Type} {R : α → α → Prop} (hs : ∀ a b, R a b → R b a) :
    ∀ {l : List α}, l.Pairwise R → ∀ x ∈ l, ∀ y ∈ l, x = y ∨ R x y
  | [], _, x, hx, _, _ => by cases hx
  | a :: t, h, x, hx, y, hy => by
    rw [List.pairwise_cons] at h
    rcases List.mem_cons.mp hx with rfl | hx'
    · rcases List.mem_cons.mp hy with rfl | hy'
      · exact Or.inl rfl
      · exact Or.inr (h.1 y hy')
    · rcases List.mem_cons.mp hy with rfl | hy'
      · exact Or.inr (hs _ _ (h.1 x hx'))
      · exact pairwise_mem hs h.2 x hx' y hy'

theorem filter_map_fix {α : Type} (l : List α) (f : α → α) (p : α → Bool)
    (hp : ∀ x, p (f x) = p x) (hf : ∀ x, p x = true → f x = x) :
    (l.map f).filter p = l.filter p := by
  induction l with
  | nil => rfl
  | cons a t ih =>
    simp only [List.map_cons, List.filter_cons, hp a]
    cases h : p a with
    | true => simp [hf a h, ih]
    | false => simp [ih]

/-! ## consequences of the invariant -/

theorem Inv.bid_uniq {s : St D} (h : Inv s) :
    ∀ x ∈ s.buckets, ∀ y ∈ s.buckets, x.bid = y.bid → x = y := by
  intro x hx y hy hxy
  rcases pairwise_mem (R := fun x y : BRow => x.bid ≠ y.bid ∧ x.rowid ≠ y.rowid)
    (fun a b hab => ⟨fun e => hab.1 e.symm, fun e => hab.2 e.symm⟩) h.1 x hx y hy with e | e
  · exact e
  · exact absurd hxy e.1

theorem Inv.rowid_uniq {s : St D} (h : Inv s) :
    ∀ x ∈ s.buckets, ∀ y ∈ s.buckets, x.rowid = y.rowid → x = y := by
  intro x hx y hy hxy
  rcases pairwise_mem (R := fun x y : BRow => x.bid ≠ y.bid ∧ x.rowid ≠ y.rowid)
    (fun a b hab => ⟨fun e => hab.1 e.symm, fun e => hab.2 e.symm⟩) h.1 x hx y hy with e | e
  · exact e
  · exact absurd hxy e.2

theorem Inv.eid_uniq {s : St D} (h : Inv s) :
    ∀ x ∈ s.events, ∀ y ∈ s.events, x.id = y.id → x = y := by
  intro x hx y hy hxy
  rcases pairwise_mem (R := fun x y : ERow D => x.id ≠ y.id)
    (fun a b hab e => hab e.symm) h.2.1 x hx y hy with e | e
  · exact e
  · exact absurd hxy e

/-- the row found for bucket id `b` -/
theorem find_spec {s : St D} {b : String} {r : BRow}
    (h : s.buckets.find? (fun r => r.bid = b) = some r) : r ∈ s.buckets ∧ r.bid = b := by
  refine ⟨List.mem_of_find?_eq_some h, ?_⟩
  have := List.find?_some h
  simpa using this

theorem find_of_mem {s : St D} (hI : Inv s) {r : BRow} (hr : r ∈ s.buckets) :
    s.buckets.find? (fun x => x.bid = r.bid) = some r := by
  cases hf : s.buckets.find? (fun x => x.bid = r.bid) with
  | none =>
    rw [List.find?_eq_none] at hf
    have := hf r hr
    simp at this
  | some r' =>
    obtain ⟨m', e'⟩ := find_spec hf
    rw [hI.bid_uniq r' m' r hr e']

theorem rowOf_eq {s : St D} {b : String} :
    rowOf s b = (s.buckets.find? (fun r => r.bid = b)).map (·.rowid) := rfl

/-- distinct bucket ids have distinct rowids -/
theorem find_inj {s : St D} (hI : Inv s) {b b' : String} {r r' : BRow}
    (h : s.buckets.find? (fun r => r.bid = b) = some r)
    (h' : s.buckets.find? (fun r => r.bid = b') = some r')
    (e : r.rowid = r'.rowid) : b = b' := by
  obtain ⟨m, hb⟩ := find_spec h
  obtain ⟨m', hb'⟩ := find_spec h'
  have := hI.rowid_uniq r m r' m' e
  subst this
  rw [← hb, ← hb']

/-! ## `Inv` holds initially and is preserved -/

theorem inv_init : Inv ({} : St D) := by
  refine ⟨List.Pairwise.nil, List.Pairwise.nil, ?_, ?_⟩ <;> intro x hx <;> cases hx

theorem createBucket_inv {s s' : St D} {b : String} {m : Meta} (hI : Inv s)
    (h : createBucket s b m = .ok s') : Inv s' := by
  unfold createBucket at h
  split at h
  · cases h
  · rename_i hany
    injection h with h
    subst h
    obtain ⟨h1, h2, h3, h4⟩ := hI
    refine ⟨?_, h2, ?_, ?_⟩
    · rw [List.pairwise_append]
      refine ⟨h1, List.pairwise_singleton _ _, ?_⟩
      intro x hx y hy
      rw [List.mem_singleton] at hy
      subst hy
      constructor
      · intro e
        apply hany
        rw [List.any_eq_true]
        exact ⟨x, hx, by simpa using e⟩
      · have := h3 x hx
        show x.rowid ≠ s.seqB + 1
        omega
    · intro x hx
      rw [List.mem_append, List.mem_singleton] at hx
      rcases hx with hx | rfl
      · have := h3 x hx
        show x.rowid ≤ s.seqB + 1
        omega
      · exact Int.le_refl _
    · intro x hx
      have := h4 x hx
      show x.id ≤ s.seqE ∧ x.brow ≤ s.seqB + 1
      omega

theorem updateBucket_inv {s s' : St D} {b : String} {u : Upd} (hI : Inv s)
    (h : updateBucket s b u = .ok s') : Inv s' := by
  unfold updateBucket at h
  split at h
  · cases h
  · split at h
    · injection h with h
      subst h
      obtain ⟨h1, h2, h3, h4⟩ := hI
      refine ⟨?_, h2, ?_, h4⟩
      · rw [List.pairwise_map]
        refine h1.imp ?_
        intro x y hxy
        have hb : ∀ z : BRow, (if z.bid = b then { z with md := u.apply z.md } else z).bid = z.bid := by
          intro z; split <;> rfl
        have hr : ∀ z : BRow, (if z.bid = b then { z with md := u.apply z.md } else z).rowid = z.rowid := by
          intro z; split <;> rfl
        rw [hb, hb, hr, hr]
        exact hxy
      · intro x hx
        rw [List.mem_map] at hx
        obtain ⟨y, hy, rfl⟩ := hx
        have := h3 y hy
        split <;> exact this
    · cases h

theorem deleteBucket_inv {s s' : St D} {b : String} (hI : Inv s)
    (h : deleteBucket s b = .ok s') : Inv s' := by
  unfold deleteBucket at h
  split at h
  · cases h
  · injection h with h
    subst h
    obtain ⟨h1, h2, h3, h4⟩ := hI
    refine ⟨h1.filter _, h2.filter _, ?_, ?_⟩
    · intro x hx
      exact h3 x (List.mem_filter.mp hx).1
    · intro x hx
      exact h4 x (List.mem_filter.mp hx).1

theorem rowOf_le {s : St D} (hI : Inv s) {b : String} {r : Int} (h : rowOf s b = some r) :
    r ≤ s.seqB := by
  rw [rowOf_eq, Option.map_eq_some_iff] at h
  obtain ⟨x, hx, rfl⟩ := h
  exact hI.2.2.1 x (find_spec hx).1

theorem insertOne_inv {s s' : St D} {b : String} {e : Ev D} {i : Int} (hI : Inv s)
    (h : insertOne s b e = .ok (s', i)) : Inv s' := by
  unfold insertOne at h
  split at h
  · cases h
  · rename_i r hr
    injection h with h
    injection h with h hi
    subst h
    have hr' := rowOf_le hI hr
    obtain ⟨h1, h2, h3, h4⟩ := hI
    refine ⟨h1, ?_, h3, ?_⟩
    · rw [List.pairwise_append]
      refine ⟨h2, List.pairwise_singleton _ _, ?_⟩
      intro x hx y hy
      rw [List.mem_singleton] at hy
      subst hy
      have := (h4 x hx).1
      show x.id ≠ s.seqE + 1
      omega
    · intro x hx
      rw [List.mem_append, List.mem_singleton] at hx
      rcases hx with hx | rfl
      · have := h4 x hx
        show x.id ≤ s.seqE + 1 ∧ x.brow ≤ s.seqB
        omega
      · show s.seqE + 1 ≤ s.seqE + 1 ∧ r ≤ s.seqB
        omega

/-- rewriting the payload columns of some rows keeps the invariant -/
theorem inv_map_payload {s : St D} (hI : Inv s) (f : ERow D → ERow D)
    (hid : ∀ x, (f x).id = x.id) (hbrow : ∀ x, (f x).brow = x.brow) :
    Inv { s with events := s.events.map f } := by
  obtain ⟨h1, h2, h3, h4⟩ := hI
  refine ⟨h1, ?_, h3, ?_⟩
  · show (s.events.map f).Pairwise _
    rw [List.pairwise_map]
    refine h2.imp ?_
    intro x y hxy
    rw [hid, hid]
    exact hxy
  · intro x hx
    have hx : x ∈ s.events.map f := hx
    rw [List.mem_map] at hx
    obtain ⟨y, hy, rfl⟩ := hx
    rw [hid, hbrow]
    exact h4 y hy

theorem replace_inv {s : St D} (b : String) (i : Int) (e : Ev D) (hI : Inv s) :
    Inv (replace s b i e) := by
  unfold replace
  split
  · exact hI
  · apply inv_map_payload hI
    · intro x; split <;> rfl
    · intro x; split <;> rfl

theorem replaceLast_inv {s : St D} (b : String) (e : Ev D) (hI : Inv s) :
    Inv (replaceLast s b e) := by
  unfold replaceLast
  split
  · exact hI
  · split
    · exact hI
    · apply inv_map_payload hI
      · intro x; split <;> rfl
      · intro x; split <;> rfl

theorem delete_inv {s : St D} (b : String) (i : Int) (hI : Inv s) :
    Inv (delete s b i).1 := by
  unfold delete
  split
  · exact hI
  · obtain ⟨h1, h2, h3, h4⟩ := hI
    refine ⟨h1, h2.filter _, h3, ?_⟩
    intro x hx
    exact h4 x (List.mem_filter.mp hx).1

theorem foldl_replace_inv {s : St D} (b : String) (l : List (Ev D)) (hI : Inv s) :
    Inv (l.foldl (fun s e => replace s b (e.id.getD 0) e) s) := by
  induction l generalizing s with
  | nil => exact hI
  | cons a t ih => exact ih (replace_inv b _ a hI)

theorem insertRows_inv {s s' : St D} {b : String} {l : List (Ev D)} (hI : Inv s)
    (h : insertRows s b l = .ok s') : Inv s' := by
  induction l generalizing s with
  | nil =>
    unfold insertRows at h
    injection h with h
    exact h ▸ hI
  | cons a t ih =>
    unfold insertRows at h
    cases h1 : insertOne s b a with
    | error x => rw [h1] at h; cases h
    | ok p =>
      obtain ⟨s1, i⟩ := p
      rw [h1] at h
      exact ih (insertOne_inv hI h1) h

theorem insertMany_inv {s s' : St D} {b : String} {es : List (Ev D)} (hI : Inv s)
    (h : insertMany s b es = .ok s') : Inv s' :=
  insertRows_inv (foldl_replace_inv b _ hI) h

end Aw.Store.Sqlite
