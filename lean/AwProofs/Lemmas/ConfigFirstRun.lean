import AwProofs.Lemmas.Config
import AwProofs.Lemmas.ConfigText
/-!
# The first-run file: parser specification and the identity lemma

`tomlkit.parse` is not modelled. The theorems take the parser as a parameter `parse` (text to
nested dicts, `none` = it raised) together with `hdr` (the key path a stripped `[a.b]` header line
names) and assume `ParserSpec parse hdr`, which speaks only about documents made of white lines,
`#` comment lines and plain `[table]` header lines.
-/
namespace AwProofs.Config
open Aw.Config
variable {V : Type}

/-- a white line as TOML allows it (spaces, tabs, a carriage return before the newline) -/
def tomlBlank (l : Text) : Prop := ∀ c ∈ l, c = ' ' ∨ c = '\t' ∨ c = '\r'

/-- Assumed about the TOML parser: a document all of whose lines are white, `#` comments or plain
    `[table]` headers naming pairwise different paths is accepted, and the result has unique keys,
    no values, and no table other than the root and the prefixes of the header paths. -/
structure ParserSpec (parse : Text → Option (Entries V)) (hdr : Text → Option Path) : Prop where
  skeleton : ∀ s : Text,
    (∀ l ∈ splitNl s, tomlBlank l ∨ isCommentLine l = true ∨
      (isPlainHeader l = true ∧ (hdr (pyStrip l)).isSome = true)) →
    (((splitNl s).filter isPlainHeader).map (fun l => hdr (pyStrip l))).Nodup →
    ∃ u, parse s = some u ∧ EWF u ∧ (∀ p, (Toml.table u).leafAt p = none) ∧
      ∀ q, (Toml.table u).tableAt q = true → q ≠ [] →
        ∃ l ∈ splitNl s, isPlainHeader l = true ∧ ∃ p, hdr (pyStrip l) = some p ∧ q <+: p

/-- the plain `[table]` header lines before the first `[[array-of-tables]]` header line -/
def keptHeaders (s : Text) : List Text :=
  ((splitNl s).takeWhile (fun l => !startsBrBr (pyStrip l))).filter (fun l => startsBr (pyStrip l))

/-- "The defaults `s` (which parse to `d`) are valid TOML with every value written on one line", as
    far as the first-run file depends on it:
    * white lines are TOML white space;
    * every line before the first `[[..]]` header whose stripped text starts with `[` really is a
      table header `[p]` of the document - not a continuation line of a multi-line array or string -
      and `p` is a table of `d` (in valid TOML a header before any `[[..]]` header cannot lead
      through an array);
    * no table is defined twice. -/
structure OneLinePerValue (hdr : Text → Option Path) (s : Text) (d : Entries V) : Prop where
  blank : ∀ l ∈ splitNl s, isBlankLine l = true → tomlBlank l
  header : ∀ l ∈ keptHeaders s, ∃ p, hdr (pyStrip l) = some p ∧ (Toml.table d).tableAt p = true
  distinct : ((keptHeaders s).map (fun l => hdr (pyStrip l))).Nodup

/-- the config file after `n` successive calls of `load_config_toml`, starting from state `f` -/
def fileAfter (parse : Text → Option (Entries V)) (s : Text) : Nat → Option Text → Option Text
  | 0, f => f
  | n + 1, f => fileAfter parse s n (load parse s f).file

theorem fileAfter_succ (parse : Text → Option (Entries V)) (s : Text) (n : Nat) (f : Option Text) :
    fileAfter parse s (n + 1) f = fileAfter parse s n (load parse s f).file := rfl

theorem fileAfter_fixed (parse : Text → Option (Entries V)) (s : Text) (f : Option Text)
    (h : (load parse s f).file = f) : ∀ n, fileAfter parse s n f = f
  | 0 => rfl
  | n + 1 => by rw [fileAfter_succ, h, fileAfter_fixed parse s f h n]

theorem first_run_merge {parse : Text → Option (Entries V)} {hdr : Text → Option Path}
    (hp : ParserSpec parse hdr) (s : Text) (d : Entries V) (h1 : OneLinePerValue hdr s d) :
    ∃ u, parse (commentOut s) = some u ∧ mergeE u d = d := by
  have hl := lines_commentOut s
  have hk : kept false (splitNl s) = keptHeaders s := kept_false_eq _
  have hf : (splitNl (commentOut s)).filter isPlainHeader = keptHeaders s := by
    rw [hl, commentLines_headers, hk]
  obtain ⟨u, hu, hwf, hleaf, htab⟩ := hp.skeleton (commentOut s) (by
      intro l hm
      rw [hl] at hm
      rcases commentLines_classes false _ l hm with ⟨hb, hin⟩ | hc | hkp
      · exact Or.inl (h1.blank l hin hb)
      · exact Or.inr (Or.inl hc)
      · refine Or.inr (Or.inr ⟨?_, ?_⟩)
        · have : l ∈ (commentLines false (splitNl s)).filter isPlainHeader := by
            rw [commentLines_headers]; exact hkp
          exact (List.mem_filter.mp this).2
        · rw [hk] at hkp
          obtain ⟨p, hpp, _⟩ := h1.header l hkp
          simp [hpp]) (by rw [hf]; exact h1.distinct)
  refine ⟨u, hu, ?_⟩
  apply mergeE_skel
  have : TSkel (Toml.table u) (Toml.table d) := by
    apply tskel_of_paths _ _ (by simpa [TWF] using hwf)
    intro p
    refine ⟨hleaf p, fun ht => ?_⟩
    by_cases hp0 : p = []
    · subst hp0; simp [Toml.tableAt, Toml.get?]
    · obtain ⟨l, hm, hh, p', hp', hpre⟩ := htab p ht hp0
      have hmem : l ∈ keptHeaders s := by
        rw [← hf]; exact List.mem_filter.mpr ⟨hm, hh⟩
      obtain ⟨p'', hp'', htd⟩ := h1.header l hmem
      rw [hp'] at hp''
      cases hp''
      exact tableAt_prefix _ p p' hpre htd
  simpa [TSkel] using this

end AwProofs.Config
