import AwProofs.Lemmas.QueryTree
/-! Interpreting the parsed tree is denoting the expression; statements, `query()`. -/
namespace Aw.Query

theorem Ns.set_get_self : ∀ (ns : Ns) (k : Str) (v : Val), ns.get? k = some v → ns.set k v = ns
  | [], k, v, h => by simp [Ns.get?] at h
  | (k', v') :: rest, k, v, h => by
    rw [Ns.get?] at h
    rw [Ns.set]
    split at h
    · rename_i hk; cases h; simp [hk]
    · rename_i hk; simp only [hk, if_false]; rw [Ns.set_get_self rest k v h]

theorem exceptMap_ok {α β} (f : α → β) (a : α) : (Except.ok a : Except Err α).map f = .ok (f a) := rfl
theorem exceptMap_error {α β} (f : α → β) (e : Err) : (Except.error e : Except Err α).map f = .error e := rfl
theorem exceptBind_ok {α β} (f : α → Except Err β) (a : α) : (Except.ok a : Except Err α).bind f = f a := rfl
theorem exceptBind_error {α β} (f : α → Except Err β) (e : Err) : (Except.error e : Except Err α).bind f = .error e := rfl

/-- the interpreter on the parsed tree of `e` (variables captured from `ns`) agrees with the
    denotation of `e` in `ns`, and leaves the namespace as it was -/
def InterpOK (reg : List Entry) (apply : Apply) (e : Expr) : Prop :=
  ∀ ns : Ns, interp reg apply (tokOf ns e) ns = (denote reg apply ns e).map (fun v => (v, ns))

theorem interpList_tokOf (reg : List Entry) (apply : Apply) :
    ∀ (es : List Expr), (∀ e ∈ es, InterpOK reg apply e) → ∀ ns : Ns,
      interpList reg apply (tokOfList ns es) ns = (denoteList reg apply ns es).map (fun vs => (vs, ns))
  | [], _, ns => by rw [tokOfList, interpList, denoteList]; rfl
  | e :: es, h, ns => by
    rw [tokOfList, interpList, denoteList, h e (by simp) ns]
    cases hd : denote reg apply ns e with
    | error err => rfl
    | ok v =>
      simp only [exceptMap_ok, exceptBind_ok]
      rw [interpList_tokOf reg apply es (fun x hx => h x (by simp [hx])) ns]
      cases denoteList reg apply ns es <;> rfl

theorem interpDict_tokOf (reg : List Entry) (apply : Apply) :
    ∀ (es : List (Str × Expr)), (∀ p ∈ es, InterpOK reg apply p.2) → ∀ ns : Ns,
      interpDict reg apply (tokOfDict ns es) ns = (denoteDict reg apply ns es).map (fun vs => (vs, ns))
  | [], _, ns => by rw [tokOfDict, interpDict, denoteDict]; rfl
  | (k, e) :: es, h, ns => by
    rw [tokOfDict, interpDict, denoteDict, h (k, e) (by simp) ns]
    cases hd : denote reg apply ns e with
    | error err => rfl
    | ok v =>
      simp only [exceptMap_ok, exceptBind_ok]
      rw [interpDict_tokOf reg apply es (fun x hx => h x (by simp [hx])) ns]
      cases denoteDict reg apply ns es <;> rfl

theorem interp_tokOf (reg : List Entry) (apply : Apply) : ∀ e : Expr, InterpOK reg apply e := by
  intro e
  induction e using Expr.ind with
  | hint n => intro ns; rw [tokOf, interp, denote]; rfl
  | hstr s => intro ns; rw [tokOf, interp, denote]; rfl
  | hvar name =>
    intro ns
    rw [tokOf, interp, denote]
    cases hg : ns.get? name with
    | none => simp [Ns.has, hg]; rfl
    | some v => simp [Ns.has, hg, Ns.set_get_self ns name v hg]; rfl
  | hcall f args ih =>
    intro ns
    rw [tokOf, interp, denote]
    cases lookupEntry reg f with
    | none => rfl
    | some e =>
      simp only
      rw [interpList_tokOf reg apply args ih ns]
      cases denoteList reg apply ns args with
      | error err => rfl
      | ok vs =>
        simp only [exceptMap_ok, exceptBind_ok]
  | hlist xs ih =>
    intro ns
    rw [tokOf, interp, denote, interpList_tokOf reg apply xs ih ns]
    cases denoteList reg apply ns xs <;> rfl
  | hdict kvs ih =>
    intro ns
    rw [tokOf, interp, denote, interpDict_tokOf reg apply kvs ih ns]
    cases denoteDict reg apply ns kvs <;> rfl

/-! ### no `;` in rendered expressions; the statement split -/

theorem splitOn_sep {ch : Char} : ∀ (a b : Str), (∀ c ∈ a, c ≠ ch) →
    splitOn ch (a ++ ch :: b) = a :: splitOn ch b
  | [], b, _ => by simp [splitOn]
  | x :: a, b, h => by
    show splitOn ch (x :: (a ++ ch :: b)) = _
    rw [splitOn, if_neg (h x (by simp)), splitOn_sep a b (fun c hc => h c (by simp [hc]))]

theorem splitOn_none {ch : Char} : ∀ (a : Str), (∀ c ∈ a, c ≠ ch) → splitOn ch a = [a]
  | [], _ => rfl
  | x :: a, h => by
    rw [splitOn, if_neg (h x (by simp)), splitOn_none a (fun c hc => h c (by simp [hc]))]

def NoSemi (s : Str) : Prop := ∀ c ∈ s, c ≠ ';'

theorem noSemi_append {a b : Str} (ha : NoSemi a) (hb : NoSemi b) : NoSemi (a ++ b) := by
  intro c hc; rcases List.mem_append.mp hc with h | h
  · exact ha c h
  · exact hb c h

theorem noSemi_cons {c : Char} {a : Str} (hc : c ≠ ';') (ha : NoSemi a) : NoSemi (c :: a) := by
  intro d hd; rcases List.mem_cons.mp hd with rfl | h
  · exact hc
  · exact ha d h

theorem noSemi_nil : NoSemi [] := by intro c hc; simp at hc

theorem noSemi_ws {w : Str} (h : ∀ c ∈ w, isSpace c = true) : NoSemi w :=
  space_ne_of (by decide) h

theorem noSemi_words {w : Str} (h : ∀ c ∈ w, Word c) : NoSemi w :=
  fun c hc => word_ne (h c hc) (by decide)

theorem noSemi_escape (q : Char) (hq : q ≠ ';') : ∀ s : Str, (∀ c ∈ s, c ≠ ';') → NoSemi (escape q s)
  | [], _ => by rw [escape]; exact noSemi_nil
  | x :: xs, h => by
    rw [escape]
    have ih := noSemi_escape q hq xs (fun c hc => h c (by simp [hc]))
    split
    · exact noSemi_cons (by decide) (noSemi_cons hq ih)
    · exact noSemi_cons (h x (by simp)) ih

theorem noSemi_renderStr {q : Char} (hq : q = '"' ∨ q = '\'') (s : Str) (hs : StrOK s) : NoSemi (renderStr q s) := by
  have hq' : q ≠ ';' := by rcases hq with rfl | rfl <;> decide
  unfold renderStr
  exact noSemi_cons hq' (noSemi_append (noSemi_escape q hq' s (fun c hc => (hs c hc).2))
    (noSemi_cons hq' noSemi_nil))

theorem noSemi_commaSep {l : Layout} (hl : LayoutOK l) (a b j : Nat) : NoSemi (commaSep l a b j) := by
  unfold commaSep; split
  · exact noSemi_nil
  · exact noSemi_append (noSemi_ws (slot_space hl a)) (noSemi_cons (by decide) (noSemi_ws (slot_space hl b)))

theorem noSemi_renderArgs {l : Layout} (hl : LayoutOK l) : ∀ (es : List Expr) (j : Nat),
    (∀ e ∈ es, ∀ l', LayoutOK l' → NoSemi (renderExpr l' e)) → NoSemi (renderArgs l j es)
  | [], j, _ => by rw [renderArgs]; exact noSemi_nil
  | e :: es, j, h => by
    rw [renderArgs]
    exact noSemi_append (noSemi_commaSep hl _ _ _) (noSemi_append (h e (by simp) _ (layoutOK_sub hl j))
      (noSemi_renderArgs hl es (j + 1) (fun x hx => h x (by simp [hx]))))

theorem noSemi_renderEntries {l : Layout} (hl : LayoutOK l) : ∀ (es : List (Str × Expr)) (j : Nat),
    (∀ p ∈ es, StrOK p.1) → (∀ p ∈ es, ∀ l', LayoutOK l' → NoSemi (renderExpr l' p.2)) →
    NoSemi (renderEntries l j es)
  | [], j, _, _ => by rw [renderEntries]; exact noSemi_nil
  | (k, e) :: es, j, hk, h => by
    rw [renderEntries]
    exact noSemi_append (noSemi_commaSep hl _ _ _) (noSemi_append
      (noSemi_renderStr (quote_cases l _) k (hk (k, e) (by simp)))
      (noSemi_append (noSemi_ws (slot_space hl _)) (noSemi_cons (by decide)
        (noSemi_append (noSemi_ws (slot_space hl _)) (noSemi_append (h (k, e) (by simp) _ (layoutOK_sub hl j))
          (noSemi_renderEntries hl es (j + 1) (fun x hx => hk x (by simp [hx])) (fun x hx => h x (by simp [hx]))))))))

theorem noSemi_renderExpr : ∀ e : Expr, WF e → ∀ l, LayoutOK l → NoSemi (renderExpr l e) := by
  intro e
  induction e using Expr.ind with
  | hint n =>
    intro _ l _; rw [renderExpr]
    exact noSemi_words (fun c hc => Or.inr (Or.inr ((decimal_spec n).2.1 c hc)))
  | hstr s => intro hw l _; rw [WF] at hw; rw [renderExpr]; exact noSemi_renderStr (quote_cases l 0) s hw
  | hvar name => intro hw l _; rw [WF] at hw; rw [renderExpr]; exact noSemi_words (ident_word hw)
  | hcall f args ih =>
    intro hw l hl; rw [WF] at hw; rw [renderExpr]
    have hwa := (wfList_iff args).mp hw.2
    exact noSemi_append (noSemi_words (ident_word hw.1)) (noSemi_cons (by decide)
      (noSemi_append (noSemi_renderArgs hl args 0 (fun e he => ih e he (hwa e he)))
        (noSemi_cons (by decide) noSemi_nil)))
  | hlist xs ih =>
    intro hw l hl; rw [WF] at hw; rw [renderExpr]
    have hwa := (wfList_iff xs).mp hw
    exact noSemi_cons (by decide) (noSemi_append (noSemi_renderArgs hl xs 0 (fun e he => ih e he (hwa e he)))
      (noSemi_cons (by decide) noSemi_nil))
  | hdict kvs ih =>
    intro hw l hl; rw [WF] at hw; rw [renderExpr]
    have hwa := (wfDict_iff kvs).mp hw.1
    exact noSemi_cons (by decide) (noSemi_append
      (noSemi_renderEntries hl kvs 0 (fun p hp => (hwa p hp).1) (fun p hp => ih p hp (hwa p hp).2))
      (noSemi_cons (by decide) noSemi_nil))

/-! ### statements -/

/-- a statement as `query()` hands it to `parse(line)`: stripped -/
def lineOf (l : Layout) (i : Nat) (name : Str) (e : Expr) : Str :=
  name ++ (l.slot (4 * i + 1) ++ '=' :: (l.slot (4 * i + 2) ++ renderExpr (l.sub i) e))

def linesOf (l : Layout) (i : Nat) : Prog → List Str
  | [] => []
  | (n, e) :: rest => lineOf l i n e :: linesOf l (i + 1) rest

theorem strip_ws_edges_ws {w x w' : Str} (hw : ∀ c ∈ w, isSpace c = true) (hx : Edges x)
    (hw' : ∀ c ∈ w', isSpace c = true) : strip (w ++ (x ++ w')) = x := by
  have h1 : strip (w ++ (x ++ w')) = strip (x ++ w') := by
    unfold strip; rw [lstrip_ws_append hw]
  rw [h1, strip_edges_ws hx hw']

theorem edges_lineOf {l : Layout} (i : Nat) {name : Str} (hn : Ident name) {e : Expr} (he : WF e) :
    Edges (lineOf l i name e) := by
  unfold lineOf
  have h1 : Edges (renderExpr (l.sub i) e) := edges_renderExpr e _ he
  have h2 : Tail (l.slot (4 * i + 1) ++ '=' :: (l.slot (4 * i + 2) ++ renderExpr (l.sub i) e)) := by
    have : l.slot (4 * i + 1) ++ '=' :: (l.slot (4 * i + 2) ++ renderExpr (l.sub i) e) =
        (l.slot (4 * i + 1) ++ '=' :: l.slot (4 * i + 2)) ++ renderExpr (l.sub i) e := by simp
    rw [this]; exact tail_append_right (tail_of_edges h1) h1.ne_nil
  exact edges_append_tail (word_str_edges hn.1 (ident_word hn)) h2

theorem statements_render {l : Layout} (hl : LayoutOK l) : ∀ (p : Prog) (i : Nat), WFProg p →
    statements (renderStmts l i p) = linesOf l i p
  | [], i, _ => by
    rw [renderStmts, linesOf]
    unfold statements
    rw [splitOn_none _ (noSemi_ws (slot_space hl _))]
    simp [strip_ws (slot_space hl (4 * i))]
  | (name, e) :: rest, i, hw => by
    rw [WFProg] at hw
    obtain ⟨hn, he, hr⟩ := hw
    rw [renderStmts, linesOf]
    have e1 : l.slot (4 * i) ++ (name ++ (l.slot (4 * i + 1) ++ '=' :: (l.slot (4 * i + 2) ++
        (renderExpr (l.sub i) e ++ (l.slot (4 * i + 3) ++ ';' :: renderStmts l (i + 1) rest))))) =
        (l.slot (4 * i) ++ (lineOf l i name e ++ l.slot (4 * i + 3))) ++ ';' :: renderStmts l (i + 1) rest := by
      simp [lineOf]
    have hns : NoSemi (l.slot (4 * i) ++ (lineOf l i name e ++ l.slot (4 * i + 3))) := by
      unfold lineOf
      exact noSemi_append (noSemi_ws (slot_space hl _)) (noSemi_append
        (noSemi_append (noSemi_words (ident_word hn)) (noSemi_append (noSemi_ws (slot_space hl _))
          (noSemi_cons (by decide) (noSemi_append (noSemi_ws (slot_space hl _))
            (noSemi_renderExpr e he _ (layoutOK_sub hl i))))))
        (noSemi_ws (slot_space hl _)))
    have hstrip := strip_ws_edges_ws (slot_space hl (4 * i)) (edges_lineOf (l := l) i hn he) (slot_space hl (4 * i + 3))
    have ih := statements_render hl rest (i + 1) hr
    unfold statements at ih ⊢
    rw [e1, splitOn_sep _ _ hns]
    simp only [List.map_cons, hstrip]
    rw [List.filter_cons_of_pos (by simpa using (edges_lineOf (l := l) i hn he).ne_nil), ih]

theorem not_word_eq : ¬ Word '=' := fun h => by have := word_toNat h; simp at this

theorem splitAssign_lineOf {l : Layout} (hl : LayoutOK l) (i : Nat) {name : Str} (hn : Ident name) (e : Expr) :
    splitAssign (lineOf l i name e) =
      (name ++ l.slot (4 * i + 1), l.slot (4 * i + 2) ++ renderExpr (l.sub i) e) := by
  have e1 : lineOf l i name e = (name ++ l.slot (4 * i + 1)) ++ '=' :: (l.slot (4 * i + 2) ++ renderExpr (l.sub i) e) := by
    simp [lineOf]
  have hno : ∀ c ∈ name ++ l.slot (4 * i + 1), c ≠ '=' := by
    intro c hc
    rcases List.mem_append.mp hc with h | h
    · exact word_ne (ident_word hn c h) (by decide)
    · exact space_ne_of (by decide) (slot_space hl _) c h
  unfold splitAssign
  rw [e1, find_append_cons hno]
  simp only [List.take_left]
  have : (name ++ l.slot (4 * i + 1)) ++ '=' :: (l.slot (4 * i + 2) ++ renderExpr (l.sub i) e) =
      ((name ++ l.slot (4 * i + 1)) ++ ['=']) ++ (l.slot (4 * i + 2) ++ renderExpr (l.sub i) e) := by simp
  rw [this, List.drop_left' (by simp; omega)]

/-- `parse(line)` on a rendered statement: the assigned name and the token tree of the expression -/
theorem parseStmt_lineOf (ns : Ns) {l : Layout} (hl : LayoutOK l) (i : Nat) {name : Str} (hn : Ident name)
    {e : Expr} (he : WF e) : parseStmt ns (lineOf l i name e) = .ok (name, tokOf ns e) := by
  unfold parseStmt
  rw [splitAssign_lineOf hl i hn e]
  simp only
  have hR := edges_renderExpr e (l.sub i) he
  have hvar : parseToken (name ++ l.slot (4 * i + 1)) = .ok (some (.var, name), []) := by
    unfold parseToken
    have hE : Edges name := word_str_edges hn.1 (ident_word hn)
    simp only [strip_edges_ws hE (slot_space hl _), hn.1, if_false]
    have := firstMatch_render (.var name) l (by rw [WF]; exact hn) hl [] delim_nil
    rw [renderExpr] at this
    simpa [tyOf] using this
  have hval : parseToken (l.slot (4 * i + 2) ++ renderExpr (l.sub i) e) = .ok (some (tyOf e, renderExpr (l.sub i) e), []) := by
    have := parseToken_render (w := l.slot (4 * i + 2)) (k := []) e (l.sub i) he (layoutOK_sub hl i)
      (slot_space hl _) delim_nil tail_nil
    simpa using this
  have hfuel : 2 * (renderExpr (l.sub i) e).length + 1 ≤ stmtFuel (lineOf l i name e) := by
    unfold stmtFuel lineOf; simp; omega
  have htok := parseTok_render ns e he (l.sub i) _ (layoutOK_sub hl i) hfuel
  unfold parseAssign
  have hne : l.slot (4 * i + 2) ++ renderExpr (l.sub i) e ≠ [] := by simp [hR.ne_nil]
  simp only [hne, if_false, hvar, hval, htok]
  simp [strip]
  rfl

theorem runStmts_lines (reg : List Entry) (apply : Apply) {l : Layout} (hl : LayoutOK l) :
    ∀ (p : Prog) (i : Nat) (ns : Ns), WFProg p →
      runStmts reg apply (linesOf l i p) ns = denoteStmts reg apply p ns
  | [], i, ns, _ => by rw [linesOf, runStmts, denoteStmts]
  | (name, e) :: rest, i, ns, hw => by
    rw [WFProg] at hw
    obtain ⟨hn, he, hr⟩ := hw
    rw [linesOf, runStmts, denoteStmts, parseStmt_lineOf ns hl i hn he]
    simp only
    rw [interp_tokOf reg apply e ns]
    cases denote reg apply ns e with
    | error err => rfl
    | ok v =>
      simp only [exceptMap_ok, exceptBind_ok]
      exact runStmts_lines reg apply hl rest (i + 1) _ hr

end Aw.Query
