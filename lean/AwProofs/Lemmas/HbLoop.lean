import AwModel.Store.HbLoop
import AwModel.Store.Spec
import AwProofs.Lemmas.Heartbeat
import AwProofs.Lemmas.Spec
/-!
# The heartbeat ingestion loop on the list model (C07), and its transport to a backend

`SpecStep pt es hb es'`: one turn of the standard loop on a bucket seen as a list of events in
storage order: take a newest event `t` (`Spec.IsNewest`), try `merge pt t hb`, then either rewrite
the event with `t`'s id (`Spec.replaceId`) or append the heartbeat under a fresh id.

On a bucket whose timestamps increase strictly in storage order (`Sorted`) the newest event is the
last one, so a step is `es.dropLast ++ [m]` or `es ++ [hb]` (`specStep_shape`), and a run over a
stream with strictly increasing timestamps is `Heartbeat.reduceAux` (`foldE_loop`, stated once for
an abstract backend given by its `view`, its invariant and its loop body).
-/
namespace Aw.Store.HbLoop
open Aw Aw.Store Aw.Heartbeat
variable {D : Type} [DecidableEq D]
set_option linter.unusedSectionVars false

/-- an event without its id -/
def noId (e : Ev D) : Ev D := { e with id := none }

/-- storage order is strictly increasing timestamp order -/
def Sorted (es : List (Ev D)) : Prop := es.Pairwise (fun a b => a.ts < b.ts)

/-- every event carries an id and the ids are pairwise distinct -/
def IdsOk (es : List (Ev D)) : Prop := (es.filterMap (·.id)).Nodup ∧ ∀ x ∈ es, x.id.isSome

/-- one turn of the ingestion loop on the list model -/
inductive SpecStep (pt : Int) (es : List (Ev D)) (hb : Ev D) : List (Ev D) → Prop
  | first (i : Int) : es = [] → SpecStep pt es hb [{ hb with id := some i }]
  | merged (t m : Ev D) (i : Int) : Spec.IsNewest es t → t.id = some i → merge pt t hb = some m →
      SpecStep pt es hb (es.map (fun x => if x.id = some i then { m with id := some i } else x))
  | appended (t : Ev D) (i : Int) : Spec.IsNewest es t → merge pt t hb = none →
      i ∉ es.filterMap (·.id) → SpecStep pt es hb (es ++ [{ hb with id := some i }])

/-! ## list facts -/

theorem noId_ts (e : Ev D) : (noId e).ts = e.ts := rfl
theorem noId_dur (e : Ev D) : (noId e).dur = e.dur := rfl
theorem noId_data (e : Ev D) : (noId e).data = e.data := rfl

theorem noId_withId (e : Ev D) (i : Option Int) : noId { e with id := i } = noId e := rfl

theorem withId_self {m : Ev D} {i : Option Int} (h : m.id = i) : { m with id := i } = m := by
  cases m; cases h; rfl

theorem sorted_nil : Sorted ([] : List (Ev D)) := List.Pairwise.nil

/-- in a sorted bucket the newest event is the last one -/
theorem newest_eq_last {pre : List (Ev D)} {l t : Ev D} (hs : Sorted (pre ++ [l]))
    (hn : Spec.IsNewest (pre ++ [l]) t) : t = l := by
  unfold Sorted at hs
  rw [List.pairwise_append] at hs
  rcases List.mem_append.mp hn.1 with h | h
  · have h1 := hs.2.2 t h l (List.mem_singleton.mpr rfl)
    have h2 := hn.2 l (List.mem_append_right _ (List.mem_singleton.mpr rfl))
    omega
  · exact List.mem_singleton.mp h

/-- rewriting the id of the last event of a bucket with distinct ids touches the last event only -/
theorem replace_last_eq {pre : List (Ev D)} {l y : Ev D} {i : Int} (hid : IdsOk (pre ++ [l]))
    (hl : l.id = some i) :
    (pre ++ [l]).map (fun x => if x.id = some i then y else x) = pre ++ [y] := by
  have hn := hid.1
  rw [List.filterMap_append, List.nodup_append] at hn
  rw [List.map_append]
  congr 1
  · conv => rhs; rw [← List.map_id pre]
    apply List.map_congr_left
    intro x hx
    have hne : x.id ≠ some i := by
      intro hx'
      have h1 : i ∈ pre.filterMap (·.id) := List.mem_filterMap.mpr ⟨x, hx, hx'⟩
      have h2 : i ∈ [l].filterMap (·.id) := List.mem_filterMap.mpr ⟨l, List.mem_singleton.mpr rfl, hl⟩
      exact hn.2.2 i h1 i h2 rfl
    simp only [if_neg hne, id]
  · simp only [List.map_cons, List.map_nil, if_pos hl]

theorem eq_nil_or_snoc (es : List (Ev D)) : es = [] ∨ ∃ pre l, es = pre ++ [l] := by
  rcases List.eq_nil_or_concat es with h | ⟨pre, l, h⟩
  · exact Or.inl h
  · exact Or.inr ⟨pre, l, by rw [h, List.concat_eq_append]⟩

/-- the three shapes of a step on a sorted bucket -/
theorem specStep_cases {pt : Int} {es es' : List (Ev D)} {hb : Ev D} (hs : Sorted es)
    (hid : IdsOk es) (h : SpecStep pt es hb es') :
    (es = [] ∧ ∃ i, es' = [{ hb with id := some i }]) ∨
    (∃ pre l m, es = pre ++ [l] ∧ merge pt l hb = some m ∧ es' = pre ++ [m]) ∨
    (∃ pre l i, es = pre ++ [l] ∧ merge pt l hb = none ∧ i ∉ es.filterMap (·.id) ∧
      es' = es ++ [{ hb with id := some i }]) := by
  cases h with
  | first i h0 => exact Or.inl ⟨h0, i, rfl⟩
  | merged t m i hn hti hm =>
    rcases eq_nil_or_snoc es with h0 | ⟨pre, l, rfl⟩
    · subst h0; cases hn.1
    · have := newest_eq_last hs hn
      subst this
      refine Or.inr (Or.inl ⟨pre, t, m, rfl, hm, ?_⟩)
      rw [replace_last_eq hid hti]
      have hmi : m.id = some i := by rw [(merge_eq pt t hb m hm).2.2.1, hti]
      rw [withId_self hmi]
  | appended t i hn hm hi =>
    rcases eq_nil_or_snoc es with h0 | ⟨pre, l, rfl⟩
    · subst h0; cases hn.1
    · have := newest_eq_last hs hn
      subst this
      exact Or.inr (Or.inr ⟨pre, t, i, rfl, hm, hi, rfl⟩)

/-- no earlier event is altered or lost by a step: only the last event of a sorted bucket can
    change, or one event is appended -/
theorem specStep_shape {pt : Int} {es es' : List (Ev D)} {hb : Ev D} (hs : Sorted es)
    (hid : IdsOk es) (h : SpecStep pt es hb es') :
    ∃ x, es' = es.dropLast ++ [x] ∨ es' = es ++ [x] := by
  rcases specStep_cases hs hid h with ⟨h0, i, he⟩ | ⟨pre, l, m, he, _, he'⟩ | ⟨pre, l, i, _, _, _, he'⟩
  · exact ⟨_, Or.inr (by rw [he, h0]; rfl)⟩
  · exact ⟨m, Or.inl (by rw [he', he, List.dropLast_concat])⟩
  · exact ⟨_, Or.inr he'⟩

/-! ## a step keeps the bucket sorted and below the next heartbeat -/

theorem specStep_sorted {pt : Int} {es es' : List (Ev D)} {hb : Ev D} (hs : Sorted es)
    (hid : IdsOk es) (hlt : ∀ e ∈ es, e.ts < hb.ts) (h : SpecStep pt es hb es') :
    Sorted es' ∧ ∀ e ∈ es', e.ts ≤ hb.ts := by
  rcases specStep_cases hs hid h with ⟨h0, i, he⟩ | ⟨pre, l, m, he, hm, he'⟩ | ⟨pre, l, i, he, _, _, he'⟩
  · subst he
    refine ⟨List.pairwise_singleton _ _, ?_⟩
    intro e he; rw [List.mem_singleton] at he; subst he; exact Int.le_refl _
  · subst he he'
    have hmt : m.ts = l.ts := (merge_eq pt l hb m hm).1
    unfold Sorted at hs ⊢
    rw [List.pairwise_append] at hs ⊢
    refine ⟨⟨hs.1, List.pairwise_singleton _ _, ?_⟩, ?_⟩
    · intro a ha c hc
      rw [List.mem_singleton] at hc; subst hc
      rw [hmt]; exact hs.2.2 a ha l (List.mem_singleton.mpr rfl)
    · intro e he
      rcases List.mem_append.mp he with he | he
      · exact Int.le_of_lt (hlt e (List.mem_append_left _ he))
      · rw [List.mem_singleton] at he; subst he
        rw [hmt]; exact Int.le_of_lt (hlt l (List.mem_append_right _ (List.mem_singleton.mpr rfl)))
  · subst he'
    unfold Sorted at hs ⊢
    rw [List.pairwise_append]
    refine ⟨⟨hs, List.pairwise_singleton _ _, ?_⟩, ?_⟩
    · intro a ha c hc
      rw [List.mem_singleton] at hc; subst hc
      exact hlt a ha
    · intro e he
      rcases List.mem_append.mp he with he | he
      · exact Int.le_of_lt (hlt e he)
      · rw [List.mem_singleton] at he; subst he; exact Int.le_refl _

/-! ## a step is a step of `reduceAux` (ids aside) -/

theorem merge_noId_congr {pt : Int} {l l' hb : Ev D} (h : noId l' = noId l) :
    (merge pt l' hb).map noId = (merge pt l hb).map noId := by
  have h1 : l'.ts = l.ts := (congrArg Ev.ts h : (noId l').ts = (noId l).ts)
  have h2 : l'.dur = l.dur := (congrArg Ev.dur h : (noId l').dur = (noId l).dur)
  have h3 : l'.data = l.data := (congrArg Ev.data h : (noId l').data = (noId l).data)
  unfold merge
  rw [h1, h2, h3]
  split
  · split
    · split
      · rfl
      · simp only [Option.map_some, noId]
    · rfl
  · rfl

/-- the simulation: the bucket (reversed, ids erased) is the accumulator of `reduceAux` -/
theorem specStep_sim {pt : Int} {es es' acc : List (Ev D)} {hb : Ev D} (hs : Sorted es)
    (hid : IdsOk es) (hacc : acc.map noId = es.reverse.map noId) (h : SpecStep pt es hb es') :
    ∃ acc', acc'.map noId = es'.reverse.map noId ∧
      ∀ rest, reduceAux pt acc (hb :: rest) = reduceAux pt acc' rest := by
  rcases specStep_cases hs hid h with ⟨h0, i, he⟩ | ⟨pre, l, m, he, hm, he'⟩ | ⟨pre, l, i, he, hm, _, he'⟩
  · subst h0 he
    have : acc = [] := by simpa using hacc
    subst this
    exact ⟨[hb], rfl, fun rest => rfl⟩
  · subst he he'
    rw [List.reverse_append, List.reverse_singleton, List.singleton_append, List.map_cons] at hacc
    cases acc with
    | nil => cases hacc
    | cons l' acc' =>
      rw [List.map_cons, List.cons.injEq] at hacc
      have hc := merge_noId_congr (pt := pt) (hb := hb) hacc.1
      rw [hm] at hc
      cases hm' : merge pt l' hb with
      | none => rw [hm'] at hc; cases hc
      | some m' =>
        rw [hm'] at hc
        simp only [Option.map_some, Option.some.injEq] at hc
        refine ⟨m' :: acc', ?_, fun rest => ?_⟩
        · rw [List.reverse_append, List.reverse_singleton, List.singleton_append, List.map_cons,
            List.map_cons, hc, hacc.2]
        · simp only [reduceAux, hm']
  · subst he he'
    rw [List.reverse_append, List.reverse_singleton, List.singleton_append, List.map_cons] at hacc
    cases acc with
    | nil => cases hacc
    | cons l' acc' =>
      have hacc' := hacc
      rw [List.map_cons, List.cons.injEq] at hacc
      have hc := merge_noId_congr (pt := pt) (hb := hb) hacc.1
      rw [hm] at hc
      cases hm' : merge pt l' hb with
      | some m' => rw [hm'] at hc; cases hc
      | none =>
        refine ⟨hb :: l' :: acc', ?_, fun rest => ?_⟩
        · rw [List.reverse_append, List.reverse_singleton, List.singleton_append, List.map_cons,
            hacc', List.reverse_append]
          rfl
        · simp only [reduceAux, hm']

/-! ## the loop over an abstract backend -/

/-- The loop theorem for a backend given by `view`, `Inv` and its loop body `step`, under the
    per-step refinement `hstep`. (Until the repair F22 the theorem carried a property `Q` of
    events, needed of every stored event and every heartbeat and kept by merging — Sqlite: "ends at
    or after the epoch"; no backend needs one any more.) -/
theorem foldE_loop {σ : Type} (view : σ → View D) (Inv : σ → Prop)
    (step : σ → Ev D → Except Err σ) (pt : Int) (b : String)
    (hids : ∀ s m es, Inv s → view s b = some (m, es) → IdsOk es)
    (hstep : ∀ s hb m es, Inv s → view s b = some (m, es) →
      ∃ s', step s hb = .ok s' ∧ Inv s' ∧ (∃ es', view s' b = some (m, es') ∧ SpecStep pt es hb es') ∧
        ∀ b', b' ≠ b → view s' b' = view s b') :
    ∀ (stream : List (Ev D)) (s : σ) (m : Meta) (es acc : List (Ev D)), Inv s →
      view s b = some (m, es) → Sorted es →
      acc.map noId = es.reverse.map noId → (∀ e ∈ es, ∀ x ∈ stream, e.ts < x.ts) →
      stream.Pairwise (fun a c => a.ts < c.ts) →
      ∃ s', foldE step s stream = .ok s' ∧ Inv s' ∧
        (∃ es', view s' b = some (m, es') ∧ Sorted es' ∧
          es'.map noId = (reduceAux pt acc stream).map noId) ∧
        ∀ b', b' ≠ b → view s' b' = view s b'
  | [], s, m, es, acc, hI, hv, hs, hacc, _, _ => by
    refine ⟨s, rfl, hI, ⟨es, hv, hs, ?_⟩, fun _ _ => rfl⟩
    simp only [reduceAux]
    rw [List.map_reverse, hacc, List.map_reverse, List.reverse_reverse]
  | hb :: rest, s, m, es, acc, hI, hv, hs, hacc, hlt, hp => by
    have hp' := List.pairwise_cons.mp hp
    obtain ⟨s1, hs1, hI1, ⟨es1, hv1, hst⟩, hfr1⟩ := hstep s hb m es hI hv
    have hid := hids s m es hI hv
    have hsort := specStep_sorted hs hid (fun e he => hlt e he hb List.mem_cons_self) hst
    obtain ⟨acc1, hacc1, hred⟩ := specStep_sim hs hid hacc hst
    have hlt1 : ∀ e ∈ es1, ∀ x ∈ rest, e.ts < x.ts := by
      intro e he x hx
      have h1 := hsort.2 e he
      have h2 := hp'.1 x hx
      omega
    obtain ⟨s2, hs2, hI2, ⟨es2, hv2, hsort2, hres⟩, hfr2⟩ :=
      foldE_loop view Inv step pt b hids hstep rest s1 m es1 acc1 hI1 hv1 hsort.1 hacc1 hlt1 hp'.2
    refine ⟨s2, ?_, hI2, ⟨es2, hv2, hsort2, ?_⟩, ?_⟩
    · simp only [foldE, hs1]; exact hs2
    · rw [hres, hred]
    · intro b' hb'; rw [hfr2 b' hb', hfr1 b' hb']

/-- `foldE` over a concatenation -/
theorem foldE_append {σ α ε : Type} (f : σ → α → Except ε σ) (s s1 : σ) (l1 l2 : List α)
    (h : foldE f s l1 = .ok s1) : foldE f s (l1 ++ l2) = foldE f s1 l2 := by
  induction l1 generalizing s with
  | nil => simp only [foldE, Except.ok.injEq] at h; subst h; rfl
  | cons a t ih =>
    simp only [List.cons_append, foldE] at h ⊢
    cases hf : f s a with
    | error e => rw [hf] at h; cases h
    | ok s' => rw [hf] at h; simp only; exact ih s' h


/-! ## shape of one step / of every step of a run, for an abstract backend -/

/-- one turn of the loop body on a sorted bucket: all events but the last are unchanged -/
theorem step_shape {σ : Type} (view : σ → View D) (Inv : σ → Prop)
    (step : σ → Ev D → Except Err σ) (pt : Int) (b : String)
    (hids : ∀ s m es, Inv s → view s b = some (m, es) → IdsOk es)
    (hstep : ∀ s hb m es, Inv s → view s b = some (m, es) →
      ∃ s', step s hb = .ok s' ∧ Inv s' ∧ (∃ es', view s' b = some (m, es') ∧ SpecStep pt es hb es') ∧
        ∀ b', b' ≠ b → view s' b' = view s b')
    (s : σ) (hb : Ev D) (m : Meta) (es : List (Ev D)) (hI : Inv s) (hv : view s b = some (m, es))
    (hs : Sorted es) :
    ∃ s' x, step s hb = .ok s' ∧ Inv s' ∧
      (view s' b = some (m, es.dropLast ++ [x]) ∨ view s' b = some (m, es ++ [x])) ∧
      ∀ b', b' ≠ b → view s' b' = view s b' := by
  obtain ⟨s', h1, hI', ⟨es', hv', hst⟩, hfr⟩ := hstep s hb m es hI hv
  obtain ⟨x, hx⟩ := specStep_shape hs (hids s m es hI hv) hst
  refine ⟨s', x, h1, hI', ?_, hfr⟩
  rcases hx with hx | hx
  · exact Or.inl (by rw [hv', hx])
  · exact Or.inr (by rw [hv', hx])

/-- every turn of a run from the empty bucket: after the heartbeats `pre` the bucket holds `es1`;
    the next heartbeat `hb` leaves `es1.dropLast ++ [x]` or `es1 ++ [x]` -/
theorem foldE_prefix {σ : Type} (view : σ → View D) (Inv : σ → Prop)
    (step : σ → Ev D → Except Err σ) (pt : Int) (b : String)
    (hids : ∀ s m es, Inv s → view s b = some (m, es) → IdsOk es)
    (hstep : ∀ s hb m es, Inv s → view s b = some (m, es) →
      ∃ s', step s hb = .ok s' ∧ Inv s' ∧ (∃ es', view s' b = some (m, es') ∧ SpecStep pt es hb es') ∧
        ∀ b', b' ≠ b → view s' b' = view s b')
    (s : σ) (m : Meta) (pre : List (Ev D)) (hb : Ev D) (hI : Inv s) (hv : view s b = some (m, []))
    (hp : (pre ++ [hb]).Pairwise (fun a c => a.ts < c.ts)) :
    ∃ s1 s2 es1 x, foldE step s pre = .ok s1 ∧ view s1 b = some (m, es1) ∧
      step s1 hb = .ok s2 ∧ foldE step s (pre ++ [hb]) = .ok s2 ∧
      (view s2 b = some (m, es1.dropLast ++ [x]) ∨ view s2 b = some (m, es1 ++ [x])) ∧
      ∀ b', b' ≠ b → view s2 b' = view s b' := by
  rw [List.pairwise_append] at hp
  obtain ⟨s1, hf1, hI1, ⟨es1, hv1, hs1, _⟩, hfr1⟩ :=
    foldE_loop view Inv step pt b hids hstep pre s m [] [] hI hv sorted_nil rfl
      (fun e he => by cases he) hp.1
  obtain ⟨s2, x, hst, _, hsh, hfr2⟩ :=
    step_shape view Inv step pt b hids hstep s1 hb m es1 hI1 hv1 hs1
  refine ⟨s1, s2, es1, x, hf1, hv1, hst, ?_, hsh, ?_⟩
  · rw [foldE_append _ _ _ _ _ hf1]
    simp only [foldE, hst]
  · intro b' hb'; rw [hfr2 b' hb', hfr1 b' hb']

/-! ## the loop on the list model itself -/

/-- a run of the loop on the list model: one `SpecStep` per heartbeat -/
inductive SpecLoop (pt : Int) : List (Ev D) → List (Ev D) → List (Ev D) → Prop
  | nil (es : List (Ev D)) : SpecLoop pt es [] es
  | cons {es es1 es2 : List (Ev D)} {hb : Ev D} {rest : List (Ev D)} :
      SpecStep pt es hb es1 → SpecLoop pt es1 rest es2 → SpecLoop pt es (hb :: rest) es2

/-- a step keeps "ids present and pairwise distinct" -/
theorem specStep_idsOk {pt : Int} {es es' : List (Ev D)} {hb : Ev D} (hs : Sorted es)
    (hid : IdsOk es) (h : SpecStep pt es hb es') : IdsOk es' := by
  rcases specStep_cases hs hid h with ⟨_, i, he⟩ | ⟨pre, l, m, he, hm, he'⟩ | ⟨pre, l, i, _, _, hi, he'⟩
  · subst he
    refine ⟨by simp, ?_⟩
    intro x hx; rw [List.mem_singleton] at hx; subst hx; rfl
  · subst he he'
    have hmi : m.id = l.id := (merge_eq pt l hb m hm).2.2.1
    have hf : (pre ++ [m]).filterMap (·.id) = (pre ++ [l]).filterMap (·.id) := by
      simp only [List.filterMap_append, List.filterMap_cons, List.filterMap_nil, hmi]
    refine ⟨by rw [hf]; exact hid.1, ?_⟩
    intro x hx
    rcases List.mem_append.mp hx with hx | hx
    · exact hid.2 x (List.mem_append_left _ hx)
    · rw [List.mem_singleton] at hx; subst hx
      rw [hmi]; exact hid.2 l (List.mem_append_right _ (List.mem_singleton.mpr rfl))
  · subst he'
    constructor
    · rw [List.filterMap_append, List.nodup_append]
      refine ⟨hid.1, by simp, ?_⟩
      intro a ha c hc
      simp only [List.filterMap_cons, List.filterMap_nil, List.mem_singleton] at hc
      subst hc
      intro hac; subst hac; exact hi ha
    · intro x hx
      rcases List.mem_append.mp hx with hx | hx
      · exact hid.2 x hx
      · rw [List.mem_singleton] at hx; subst hx; rfl

theorem specLoop_reduceAux (pt : Int) : ∀ (stream es acc es' : List (Ev D)), Sorted es → IdsOk es →
    acc.map noId = es.reverse.map noId → (∀ e ∈ es, ∀ x ∈ stream, e.ts < x.ts) →
    stream.Pairwise (fun a c => a.ts < c.ts) → SpecLoop pt es stream es' →
    Sorted es' ∧ IdsOk es' ∧ es'.map noId = (reduceAux pt acc stream).map noId
  | [], es, acc, es', hs, hid, hacc, _, _, hl => by
    cases hl
    refine ⟨hs, hid, ?_⟩
    simp only [reduceAux]
    rw [List.map_reverse, hacc, List.map_reverse, List.reverse_reverse]
  | hb :: rest, es, acc, es', hs, hid, hacc, hlt, hp, hl => by
    have hp' := List.pairwise_cons.mp hp
    cases hl with
    | cons hst hl' =>
      rename_i es1
      have hsort := specStep_sorted hs hid (fun e he => hlt e he hb List.mem_cons_self) hst
      obtain ⟨acc1, hacc1, hred⟩ := specStep_sim hs hid hacc hst
      have hlt1 : ∀ e ∈ es1, ∀ x ∈ rest, e.ts < x.ts := by
        intro e he x hx
        have h1 := hsort.2 e he
        have h2 := hp'.1 x hx
        omega
      have := specLoop_reduceAux pt rest es1 acc1 es' hsort.1 (specStep_idsOk hs hid hst) hacc1 hlt1
        hp'.2 hl'
      rw [hred]
      exact this

end Aw.Store.HbLoop
