import AwModel.Group
namespace AwProofs.C16
theorem stub : True := trivial
end AwProofs.C16
