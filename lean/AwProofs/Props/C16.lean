import AwProofs.Lemmas.Group
import AwProofs.Lemmas.PySortB
/-!
# C16 — Grouping, chunking, sorting and filtering conserve events and time

Property theorems only, over the model `AwModel/Group.lean` of `merge_events_by_keys` (after the
F13 repair: the composite key holds `(key, value)` pairs), `chunk_events_by_key`,
`sort_by_timestamp`, `sort_by_duration`, `limit_events`, `filter_keyvals` (both polarities).

All statements are for arbitrary event lists (any order, duplicates, missing keys, list values,
equal values under different keys, negative durations), arbitrary key lists (repeated keys, keys no
event has), arbitrary value lists, every integer pulsetime (µs) and every integer count.

`pattern keys d` is the presence/value combination of the keys in a data dict: `d.get(k)` for every
`k` of `keys`. `durSum` is the sum of the durations.
-/
namespace AwProofs.C16
open Aw Aw.Group AwProofs.Group AwProofs.PySort

/-! ## merge_events_by_keys -/

private theorem merge_unpack (l : List Event) (keys : List String) (out : List Event)
    (hk : keys ≠ []) (h : mergeEventsByKeys l keys = .ok out) :
    ∃ t, mergeLoop keys [] l = .ok t ∧ out = t.map (·.2) := by
  unfold mergeEventsByKeys at h
  have : ¬ keys.length < 1 := by
    cases keys with
    | nil => exact absurd rfl hk
    | cons a r => simp
  simp only [this, if_false] at h
  cases hm : mergeLoop keys [] l with
  | error e => rw [hm] at h; cases h
  | ok t =>
    rw [hm] at h
    simp only [Except.map, Except.ok.injEq] at h
    exact ⟨t, rfl, h.symm⟩

/-- every table entry is the fresh event of the first input event with that composite key, with the
    durations of all input events with that key summed -/
private theorem entry_char (l : List Event) (keys : List String) (t : Table)
    (h : mergeLoop keys [] l = .ok t) (c : List (String × JVal)) (o : Event) (hm : (c, o) ∈ t) :
    ∃ e, l.find? (fun e => compositeKey keys e.data = c) = some e ∧
      o = { fresh keys e with dur := durSum (l.filter (fun e => compositeKey keys e.data = c)) } := by
  have hn := nodup_mergeLoop keys l [] t h (by simp [tkeys])
  have hg := getT_of_mem t hn c o hm
  rw [getT_mergeLoop keys l [] t h c] at hg
  simp only [getT] at hg
  cases hf : l.find? (fun e => compositeKey keys e.data = c) with
  | none => rw [hf] at hg; cases hg
  | some e =>
    rw [hf] at hg
    simp only [Option.some.injEq] at hg
    exact ⟨e, rfl, hg.symm⟩

private theorem entry_key (l : List Event) (keys : List String) (t : Table)
    (h : mergeLoop keys [] l = .ok t) (c : List (String × JVal)) (o : Event) (hm : (c, o) ∈ t) :
    compositeKey keys o.data = c := by
  obtain ⟨e, hf, ho⟩ := entry_char l keys t h c o hm
  have he := List.find?_some hf
  simp only [decide_eq_true_eq] at he
  rw [← he, compositeKey_eq_iff, ho]
  exact pattern_pickData keys e.data

private theorem entry_exists (l : List Event) (keys : List String) (t : Table)
    (h : mergeLoop keys [] l = .ok t) (e : Event) (he : e ∈ l) :
    ∃ o, (compositeKey keys e.data, o) ∈ t := by
  have hg := getT_mergeLoop keys l [] t h (compositeKey keys e.data)
  simp only [getT] at hg
  cases hf : l.find? (fun x => compositeKey keys x.data = compositeKey keys e.data) with
  | none =>
    have := List.find?_eq_none.1 hf e he
    simp at this
  | some x =>
    rw [hf] at hg
    exact ⟨_, mem_of_getT t _ _ hg⟩

private theorem find?_congr' {α : Type} (p q : α → Bool) (l : List α) (h : ∀ x ∈ l, p x = q x) :
    l.find? p = l.find? q := by
  induction l with
  | nil => rfl
  | cons a r ih =>
    simp only [List.find?_cons, h a List.mem_cons_self]
    rw [ih (fun x hx => h x (List.mem_cons_of_mem _ hx))]

/-- with an empty key list the function returns its input (the source's early return) -/
theorem merge_no_keys (l : List Event) : mergeEventsByKeys l [] = .ok l := by
  simp [mergeEventsByKeys]

/-- PARTIAL with respect to "all key lists": the hypothesis `keys ≠ []` excludes the empty key list,
    for which the source returns its input unchanged (`merge_no_keys`, a deliberate early return;
    with two or more events that is not "one event per combination"). For a non-empty key list:
    the outputs have pairwise different presence/value patterns of the keys, a pattern occurs among the outputs iff some input event has it (one output per distinct
    pattern), and output data holds only requested keys -/
theorem merge_groups_partial (l : List Event) (keys : List String) (out : List Event)
    (hk : keys ≠ []) (h : mergeEventsByKeys l keys = .ok out) :
    (out.map (fun o => pattern keys o.data)).Nodup ∧
    (∀ p, p ∈ out.map (fun o => pattern keys o.data) ↔ p ∈ l.map (fun e => pattern keys e.data)) ∧
    (∀ o ∈ out, ∀ k v, lookup k o.data = some v → k ∈ keys) := by
  obtain ⟨t, ht, rfl⟩ := merge_unpack l keys out hk h
  have hn := nodup_mergeLoop keys l [] t ht (by simp [tkeys])
  refine ⟨?_, ?_, ?_⟩
  · -- the composite keys of the outputs are the table keys, which are distinct
    have e1 : t.map (fun cm => compositeKey keys cm.2.data) = tkeys t := by
      unfold tkeys
      apply List.map_congr_left
      rintro ⟨c, o⟩ hm
      exact entry_key l keys t ht c o hm
    rw [← e1] at hn
    rw [List.map_map]
    unfold List.Nodup at hn ⊢
    rw [List.pairwise_map] at hn ⊢
    refine hn.imp ?_
    intro a b hab hp
    exact hab ((compositeKey_eq_iff keys _ _).2 hp)
  · intro p
    simp only [List.mem_map, List.map_map]
    constructor
    · rintro ⟨⟨c, o⟩, hm, rfl⟩
      obtain ⟨e, hf, ho⟩ := entry_char l keys t ht c o hm
      refine ⟨e, List.mem_of_find?_eq_some hf, ?_⟩
      simp only [Function.comp, ho]
      exact (pattern_pickData keys e.data).symm
    · rintro ⟨e, he, rfl⟩
      obtain ⟨o, hm⟩ := entry_exists l keys t ht e he
      refine ⟨(_, o), hm, ?_⟩
      have := entry_key l keys t ht _ o hm
      exact (compositeKey_eq_iff keys _ _).1 this
  · intro o ho k v hv
    obtain ⟨⟨c, o'⟩, hm, rfl⟩ := List.mem_map.1 ho
    obtain ⟨e, _, ho'⟩ := entry_char l keys t ht c o' hm
    rw [ho'] at hv
    exact (mem_pickData e.data keys k v hv).1

/-- each output's duration is exactly the sum over the input events with its pattern; it has no id
    and carries the timestamp of the first such input event -/
theorem merge_group_duration (l : List Event) (keys : List String) (out : List Event)
    (hk : keys ≠ []) (h : mergeEventsByKeys l keys = .ok out) (o : Event) (ho : o ∈ out) :
    o.dur = durSum (l.filter (fun e => pattern keys e.data = pattern keys o.data)) ∧
    o.id = none ∧
    ∃ e, l.find? (fun e => pattern keys e.data = pattern keys o.data) = some e ∧ o.ts = e.ts := by
  obtain ⟨t, ht, rfl⟩ := merge_unpack l keys out hk h
  obtain ⟨⟨c, o'⟩, hm, rfl⟩ := List.mem_map.1 ho
  have hkey := entry_key l keys t ht c o' hm
  obtain ⟨e, hf, ho'⟩ := entry_char l keys t ht c o' hm
  have hpq : ∀ x ∈ l, decide (compositeKey keys x.data = c) =
      decide (pattern keys x.data = pattern keys o'.data) := by
    intro x _
    rw [← hkey]
    exact decide_eq_decide.2 (compositeKey_eq_iff keys _ _)
  refine ⟨?_, ?_, e, ?_, ?_⟩
  · rw [← List.filter_congr hpq]; rw [ho']
  · rw [ho']; rfl
  · rw [← find?_congr' _ _ l hpq]; exact hf
  · rw [ho']; rfl

/-- total duration is conserved (any key list, also the empty one) -/
theorem merge_total_duration (l : List Event) (keys : List String) (out : List Event)
    (h : mergeEventsByKeys l keys = .ok out) : durSum out = durSum l := by
  by_cases hk : keys = []
  · subst hk; rw [merge_no_keys] at h; cases h; rfl
  · obtain ⟨t, ht, rfl⟩ := merge_unpack l keys out hk h
    have := durSum_mergeLoop keys l [] t ht
    simpa [durSum] using this

/-- the call succeeds iff every value found under one of the keys is hashable (otherwise Python
    raises TypeError when the composite key is looked up); `PyErr` has no other constructor -/
theorem merge_ok_iff (l : List Event) (keys : List String) :
    (∃ out, mergeEventsByKeys l keys = .ok out) ↔
      (keys = [] ∨ ∀ e ∈ l, ∀ k ∈ keys, ∀ v, lookup k e.data = some v → v.hashable = true) := by
  by_cases hk : keys = []
  · subst hk; simp [merge_no_keys]
  · simp only [hk, false_or]
    have h1 := mergeLoop_ok_iff keys l []
    simp only [compositeKey_all_hashable] at h1
    rw [← h1]
    constructor
    · rintro ⟨out, h⟩
      obtain ⟨t, ht, _⟩ := merge_unpack l keys out hk h
      exact ⟨t, ht⟩
    · rintro ⟨t, ht⟩
      refine ⟨t.map (·.2), ?_⟩
      unfold mergeEventsByKeys
      have : ¬ keys.length < 1 := by
        cases keys with
        | nil => exact absurd rfl hk
        | cons a r => simp
      simp [this, ht, Except.map]

/-! ## chunk_events_by_key -/

/-- the sub-events of the chunks, concatenated, are the input up to the first event without the
    key (the loop's `break`) -/
theorem chunk_concat_prefix (l : List Event) (key : String) (pt : Int) :
    (chunkEventsByKey l key pt).flatMap (·.subs) = l.takeWhile (HasKey key) := by
  unfold chunkEventsByKey
  cases hl : l.getLast? with
  | none =>
    have : l = [] := by simpa using hl
    subst this; simp
  | some last => simpa using chunkLoop_flat key pt (last.ts + last.dur) [] l

/-- for a key-bearing sequence the sub-events of the chunks concatenate back to the input -/
theorem chunk_concat (l : List Event) (key : String) (pt : Int)
    (h : ∀ e ∈ l, (lookup key e.data).isSome) :
    (chunkEventsByKey l key pt).flatMap (·.subs) = l := by
  rw [chunk_concat_prefix]
  exact takeWhile_all _ l (fun e he => h e he)

private theorem chunk_good (l : List Event) (key : String) (pt : Int) :
    ∀ c ∈ chunkEventsByKey l key pt, GoodChunk key c := by
  unfold chunkEventsByKey
  cases hl : l.getLast? with
  | none => simp
  | some last => exact chunkLoop_good key pt _ [] l (by simp)

/-- every chunk is a non-empty run whose events all carry the chunk's value under the key -/
theorem chunk_uniform (l : List Event) (key : String) (pt : Int) :
    ∀ c ∈ chunkEventsByKey l key pt,
      c.subs ≠ [] ∧ ∀ e ∈ c.subs, lookup key e.data = some c.val := by
  intro c hc
  obtain ⟨⟨e, r, hs, _⟩, _, hv⟩ := chunk_good l key pt c hc
  exact ⟨by rw [hs]; simp, hv⟩

/-- a chunk lasts exactly the sum of its sub-events and starts with its first sub-event; the
    chunk durations add up to the durations of the chunked prefix (of the whole input when it is
    key-bearing) -/
theorem chunk_duration (l : List Event) (key : String) (pt : Int) :
    (∀ c ∈ chunkEventsByKey l key pt,
      c.dur = durSum c.subs ∧ ∃ e r, c.subs = e :: r ∧ c.ts = e.ts) ∧
    ((chunkEventsByKey l key pt).map (·.dur)).sum = durSum (l.takeWhile (HasKey key)) ∧
    ((∀ e ∈ l, (lookup key e.data).isSome) →
      ((chunkEventsByKey l key pt).map (·.dur)).sum = durSum l) := by
  have hg := chunk_good l key pt
  have hsum := durSum_flatMap_good key _ hg
  rw [chunk_concat_prefix] at hsum
  refine ⟨fun c hc => ⟨(hg c hc).2.1, (hg c hc).1⟩, hsum.symm, ?_⟩
  intro h
  rw [← hsum, takeWhile_all (HasKey key) l (fun e he => h e he)]

/-! ## sort_by_timestamp, sort_by_duration -/

/-- both sorts return a permutation of the input in key order (timestamp ascending, duration
    descending) and are stable: events with equal keys keep their input order -/
theorem sort_perm_sorted (l : List Event) :
    ((sortByTimestamp l).Perm l ∧
      (sortByTimestamp l).Pairwise (fun a b => a.ts ≤ b.ts) ∧
      ∀ t, (sortByTimestamp l).filter (fun e => e.ts = t) = l.filter (fun e => e.ts = t)) ∧
    ((sortByDuration l).Perm l ∧
      (sortByDuration l).Pairwise (fun a b => b.dur ≤ a.dur) ∧
      ∀ d, (sortByDuration l).filter (fun e => e.dur = d) = l.filter (fun e => e.dur = d)) :=
  ⟨⟨sortBy_perm _ l, sortBy_sorted (fun e : Event => e.ts) l,
      fun t => sortBy_stable (fun e : Event => e.ts) t l⟩,
   ⟨sortByDesc_perm _ l, sortByDesc_sorted (fun e : Event => e.dur) l,
      fun d => sortByDesc_stable (fun e : Event => e.dur) d l⟩⟩

/-! ## limit_events -/

/-- `events[:count]` is a prefix of the input for every integer count: the first `count` events
    (all, if there are fewer) for `count ≥ 0`, all but the last `-count` for `count < 0` -/
theorem limit_prefix (l : List Event) (count : Int) :
    limitEvents l count <+: l ∧
    (limitEvents l count).length =
      if 0 ≤ count then min count.toNat l.length else l.length - (-count).toNat := by
  unfold limitEvents
  split
  · exact ⟨List.take_prefix _ _, by simp⟩
  · refine ⟨List.take_prefix _ _, ?_⟩
    simp only [List.length_take]
    omega

/-! ## filter_keyvals / exclude_keyvals -/

/-- the two polarities of `filter_keyvals` split the input into complementary sub-sequences:
    both are sub-lists (order kept), they are the events that do / do not carry one of the values
    under the key, their lengths add up, together they are a permutation of the input, and every
    input event is in exactly one of them -/
theorem filter_partition (l : List Event) (key : String) (vals : List JVal) :
    (filterKeyvals l key vals false).Sublist l ∧
    (filterKeyvals l key vals true).Sublist l ∧
    (filterKeyvals l key vals false).length + (filterKeyvals l key vals true).length = l.length ∧
    (filterKeyvals l key vals false ++ filterKeyvals l key vals true).Perm l ∧
    (∀ e, e ∈ filterKeyvals l key vals false ↔
      e ∈ l ∧ ∃ v, lookup key e.data = some v ∧ v ∈ vals) ∧
    (∀ e, e ∈ filterKeyvals l key vals true ↔
      e ∈ l ∧ ¬ ∃ v, lookup key e.data = some v ∧ v ∈ vals) ∧
    (∀ e ∈ l, (e ∈ filterKeyvals l key vals false ∧ e ∉ filterKeyvals l key vals true) ∨
      (e ∉ filterKeyvals l key vals false ∧ e ∈ filterKeyvals l key vals true)) := by
  have hp : ∀ e : Event, predicate key vals e = true ↔
      ∃ v, lookup key e.data = some v ∧ v ∈ vals := by
    intro e
    unfold predicate
    cases lookup key e.data with
    | none => simp
    | some v => simp
  have hlen : ∀ (p : Event → Bool) (l : List Event),
      (l.filter p).length + (l.filter (fun e => !p e)).length = l.length := by
    intro p l
    induction l with
    | nil => rfl
    | cons a r ih =>
      simp only [List.filter_cons]
      cases p a <;> simp <;> omega
  simp only [filterKeyvals, if_true, Bool.false_eq_true, if_false]
  refine ⟨List.filter_sublist, List.filter_sublist, hlen _ l, List.filter_append_perm _ l, ?_, ?_, ?_⟩
  · intro e; rw [List.mem_filter, hp]
  · intro e; rw [List.mem_filter, ← hp]; simp
  · intro e he
    simp only [List.mem_filter, he, true_and]
    cases predicate key vals e <;> simp

/-! ## the statements are not vacuous -/

private def ev (ts dur : Int) (d : Data) : Event := { id := some 1, ts := ts, dur := dur, data := d }

/-- equal values under different keys stay apart; groups keep first-occurrence order -/
example :
    (mergeEventsByKeys
      [ev 0 1 [("k2", .str "x")], ev 1 2 [("k1", .str "x")], ev 2 4 [("k2", .str "x"), ("z", .str "q")],
       ev 3 8 [("k1", .list ["x"])]] ["k1", "k2"]).toOption
    = some [{ ts := 0, dur := 5, data := [("k2", .str "x")] }, { ts := 1, dur := 2, data := [("k1", .str "x")] },
           { ts := 3, dur := 8, data := [("k1", .list ["x"])] }] := by decide

/-- a dict value under a key is unhashable -/
example : (mergeEventsByKeys [ev 0 1 [("k1", .other "{\"a\":1}")]] ["k1"]).toOption = none := by
  decide

/-- chunking uses the gap to the LAST input event (here 10+0 → gap of the second event is −9) and
    stops at the first event without the key -/
example :
    (chunkEventsByKey
      [ev 0 1 [("k", .str "a")], ev 1 2 [("k", .str "a")], ev 2 4 [("k", .str "b")], ev 3 8 [],
       ev 10 0 [("k", .str "b")]] "k" 5).map (fun c => (c.ts, c.dur, c.val, c.subs.length))
    = [(0, 3, .str "a", 2), (2, 4, .str "b", 1)] := by decide

example : (sortByDuration [ev 0 1 [], ev 1 3 [], ev 2 1 [], ev 3 2 []]).map (·.ts) = [1, 3, 0, 2] := by
  decide

example : (limitEvents [ev 0 1 [], ev 1 3 [], ev 2 1 []] (-1)).map (·.ts) = [0, 1] := by decide

example :
    ((filterKeyvals [ev 0 1 [("k", .str "a")], ev 1 1 [], ev 2 1 [("k", .list ["a"])]] "k" [.str "a"] false).map (·.ts),
     (filterKeyvals [ev 0 1 [("k", .str "a")], ev 1 1 [], ev 2 1 [("k", .list ["a"])]] "k" [.str "a"] true).map (·.ts))
    = ([0], [1, 2]) := by decide

end AwProofs.C16
