import AwModel.Store.Sqlite
/-! # C02 — placeholder while the refinement theorems are being written (no claims yet) -/
namespace AwProofs.C02
end AwProofs.C02
