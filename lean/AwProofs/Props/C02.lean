import AwProofs.Lemmas.StoreOpsSqlite
import AwProofs.Lemmas.StoreOpsMemory
import AwProofs.Lemmas.StoreOpsPeewee
import AwProofs.Lemmas.StoreOpsSpec
/-!
# C02 — Every backend behaves like one simple per-bucket event list under any history

Property theorems only. Definitions (in `AwProofs/Lemmas/StoreOps.lean`):

* `Op D` — the write API as data; `B.step s op` backend `B`'s state after `op`; `B.run` its fold;
  `B.view s : View D` what a client reads back: bucket id ↦ (metadata, events in storage order, each
  with `id := some i`).
* `SpecStep k v v' op` — one step of the reference model, a plain list per bucket
  (`AwModel/Store/Spec.lean`): insert appends with *some* id not live in the bucket, replace maps
  over the list, delete filters it, replace-last rewrites the id of *some* newest event, insert-many
  upserts then appends. `k : Kind` only fixes the backend's metadata conventions.
* `Pre k v op` — the property's quantifier: the bucket exists; ids passed to replace / upsert are
  live in that bucket; inserted events carry no id; replace-last only on a non-empty bucket (and,
  for Peewee, whose SQL leaves ties among equal timestamps open, a hint — if given — names a newest
  event: what the limit-1 read returned). Delete takes any id, live or not.
* `SpecRun k v ops v'` — a reference history with `Pre` before every step;
  `Admissible view step k s ops` — `Pre` holds on the backend's own view before every step.

All theorems hold for every payload type `D`, every instant and duration (equal end instants,
zero-length and negative-length events included), any number of buckets. Reads and counts are
functions of the view (C03); lookup by id is `lookup_by_id_*`.
-/
namespace AwProofs.C02
open Aw Aw.Store
variable {D : Type}

/-! ## Sqlite -/

/-- one operation: the view after the step is a reference step of the view before -/
theorem refines_sqlite {s : Sqlite.St D} (hI : Sqlite.Inv s) (op : Op D)
    (hp : Pre .sqlite (Sqlite.view s) op) :
    SpecStep .sqlite (Sqlite.view s) (Sqlite.view (Sqlite.step s op)) op := Sqlite.refines hI op hp

/-- any history: the final view is the outcome of a reference history from the initial view -/
theorem history_refines_sqlite {s : Sqlite.St D} (hI : Sqlite.Inv s) (ops : List (Op D))
    (ha : Admissible Sqlite.view Sqlite.step .sqlite s ops) :
    SpecRun .sqlite (Sqlite.view s) ops (Sqlite.view (Sqlite.run s ops)) :=
  refines_foldl Sqlite.view Sqlite.step Sqlite.Inv .sqlite (fun _ op h => Sqlite.inv_step h op)
    (fun _ op h hp => Sqlite.refines h op hp) ops s hI ha

/-- live ids of a bucket are pairwise distinct and every stored event has one -/
theorem ids_unique_sqlite {s : Sqlite.St D} (hI : Sqlite.Inv s) {b : String} {m : Meta}
    {es : List (Ev D)} (hv : Sqlite.view s b = some (m, es)) :
    (es.filterMap (·.id)).Nodup ∧ ∀ x ∈ es, x.id.isSome := Sqlite.ids_nodup hI hv

/-- lookup by id is `find` in the bucket's list -/
theorem lookup_by_id_sqlite {s : Sqlite.St D} (hI : Sqlite.Inv s) {b : String} {m : Meta}
    {es : List (Ev D)} (hv : Sqlite.view s b = some (m, es)) (i : Int) :
    Sqlite.getEvent s b i = es.find? (fun x => x.id = some i) := Sqlite.getEvent_eq hI hv i

/-- the id handed out by an insert is not live in ANY bucket (and the view is the list append) -/
theorem no_live_id_reuse_sqlite {s s' : Sqlite.St D} (hI : Sqlite.Inv s) {b : String} {e : Ev D}
    {i : Int} (h : Sqlite.insertOne s b e = .ok (s', i)) :
    (∀ b', i ∉ Spec.ids (Sqlite.view s) b') ∧ Sqlite.view s' = Spec.insert (Sqlite.view s) b i e :=
  ⟨(Sqlite.insertOne_view' hI h).2.2, (Sqlite.insertOne_view' hI h).2.1⟩

/-- replace-last on a non-empty bucket rewrites exactly one position of the list, the one holding a
    newest event `t`; it keeps `t`'s id; `t` is the event the limit-1 read returns (repaired, F22:
    wherever `t` ends — Sqlite's unbounded read has no lower bound; before the repair it added
    `endtime >= 0` and this conjunct carried the hypothesis `0 ≤ t.ts + t.dur`);
    no other event of the bucket and no other bucket changes -/
theorem replaceLast_hits_limit1_sqlite {s : Sqlite.St D} (hI : Sqlite.Inv s) {b : String}
    {m : Meta} {es : List (Ev D)} (hv : Sqlite.view s b = some (m, es)) (hne : es ≠ [])
    (hint : Option Int) (e : Ev D) :
    ∃ t i l1 l2, Spec.IsNewest es t ∧ t.id = some i ∧
      Sqlite.getEvents s b 1 none none = [t] ∧
      es = l1 ++ t :: l2 ∧ (∀ x ∈ l1 ++ l2, x.id ≠ some i) ∧
      Sqlite.view (Sqlite.step s (.replaceLast b hint e)) b =
        some (m, l1 ++ { e with id := some i } :: l2) ∧
      ∀ b', b' ≠ b → Sqlite.view (Sqlite.step s (.replaceLast b hint e)) b' = Sqlite.view s b' := by
  obtain ⟨t, ht, hread, hv'⟩ := Sqlite.replaceLast_view hI hv hne e
  obtain ⟨hn, hsome⟩ := Sqlite.ids_nodup hI hv
  obtain ⟨i, hi⟩ := Option.isSome_iff_exists.mp (hsome t ht.1)
  obtain ⟨l1, l2, h1, h2, h3⟩ := Spec.replaceId_exact hv hn ht.1 hi e
  refine ⟨t, i, l1, l2, ht, hi, hread, h1, h2, ?_,
    fun b' hb => Sqlite.only_step hI (.replaceLast b hint e) b' hb⟩
  show Sqlite.view (Sqlite.replaceLast s b e) b = _
  rw [hv', hi]; exact h3

/-- delete removes exactly the addressed event: a live id loses its one position, anything else
    (an id that never existed, was deleted, or lives in another bucket) changes nothing; other
    buckets are never touched -/
theorem delete_exact_sqlite {s : Sqlite.St D} (hI : Sqlite.Inv s) {b : String} {m : Meta}
    {es : List (Ev D)} (hv : Sqlite.view s b = some (m, es)) (i : Int) :
    (∀ t ∈ es, t.id = some i → ∃ l1 l2, es = l1 ++ t :: l2 ∧ (∀ x ∈ l1 ++ l2, x.id ≠ some i) ∧
      Sqlite.view (Sqlite.step s (.delete b i)) b = some (m, l1 ++ l2)) ∧
    ((∀ x ∈ es, x.id ≠ some i) → Sqlite.view (Sqlite.step s (.delete b i)) = Sqlite.view s) ∧
    ∀ b', b' ≠ b → Sqlite.view (Sqlite.step s (.delete b i)) b' = Sqlite.view s b' := by
  have hv' : Sqlite.view (Sqlite.step s (.delete b i)) = Spec.delete (Sqlite.view s) b i :=
    Sqlite.refines hI (.delete b i) (by show (Sqlite.view s b).isSome = true; rw [hv]; rfl)
  refine ⟨?_, ?_, fun b' hb => Sqlite.only_step hI (.delete b i) b' hb⟩
  · intro t ht hi
    rw [hv']
    exact Spec.delete_exact hv (Sqlite.ids_nodup hI hv).1 ht hi
  · intro h
    rw [hv']
    apply Spec.delete_notLive
    rw [Spec.mem_ids hv]
    rintro ⟨x, hx, hxi⟩
    exact h x hx hxi

/-! ## Memory -/

/-- one operation: the view after the step is a reference step of the view before -/
theorem refines_memory {s : Memory.St D} (hI : Memory.Inv s) (op : Op D)
    (hp : Pre .memory (Memory.view s) op) :
    SpecStep .memory (Memory.view s) (Memory.view (Memory.step s op)) op := Memory.refines hI op hp

/-- any history: the final view is the outcome of a reference history from the initial view -/
theorem history_refines_memory {s : Memory.St D} (hI : Memory.Inv s) (ops : List (Op D))
    (ha : Admissible Memory.view Memory.step .memory s ops) :
    SpecRun .memory (Memory.view s) ops (Memory.view (Memory.run s ops)) :=
  refines_foldl Memory.view Memory.step Memory.Inv .memory (fun _ op h => Memory.inv_step h op)
    (fun _ op h hp => Memory.refines h op hp) ops s hI ha

/-- live ids of a bucket are pairwise distinct and every stored event has one -/
theorem ids_unique_memory {s : Memory.St D} (hI : Memory.Inv s) {b : String} {m : Meta}
    {es : List (Ev D)} (hv : Memory.view s b = some (m, es)) :
    (es.filterMap (·.id)).Nodup ∧ ∀ x ∈ es, x.id.isSome := Memory.ids_nodup hI hv

/-- lookup by id is `find` in the bucket's list -/
theorem lookup_by_id_memory {s : Memory.St D} (hI : Memory.Inv s) {b : String} {m : Meta}
    {es : List (Ev D)} (hv : Memory.view s b = some (m, es)) (i : Int) :
    Memory.getEvent s b i = .ok (es.find? (fun x => x.id = some i)) := Memory.getEvent_eq hI hv i

/-- the id handed out by an insert is not live in the bucket (memory ids are per bucket) -/
theorem no_live_id_reuse_memory {s s' : Memory.St D} (hI : Memory.Inv s) {b : String} {e : Ev D}
    {oi : Option Int} (he : e.id = none) (h : Memory.insertOne s b e = .ok (s', oi)) :
    ∃ i, oi = some i ∧ i ∉ Spec.ids (Memory.view s) b ∧
      Memory.view s' = Spec.insert (Memory.view s) b i e := by
  obtain ⟨i, h1, _, h2, h3⟩ := Memory.insertOne_view' hI he h
  exact ⟨i, h1, h3, h2⟩

/-- replace-last on a non-empty bucket rewrites exactly one position of the list, the one holding a
    newest event `t`, which is the event the limit-1 read returns; it keeps `t`'s id; no other event of
    the bucket and no other bucket changes -/
theorem replaceLast_hits_limit1_memory {s : Memory.St D} (hI : Memory.Inv s) {b : String}
    {m : Meta} {es : List (Ev D)} (hv : Memory.view s b = some (m, es)) (hne : es ≠ [])
    (hint : Option Int) (e : Ev D) :
    ∃ t i l1 l2, Spec.IsNewest es t ∧ t.id = some i ∧
      Memory.getEvents s b 1 none none = .ok [t] ∧
      es = l1 ++ t :: l2 ∧ (∀ x ∈ l1 ++ l2, x.id ≠ some i) ∧
      Memory.view (Memory.step s (.replaceLast b hint e)) b =
        some (m, l1 ++ { e with id := some i } :: l2) ∧
      ∀ b', b' ≠ b → Memory.view (Memory.step s (.replaceLast b hint e)) b' = Memory.view s b' := by
  obtain ⟨t, s', ht, hread, hs', hv'⟩ := Memory.replaceLast_view hI hv hne e
  obtain ⟨hn, hsome⟩ := Memory.ids_nodup hI hv
  obtain ⟨i, hi⟩ := Option.isSome_iff_exists.mp (hsome t ht.1)
  obtain ⟨l1, l2, h1, h2, h3⟩ := Spec.replaceId_exact hv hn ht.1 hi e
  refine ⟨t, i, l1, l2, ht, hi, hread, h1, h2, ?_,
    fun b' hb => Memory.only_step hI (.replaceLast b hint e) b' hb⟩
  simp only [Memory.step, hs']
  rw [hv', hi]; exact h3

/-- delete removes exactly the addressed event: a live id loses its one position, anything else
    changes nothing; other buckets are never touched -/
theorem delete_exact_memory {s : Memory.St D} (hI : Memory.Inv s) {b : String} {m : Meta}
    {es : List (Ev D)} (hv : Memory.view s b = some (m, es)) (i : Int) :
    (∀ t ∈ es, t.id = some i → ∃ l1 l2, es = l1 ++ t :: l2 ∧ (∀ x ∈ l1 ++ l2, x.id ≠ some i) ∧
      Memory.view (Memory.step s (.delete b i)) b = some (m, l1 ++ l2)) ∧
    ((∀ x ∈ es, x.id ≠ some i) → Memory.view (Memory.step s (.delete b i)) = Memory.view s) ∧
    ∀ b', b' ≠ b → Memory.view (Memory.step s (.delete b i)) b' = Memory.view s b' := by
  have hv' : Memory.view (Memory.step s (.delete b i)) = Spec.delete (Memory.view s) b i :=
    Memory.refines hI (.delete b i) (by show (Memory.view s b).isSome = true; rw [hv]; rfl)
  refine ⟨?_, ?_, fun b' hb => Memory.only_step hI (.delete b i) b' hb⟩
  · intro t ht hi
    rw [hv']
    exact Spec.delete_exact hv (Memory.ids_nodup hI hv).1 ht hi
  · intro h
    rw [hv']
    apply Spec.delete_notLive
    rw [Spec.mem_ids hv]
    rintro ⟨x, hx, hxi⟩
    exact h x hx hxi

/-! ## Peewee -/

/-- one operation: the view after the step is a reference step of the view before -/
theorem refines_peewee {s : Peewee.St D} (hI : Peewee.Inv s) (op : Op D)
    (hp : Pre .peewee (Peewee.view s) op) :
    SpecStep .peewee (Peewee.view s) (Peewee.view (Peewee.step s op)) op := Peewee.refines hI op hp

/-- any history: the final view is the outcome of a reference history from the initial view -/
theorem history_refines_peewee {s : Peewee.St D} (hI : Peewee.Inv s) (ops : List (Op D))
    (ha : Admissible Peewee.view Peewee.step .peewee s ops) :
    SpecRun .peewee (Peewee.view s) ops (Peewee.view (Peewee.run s ops)) :=
  refines_foldl Peewee.view Peewee.step Peewee.Inv .peewee (fun _ op h => Peewee.inv_step h op)
    (fun _ op h hp => Peewee.refines h op hp) ops s hI ha

/-- live ids of a bucket are pairwise distinct and every stored event has one -/
theorem ids_unique_peewee {s : Peewee.St D} (hI : Peewee.Inv s) {b : String} {m : Meta}
    {es : List (Ev D)} (hv : Peewee.view s b = some (m, es)) :
    (es.filterMap (·.id)).Nodup ∧ ∀ x ∈ es, x.id.isSome := Peewee.ids_nodup hI hv

/-- lookup by id is `find` in the bucket's list -/
theorem lookup_by_id_peewee {s : Peewee.St D} (hI : Peewee.Inv s) {b : String} {m : Meta}
    {es : List (Ev D)} (hv : Peewee.view s b = some (m, es)) (i : Int) :
    Peewee.getEvent s b i = .ok (es.find? (fun x => x.id = some i)) := Peewee.getEvent_eq hI hv

/-- the id handed out by an insert is not live in ANY bucket -/
theorem no_live_id_reuse_peewee {s s' : Peewee.St D} (hI : Peewee.Inv s) {b : String} {e : Ev D}
    {oi : Option Int} (he : e.id = none) (h : Peewee.insertOne s b e = .ok (s', oi)) :
    ∃ i, oi = some i ∧ (∀ b', i ∉ Spec.ids (Peewee.view s) b') ∧
      Peewee.view s' = Spec.insert (Peewee.view s) b i e := by
  obtain ⟨i, h1, _, h2, h3⟩ := Peewee.insertOne_view hI he h
  exact ⟨i, h1, h3, h2⟩

/-- the limit-1 read returns a newest event `t` (id `i`); replace-last with that id as hint — or
    without a hint — is accepted and rewrites exactly `t`'s position, keeping the id; nothing else
    in the bucket and no other bucket changes -/
theorem replaceLast_hits_limit1_peewee {s : Peewee.St D} (hI : Peewee.Inv s) {b : String}
    {m : Meta} {es : List (Ev D)} (hv : Peewee.view s b = some (m, es)) (hne : es ≠ []) (e : Ev D) :
    ∃ t i l1 l2, Spec.IsNewest es t ∧ t.id = some i ∧
      Peewee.getEvents s b 1 none none = .ok [t] ∧
      es = l1 ++ t :: l2 ∧ (∀ x ∈ l1 ++ l2, x.id ≠ some i) ∧
      ∀ hint, hint = some i ∨ hint = none →
        Peewee.view (Peewee.step s (.replaceLast b hint e)) b =
          some (m, l1 ++ { e with id := some i } :: l2) ∧
        ∀ b', b' ≠ b → Peewee.view (Peewee.step s (.replaceLast b hint e)) b' = Peewee.view s b' := by
  obtain ⟨t, i, hread, hi, hfm, _, hnone⟩ := Peewee.getEvents_one_first hI hv hne
  have ht : Spec.IsNewest es t := ⟨hfm.mem, hfm.max⟩
  obtain ⟨hn, _⟩ := Peewee.ids_nodup hI hv
  obtain ⟨l1, l2, h1, h2, h3⟩ := Spec.replaceId_exact hv hn ht.1 hi e
  refine ⟨t, i, l1, l2, ht, hi, hread, h1, h2, ?_⟩
  intro hint hh
  refine ⟨?_, fun b' hb => Peewee.only_step hI (.replaceLast b hint e) b' hb⟩
  have key : ∃ s', Peewee.replaceLast s b hint e = .ok (some (s', i)) := by
    rcases hh with rfl | rfl
    · exact Peewee.replaceLast_accepts hI hv ht hi e
    · exact hnone e
  obtain ⟨s', hs'⟩ := key
  simp only [Peewee.step, hs']
  rw [Peewee.replaceLast_some_view hI hs']; exact h3

/-- any accepted replace-last (whatever the hint) rewrites exactly one position, holding a newest
    event, and keeps its id -/
theorem replaceLast_exact_peewee {s s' : Peewee.St D} (hI : Peewee.Inv s) {b : String}
    {m : Meta} {es : List (Ev D)} (hv : Peewee.view s b = some (m, es)) {hint : Option Int}
    {e : Ev D} {j : Int} (h : Peewee.replaceLast s b hint e = .ok (some (s', j))) :
    ∃ t l1 l2, Spec.IsNewest es t ∧ t.id = some j ∧ (∀ h', hint = some h' → h' = j) ∧
      es = l1 ++ t :: l2 ∧ (∀ x ∈ l1 ++ l2, x.id ≠ some j) ∧
      Peewee.view s' b = some (m, l1 ++ { e with id := some j } :: l2) := by
  obtain ⟨t, ht, hj, hh, hv'⟩ := Peewee.replaceLast_hint_view hI hv h
  obtain ⟨l1, l2, h1, h2, h3⟩ := Spec.replaceId_exact hv (Peewee.ids_nodup hI hv).1 ht.1 hj e
  exact ⟨t, l1, l2, ht, hj, hh, h1, h2, by rw [hv']; exact h3⟩

/-- delete removes exactly the addressed event: a live id loses its one position, anything else
    (an id that never existed, was deleted, or lives in another bucket) changes nothing; other
    buckets are never touched -/
theorem delete_exact_peewee {s : Peewee.St D} (hI : Peewee.Inv s) {b : String} {m : Meta}
    {es : List (Ev D)} (hv : Peewee.view s b = some (m, es)) (i : Int) :
    (∀ t ∈ es, t.id = some i → ∃ l1 l2, es = l1 ++ t :: l2 ∧ (∀ x ∈ l1 ++ l2, x.id ≠ some i) ∧
      Peewee.view (Peewee.step s (.delete b i)) b = some (m, l1 ++ l2)) ∧
    ((∀ x ∈ es, x.id ≠ some i) → Peewee.view (Peewee.step s (.delete b i)) = Peewee.view s) ∧
    ∀ b', b' ≠ b → Peewee.view (Peewee.step s (.delete b i)) b' = Peewee.view s b' := by
  have hv' : Peewee.view (Peewee.step s (.delete b i)) = Spec.delete (Peewee.view s) b i :=
    Peewee.refines hI (.delete b i) (by show (Peewee.view s b).isSome = true; rw [hv]; rfl)
  refine ⟨?_, ?_, fun b' hb => Peewee.only_step hI (.delete b i) b' hb⟩
  · intro t ht hi
    rw [hv']
    exact Spec.delete_exact hv (Peewee.ids_nodup hI hv).1 ht hi
  · intro h
    rw [hv']
    apply Spec.delete_notLive
    rw [Spec.mem_ids hv]
    rintro ⟨x, hx, hxi⟩
    exact h x hx hxi

/-! ## the three backends are interchangeable -/

/-- Started from states with the same view and driven by the same admissible history, all three
    backends end in views that are outcomes of the SAME reference history from the SAME initial
    view; they can differ only where the reference model leaves a choice (which fresh ids an insert
    gets, which of several newest events with equal timestamps replace-last rewrites) and in the
    backends' metadata conventions (`Kind.stored`, `Kind.apply`). -/
theorem backends_interchangeable {s1 : Sqlite.St D} {s2 : Memory.St D} {s3 : Peewee.St D}
    (h1 : Sqlite.Inv s1) (h2 : Memory.Inv s2) (h3 : Peewee.Inv s3) {v : View D}
    (e1 : Sqlite.view s1 = v) (e2 : Memory.view s2 = v) (e3 : Peewee.view s3 = v)
    (ops : List (Op D))
    (a1 : Admissible Sqlite.view Sqlite.step .sqlite s1 ops)
    (a2 : Admissible Memory.view Memory.step .memory s2 ops)
    (a3 : Admissible Peewee.view Peewee.step .peewee s3 ops) :
    SpecRun .sqlite v ops (Sqlite.view (Sqlite.run s1 ops)) ∧
    SpecRun .memory v ops (Memory.view (Memory.run s2 ops)) ∧
    SpecRun .peewee v ops (Peewee.view (Peewee.run s3 ops)) :=
  ⟨e1 ▸ history_refines_sqlite h1 ops a1, e2 ▸ history_refines_memory h2 ops a2,
    e3 ▸ history_refines_peewee h3 ops a3⟩

/-- Where the reference model leaves no choice before any step (`AdmissibleDet`: no id-less
    inserts, and replace-last only on buckets whose newest events all have one id, i.e. no tie
    among equal timestamps; by `admissibleDet_of_det` in particular every admissible history of
    `Op.Det` operations) the two SQL backends end in EQUAL views: metadata and events, with ids, of
    every bucket -/
theorem backends_equal_sqlite_peewee {s1 : Sqlite.St D} {s3 : Peewee.St D}
    (h1 : Sqlite.Inv s1) (h3 : Peewee.Inv s3) (e : Sqlite.view s1 = Peewee.view s3)
    (ops : List (Op D))
    (a1 : AdmissibleDet Sqlite.view Sqlite.step .sqlite s1 ops)
    (a3 : Admissible Peewee.view Peewee.step .peewee s3 ops) :
    Sqlite.view (Sqlite.run s1 ops) = Peewee.view (Peewee.run s3 ops) :=
  lockstep_eq Sqlite.view Sqlite.step Sqlite.Inv Peewee.view Peewee.step Peewee.Inv .sqlite .peewee
    (fun _ _ _ h => SpecStep.peewee_iff_sqlite.mp h)
    (fun _ op h => Sqlite.inv_step h op) (fun _ op h => Peewee.inv_step h op)
    (fun _ op h hp => Sqlite.refines h op hp) (fun _ op h hp => Peewee.refines h op hp)
    ops s1 s3 h1 h3 e a1 a3

/-- Under the same condition all three backends end with EQUAL event contents (ids, instants,
    durations, data, order) in every bucket; the memory backend's metadata may differ by its
    name / truthiness conventions, which is C05's subject -/
theorem backends_equal_events {s1 : Sqlite.St D} {s2 : Memory.St D} {s3 : Peewee.St D}
    (h1 : Sqlite.Inv s1) (h2 : Memory.Inv s2) (h3 : Peewee.Inv s3)
    (e12 : evView (Sqlite.view s1) = evView (Memory.view s2))
    (e13 : evView (Sqlite.view s1) = evView (Peewee.view s3))
    (ops : List (Op D))
    (a1 : AdmissibleDet Sqlite.view Sqlite.step .sqlite s1 ops)
    (a2 : Admissible Memory.view Memory.step .memory s2 ops)
    (a3 : Admissible Peewee.view Peewee.step .peewee s3 ops) :
    evView (Sqlite.view (Sqlite.run s1 ops)) = evView (Memory.view (Memory.run s2 ops)) ∧
    evView (Sqlite.view (Sqlite.run s1 ops)) = evView (Peewee.view (Peewee.run s3 ops)) :=
  ⟨lockstep_events Sqlite.view Sqlite.step Sqlite.Inv Memory.view Memory.step Memory.Inv
      .sqlite .memory (fun _ op h => Sqlite.inv_step h op) (fun _ op h => Memory.inv_step h op)
      (fun _ op h hp => Sqlite.refines h op hp) (fun _ op h hp => Memory.refines h op hp)
      ops s1 s2 h1 h2 e12 a1 a2,
   lockstep_events Sqlite.view Sqlite.step Sqlite.Inv Peewee.view Peewee.step Peewee.Inv
      .sqlite .peewee (fun _ op h => Sqlite.inv_step h op) (fun _ op h => Peewee.inv_step h op)
      (fun _ op h hp => Sqlite.refines h op hp) (fun _ op h hp => Peewee.refines h op hp)
      ops s1 s3 h1 h3 e13 a1 a3⟩

/-! ## non-vacuity: admissible histories on concrete two-bucket states (coinciding instants,
interleaved ids), exercising every kind of operation -/

/-- an admissible Sqlite history: insert, replace-last on tied newest events, delete of an id that
    never existed, replace, bulk insert with an upsert; its refinement -/
example :
    let ops : List (Op Unit) :=
      [.insert "a" Sqlite.exEv, .replaceLast "a" none Sqlite.exEv, .delete "b" 99,
       .replace "a" 3 Sqlite.exEv, .insertMany "a" [Sqlite.exEv, { Sqlite.exEv with id := some 1 }]]
    Admissible Sqlite.view Sqlite.step .sqlite Sqlite.exS ops ∧
    SpecRun .sqlite (Sqlite.view Sqlite.exS) ops (Sqlite.view (Sqlite.run Sqlite.exS ops)) := by
  intro ops
  have ha : Admissible Sqlite.view Sqlite.step .sqlite Sqlite.exS ops :=
    ⟨⟨rfl, rfl⟩, ⟨_, _, rfl, by decide, fun h => by cases h⟩, rfl, ⟨rfl, by decide⟩,
     ⟨rfl, by decide⟩, trivial⟩
  exact ⟨ha, history_refines_sqlite Sqlite.exS_inv ops ha⟩

/-- an admissible Peewee history; the hint 3 names the second of two tied newest events -/
example : Admissible Peewee.view Peewee.step .peewee Peewee.Example.s0
    [.replaceLast "a" (some 3) Peewee.Example.e0, .insert "b" Peewee.Example.e0, .delete "a" 1] :=
  ⟨⟨_, _, rfl, by decide, fun _ h hh => ⟨⟨some 3, 10, 1, 9⟩, by
      injection hh with hh; subst hh; exact ⟨⟨by decide, by decide⟩, rfl⟩⟩⟩,
   ⟨rfl, rfl⟩, rfl, trivial⟩

/-- an admissible Memory history -/
example : Admissible Memory.view Memory.step .memory Memory.exSt
    [.replaceLast "b" none ⟨none, 9, 9, 9⟩, .insert "a" ⟨none, 1, 1, 1⟩, .delete "b" 1,
     .create "c" Memory.exMeta] :=
  ⟨⟨_, _, rfl, by decide, fun h => by cases h⟩, ⟨rfl, rfl⟩, rfl, rfl, trivial⟩

/-- a history that leaves the reference model no choice: replace-last on a bucket with one newest
    event, delete, upsert -/
example : AdmissibleDet Sqlite.view Sqlite.step .sqlite Sqlite.exS
    [.replaceLast "b" none Sqlite.exEv, .delete "a" 1,
     .insertMany "a" [{ Sqlite.exEv with id := some 3 }]] := by
  refine ⟨⟨_, _, rfl, by decide, fun h => by cases h⟩, ?_, rfl, trivial, ⟨rfl, by decide⟩,
    fun e he => by rw [List.mem_singleton.mp he]; rfl, trivial⟩
  intro m es t t' hv ht ht'
  injection hv with hv
  injection hv with _ hes
  subst hes
  have e1 := List.mem_singleton.mp ht.1
  have e2 := List.mem_singleton.mp ht'.1
  rw [e1, e2]

/-- history of repair F22. `replaceLast_hits_limit1_sqlite` used to carry `0 ≤ t.ts + t.dur` on its
    read conjunct: Sqlite's unbounded read added `endtime >= 0`, so on this state an event that ends
    before the epoch was stored (and was what replace-last rewrites) but the limit-1 read returned
    `[]`. On the same witness the repaired read returns that event. -/
example : Sqlite.Inv Sqlite.cexLast ∧
    Sqlite.view Sqlite.cexLast "a" = some (default, [{ id := some 1, ts := -10, dur := 5, data := () }]) ∧
    Sqlite.getEvents Sqlite.cexLast "a" 1 none none = [{ id := some 1, ts := -10, dur := 5, data := () }] :=
  ⟨Sqlite.cexLast_inv, Sqlite.replaceLast_read_before_epoch_now_read⟩

/-- `replaceLast_hits_limit1_sqlite` on that state (its only event ends before the epoch): the event
    `t` that replace-last rewrites is the one the limit-1 read returns -/
example : ∃ t i l1 l2, Spec.IsNewest [({ id := some 1, ts := -10, dur := 5, data := () } : Ev Unit)] t ∧
    t.id = some i ∧ Sqlite.getEvents Sqlite.cexLast "a" 1 none none = [t] ∧
    [({ id := some 1, ts := -10, dur := 5, data := () } : Ev Unit)] = l1 ++ t :: l2 ∧
    (∀ x ∈ l1 ++ l2, x.id ≠ some i) ∧
    Sqlite.view (Sqlite.step Sqlite.cexLast (.replaceLast "a" none ⟨none, -7, 1, ()⟩)) "a" =
      some (default, l1 ++ { (⟨none, -7, 1, ()⟩ : Ev Unit) with id := some i } :: l2) ∧
    ∀ b', b' ≠ "a" →
      Sqlite.view (Sqlite.step Sqlite.cexLast (.replaceLast "a" none ⟨none, -7, 1, ()⟩)) b' =
        Sqlite.view Sqlite.cexLast b' :=
  replaceLast_hits_limit1_sqlite Sqlite.cexLast_inv Sqlite.replaceLast_read_before_epoch_now_read.1
    (by simp) none ⟨none, -7, 1, ()⟩

/-- why `Pre` asks that ids carried into insert-many are live: in the memory backend a batch
    `[new, carrying id 0]` into an empty bucket gives the new event id 0 and then overwrites it -/
example : Memory.insertMany Memory.cexSt "b" [Memory.cexNew, Memory.cexCarry] =
    .ok [("b", (Memory.storedMeta "b" Memory.cexMeta, [⟨some 0, 0, 0, 2⟩]))] := rfl

example := replaceLast_hits_limit1_sqlite Sqlite.exS_inv (b := "a") rfl (by decide) none Sqlite.exEv
example := delete_exact_sqlite Sqlite.exS_inv (b := "a") rfl 3
example := replaceLast_hits_limit1_memory Memory.exSt_inv (b := "b") rfl (by decide) none ⟨none, 9, 9, 9⟩
example := delete_exact_memory Memory.exSt_inv (b := "b") rfl 1
example := replaceLast_hits_limit1_peewee Peewee.Example.inv0 Peewee.Example.view_a (by decide)
  Peewee.Example.e0
example := delete_exact_peewee Peewee.Example.inv0 Peewee.Example.view_a 3

end AwProofs.C02
