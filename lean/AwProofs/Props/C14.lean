import AwModel.Store.Migrate
/-! # C14 — placeholder while the theorem is being written (no claims yet) -/
namespace AwProofs.C14
end AwProofs.C14
