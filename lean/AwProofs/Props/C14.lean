import AwProofs.Lemmas.Migrate
/-!
# C14 — Migrating a legacy database to the SQLite store loses nothing

Property theorems only (proofs: `Lemmas/Migrate.lean`, by induction over the legacy bucket table on
top of the refinement lemmas of the two storage models). `old` is any legacy (peewee v2) database
satisfying the invariant of that store — any number of buckets and events, any bucket ids (Lean
`String`s are unicode), any metadata incl. the data dict, any payloads `D`; events read from the
legacy store always carry ids, which the migration drops. The migration itself does not depend on
the profile (`testing` only selects the two file names); the profile enters through `trigger_iff`.

`noId e = { e with id := none }`: an event as (instant, duration, data). "None dropped, none
duplicated" is `List.Perm` of the id-less event lists: equality as multisets.
-/
namespace AwProofs.C14
open Aw Aw.Store
open Aw.Store.Migrate (noId LegacyFile migrateFile migrateFilePinned openPeewee migrate)
variable {D : Type}

/-- the migration of a consistent legacy database into the freshly created (empty) SQLite store
    never fails, and leaves a consistent store -/
theorem migration_succeeds {old : Peewee.St D} (h : Peewee.Inv old) :
    ∃ s', Migrate.migrate old ({} : Sqlite.St D) = .ok s' ∧ Sqlite.Inv s' := by
  obtain ⟨s', hs', hI', _⟩ := Migrate.migrate_spec h
  exact ⟨s', hs', hI'⟩

/-- nothing is lost, nothing is invented: the new store has exactly the legacy buckets, each with
    the same metadata and, as a multiset of (instant, duration, data), the same events -/
theorem migration_preserves {old : Peewee.St D} {s' : Sqlite.St D} (h : Peewee.Inv old)
    (hm : Migrate.migrate old {} = .ok s') :
    ∀ b, (Peewee.view old b = none → Sqlite.view s' b = none) ∧
      (∀ m es, Peewee.view old b = some (m, es) →
        ∃ es', Sqlite.view s' b = some (m, es') ∧ (es'.map noId).Perm (es.map noId)) := by
  obtain ⟨s'', hs'', _, hall⟩ := Migrate.migrate_spec h
  rw [hm] at hs''
  injection hs'' with e
  exact e ▸ hall

/-- consequences of the multiset equality spelled out: as many events as before; every legacy
    event has a counterpart with the same instant, duration and data, and conversely -/
theorem migration_count_and_members {old : Peewee.St D} {s' : Sqlite.St D} (h : Peewee.Inv old)
    (hm : Migrate.migrate old {} = .ok s') {b : String} {m : Meta} {es : List (Ev D)}
    (hv : Peewee.view old b = some (m, es)) :
    ∃ es', Sqlite.view s' b = some (m, es') ∧ es'.length = es.length ∧
      (∀ e ∈ es, ∃ e' ∈ es', e'.ts = e.ts ∧ e'.dur = e.dur ∧ e'.data = e.data) ∧
      (∀ e' ∈ es', ∃ e ∈ es, e.ts = e'.ts ∧ e.dur = e'.dur ∧ e.data = e'.data) := by
  obtain ⟨es', hv', hp⟩ := (migration_preserves h hm b).2 m es hv
  refine ⟨es', hv', by simpa using hp.length_eq, ?_, ?_⟩
  · intro e he
    obtain ⟨e', he', heq⟩ := List.mem_map.mp (hp.mem_iff.mpr (List.mem_map_of_mem (f := noId) he))
    exact ⟨e', he', (Migrate.noId_eq_iff e' e).mp heq⟩
  · intro e' he'
    obtain ⟨e, he, heq⟩ := List.mem_map.mp (hp.mem_iff.mp (List.mem_map_of_mem (f := noId) he'))
    exact ⟨e, he, (Migrate.noId_eq_iff e e').mp heq⟩

/-- every migrated event has an id, and the new ids of a bucket are pairwise distinct -/
theorem migration_ids_distinct {old : Peewee.St D} {s' : Sqlite.St D} (h : Peewee.Inv old)
    (hm : Migrate.migrate old {} = .ok s') {b : String} {m : Meta} {es' : List (Ev D)}
    (hv : Sqlite.view s' b = some (m, es')) :
    (es'.filterMap (·.id)).Nodup ∧ ∀ x ∈ es', x.id.isSome := by
  obtain ⟨s'', hs'', hI, _⟩ := Migrate.migrate_spec h
  rw [hm] at hs''
  injection hs'' with e
  exact Sqlite.ids_nodup (e ▸ hI) hv

/-- the legacy database is only read: `migrate` is a pure function `Peewee.St D → Sqlite.St D → …`
    whose result contains no legacy state — there is no "legacy database afterwards" other than
    `old` itself, and running the migration twice from the same inputs gives the same result.
    (That the legacy *file* is byte-for-byte untouched is observed by the correspondence check on
    the real code; files are not modelled.) -/
theorem old_unchanged (old : Peewee.St D) (new : Sqlite.St D) (r₁ r₂ : Except Err (Sqlite.St D))
    (h₁ : Migrate.migrate old new = r₁) (h₂ : Migrate.migrate old new = r₂) : r₁ = r₂ :=
  h₁.symm.trans h₂

/-- "the legacy file itself is left untouched": whatever vintage the file is (with or without the
    bucket `datastr` column that the legacy store adds to files it opens), it is the same file after
    the migration, and the new store is the migration of its content (F27: the legacy store reads a
    scratch copy) -/
theorem legacy_file_untouched (f : LegacyFile D) (new : Sqlite.St D) :
    (migrateFile f new).1 = f ∧ (migrateFile f new).2 = migrate f.content new :=
  ⟨rfl, rfl⟩

/-- the pinned tree opened the legacy file itself: a file of the older vintage came out altered -/
theorem legacy_file_altered_before_F27 (c : Peewee.St D) (new : Sqlite.St D) :
    (migrateFilePinned ⟨false, c⟩ new).1 ≠ ⟨false, c⟩ := by
  simp [migrateFilePinned, openPeewee]

/-- the migration runs exactly when the default database file is new, no custom path was given,
    and the data directory has a file whose first two dot-separated components are the legacy name
    *of the same profile* (`peewee-sqlite` / `peewee-sqlite-testing`) and `v2` -/
theorem trigger_iff (testing newDbFile customPath : Bool) (files : List String) :
    Migrate.triggers testing newDbFile customPath files = true ↔
      newDbFile = true ∧ customPath = false ∧
        ∃ f ∈ files, ∃ n v rest, f.splitOn "." = n :: v :: rest ∧
          n = Migrate.legacyName testing ∧ v = "v2" :=
  Migrate.triggers_iff testing newDbFile customPath files

/-! ## non-vacuity -/

open Aw.Store.Migrate.Example in
/-- the hypotheses hold of a concrete legacy database with three buckets (one empty, one with a
    unicode id and a data dict) and five events, and the migration computes the expected store:
    events in `get_events` order (newest first), fresh ids 1…5 -/
example : Peewee.Inv old ∧ Migrate.migrate old {} = .ok new ∧
    Sqlite.view new "a" = some (mA, [⟨some 1, 30, 1, 9⟩, ⟨some 2, 10, 5, 7⟩, ⟨some 3, 10, 5, 7⟩]) ∧
    Sqlite.view new "bücket-ü" = some (mB, [⟨some 4, 10, 0, 8⟩, ⟨some 5, 5, 2, 8⟩]) ∧
    Sqlite.view new "empty" = some (mA, []) ∧ Sqlite.view new "other" = none :=
  ⟨old_inv, rfl, rfl, rfl, rfl, rfl⟩

open Aw.Store.Migrate.Example in
example := migration_succeeds old_inv
open Aw.Store.Migrate.Example in
example := migration_preserves (s' := new) old_inv rfl
open Aw.Store.Migrate.Example in
example := migration_count_and_members (s' := new) (b := "a") old_inv rfl rfl
open Aw.Store.Migrate.Example in
example := migration_ids_distinct (s' := new) (b := "a") old_inv rfl rfl

open Aw.Store.Migrate.Example in
/-- the freshness of the new store (`{}`: the migration runs only when the database file was just
    created) is a real hypothesis: migrating into a store that already has the buckets fails on
    the UNIQUE constraint -/
example : Migrate.migrate old new = .error .integrity := rfl

/-- the normal-profile legacy file triggers the migration of the normal profile … -/
example : Migrate.triggers false true false ["aw-server.log", "peewee-sqlite.v2.db"] = true := by
  simp only [Migrate.triggers, Migrate.isLegacyFile, List.any_cons, List.any_nil, Migrate.split_normal,
    Migrate.split_log]
  decide
/-- … and not that of the testing profile -/
example : Migrate.triggers true true false ["aw-server.log", "peewee-sqlite.v2.db"] = false := by
  simp only [Migrate.triggers, Migrate.isLegacyFile, List.any_cons, List.any_nil, Migrate.split_normal,
    Migrate.split_log]
  decide
/-- the testing-profile legacy file triggers the migration of the testing profile … -/
example : Migrate.triggers true true false ["peewee-sqlite-testing.v2.db"] = true := by
  simp only [Migrate.triggers, Migrate.isLegacyFile, List.any_cons, List.any_nil, Migrate.split_testing]
  decide
/-- … and not that of the normal profile -/
example : Migrate.triggers false true false ["peewee-sqlite-testing.v2.db"] = false := by
  simp only [Migrate.triggers, Migrate.isLegacyFile, List.any_cons, List.any_nil, Migrate.split_testing]
  decide
/-- an existing new database file, or a custom path, suppresses it -/
example : Migrate.triggers false false false ["peewee-sqlite.v2.db"] = false := rfl
example : Migrate.triggers false true true ["peewee-sqlite.v2.db"] = false := rfl

end AwProofs.C14
