import AwProofs.Lemmas.Commit
/-!
# C06 — after a crash the database holds a prefix of what was done, minus a bounded tail

Property theorems only, on the commit machine `Aw.Store.Commit` (`cur` = what the connection sees,
`dur` = what a reopened database holds). Definitions used (all in `AwProofs/Lemmas/Commit.lean`):

* `COp D`, `cstep`, `crun`, `cok`: operations carrying their clock reading, the state after one
  operation (also when it raises), after a list of operations, and whether the operation returned.
* `curHist c0 ops`: the ghost-free history of connection states — every value `cur` takes after
  each ELEMENTARY write of `ops` (one per executed statement; `insert_many` one per upsert and one
  per inserted row; `delete_bucket` its result state), computed on the table model `Sqlite.St`
  alone: it does not look at `n`, `last`, `pend`, `txn`, `lazy` or `log`, so it is independent of
  every commit decision. `lastD s0 h` is the last state of `h`, or `s0` if `h` is empty.
* `Init c0`: `c0.dur = c0.cur ∧ c0.pend = [] ∧ c0.n = 0` (a freshly opened store).

All theorems quantify over arbitrary histories (any operations, any arguments, any clock readings).
-/
namespace AwProofs.C06
open Aw Aw.Store Aw.Store.Commit AwProofs.CommitL
variable {D : Type}

/-- The ghost history is faithful: after any history the connection state is the last state of
    `curHist` (so `curHist` really lists the values of `cur`). -/
theorem cur_is_last_of_history (c0 : CSt D) (h0 : Init c0) (ops : List (COp D)) :
    (crun c0 ops).cur = lastD c0.cur (curHist c0 ops) :=
  (pre_run c0 h0.1 h0.2.1 ops).1

/-- crash_is_prefix, full form: after any history the durable state is the connection state after
    a PREFIX `pre` of the elementary writes, and the lost tail `post` consists of exactly
    `pend.length` elementary writes. -/
theorem durable_is_prefix_minus_pending (c0 : CSt D) (h0 : Init c0) (ops : List (COp D)) :
    ∃ pre post, curHist c0 ops = pre ++ post ∧ (crun c0 ops).dur = lastD c0.cur pre ∧
      post.length = (crun c0 ops).pend.length :=
  (pre_run c0 h0.1 h0.2.1 ops).2

/-- crash_is_prefix: after any history `dur` is the initial state or one of the values `cur` held
    at an earlier point of the history. -/
theorem durable_is_past_state (c0 : CSt D) (h0 : Init c0) (ops : List (COp D)) :
    (crun c0 ops).dur ∈ c0.cur :: curHist c0 ops := by
  obtain ⟨pre, post, e, hd, _⟩ := durable_is_prefix_minus_pending c0 h0 ops
  rw [hd, e]
  have := lastD_mem c0.cur pre
  simp only [List.mem_cons, List.mem_append] at this ⊢
  rcases this with h | h
  · exact Or.inl h
  · exact Or.inr (Or.inl h)

/-- Bucket creation, update and deletion are durable as soon as they return: in ANY state, after a
    bucket operation that returns normally everything executed so far is durable. -/
theorem bucket_ops_durable (c : CSt D) (op : COp D) (hb : op.isBucketOp = true)
    (hok : cok c op = true) :
    (cstep c op).dur = (cstep c op).cur ∧ (cstep c op).pend = [] := by
  rcases bucket_form c op hb with ⟨_, s, _, h⟩ | ⟨h, _⟩
  · rw [h]; exact ⟨rfl, rfl⟩
  · rw [h] at hok; cases hok

/-- The same when `update_bucket` (with at least one field) reports a missing bucket: the commit
    has happened before the `get_metadata` that raises. -/
theorem bucket_ops_durable_update_missing (c : CSt D) (now : Int) (b : String) (u : Upd)
    (hu : u.isEmpty = false) :
    (cstep c (.updateBucket now b u)).dur = (cstep c (.updateBucket now b u)).cur ∧
    (cstep c (.updateBucket now b u)).pend = [] := by
  simp only [cstep, Commit.updateBucket, hu]
  cases Sqlite.updateBucket c.cur b u <;> exact ⟨rfl, rfl⟩

/-- The same for `delete_bucket`, whether it returns or reports a missing bucket. -/
theorem bucket_ops_durable_delete (c : CSt D) (now : Int) (b : String) :
    (cstep c (.deleteBucket now b)).dur = (cstep c (.deleteBucket now b)).cur ∧
    (cstep c (.deleteBucket now b)).pend = [] := by
  simp only [cstep, Commit.deleteBucket]
  cases Sqlite.deleteBucket c.cur b <;> exact ⟨rfl, rfl⟩

/-- A single-event or bucket-level operation is never split: in ANY state, after `insert_one`,
    `replace`, `replace_last`, `delete`, `create_bucket`, `update_bucket` or `delete_bucket` the
    durable state is what it was before (nothing committed) or the new connection state
    (everything, this operation included, committed) — never a state in between. -/
theorem single_op_atomic (c : CSt D) (op : COp D)
    (h : op.isSingleEventWrite = true ∨ op.isBucketOp = true) :
    (cstep c op).dur = c.dur ∨ (cstep c op).dur = (cstep c op).cur := by
  rcases h with h | h
  · rcases single_form c op h with ⟨_, s, _, e⟩ | ⟨_, _, e⟩
    · rw [e]; exact evw_atomic c s op.now
    · rw [e]; exact Or.inl rfl
  · rcases bucket_form c op h with ⟨_, s, _, e⟩ | ⟨_, _, e | e | e⟩ <;> rw [e]
    · exact Or.inr rfl
    · exact Or.inr rfl
    · exact Or.inl rfl
    · exact Or.inl rfl

/-- No operation at all is split (as repaired, F20: `insert_many` takes ONE commit decision, after
    all of its statements): in ANY state, after ANY operation — `insert_many` with any mixture of
    upserts and new rows, reads and failing operations included — the durable state is what it was
    before or the new connection state. -/
theorem every_op_atomic (c : CSt D) (op : COp D) :
    (cstep c op).dur = c.dur ∨ (cstep c op).dur = (cstep c op).cur := by
  cases op with
  | insertMany now b es =>
    simp only [cstep]
    cases hok : (Commit.insertMany c now b es).1.isOk with
    | true =>
      rw [insertMany_ok _ _ _ _ hok]
      rcases condCommit_atomic (insertManyMid c now b es)
        ((es.filter (fun e => e.id.isSome)).length + (es.filter (fun e => e.id.isNone)).length) now with h | h
      · left; rw [h, insertManyMid]; exact (mid_fields c now b _ _).2.2.2.1
      · exact Or.inr h
    | false => rw [insertMany_err _ _ _ _ hok]; exact Or.inl rfl
  | read now => exact Or.inr rfl
  | createBucket now b m => exact single_op_atomic c _ (Or.inr rfl)
  | updateBucket now b u => exact single_op_atomic c _ (Or.inr rfl)
  | deleteBucket now b => exact single_op_atomic c _ (Or.inr rfl)
  | insertOne now b e => exact single_op_atomic c _ (Or.inl rfl)
  | replace now b i e => exact single_op_atomic c _ (Or.inl rfl)
  | replaceLast now b e => exact single_op_atomic c _ (Or.inl rfl)
  | delete now b i => exact single_op_atomic c _ (Or.inl rfl)

/-- A crash INSIDE `insert_many` (after any of its statements, before its commit decision) shows
    none of the call: the durable state is still the one before the call. -/
theorem insertMany_inside_not_durable (c : CSt D) (now : Int) (b : String) (es : List (Ev D)) :
    (insertManyMid c now b es).dur = c.dur := by
  rw [insertManyMid]; exact (mid_fields c now b _ _).2.2.2.1

/-- At most 50 buffered event writes, deletions included: on the lazy store, after any history,
    `pend.length ≤ n ≤ 50`. -/
theorem pending_bounded (c0 : CSt D) (h0 : Init c0) (hl : c0.lazy = true) (ops : List (COp D)) :
    (crun c0 ops).pend.length ≤ (crun c0 ops).n ∧ (crun c0 ops).n ≤ 50 ∧
    (crun c0 ops).pend.length ≤ 50 := by
  have := (h0.bnd hl).run ops
  exact ⟨this.2.1, this.2.2, Nat.le_trans this.2.1 this.2.2⟩

/-- Inside `insert_many` (after its upserts and its bulk INSERT, before the conditional commit) the
    bound is 50 + the number of events of the call that has not returned yet. -/
theorem pending_bounded_inside_insertMany (c0 : CSt D) (h0 : Init c0) (hl : c0.lazy = true)
    (ops : List (COp D)) (now : Int) (b : String) (es : List (Ev D)) :
    (insertManyMid (crun c0 ops) now b es).pend.length ≤
      50 + es.length := by
  have hlen : ∀ l : List (Ev D), (l.filter (fun e => e.id.isSome)).length + (l.filter (fun e => e.id.isNone)).length = l.length := by
    intro l
    induction l with
    | nil => rfl
    | cons e l ih =>
      cases h : e.id with
      | none => simp [List.filter_cons, h]; omega
      | some i => simp [List.filter_cons, h]; omega
  have := ((h0.bnd hl).run ops).mid now b es
  have := hlen es
  omega

/-- On the auto-committing store every completed operation is durable: in ANY state with
    `lazy = false`, after an event write or bucket operation that returns normally `dur = cur`. -/
theorem eager_every_op_durable (c : CSt D) (hl : c.lazy = false) (op : COp D)
    (h : op.isEventWrite = true ∨ op.isBucketOp = true) (hok : cok c op = true) :
    (cstep c op).dur = (cstep c op).cur ∧ (cstep c op).pend = [] := by
  rcases h with h | h
  · obtain ⟨m, k, e, hm⟩ := evwrite_form c op h hok
    rw [e]
    exact condCommit_eager' m k op.now (by rw [hm]; exact hl)
  · exact bucket_ops_durable c op h hok

/-- … and over histories: on the auto-committing store, after ANY history (operations that raise
    included) the reopened database equals the connection state. -/
theorem eager_always_durable (c0 : CSt D) (h0 : Init c0) (hl : c0.lazy = false)
    (ops : List (COp D)) :
    (crun c0 ops).dur = (crun c0 ops).cur ∧ (crun c0 ops).pend = [] :=
  ((h0.eager hl).run ops).2

/-- Nothing is at risk when nothing is pending, or when no transaction is open. -/
theorem pending_consistent (c0 : CSt D) (h0 : Init c0) (ops : List (COp D)) :
    ((crun c0 ops).pend = [] → (crun c0 ops).dur = (crun c0 ops).cur) ∧
    ((crun c0 ops).txn = false → (crun c0 ops).dur = (crun c0 ops).cur) := by
  refine ⟨fun hp => ?_, fun ht => (h0.clean.run ops ht).1⟩
  obtain ⟨hc, pre, post, e, hd, hlen⟩ := pre_run c0 h0.1 h0.2.1 ops
  rw [hp] at hlen
  have : post = [] := List.eq_nil_of_length_eq_zero hlen
  rw [hc, hd, e, this, List.append_nil]


/-- History of the repair F20: BEFORE it `insert_many` ran every upsert as a `replace` with its own
    conditional commit, so after 50 buffered inserts an `insert_many` of two upserts committed after
    the first one. With the repaired function the same call leaves all 52 writes durable. -/
theorem insertMany_no_longer_splits :
    let c := crun Ex.c0 (List.replicate 50 (.insertOne 0 "b" (Ex.ev 0)) : List (COp Nat))
    let op : COp Nat := .insertMany 0 "b" [Ex.evId 1 7, Ex.evId 2 8]
    Init Ex.c0 ∧ c.pend.length = 50 ∧ (cstep c op).pend = [] ∧
    (cstep c op).dur = (cstep c op).cur ∧
    ((cstep c op).dur.events.take 2).map (·.data) = [7, 8] := by
  refine ⟨Ex.init_c0, ?_, ?_, ?_, ?_⟩
  · set_option maxRecDepth 100000 in decide
  · set_option maxRecDepth 100000 in decide
  · exact ((every_op_atomic _ _).resolve_left (by
      intro h
      exact absurd (congrArg (fun s => s.events.length) h) (by set_option maxRecDepth 100000 in decide)))
  · set_option maxRecDepth 100000 in decide

/-! ## non-vacuity: the hypotheses are satisfiable on concrete non-trivial histories -/

/-- a lazy history: create a bucket, 51 inserts (commit by count at the 51st), two more inserts, a
    delete: the reopened database holds the first 51 events, the connection sees 52, three
    elementary writes are pending -/
example :
    let ops : List (COp Nat) := [.createBucket 0 "x" Ex.meta0] ++ List.replicate 51 (.insertOne 0 "b" (Ex.ev 1)) ++
      [.insertOne 1 "b" (Ex.ev 2), .insertOne 2 "b" (Ex.ev 3), .delete 3 "b" 52]
    Init Ex.c0 ∧ Ex.c0.lazy = true ∧
    (crun Ex.c0 ops).dur.events.length = 51 ∧ (crun Ex.c0 ops).cur.events.length = 52 ∧
    (crun Ex.c0 ops).pend.length = 3 ∧ (crun Ex.c0 ops).dur.buckets.length = 2 ∧
    (curHist Ex.c0 ops).length = 55 := by
  refine ⟨Ex.init_c0, rfl, ?_, ?_, ?_, ?_, ?_⟩ <;> (set_option maxRecDepth 100000 in decide)

/-- the eager store on the same kind of history -/
example :
    let ops : List (COp Nat) := [.insertOne 1 "b" (Ex.ev 2), .insertOne 2 "nobucket" (Ex.ev 3)]
    Init Ex.c0e ∧ Ex.c0e.lazy = false ∧ (crun Ex.c0e ops).txn = true ∧
    (crun Ex.c0e ops).dur.events.length = 1 ∧ (crun Ex.c0e ops).cur.events.length = 1 :=
  ⟨Ex.init_c0e, rfl, by decide, by decide, by decide⟩

/-- operations that satisfy the hypotheses of `bucket_ops_durable`, `single_op_atomic`,
    `eager_every_op_durable` -/
example : (COp.createBucket 0 "x" Ex.meta0 : COp Nat).isBucketOp = true ∧
    cok Ex.c0 (.createBucket 0 "x" Ex.meta0) = true ∧
    (COp.delete 0 "b" 1 : COp Nat).isSingleEventWrite = true ∧
    (COp.insertMany 0 "b" [Ex.ev 1, Ex.evId 1 2] : COp Nat).isEventWrite = true ∧
    cok Ex.c0e (.insertMany 0 "b" [Ex.ev 1, Ex.evId 1 2]) = true := by decide

end AwProofs.C06
