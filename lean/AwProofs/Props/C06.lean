import AwModel.Store.Commit
/-! # C06 — placeholder while the theorems are being written (no claims yet) -/
namespace AwProofs.C06
end AwProofs.C06
