import AwProofs.Lemmas.ConfigFirstRun
import AwProofs.Lemmas.ConfigExample
/-!
# C20 — Effective configuration is the defaults overlaid by the user's file

Property theorems only, over `AwModel/Config.lean` (the repaired `_merge`, `_comment_out_toml`,
`load_config_toml`; see notes/c20_fix_*.patch). Documents are `Entries V` (a dict in insertion
order whose values are leaves `V` - scalars, arrays, arrays of tables - or nested dicts), the
user's dicts have unique keys (`EWF`), paths are lists of keys, trees are of any depth and width.
`leafAt t p` is the value at path `p` if it is a leaf, `tableAt`/`definedAt` say whether `p` is a
table / anything at all. `merge d u` is `_merge(defaults, user)`.

`tomlkit.parse` is a parameter (`parse`, with `hdr` naming the path of a header line); what is
assumed about it is `ParserSpec` (Lemmas/ConfigFirstRun.lean), and only `first_run_identity` uses it.
-/
namespace AwProofs.C20
open Aw.Config AwProofs.Config
variable {V : Type}

private theorem root (d u : Entries V) :
    Toml.table (merge d u) = combine (Toml.table u) (Toml.table d) := by
  rw [combine_table_table]; rfl

open Classical in
/-- The value found at a path of the effective configuration is the user's value if the user's
    file has a value there; there is none if the user's file has a table there or a value on a
    proper prefix of the path (the user replaced what was below); otherwise it is the default's. -/
theorem leaf_of_merge (d u : Entries V) (hu : EWF u) (p : Path) :
    (Toml.table (merge d u)).leafAt p =
      match (Toml.table u).leafAt p with
      | some v => some v
      | none =>
        if (Toml.table u).definedAt p = true ∨
            (∃ q, q <+: p ∧ q ≠ p ∧ ((Toml.table u).leafAt q).isSome = true)
        then none else (Toml.table d).leafAt p := by
  have hg := get_combine p (Toml.table u) (Toml.table d) (by simpa [TWF] using hu)
  have hab := leafAbove_iff p (Toml.table u)
  rw [root]
  unfold Toml.leafAt Toml.definedAt
  rw [hg]
  cases hup : (Toml.table u).get? p with
  | none =>
    by_cases hla : (Toml.table u).leafAbove p = true
    · have := hab.mp hla
      simp only [Toml.leafAt] at this
      simp [hla, this]
    · have hn : ¬ ∃ q, q <+: p ∧ q ≠ p ∧ ((Toml.table u).leafAt q).isSome = true :=
        fun h => hla (hab.mpr h)
      simp only [Toml.leafAt] at hn
      simp [hla, hn]
  | some ut =>
    cases ut with
    | leaf v => cases (Toml.table d).get? p <;> simp [combine_leaf]
    | table eb =>
      cases hd : (Toml.table d).get? p with
      | none => simp
      | some dt => cases dt <;> simp [combine]

/-- The tables of the effective configuration are the user's tables, plus the default's tables
    that the user did not replace by a value at that path or above it. -/
theorem tables_of_merge (d u : Entries V) (hu : EWF u) (p : Path) :
    (Toml.table (merge d u)).tableAt p = true ↔
      (Toml.table u).tableAt p = true ∨
      ((Toml.table d).tableAt p = true ∧ ∀ q, q <+: p → (Toml.table u).leafAt q = none) := by
  have hg := get_combine p (Toml.table u) (Toml.table d) (by simpa [TWF] using hu)
  have hab := leafAbove_iff p (Toml.table u)
  rw [root]
  unfold Toml.tableAt
  rw [hg]
  cases hup : (Toml.table u).get? p with
  | none =>
    have hself : (Toml.table u).leafAt p = none := by simp [Toml.leafAt, hup]
    by_cases hla : (Toml.table u).leafAbove p = true
    · obtain ⟨q, hq, _, hs⟩ := hab.mp hla
      simp only [hla, if_true]
      constructor
      · intro h; simp at h
      · rintro (h | ⟨_, h⟩)
        · simp at h
        · rw [h q hq] at hs; simp at hs
    · simp only [hla]
      constructor
      · intro h
        refine Or.inr ⟨by simpa using h, fun q hq => ?_⟩
        by_cases hqp : q = p
        · subst hqp; exact hself
        · cases hlq : (Toml.table u).leafAt q with
          | none => rfl
          | some v => exact absurd (hab.mpr ⟨q, hq, hqp, by simp [hlq]⟩) hla
      · rintro (h | ⟨h, _⟩)
        · simp at h
        · simpa using h
  | some ut =>
    cases ut with
    | leaf v =>
      have hself : (Toml.table u).leafAt p = some v := by simp [Toml.leafAt, hup]
      constructor
      · intro h
        cases hd : (Toml.table d).get? p <;> simp [hd, combine_leaf] at h
      · rintro (h | ⟨_, h⟩)
        · simp at h
        · rw [h p (List.prefix_refl p)] at hself; simp at hself
    | table eb =>
      constructor
      · intro _; exact Or.inl (by simp)
      · intro _
        cases hd : (Toml.table d).get? p with
        | none => simp
        | some dt => cases dt <;> simp [combine]

/-- An existing user file is never altered (whatever it contains, whether or not it parses). -/
theorem user_file_untouched (parse : Text → Option (Entries V)) (dflt txt : Text) :
    (load parse dflt (some txt)).file = some txt := by
  unfold load
  cases parse dflt with
  | none => rfl
  | some d => cases h : parse txt <;> simp [h]

/-- With an existing user file the call returns the defaults overlaid by that file. -/
theorem load_with_user_file (parse : Text → Option (Entries V)) (dflt txt : Text) (d u : Entries V)
    (hd : parse dflt = some d) (hu : parse txt = some u) :
    (load parse dflt (some txt)).result = some (merge d u) := by
  simp [load, hd, hu]

/-- A file is written only when none exists, it is the commented-out defaults, the call returns
    the defaults; nothing is written if the defaults do not parse. -/
theorem load_without_file (parse : Text → Option (Entries V)) (dflt : Text) :
    load parse dflt none =
      match parse dflt with
      | some d => ⟨some d, some (commentOut dflt)⟩
      | none => ⟨none, none⟩ := by
  unfold load
  cases parse dflt with
  | none => rfl
  | some d => simp [merge, mergeE_nil]

/-- Merging a tree that has no values and whose tables are all tables of `d` returns `d` itself
    (key order included). -/
theorem merge_skeleton_id (d s : Entries V) (hs : EWF s)
    (hleaf : ∀ p, (Toml.table s).leafAt p = none)
    (htab : ∀ p, (Toml.table s).tableAt p = true → (Toml.table d).tableAt p = true) :
    merge d s = d := by
  apply mergeE_skel
  have := tskel_of_paths (Toml.table s) (Toml.table d) (by simpa [TWF] using hs)
    (fun p => ⟨hleaf p, htab p⟩)
  simpa [TSkel] using this

/-- First run: for defaults with one value per line (`OneLinePerValue`), the file written by the
    first call parses, and the defaults overlaid by it are the defaults: the first call returns
    the defaults and writes the file, and every later call returns the defaults again and leaves
    the file as it is. -/
theorem first_run_identity {parse : Text → Option (Entries V)} {hdr : Text → Option Path}
    (hp : ParserSpec parse hdr) (s : Text) (d : Entries V) (hd : parse s = some d)
    (h1 : OneLinePerValue hdr s d) :
    (∃ u, parse (commentOut s) = some u ∧ merge d u = d) ∧
    load parse s none = ⟨some d, some (commentOut s)⟩ ∧
    load parse s (some (commentOut s)) = ⟨some d, some (commentOut s)⟩ := by
  obtain ⟨u, hu, hm⟩ := first_run_merge hp s d h1
  refine ⟨⟨u, hu, hm⟩, ?_, ?_⟩
  · rw [load_without_file, hd]
  · simp [load, hd, hu, merge, hm]

/-- ... hence any number of calls: after the `n+1`-st call from "no file" the file is still the one
    the first call wrote, and the next call returns the defaults again -/
theorem first_run_stable {parse : Text → Option (Entries V)} {hdr : Text → Option Path}
    (hp : ParserSpec parse hdr) (s : Text) (d : Entries V) (hd : parse s = some d)
    (h1 : OneLinePerValue hdr s d) (n : Nat) :
    fileAfter parse s (n + 1) none = some (commentOut s) ∧
    (load parse s (fileAfter parse s (n + 1) none)).result = some d := by
  obtain ⟨_, h0, hfix⟩ := first_run_identity hp s d hd h1
  have key : fileAfter parse s (n + 1) none = some (commentOut s) := by
    rw [fileAfter_succ, h0]
    exact fileAfter_fixed parse s _ (by rw [hfix]) n
  exact ⟨key, by rw [key, hfix]⟩

/-! ## non-vacuity -/

/-- overlay on a concrete pair: default-only key kept, nested table merged key by key, a default
    value replaced by the user's table, user-only key appended -/
example :
    merge (V := Nat)
      (.ofList [("a", .leaf 1), ("t", .table (.ofList [("x", .leaf 1), ("y", .leaf 2)])), ("s", .leaf 7)])
      (.ofList [("t", .table (.ofList [("y", .leaf 3), ("z", .leaf 4)])), ("n", .leaf 5), ("s", .table .nil)])
    = .ofList [("a", .leaf 1), ("t", .table (.ofList [("x", .leaf 1), ("y", .leaf 3), ("z", .leaf 4)])),
        ("s", .table .nil), ("n", .leaf 5)] := by
  rfl

/-- the first-run file of a document with an array of tables: its header and everything after it
    is commented out, the plain header before it is kept -/
example : commentOut exText = "## defaults\n[a]\n#x = 1\n\n#  [[b]]\n#y = 2\n#[a.c]\n#z = 3".toList := by
  rfl

/-- the hypotheses of `first_run_identity` are satisfiable (`exSpec : ParserSpec exParse exHdr`,
    `exOne : OneLinePerValue exHdr exText _`), and a later load then returns the defaults -/
example : load exParse exText (some (commentOut exText)) =
    ⟨some (.ofList [("a", .table (.ofList [("x", .leaf 1)])), ("b", .leaf 0)]), some (commentOut exText)⟩ :=
  (first_run_identity exSpec exText _ (by simp [exParse]) exOne).2.2

end AwProofs.C20
