import AwModel.Store.Sqlite
/-! # C12 — placeholder while the theorems are being written (no claims yet) -/
namespace AwProofs.C12
end AwProofs.C12
