import AwProofs.Lemmas.QueryBucketWindow
import AwProofs.Lemmas.HeapQuery
/-!
# C12 — queries only read: bucket data is unchanged and scoped to the query window

Property theorems only (proofs are in `Lemmas/QueryBuiltins.lean`, `Lemmas/QueryBucketWindow.lean`,
`Lemmas/HeapQuery.lean`).

**Shape of the argument.**
1. *Who gets the datastore.* `q2_function.g` drops the datastore argument for every function whose
   signature has no `Datastore` parameter. On the registry GENERATED from `aw_query.functions`,
   exactly `find_bucket`, `query_bucket`, `query_bucket_eventcount` keep it
   (`only_three_builtins_take_the_datastore`, by `decide` — a fourth datastore-taking builtin in
   the source makes this file fail to build); every other builtin is called with its interpreted
   argument values and nothing else (`others_receive_values_only`,
   `others_receive_exactly_their_arguments`).
2. *What the three do with it.* Their bodies (`AwModel/Query/Builtins.lean`) are functions of the
   backend's READ interface `Reads D` (`buckets`, `get_events`, `get_eventcount`, `get_metadata`)
   and of nothing else. `query_is_a_function_of_reads`: two stores that answer those reads alike
   give the same query result. The result type of `runQuery` is `Except Err Val` and the result
   types of the builtins are `Except BErr (List (Ev D))` / `Nat` / `String`: no store occurs in
   them, so by construction a query — successful or failing — has no way to hand back a changed
   store; the store a query runs against is the same value before and after.
3. *Window scoping.* `query_bucket_is_windowed_get_B`, `query_bucket_eventcount_is_count_B`
   (B = sqlite, memory, peewee): inside a query, `query_bucket(b)` is the backend's
   `get_events(b, -1, …)` on the window rounded by `Bucket.get`, i.e. exactly what a direct
   `Bucket.get(starttime, endtime)` computes, and `query_bucket_eventcount(b)` is the backend's
   `get_eventcount` on the unrounded window; an unlisted bucket is a `QueryFunctionException`.
   `query_bucket_in_query` / `query_bucket_eventcount_in_query` connect this to `interp` on the
   generated registry. With the read theorems of C03: everything returned reaches into the rounded
   window (within 1 ms of the requested one), everything stored that reaches into the requested
   window is returned, the count is the length of the direct read and never exceeds the number of
   events `query_bucket` returns. Hypotheses carried over from C03: peewee — coherent key cache
   (`CacheOk`), events up to 24 h long for completeness, results clipped to the window; sqlite —
   none (C03 has no epoch clause any more since the repair F22; it concerned reads without a start
   bound, and a query always has one).
4. *Objects (memory backend).* The only backend that keeps Python objects is the memory one; a
   builtin that "annotates, clears or re-times events in place" mutates objects it was handed by a
   read. `queries_only_read_heap`: from every reachable state of the heap model, every sequence of
   read API calls and client mutations of held objects leaves `observe` (everything reads can
   return, by value) unchanged — the reads hand out fresh deep copies, the store dict is not
   touched, and no held object is reachable from the store (C01's separation invariant:
   `Heap.mutate_observe`, the lemma behind `C01.store_owns_copy` / `store_owns_copy_step`). A run
   that raises midway is a shorter sequence. `reads_hand_out_fresh_copies`: the objects the reads
   return are allocated by the call, client-held and not reachable from the store. The sqlite and peewee backends build fresh `Event`
   objects from table rows on every read (value models: `Sqlite.getEvents` / `Peewee.getEvents`
   return values computed from the rows), so there is no shared object to mutate and nothing to
   prove at the object level.

**The window is a parameter.** The interpreter model hands the namespace to a builtin as the opaque
token `Val.ns`; `S`, `E` are the instants `namespace["STARTTIME"]`, `namespace["ENDTIME"]` denote
at the call (DESIGN §8 C12: a program that rebinds these names moves its own window).
-/
namespace AwProofs.C12
open Aw Aw.Store Aw.Query

variable {D : Type}

/-! ## 1. who receives the datastore -/

/-- on the generated registry the datastore is passed to `find_bucket`, `query_bucket` and
    `query_bucket_eventcount` only -/
theorem only_three_builtins_take_the_datastore :
    ∀ e ∈ Registry.registry, e.takesDs = true →
      e.name = nameFindBucket ∨ e.name = nameQueryBucket ∨ e.name = nameQueryBucketEventcount := by
  decide

/-- … and these three are registered, with the parameter lists `dsApply` models -/
theorem datastore_builtins_registered :
    (∃ e, lookupEntry Registry.registry nameFindBucket = some e ∧ e.takesDs = true ∧ e.takesNs = false) ∧
    (∃ e, lookupEntry Registry.registry nameQueryBucket = some e ∧ e.takesDs = true ∧ e.takesNs = true) ∧
    (∃ e, lookupEntry Registry.registry nameQueryBucketEventcount = some e ∧ e.takesDs = true ∧
      e.takesNs = true) :=
  ⟨⟨_, lookup_findBucket, rfl, rfl⟩, ⟨_, lookup_queryBucket, rfl, rfl⟩,
   ⟨_, lookup_queryBucketEventcount, rfl, rfl⟩⟩

/-- an entry without the datastore flag is called with the namespace (if flagged) and the
    interpreted argument values only: that is the tuple `callEntry` typechecks and hands to the
    body, and the datastore token is not in it unless an argument value is that token -/
theorem others_receive_values_only (apply : Apply) (e : Entry) (h : e.takesDs = false)
    (args : List Val) :
    inject e args = (if e.takesNs then Val.ns :: args else args) ∧
    callEntry apply e args =
      (match (if e.typechecked then typecheck e.params (if e.takesNs then Val.ns :: args else args)
              else .ok ()) with
       | .error err => .error err
       | .ok () =>
         if e.accepts (if e.takesNs then Val.ns :: args else args).length
         then apply e.name (if e.takesNs then Val.ns :: args else args)
         else .error (.py .typeError)) ∧
    ((∀ a ∈ args, a ≠ Val.ds) → ∀ a ∈ inject e args, a ≠ Val.ds) := by
  have hi := inject_noDs e h args
  refine ⟨hi, ?_, ?_⟩
  · unfold callEntry; rw [hi]; rfl
  · intro ha a hm
    rw [hi] at hm
    cases hns : e.takesNs <;> simp only [hns, if_true, if_false, Bool.false_eq_true] at hm
    · exact ha a hm
    · rcases List.mem_cons.mp hm with rfl | hm
      · intro hc; cases hc
      · exact ha a hm

/-- on the generated registry no other builtin takes the namespace either: each receives exactly
    its interpreted arguments -/
theorem others_receive_exactly_their_arguments :
    ∀ e ∈ Registry.registry, e.takesDs = false → ∀ args : List Val, inject e args = args := by
  have h : ∀ e ∈ Registry.registry, e.takesDs = false → e.takesNs = false := by decide
  intro e he hd args
  rw [inject_noDs e hd, h e he hd]
  rfl

/-! ## 2. a query is a function of the reads -/

/-- if two stores answer alike to the listing, to `get_events(b, -1, rounded window)`, to
    `get_eventcount(b, window)` and to `get_metadata(b)["hostname"]` for every listed bucket `b`,
    every query gives the same result (value or error) on both — for every registry, every
    semantics `other` of the remaining builtins, every environment and every query text.
    (`runQuery … : Except Err Val`: no store in the result.) -/
theorem query_is_a_function_of_reads (r r' : Reads D) (S E : Int) (h : ReadsAgree r r' S E)
    (reg : List Entry) (enc : Enc D) (other : Apply) (env : Ns) (text : Str) :
    runQuery reg (dsApply r enc S E other) env text =
      runQuery reg (dsApply r' enc S E other) env text := by
  rw [dsApply_congr h]

/-- the same for extensionally equal read interfaces -/
theorem query_is_a_function_of_reads_ext (r r' : Reads D) (hb : r.buckets = r'.buckets)
    (hg : ∀ b l st en, r.get b l st en = r'.get b l st en)
    (hc : ∀ b st en, r.count b st en = r'.count b st en)
    (hh : ∀ b, r.hostname b = r'.hostname b)
    (S E : Int) (reg : List Entry) (enc : Enc D) (other : Apply) (env : Ns) (text : Str) :
    runQuery reg (dsApply r enc S E other) env text =
      runQuery reg (dsApply r' enc S E other) env text :=
  query_is_a_function_of_reads r r' S E (ReadsAgree.of_ext S E hb hg hc hh) reg enc other env text

/-! ## 3. window scoping -/

/-- inside a query (generated registry), `query_bucket(t)` with `t` evaluating to the string `b`
    yields the events `queryBucket` returns, leaves the namespace as the argument left it, and
    fails with the builtin's error otherwise -/
theorem query_bucket_in_query (r : Reads D) (enc : Enc D) (S E : Int) (other : Apply) (t : Tok)
    (ns ns' : Ns) (b : Str)
    (ht : interp Registry.registry (dsApply r enc S E other) t ns = .ok (.str b, ns')) :
    interp Registry.registry (dsApply r enc S E other) (.call nameQueryBucket [t]) ns =
      (catchTypeError (match queryBucket r (String.ofList b) S E with
        | .ok es => .ok (.list (es.map enc.ev))
        | .error e => .error (enc.err e))).map (fun v => (v, ns')) :=
  interp_queryBucket r enc S E other t ns ns' b ht

/-- … and `query_bucket_eventcount(t)` the number `queryBucketEventcount` returns -/
theorem query_bucket_eventcount_in_query (r : Reads D) (enc : Enc D) (S E : Int) (other : Apply)
    (t : Tok) (ns ns' : Ns) (b : Str)
    (ht : interp Registry.registry (dsApply r enc S E other) t ns = .ok (.str b, ns')) :
    interp Registry.registry (dsApply r enc S E other) (.call nameQueryBucketEventcount [t]) ns =
      (catchTypeError (match queryBucketEventcount r (String.ofList b) S E with
        | .ok n => .ok (.int n)
        | .error e => .error (enc.err e))).map (fun v => (v, ns')) :=
  interp_queryBucketEventcount r enc S E other t ns ns' b ht

/-- `find_bucket(t)` yields a listed bucket id containing the filter string (with the requested
    hostname, if one is given) -/
theorem find_bucket_returns_listed (r : Reads D) (f : String) (host : Option String) (b : String)
    (h : findBucket r f host = .ok b) :
    b ∈ r.buckets ∧ isInfixB f.toList b.toList = true ∧
      (∀ h, truthyHost host = some h → r.hostname b = some h) :=
  findBucket_ok r f host b h

/-- the rounding of `AwModel/Query/Builtins.lean` is C03's `roundWin` -/
theorem window_is_bucket_get_rounding (st en : Option Int) :
    Aw.Query.roundWin st en = Aw.Store.roundWin st en := rfl

/-! ### sqlite -/

/-- "listed by `buckets()`" is "the bucket exists" -/
theorem listed_iff_exists_sqlite (s : Sqlite.St D) (b : String) :
    b ∈ (Reads.ofSqlite s).buckets ↔ (Sqlite.view s b).isSome = true := listed_sqlite s b

/-- `query_bucket(b)` = `Bucket.get(starttime=S, endtime=E)`: the backend read, unlimited, on the
    rounded window; `QueryFunctionException` for a bucket that does not exist -/
theorem query_bucket_is_windowed_get_sqlite (s : Sqlite.St D) (b : String) (S E : Int) :
    queryBucket (Reads.ofSqlite s) b S E =
      if (Sqlite.view s b).isSome then
        .ok (Sqlite.getEvents s b (-1) (Store.roundWin (some S) (some E)).1 (Store.roundWin (some S) (some E)).2)
      else .error (.func (noBucketMsg b)) := queryBucket_sqlite s b S E

/-- `query_bucket_eventcount(b)` = `get_eventcount(starttime=S, endtime=E)` (unrounded) -/
theorem query_bucket_eventcount_is_count_sqlite (s : Sqlite.St D) (b : String) (S E : Int) :
    queryBucketEventcount (Reads.ofSqlite s) b S E =
      if (Sqlite.view s b).isSome then .ok (Sqlite.getEventcount s b (some S) (some E))
      else .error (.func (noBucketMsg b)) := queryBucketEventcount_sqlite s b S E

/-- every event returned is a stored event of that bucket reaching into the rounded window, hence
    to within 1 ms into the requested one -/
theorem query_bucket_sound_sqlite (s : Sqlite.St D) (b : String) (S E : Int) (r : List (Ev D))
    (hr : queryBucket (Reads.ofSqlite s) b S E = .ok r) (x : Ev D) (hx : x ∈ r) :
    ∃ m es, Sqlite.view s b = some (m, es) ∧ x ∈ es ∧
      inWindow (Store.roundWin (some S) (some E)).1 (Store.roundWin (some S) (some E)).2 x = true ∧
      S - 1000 < x.ts + x.dur ∧ x.ts ≤ E + 1000 :=
  queryBucket_sound_sqlite s b S E r hr x hx

/-- every stored event reaching into the requested window is returned -/
theorem query_bucket_complete_sqlite (s : Sqlite.St D) (b : String) (S E : Int) (m : Meta)
    (es : List (Ev D)) (hv : Sqlite.view s b = some (m, es)) (e : Ev D) (he : e ∈ es)
    (hw : inWindow (some S) (some E) e = true) :
    ∃ r, queryBucket (Reads.ofSqlite s) b S E = .ok r ∧ e ∈ r :=
  queryBucket_complete_sqlite s b S E m es hv e he hw

/-- the count is the length of the direct read of the requested window and never exceeds the
    number of events `query_bucket` returns -/
theorem eventcount_matches_sqlite (s : Sqlite.St D) (b : String) (S E : Int) (n : Nat)
    (hn : queryBucketEventcount (Reads.ofSqlite s) b S E = .ok n) :
    n = (Sqlite.getEvents s b (-1) (some S) (some E)).length ∧
    ∃ r, queryBucket (Reads.ofSqlite s) b S E = .ok r ∧ n ≤ r.length :=
  queryBucketEventcount_matches_sqlite s b S E n hn

/-! ### memory -/

theorem listed_iff_exists_memory (s : Memory.St D) (b : String) :
    b ∈ (Reads.ofMemory s).buckets ↔ (Memory.view s b).isSome = true := listed_memory s b

theorem query_bucket_is_windowed_get_memory (s : Memory.St D) (b : String) (S E : Int) :
    queryBucket (Reads.ofMemory s) b S E =
      if (Memory.view s b).isSome then
        BErr.lift (Memory.getEvents s b (-1) (Store.roundWin (some S) (some E)).1 (Store.roundWin (some S) (some E)).2)
      else .error (.func (noBucketMsg b)) := queryBucket_memory s b S E

theorem query_bucket_eventcount_is_count_memory (s : Memory.St D) (b : String) (S E : Int) :
    queryBucketEventcount (Reads.ofMemory s) b S E =
      if (Memory.view s b).isSome then BErr.lift (Memory.getEventcount s b (some S) (some E))
      else .error (.func (noBucketMsg b)) := queryBucketEventcount_memory s b S E

/-- on an existing bucket neither builtin raises -/
theorem query_bucket_total_memory (s : Memory.St D) (b : String) (S E : Int)
    (h : (Memory.view s b).isSome = true) :
    (∃ r, queryBucket (Reads.ofMemory s) b S E = .ok r) ∧
    (∃ n, queryBucketEventcount (Reads.ofMemory s) b S E = .ok n) :=
  queryBucket_total_memory s b S E h

theorem query_bucket_sound_memory (s : Memory.St D) (b : String) (S E : Int) (r : List (Ev D))
    (hr : queryBucket (Reads.ofMemory s) b S E = .ok r) (x : Ev D) (hx : x ∈ r) :
    ∃ m es, Memory.view s b = some (m, es) ∧ x ∈ es ∧
      inWindow (Store.roundWin (some S) (some E)).1 (Store.roundWin (some S) (some E)).2 x = true ∧
      S - 1000 < x.ts + x.dur ∧ x.ts ≤ E + 1000 :=
  queryBucket_sound_memory s b S E r hr x hx

theorem query_bucket_complete_memory (s : Memory.St D) (b : String) (S E : Int) (m : Meta)
    (es : List (Ev D)) (hv : Memory.view s b = some (m, es)) (e : Ev D) (he : e ∈ es)
    (hw : inWindow (some S) (some E) e = true) :
    ∃ r, queryBucket (Reads.ofMemory s) b S E = .ok r ∧ e ∈ r :=
  queryBucket_complete_memory s b S E m es hv e he hw

theorem eventcount_matches_memory (s : Memory.St D) (b : String) (S E : Int) (n : Nat)
    (hn : queryBucketEventcount (Reads.ofMemory s) b S E = .ok n) :
    (∃ r0, Memory.getEvents s b (-1) (some S) (some E) = .ok r0 ∧ n = r0.length) ∧
    ∃ r, queryBucket (Reads.ofMemory s) b S E = .ok r ∧ n ≤ r.length :=
  queryBucketEventcount_matches_memory s b S E n hn

/-! ### peewee (`dec` is the row decoder: identity, or the duration codec of C01) -/

theorem listed_iff_exists_peewee (s : Peewee.St D) (dec : Ev D → Ev D) (b : String) :
    b ∈ (Reads.ofPeewee s dec).buckets ↔ (Peewee.view s b).isSome = true := listed_peewee s dec b

theorem query_bucket_is_windowed_get_peewee (s : Peewee.St D) (dec : Ev D → Ev D) (b : String)
    (S E : Int) :
    queryBucket (Reads.ofPeewee s dec) b S E =
      if (Peewee.view s b).isSome then
        BErr.lift (Peewee.getEvents s b (-1) (Store.roundWin (some S) (some E)).1
          (Store.roundWin (some S) (some E)).2 dec)
      else .error (.func (noBucketMsg b)) := queryBucket_peewee s dec b S E

theorem query_bucket_eventcount_is_count_peewee (s : Peewee.St D) (dec : Ev D → Ev D) (b : String)
    (S E : Int) :
    queryBucketEventcount (Reads.ofPeewee s dec) b S E =
      if (Peewee.view s b).isSome then BErr.lift (Peewee.getEventcount s b (some S) (some E))
      else .error (.func (noBucketMsg b)) := queryBucketEventcount_peewee s dec b S E

/-- with a coherent key cache neither builtin raises on an existing bucket -/
theorem query_bucket_total_peewee (s : Peewee.St D) (hc : Peewee.CacheOk s) (dec : Ev D → Ev D)
    (b : String) (S E : Int) (h : (Peewee.view s b).isSome = true) :
    (∃ r, queryBucket (Reads.ofPeewee s dec) b S E = .ok r) ∧
    (∃ n, queryBucketEventcount (Reads.ofPeewee s dec) b S E = .ok n) :=
  queryBucket_total_peewee s hc dec b S E h

/-- every event returned is a stored event reaching into the rounded window, cut to it -/
theorem query_bucket_sound_peewee (s : Peewee.St D) (hc : Peewee.CacheOk s) (dec : Ev D → Ev D)
    (b : String) (S E : Int) (r : List (Ev D))
    (hr : queryBucket (Reads.ofPeewee s dec) b S E = .ok r) (x : Ev D) (hx : x ∈ r) :
    ∃ m es e, Peewee.view s b = some (m, es) ∧ e ∈ es ∧
      x = Peewee.clip (Store.roundWin (some S) (some E)).1 (Store.roundWin (some S) (some E)).2 (dec e) ∧
      inWindow (Store.roundWin (some S) (some E)).1 (Store.roundWin (some S) (some E)).2 e = true ∧
      S - 1000 < e.ts + e.dur ∧ e.ts ≤ E + 1000 :=
  queryBucket_sound_peewee s hc dec b S E r hr x hx

/-- every stored event up to 24 h long reaching into the requested window is returned (clipped) -/
theorem query_bucket_complete_peewee (s : Peewee.St D) (hc : Peewee.CacheOk s) (dec : Ev D → Ev D)
    (b : String) (S E : Int) (m : Meta) (es : List (Ev D)) (hv : Peewee.view s b = some (m, es))
    (e : Ev D) (he : e ∈ es) (hw : inWindow (some S) (some E) e = true) (hd : e.dur ≤ 86400000000) :
    ∃ r, queryBucket (Reads.ofPeewee s dec) b S E = .ok r ∧
      Peewee.clip (Store.roundWin (some S) (some E)).1 (Store.roundWin (some S) (some E)).2 (dec e) ∈ r :=
  queryBucket_complete_peewee s hc dec b S E m es hv e he hw hd

theorem eventcount_matches_peewee (s : Peewee.St D) (dec : Ev D → Ev D) (b : String)
    (S E : Int) (n : Nat) (hn : queryBucketEventcount (Reads.ofPeewee s dec) b S E = .ok n) :
    (∃ r0, Peewee.getEvents s b (-1) (some S) (some E) dec = .ok r0 ∧ n = r0.length) ∧
    ∃ r, queryBucket (Reads.ofPeewee s dec) b S E = .ok r ∧ n ≤ r.length :=
  queryBucketEventcount_matches_peewee s dec b S E n hn

/-! ## 4. objects: the memory backend's heap -/

open Heap in
/-- a read API call (`get_events`, `get_event`, `get_metadata`, `buckets`; any arguments) changes
    nothing reads can return, keeps the separation invariant and leads to a reachable state -/
theorem read_api_only_reads {s : State} (h : Reachable s) (a : ReadApi) :
    observe (api s a.toApi).1 = observe s ∧ Sep (api s a.toApi).1 ∧ Reachable (api s a.toApi).1 :=
  ⟨read_observe (reachable_sep h) a, read_sep (reachable_sep h) a, Reachable.step (.api a.toApi) h⟩

open Heap in
/-- what the reads hand out are fresh copies: every event object `get_events` returns was allocated
    by that call (`s.next ≤ r`: it did not exist before), is held by the client afterwards (so the
    query's transforms may mutate it: the mutations of `queries_only_read_heap` include these), and
    is not reachable from the store; likewise the object `get_event` returns -/
theorem reads_hand_out_fresh_copies {s : State} (h : Reachable s) :
    (∀ b limit st en rs, (api s (.getEvents b limit st en)).2 = .refs rs → ∀ r ∈ rs,
      s.next ≤ r ∧ (api s (.getEvents b limit st en)).1.client r = true ∧
      ¬ storeReach (api s (.getEvents b limit st en)).1 r) ∧
    (∀ b eid r, (api s (.getEvent b eid)).2 = .optRef (some r) →
      s.next ≤ r ∧ (api s (.getEvent b eid)).1.client r = true ∧
      ¬ storeReach (api s (.getEvent b eid)).1 r) := by
  refine ⟨fun b limit st en rs hr r hm => ?_, fun b eid r hr => ?_⟩
  · obtain ⟨h1, h2⟩ := getEvents_fresh s b limit st en rs hr r hm
    exact ⟨h1, h2, held_not_storeReach (getEvents_sep (reachable_sep h) b limit st en) h2⟩
  · obtain ⟨h1, h2⟩ := getEvent_fresh s b eid r hr
    exact ⟨h1, h2, held_not_storeReach (getEvent_sep (reachable_sep h) b eid) h2⟩

open Heap in
/-- queries only read (heap level): from every reachable state, every sequence of read API calls
    and client mutations (set id / timestamp / duration, mutate or replace the data dict at any
    depth, overwrite metadata entries, create objects — each on objects the client holds at that
    point, which includes everything the reads have handed out so far) leaves everything reads can
    return exactly as it was. `qrun` uses the trace semantics of C01 (`Heap.step`): a mutation of
    an object the client does not hold is not a step it can take. -/
theorem queries_only_read_heap {s : State} (h : Reachable s) (steps : List QStep) :
    observe (qrun s steps) = observe s :=
  qrun_observe steps (reachable_sep h)

open Heap in
/-- the same with the side condition explicit: when every mutation acts on refs the client holds at
    that point (`HeldAlong`), applying the mutations as they are changes nothing reads return -/
theorem queries_only_read_heap_held {s : State} (h : Reachable s) (steps : List QStep)
    (hh : HeldAlong s steps) : observe (qrunRaw s steps) = observe s := by
  rw [qrunRaw_eq_qrun steps s hh]
  exact qrun_observe steps (reachable_sep h)

open Heap in
/-- query steps lead to reachable, separated states (so the statement applies again after them) -/
theorem query_steps_stay_reachable {s : State} (h : Reachable s) (steps : List QStep) :
    Reachable (qrun s steps) ∧ Sep (qrun s steps) :=
  ⟨qrun_reachable steps h, qrun_sep steps (reachable_sep h)⟩

open Heap in
/-- hence every read interface built from the observation is the same before, during and after the
    query: later `query_bucket` calls of the same query see the same data -/
theorem reads_stable_during_query {s : State} (h : Reachable s) (steps : List QStep) :
    Reads.ofMemory (observe (qrun s steps)) = Reads.ofMemory (observe s) := by
  rw [queries_only_read_heap h steps]

/-! ## the hypotheses are satisfiable (non-vacuity) -/

/-- memory: two events, the window [6 ms, 20 ms] reaches the second only; the count agrees; a
    missing bucket is a function error -/
example :
    let s : Memory.St Nat := [("b", (default, [⟨some 0, 0, 5000, 1⟩, ⟨some 1, 10000, 1000, 2⟩]))]
    queryBucket (Reads.ofMemory s) "b" 6000 20000 = .ok [⟨some 1, 10000, 1000, 2⟩] ∧
    queryBucketEventcount (Reads.ofMemory s) "b" 6000 20000 = .ok 1 ∧
    queryBucket (Reads.ofMemory s) "c" 6000 20000 = .error (.func (noBucketMsg "c")) ∧
    findBucket (Reads.ofMemory s) "b" none = .ok "b" := by
  intro s
  exact ⟨rfl, rfl, rfl, rfl⟩

/-- sqlite: two buckets sharing the event table -/
example :
    let s : Sqlite.St Nat :=
      { buckets := [⟨1, "a", default⟩, ⟨2, "b", default⟩],
        events := [⟨1, 1, 0, 5000, 7⟩, ⟨2, 2, 10000, 11000, 8⟩, ⟨3, 1, 12000, 13000, 9⟩],
        seqB := 2, seqE := 3 }
    queryBucket (Reads.ofSqlite s) "a" 6000 20000 = .ok [⟨some 3, 12000, 1000, 9⟩] ∧
    queryBucketEventcount (Reads.ofSqlite s) "a" 6000 20000 = .ok 1 ∧
    queryBucket (Reads.ofSqlite s) "zz" 6000 20000 = .error (.func (noBucketMsg "zz")) := by
  intro s
  exact ⟨rfl, rfl, rfl⟩

/-- peewee: the event overlapping the window start comes back clipped to the rounded window -/
example :
    let s : Peewee.St Nat :=
      { buckets := [⟨1, "a", default⟩], events := [⟨1, 1, 0, 7000, 7⟩, ⟨2, 1, 30000, 1000, 8⟩],
        keys := [("a", 1)] }
    Peewee.CacheOk s ∧
    queryBucket (Reads.ofPeewee s) "a" 6500 20000 = .ok [⟨some 1, 6000, 1000, 7⟩] ∧
    queryBucketEventcount (Reads.ofPeewee s) "a" 6500 20000 = .ok 1 := by
  exact ⟨Peewee.cacheOk_of_keys _ rfl, rfl, rfl⟩

/-- `ReadsAgree` between different states: a store whose only event lies outside the query window
    answers the query's reads like a store with an empty bucket — every query over that window
    gives the same result on both -/
example : ReadsAgree (Reads.ofMemory ([("b", (default, [⟨some 0, 5000000, 1000, 1⟩]))] : Memory.St Nat))
    (Reads.ofMemory ([("b", (default, []))] : Memory.St Nat)) 0 1000 := by
  refine ⟨rfl, fun b hb => ?_, fun b hb => ?_, fun b hb => ?_⟩ <;>
  · have : b = "b" := by simpa [Reads.ofMemory, Memory.bucketsOf] using hb
    subst this; rfl

/-- inside a query on the generated registry: `query_bucket("b")` over the window [6 ms, 20 ms]
    evaluates to the list of the one intersecting event, the namespace is untouched -/
example (enc : Enc Nat) (other : Apply) (ns : Ns) :
    let s : Memory.St Nat := [("b", (default, [⟨some 0, 0, 5000, 1⟩, ⟨some 1, 10000, 1000, 2⟩]))]
    interp Registry.registry (dsApply (Reads.ofMemory s) enc 6000 20000 other)
      (.call nameQueryBucket [.str ['b']]) ns = .ok (.list [enc.ev ⟨some 1, 10000, 1000, 2⟩], ns) := by
  intro s
  rw [query_bucket_in_query _ enc 6000 20000 other (.str ['b']) ns ns ['b'] (by rw [interp])]
  rfl

open Heap in
/-- heap: a reachable state with one stored event; the query reads the bucket (the copy handed out
    is event 8 with data dict 7), then re-times, annotates and clears the copy, reads again and
    fetches the metadata: all mutations are ones the client can take, the copy did change, the
    store's view did not -/
example :
    let tr : List Step := [.api (.createBucket "b" ⟨none, "t", "c", "h", "2020", "{}"⟩ none),
      .mutation (.newEvent none 5 1 "{\"a\":1}"), .api (.insertOne "b" 3)]
    let s := tr.foldl step {}
    let q : List QStep := [.read (.getEvents "b" (-1) (some 0) (some 10000)),
      .mutation (.setTs 8 99), .mutation (.setDict 7 "{\"$category\":[\"x\"]}"),
      .mutation (.setDur 8 0), .read (.getEvents "b" (-1) (some 0) (some 10000)),
      .read (.getMetadata "b"), .mutation (.setDict 7 "{}")]
    Reachable s ∧ HeldAlong s q ∧ (evVal (qrun s q) 8).ts = 99 ∧
    (observe s).map (fun p => p.2.2) = [[⟨some 0, 5, 1, "{\"a\":1}"⟩]] ∧
    observe (qrunRaw s q) = observe s := by
  intro tr s q
  have hr : Reachable s :=
    .step (.api (.insertOne "b" 3)) (.step (.mutation (.newEvent none 5 1 "{\"a\":1}"))
      (.step (.api (.createBucket "b" ⟨none, "t", "c", "h", "2020", "{}"⟩ none)) .init))
  have hq : HeldAlong s q := by decide
  exact ⟨hr, hq, by decide, by decide, queries_only_read_heap_held hr q hq⟩

end AwProofs.C12
