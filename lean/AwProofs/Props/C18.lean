import AwProofs.Lemmas.Commit
/-!
# C18 — buffered writes are flushed once they are about ten seconds old

Property theorems only, on the commit machine `Aw.Store.Commit` with the age test as repaired
(F1: `now - last_commit > 10 s`, i.e. 10000000 µs). Definitions (in `AwProofs/Lemmas/Commit.lean`):
`COp`, `cstep`, `crun`, `cok`, `curHist`, `lastD`, `Init` as in C06; `Mono t ops` says that the clock
readings of `ops` never go back, starting from `t`.

The age rule holds on both stores (the auto-committing one commits anyway), so `age_flush` does
not need `lazy = true`; the hypothesis is only used where the count bound is.
-/
namespace AwProofs.C18
open Aw Aw.Store Aw.Store.Commit AwProofs.CommitL
variable {D : Type}

/-- An event write issued more than ten seconds after the previous flush is itself made durable
    before it returns: in ANY state, after `insert_one` (that returns), `replace`, `replace_last`
    or `delete` at a clock reading more than 10 s after `last`, the reopened database equals the
    connection state — the write itself included —, nothing is pending and `last` is that reading. -/
theorem age_flush (c : CSt D) (op : COp D) (hs : op.isSingleEventWrite = true)
    (hok : cok c op = true) (ha : op.now - c.last > 10000000) :
    (cstep c op).dur = (cstep c op).cur ∧ (cstep c op).pend = [] ∧ (cstep c op).last = op.now := by
  rcases single_form c op hs with ⟨_, s, _, e⟩ | ⟨e, _⟩
  · rw [e]; exact condCommit_age' (Commit.wrote c s op.now) 1 op.now ha
  · rw [e] at hok; cases hok

/-- … and the connection state then contains the write: it is the one elementary write of the
    operation applied to the previous connection state. -/
theorem age_flush_includes_write (c : CSt D) (op : COp D) (hs : op.isSingleEventWrite = true)
    (hok : cok c op = true) (ha : op.now - c.last > 10000000) :
    ∃ s, elems c.cur op = [s] ∧ (cstep c op).dur = s := by
  rcases single_form c op hs with ⟨_, s, hs', e⟩ | ⟨e, _⟩
  · refine ⟨s, hs', ?_⟩
    rw [e, (condCommit_age (Commit.wrote c s op.now) 1 op.now ha).1]; rfl
  · rw [e] at hok; cases hok

/-- `insert_many` whose list has an upsert, first one `e`: it is that upsert followed by
    `insert_many` of the rest, and if it is issued more than 10 s after the previous flush then
    right after this first upsert everything up to it is durable. -/
theorem age_flush_insertMany_upsert (c : CSt D) (now : Int) (b : String) (es : List (Ev D))
    (e : Ev D) (rest : List (Ev D)) (h : es.filter (fun e => e.id.isSome) = e :: rest)
    (ha : now - c.last > 10000000) :
    Commit.insertMany c now b es =
      Commit.insertMany (Commit.replace c now b (e.id.getD 0) e) now b
        (rest ++ es.filter (fun e => e.id.isNone)) ∧
    (Commit.replace c now b (e.id.getD 0) e).cur = Sqlite.replace c.cur b (e.id.getD 0) e ∧
    (Commit.replace c now b (e.id.getD 0) e).dur = (Commit.replace c now b (e.id.getD 0) e).cur ∧
    (Commit.replace c now b (e.id.getD 0) e).pend = [] ∧
    (Commit.replace c now b (e.id.getD 0) e).last = now := by
  refine ⟨insertMany_first_upsert c now b es e rest h, ?_, ?_⟩
  · exact (condCommit_cases _ 1 now).1
  · exact condCommit_age' (Commit.wrote c _ now) 1 now ha

/-- `insert_many` with only new rows, issued more than 10 s after the previous flush and
    returning normally: after the operation everything is durable. -/
theorem age_flush_insertMany_rows (c : CSt D) (now : Int) (b : String) (es : List (Ev D))
    (h : es.filter (fun e => e.id.isSome) = [])
    (hok : cok c (.insertMany now b es) = true) (ha : now - c.last > 10000000) :
    (cstep c (.insertMany now b es)).dur = (cstep c (.insertMany now b es)).cur ∧
    (cstep c (.insertMany now b es)).pend = [] ∧ (cstep c (.insertMany now b es)).last = now := by
  simp only [cstep]
  rw [insertMany_ok _ _ _ _ hok]
  apply condCommit_age'
  rw [insertManyMid, (insertRows_fields _ now b _).2.1, h]
  exact ha

/-- Under a clock that never goes back, after any history every pending write was issued at or
    after the last commit and at most 10 s after it (and not after the last clock reading). -/
theorem pending_young (c0 : CSt D) (h0 : Init c0) (ops : List (COp D)) (hm : Mono c0.last ops) :
    ∀ t ∈ (crun c0 ops).pend,
      (crun c0 ops).last ≤ t ∧ t - (crun c0 ops).last ≤ 10000000 ∧ t ≤ lastNow c0.last ops := by
  intro t ht
  have := (h0.young.run ops hm).2 t ht
  omega

/-- The data at risk in a crash is bounded in count and in age: on the lazy store under a clock
    that never goes back, after any history the reopened database holds the state after a prefix
    of the elementary writes; the lost tail consists of exactly `pend.length ≤ 50` elementary
    writes, each issued within the 10 s that followed the last commit. -/
theorem at_risk_bounded (c0 : CSt D) (h0 : Init c0) (hl : c0.lazy = true) (ops : List (COp D))
    (hm : Mono c0.last ops) :
    ∃ pre post, curHist c0 ops = pre ++ post ∧ (crun c0 ops).dur = lastD c0.cur pre ∧
      post.length = (crun c0 ops).pend.length ∧ post.length ≤ 50 ∧
      ∀ t ∈ (crun c0 ops).pend, (crun c0 ops).last ≤ t ∧ t - (crun c0 ops).last ≤ 10000000 := by
  obtain ⟨pre, post, e, hd, hlen⟩ := (pre_run c0 h0.1 h0.2.1 ops).2
  have hb := (h0.bnd hl).run ops
  refine ⟨pre, post, e, hd, hlen, by rw [hlen]; exact Nat.le_trans hb.2.1 hb.2.2, ?_⟩
  intro t ht
  have := pending_young c0 h0 ops hm t ht
  exact ⟨this.1, this.2.1⟩

/-! ## non-vacuity -/

/-- commit by count: 50 inserts at the same instant stay pending, the 51st flushes all 51 -/
example :
    Init Ex.c0 ∧ Ex.c0.lazy = true ∧ Mono Ex.c0.last (List.replicate 51 (.insertOne 0 "b" (Ex.ev 1)) : List (COp Nat)) ∧
    (crun Ex.c0 (List.replicate 50 (.insertOne 0 "b" (Ex.ev 1)))).pend.length = 50 ∧
    (crun Ex.c0 (List.replicate 50 (.insertOne 0 "b" (Ex.ev 1)))).dur.events.length = 0 ∧
    (crun Ex.c0 (List.replicate 51 (.insertOne 0 "b" (Ex.ev 1)))).pend.length = 0 ∧
    (crun Ex.c0 (List.replicate 51 (.insertOne 0 "b" (Ex.ev 1)))).dur.events.length = 51 := by
  refine ⟨Ex.init_c0, rfl, ?_, ?_, ?_, ?_, ?_⟩
  · simp [List.replicate, Mono, COp.now, Ex.c0]
  all_goals (set_option maxRecDepth 100000 in decide)

/-- commit by age: a write 10.000001 s after the last commit flushes (itself included) -/
example :
    let ops : List (COp Nat) := [.insertOne 5 "b" (Ex.ev 1), .insertOne 10000001 "b" (Ex.ev 2)]
    Mono Ex.c0.last ops ∧ (COp.insertOne 10000001 "b" (Ex.ev 2) : COp Nat).isSingleEventWrite = true ∧
    cok (crun Ex.c0 [.insertOne 5 "b" (Ex.ev 1)]) (.insertOne 10000001 "b" (Ex.ev 2)) = true ∧
    (10000001 : Int) - (crun Ex.c0 [.insertOne 5 "b" (Ex.ev 1)]).last > 10000000 ∧
    (crun Ex.c0 [.insertOne 5 "b" (Ex.ev 1)]).pend = [5] ∧
    (crun Ex.c0 ops).pend = [] ∧ (crun Ex.c0 ops).dur.events.length = 2 ∧ (crun Ex.c0 ops).last = 10000001 := by
  refine ⟨?_, ?_, ?_, ?_, ?_, ?_, ?_, ?_⟩ <;> decide

/-- exactly 10 s: no commit, both writes stay pending (and are within the age bound) -/
example :
    let ops : List (COp Nat) := [.insertOne 5 "b" (Ex.ev 1), .insertOne 10000000 "b" (Ex.ev 2)]
    Mono Ex.c0.last ops ∧ (crun Ex.c0 ops).pend = [10000000, 5] ∧ (crun Ex.c0 ops).dur.events.length = 0 ∧
    (crun Ex.c0 ops).cur.events.length = 2 ∧ (crun Ex.c0 ops).last = 0 := by
  refine ⟨?_, ?_, ?_, ?_, ?_⟩ <;> decide

/-- `insert_many` by age: with an upsert first, and with rows only -/
example :
    [Ex.evId 1 7, Ex.ev 2].filter (fun e => e.id.isSome) = [Ex.evId 1 7] ∧
    [Ex.ev 1, Ex.ev 2].filter (fun e => e.id.isSome) = [] ∧
    cok Ex.c0 (.insertMany 10000001 "b" [Ex.ev 1, Ex.ev 2]) = true ∧
    (10000001 : Int) - Ex.c0.last > 10000000 ∧
    (cstep Ex.c0 (.insertMany 10000001 "b" [Ex.ev 1, Ex.ev 2])).dur.events.length = 2 := by
  refine ⟨?_, ?_, ?_, ?_, ?_⟩ <;> decide

end AwProofs.C18
