import AwModel.Store.Commit
/-! # C18 — placeholder while the theorems are being written (no claims yet) -/
namespace AwProofs.C18
end AwProofs.C18
