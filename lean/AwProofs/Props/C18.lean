import AwProofs.Lemmas.Commit
/-!
# C18 — buffered writes are flushed once they are about ten seconds old

Property theorems only, on the commit machine `Aw.Store.Commit` with the age test as repaired
(F1: `now - last_commit > 10 s`, i.e. 10000000 µs). Definitions (in `AwProofs/Lemmas/Commit.lean`):
`COp`, `cstep`, `crun`, `cok`, `curHist`, `lastD`, `Init` as in C06; `Mono t ops` says that the clock
readings of `ops` never go back, starting from `t`.

The age rule holds on both stores (the auto-committing one commits anyway), so `age_flush` does
not need `lazy = true`; the hypothesis is only used where the count bound is.
-/
namespace AwProofs.C18
open Aw Aw.Store Aw.Store.Commit AwProofs.CommitL
variable {D : Type}

/-- An event write issued more than ten seconds after the previous flush is itself made durable
    before it returns: in ANY state, after `insert_one`, `insert_many` (any mixture of upserts and
    new rows, as repaired: F20), `replace`, `replace_last` or `delete` that returns, at a clock
    reading more than 10 s after `last`, the reopened database equals the connection state — the
    whole write included —, nothing is pending and `last` is that reading. -/
theorem age_flush (c : CSt D) (op : COp D) (hs : op.isEventWrite = true)
    (hok : cok c op = true) (ha : op.now - c.last > 10000000) :
    (cstep c op).dur = (cstep c op).cur ∧ (cstep c op).pend = [] ∧ (cstep c op).last = op.now := by
  obtain ⟨m, k, e, _, hm⟩ := evwrite_form' c op hs hok
  rw [e]
  exact condCommit_age' m k op.now (by rw [hm]; exact ha)

/-- … and the connection state then contains the write: for a single-event write it is the one
    elementary write of the operation applied to the previous connection state. -/
theorem age_flush_includes_write (c : CSt D) (op : COp D) (hs : op.isSingleEventWrite = true)
    (hok : cok c op = true) (ha : op.now - c.last > 10000000) :
    ∃ s, elems c.cur op = [s] ∧ (cstep c op).dur = s := by
  rcases single_form c op hs with ⟨_, s, hs', e⟩ | ⟨e, _⟩
  · refine ⟨s, hs', ?_⟩
    rw [e, (condCommit_age (Commit.wrote c s op.now) 1 op.now ha).1]; rfl
  · rw [e] at hok; cases hok

/-- … for `insert_many` it is the state after ALL its elementary writes (every upsert, every row):
    the durable state is the last state of the call's own write history. -/
theorem age_flush_insertMany_whole (c0 : CSt D) (h0 : Init c0) (ops : List (COp D))
    (now : Int) (b : String) (es : List (Ev D))
    (hok : cok (crun c0 ops) (.insertMany now b es) = true) (ha : now - (crun c0 ops).last > 10000000) :
    (cstep (crun c0 ops) (.insertMany now b es)).dur =
      lastD (crun c0 ops).cur (elems (crun c0 ops).cur (.insertMany now b es)) := by
  have p := pre_run c0 h0.1 h0.2.1 ops
  have q := p.step (.insertMany now b es)
  rw [(age_flush _ (.insertMany now b es) rfl hok ha).1, q.cur_eq, lastD_append, ← p.cur_eq]

/-- Under a clock that never goes back, after any history every pending write was issued at or
    after the last commit and at most 10 s after it (and not after the last clock reading). -/
theorem pending_young (c0 : CSt D) (h0 : Init c0) (ops : List (COp D)) (hm : Mono c0.last ops) :
    ∀ t ∈ (crun c0 ops).pend,
      (crun c0 ops).last ≤ t ∧ t - (crun c0 ops).last ≤ 10000000 ∧ t ≤ lastNow c0.last ops := by
  intro t ht
  have := (h0.young.run ops hm).2 t ht
  omega

/-- The data at risk in a crash is bounded in count and in age: on the lazy store under a clock
    that never goes back, after any history the reopened database holds the state after a prefix
    of the elementary writes; the lost tail consists of exactly `pend.length ≤ 50` elementary
    writes, each issued within the 10 s that followed the last commit. -/
theorem at_risk_bounded (c0 : CSt D) (h0 : Init c0) (hl : c0.lazy = true) (ops : List (COp D))
    (hm : Mono c0.last ops) :
    ∃ pre post, curHist c0 ops = pre ++ post ∧ (crun c0 ops).dur = lastD c0.cur pre ∧
      post.length = (crun c0 ops).pend.length ∧ post.length ≤ 50 ∧
      ∀ t ∈ (crun c0 ops).pend, (crun c0 ops).last ≤ t ∧ t - (crun c0 ops).last ≤ 10000000 := by
  obtain ⟨pre, post, e, hd, hlen⟩ := (pre_run c0 h0.1 h0.2.1 ops).2
  have hb := (h0.bnd hl).run ops
  refine ⟨pre, post, e, hd, hlen, by rw [hlen]; exact Nat.le_trans hb.2.1 hb.2.2, ?_⟩
  intro t ht
  have := pending_young c0 h0 ops hm t ht
  exact ⟨this.1, this.2.1⟩

/-! ## non-vacuity -/

/-- commit by count: 50 inserts at the same instant stay pending, the 51st flushes all 51 -/
example :
    Init Ex.c0 ∧ Ex.c0.lazy = true ∧ Mono Ex.c0.last (List.replicate 51 (.insertOne 0 "b" (Ex.ev 1)) : List (COp Nat)) ∧
    (crun Ex.c0 (List.replicate 50 (.insertOne 0 "b" (Ex.ev 1)))).pend.length = 50 ∧
    (crun Ex.c0 (List.replicate 50 (.insertOne 0 "b" (Ex.ev 1)))).dur.events.length = 0 ∧
    (crun Ex.c0 (List.replicate 51 (.insertOne 0 "b" (Ex.ev 1)))).pend.length = 0 ∧
    (crun Ex.c0 (List.replicate 51 (.insertOne 0 "b" (Ex.ev 1)))).dur.events.length = 51 := by
  refine ⟨Ex.init_c0, rfl, ?_, ?_, ?_, ?_, ?_⟩
  · simp [List.replicate, Mono, COp.now, Ex.c0]
  all_goals (set_option maxRecDepth 100000 in decide)

/-- commit by age: a write 10.000001 s after the last commit flushes (itself included) -/
example :
    let ops : List (COp Nat) := [.insertOne 5 "b" (Ex.ev 1), .insertOne 10000001 "b" (Ex.ev 2)]
    Mono Ex.c0.last ops ∧ (COp.insertOne 10000001 "b" (Ex.ev 2) : COp Nat).isSingleEventWrite = true ∧
    cok (crun Ex.c0 [.insertOne 5 "b" (Ex.ev 1)]) (.insertOne 10000001 "b" (Ex.ev 2)) = true ∧
    (10000001 : Int) - (crun Ex.c0 [.insertOne 5 "b" (Ex.ev 1)]).last > 10000000 ∧
    (crun Ex.c0 [.insertOne 5 "b" (Ex.ev 1)]).pend = [5] ∧
    (crun Ex.c0 ops).pend = [] ∧ (crun Ex.c0 ops).dur.events.length = 2 ∧ (crun Ex.c0 ops).last = 10000001 := by
  refine ⟨?_, ?_, ?_, ?_, ?_, ?_, ?_, ?_⟩ <;> decide

/-- exactly 10 s: no commit, both writes stay pending (and are within the age bound) -/
example :
    let ops : List (COp Nat) := [.insertOne 5 "b" (Ex.ev 1), .insertOne 10000000 "b" (Ex.ev 2)]
    Mono Ex.c0.last ops ∧ (crun Ex.c0 ops).pend = [10000000, 5] ∧ (crun Ex.c0 ops).dur.events.length = 0 ∧
    (crun Ex.c0 ops).cur.events.length = 2 ∧ (crun Ex.c0 ops).last = 0 := by
  refine ⟨?_, ?_, ?_, ?_, ?_⟩ <;> decide

/-- `insert_many` by age: two upserts and a new row issued 10.000001 s after the last commit are
    all durable when the call returns (before the repair F20 only the first upsert was) -/
example :
    let c := crun Ex.c0 [.insertOne 1 "b" (Ex.ev 1), .insertOne 2 "b" (Ex.ev 2), .read 3]
    let op : COp Nat := .insertMany 10000004 "b" [Ex.evId 1 7, Ex.ev 3, Ex.evId 2 8]
    op.isEventWrite = true ∧ cok c op = true ∧ op.now - c.last > 10000000 ∧
    (cstep c op).pend = [] ∧ (cstep c op).dur.events.length = 3 ∧
    (cstep c op).dur.events.map (·.data) = [7, 8, 3] := by
  refine ⟨?_, ?_, ?_, ?_, ?_, ?_⟩ <;> decide

end AwProofs.C18
