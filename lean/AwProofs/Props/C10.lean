import AwProofs.Lemmas.Flood
/-!
# C10 — flood closes exactly the short gaps and never loses or overlaps time

Property theorems only. `pt` is the microsecond value of `timedelta(seconds=pulsetime)`.
`flood` is the model of the whole function (deep copy — a value model —, stable sort by
timestamp, pair sweep with the mutated neighbour carried along, final filter), `floodSorted` is
the same without the sort.

**Input domain** (`Input l`, the quantifier of C10): events in ANY order, durations ≥ 0, pairwise
different timestamps, pairwise non-overlapping (`Apart`), and every timestamp a whole millisecond.
The last clause is not a restriction: `aw_core.models.Event` floors the timestamp to milliseconds
in its constructor and in the `timestamp` setter, so every `Event` object satisfies it.

**Finding on the pinned tree.** That same setter is what `flood` assigns through
(`e2.timestamp = e1.timestamp + e1.duration`, `e2.timestamp = e2_end`): when a duration has a
sub-millisecond part, the written timestamp is floored, the moved event starts up to 999 µs too
early and overlaps its neighbour, and a carried zero-length marker sits too early so that a gap
that is ≤ pulsetime can be measured as > pulsetime and stay open. Hence two of the three
statements hold only under the extra hypothesis `WholeMsDurations l` (all durations are multiples
of 1000 µs). They are proved under that hypothesis with the suffix `_partial`; the full statements
are the `def`s `OutNonoverlapPositive` and `CoverIff`, and both are refuted on the model by concrete
witnesses (`out_nonoverlap_positive_refuted`, `cover_iff_refuted`) which the harness replays on
the real code. `label_monotone`, `input_time_covered` and `out_positive` hold in full.

`input_preserved` ("the input is not modified") is true by construction in a value model: `flood`
is a function from lists to lists and cannot touch its argument. On the real code it is the
`deepcopy` in the first line that provides this; the harness oracle checks it on every run by
comparing the caller's list before and after the call, by value and by identity of its elements.
-/
namespace AwProofs.C10
open Aw Aw.Flood Aw.PySort
variable {D : Type} [DecidableEq D]
set_option linter.unusedSectionVars false

/-- the quantifier of C10: any order; durations ≥ 0; timestamps whole milliseconds (true of every
    `Event` object); pairwise different timestamps and no overlap -/
def Input (l : List (Ev D)) : Prop :=
  (∀ e ∈ l, 0 ≤ e.dur ∧ e.ts % 1000 = 0) ∧
  l.Pairwise (fun a b => a.ts ≠ b.ts ∧ (a.fin ≤ b.ts ∨ b.fin ≤ a.ts))

/-- the extra hypothesis of the `_partial` theorems -/
def WholeMsDurations (l : List (Ev D)) : Prop := ∀ e ∈ l, e.dur % 1000 = 0

/-- in time order, no two events overlap, every event has positive length -/
def NonoverlapPositive (o : List (Ev D)) : Prop :=
  o.Pairwise (fun a b => a.fin ≤ b.ts) ∧ ∀ e ∈ o, 0 < e.dur

/-! ## full statements (as propositions) -/

/-- C10, first part, full strength -/
def OutNonoverlapPositive (D : Type) [DecidableEq D] : Prop :=
  ∀ (pt : Int) (l : List (Ev D)), 0 ≤ pt → Input l → NonoverlapPositive (flood pt l)

/-- C10, second part, full strength: covered afterwards = covered before, plus exactly the gaps
    between timestamp neighbours that are at most the pulsetime (short gaps closed, long gaps
    intact, new time only inside short gaps) -/
def CoverIff (D : Type) [DecidableEq D] : Prop :=
  ∀ (pt : Int) (l : List (Ev D)), 0 ≤ pt → Input l →
    ∀ t, cov (flood pt l) t ↔ cov l t ∨ inShortGap pt l t

/-! ## sorted chains (what the pair sweep sees) -/

/-- For a sorted chain `c :: es` of non-overlapping, non-negative events on whole milliseconds
    (equal timestamps of a zero-length event and its successor allowed): the output is in time
    order, non-overlapping, and of positive lengths.
    PARTIAL: the chain hypothesis includes "durations are whole milliseconds". -/
theorem sorted_out_nonoverlap_positive_partial (pt : Int) (c : Ev D) (es : List (Ev D))
    (hc : 0 ≤ c.dur) (ac : Al c) (hch : Chain c es) :
    NonoverlapPositive (floodSorted pt (c :: es)) := by
  refine ⟨(sweep_pairwise pt es false c hc ac hch).filter _, ?_⟩
  intro e he
  simpa using (List.mem_filter.1 he).2

/-- covered time of the output of a sorted chain = input time ∪ gaps of length ≤ `pt` between
    consecutive events. PARTIAL: durations are whole milliseconds. -/
theorem sorted_cover_iff_partial (pt : Int) (hpt : 0 ≤ pt) (c : Ev D) (es : List (Ev D))
    (hc : 0 ≤ c.dur) (ac : Al c) (hch : Chain c es) (t : Int) :
    cov (floodSorted pt (c :: es)) t ↔ cov (c :: es) t ∨ shortGap pt c es t := by
  unfold floodSorted
  rw [cov_filter, sweep_cover pt hpt es false c hc ac hch t]
  simp only [cov, List.mem_cons, exists_eq_or_imp, or_assoc]

/-- every label still covers what it covered (sorted chain; durations arbitrary ≥ 0) -/
theorem sorted_label_monotone (pt : Int) (c : Ev D) (es : List (Ev D))
    (hc : 0 ≤ c.dur) (ac : c.ts % 1000 = 0) (hch : ChainP TsAl c es) (d : D) (t : Int)
    (h : covD d (c :: es) t) : covD d (floodSorted pt (c :: es)) t := by
  unfold floodSorted
  rw [covD_filter]
  exact sweep_label_weak pt es false c hc ac hch d t h

/-! ## inputs in any order -/

/-- what the stable sort hands to the sweep -/
theorem sort_chain (P : Ev D → Prop) (l : List (Ev D)) (hI : Input l) (hP : ∀ e ∈ l, P e)
    (c : Ev D) (es : List (Ev D)) (hs : sortBy (fun e => e.ts) l = c :: es) :
    0 ≤ c.dur ∧ c.ts % 1000 = 0 ∧ P c ∧ ChainP P c es ∧
      (c :: es).Pairwise (fun a b => a.ts < b.ts) := by
  have hperm := sortBy_perm (fun e : Ev D => e.ts) l
  have hsorted := sortBy_sorted (fun e : Ev D => e.ts) l
  rw [hs] at hperm hsorted
  have hap : (c :: es).Pairwise Apart :=
    (hperm.pairwise_iff (fun h => Apart.symm h)).2 hI.2
  have hmem : ∀ e ∈ c :: es, 0 ≤ e.dur ∧ P e := fun e he =>
    ⟨(hI.1 e (hperm.mem_iff.1 he)).1, hP e (hperm.mem_iff.1 he)⟩
  have hc := hperm.mem_iff.1 (List.mem_cons_self (a := c) (l := es))
  exact ⟨(hI.1 c hc).1, (hI.1 c hc).2, hP c hc, chainP_of_sorted P es c hsorted hap hmem,
    strict_of_sorted _ hsorted hap⟩

/-- `flood` returns non-overlapping, positive-length events in time order.
    PARTIAL: needs `WholeMsDurations l`; the full statement `OutNonoverlapPositive` is refuted
    below. -/
theorem out_nonoverlap_positive_partial (pt : Int) (l : List (Ev D)) (hI : Input l)
    (hms : WholeMsDurations l) : NonoverlapPositive (flood pt l) := by
  unfold flood
  cases hs : sortBy (fun e : Ev D => e.ts) l with
  | nil => exact ⟨List.Pairwise.nil, fun e he => by simp [floodSorted] at he⟩
  | cons c es =>
    obtain ⟨hc, _, ac, hch, _⟩ := sort_chain Al l hI (fun e he => ⟨(hI.1 e he).2, hms e he⟩) c es hs
    exact sorted_out_nonoverlap_positive_partial pt c es hc ac hch

/-- covered afterwards ↔ covered before ∨ inside a gap between timestamp neighbours of length
    ≤ pulsetime. PARTIAL: needs `WholeMsDurations l`; the full statement `CoverIff` is refuted
    below. -/
theorem cover_iff_partial (pt : Int) (hpt : 0 ≤ pt) (l : List (Ev D)) (hI : Input l)
    (hms : WholeMsDurations l) (t : Int) :
    cov (flood pt l) t ↔ cov l t ∨ inShortGap pt l t := by
  have hmem := mem_sortBy (fun e : Ev D => e.ts) l
  unfold flood
  cases hs : sortBy (fun e : Ev D => e.ts) l with
  | nil =>
    have : l = [] := by
      have := length_sortBy (fun e : Ev D => e.ts) l
      rw [hs] at this
      exact List.eq_nil_of_length_eq_zero this.symm
    subst this
    simp [floodSorted, cov, inShortGap, Neighbours]
  | cons c es =>
    rw [hs] at hmem
    obtain ⟨hc, _, ac, hch, hstrict⟩ :=
      sort_chain Al l hI (fun e he => ⟨(hI.1 e he).2, hms e he⟩) c es hs
    rw [sorted_cover_iff_partial pt hpt c es hc ac hch t, shortGap_iff pt es c t hstrict,
      cov_congr _ _ t hmem, inShortGap_congr pt _ _ t hmem]

/-- every data value still covers, in the output, all the time it covered in the input -/
theorem label_monotone (pt : Int) (l : List (Ev D)) (hI : Input l) (d : D) (t : Int)
    (h : covD d l t) : covD d (flood pt l) t := by
  have hmem := mem_sortBy (fun e : Ev D => e.ts) l
  unfold flood
  cases hs : sortBy (fun e : Ev D => e.ts) l with
  | nil =>
    rw [hs] at hmem
    obtain ⟨e, he, _⟩ := h
    exact absurd ((hmem e).2 he) (List.not_mem_nil)
  | cons c es =>
    rw [hs] at hmem
    obtain ⟨hc, ac, _, hch, _⟩ := sort_chain TsAl l hI (fun e he => (hI.1 e he).2) c es hs
    exact sorted_label_monotone pt c es hc ac hch d t ((covD_congr d _ _ t hmem).2 h)

/-- all time covered by the input is still covered -/
theorem input_time_covered (pt : Int) (l : List (Ev D)) (hI : Input l) (t : Int)
    (h : cov l t) : cov (flood pt l) t := by
  obtain ⟨e, he, h1, h2⟩ := h
  obtain ⟨x, hx, _, hx2⟩ := label_monotone pt l hI e.data t ⟨e, he, rfl, h1, h2⟩
  exact ⟨x, hx, hx2⟩

/-- every returned event has positive length (any input whatsoever) -/
theorem out_positive (pt : Int) (l : List (Ev D)) : ∀ e ∈ flood pt l, 0 < e.dur := by
  intro e he
  unfold flood at he
  cases hs : sortBy (fun e : Ev D => e.ts) l with
  | nil => rw [hs] at he; simp [floodSorted] at he
  | cons c es =>
    rw [hs] at he
    simpa using (List.mem_filter.1 he).2

/-- an input that is already in timestamp order is swept as it is -/
theorem flood_of_sorted (pt : Int) (l : List (Ev D))
    (h : l.Pairwise (fun a b => a.ts ≤ b.ts)) : flood pt l = floodSorted pt l := by
  unfold flood; rw [sortBy_of_sorted _ l h]

/-- Python's stable sort: events with equal timestamps reach the sweep in their input order -/
theorem sort_stable (l : List (Ev D)) (k : Int) :
    (sortBy (fun e => e.ts) l).filter (fun e => e.ts = k) = l.filter (fun e => e.ts = k) :=
  sortBy_stable _ k l

/-! ## the full statements fail when a duration has a sub-millisecond part -/

/-- witness: A [0, 1500 µs), B [2 ms, 5 ms), pulsetime 1 ms. B is the longer event, so it is
    extended backwards to A's end — and the setter floors 1500 µs to 1000 µs. -/
def overlapWitness : List (Ev Bool) := [⟨none, 0, 1500, true⟩, ⟨none, 2000, 3000, false⟩]

theorem overlapWitness_input : Input overlapWitness := by
  unfold Input overlapWitness Ev.fin; decide

theorem overlapWitness_out :
    flood 1000 overlapWitness = [⟨none, 0, 1500, true⟩, ⟨none, 1000, 4000, false⟩] := by decide

theorem out_nonoverlap_positive_refuted : ¬ OutNonoverlapPositive Bool := by
  intro h
  have := (h 1000 overlapWitness (by decide) overlapWitness_input).1
  rw [overlapWitness_out] at this
  revert this
  unfold Ev.fin
  decide

/-- witness: A [0, 2 ms), A [3 ms, 3.9 ms), B [5 ms, 6 ms), pulsetime 1.2 ms. The two A's merge,
    the zero-length marker left behind is written at floor(3.9 ms) = 3 ms, so the 1.1 ms gap to B
    is measured as 2 ms and stays open. -/
def gapWitness : List (Ev Bool) :=
  [⟨none, 0, 2000, true⟩, ⟨none, 3000, 900, true⟩, ⟨none, 5000, 1000, false⟩]

theorem gapWitness_input : Input gapWitness := by
  unfold Input gapWitness Ev.fin; decide

theorem gapWitness_out :
    flood 1200 gapWitness = [⟨none, 0, 3900, true⟩, ⟨none, 5000, 1000, false⟩] := by decide

theorem cover_iff_refuted : ¬ CoverIff Bool := by
  intro h
  have h1 := (h 1200 gapWitness (by decide) gapWitness_input 4000).2
  have h2 : inShortGap 1200 gapWitness 4000 := by
    refine ⟨⟨none, 3000, 900, true⟩, ⟨none, 5000, 1000, false⟩, ?_, ?_⟩
    · unfold Neighbours gapWitness; decide
    · unfold Ev.fin; decide
  have h3 := h1 (Or.inr h2)
  rw [gapWitness_out] at h3
  revert h3
  unfold cov Ev.fin
  decide

/-! ## the hypotheses are satisfiable on non-trivial inputs -/

/-- shuffled three-event chain on whole milliseconds: short gap closed by the longer neighbour,
    equal-data neighbours merged, long gap intact -/
example :
    Input (D := Nat) [⟨none, 9000, 1000, 7⟩, ⟨none, 0, 2000, 7⟩, ⟨none, 3000, 1000, 7⟩, ⟨none, 4000, 0, 8⟩] ∧
    WholeMsDurations (D := Nat) [⟨none, 9000, 1000, 7⟩, ⟨none, 0, 2000, 7⟩, ⟨none, 3000, 1000, 7⟩, ⟨none, 4000, 0, 8⟩] ∧
    flood (D := Nat) 1000 [⟨none, 9000, 1000, 7⟩, ⟨none, 0, 2000, 7⟩, ⟨none, 3000, 1000, 7⟩, ⟨none, 4000, 0, 8⟩]
      = [⟨none, 0, 4000, 7⟩, ⟨none, 9000, 1000, 7⟩] := by
  unfold Input WholeMsDurations Ev.fin
  decide

/-- a sorted chain with a zero-length event sharing its successor's timestamp -/
example : Chain (D := Nat) ⟨none, 0, 1000, 1⟩ [⟨none, 2000, 0, 2⟩, ⟨none, 2000, 3000, 1⟩] ∧
    floodSorted (D := Nat) 1000 [⟨none, 0, 1000, 1⟩, ⟨none, 2000, 0, 2⟩, ⟨none, 2000, 3000, 1⟩]
      = [⟨none, 0, 2000, 1⟩, ⟨none, 2000, 3000, 1⟩] := by
  refine ⟨?_, by decide⟩
  simp [Chain, ChainP, Al, Ev.fin]

end AwProofs.C10
