import AwProofs.Lemmas.Heartbeat
/-!
# C08 — Heartbeat merging is the pulsetime hull rule; reduction is a normal form

Property theorems only. `pt` is the microsecond value of `timedelta(seconds=pulsetime)`, any
integer (so every fractional pulsetime that `timedelta` can represent, and 0, and negatives).
All statements are for arbitrary event pairs / lists: any order, overlaps, zero and negative
durations, equal timestamps; data of any type with decidable equality.
-/
namespace AwProofs.C08
open Aw Aw.Heartbeat
variable {D : Type} [DecidableEq D]

/-- two events merge iff data equal, second starts within [first.start, first.end + pulsetime],
    and the first's duration is not negative -/
theorem merge_iff (pt : Int) (a b : Ev D) :
    (merge pt a b).isSome ↔
      (a.data = b.data ∧ a.ts ≤ b.ts ∧ b.ts ≤ a.ts + a.dur + pt ∧ 0 ≤ a.dur) := by
  have := merge_isSome_iff pt a b
  simpa [Mergeable, Ev.fin] using this

/-- the merged event keeps the first's start, data (and id) and ends at the later of the two
    ends; merging never shortens or moves an event -/
theorem merge_result (pt : Int) (a b m : Ev D) (h : merge pt a b = some m) :
    m.ts = a.ts ∧ m.data = a.data ∧ m.id = a.id ∧
    m.ts + m.dur = max (a.ts + a.dur) (b.ts + b.dur) ∧ a.dur ≤ m.dur := by
  simpa [Ev.fin] using merge_eq pt a b m h

/-- `heartbeat_reduce` equals the left fold of the rule (over the reversed accumulator) -/
theorem reduce_eq_foldl (pt : Int) (l : List (Ev D)) :
    reduce pt l = (l.foldl (specStep pt) []).reverse :=
  reduceAux_eq_foldl pt l []

/-- the output never contains two consecutive mergeable events -/
theorem reduce_no_adjacent_mergeable (pt : Int) (l : List (Ev D)) : NoAdj pt (reduce pt l) :=
  reduce_noAdj pt l

/-- reducing again changes nothing -/
theorem reduce_idempotent (pt : Int) (l : List (Ev D)) :
    reduce pt (reduce pt l) = reduce pt l := by
  have h := reduce_noAdj pt l
  unfold reduce at *
  have := reduceAux_of_noAdj pt (reduceAux pt [] l) [] (by simpa using h)
  simpa using this

/-- every input interval of non-negative length lies inside one output event -/
theorem reduce_covers (pt : Int) (l : List (Ev D)) (x : Ev D) (hx : x ∈ l) (h0 : 0 ≤ x.dur) :
    ∃ o ∈ reduce pt l, o.ts ≤ x.ts ∧ x.ts + x.dur ≤ o.ts + o.dur := by
  simpa [Covers, Ev.fin, reduce] using reduceAux_covers pt l [] x h0 (Or.inr hx)

/-- the reduce output is never longer than the input and is empty only for empty input
    (non-vacuity of the statements above: on a concrete stream the rule fires) -/
example : reduce (D := Nat) 1 [⟨none, 0, 1, 7⟩, ⟨none, 2, 1, 7⟩, ⟨none, 9, 0, 7⟩, ⟨none, 9, 1, 8⟩]
    = [⟨none, 0, 3, 7⟩, ⟨none, 9, 0, 7⟩, ⟨none, 9, 1, 8⟩] := by decide

end AwProofs.C08
