import AwProofs.Lemmas.C01Codec
import AwProofs.Lemmas.C01Store
import AwProofs.Lemmas.StoreSqlite
import AwProofs.Lemmas.StoreMemory
import AwProofs.Lemmas.StorePeewee
import AwProofs.Lemmas.HeapOwn
import AwProofs.Lemmas.HeapRefine
/-!
# C01 — stored events come back exactly as inserted, and the store owns its copy

Property theorems only.

**Part A (values).** `Ev D` is an event with exact integer microseconds and data of any type `D`.
What a client reads is `decode (stored row)`; the row codecs (`Codec.sqliteDecode`,
`Codec.peeweeDecode`, identity for memory) are the float paths of the real code on the binary64
model. The codec theorems say they are the identity for ms-aligned instants from 1970 whose end
lies before 2^32 s = 2106-02-07 (sqlite) and for durations up to 2^43 µs ≈ 101 days (peewee);
the `get_after_insert_*` / `bulk_insert_*` theorems compose them with the storage models:
the inserted event gets an id that is fresh in its bucket, the bucket's list is the old list
followed by the new events, and lookup by that id and the listing both return the event with
exactly the instant, duration and data that were passed.

**Part B (ownership, memory backend).** `Heap.State` is a heap of Python objects (event objects,
metadata dicts, data dicts), the store's references into it and the set of objects the client
holds; `Heap.api` is `aw_datastore/storages/memory.py`, `Heap.mutate` is anything the client can do
to an object it holds, `Heap.observe` is everything reads can return, by value.
`store_owns_copy`: in every state reachable by any interleaving of API calls and client mutations,
no client mutation changes `observe`. The sqlite and peewee backends serialise every event and
every metadata field into table rows on the way in and build new objects from rows on the way
out: their model states (`Sqlite.St`, `Peewee.St`) contain values, no references, so there is
nothing a client object could alias — nothing to prove beyond Part A.
-/
namespace AwProofs.C01
open Aw Aw.Store
variable {D : Type}

/-! ## codecs -/

/-- sqlite rows hold exact integer µs and are read back with integer arithmetic (repairs F9, F24);
    what is left is the ms floor of the `Event` constructor: the identity for every ms-aligned
    instant — before 1970, after 2100, any date a `datetime` can hold — and every duration -/
theorem sqlite_roundtrip (e : Ev D) (hms : 1000 ∣ e.ts) : Codec.sqliteDecode e = e :=
  Codec.sqliteDecode_id e hms

/-- peewee stores `duration.total_seconds()` (a double) and reads `timedelta(seconds=float)`:
    the identity on every duration of 0 … 2^43 µs (≈ 101 days) at microsecond granularity -/
theorem peewee_duration_roundtrip (d : Int) (h0 : 0 ≤ d) (h1 : d ≤ 2 ^ 43) : Codec.peeweeDur d = d :=
  Codec.peeweeDur_id d h0 (by omega)

/-- the peewee row codec is the identity for durations of 0 … 2^43 µs (the timestamp text round
    trip is trusted to be the identity on ms-aligned UTC instants) -/
theorem peewee_roundtrip (e : Ev D) (h0 : 0 ≤ e.dur) (h1 : e.dur ≤ 2 ^ 43) : Codec.peeweeDecode e = e :=
  Codec.peeweeDecode_id e h0 (by omega)

/-- memory: no codec at all — for every event (any instant, duration, data) inserted without an id,
    lookup by the returned id gives back the event itself with that id -/
theorem memory_roundtrip {s s' : Memory.St D} {b : String} {e : Ev D} {i : Int} (hI : Memory.Inv s)
    (he : e.id = none) (h : Memory.insertOne s b e = .ok (s', some i)) :
    Memory.getEvent s' b i = .ok (some { e with id := some i }) := by
  obtain ⟨hb, hv, _⟩ := Memory.insertOne_view hI he h
  obtain ⟨⟨m, es⟩, hs⟩ := Option.isSome_iff_exists.mp hb
  have hv' : Memory.view s' b = some (m, es ++ [Spec.withId e i]) := by
    rw [hv]; exact Spec.insert_apply hs i e
  have hI' := Memory.insertOne_inv hI h
  rw [Memory.getEvent_eq hI' hv']
  exact congrArg _ (Spec.find_of_nodup (Memory.ids_nodup hI' hv').1 (by simp) rfl)

/-! ## sqlite -/

/-- sqlite: the id given to an inserted event is not the id of any event of any bucket -/
theorem insert_assigns_fresh_id_sqlite {s s' : Sqlite.St D} {b : String} {e : Ev D} {i : Int}
    (hI : Sqlite.Inv s) (h : Sqlite.insertOne s b e = .ok (s', i)) :
    ∀ b', i ∉ Spec.ids (Sqlite.view s) b' :=
  (Sqlite.insertOne_view' hI h).2.2

/-- sqlite: in every reachable state every listed event has an id and the ids of a bucket are
    pairwise distinct -/
theorem ids_nodup_sqlite {s : Sqlite.St D} {b : String} {m : Meta} {es : List (Ev D)}
    (hI : Sqlite.Inv s) (h : Sqlite.view s b = some (m, es)) :
    (es.filterMap (·.id)).Nodup ∧ ∀ x ∈ es, x.id.isSome :=
  Sqlite.ids_nodup hI h

/-- sqlite, single insertion: the bucket's list is the old list followed by the event with its new
    id; lookup by that id returns it; and under the range hypotheses the *decoded* lookup and the
    decoded last entry of the listing are the event that was passed, with the id -/
theorem get_after_insert_sqlite {s s' : Sqlite.St D} {b : String} {e : Ev D} {i : Int}
    (hI : Sqlite.Inv s) (h : Sqlite.insertOne s b e = .ok (s', i)) :
    ∃ m es, Sqlite.view s b = some (m, es) ∧
      Sqlite.view s' b = some (m, es ++ [{ e with id := some i }]) ∧
      Sqlite.getEvent s' b i = some { e with id := some i } ∧
      (1000 ∣ e.ts →
        (Sqlite.getEvent s' b i).map Codec.sqliteDecode = some { e with id := some i } ∧
        (es ++ [{ e with id := some i }]).map Codec.sqliteDecode =
          es.map Codec.sqliteDecode ++ [{ e with id := some i }]) := by
  obtain ⟨hb, hv, _⟩ := Sqlite.insertOne_view' hI h
  obtain ⟨⟨m, es⟩, hs⟩ := Option.isSome_iff_exists.mp hb
  have hv' : Sqlite.view s' b = some (m, es ++ [Spec.withId e i]) := by
    rw [hv]; exact Spec.insert_apply hs i e
  have hI' := Sqlite.insertOne_inv hI h
  have hg : Sqlite.getEvent s' b i = some (Spec.withId e i) := by
    rw [Sqlite.getEvent_eq hI' hv']
    exact Spec.find_of_nodup (Sqlite.ids_nodup hI' hv').1 (by simp) rfl
  refine ⟨m, es, hs, hv', hg, fun hms => ?_⟩
  have hc : Codec.sqliteDecode (Spec.withId e i) = Spec.withId e i :=
    sqlite_roundtrip _ hms
  exact ⟨by rw [hg]; exact congrArg some hc, by rw [List.map_append, List.map_singleton, hc]⟩

/-- sqlite, bulk insertion of id-less events: pairwise distinct ids, none of them in use in any
    bucket before; the bucket's list is the old list followed by the events in order, each with
    its id; lookup by each id returns the corresponding event; decoding the new entries is the
    identity when every event is in range -/
theorem bulk_insert_sqlite {s s' : Sqlite.St D} {b : String} {evs : List (Ev D)}
    (hI : Sqlite.Inv s) (hb : (Sqlite.view s b).isSome) (hc : ∀ e ∈ evs, e.id = none)
    (h : Sqlite.insertMany s b evs = .ok s') :
    ∃ m es ids, Sqlite.view s b = some (m, es) ∧ ids.length = evs.length ∧ ids.Nodup ∧
      (∀ i ∈ ids, ∀ b', i ∉ Spec.ids (Sqlite.view s) b') ∧
      Sqlite.view s' b = some (m, es ++ (evs.zip ids).map (fun p => { p.1 with id := some p.2 })) ∧
      (∀ p ∈ evs.zip ids, Sqlite.getEvent s' b p.2 = some { p.1 with id := some p.2 }) ∧
      ((∀ e ∈ evs, 1000 ∣ e.ts) →
        ((evs.zip ids).map (fun p => { p.1 with id := some p.2 })).map Codec.sqliteDecode =
          (evs.zip ids).map (fun p => { p.1 with id := some p.2 })) := by
  obtain ⟨ids, hlen, hnd, hfresh, hv⟩ := Sqlite.insertMany_view hI hb h
  obtain ⟨hn, hsome⟩ := Spec.filter_isNone_of_all hc
  rw [hn] at hlen
  rw [hn, hsome, List.foldl_nil] at hv
  obtain ⟨⟨m, es⟩, hs⟩ := Option.isSome_iff_exists.mp hb
  have hv' : Sqlite.view s' b = some (m, es ++ (evs.zip ids).map (fun p => Spec.withId p.1 p.2)) := by
    rw [hv]; exact Spec.foldl_insert_apply b _ _ m es hs
  have hI' := Sqlite.insertMany_inv hI h
  refine ⟨m, es, ids, hs, hlen, hnd, hfresh, hv', fun p hp => ?_, fun hr => ?_⟩
  · rw [Sqlite.getEvent_eq hI' hv']
    exact Spec.find_of_nodup (Sqlite.ids_nodup hI' hv').1
      (List.mem_append_right _ (List.mem_map.mpr ⟨p, hp, rfl⟩)) rfl
  · rw [List.map_map]
    refine List.map_congr_left fun p hp => ?_
    exact sqlite_roundtrip (Spec.withId p.1 p.2) (hr p.1 (List.of_mem_zip hp).1)

/-! ## memory -/

/-- memory: the id given to an id-less event is not the id of any event of its bucket (memory ids
    are per bucket) -/
theorem insert_assigns_fresh_id_memory {s s' : Memory.St D} {b : String} {e : Ev D} {oi : Option Int}
    (hI : Memory.Inv s) (he : e.id = none) (h : Memory.insertOne s b e = .ok (s', oi)) :
    ∃ i, oi = some i ∧ i ∉ Spec.ids (Memory.view s) b := by
  obtain ⟨i, hi, _, _, hf⟩ := Memory.insertOne_view' hI he h
  exact ⟨i, hi, hf⟩

/-- memory: every listed event has an id and the ids of a bucket are pairwise distinct -/
theorem ids_nodup_memory {s : Memory.St D} {b : String} {m : Meta} {es : List (Ev D)}
    (hI : Memory.Inv s) (h : Memory.view s b = some (m, es)) :
    (es.filterMap (·.id)).Nodup ∧ ∀ x ∈ es, x.id.isSome :=
  Memory.ids_nodup hI h

/-- memory, single insertion of an id-less event: an id is returned; the bucket's list is the old
    list followed by the event with that id; lookup by the id returns it — the very values that
    were passed, for every instant, duration and data (there is no codec) -/
theorem get_after_insert_memory {s s' : Memory.St D} {b : String} {e : Ev D} {oi : Option Int}
    (hI : Memory.Inv s) (he : e.id = none) (h : Memory.insertOne s b e = .ok (s', oi)) :
    ∃ i m es, oi = some i ∧ Memory.view s b = some (m, es) ∧
      Memory.view s' b = some (m, es ++ [{ e with id := some i }]) ∧
      Memory.getEvent s' b i = .ok (some { e with id := some i }) := by
  obtain ⟨i, rfl, hb, hv, _⟩ := Memory.insertOne_view' hI he h
  obtain ⟨⟨m, es⟩, hs⟩ := Option.isSome_iff_exists.mp hb
  have hv' : Memory.view s' b = some (m, es ++ [Spec.withId e i]) := by
    rw [hv]; exact Spec.insert_apply hs i e
  exact ⟨i, m, es, rfl, hs, hv', memory_roundtrip hI he h⟩

/-- memory, bulk insertion of id-less events: pairwise distinct ids, none of them in use in the
    bucket before; the bucket's list is the old list followed by the events in order, each with
    its id; lookup by each id returns the corresponding event unchanged -/
theorem bulk_insert_memory {s s' : Memory.St D} {b : String} {evs : List (Ev D)}
    (hI : Memory.Inv s) (hb : (Memory.view s b).isSome) (hc : ∀ e ∈ evs, e.id = none)
    (h : Memory.insertMany s b evs = .ok s') :
    ∃ m es ids, Memory.view s b = some (m, es) ∧ ids.length = evs.length ∧ ids.Nodup ∧
      (∀ i ∈ ids, i ∉ Spec.ids (Memory.view s) b) ∧
      Memory.view s' b = some (m, es ++ (evs.zip ids).map (fun p => { p.1 with id := some p.2 })) ∧
      (∀ p ∈ evs.zip ids, Memory.getEvent s' b p.2 = .ok (some { p.1 with id := some p.2 })) := by
  obtain ⟨ids, hlen, hnd, hfresh, hv⟩ := Memory.insertMany_view_new hI hb h hc
  obtain ⟨⟨m, es⟩, hs⟩ := Option.isSome_iff_exists.mp hb
  have hv' : Memory.view s' b = some (m, es ++ (evs.zip ids).map (fun p => Spec.withId p.1 p.2)) := by
    rw [hv]; exact Spec.foldl_insert_apply b _ _ m es hs
  have hI' := Memory.insertMany_inv hI h
  refine ⟨m, es, ids, hs, hlen, hnd, hfresh, hv', fun p hp => ?_⟩
  rw [Memory.getEvent_eq hI' hv']
  exact congrArg _ (Spec.find_of_nodup (Memory.ids_nodup hI' hv').1
    (List.mem_append_right _ (List.mem_map.mpr ⟨p, hp, rfl⟩)) rfl)

/-! ## peewee -/

/-- peewee: the id given to an id-less event is not the id of any event of any bucket -/
theorem insert_assigns_fresh_id_peewee {s s' : Peewee.St D} {b : String} {e : Ev D} {oi : Option Int}
    (hI : Peewee.Inv s) (he : e.id = none) (h : Peewee.insertOne s b e = .ok (s', oi)) :
    ∃ i, oi = some i ∧ ∀ b', i ∉ Spec.ids (Peewee.view s) b' := by
  obtain ⟨i, hi, _, _, hf⟩ := Peewee.insertOne_view hI he h
  exact ⟨i, hi, hf⟩

/-- peewee: every listed event has an id and the ids of a bucket are pairwise distinct -/
theorem ids_nodup_peewee {s : Peewee.St D} {b : String} {m : Meta} {es : List (Ev D)}
    (hI : Peewee.Inv s) (h : Peewee.view s b = some (m, es)) :
    (es.filterMap (·.id)).Nodup ∧ ∀ x ∈ es, x.id.isSome :=
  Peewee.ids_nodup hI h

/-- peewee, single insertion of an id-less event: an id is returned; the bucket's list is the old
    list followed by the event with that id; lookup by the id returns it; for a duration of
    0 … 2^43 µs the *decoded* lookup and the decoded last entry of the listing are the event that
    was passed, with the id -/
theorem get_after_insert_peewee {s s' : Peewee.St D} {b : String} {e : Ev D} {oi : Option Int}
    (hI : Peewee.Inv s) (he : e.id = none) (h : Peewee.insertOne s b e = .ok (s', oi)) :
    ∃ i m es, oi = some i ∧ Peewee.view s b = some (m, es) ∧
      Peewee.view s' b = some (m, es ++ [{ e with id := some i }]) ∧
      Peewee.getEvent s' b i = .ok (some { e with id := some i }) ∧
      (0 ≤ e.dur → e.dur ≤ 2 ^ 43 →
        (Peewee.getEvent s' b i).map (fun o => o.map Codec.peeweeDecode) =
          .ok (some { e with id := some i }) ∧
        (es ++ [{ e with id := some i }]).map Codec.peeweeDecode =
          es.map Codec.peeweeDecode ++ [{ e with id := some i }]) := by
  obtain ⟨i, rfl, hb, hv, _⟩ := Peewee.insertOne_view hI he h
  obtain ⟨⟨m, es⟩, hs⟩ := Option.isSome_iff_exists.mp hb
  have hv' : Peewee.view s' b = some (m, es ++ [Spec.withId e i]) := by
    rw [hv]; exact Spec.insert_apply hs i e
  have hI' := Peewee.insertOne_inv hI h
  have hg : Peewee.getEvent s' b i = .ok (some (Spec.withId e i)) := by
    rw [Peewee.getEvent_eq hI' hv']
    exact congrArg _ (Spec.find_of_nodup (Peewee.ids_nodup hI' hv').1 (by simp) rfl)
  refine ⟨i, m, es, rfl, hs, hv', hg, fun h0 h1 => ?_⟩
  have hc : Codec.peeweeDecode (Spec.withId e i) = Spec.withId e i := peewee_roundtrip _ h0 h1
  refine ⟨?_, by rw [List.map_append, List.map_singleton, hc]⟩
  rw [hg]
  show Except.ok (some (Codec.peeweeDecode (Spec.withId e i))) = _
  rw [hc]

/-- peewee, bulk insertion of id-less events: pairwise distinct ids, none of them in use in any
    bucket before; the bucket's list is the old list followed by the events in order, each with
    its id; lookup by each id returns the corresponding event; decoding the new entries is the
    identity when every duration is in 0 … 2^43 µs -/
theorem bulk_insert_peewee {s s' : Peewee.St D} {b : String} {evs : List (Ev D)}
    (hI : Peewee.Inv s) (hb : (Peewee.view s b).isSome) (hc : ∀ e ∈ evs, e.id = none)
    (h : Peewee.insertMany s b evs = .ok s') :
    ∃ m es ids, Peewee.view s b = some (m, es) ∧ ids.length = evs.length ∧ ids.Nodup ∧
      (∀ i ∈ ids, ∀ b', i ∉ Spec.ids (Peewee.view s) b') ∧
      Peewee.view s' b = some (m, es ++ (evs.zip ids).map (fun p => { p.1 with id := some p.2 })) ∧
      (∀ p ∈ evs.zip ids, Peewee.getEvent s' b p.2 = .ok (some { p.1 with id := some p.2 })) ∧
      ((∀ e ∈ evs, 0 ≤ e.dur ∧ e.dur ≤ 2 ^ 43) →
        ((evs.zip ids).map (fun p => { p.1 with id := some p.2 })).map Codec.peeweeDecode =
          (evs.zip ids).map (fun p => { p.1 with id := some p.2 })) := by
  obtain ⟨ids, hlen, hnd, hfresh, hv⟩ := Peewee.insertMany_view hI hb h
  obtain ⟨hn, hsome⟩ := Spec.filter_isNone_of_all hc
  rw [hn] at hlen
  rw [hn, hsome, List.foldl_nil] at hv
  obtain ⟨⟨m, es⟩, hs⟩ := Option.isSome_iff_exists.mp hb
  have hv' : Peewee.view s' b = some (m, es ++ (evs.zip ids).map (fun p => Spec.withId p.1 p.2)) := by
    rw [hv]; exact Spec.foldl_insert_apply b _ _ m es hs
  have hI' := Peewee.insertMany_inv hI h
  refine ⟨m, es, ids, hs, hlen, hnd, hfresh, hv', fun p hp => ?_, fun hr => ?_⟩
  · rw [Peewee.getEvent_eq hI' hv']
    exact congrArg _ (Spec.find_of_nodup (Peewee.ids_nodup hI' hv').1
      (List.mem_append_right _ (List.mem_map.mpr ⟨p, hp, rfl⟩)) rfl)
  · rw [List.map_map]
    refine List.map_congr_left fun p hp => ?_
    obtain ⟨h0, h1⟩ := hr p.1 (List.of_mem_zip hp).1
    exact peewee_roundtrip (Spec.withId p.1 p.2) h0 h1

/-! ## ownership (memory backend) -/

open Heap in
/-- `separated`: in every reachable state no object reachable from the store — a bucket's metadata
    dict, a stored event object, or the data dict behind either — is held by the client -/
theorem separated {s : State} (h : Reachable s) : ∀ r, storeReach s r → s.client r = false :=
  (reachable_sep h).sep

open Heap in
/-- every API call (create/update/delete bucket, get_metadata, buckets, insert_one, insert_many,
    replace, replace_last, delete, get_event, get_events; any arguments) preserves the separation
    invariant -/
theorem api_preserves_separation {s : State} (h : Sep s) (a : Api) : Sep (api s a).1 :=
  api_sep h a

open Heap in
/-- every client mutation of held objects preserves the separation invariant -/
theorem mutation_preserves_separation {s : State} (h : Sep s) (m : Mut) (hm : m.held s = true) :
    Sep (mutate s m) :=
  mutate_sep h m hm

open Heap in
/-- the invariant holds initially and along every trace -/
theorem reachable_separated {s : State} (h : Reachable s) : Sep s := reachable_sep h

open Heap in
/-- the store owns its copy: in every reachable state, whatever the client does to an object it
    holds (the event it passed to insert, the event insert returned, an event or metadata dict a
    read handed out, the dict it passed to create/update: set id / timestamp / duration, mutate the
    data dict in place at any depth, assign another dict, overwrite metadata entries, create new
    objects), everything reads return stays the same -/
theorem store_owns_copy {s : State} (h : Reachable s) (m : Mut) (hm : m.held s = true) :
    observe (mutate s m) = observe s :=
  mutate_observe (reachable_sep h) m hm

open Heap in
/-- the same as a statement about trace steps (a mutation of an object the client does not hold is
    not a step the client can take: `step` ignores it) -/
theorem store_owns_copy_step {s : State} (h : Reachable s) (m : Mut) :
    observe (step s (.mutation m)) = observe s := by
  simp only [step]
  split
  · rename_i hm
    exact store_owns_copy h m hm
  · rfl

open Heap in
/-- the client of the model is as powerful as a real one: in every reachable state it holds the
    data dict behind every event object and metadata dict it holds (so mutating that dict in
    place, `Mut.setDict`, is a step it can take on everything it was ever handed) -/
theorem client_holds_data {s : State} (h : Reachable s) {r d : Ref} (hr : s.client r = true)
    (hd : dataRefOf s r = some d) : s.client d = true :=
  (reachable_sep h).closed r hr d hd

open Heap in
/-- the heap model and the value model agree on `insert_one`: through `observe`, inserting a held
    event object without an id is `Memory.insertOne` of the object's value (so the memory theorems
    of part A describe what the heap model's reads return) -/
theorem heap_insert_refines_value_model {s : State} (h : Reachable s) {b : String} {r : Ref}
    {o : EvObj} {mr : Ref} {evs : List Ref} (hr : s.client r = true) (ho : evAt s r = some o)
    (hid : o.id = none) (hl : lookup s.store b = some (mr, evs)) :
    Memory.insertOne (observe s) b (evVal s r) =
      .ok (observe (insertOne s b r).1, some (nextId s evs)) :=
  insertOne_observe (reachable_sep h) hr ho hid hl

open Heap in
/-- what `insert_one` returns is a new client-held event object with the passed instant,
    duration and data and the assigned id -/
theorem heap_insert_returns {s : State} (h : Reachable s) {b : String} {r : Ref}
    {o : EvObj} {mr : Ref} {evs : List Ref} (hr : s.client r = true) (ho : evAt s r = some o)
    (hid : o.id = none) (hl : lookup s.store b = some (mr, evs)) :
    (insertOne s b r).2 = .ref s.next ∧ (insertOne s b r).1.client s.next = true ∧
      evVal (insertOne s b r).1 s.next = { evVal s r with id := some (nextId s evs) } :=
  insertOne_returns (reachable_sep h) hr ho hid hl

/-! ## the hypotheses are satisfiable (non-vacuity) -/

/-- codec range hypotheses: an instant in 2023 with a sub-millisecond duration part; the 2^51 µs
    region (2041) that the float encoding of the pinned tree got wrong; the last supported day -/
example : Codec.sqliteDecode (⟨some 3, 1700000000123000, 1234567, 7⟩ : Ev Nat) =
    ⟨some 3, 1700000000123000, 1234567, 7⟩ :=
  sqlite_roundtrip _ (by decide)
example : Codec.sqliteDecode (⟨none, 2250741852732000, 2193231764772, ()⟩ : Ev Unit) =
    ⟨none, 2250741852732000, 2193231764772, ()⟩ :=
  sqlite_roundtrip _ (by decide)
/-- year 9000, and year 500 (far outside what a double resolves to the microsecond) -/
example : Codec.sqliteDecode (⟨some 2, 221845392000123000, 999999999999, ()⟩ : Ev Unit) =
    ⟨some 2, 221845392000123000, 999999999999, ()⟩ := sqlite_roundtrip _ (by decide)
example : Codec.sqliteDecode (⟨some 2, -46388678399877000, 1, ()⟩ : Ev Unit) =
    ⟨some 2, -46388678399877000, 1, ()⟩ := sqlite_roundtrip _ (by decide)
/-- 1970-01-01T00:30+01:00: the wall-clock date is in 1970, the UTC instant is 30 minutes before the epoch -/
example : Codec.sqliteDecode (⟨some 1, -1800000000, 60000001, ()⟩ : Ev Unit) = ⟨some 1, -1800000000, 60000001, ()⟩ :=
  sqlite_roundtrip _ (by decide)
example : Codec.peeweeDur 2592000000001 = 2592000000001 :=
  peewee_duration_roundtrip _ (by decide) (by decide)

/-- sqlite: two buckets with interleaved ids, insert into "a" -/
example : ∃ s', Sqlite.insertOne Sqlite.exS "a" Sqlite.exEv = .ok (s', 4) ∧
    Sqlite.getEvent s' "a" 4 = some { Sqlite.exEv with id := some 4 } := by
  refine ⟨_, rfl, ?_⟩
  obtain ⟨m, es, _, _, hg, _⟩ := get_after_insert_sqlite Sqlite.exS_inv (b := "a") (e := Sqlite.exEv) rfl
  exact hg
example := bulk_insert_sqlite Sqlite.exS_inv (b := "a") (evs := [Sqlite.exEv, Sqlite.exEv]) rfl
  (by decide) rfl

/-- memory: bucket "b" holds ids 0, 1, 2; the next id is 3 -/
example : Memory.getEvent (Memory.setKey Memory.exSt "b"
      (Memory.exMeta, Memory.exEvs ++ [⟨some 3, 7, 1, 30⟩])) "b" 3 = .ok (some ⟨some 3, 7, 1, 30⟩) :=
  memory_roundtrip Memory.exSt_inv (e := ⟨none, 7, 1, 30⟩) rfl rfl
example := bulk_insert_memory Memory.exSt_inv (b := "b") (evs := [⟨none, 7, 1, 30⟩, ⟨none, 7, 1, 31⟩])
  rfl (by decide) rfl

/-- peewee: ids are global (1, 2, 3 in use over two buckets); the next id is 4 -/
example := get_after_insert_peewee Peewee.Example.inv0 (b := "a") (e := Peewee.Example.e0)
  (oi := some 4) rfl rfl
example := bulk_insert_peewee Peewee.Example.inv0 (b := "a")
  (evs := [Peewee.Example.e0, Peewee.Example.e0]) rfl (by decide) rfl

open Heap in
/-- ownership: a reachable state with a stored event, in which the client holds the event it
    passed (3), its dict (2) and the event `insert_one` returned (4) and mutates them -/
example :
    let tr : List Step := [.api (.createBucket "b" ⟨none, "t", "c", "h", "2020", "{}"⟩ none),
      .mutation (.newEvent none 5 1 "{\"a\":1}"), .api (.insertOne "b" 3)]
    let s := tr.foldl step {}
    Reachable s ∧ (observe s).map (fun p => p.2.2) = [[⟨some 0, 5, 1, "{\"a\":1}"⟩]] ∧
    (Mut.setDict 2 "{}").held s = true ∧ (Mut.setTs 4 9).held s = true ∧
    observe (mutate s (.setDict 2 "{}")) = observe s := by
  intro tr s
  have hr : Reachable s :=
    .step (.api (.insertOne "b" 3)) (.step (.mutation (.newEvent none 5 1 "{\"a\":1}"))
      (.step (.api (.createBucket "b" ⟨none, "t", "c", "h", "2020", "{}"⟩ none)) .init))
  exact ⟨hr, by decide, by decide, by decide, store_owns_copy hr _ (by decide)⟩

end AwProofs.C01
