import AwModel.Store.Codec
/-! # C01 — placeholder while the theorems are being written (no claims yet) -/
namespace AwProofs.C01
end AwProofs.C01
