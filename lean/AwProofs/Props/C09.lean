import AwProofs.Lemmas.Intersect
namespace AwProofs.C09
end AwProofs.C09
