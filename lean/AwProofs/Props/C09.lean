import AwProofs.Lemmas.Intersect
/-!
# C09 — Interval intersection and union of event lists are exact

Property theorems only, over the model `AwModel/Intersect.lean` of
`aw_transform/filter_period_intersect.py` and of the `timeslot` methods it calls.

Hypotheses, intersection: `NonOverlap` — no two events of a list (at different positions) share a
positive amount of time; the list may be in ANY order (the function sorts), zero-length events may
sit on the start or end of another event. `Nonneg` — durations ≥ 0. `MsAligned` — timestamps are
multiples of 1 ms; this is what the `Event.timestamp` setter guarantees for every event and what
`_replace_event_period` relies on when it stores the start of a piece through the same setter
(only the statements that speak of a piece's timestamp need it).
Hypotheses, union: `Nonneg` and `MsAligned` of the inputs; the lists are otherwise arbitrary
(any order, overlapping, nested, identical).

Input preservation of `filter_period_intersect` is not a theorem of this value model (values cannot
be mutated); it is checked on the real objects, by identity and value, on every run of the check.
-/
namespace AwProofs.C09
open Aw Aw.Intersect
variable {D : Type}

/-- every returned piece is `e ∩ f` for an event `e` and a filter event `f`: it carries `e`'s id and
    data, starts at the later start, ends at the earlier end (so lies inside both) and is not
    inverted -/
theorem isect_sound (A F : List (Ev D)) (hA : Nonneg A) (hF : Nonneg F)
    (mA : MsAligned A) (mF : MsAligned F) (p : Ev D) (hp : p ∈ isect A F) :
    ∃ e ∈ A, ∃ f ∈ F, p.id = e.id ∧ p.data = e.data ∧ p.ts = max e.ts f.ts ∧
      p.ts + p.dur = min (e.ts + e.dur) (f.ts + f.dur) ∧ 0 ≤ p.dur := by
  obtain ⟨e, he, f, hf, h⟩ := piece_of_sweep _ _ (nonneg_sort2 A hA) (nonneg_sort2 F hF)
    (aligned_sort2 A mA) (aligned_sort2 F mF) p hp
  exact ⟨e, (mem_sort2 A e).1 he, f, (mem_sort2 F f).1 hf, h⟩

/-- nothing that overlaps is missing: for every event `e` and filter event `f` that overlap for a
    positive time, the piece `e ∩ f` with `e`'s id and data is in the result -/
theorem isect_complete (A F : List (Ev D)) (dA : NonOverlap A) (dF : NonOverlap F)
    (hA : Nonneg A) (hF : Nonneg F) (mA : MsAligned A) (mF : MsAligned F)
    (e f : Ev D) (he : e ∈ A) (hf : f ∈ F)
    (hov : max e.ts f.ts < min (e.ts + e.dur) (f.ts + f.dur)) :
    ({ id := e.id, ts := max e.ts f.ts,
       dur := min (e.ts + e.dur) (f.ts + f.dur) - max e.ts f.ts, data := e.data } : Ev D)
      ∈ isect A F := by
  have h := sweep_complete _ _ (ready_sort2 A dA hA) (ready_sort2 F dF hF) e f
    ((mem_sort2 A e).2 he) ((mem_sort2 F f).2 hf) hov
  refine (mem_pieces _ _).2 ⟨e, f, _, h, ?_⟩
  have h1 := mA e he
  have h2 := mF f hf
  have : msFloor (max e.ts f.ts) = max e.ts f.ts := by unfold msFloor; omega
  simp [replacePeriod, Slot.duration, this]

/-- nothing is counted twice: the pieces come out in time order, and a piece of positive length
    starts only after every piece before it has ended — so no two positive-length pieces share any
    time (zero-length pieces aside, as in the property) -/
theorem isect_no_double (A F : List (Ev D)) (dA : NonOverlap A) (dF : NonOverlap F)
    (hA : Nonneg A) (hF : Nonneg F) (mA : MsAligned A) (mF : MsAligned F) :
    (isect A F).Pairwise (fun p q => 0 < q.dur → p.ts + p.dur ≤ q.ts) :=
  sweep_no_double _ _ (ready_sort2 A dA hA) (ready_sort2 F dF hF)
    (aligned_sort2 A mA) (aligned_sort2 F mF)

/-- the branch of `_intersecting_eventpairs` that logs "Should be unreachable" is never taken —
    for any two event lists whatsoever (overlapping, negative durations): when
    `Timeslot.intersection` returns `None` one of the two slots ends before the other starts -/
theorem isect_unreachable_branch_dead (A F : List (Ev D)) :
    Step.unreachable ∉ isectSteps A F ∧ unreachableCount (isectSteps A F) = 0 ∧
    ∀ a b : Slot, a.intersection b = none → a.e ≤ b.s ∨ b.e ≤ a.s :=
  ⟨sweep_dead _ _, unreachableCount_zero _ (sweep_dead _ _), inter_none⟩

/-- the total duration of the result is `Σ_{e ∈ A} Σ_{f ∈ F} |e ∩ f|`, which for two lists that are
    each free of internal overlap is the measure of the time covered by both lists
    (`isect_common_time` is the pointwise form) -/
theorem isect_total_duration (A F : List (Ev D)) (dA : NonOverlap A) (dF : NonOverlap F)
    (hA : Nonneg A) (hF : Nonneg F) :
    durSum (isect A F) = ovSum A F := by
  unfold isect isectSteps eventpairs
  rw [sweep_total _ _ (ready_sort2 A dA hA) (ready_sort2 F dF hF), ovSum_sort2]

/-- an instant lies in a piece (half-open, so in a piece of positive length) iff it lies in an event
    and in a filter event: the pieces cover exactly the common time -/
theorem isect_common_time (A F : List (Ev D)) (dA : NonOverlap A) (dF : NonOverlap F)
    (hA : Nonneg A) (hF : Nonneg F) (mA : MsAligned A) (mF : MsAligned F) (t : Int) :
    (∃ p ∈ isect A F, p.ts ≤ t ∧ t < p.ts + p.dur) ↔
      ((∃ e ∈ A, e.ts ≤ t ∧ t < e.ts + e.dur) ∧ (∃ f ∈ F, f.ts ≤ t ∧ t < f.ts + f.dur)) := by
  constructor
  · rintro ⟨p, hp, h1, h2⟩
    obtain ⟨e, he, f, hf, -, -, h3, h4, -⟩ := isect_sound A F hA hF mA mF p hp
    exact ⟨⟨e, he, by omega, by omega⟩, ⟨f, hf, by omega, by omega⟩⟩
  · rintro ⟨⟨e, he, h1, h2⟩, ⟨f, hf, h3, h4⟩⟩
    refine ⟨_, isect_complete A F dA dF hA hF mA mF e f he hf (by omega), ?_, ?_⟩ <;>
      simp only <;> omega

/-- the total duration of the result is the measure of the common time, literally: the number of
    microsecond cells of any window containing the events that lie in an event and in a filter
    event -/
theorem isect_total_duration_measure (A F : List (Ev D)) (dA : NonOverlap A) (dF : NonOverlap F)
    (hA : Nonneg A) (hF : Nonneg F) (mA : MsAligned A) (mF : MsAligned F)
    (lo : Int) (n : Nat) (hw : ∀ e ∈ A, lo ≤ e.ts ∧ e.ts + e.dur ≤ lo + n) :
    durSum (isect A F) =
      cells (fun t => (∃ e ∈ A, e.ts ≤ t ∧ t < e.ts + e.dur) ∧
                      (∃ f ∈ F, f.ts ≤ t ∧ t < f.ts + f.dur)) lo n := by
  rw [← cells_eq_durSum (isect A F)
    (fun p hp => by obtain ⟨_, _, _, _, h⟩ := isect_sound A F hA hF mA mF p hp; exact h.2.2.2.2)
    (isect_no_double A F dA dF hA hF mA mF) lo n]
  · exact cells_congr _ _ (fun t => isect_common_time A F dA dF hA hF mA mF t) lo n
  · intro p hp
    obtain ⟨e, he, f, hf, -, -, h3, h4, h5⟩ := isect_sound A F hA hF mA mF p hp
    have := hw e he
    have := hF f hf
    omega

/-- `period_union` never raises: `Timeslot.union` is only reached where `gap` returned `None` -/
theorem union_never_raises (empty : D) (L₁ L₂ : List (Ev D)) :
    ∃ out, periodUnion empty L₁ L₂ = .ok out :=
  ⟨_, periodUnion_eq empty L₁ L₂⟩

/-- the result is in time order and any two of its events are separated by a strictly positive
    gap; durations are not negative -/
theorem union_sorted_gapped (empty : D) (L₁ L₂ out : List (Ev D)) (hn : Nonneg (L₁ ++ L₂))
    (ha : MsAligned (L₁ ++ L₂)) (h : periodUnion empty L₁ L₂ = .ok out) :
    out.Pairwise (fun p q => p.ts + p.dur < q.ts) ∧ ∀ o ∈ out, 0 ≤ o.dur := by
  rw [periodUnion_eq] at h; cases h
  have := unionOut_spec empty L₁ L₂ hn ha
  exact ⟨this.1, fun o ho => (this.2.2 o ho).2⟩

/-- an instant is covered by the result iff it is covered by an input event (closed intervals) -/
theorem union_cover (empty : D) (L₁ L₂ out : List (Ev D)) (hn : Nonneg (L₁ ++ L₂))
    (ha : MsAligned (L₁ ++ L₂)) (h : periodUnion empty L₁ L₂ = .ok out) (t : Int) :
    (∃ o ∈ out, o.ts ≤ t ∧ t ≤ o.ts + o.dur) ↔ (∃ e ∈ L₁ ++ L₂, e.ts ≤ t ∧ t ≤ e.ts + e.dur) := by
  rw [periodUnion_eq] at h; cases h
  exact (unionOut_spec empty L₁ L₂ hn ha).2.1 t

/-- every returned event has its data cleared (no hypotheses) -/
theorem union_dataless (empty : D) (L₁ L₂ out : List (Ev D))
    (h : periodUnion empty L₁ L₂ = .ok out) : ∀ o ∈ out, o.data = empty := by
  rw [periodUnion_eq] at h; cases h
  intro o ho
  unfold unionOut at ho
  split at ho
  · simp at ho
  · obtain ⟨x, _, rfl⟩ := List.mem_map.1 ho; rfl

/-- the total duration of the result is the measure of the covered time: the number of microsecond
    cells of any window containing the inputs that lie in some input event -/
theorem union_total_duration (empty : D) (L₁ L₂ out : List (Ev D)) (hn : Nonneg (L₁ ++ L₂))
    (ha : MsAligned (L₁ ++ L₂)) (h : periodUnion empty L₁ L₂ = .ok out)
    (lo : Int) (n : Nat) (hw : ∀ e ∈ L₁ ++ L₂, lo ≤ e.ts ∧ e.ts + e.dur ≤ lo + n) :
    durSum out = cells (fun t => ∃ e ∈ L₁ ++ L₂, e.ts ≤ t ∧ t < e.ts + e.dur) lo n := by
  have hg := union_sorted_gapped empty L₁ L₂ out hn ha h
  have hc := union_cover empty L₁ L₂ out hn ha h
  rw [periodUnion_eq] at h; cases h
  have hpw : (unionOut empty L₁ L₂).Pairwise (fun p q => 0 < q.dur → p.ts + p.dur ≤ q.ts) :=
    List.Pairwise.imp (R := fun (p q : Ev D) => p.ts + p.dur < q.ts)
      (S := fun (p q : Ev D) => 0 < q.dur → p.ts + p.dur ≤ q.ts) (fun hpq _ => Int.le_of_lt hpq) hg.1
  rw [← cells_eq_durSum (unionOut empty L₁ L₂) hg.2 hpw lo n]
  · exact cells_congr _ _ (fun t => unionOut_inside empty L₁ L₂ hn ha t) lo n
  · intro o ho
    have hd := hg.2 o ho
    obtain ⟨e1, he1, h1⟩ := (hc o.ts).1 ⟨o, ho, by omega, by omega⟩
    obtain ⟨e2, he2, h2⟩ := (hc (o.ts + o.dur)).1 ⟨o, ho, by omega, by omega⟩
    have := hw e1 he1
    have := hw e2 he2
    omega

/-! Non-vacuity: concrete inputs satisfying the hypotheses, given out of order, with zero-length
events on a shared start and on a shared end, touching events and one filter event spanning two events. -/

example : isect (D := Nat)
    [⟨some 2, 6000, 3000, 8⟩, ⟨some 1, 0, 4000, 7⟩, ⟨none, 4000, 0, 9⟩, ⟨none, 0, 0, 6⟩]
    [⟨none, 8000, 5000, 1⟩, ⟨none, 2000, 5000, 0⟩]
    = [⟨some 1, 2000, 2000, 7⟩, ⟨none, 4000, 0, 9⟩, ⟨some 2, 6000, 1000, 8⟩, ⟨some 2, 8000, 1000, 8⟩] := by
  simp [isect, isectSteps, eventpairs, sortBy, insertBy, sweep, pieces, period, Slot.intersection,
    Slot.contains, replacePeriod, msFloor, Slot.duration]

example : NonOverlap (D := Nat) [⟨some 2, 6000, 3000, 8⟩, ⟨some 1, 0, 4000, 7⟩, ⟨none, 4000, 0, 9⟩, ⟨none, 0, 0, 6⟩] := by
  unfold NonOverlap Disj; decide

example : periodUnion (D := Nat) 0
    [⟨some 2, 6000, 3000, 8⟩, ⟨some 1, 0, 4000, 7⟩] [⟨none, 3000, 3000, 1⟩, ⟨none, 9001, 0, 1⟩]
    = .ok [⟨some 1, 0, 9000, 0⟩, ⟨none, 9001, 0, 0⟩] := by
  rfl

end AwProofs.C09
