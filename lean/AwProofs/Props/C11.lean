import AwProofs.Lemmas.QueryRun
import AwProofs.Lemmas.Pipeline
import AwProofs.Props.C09
import AwProofs.Props.C10
import AwProofs.Props.C16
import AwModel.Query.RegistryGen
/-!
# C11 — a query means what its text says: literals, variables and calls compose

Property theorems only, over the model of the REPAIRED parser/interpreter
(`AwModel/Query/{Scan,Parse,Interp}.lean`) and the reference semantics
(`AwModel/Query/{Reference,Render}.lean`: abstract syntax `Expr`/`Prog`, `denote`, and
`render : Prog → Layout → Str`).

All three stages planned in DESIGN.md §8 C11 are reached and proved together, without extra
hypotheses (no `_partial` theorem in this file):
1. programs rendered without whitespace and without escaped quotes,
2. arbitrary ASCII whitespace (any `str.strip()` blank, incl. newlines and `\x1c`–`\x1f`) before
   and after every `,` `:` `=` `;` — the layout `l` is an arbitrary function with `LayoutOK l`,
3. string literals in either quote style (chosen per literal by the layout) with their own quote
   character escaped as `\q`.

`WF` (the well-formed programs): identifiers `[A-Za-z_][A-Za-z0-9_]*`, natural-number literals of at
most `maxIntDigits` = 4300 digits (CPython's default `sys.get_int_max_str_digits()`: the runtime's
`int()` refuses longer digit strings, and the repaired `QInteger.parse` reports them as a parse
error - being readable by the interpreter's runtime is part of what a well-formed program is),
string values without `;` and without backslash (brackets, commas, both quotes, `=`, `:` allowed),
dict literals with distinct keys, any number of arguments / elements at any nesting depth. The
registry and the builtin bodies (`apply`) are arbitrary; the statements hold in particular for the
registry generated from the source. Whitespace directly inside brackets is not part of the claim.
-/
namespace AwProofs.C11
open Aw.Query

/-- per expression: `_parse_token` reads exactly the rendered expression off the front of the text
    (after any blanks `w`, before any continuation `k` that starts like a separator), classifies
    it correctly, and the class's `parse` method rebuilds the expression's token tree -/
theorem expr_parse_render (ns : Ns) (e : Expr) (l : Layout) (hw : WF e) (hl : LayoutOK l) :
    (∀ (w k : Str), (∀ c ∈ w, isSpace c = true) → Delim k → Tail k →
        parseToken (w ++ (renderExpr l e ++ k)) = .ok (some (tyOf e, renderExpr l e), k)) ∧
    (∀ fuel, 2 * (renderExpr l e).length + 1 ≤ fuel →
        parseTok ns fuel (tyOf e) (renderExpr l e) = .ok (tokOf ns e)) ∧
    interp Registry.registry apply (tokOf ns e) ns =
      (denote Registry.registry apply ns e).map (fun v => (v, ns)) :=
  ⟨fun _ _ hws hk hkt => parseToken_render e l hw hl hws hk hkt,
   fun fuel hf => parseTok_render ns e hw l fuel hl hf,
   interp_tokOf Registry.registry apply e ns⟩

/-- per statement: the text of a program splits into its statements, and `parse(line)` on the
    `i`-th one yields the assigned name and the expression's token tree -/
theorem stmt_parse_render (ns : Ns) (p : Prog) (l : Layout) (hw : WFProg p) (hl : LayoutOK l) :
    statements (render p l) = linesOf l 0 p ∧
    ∀ (i : Nat) (name : Str) (e : Expr), Ident name → WF e →
      parseStmt ns (lineOf l i name e) = .ok (name, tokOf ns e) :=
  ⟨statements_render hl p 0 hw, fun i _ _ hn he => parseStmt_lineOf ns hl i hn he⟩

/-- the property: running the text of a well-formed program, under any layout, gives exactly the
    value (or error) the program denotes — for every registry-respecting builtin semantics
    `apply`, every environment -/
theorem query_means_text (apply : Apply) (env : Ns) (p : Prog) (l : Layout) (hw : WFProg p)
    (hl : LayoutOK l) :
    runQuery Registry.registry apply env (render p l) = denoteProg Registry.registry apply env p := by
  unfold runQuery denoteProg render
  rw [statements_render hl p 0 hw, runStmts_lines Registry.registry apply hl p 0 _ hw]
  cases denoteStmts Registry.registry apply p (baseNs ++ env) with
  | error e => rfl
  | ok ns =>
    simp only [exceptBind_ok]
    cases ns.get? returnName <;> rfl

/-- spacing, line breaks and quote style do not change the result -/
theorem layout_independent (apply : Apply) (env : Ns) (p : Prog) (l₁ l₂ : Layout) (hw : WFProg p)
    (h₁ : LayoutOK l₁) (h₂ : LayoutOK l₂) :
    runQuery Registry.registry apply env (render p l₁) =
      runQuery Registry.registry apply env (render p l₂) := by
  rw [query_means_text apply env p l₁ hw h₁, query_means_text apply env p l₂ hw h₂]

/-- what a call denotes: the named builtin applied (through the call protocol of C17) to the
    values of all its arguments in written order -/
theorem call_denotes (apply : Apply) (ns : Ns) (f : Str) (args : List Expr) (e : Entry)
    (vs : List Val) (hf : lookupEntry Registry.registry f = some e)
    (hargs : denoteList Registry.registry apply ns args = .ok vs) :
    denote Registry.registry apply ns (.call f args) = callBuiltin apply e vs := by
  rw [denote, hf]; simp only [hargs]; rfl

/-- arguments are evaluated in written order, all of them -/
theorem args_in_order (apply : Apply) (ns : Ns) (e : Expr) (es : List Expr) (v : Val) (vs : List Val)
    (h1 : denote Registry.registry apply ns e = .ok v)
    (h2 : denoteList Registry.registry apply ns es = .ok vs) :
    denoteList Registry.registry apply ns (e :: es) = .ok (v :: vs) := by
  rw [denoteList, h1]; simp only [exceptBind_ok, h2]; rfl


/-! ## "applies the named built-in": the registered builtins ARE the transform models

`call_denotes` reduces a call in a program to `callBuiltin apply e vs` for arbitrary bodies `apply`. With the
bodies of `AwModel/Query/Pipeline.lean` (`pipeApply`: the `q2_*` wrappers of `aw_query/functions.py` over the
transform models of C09/C10/C15/C16) and the entry the GENERATED registry holds under each name, the call
protocol (`q2_function` dropping datastore and namespace, `q2_typecheck`, the arity test of `f(*args)`, the
`except TypeError` of `QFunction.interpret`) lets the argument values through unchanged and the call is the
transform model applied to them — for every event list, not for the sample of a test. (`other` = bodies the
model does not have; irrelevant here.) The correspondence check runs whole queries on the real interpreter with
the real bodies against `q pipe` (stream `pipeline`). -/
section Pipeline
open Aw Aw.Group Aw.Query.Pipeline AwProofs.Pipeline

/-- list of strings as a query value -/
def encStrs (l : List String) : Val := .list (l.map fun s => Val.str s.toList)

theorem decJs_enc (l : List JVal) : decJs (.list (l.map encJ)) = some l := by
  simp only [decJs, List.mapM_map]
  exact mapM_comp_some decJ encJ decJ_encJ l

local macro "call_simp" : tactic =>
  `(tactic| simp [callBuiltin, callEntry, inject, typecheck, Entry.accepts, PKind.checked, pipeApply,
      catchTypeError, n, encStrs, decJs_enc])

theorem builtin_nop (other : Apply) :
    ∃ e, lookupEntry Registry.registry (n "nop") = some e ∧
      callBuiltin (pipeApply other) e [] = .ok (.int 1) := by
  refine ⟨_, rfl, ?_⟩; call_simp

theorem builtin_concat (other : Apply) (l₁ l₂ : List Event) :
    ∃ e, lookupEntry Registry.registry (n "concat") = some e ∧
      callBuiltin (pipeApply other) e [encEvs l₁, encEvs l₂] = .ok (encEvs (l₁ ++ l₂)) := by
  refine ⟨_, rfl, ?_⟩; call_simp

theorem builtin_sum_durations (other : Apply) (l : List Event) :
    ∃ e, lookupEntry Registry.registry (n "sum_durations") = some e ∧
      callBuiltin (pipeApply other) e [encEvs l] = .ok (encTd (sumDurations l)) := by
  refine ⟨_, rfl, ?_⟩; call_simp

theorem builtin_limit_events (other : Apply) (l : List Event) (c : Int) :
    ∃ e, lookupEntry Registry.registry (n "limit_events") = some e ∧
      callBuiltin (pipeApply other) e [encEvs l, .int c] = .ok (encEvs (limitEvents l c)) := by
  refine ⟨_, rfl, ?_⟩; call_simp

theorem builtin_sort_by_timestamp (other : Apply) (l : List Event) :
    ∃ e, lookupEntry Registry.registry (n "sort_by_timestamp") = some e ∧
      callBuiltin (pipeApply other) e [encEvs l] = .ok (encEvs (sortByTimestamp l)) := by
  refine ⟨_, rfl, ?_⟩; call_simp

theorem builtin_sort_by_duration (other : Apply) (l : List Event) :
    ∃ e, lookupEntry Registry.registry (n "sort_by_duration") = some e ∧
      callBuiltin (pipeApply other) e [encEvs l] = .ok (encEvs (sortByDuration l)) := by
  refine ⟨_, rfl, ?_⟩; call_simp

/-- `filter_keyvals` keeps, `exclude_keyvals` drops (the wrappers pass `False` / `True`) -/
theorem builtin_filter_keyvals (other : Apply) (l : List Event) (k : String) (vals : List JVal) :
    ∃ e, lookupEntry Registry.registry (n "filter_keyvals") = some e ∧
      callBuiltin (pipeApply other) e [encEvs l, .str k.toList, .list (vals.map encJ)] =
        .ok (encEvs (filterKeyvals l k vals false)) := by
  refine ⟨_, rfl, ?_⟩; call_simp

theorem builtin_exclude_keyvals (other : Apply) (l : List Event) (k : String) (vals : List JVal) :
    ∃ e, lookupEntry Registry.registry (n "exclude_keyvals") = some e ∧
      callBuiltin (pipeApply other) e [encEvs l, .str k.toList, .list (vals.map encJ)] =
        .ok (encEvs (filterKeyvals l k vals true)) := by
  refine ⟨_, rfl, ?_⟩; call_simp

/-- an unhashable value under one of the keys (`TypeError` inside the body) reaches the user as the
    interpreter's "invalid amount of arguments" error: that is what `QFunction.interpret` does with any
    `TypeError` of the call -/
theorem builtin_merge_events_by_keys (other : Apply) (l : List Event) (keys : List String) :
    ∃ e, lookupEntry Registry.registry (n "merge_events_by_keys") = some e ∧
      callBuiltin (pipeApply other) e [encEvs l, encStrs keys] =
        match mergeEventsByKeys l keys with
        | .ok o => .ok (encEvs o)
        | .error .typeError => .error (.interp "Tried to call function with invalid amount of arguments") := by
  refine ⟨_, rfl, ?_⟩
  simp [callBuiltin, callEntry, inject, typecheck, Entry.accepts, PKind.checked, pipeApply, n, encStrs]
  cases mergeEventsByKeys l keys with
  | ok o => simp [catchTypeError]
  | error e => cases e; simp [catchTypeError]

theorem builtin_chunk_events_by_key (other : Apply) (l : List Event) (k : String) :
    ∃ e, lookupEntry Registry.registry (n "chunk_events_by_key") = some e ∧
      callBuiltin (pipeApply other) e [encEvs l, .str k.toList] =
        .ok (.list ((chunkEventsByKey l k defaultPulse).map (encChunk k))) := by
  refine ⟨_, rfl, ?_⟩; call_simp

theorem builtin_filter_period_intersect (other : Apply) (l f : List Event) :
    ∃ e, lookupEntry Registry.registry (n "filter_period_intersect") = some e ∧
      callBuiltin (pipeApply other) e [encEvs l, encEvs f] = .ok (encEvs (Intersect.isect l f)) := by
  refine ⟨_, rfl, ?_⟩; call_simp

theorem builtin_period_union (other : Apply) (l₁ l₂ : List Event) :
    ∃ e out, lookupEntry Registry.registry (n "period_union") = some e ∧
      Intersect.periodUnion ([] : Data) l₁ l₂ = .ok out ∧
      callBuiltin (pipeApply other) e [encEvs l₁, encEvs l₂] = .ok (encEvs out) := by
  obtain ⟨out, ho⟩ := AwProofs.C09.union_never_raises ([] : Data) l₁ l₂
  refine ⟨_, out, rfl, ho, ?_⟩
  simp [callBuiltin, callEntry, inject, typecheck, Entry.accepts, PKind.checked, pipeApply, catchTypeError, n, ho]

theorem builtin_flood (other : Apply) (l : List Event) :
    ∃ e, lookupEntry Registry.registry (n "flood") = some e ∧
      callBuiltin (pipeApply other) e [encEvs l] = .ok (encEvs (Flood.flood defaultPulse l)) := by
  refine ⟨_, rfl, ?_⟩; call_simp

theorem builtin_union_no_overlap (other : Apply) (l₁ l₂ : List Event) :
    ∃ e, lookupEntry Registry.registry (n "union_no_overlap") = some e ∧
      callBuiltin (pipeApply other) e [encEvs l₁, encEvs l₂] =
        .ok (encEvs ((Unov.unov l₁ l₂).map (·.2))) := by
  refine ⟨_, rfl, ?_⟩; call_simp

/-- `q2_typecheck` in front of a modelled builtin: a first argument that is not a list (an integer, a string,
    a dict, an event, a timedelta) is a query FUNCTION error and the body is never entered -/
theorem builtin_rejects_non_list (other : Apply) (v : Val) (rest : List Val) (hv : typeOk .list v = false)
    (nm : Str) (e : Entry) (hn : nm ∈ [n "concat", n "sum_durations", n "limit_events", n "sort_by_timestamp",
      n "sort_by_duration", n "filter_keyvals", n "exclude_keyvals", n "merge_events_by_keys",
      n "chunk_events_by_key", n "filter_period_intersect", n "period_union", n "flood", n "union_no_overlap"])
    (he : lookupEntry Registry.registry nm = some e) :
    callBuiltin (pipeApply other) e (v :: rest) =
      .error (.func "Variable passed to function call is of invalid type") := by
  simp only [List.mem_cons, List.not_mem_nil, or_false] at hn
  rcases hn with rfl | rfl | rfl | rfl | rfl | rfl | rfl | rfl | rfl | rfl | rfl | rfl | rfl <;>
  · cases he
    simp [callBuiltin, callEntry, inject, typecheck, PKind.checked, hv, catchTypeError]


/-- the program `RETURN = sum_durations(merge_events_by_keys(query_bucket(b), keys));` -/
def totalOfMerged (b : Str) (keys : List String) : Prog :=
  [(returnName, .call (n "sum_durations") [.call (n "merge_events_by_keys")
      [.call nameQueryBucket [.str b], .list (keys.map fun k => Expr.str k.toList)]])]

/-- END TO END, in the model: the query `RETURN = sum_durations(merge_events_by_keys(query_bucket(b), keys));` denotes the
    total duration of the events the windowed read of `b` returns — the reads of C03/C12, the call protocol, the `q2_*`
    wrappers and C16's conservation law (`merge_total_duration`) composed into one statement about what the query yields -/
theorem total_of_merged (r : Reads Data) (S E : Int) (other : Apply) (env : Ns) (b : Str) (keys : List String)
    (evs out : List Event) (hq : queryBucket r (String.ofList b) S E = .ok evs)
    (hm : mergeEventsByKeys evs keys = .ok out) :
    denoteProg Registry.registry (fullApply r S E other) env (totalOfMerged b keys) =
      .ok (encTd (sumDurations evs)) := by
  have hsum : sumDurations out = sumDurations evs := by
    rw [sumDurations_eq_durSum, sumDurations_eq_durSum]; exact AwProofs.C16.merge_total_duration evs keys out hm
  -- the read
  have hq' : denote Registry.registry (fullApply r S E other) (baseNs ++ env) (.call nameQueryBucket [.str b]) =
      .ok (encEvs evs) := by
    rw [call_denotes (fullApply r S E other) (baseNs ++ env) nameQueryBucket [.str b] _ [.str b] rfl (by simp [denoteList, denote, Except.bind, Except.map])]
    simp [callBuiltin, callEntry, inject, typecheck, Entry.accepts, PKind.checked, fullApply, dsApply, nameQueryBucket, hq,
      catchTypeError, encEvs, Pipeline.enc]
  -- the merge
  obtain ⟨em, hem, hcm⟩ := builtin_merge_events_by_keys other evs keys
  have hm' : denote Registry.registry (fullApply r S E other) (baseNs ++ env)
      (.call (n "merge_events_by_keys") [.call nameQueryBucket [.str b], .list (keys.map fun k => Expr.str k.toList)]) =
      .ok (encEvs out) := by
    rw [call_denotes (fullApply r S E other) (baseNs ++ env) _ _ em [encEvs evs, encStrs keys] hem
      (by rw [denoteList, hq']; simp [denoteList, denote, denoteList_strs, Except.bind, Except.map, encStrs])]
    rw [callBuiltin_fullApply r S E other em _ (by cases hem; decide), hcm, hm]
  -- the sum
  obtain ⟨es, hes, hcs⟩ := builtin_sum_durations other out
  have hs' : denote Registry.registry (fullApply r S E other) (baseNs ++ env)
      (.call (n "sum_durations") [.call (n "merge_events_by_keys")
        [.call nameQueryBucket [.str b], .list (keys.map fun k => Expr.str k.toList)]]) = .ok (encTd (sumDurations evs)) := by
    rw [call_denotes (fullApply r S E other) (baseNs ++ env) _ _ es [encEvs out] hes
      (by rw [denoteList, hm']; simp [denoteList, Except.bind, Except.map])]
    rw [callBuiltin_fullApply r S E other es _ (by cases hes; decide), hcs, hsum]
  simp only [denoteProg, totalOfMerged, denoteStmts, hs', Except.bind, get_set_self]

/-- … and so does its TEXT, whatever the spacing, line breaks and quote style (`query_means_text`) -/
theorem total_of_merged_text (r : Reads Data) (S E : Int) (other : Apply) (env : Ns) (b : Str) (keys : List String)
    (evs out : List Event) (l : Layout) (hw : WFProg (totalOfMerged b keys)) (hl : LayoutOK l)
    (hq : queryBucket r (String.ofList b) S E = .ok evs) (hm : mergeEventsByKeys evs keys = .ok out) :
    runQuery Registry.registry (fullApply r S E other) env (render (totalOfMerged b keys) l) =
      .ok (encTd (sumDurations evs)) := by
  rw [query_means_text _ env _ l hw hl]; exact total_of_merged r S E other env b keys evs out hq hm

/- Non-vacuity: `RETURN = sum_durations(merge_events_by_keys(query_bucket("win"), ["app", "title"]));` is well-formed -/
example : WFProg (totalOfMerged "win".toList ["app", "title"]) := by
  simp [totalOfMerged, WFProg, WF, WFList, StrOK, Ident, returnName, nameQueryBucket, n]
  decide


/-- the program `RETURN = flood(query_bucket(b));` -/
def floodOfRead (b : Str) : Prog :=
  [(returnName, .call (n "flood") [.call nameQueryBucket [.str b]])]

/-- END TO END: the query `RETURN = flood(query_bucket(b));` denotes the flooded windowed read of `b` (5 s pulsetime); every
    event it returns has positive length (C10.out_positive), and when the read is a C10 input (non-overlapping, distinct
    timestamps) all time the read covers is still covered (C10.input_time_covered) -/
theorem flood_of_read (r : Reads Data) (S E : Int) (other : Apply) (env : Ns) (b : Str) (evs : List Event)
    (hq : queryBucket r (String.ofList b) S E = .ok evs) :
    denoteProg Registry.registry (fullApply r S E other) env (floodOfRead b) =
        .ok (encEvs (Flood.flood defaultPulse evs)) ∧
      (∀ e ∈ Flood.flood defaultPulse evs, 0 < e.dur) ∧
      (AwProofs.C10.Input evs → ∀ t, Aw.Flood.cov evs t → Aw.Flood.cov (Flood.flood defaultPulse evs) t) := by
  refine ⟨?_, AwProofs.C10.out_positive defaultPulse evs, fun hI t h => AwProofs.C10.input_time_covered defaultPulse evs hI t h⟩
  have hq' : denote Registry.registry (fullApply r S E other) (baseNs ++ env) (.call nameQueryBucket [.str b]) =
      .ok (encEvs evs) := by
    rw [call_denotes (fullApply r S E other) (baseNs ++ env) nameQueryBucket [.str b] _ [.str b] rfl (by simp [denoteList, denote, Except.bind, Except.map])]
    simp [callBuiltin, callEntry, inject, typecheck, Entry.accepts, PKind.checked, fullApply, dsApply, nameQueryBucket, hq,
      catchTypeError, encEvs, Pipeline.enc]
  obtain ⟨ef, hef, hcf⟩ := builtin_flood other evs
  have hf' : denote Registry.registry (fullApply r S E other) (baseNs ++ env)
      (.call (n "flood") [.call nameQueryBucket [.str b]]) = .ok (encEvs (Flood.flood defaultPulse evs)) := by
    rw [call_denotes (fullApply r S E other) (baseNs ++ env) _ _ ef [encEvs evs] hef
      (by rw [denoteList, hq']; simp [denoteList, Except.bind, Except.map])]
    rw [callBuiltin_fullApply r S E other ef _ (by cases hef; decide), hcf]
  simp only [denoteProg, floodOfRead, denoteStmts, hf', Except.bind, get_set_self]

end Pipeline

/- Non-vacuity: the hypotheses are satisfiable on non-trivial inputs. The F10 witness program
   `RETURN = filter_keyvals(query_bucket("b"),"app",["a0"]);` is well-formed, and a layout that
   puts a blank and a newline everywhere is admissible. -/
example : WFProg [("RETURN".toList, .call "filter_keyvals".toList
    [.call "query_bucket".toList [.str "b".toList], .str "app".toList, .list [.str "a0".toList]])] := by
  simp [WFProg, WF, WFList, StrOK, Ident]
  decide
example : LayoutOK ⟨fun _ => [' ', '\n'], fun p => p.length % 2 == 0⟩ := by
  intro p c hc; simp at hc; rcases hc with rfl | rfl <;> decide

end AwProofs.C11
