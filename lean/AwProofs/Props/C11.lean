import AwModel.Query.Render
import AwModel.Query.RegistryGen
namespace AwProofs.C11
end AwProofs.C11
