import AwProofs.Lemmas.QueryRun
import AwModel.Query.RegistryGen
/-!
# C11 — a query means what its text says: literals, variables and calls compose

Property theorems only, over the model of the REPAIRED parser/interpreter
(`AwModel/Query/{Scan,Parse,Interp}.lean`) and the reference semantics
(`AwModel/Query/{Reference,Render}.lean`: abstract syntax `Expr`/`Prog`, `denote`, and
`render : Prog → Layout → Str`).

All three stages planned in DESIGN.md §8 C11 are reached and proved together, without extra
hypotheses (no `_partial` theorem in this file):
1. programs rendered without whitespace and without escaped quotes,
2. arbitrary ASCII whitespace (any `str.strip()` blank, incl. newlines and `\x1c`–`\x1f`) before
   and after every `,` `:` `=` `;` — the layout `l` is an arbitrary function with `LayoutOK l`,
3. string literals in either quote style (chosen per literal by the layout) with their own quote
   character escaped as `\q`.

`WF` (the well-formed programs): identifiers `[A-Za-z_][A-Za-z0-9_]*`, natural-number literals of at
most `maxIntDigits` = 4300 digits (CPython's default `sys.get_int_max_str_digits()`: the runtime's
`int()` refuses longer digit strings, and the repaired `QInteger.parse` reports them as a parse
error - being readable by the interpreter's runtime is part of what a well-formed program is),
string values without `;` and without backslash (brackets, commas, both quotes, `=`, `:` allowed),
dict literals with distinct keys, any number of arguments / elements at any nesting depth. The
registry and the builtin bodies (`apply`) are arbitrary; the statements hold in particular for the
registry generated from the source. Whitespace directly inside brackets is not part of the claim.
-/
namespace AwProofs.C11
open Aw.Query

/-- per expression: `_parse_token` reads exactly the rendered expression off the front of the text
    (after any blanks `w`, before any continuation `k` that starts like a separator), classifies
    it correctly, and the class's `parse` method rebuilds the expression's token tree -/
theorem expr_parse_render (ns : Ns) (e : Expr) (l : Layout) (hw : WF e) (hl : LayoutOK l) :
    (∀ (w k : Str), (∀ c ∈ w, isSpace c = true) → Delim k → Tail k →
        parseToken (w ++ (renderExpr l e ++ k)) = .ok (some (tyOf e, renderExpr l e), k)) ∧
    (∀ fuel, 2 * (renderExpr l e).length + 1 ≤ fuel →
        parseTok ns fuel (tyOf e) (renderExpr l e) = .ok (tokOf ns e)) ∧
    interp Registry.registry apply (tokOf ns e) ns =
      (denote Registry.registry apply ns e).map (fun v => (v, ns)) :=
  ⟨fun _ _ hws hk hkt => parseToken_render e l hw hl hws hk hkt,
   fun fuel hf => parseTok_render ns e hw l fuel hl hf,
   interp_tokOf Registry.registry apply e ns⟩

/-- per statement: the text of a program splits into its statements, and `parse(line)` on the
    `i`-th one yields the assigned name and the expression's token tree -/
theorem stmt_parse_render (ns : Ns) (p : Prog) (l : Layout) (hw : WFProg p) (hl : LayoutOK l) :
    statements (render p l) = linesOf l 0 p ∧
    ∀ (i : Nat) (name : Str) (e : Expr), Ident name → WF e →
      parseStmt ns (lineOf l i name e) = .ok (name, tokOf ns e) :=
  ⟨statements_render hl p 0 hw, fun i _ _ hn he => parseStmt_lineOf ns hl i hn he⟩

/-- the property: running the text of a well-formed program, under any layout, gives exactly the
    value (or error) the program denotes — for every registry-respecting builtin semantics
    `apply`, every environment -/
theorem query_means_text (apply : Apply) (env : Ns) (p : Prog) (l : Layout) (hw : WFProg p)
    (hl : LayoutOK l) :
    runQuery Registry.registry apply env (render p l) = denoteProg Registry.registry apply env p := by
  unfold runQuery denoteProg render
  rw [statements_render hl p 0 hw, runStmts_lines Registry.registry apply hl p 0 _ hw]
  cases denoteStmts Registry.registry apply p (baseNs ++ env) with
  | error e => rfl
  | ok ns =>
    simp only [exceptBind_ok]
    cases ns.get? returnName <;> rfl

/-- spacing, line breaks and quote style do not change the result -/
theorem layout_independent (apply : Apply) (env : Ns) (p : Prog) (l₁ l₂ : Layout) (hw : WFProg p)
    (h₁ : LayoutOK l₁) (h₂ : LayoutOK l₂) :
    runQuery Registry.registry apply env (render p l₁) =
      runQuery Registry.registry apply env (render p l₂) := by
  rw [query_means_text apply env p l₁ hw h₁, query_means_text apply env p l₂ hw h₂]

/-- what a call denotes: the named builtin applied (through the call protocol of C17) to the
    values of all its arguments in written order -/
theorem call_denotes (apply : Apply) (ns : Ns) (f : Str) (args : List Expr) (e : Entry)
    (vs : List Val) (hf : lookupEntry Registry.registry f = some e)
    (hargs : denoteList Registry.registry apply ns args = .ok vs) :
    denote Registry.registry apply ns (.call f args) = callBuiltin apply e vs := by
  rw [denote, hf]; simp only [hargs]; rfl

/-- arguments are evaluated in written order, all of them -/
theorem args_in_order (apply : Apply) (ns : Ns) (e : Expr) (es : List Expr) (v : Val) (vs : List Val)
    (h1 : denote Registry.registry apply ns e = .ok v)
    (h2 : denoteList Registry.registry apply ns es = .ok vs) :
    denoteList Registry.registry apply ns (e :: es) = .ok (v :: vs) := by
  rw [denoteList, h1]; simp only [exceptBind_ok, h2]; rfl

/- Non-vacuity: the hypotheses are satisfiable on non-trivial inputs. The F10 witness program
   `RETURN = filter_keyvals(query_bucket("b"),"app",["a0"]);` is well-formed, and a layout that
   puts a blank and a newline everywhere is admissible. -/
example : WFProg [("RETURN".toList, .call "filter_keyvals".toList
    [.call "query_bucket".toList [.str "b".toList], .str "app".toList, .list [.str "a0".toList]])] := by
  simp [WFProg, WF, WFList, StrOK, Ident]
  decide
example : LayoutOK ⟨fun _ => [' ', '\n'], fun p => p.length % 2 == 0⟩ := by
  intro p c hc; simp at hc; rcases hc with rfl | rfl <;> decide

end AwProofs.C11
