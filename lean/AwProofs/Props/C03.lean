import AwProofs.Lemmas.StoreReads
/-!
# C03 — Time-window reads return exactly the intersecting events, newest first, limited

Property theorems only (proofs are in `Lemmas/StoreReads.lean`). `st`/`en` of the backend read
functions are the window bounds as the storage layer receives them; `Bucket.get` rounds the
requested window first (`roundWin`: start floored to the millisecond, end floored plus one
millisecond) — `window_tolerance` says what that costs: nothing inside the requested window is
lost and nothing further than 1 ms outside it is admitted, well inside the property's "about 2 ms".
`inWindow st en e` is the closed-interval test `st ≤ e.ts + e.dur ∧ e.ts ≤ en`.

Hypotheses the proofs forced (each is at an excluded point where the real code was run, DESIGN §8 C03):
* sqlite: none any more. History of repair F22: without a start bound the statement used to filter
  `endtime >= 0`, so completeness (then `complete_sqlite_partial`) and the count inequality needed
  the event(s) to end at or after the epoch, and soundness recorded the extra filter; since the
  repair such a read has no lower bound and `sound_sqlite`, `complete_sqlite`,
  `count_agrees_sqlite` have the shape of the memory theorems
  (`sqlite_before_epoch_now_read`: the former counterexample, now read);
* peewee: the 24 h prefilter (events up to 24 h long, as the property says); the exact-arithmetic
  range filter stands for SQLite's `julianday`/`strftime` expression, whose error (< 1 ms) is a
  parameter compared tolerantly by the correspondence check.
-/
namespace AwProofs.C03
open Aw Aw.Store
variable {D : Type}

/-- rounding of the requested window by `Bucket.get`: the start moves down by less than 1 ms -/
theorem round_start (s : Int) (en : Option Int) (s' : Int)
    (h : (roundWin (some s) en).1 = some s') : s' ≤ s ∧ s < s' + 1000 :=
  roundWin_start_le s en s' h

/-- … and the end moves up by at most 1 ms -/
theorem round_end (st : Option Int) (e : Int) (e' : Int)
    (h : (roundWin st (some e)).2 = some e') : e < e' ∧ e' ≤ e + 1000 :=
  roundWin_end_ge st e e' h

/-- edges are honoured to the store's millisecond resolution -/
theorem window_tolerance (st en : Option Int) (x : Ev D) :
    (inWindow st en x = true → inWindow (roundWin st en).1 (roundWin st en).2 x = true) ∧
    (inWindow (roundWin st en).1 (roundWin st en).2 x = true →
      (∀ a, st = some a → a - 1000 < x.ts + x.dur) ∧ (∀ z, en = some z → x.ts ≤ z + 1000)) :=
  Aw.Store.window_tolerance st en x

/-! ## sqlite -/

/-- soundness: every returned event is a stored event of the bucket that reaches into the window -/
theorem sound_sqlite (s : Sqlite.St D) (b : String) (limit : Int) (st en : Option Int) (x : Ev D)
    (hx : x ∈ Sqlite.getEvents s b limit st en) :
    ∃ m es, Sqlite.view s b = some (m, es) ∧ x ∈ es ∧ inWindow st en x = true :=
  Sqlite.get_sound s b limit st en x hx

/-- completeness: every stored event of the bucket that reaches into the window is returned by an
    unlimited read, with or without a start bound (repaired, F22; this replaces
    `complete_sqlite_partial`, which required `st = none → 0 ≤ e.ts + e.dur`) -/
theorem complete_sqlite (s : Sqlite.St D) (b : String) (limit : Int) (hl : limit < 0)
    (st en : Option Int) (m : Meta) (es : List (Ev D)) (hv : Sqlite.view s b = some (m, es))
    (e : Ev D) (he : e ∈ es) (hw : inWindow st en e = true) :
    e ∈ Sqlite.getEvents s b limit st en :=
  Sqlite.get_complete s b limit hl st en m es hv e he hw

/-- ordered by timestamp descending (ties by id descending) -/
theorem sorted_desc_sqlite (s : Sqlite.St D) (b : String) (limit : Int) (st en : Option Int) :
    List.Pairwise (fun a b => b.ts < a.ts ∨ (b.ts = a.ts ∧ ∀ i j, a.id = some i → b.id = some j → j ≤ i))
      (Sqlite.getEvents s b limit st en) :=
  Sqlite.get_sorted_lex s b limit st en

/-- limit: 0 → none, positive → the newest `limit`, negative → all -/
theorem limit_sqlite (s : Sqlite.St D) (b : String) (st en : Option Int) :
    Sqlite.getEvents s b 0 st en = [] ∧
    (∀ limit, 0 < limit → Sqlite.getEvents s b limit st en = (Sqlite.getEvents s b (-1) st en).take limit.toNat) ∧
    (∀ limit, limit < 0 → Sqlite.getEvents s b limit st en = Sqlite.getEvents s b (-1) st en) :=
  ⟨Sqlite.get_limit_zero s b st en, fun l hl => Sqlite.get_limit_pos s b l hl st en,
   fun l hl => Sqlite.get_limit_neg s b l hl st en⟩

/-- the count of a window is the number of events a read of the same window returns, and never
    more than a read of the rounded window returns -/
theorem count_agrees_sqlite (s : Sqlite.St D) (b : String) (st en : Option Int) :
    Sqlite.getEventcount s b st en = (Sqlite.getEvents s b (-1) st en).length ∧
    Sqlite.getEventcount s b st en ≤ (Sqlite.getEvents s b (-1) (roundWin st en).1 (roundWin st en).2).length :=
  ⟨Sqlite.count_eq s b st en, Sqlite.count_le_get_rounded s b st en⟩

/-- History of repair F22. On this state (bucket "a" holds three events, one of them ending before
    1970) the old read without a start bound returned only the two events ending at or after the
    epoch (`Sqlite.get_complete_counterexample`, the reason for `complete_sqlite_partial`). The
    repaired read returns all three, the pre-1970 event last, and the count agrees. -/
theorem sqlite_before_epoch_now_read :
    Sqlite.view Sqlite.exReads "a" = some (default,
      [⟨some 1, 5000, 4000, ()⟩, ⟨some 3, 5000, 0, ()⟩, ⟨some 4, -9000, 1000, ()⟩]) ∧
    Sqlite.getEvents Sqlite.exReads "a" (-1) none none
      = [⟨some 3, 5000, 0, ()⟩, ⟨some 1, 5000, 4000, ()⟩, ⟨some 4, -9000, 1000, ()⟩] ∧
    Sqlite.getEvents Sqlite.exReads "a" (-1) none (some (-8500)) = [⟨some 4, -9000, 1000, ()⟩] ∧
    Sqlite.getEventcount Sqlite.exReads "a" none none = 3 :=
  ⟨Sqlite.get_complete_before_epoch_now_read.1, Sqlite.get_complete_before_epoch_now_read.2.2.1,
   by decide, Sqlite.get_complete_before_epoch_now_read.2.2.2⟩

/-! ## memory -/

theorem sound_memory (s : Memory.St D) (b : String) (limit : Int) (st en : Option Int) (r : List (Ev D))
    (hr : Memory.getEvents s b limit st en = .ok r) (x : Ev D) (hx : x ∈ r) :
    ∃ m es, Memory.view s b = some (m, es) ∧ x ∈ es ∧ inWindow st en x = true :=
  Memory.get_sound s b limit st en r hr x hx

theorem complete_memory (s : Memory.St D) (b : String) (limit : Int) (hl : limit < 0) (st en : Option Int)
    (m : Meta) (es : List (Ev D)) (hv : Memory.view s b = some (m, es))
    (e : Ev D) (he : e ∈ es) (hw : inWindow st en e = true) :
    ∃ r, Memory.getEvents s b limit st en = .ok r ∧ e ∈ r :=
  Memory.get_complete s b limit hl st en m es hv e he hw

theorem sorted_desc_memory (s : Memory.St D) (b : String) (limit : Int) (st en : Option Int) (r : List (Ev D))
    (hr : Memory.getEvents s b limit st en = .ok r) :
    List.Pairwise (fun a b => b.ts ≤ a.ts) r :=
  Memory.get_sorted s b limit st en r hr

theorem limit_memory (s : Memory.St D) (b : String) (st en : Option Int) :
    (∀ r, Memory.getEvents s b 0 st en = .ok r → r = []) ∧
    (∀ limit, 0 < limit → Memory.getEvents s b limit st en =
        (Memory.getEvents s b (-1) st en).map (fun l => l.take limit.toNat)) ∧
    (∀ limit, limit < 0 → Memory.getEvents s b limit st en = Memory.getEvents s b (-1) st en) :=
  ⟨fun r hr => Memory.get_limit_zero s b st en r hr, fun l hl => Memory.get_limit_pos s b l hl st en,
   fun l hl => Memory.get_limit_neg s b l hl st en⟩

theorem count_agrees_memory (s : Memory.St D) (b : String) (st en : Option Int) :
    Memory.getEventcount s b st en = (Memory.getEvents s b (-1) st en).map List.length ∧
    (∀ n, Memory.getEventcount s b st en = .ok n →
      ∃ r, Memory.getEvents s b (-1) (roundWin st en).1 (roundWin st en).2 = .ok r ∧ n ≤ r.length) :=
  ⟨Memory.count_eq s b st en, fun n hn => Memory.count_le_get_rounded s b st en n hn⟩

/-- a read or a count on a missing bucket raises KeyError, and only then -/
theorem missing_memory (s : Memory.St D) (b : String) (limit : Int) (st en : Option Int) (e : Err) :
    Memory.getEvents s b limit st en = .error e ↔ e = .keyError ∧ Memory.view s b = none :=
  Memory.getEvents_error_iff s b limit st en e

/-! ## peewee (the backend that clips); `dec` is the row decoder (identity, or the duration codec) -/

/-- soundness with clipping: every returned event is a stored event that reaches into the window,
    cut to the window, and nothing else -/
theorem sound_peewee (s : Peewee.St D) (hc : Peewee.CacheOk s) (b : String) (limit : Int) (st en : Option Int)
    (dec : Ev D → Ev D) (r : List (Ev D)) (hr : Peewee.getEvents s b limit st en dec = .ok r)
    (x : Ev D) (hx : x ∈ r) :
    ∃ m es e, Peewee.view s b = some (m, es) ∧ e ∈ es ∧ x = Peewee.clip st en (dec e) ∧
      inWindow st en e = true ∧ (∀ a, st = some a → a - 86400000000 ≤ e.ts) :=
  Peewee.get_sound s hc b limit st en dec r hr x hx

/-- completeness for events up to 24 h long -/
theorem complete_peewee (s : Peewee.St D) (hc : Peewee.CacheOk s) (b : String) (limit : Int) (hl : limit < 0)
    (st en : Option Int) (dec : Ev D → Ev D) (m : Meta) (es : List (Ev D))
    (hv : Peewee.view s b = some (m, es)) (e : Ev D) (he : e ∈ es) (hw : inWindow st en e = true)
    (hd : e.dur ≤ 86400000000) :
    ∃ r, Peewee.getEvents s b limit st en dec = .ok r ∧ Peewee.clip st en (dec e) ∈ r :=
  Peewee.get_complete s hc b limit hl st en dec m es hv e he hw hd

/-- the clipped event: same id and data, interval = stored interval ∩ window -/
theorem peewee_clip (st en : Option Int) (e : Ev D) :
    (Peewee.clip st en e).id = e.id ∧ (Peewee.clip st en e).data = e.data ∧
    ((Peewee.clip st en e).ts = match st with | some a => max e.ts a | none => e.ts) ∧
    ((Peewee.clip st en e).ts + (Peewee.clip st en e).dur =
      match en with | some z => min (e.ts + e.dur) z | none => e.ts + e.dur) :=
  Peewee.peewee_clip_exact st en e

theorem sorted_desc_peewee (s : Peewee.St D) (b : String) (limit : Int) (st en : Option Int)
    (dec : Ev D → Ev D) (hdec : ∀ e, (dec e).ts = e.ts) (r : List (Ev D))
    (hr : Peewee.getEvents s b limit st en dec = .ok r) :
    List.Pairwise (fun a b => b.ts ≤ a.ts) r :=
  Peewee.get_sorted s b limit st en dec hdec r hr

theorem limit_peewee (s : Peewee.St D) (b : String) (st en : Option Int) (dec : Ev D → Ev D) :
    Peewee.getEvents s b 0 st en dec = .ok [] ∧
    (∀ limit, 0 < limit → Peewee.getEvents s b limit st en dec =
        (Peewee.getEvents s b (-1) st en dec).map (fun l => l.take limit.toNat)) ∧
    (∀ limit, limit < 0 → Peewee.getEvents s b limit st en dec = Peewee.getEvents s b (-1) st en dec) :=
  ⟨Peewee.get_limit_zero s b st en dec, fun l hl => Peewee.get_limit_pos s b l hl st en dec,
   fun l hl => Peewee.get_limit_neg s b l hl st en dec⟩

theorem count_agrees_peewee (s : Peewee.St D) (b : String) (st en : Option Int) (dec : Ev D → Ev D) :
    Peewee.getEventcount s b st en = (Peewee.getEvents s b (-1) st en dec).map List.length ∧
    (∀ n, Peewee.getEventcount s b st en = .ok n →
      ∃ r, Peewee.getEvents s b (-1) (roundWin st en).1 (roundWin st en).2 dec = .ok r ∧ n ≤ r.length) :=
  ⟨Peewee.count_eq s b st en dec, fun n hn => Peewee.count_le_get_rounded s b st en dec n hn⟩

/-- the hypotheses are satisfiable: on a concrete two-event bucket a windowed read returns exactly
    the intersecting event -/
example : Memory.getEvents (D := Nat)
    [("b", (default, [⟨some 0, 0, 5000, 1⟩, ⟨some 1, 10000, 1000, 2⟩]))] "b" (-1) (some 6000) none
    = .ok [⟨some 1, 10000, 1000, 2⟩] := by rfl

/-- `complete_sqlite` and `sound_sqlite` on a state containing an event that ends before the epoch
    (negative instants), read without a start bound: the repaired read returns it -/
example : (⟨some 4, -9000, 1000, ()⟩ : Ev Unit) ∈ Sqlite.getEvents Sqlite.exReads "a" (-1) none (some 6000) :=
  complete_sqlite Sqlite.exReads "a" (-1) (by decide) none (some 6000) default _
    sqlite_before_epoch_now_read.1 _ (by decide) (by decide)
example := sound_sqlite Sqlite.exReads "a" (-1) none (some 6000) ⟨some 4, -9000, 1000, ()⟩ (by decide)
example : Sqlite.getEventcount Sqlite.exReads "a" none (some (-8500)) = 1 ∧
    (Sqlite.getEvents Sqlite.exReads "a" (-1) (roundWin none (some (-8500))).1
      (roundWin none (some (-8500))).2).length = 1 :=
  ⟨by decide, by decide⟩
example := count_agrees_sqlite Sqlite.exReads "a" none (some (-8500))

end AwProofs.C03
