import AwModel.Store.Sqlite
/-! # C03 — placeholder while the read theorems are being written (no claims yet) -/
namespace AwProofs.C03
end AwProofs.C03
