import AwModel.Store.Sqlite
/-! # C04 — placeholder while the frame theorems are being written (no claims yet) -/
namespace AwProofs.C04
end AwProofs.C04
