import AwProofs.Lemmas.StoreOpsSqlite
import AwProofs.Lemmas.StoreOpsMemory
import AwProofs.Lemmas.StoreOpsPeewee
import AwProofs.Lemmas.StoreOpsSpec
/-!
# C04 — Operations addressed to one bucket never change any other bucket

Property theorems only. `Op D` (`AwProofs/Lemmas/StoreOps.lean`) is the write API as data:
create / update / delete bucket, insert, insert-many (with upserts), replace, replace-last, delete;
`B.step s op` is backend `B`'s state after `op` (a rejected operation leaves the state as it was),
`B.run` its left fold, `B.view` what a client reads back: bucket id ↦ (metadata, events in storage
order). `B.Inv` is the backend's data invariant; it holds in the empty store and after every step,
so in every reachable state (`reachable_inv_*`).

Every statement is for ALL operations with ALL arguments: ids of other buckets, ids that never
existed, missing buckets, events whose instants coincide with events elsewhere, any payload type.
-/
namespace AwProofs.C04
open Aw Aw.Store
variable {D : Type}

/-! ## Sqlite -/

/-- every step preserves the data invariant -/
theorem inv_step_sqlite {s : Sqlite.St D} (hI : Sqlite.Inv s) (op : Op D) :
    Sqlite.Inv (Sqlite.step s op) := Sqlite.inv_step hI op

/-- every state reachable from the empty store satisfies the invariant -/
theorem reachable_inv_sqlite (ops : List (Op D)) : Sqlite.Inv (Sqlite.run ({} : Sqlite.St D) ops) :=
  inv_foldl Sqlite.step Sqlite.Inv (fun _ op h => Sqlite.inv_step h op) ops _ Sqlite.inv_init

/-- one operation, any arguments: every bucket other than the addressed one reads back (metadata
    and events) exactly as before -/
theorem frame_sqlite {s : Sqlite.St D} (hI : Sqlite.Inv s) (op : Op D) {b' : String}
    (hb : b' ≠ op.bucket) : Sqlite.view (Sqlite.step s op) b' = Sqlite.view s b' :=
  Sqlite.only_step hI op b' hb

/-- a whole history that never addresses `b'` leaves `b'` exactly as it was -/
theorem frame_run_sqlite {s : Sqlite.St D} (hI : Sqlite.Inv s) (ops : List (Op D)) {b' : String}
    (hb : ∀ op ∈ ops, op.bucket ≠ b') : Sqlite.view (Sqlite.run s ops) b' = Sqlite.view s b' :=
  frame_foldl Sqlite.view Sqlite.step Sqlite.Inv (fun _ op h => Sqlite.inv_step h op)
    (fun _ op h => Sqlite.only_step h op) ops s hI b' hb

/-- a rejected operation (the model function answers with an error) changes nothing at all -/
theorem rejected_unchanged_sqlite (s : Sqlite.St D) (b : String) (x : Err) :
    (∀ m, Sqlite.createBucket s b m = .error x → Sqlite.step s (.create b m) = s) ∧
    (∀ u, Sqlite.updateBucket s b u = .error x → Sqlite.step s (.update b u) = s) ∧
    (Sqlite.deleteBucket s b = .error x → Sqlite.step s (.deleteBucket b) = s) ∧
    (∀ e, Sqlite.insertOne s b e = .error x → Sqlite.step s (.insert b e) = s) ∧
    (∀ es, Sqlite.insertMany s b es = .error x → Sqlite.step s (.insertMany b es) = s) := by
  refine ⟨?_, ?_, ?_, ?_, ?_⟩ <;> intros <;> simp only [Sqlite.step, *]

/-- replace / delete with an id that is not live in the addressed bucket (it may be live in another
    one) change no bucket at all -/
theorem foreign_id_noop_sqlite {s : Sqlite.St D} (hI : Sqlite.Inv s) {b : String} {i : Int}
    (hi : i ∉ Spec.ids (Sqlite.view s) b) (e : Ev D) :
    Sqlite.view (Sqlite.step s (.replace b i e)) = Sqlite.view s ∧
    Sqlite.view (Sqlite.step s (.delete b i)) = Sqlite.view s := by
  constructor
  · show Sqlite.view (Sqlite.replace s b i e) = _
    rw [Sqlite.replace_view hI, Spec.replaceId_notLive e hi]
  · show Sqlite.view (Sqlite.delete s b i).1 = _
    rw [(Sqlite.delete_view hI (s' := (Sqlite.delete s b i).1) (r := (Sqlite.delete s b i).2) rfl).1,
      Spec.delete_notLive hi]

/-! ## Memory -/

/-- every step preserves the data invariant -/
theorem inv_step_memory {s : Memory.St D} (hI : Memory.Inv s) (op : Op D) :
    Memory.Inv (Memory.step s op) := Memory.inv_step hI op

/-- every state reachable from the empty store satisfies the invariant -/
theorem reachable_inv_memory (ops : List (Op D)) : Memory.Inv (Memory.run ([] : Memory.St D) ops) :=
  inv_foldl Memory.step Memory.Inv (fun _ op h => Memory.inv_step h op) ops _ Memory.inv_init

/-- one operation, any arguments: every bucket other than the addressed one reads back exactly as
    before -/
theorem frame_memory {s : Memory.St D} (hI : Memory.Inv s) (op : Op D) {b' : String}
    (hb : b' ≠ op.bucket) : Memory.view (Memory.step s op) b' = Memory.view s b' :=
  Memory.only_step hI op b' hb

/-- a whole history that never addresses `b'` leaves `b'` exactly as it was -/
theorem frame_run_memory {s : Memory.St D} (hI : Memory.Inv s) (ops : List (Op D)) {b' : String}
    (hb : ∀ op ∈ ops, op.bucket ≠ b') : Memory.view (Memory.run s ops) b' = Memory.view s b' :=
  frame_foldl Memory.view Memory.step Memory.Inv (fun _ op h => Memory.inv_step h op)
    (fun _ op h => Memory.only_step h op) ops s hI b' hb

/-- a rejected operation changes nothing at all (`create_bucket` never rejects in this backend) -/
theorem rejected_unchanged_memory (s : Memory.St D) (b : String) (x : Err) :
    (∀ u, Memory.updateBucket s b u = .error x → Memory.step s (.update b u) = s) ∧
    (Memory.deleteBucket s b = .error x → Memory.step s (.deleteBucket b) = s) ∧
    (∀ e, Memory.insertOne s b e = .error x → Memory.step s (.insert b e) = s) ∧
    (∀ es, Memory.insertMany s b es = .error x → Memory.step s (.insertMany b es) = s) ∧
    (∀ i e, Memory.replace s b i e = .error x → Memory.step s (.replace b i e) = s) ∧
    (∀ h e, Memory.replaceLast s b e = .error x → Memory.step s (.replaceLast b h e) = s) ∧
    (∀ i, Memory.delete s b i = .error x → Memory.step s (.delete b i) = s) := by
  refine ⟨?_, ?_, ?_, ?_, ?_, ?_, ?_⟩ <;> intros <;> simp only [Memory.step, *]

/-- replace / delete with an id that is not live in the addressed bucket change no bucket at all -/
theorem foreign_id_noop_memory {s : Memory.St D} (hI : Memory.Inv s) {b : String} {i : Int}
    (hi : i ∉ Spec.ids (Memory.view s) b) (e : Ev D) :
    Memory.view (Memory.step s (.replace b i e)) = Memory.view s ∧
    Memory.view (Memory.step s (.delete b i)) = Memory.view s := by
  constructor
  · simp only [Memory.step]
    cases h : Memory.replace s b i e with
    | ok s' => simp only; rw [Memory.replace_view hI h, Spec.replaceId_notLive e hi]
    | error x => rfl
  · simp only [Memory.step]
    cases h : Memory.delete s b i with
    | ok p => obtain ⟨s', r⟩ := p; simp only; rw [(Memory.delete_view hI h).1, Spec.delete_notLive hi]
    | error x => rfl

/-! ## Peewee -/

/-- every step preserves the data invariant (cache coherence and foreign keys included) -/
theorem inv_step_peewee {s : Peewee.St D} (hI : Peewee.Inv s) (op : Op D) :
    Peewee.Inv (Peewee.step s op) := Peewee.inv_step hI op

/-- every state reachable from the empty store satisfies the invariant -/
theorem reachable_inv_peewee (ops : List (Op D)) : Peewee.Inv (Peewee.run ({} : Peewee.St D) ops) :=
  inv_foldl Peewee.step Peewee.Inv (fun _ op h => Peewee.inv_step h op) ops _ Peewee.inv_init

/-- one operation, any arguments (any `replace_last` hint included): every bucket other than the
    addressed one reads back exactly as before -/
theorem frame_peewee {s : Peewee.St D} (hI : Peewee.Inv s) (op : Op D) {b' : String}
    (hb : b' ≠ op.bucket) : Peewee.view (Peewee.step s op) b' = Peewee.view s b' :=
  Peewee.only_step hI op b' hb

/-- a whole history that never addresses `b'` leaves `b'` exactly as it was -/
theorem frame_run_peewee {s : Peewee.St D} (hI : Peewee.Inv s) (ops : List (Op D)) {b' : String}
    (hb : ∀ op ∈ ops, op.bucket ≠ b') : Peewee.view (Peewee.run s ops) b' = Peewee.view s b' :=
  frame_foldl Peewee.view Peewee.step Peewee.Inv (fun _ op h => Peewee.inv_step h op)
    (fun _ op h => Peewee.only_step h op) ops s hI b' hb

/-- a rejected operation changes nothing at all; neither does a `replace_last` whose hint names no
    newest event of the bucket -/
theorem rejected_unchanged_peewee (s : Peewee.St D) (b : String) (x : Err) :
    (∀ m, Peewee.createBucket s b m = .error x → Peewee.step s (.create b m) = s) ∧
    (∀ u, Peewee.updateBucket s b u = .error x → Peewee.step s (.update b u) = s) ∧
    (Peewee.deleteBucket s b = .error x → Peewee.step s (.deleteBucket b) = s) ∧
    (∀ e, Peewee.insertOne s b e = .error x → Peewee.step s (.insert b e) = s) ∧
    (∀ es, Peewee.insertMany s b es = .error x → Peewee.step s (.insertMany b es) = s) ∧
    (∀ i e, Peewee.replace s b i e = .error x → Peewee.step s (.replace b i e) = s) ∧
    (∀ h e, Peewee.replaceLast s b h e = .error x → Peewee.step s (.replaceLast b h e) = s) ∧
    (∀ h e, Peewee.replaceLast s b h e = .ok none → Peewee.step s (.replaceLast b h e) = s) ∧
    (∀ i, Peewee.delete s b i = .error x → Peewee.step s (.delete b i) = s) := by
  refine ⟨?_, ?_, ?_, ?_, ?_, ?_, ?_, ?_, ?_⟩ <;> intros <;> simp only [Peewee.step, *]

/-- replace with an id that is not live in the addressed bucket is rejected, delete of such an id
    removes nothing: no bucket changes -/
theorem foreign_id_noop_peewee {s : Peewee.St D} (hI : Peewee.Inv s) {b : String} {i : Int}
    (hi : i ∉ Spec.ids (Peewee.view s) b) (e : Ev D) :
    Peewee.view (Peewee.step s (.replace b i e)) = Peewee.view s ∧
    Peewee.view (Peewee.step s (.delete b i)) = Peewee.view s := by
  constructor
  · simp only [Peewee.step]
    cases h : Peewee.replace s b i e with
    | ok s' => exact absurd (Peewee.replace_view hI h).1 hi
    | error x => rfl
  · simp only [Peewee.step]
    cases h : Peewee.delete s b i with
    | ok p => obtain ⟨s', r⟩ := p; simp only; rw [(Peewee.delete_view hI h).1, Spec.delete_notLive hi]
    | error x => rfl

/-! ## the reference model itself -/

/-- a history of the reference list model leaves every bucket it never addresses as it was -/
theorem frame_spec {k : Kind} {v v' : View D} {ops : List (Op D)} (h : SpecRun k v ops v')
    {b' : String} (hb : ∀ op ∈ ops, op.bucket ≠ b') : v' b' = v b' := h.frame hb

/-! ## non-vacuity: concrete two-bucket states with interleaved ids and coinciding instants -/

/-- Sqlite: replacing in "a" with the id of an event of "b" leaves "b" (and here "a") untouched -/
example : Sqlite.view (Sqlite.step Sqlite.exS (.replace "a" 2 Sqlite.exEv)) "b" =
    some (default, [⟨some 2, 10, 2, ()⟩]) :=
  frame_sqlite Sqlite.exS_inv (.replace "a" 2 Sqlite.exEv) (by decide)

example : Sqlite.view (Sqlite.step Sqlite.exS (.deleteBucket "a")) "b" = Sqlite.view Sqlite.exS "b" :=
  frame_sqlite Sqlite.exS_inv (.deleteBucket "a") (by decide)

example : Memory.view (Memory.step Memory.exSt (.delete "a" 1)) "b" = some (Memory.exMeta, Memory.exEvs) :=
  frame_memory Memory.exSt_inv (.delete "a" 1) (by decide)

example : Peewee.view (Peewee.step Peewee.Example.s0 (.insert "b" { Peewee.Example.e0 with id := some 1 }))
    "a" = some (Peewee.Example.m0, [⟨some 1, 10, 5, 7⟩, ⟨some 3, 10, 1, 9⟩]) :=
  frame_peewee Peewee.Example.inv0 _ (by decide)

end AwProofs.C04
