import AwModel.Query.Interp
import AwModel.Query.RegistryGen
namespace AwProofs.C17
end AwProofs.C17
