import AwProofs.Lemmas.QueryInterp
import AwProofs.Lemmas.PipelineErrors
import AwModel.Query.RegistryGen
/-!
# C17 — any query text either parses or is rejected with a query error, and terminates

Property theorems only. All statements are about the model of the REPAIRED parser
(`AwModel/Query/{Scan,Parse,Interp}.lean`, branch for branch after `aw_query/query2.py` and the
call protocol of `aw_query/functions.py`), for every text `List Char`; the model agrees with
Python on ASCII text (Python's `isdigit/isalpha/strip` are Unicode-aware). The registry is the
one generated from the source on every run (`Registry.registry`); builtin bodies are an arbitrary
parameter `apply`.

Runtime parameters. `maxIntDigits` = 4300 is CPython's default limit on `int(str)`: a longer integer
literal makes `int()` raise `ValueError`, which the repaired `QInteger.parse` turns into a
`QueryParseException` (`parseIntTok`); the theorems below cover that branch. The interpreter's
recursion limit is not modelled (open finding `interpreter-recursion-limit`, text nested more than
150 brackets deep).

Termination. Every model function is a total Lean function: the scanners recurse structurally on
the text; the mutually recursive `parse` methods (`parseTok/parseArgs/parseList/parseDict`)
recurse structurally on a fuel counter that `parse(line)` sets to `2·|line|+3`. Running out of
fuel is the distinguished outcome `Err.fuel`, which every caller propagates unchanged; so "the
fuel supplied is never exhausted anywhere in the run" is exactly "the result is not
`error fuel`" (`parse_total`). The measure behind it (`Lemmas/QueryParse.budget`): a token cut
from a string is no longer than the string, the remainder after a token is strictly shorter, so a
string of length `n` needs at most `2n+2` nested calls.
-/
namespace AwProofs.C17
open Aw.Query

/-- parsing a query text always produces a result, and that result is never "out of fuel": the
    recursion of the real parser, bounded in the model by `2·|statement|+3`, always bottoms out
    before the bound -/
theorem parse_total (ns : Ns) (text : Str) :
    ∃ r, parseProg ns text = r ∧ r ≠ .error .fuel := by
  refine ⟨_, rfl, ?_⟩
  intro h
  obtain ⟨m, hm⟩ := parseProg_onlyParse ns text _ h
  cases hm

/-- no raw-Python-exception outcome (`IndexError`, `ValueError`, `AttributeError`, `TypeError`)
    and no other error kind is reachable from parsing: a text parses or is rejected with
    `QueryParseException` -/
theorem parse_error_kind (ns : Ns) (text : Str) (e : Err) (h : parseProg ns text = .error e) :
    ∃ m, e = .parse m :=
  parseProg_onlyParse ns text e h

/-- the same for one `parse(line)` call on a stripped statement, as `query()` issues it -/
theorem parse_stmt_error_kind (ns : Ns) (text line : Str) (hl : line ∈ statements text) (e : Err)
    (h : parseStmt ns line = .error e) : ∃ m, e = .parse m :=
  parseStmt_onlyParse ns line (mem_statements hl).2 e h

/-- name / arity / type resolution over the generated registry, for arbitrary builtin bodies:
    1. a variable that is not bound → `QueryInterpretException`;
    2. a function name that is not registered → `QueryInterpretException`;
    for every registered builtin `e` and argument values `args` (`inject` = what `q2_function`
    passes on):
    3. a required `list/str/int/float` parameter given a value of another type →
       `QueryFunctionException` (whatever the argument count);
    4. otherwise, an argument count the signature does not bind → `QueryInterpretException`;
    5. otherwise the body is applied to exactly the injected arguments (its `TypeError`s are
       reported as `QueryInterpretException`);
    6. nothing else: an error of the call is a function error, an interpret error, or the
       body's own. -/
theorem resolve_error_kind (apply : Apply) :
    (∀ name cap ns, Ns.has ns name = false →
        ∃ m, interp Registry.registry apply (.var name cap) ns = .error (.interp m)) ∧
    (∀ f args ns, lookupEntry Registry.registry f = none →
        ∃ m, interp Registry.registry apply (.call f args) ns = .error (.interp m)) ∧
    (∀ e ∈ Registry.registry, ∀ args : List Val,
      (e.typechecked = true → Mismatch e.params (inject e args) →
        ∃ m, callBuiltin apply e args = .error (.func m)) ∧
      (entryCheck e (inject e args) = .ok () → e.accepts (inject e args).length = false →
        ∃ m, callBuiltin apply e args = .error (.interp m)) ∧
      (entryCheck e (inject e args) = .ok () → e.accepts (inject e args).length = true →
        callBuiltin apply e args = catchTypeError (apply e.name (inject e args))) ∧
      (∀ err, callBuiltin apply e args = .error err →
        (∃ m, err = .func m) ∨ (∃ m, err = .interp m) ∨
          apply e.name (inject e args) = .error err)) := by
  refine ⟨?_, ?_, ?_⟩
  · intro name cap ns h
    rw [interp]; simp [h]
  · intro f args ns h
    rw [interp]; simp [h]
  · intro e _ args
    refine ⟨?_, fun h ha => callBuiltin_arity h ha, fun h ha => callBuiltin_apply h ha, ?_⟩
    · intro htc hm
      obtain ⟨m, hm⟩ := typecheck_mismatch hm
      exact ⟨m, callBuiltin_func (by unfold entryCheck; simp [htc, hm])⟩
    · intro err herr
      rcases entryCheck_cases e (inject e args) with h | ⟨m, h⟩
      · cases ha : e.accepts (inject e args).length with
        | false =>
          obtain ⟨m, hm⟩ := callBuiltin_arity (apply := apply) h ha
          rw [hm] at herr; cases herr; exact Or.inr (Or.inl ⟨m, rfl⟩)
        | true =>
          rw [callBuiltin_apply h ha] at herr
          unfold catchTypeError at herr
          split at herr
          · cases herr; exact Or.inr (Or.inl ⟨_, rfl⟩)
          · exact Or.inr (Or.inr herr)
      · rw [callBuiltin_func h] at herr
        cases herr; exact Or.inl ⟨m, rfl⟩

/-- the whole run: if the builtin bodies raise only query errors (or `TypeError`, which the call site converts: `ApplyQ`),
    `query()` yields a value or an
    error of the query-error family (parse / interpret / function) — for every text, every
    environment, the generated registry -/
theorem run_error_kind (apply : Apply) (hA : ApplyQ apply) (env : Ns) (text : Str) (e : Err)
    (h : runQuery Registry.registry apply env text = .error e) : IsQueryErr e :=
  runQuery_qerr hA env text e h

/-- … and with the builtin bodies the model has (`Pipeline.fullApply`: the three datastore readers over any
    read interface whose reads of listed buckets succeed, 14 `q2_*` wrappers over the transform models): whatever
    the text, `query()` yields a value or an error of the query-error family, provided the remaining bodies
    (`other`: the regex/URL builtins, and arguments that are not event lists) raise only query errors or
    `TypeError`. The `TypeError` of an unhashable merge key is inside the claim: the call site converts it. -/
theorem run_error_kind_with_bodies (r : Reads Aw.Group.Data) (hr : AwProofs.PipelineErrors.ReadsTotal r) (S E : Int)
    (other : Apply) (ho : ApplyQ other) (env : Ns) (text : Str) (e : Err)
    (h : runQuery Registry.registry (Aw.Query.Pipeline.fullApply r S E other) env text = .error e) :
    IsQueryErr e :=
  run_error_kind _ (AwProofs.PipelineErrors.fullApply_applyQ r S E other hr ho) env text e h

/-- the hypothesis on the reads holds of the sqlite and memory store models in every state, and of the peewee model
    in every state that satisfies its invariant with a coherent key cache (every reachable one: C05) -/
theorem reads_of_listed_buckets_succeed (s : Aw.Store.Sqlite.St Aw.Group.Data) (m : Aw.Store.Memory.St Aw.Group.Data)
    (p : Aw.Store.Peewee.St Aw.Group.Data) (hi : Aw.Store.Peewee.Inv p) (hc : Aw.Store.Peewee.CacheOk p)
    (dec : Aw.Ev Aw.Group.Data → Aw.Ev Aw.Group.Data) :
    AwProofs.PipelineErrors.ReadsTotal (Reads.ofSqlite s) ∧ AwProofs.PipelineErrors.ReadsTotal (Reads.ofMemory m) ∧
      AwProofs.PipelineErrors.ReadsTotal (Reads.ofPeewee p dec) :=
  ⟨AwProofs.PipelineErrors.readsTotal_ofSqlite s, AwProofs.PipelineErrors.readsTotal_ofMemory m,
    AwProofs.PipelineErrors.readsTotal_ofPeewee p hi hc dec⟩

/-- a passing type check is exactly the absence of a mismatching position -/
theorem typecheck_ok_iff (ps : List Param) (as : List Val) :
    typecheck ps as = .ok () ↔ ¬ Mismatch ps as := by
  constructor
  · exact typecheck_ok_no_mismatch
  · intro h
    rcases typecheck_ok_or_error ps as with h1 | ⟨m, h1⟩
    · exact h1
    · cases hps : typecheck ps as with
      | ok u => rfl
      | error e =>
        exfalso; apply h
        clear h1 m
        induction ps generalizing as with
        | nil => simp [typecheck] at hps
        | cons p ps ih =>
          cases as with
          | nil => simp [typecheck] at hps
          | cons a as =>
            rw [typecheck] at hps
            split at hps
            · rename_i hc
              exact ⟨0, p, a, by simp, by simp, hc.1, hc.2.1, hc.2.2⟩
            · obtain ⟨i, p', a', h1, h2, h3⟩ := ih as (by intro hm; exact h (by
                obtain ⟨i, p', a', h1, h2, h3⟩ := hm
                exact ⟨i + 1, p', a', by simpa using h1, by simpa using h2, h3⟩)) hps
              exact ⟨i + 1, p', a', by simpa using h1, by simpa using h2, h3⟩

/- Non-vacuity: the statements have content on concrete inputs. (Small explicit fuel: kernel
   evaluation of the fuel recursion is exponential in the fuel.) -/

/-- the witnesses of F11 are parse errors in the repaired model: `nop( )`, `{"a"}` -/
example : isParseError (parseStmt [] "RETURN = nop( )".toList) = true := by decide
example : isParseError (parseAssign [] 6 "R".toList "{\"a\"}".toList) = true := by decide
/-- and a well-formed text does parse (F10: the arguments after a bracketed one are kept) -/
example : parseAssign [] 6 "x".toList "f(g(),a,b)".toList =
    .ok ("x".toList, .call "f".toList [.call "g".toList [], .var "a".toList none, .var "b".toList none]) := by
  rfl

end AwProofs.C17
