import AwProofs.Lemmas.HbLoop
import AwProofs.Lemmas.HbLoopMemory
import AwProofs.Lemmas.HbLoopSqlite
import AwProofs.Lemmas.HbLoopPeewee
/-!
# C07 — Heartbeat ingestion through the store equals `heartbeat_reduce` of the stream

Property theorems only. The standard loop (`hbLoop`: per heartbeat a limit-1 read, `heartbeat_merge`
with the event read, then `replace_last` of the merged event or `insert` of the heartbeat), run on
an existing empty bucket `b` of a store in any state satisfying the backend invariant (so with any
number of other, populated buckets), succeeds and leaves in `b` exactly the events of
`Heartbeat.reduce pt stream`, in the same order, for every pulsetime `pt` (any integer number of
microseconds) and every stream whose timestamps increase strictly. Events are compared without
their ids (`noId`): the store hands out its own ids, `heartbeat_reduce` keeps those of its input.
Every other bucket is unchanged, and a single step never touches an event other than the last one
of the bucket (`earlier_events_untouched_*`).

Which hypotheses of the property's quantifier are used:
* strictly increasing timestamps: all three backends (it makes the newest event the last one);
* non-decreasing end instants: no backend needs it;
* no backend restricts where the heartbeats lie on the time axis. History of repair F22: the
  Sqlite theorems used to carry "every heartbeat ends at or after the epoch" (`0 ≤ ts + dur`),
  because the limit-1 read of that backend had the default lower bound `endtime >= 0` and did not
  see an event ending before the epoch; without the hypothesis the statement was false
  (`sqlite_before_epoch_false`, on the stream `Sqlite.cexStream`). Since the repair a read without
  a start instant has no lower bound, the hypothesis is gone, and on the same stream the loop now
  stores what `heartbeat_reduce` yields (`sqlite_before_epoch_now_read`).
* durations may be zero, positive or negative, data arbitrary (any type with decidable equality),
  heartbeats may carry ids (they are ignored).
-/
namespace AwProofs.C07
open Aw Aw.Store Aw.Heartbeat Aw.Store.HbLoop
variable {D : Type} [DecidableEq D]

/-! ## the list model -/

/-- On the list model: a run of the loop (`SpecLoop`: per heartbeat take a newest event, merge,
    then `replaceId` at its id or append under a fresh id) from the empty bucket over a stream with
    strictly increasing timestamps yields `heartbeat_reduce` of the stream, ids aside; the bucket
    stays in timestamp order with pairwise distinct ids. -/
theorem loop_eq_reduce_spec (pt : Int) (stream es' : List (Ev D))
    (hts : stream.Pairwise (fun a c => a.ts < c.ts)) (hrun : SpecLoop pt [] stream es') :
    es'.map noId = (reduce pt stream).map noId ∧ Sorted es' ∧ IdsOk es' := by
  obtain ⟨h1, h2, h3⟩ := specLoop_reduceAux pt stream [] [] es' sorted_nil
    ⟨List.nodup_nil, fun x hx => by cases hx⟩ rfl (fun e he => by cases he) hts hrun
  exact ⟨h3, h1, h2⟩

/-- One step of the list model on a bucket in timestamp order: every event but the last is
    unchanged (the last one is rewritten, or one event is appended). -/
theorem earlier_events_untouched_spec (pt : Int) (es es' : List (Ev D)) (hb : Ev D)
    (hs : Sorted es) (hid : IdsOk es) (h : SpecStep pt es hb es') :
    ∃ x, es' = es.dropLast ++ [x] ∨ es' = es ++ [x] :=
  specStep_shape hs hid h

/-! ## Memory -/

/-- Memory backend. Uses: bucket exists and is empty, strictly increasing timestamps. -/
theorem loop_eq_reduce_Memory (pt : Int) (b : String) (s : Memory.St D) (m : Meta)
    (stream : List (Ev D)) (hI : Memory.Inv s) (hv : Memory.view s b = some (m, []))
    (hts : stream.Pairwise (fun a c => a.ts < c.ts)) :
    ∃ s', Memory.hbLoop pt b s stream = .ok s' ∧ Memory.Inv s' ∧
      (∃ es, Memory.view s' b = some (m, es) ∧ es.map noId = (reduce pt stream).map noId) ∧
      ∀ b', b' ≠ b → Memory.view s' b' = Memory.view s b' := by
  obtain ⟨s', h1, h2, ⟨es, h3, _, h4⟩, h5⟩ :=
    foldE_loop Memory.view Memory.Inv (Memory.hbStep pt b) pt b
      (fun _ _ _ hI hv => Memory.ids_nodup hI hv)
      (fun s hb m es hI hv => Memory.hbStep_refines pt b s hb m es hI hv)
      stream s m [] [] hI hv sorted_nil rfl
      (fun e he => by cases he) hts
  exact ⟨s', h1, h2, ⟨es, h3, h4⟩, h5⟩

/-- Memory backend, one turn of the loop on a bucket in timestamp order: it succeeds, all events
    but the last are unchanged, other buckets are unchanged. -/
theorem earlier_events_untouched_Memory (pt : Int) (b : String) (s : Memory.St D) (hb : Ev D)
    (m : Meta) (es : List (Ev D)) (hI : Memory.Inv s) (hv : Memory.view s b = some (m, es))
    (hs : es.Pairwise (fun a c => a.ts < c.ts)) :
    ∃ s' x, Memory.hbStep pt b s hb = .ok s' ∧ Memory.Inv s' ∧
      (Memory.view s' b = some (m, es.dropLast ++ [x]) ∨ Memory.view s' b = some (m, es ++ [x])) ∧
      ∀ b', b' ≠ b → Memory.view s' b' = Memory.view s b' :=
  step_shape Memory.view Memory.Inv (Memory.hbStep pt b) pt b
    (fun _ _ _ hI hv => Memory.ids_nodup hI hv)
    (fun s hb m es hI hv => Memory.hbStep_refines pt b s hb m es hI hv)
    s hb m es hI hv hs

/-- Memory backend, every turn of a run from the empty bucket: after the heartbeats `pre` the
    bucket holds `es1`; the next heartbeat leaves `es1.dropLast ++ [x]` or `es1 ++ [x]`. -/
theorem earlier_events_untouched_loop_Memory (pt : Int) (b : String) (s : Memory.St D) (m : Meta)
    (pre : List (Ev D)) (hb : Ev D) (hI : Memory.Inv s) (hv : Memory.view s b = some (m, []))
    (hts : (pre ++ [hb]).Pairwise (fun a c => a.ts < c.ts)) :
    ∃ s1 s2 es1 x, Memory.hbLoop pt b s pre = .ok s1 ∧ Memory.view s1 b = some (m, es1) ∧
      Memory.hbStep pt b s1 hb = .ok s2 ∧ Memory.hbLoop pt b s (pre ++ [hb]) = .ok s2 ∧
      (Memory.view s2 b = some (m, es1.dropLast ++ [x]) ∨ Memory.view s2 b = some (m, es1 ++ [x])) ∧
      ∀ b', b' ≠ b → Memory.view s2 b' = Memory.view s b' :=
  foldE_prefix Memory.view Memory.Inv (Memory.hbStep pt b) pt b
    (fun _ _ _ hI hv => Memory.ids_nodup hI hv)
    (fun s hb m es hI hv => Memory.hbStep_refines pt b s hb m es hI hv)
    s m pre hb hI hv hts

/-! ## Sqlite -/

/-- Sqlite backend. Uses: bucket exists and is empty, strictly increasing timestamps. (Repaired,
    F22: no hypothesis on where the heartbeats end; the theorem used to require that every
    heartbeat ends at or after the epoch.) -/
theorem loop_eq_reduce_Sqlite (pt : Int) (b : String) (s : Sqlite.St D) (m : Meta)
    (stream : List (Ev D)) (hI : Sqlite.Inv s) (hv : Sqlite.view s b = some (m, []))
    (hts : stream.Pairwise (fun a c => a.ts < c.ts)) :
    ∃ s', Sqlite.hbLoop pt b s stream = .ok s' ∧ Sqlite.Inv s' ∧
      (∃ es, Sqlite.view s' b = some (m, es) ∧ es.map noId = (reduce pt stream).map noId) ∧
      ∀ b', b' ≠ b → Sqlite.view s' b' = Sqlite.view s b' := by
  obtain ⟨s', h1, h2, ⟨es, h3, _, h4⟩, h5⟩ :=
    foldE_loop Sqlite.view Sqlite.Inv (Sqlite.hbStep pt b) pt b
      (fun _ _ _ hI hv => Sqlite.ids_nodup hI hv)
      (fun s hb m es hI hv => Sqlite.hbStep_refines pt b s hb m es hI hv)
      stream s m [] [] hI hv sorted_nil rfl
      (fun e he => by cases he) hts
  exact ⟨s', h1, h2, ⟨es, h3, h4⟩, h5⟩

/-- Sqlite backend, one turn of the loop on a bucket in timestamp order: it succeeds, all events
    but the last are unchanged, other buckets are unchanged. (Repaired, F22: the stored events and
    the heartbeat may end before the epoch.) -/
theorem earlier_events_untouched_Sqlite (pt : Int) (b : String) (s : Sqlite.St D) (hb : Ev D)
    (m : Meta) (es : List (Ev D)) (hI : Sqlite.Inv s) (hv : Sqlite.view s b = some (m, es))
    (hs : es.Pairwise (fun a c => a.ts < c.ts)) :
    ∃ s' x, Sqlite.hbStep pt b s hb = .ok s' ∧ Sqlite.Inv s' ∧
      (Sqlite.view s' b = some (m, es.dropLast ++ [x]) ∨ Sqlite.view s' b = some (m, es ++ [x])) ∧
      ∀ b', b' ≠ b → Sqlite.view s' b' = Sqlite.view s b' :=
  step_shape Sqlite.view Sqlite.Inv (Sqlite.hbStep pt b) pt b
    (fun _ _ _ hI hv => Sqlite.ids_nodup hI hv)
    (fun s hb m es hI hv => Sqlite.hbStep_refines pt b s hb m es hI hv)
    s hb m es hI hv hs

/-- Sqlite backend, every turn of a run from the empty bucket. -/
theorem earlier_events_untouched_loop_Sqlite (pt : Int) (b : String) (s : Sqlite.St D) (m : Meta)
    (pre : List (Ev D)) (hb : Ev D) (hI : Sqlite.Inv s) (hv : Sqlite.view s b = some (m, []))
    (hts : (pre ++ [hb]).Pairwise (fun a c => a.ts < c.ts)) :
    ∃ s1 s2 es1 x, Sqlite.hbLoop pt b s pre = .ok s1 ∧ Sqlite.view s1 b = some (m, es1) ∧
      Sqlite.hbStep pt b s1 hb = .ok s2 ∧ Sqlite.hbLoop pt b s (pre ++ [hb]) = .ok s2 ∧
      (Sqlite.view s2 b = some (m, es1.dropLast ++ [x]) ∨ Sqlite.view s2 b = some (m, es1 ++ [x])) ∧
      ∀ b', b' ≠ b → Sqlite.view s2 b' = Sqlite.view s b' :=
  foldE_prefix Sqlite.view Sqlite.Inv (Sqlite.hbStep pt b) pt b
    (fun _ _ _ hI hv => Sqlite.ids_nodup hI hv)
    (fun s hb m es hI hv => Sqlite.hbStep_refines pt b s hb m es hI hv)
    s m pre hb hI hv hts

/-- History of repair F22. Two heartbeats with equal data at −10 µs and −9 µs, 1 µs long,
    pulsetime 5 µs: `heartbeat_reduce` merges them into one event. Before the repair this stream
    was the counterexample `sqlite_before_epoch_false` (the loop stored two events, because the
    limit-1 read, with lower bound `endtime >= 0`, did not return the first one). On the same
    witness the repaired limit-1 read returns the pre-1970 event after the first heartbeat, and
    the loop stores exactly the one merged event. -/
theorem sqlite_before_epoch_now_read :
    Sqlite.Inv Sqlite.exHb ∧ Sqlite.view Sqlite.exHb "c" = some (default, []) ∧
    Sqlite.cexStream.Pairwise (fun a c => a.ts < c.ts) ∧
    (∃ s1, Sqlite.hbLoop 5 "c" Sqlite.exHb (Sqlite.cexStream.take 1) = .ok s1 ∧
      Sqlite.getEvents s1 "c" 1 none none = [⟨some 4, -10, 1, 7⟩]) ∧
    ∃ s' es, Sqlite.hbLoop 5 "c" Sqlite.exHb Sqlite.cexStream = .ok s' ∧
      Sqlite.view s' "c" = some (default, es) ∧ es = [⟨some 4, -10, 2, 7⟩] ∧
      es.map noId = (reduce 5 Sqlite.cexStream).map noId :=
  ⟨Sqlite.exHb_inv, rfl, by decide, ⟨_, rfl, by decide⟩, _, _, rfl, rfl, rfl, by decide⟩

/-! ## Peewee -/

/-- Peewee backend. Uses: bucket exists and is empty, strictly increasing timestamps. The id of the
    event read is passed as the hint of `replace_last` and is always accepted. -/
theorem loop_eq_reduce_Peewee (pt : Int) (b : String) (s : Peewee.St D) (m : Meta)
    (stream : List (Ev D)) (hI : Peewee.Inv s) (hv : Peewee.view s b = some (m, []))
    (hts : stream.Pairwise (fun a c => a.ts < c.ts)) :
    ∃ s', Peewee.hbLoop pt b s stream = .ok s' ∧ Peewee.Inv s' ∧
      (∃ es, Peewee.view s' b = some (m, es) ∧ es.map noId = (reduce pt stream).map noId) ∧
      ∀ b', b' ≠ b → Peewee.view s' b' = Peewee.view s b' := by
  obtain ⟨s', h1, h2, ⟨es, h3, _, h4⟩, h5⟩ :=
    foldE_loop Peewee.view Peewee.Inv (Peewee.hbStep pt b) pt b
      (fun _ _ _ hI hv => Peewee.ids_nodup hI hv)
      (fun s hb m es hI hv => Peewee.hbStep_refines pt b s hb m es hI hv)
      stream s m [] [] hI hv sorted_nil rfl
      (fun e he => by cases he) hts
  exact ⟨s', h1, h2, ⟨es, h3, h4⟩, h5⟩

/-- Peewee backend, one turn of the loop on a bucket in timestamp order: it succeeds, all events
    but the last are unchanged, other buckets are unchanged. -/
theorem earlier_events_untouched_Peewee (pt : Int) (b : String) (s : Peewee.St D) (hb : Ev D)
    (m : Meta) (es : List (Ev D)) (hI : Peewee.Inv s) (hv : Peewee.view s b = some (m, es))
    (hs : es.Pairwise (fun a c => a.ts < c.ts)) :
    ∃ s' x, Peewee.hbStep pt b s hb = .ok s' ∧ Peewee.Inv s' ∧
      (Peewee.view s' b = some (m, es.dropLast ++ [x]) ∨ Peewee.view s' b = some (m, es ++ [x])) ∧
      ∀ b', b' ≠ b → Peewee.view s' b' = Peewee.view s b' :=
  step_shape Peewee.view Peewee.Inv (Peewee.hbStep pt b) pt b
    (fun _ _ _ hI hv => Peewee.ids_nodup hI hv)
    (fun s hb m es hI hv => Peewee.hbStep_refines pt b s hb m es hI hv)
    s hb m es hI hv hs

/-- Peewee backend, every turn of a run from the empty bucket. -/
theorem earlier_events_untouched_loop_Peewee (pt : Int) (b : String) (s : Peewee.St D) (m : Meta)
    (pre : List (Ev D)) (hb : Ev D) (hI : Peewee.Inv s) (hv : Peewee.view s b = some (m, []))
    (hts : (pre ++ [hb]).Pairwise (fun a c => a.ts < c.ts)) :
    ∃ s1 s2 es1 x, Peewee.hbLoop pt b s pre = .ok s1 ∧ Peewee.view s1 b = some (m, es1) ∧
      Peewee.hbStep pt b s1 hb = .ok s2 ∧ Peewee.hbLoop pt b s (pre ++ [hb]) = .ok s2 ∧
      (Peewee.view s2 b = some (m, es1.dropLast ++ [x]) ∨ Peewee.view s2 b = some (m, es1 ++ [x])) ∧
      ∀ b', b' ≠ b → Peewee.view s2 b' = Peewee.view s b' :=
  foldE_prefix Peewee.view Peewee.Inv (Peewee.hbStep pt b) pt b
    (fun _ _ _ hI hv => Peewee.ids_nodup hI hv)
    (fun s hb m es hI hv => Peewee.hbStep_refines pt b s hb m es hI hv)
    s m pre hb hI hv hts

/-! ## non-vacuity: concrete stores with two populated buckets and the empty bucket "c"

The stream has zero and positive durations, repeated and alternating data, gaps below, at and
above the pulsetime (2), an end instant that ties with the previous event, and one heartbeat
that carries an id. -/

example :
    let stream : List (Ev Nat) :=
      [⟨none, 0, 1, 7⟩, ⟨none, 2, 1, 7⟩, ⟨some 4, 5, 0, 7⟩, ⟨none, 8, 0, 7⟩, ⟨none, 9, 0, 8⟩,
       ⟨none, 10, 1, 7⟩, ⟨none, 11, 0, 7⟩]
    stream.Pairwise (fun a c => a.ts < c.ts) ∧
    reduce 2 stream =
      [⟨none, 0, 5, 7⟩, ⟨none, 8, 0, 7⟩, ⟨none, 9, 0, 8⟩, ⟨none, 10, 1, 7⟩] ∧
    (∃ s', Memory.hbLoop 2 "c" Memory.exHb stream = .ok s' ∧ Memory.view s' "c" =
      some (Memory.exMeta, [⟨some 0, 0, 5, 7⟩, ⟨some 1, 8, 0, 7⟩, ⟨some 2, 9, 0, 8⟩, ⟨some 3, 10, 1, 7⟩])) ∧
    (∃ s', Sqlite.hbLoop 2 "c" Sqlite.exHb stream = .ok s' ∧ Sqlite.view s' "c" =
      some (default, [⟨some 4, 0, 5, 7⟩, ⟨some 5, 8, 0, 7⟩, ⟨some 6, 9, 0, 8⟩, ⟨some 7, 10, 1, 7⟩])) ∧
    (∃ s', Peewee.hbLoop 2 "c" Peewee.exHb stream = .ok s' ∧ Peewee.view s' "c" =
      some (Peewee.Example.m0,
        [⟨some 4, 0, 5, 7⟩, ⟨some 5, 8, 0, 7⟩, ⟨some 6, 9, 0, 8⟩, ⟨some 7, 10, 1, 7⟩])) :=
  ⟨by decide, by decide, ⟨_, rfl, rfl⟩, ⟨_, rfl, rfl⟩, ⟨_, rfl, rfl⟩⟩

example := loop_eq_reduce_Memory 2 "c" Memory.exHb Memory.exMeta
  [⟨none, 0, 1, 7⟩, ⟨none, 2, 1, 7⟩, ⟨none, 9, 0, 8⟩] Memory.exHb_inv Memory.exHb_view (by decide)
example := loop_eq_reduce_Sqlite 2 "c" Sqlite.exHb default
  [⟨none, 0, 1, 7⟩, ⟨none, 2, 1, 7⟩, ⟨none, 9, 0, 8⟩] Sqlite.exHb_inv Sqlite.exHb_view (by decide)
/-- the Sqlite loop theorem on a stream that lies wholly before the epoch (negative instants): the
    former counterexample stream `cexStream` -/
example := loop_eq_reduce_Sqlite 5 "c" Sqlite.exHb default Sqlite.cexStream
  Sqlite.exHb_inv Sqlite.exHb_view (by decide)
example := loop_eq_reduce_Peewee 2 "c" Peewee.exHb Peewee.Example.m0
  [⟨none, 0, 1, 7⟩, ⟨none, 2, 1, 7⟩, ⟨none, 9, 0, 8⟩] Peewee.exHb_inv Peewee.exHb_view (by decide)
/-- the step theorems on populated buckets of the example stores -/
example := earlier_events_untouched_Memory 2 "a" Memory.exHb ⟨none, 30, 1, 10⟩ Memory.exMeta
  [⟨some 0, 1, 1, 10⟩] Memory.exHb_inv rfl (by decide)
example := earlier_events_untouched_Sqlite 2 "b" Sqlite.exHb ⟨none, 30, 1, 1⟩ default
  [⟨some 2, 10, 2, 1⟩] Sqlite.exHb_inv rfl (by decide)
/-- … and on a bucket whose only event ends before the epoch (`Sqlite.cexLast`), with a heartbeat
    before the epoch -/
example := earlier_events_untouched_Sqlite 5 "a" Sqlite.cexLast ⟨none, -4, 1, ()⟩ default
  [⟨some 1, -10, 5, ()⟩] Sqlite.cexLast_inv rfl (by decide)
example := earlier_events_untouched_Peewee 2 "b" Peewee.exHb ⟨none, 30, 1, 8⟩ Peewee.Example.m0
  [⟨some 2, 10, 0, 8⟩] Peewee.exHb_inv rfl (by decide)
example := earlier_events_untouched_loop_Memory 2 "c" Memory.exHb Memory.exMeta
  [⟨none, 0, 1, 7⟩, ⟨none, 2, 1, 7⟩] ⟨none, 9, 0, 8⟩ Memory.exHb_inv Memory.exHb_view (by decide)
example := earlier_events_untouched_loop_Sqlite 2 "c" Sqlite.exHb default
  [⟨none, 0, 1, 7⟩, ⟨none, 2, 1, 7⟩] ⟨none, 9, 0, 8⟩ Sqlite.exHb_inv Sqlite.exHb_view (by decide)
/-- … and on a state whose bucket holds an event ending before the epoch: the limit-1 read
    returns it, the step merges the heartbeat into it (both lie before 1970) -/
example := earlier_events_untouched_loop_Sqlite 5 "c" Sqlite.exHb default
  [⟨none, -10, 1, 7⟩] ⟨none, -9, 1, 7⟩ Sqlite.exHb_inv Sqlite.exHb_view (by decide)
example : ∃ s1, Sqlite.hbLoop 5 "c" Sqlite.exHb [⟨none, -10, 1, 7⟩] = .ok s1 ∧
    Sqlite.view s1 "c" = some (default, [⟨some 4, -10, 1, 7⟩]) ∧
    Sqlite.getEvents s1 "c" 1 none none = [⟨some 4, -10, 1, 7⟩] ∧
    (∃ s2, Sqlite.hbStep 5 "c" s1 ⟨none, -9, 1, 7⟩ = .ok s2 ∧
      Sqlite.view s2 "c" = some (default, [⟨some 4, -10, 2, 7⟩])) :=
  ⟨_, rfl, rfl, by decide, _, rfl, rfl⟩
example := earlier_events_untouched_loop_Peewee 2 "c" Peewee.exHb Peewee.Example.m0
  [⟨none, 0, 1, 7⟩, ⟨none, 2, 1, 7⟩] ⟨none, 9, 0, 8⟩ Peewee.exHb_inv Peewee.exHb_view (by decide)

end AwProofs.C07
