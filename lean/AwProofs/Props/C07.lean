import AwModel.Store.HbLoop
/-! # C07 — placeholder while the loop theorems are being written (no claims yet) -/
namespace AwProofs.C07
end AwProofs.C07
