import AwProofs.Lemmas.Event
/-!
# C13 — Events normalise to UTC milliseconds and survive JSON round trips

Property theorems only, over `AwModel/Event.lean` (models.py statement for statement, binary64
arithmetic from `AwModel/Float64.lean`). Instants, wall-clock readings, offsets and durations are
arbitrary integers of microseconds unless a bound is stated; event data is of any type.
`T` is the true instant, `off` the UTC offset, so `T + off` is the wall-clock reading the code
sees. The guard `1000 ∣ off` (offset a whole number of milliseconds; every ISO-8601 offset is whole
minutes) is necessary: the code floors the *local* reading.
-/
namespace AwProofs.C13
open Aw Aw.Fl Aw.Event
variable {D : Type}

/-- the float expression `int(us / 1000) * 1000` is the integer millisecond floor for all 10⁶
    values of the microsecond field (proved from the rounding-error bound, not by enumeration) -/
theorem ms_floor_float (us : Nat) (h : us < 1000000) :
    trunc (fl ((us : Rat) / 1000)) * 1000 = ((us / 1000 * 1000 : Nat) : Int) := by
  have := msTrunc_eq (us : Int) (by omega) (by omega)
  unfold msTrunc fdiv at this
  push_cast at this ⊢
  exact this

/-- the `timestamp` setter: an aware datetime (or string with offset) reading `T + off` at offset
    `off` is stored as the instant `T` floored to the millisecond, with UTC offset 0 -/
theorem normalised (T off : Int) (h : 1000 ∣ off) :
    setTimestamp ⟨T + off, some off⟩ = ⟨T / 1000 * 1000, 0⟩ :=
  setTimestamp_aware T off h

/-- a naive datetime is read as UTC -/
theorem normalised_naive (T : Int) : setTimestamp ⟨T, none⟩ = ⟨T / 1000 * 1000, 0⟩ := by
  unfold setTimestamp astimezoneUtc
  rw [tsParse_naive]; simp

/-- `Event(timestamp=…)` (parse in `__init__`, parse again in the setter): the event holds the
    instant floored to the millisecond, as a UTC datetime, whatever the zone of the input -/
theorem init_normalised (emp : D) (id : Option Int) (T off : Int) (dur : DurIn) (data : Option D)
    (e : Ev D) (h : 1000 ∣ off) (hmk : mk emp id ⟨T + off, some off⟩ dur data = .ok e) :
    e.ts = T / 1000 * 1000 ∧ 1000 ∣ e.ts ∧ e.id = id ∧ initTimestamp ⟨T + off, some off⟩ = ⟨e.ts, 0⟩ := by
  unfold mk at hmk
  rw [initTimestamp_aware T off h] at hmk ⊢
  cases hd : setDuration dur with
  | error k => rw [hd] at hmk; cases hmk
  | ok d =>
    rw [hd] at hmk
    injection hmk with hmk
    subst hmk
    exact ⟨rfl, Int.dvd_mul_left _ _, rfl, rfl⟩

/-- the duration held is the timedelta given; `n` seconds for an int `n`; and exactly `D` µs for
    the double nearest to `D / 10⁶` seconds (what `total_seconds()` and JSON carry), for every
    `|D| < 2³²·10⁶` µs (136 years, either sign) — in particular for `0 ≤ D ≤ 2⁴³` -/
theorem duration_exact :
    (∀ d : Int, setDuration (.td d) = .ok d) ∧
    (∀ n : Int, tdMinUs ≤ n * 1000000 → n * 1000000 ≤ tdMaxUs →
      setDuration (.int n) = .ok (n * 1000000)) ∧
    (∀ Dus : Int, -4294967296000000 < Dus → Dus < 4294967296000000 →
      setDuration (.float (totalSeconds Dus)) = .ok Dus) := by
  refine ⟨fun d => rfl, fun n h0 h1 => mkTimedelta_ok _ h0 h1, fun Dus h0 h1 => ?_⟩
  show mkTimedelta (tdOfSeconds (totalSeconds Dus)) = .ok Dus
  rw [td_total_roundtrip_abs Dus h0 h1]
  apply mkTimedelta_ok <;> simp only [tdMinUs, tdMaxUs] <;> omega

/-- for *every* double `r` of seconds that `timedelta` accepts, the duration held is `r` to the
    microsecond: within `1/2 + 2⁻³⁴` µs of `r·10⁶` -/
theorem duration_float_near (r : Rat) (d : Int) (h : setDuration (.float r) = .ok d) :
    |(d : Rat) - r * 1000000| ≤ 1/2 + 1/17179869184 := by
  have h : mkTimedelta (tdOfSeconds r) = .ok d := h
  unfold mkTimedelta at h
  split_ifs at h
  injection h with h
  subst h
  exact td_near r

/-- the JSON form has the three members the schema constrains, of the constrained kinds
    (`timestamp` a string denoting the stored instant at offset 0, `duration` a number — the
    correctly rounded `D / 10⁶` —, `data` an object), and passes the schema's three tests -/
theorem json_shape (e : Ev D) :
    lookup "timestamp" (toJson e) = some (.str ⟨e.ts, some 0⟩) ∧
    lookup "duration" (toJson e) = some (.num (fl ((e.dur : Rat) / 1000000))) ∧
    lookup "data" (toJson e) = some (.obj e.data) ∧
    schemaOk (toJson e) = true := by
  simp [toJson, lookup, schemaOk, isStr, isNumOrAbsent, isObjOrAbsent, astimezoneUtc, Aware.toDT,
    totalSeconds, fdiv]

/-- `Event(**json.loads(e.to_json_str()))` is `e` again — same instant, duration, data *and* id —
    for every event with a millisecond-aligned timestamp (every event built by `Event(...)`, see
    `init_normalised`) and `-2⁴³ ≤ duration ≤ 2⁴³` µs (in particular `0 ≤ D ≤ 2⁴³`) -/
theorem json_roundtrip (emp : D) (e : Ev D) (hts : 1000 ∣ e.ts) (h0 : -(2 ^ 43) ≤ e.dur)
    (h1 : e.dur ≤ 2 ^ 43) : ofJson emp (toJson e) = .ok e := by
  obtain ⟨id, ts, dur, data⟩ := e
  simp only at hts h0 h1
  have hinit : initTimestamp ⟨ts, some 0⟩ = ⟨ts, 0⟩ := by
    have := initTimestamp_aware ts 0 (Int.dvd_zero _)
    obtain ⟨k, rfl⟩ := hts
    simp only [Int.add_zero] at this
    rw [this]; simp only [Aware.mk.injEq, and_true]; omega
  have hdur : setDuration (.float (totalSeconds dur)) = .ok dur :=
    duration_exact.2.2 dur (by norm_num at h0; omega) (by norm_num at h1; omega)
  cases id <;>
    simp [ofJson, toJson, lookup, mk, astimezoneUtc, Aware.toDT, hinit, hdur, dataOr, bind,
      Except.bind, pure, Except.pure]

/-- `Event(**e)` is `e` again (same id), for every event with a millisecond-aligned timestamp -/
theorem copy_roundtrip (emp : D) (e : Ev D) (hts : 1000 ∣ e.ts) : copy emp e = .ok e := by
  obtain ⟨id, ts, dur, data⟩ := e
  simp only at hts
  have hinit : initTimestamp ⟨ts, some 0⟩ = ⟨ts, 0⟩ := by
    have := initTimestamp_aware ts 0 (Int.dvd_zero _)
    obtain ⟨k, rfl⟩ := hts
    simp only [Int.add_zero] at this
    rw [this]; simp only [Aware.mk.injEq, and_true]; omega
  simp [copy, mk, hinit, setDuration, dataOr, bind, Except.bind, pure, Except.pure]

/-- end to end: whatever the zone, an event built from an aware timestamp and a duration of
    `-2⁴³ … 2⁴³` µs survives both rebuilds unchanged -/
theorem built_event_roundtrips (emp : D) (id : Option Int) (T off : Int) (dur : DurIn)
    (data : Option D) (e : Ev D) (h : 1000 ∣ off)
    (hmk : mk emp id ⟨T + off, some off⟩ dur data = .ok e) (h0 : -(2 ^ 43) ≤ e.dur)
    (h1 : e.dur ≤ 2 ^ 43) :
    ofJson emp (toJson e) = .ok e ∧ copy emp e = .ok e := by
  have hn := init_normalised emp id T off dur data e h hmk
  exact ⟨json_roundtrip emp e hn.2.1 h0 h1, copy_roundtrip emp e hn.2.1⟩

/-! Non-vacuity: the hypotheses are satisfiable on concrete inputs (instances of the theorems). -/

/-- 2020-01-01T12:00:00.123999+05:30 is stored as 06:30:00.123 UTC -/
example : setTimestamp ⟨1577880000123999, some 19800000000⟩ = ⟨1577860200123000, 0⟩ := by
  have := normalised 1577860200123999 19800000000 (by decide)
  simpa using this

/-- a 2⁴³ µs event at a millisecond instant, with an id, survives the JSON round trip -/
example : ofJson "{}" (toJson (⟨some 7, 1577860200123000, 2 ^ 43, "x"⟩ : Ev String))
    = .ok ⟨some 7, 1577860200123000, 2 ^ 43, "x"⟩ :=
  json_roundtrip _ _ (by decide) (by decide) (by decide)

/-- the guard `1000 ∣ off` cannot be dropped: with a 500 µs offset the stored instant is not the
    millisecond floor (here `T = 1999`, floor 1000, stored 1500) -/
example : ¬ (∀ T off : Int, (tsParse ⟨T + off, some off⟩).loc - off = T / 1000 * 1000) := by
  intro h
  have := h 1999 500
  rw [tsParse_aware] at this
  simp at this

end AwProofs.C13
