import AwModel.Event
import AwProofs.Lemmas.Float64
namespace AwProofs.C13
end AwProofs.C13
