import AwModel.Store.Sqlite
/-! # C05 — placeholder while the lifecycle theorems are being written (no claims yet) -/
namespace AwProofs.C05
end AwProofs.C05
