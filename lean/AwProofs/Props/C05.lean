import AwProofs.Lemmas.StoreOpsSqlite
import AwProofs.Lemmas.StoreOpsMemory
import AwProofs.Lemmas.StoreOpsPeewee
import AwProofs.Lemmas.StoreOpsSpec
import AwProofs.Lemmas.Datastore
/-!
# C05 — Bucket lifecycle: create, list, describe, update, delete behave as a keyed map

Property theorems only. `B.view s b` is what a client reads back of bucket `b` (`none` = no such
bucket; `some (metadata, events)`), `B.bucketsOf s` the listing `buckets()`, `B.getMetadata` the
describe call, `B.step s op` the state after `op` (unchanged when the operation is rejected).
`Meta` carries every stored metadata field: name, type, client, hostname, creation instant, data.

The stored metadata is exactly the metadata given — for the memory backend with its documented
 defaulting (`Memory.storedMeta`: a falsy `name` becomes the bucket id). An update writes exactly the
supplied fields: for the SQL backends every field that is not `None` (`Upd.apply`), for the memory
backend every truthy field (`Memory.memApply`); `update_fields_*` spell this out field by field.
The bucket-lookup `KeyError` of `Datastore.__getitem__` is raised by the driver exactly when the id
is not in the listing, i.e. (`listing_is_view_*`) when `view s b = none`.
-/
namespace AwProofs.C05
open Aw Aw.Store
variable {D : Type}

/-! ## update writes exactly the supplied fields -/

/-- SQL backends: a field that is supplied is written, a field that is not supplied keeps its
    value; the creation instant can not be changed -/
theorem update_fields_sql (u : Upd) (m : Meta) :
    (u.apply m).type = u.type.getD m.type ∧
    (u.apply m).client = u.client.getD m.client ∧
    (u.apply m).hostname = u.hostname.getD m.hostname ∧
    (u.apply m).name = (match u.name with | some n => some n | none => m.name) ∧
    (u.apply m).data = u.data.getD m.data ∧
    (u.apply m).created = m.created := ⟨rfl, rfl, rfl, rfl, rfl, rfl⟩

/-- SQL backends: fields not supplied are unchanged -/
theorem update_none_unchanged_sql (u : Upd) (m : Meta) :
    (u.type = none → (u.apply m).type = m.type) ∧
    (u.client = none → (u.apply m).client = m.client) ∧
    (u.hostname = none → (u.apply m).hostname = m.hostname) ∧
    (u.name = none → (u.apply m).name = m.name) ∧
    (u.data = none → (u.apply m).data = m.data) ∧
    (u.isEmpty = true → u.apply m = m) := by
  refine ⟨?_, ?_, ?_, ?_, ?_, ?_⟩
  · intro h; simp only [Upd.apply, h, Option.getD_none]
  · intro h; simp only [Upd.apply, h, Option.getD_none]
  · intro h; simp only [Upd.apply, h, Option.getD_none]
  · intro h; simp only [Upd.apply, h]
  · intro h; simp only [Upd.apply, h, Option.getD_none]
  · intro h
    obtain ⟨t, c, hn, n, d⟩ := u
    simp only [Upd.isEmpty, Bool.and_eq_true, Option.isNone_iff_eq_none] at h
    obtain ⟨⟨⟨⟨rfl, rfl⟩, rfl⟩, rfl⟩, rfl⟩ := h
    rfl

/-- memory backend: exactly the truthy fields are written (`""` and the empty dict `{}` count as
    not supplied); the creation instant can not be changed -/
theorem update_fields_memory (u : Upd) (m : Meta) :
    (Memory.memApply u m).type = (Memory.truthy u.type).getD m.type ∧
    (Memory.memApply u m).client = (Memory.truthy u.client).getD m.client ∧
    (Memory.memApply u m).hostname = (Memory.truthy u.hostname).getD m.hostname ∧
    (Memory.memApply u m).name =
      (match Memory.truthy u.name with | some n => some n | none => m.name) ∧
    (Memory.memApply u m).data =
      (match u.data with | some d => if d = "{}" then m.data else d | none => m.data) ∧
    (Memory.memApply u m).created = m.created := ⟨rfl, rfl, rfl, rfl, rfl, rfl⟩

/-- memory backend: fields not supplied are unchanged -/
theorem update_none_unchanged_memory (u : Upd) (m : Meta) :
    (u.type = none → (Memory.memApply u m).type = m.type) ∧
    (u.client = none → (Memory.memApply u m).client = m.client) ∧
    (u.hostname = none → (Memory.memApply u m).hostname = m.hostname) ∧
    (u.name = none → (Memory.memApply u m).name = m.name) ∧
    (u.data = none → (Memory.memApply u m).data = m.data) ∧
    (u.isEmpty = true → Memory.memApply u m = m) := by
  refine ⟨?_, ?_, ?_, ?_, ?_, ?_⟩
  · intro h; simp only [Memory.memApply, h, Memory.truthy, Option.getD_none]
  · intro h; simp only [Memory.memApply, h, Memory.truthy, Option.getD_none]
  · intro h; simp only [Memory.memApply, h, Memory.truthy, Option.getD_none]
  · intro h; simp only [Memory.memApply, h, Memory.truthy]
  · intro h; simp only [Memory.memApply, h]
  · intro h
    obtain ⟨t, c, hn, n, d⟩ := u
    simp only [Upd.isEmpty, Bool.and_eq_true, Option.isNone_iff_eq_none] at h
    obtain ⟨⟨⟨⟨rfl, rfl⟩, rfl⟩, rfl⟩, rfl⟩ := h
    rfl

/-! ## Sqlite -/

/-- the listing is the view: `(b, m)` is listed iff bucket `b` reads back with metadata `m` -/
theorem listing_is_view_sqlite {s : Sqlite.St D} (hI : Sqlite.Inv s) (b : String) (m : Meta) :
    (b, m) ∈ Sqlite.bucketsOf s ↔ ∃ es, Sqlite.view s b = some (m, es) :=
  Sqlite.bucketsOf_eq hI b m

/-- no bucket id is listed twice -/
theorem listing_keys_unique_sqlite {s : Sqlite.St D} (hI : Sqlite.Inv s) :
    ((Sqlite.bucketsOf s).map (·.1)).Nodup := by
  unfold Sqlite.bucketsOf
  rw [List.map_map]
  exact List.pairwise_map.mpr (hI.1.imp (fun h => h.1))

/-- describing a bucket returns the metadata of the view -/
theorem describe_is_view_sqlite {s : Sqlite.St D} (hI : Sqlite.Inv s) (b : String) :
    Sqlite.getMetadata s b =
      (match Sqlite.view s b with | some (m, _) => .ok m | none => .error .valueError) :=
  Sqlite.getMetadata_eq hI b

/-- creating a bucket under a fresh id: it reads back empty with exactly the metadata given, is
    listed (once) with that metadata, and every other bucket and listing entry is unchanged -/
theorem create_listed_sqlite {s : Sqlite.St D} (hI : Sqlite.Inv s) {b : String}
    (hb : Sqlite.view s b = none) (m : Meta) :
    let s' := Sqlite.step s (.create b m)
    Sqlite.view s' b = some (m, []) ∧
    (b, m) ∈ Sqlite.bucketsOf s' ∧ (∀ m', (b, m') ∈ Sqlite.bucketsOf s' → m' = m) ∧
    (∀ b', b' ≠ b → Sqlite.view s' b' = Sqlite.view s b') ∧
    (∀ b' m', b' ≠ b → ((b', m') ∈ Sqlite.bucketsOf s' ↔ (b', m') ∈ Sqlite.bucketsOf s)) := by
  intro s'
  have hI' : Sqlite.Inv s' := Sqlite.inv_step hI _
  have hv : Sqlite.view s' = Spec.create (Sqlite.view s) b m := Sqlite.refines hI (.create b m) hb
  have hvb : Sqlite.view s' b = some (m, []) := by rw [hv]; exact create_self _ b m
  have hfr : ∀ b', b' ≠ b → Sqlite.view s' b' = Sqlite.view s b' :=
    fun b' h => Sqlite.only_step hI (.create b m) b' h
  obtain ⟨h1, h2⟩ := listed_of_view (Sqlite.bucketsOf_eq hI') hvb
  exact ⟨hvb, h1, h2, hfr, fun b' m' h =>
    listed_congr (Sqlite.bucketsOf_eq hI) (Sqlite.bucketsOf_eq hI') (hfr b' h) m'⟩

/-- creating under an id that exists is rejected (IntegrityError) and changes nothing -/
theorem create_existing_rejected_sqlite {s : Sqlite.St D} (hI : Sqlite.Inv s) {b : String}
    (hb : (Sqlite.view s b).isSome) (m : Meta) :
    Sqlite.createBucket s b m = .error .integrity ∧ Sqlite.step s (.create b m) = s := by
  have h := Sqlite.createBucket_exists (m := m) hI hb
  exact ⟨h, by simp only [Sqlite.step, h]⟩

/-- an update (at least one field supplied) changes the metadata to `u.apply m`
    (`update_fields_sql`), keeps the events, and leaves every other bucket alone -/
theorem update_only_supplied_sqlite {s : Sqlite.St D} (hI : Sqlite.Inv s) {b : String} {m : Meta}
    {es : List (Ev D)} (hv : Sqlite.view s b = some (m, es)) {u : Upd} (hu : u.isEmpty = false) :
    let s' := Sqlite.step s (.update b u)
    Sqlite.view s' b = some (u.apply m, es) ∧ Sqlite.getMetadata s' b = .ok (u.apply m) ∧
    (∀ b', b' ≠ b → Sqlite.view s' b' = Sqlite.view s b') := by
  intro s'
  have hI' : Sqlite.Inv s' := Sqlite.inv_step hI _
  have hv' : Sqlite.view s' = Spec.update (Sqlite.view s) b u.apply :=
    Sqlite.refines hI (.update b u) ⟨by rw [hv]; rfl, fun _ => hu⟩
  have hvb : Sqlite.view s' b = some (u.apply m, es) := by rw [hv']; exact update_self hv _
  refine ⟨hvb, ?_, fun b' h => Sqlite.only_step hI (.update b u) b' h⟩
  rw [Sqlite.getMetadata_eq hI', hvb]

/-- an update that supplies no field is rejected (ValueError) and changes nothing -/
theorem update_empty_rejected_sqlite (s : Sqlite.St D) (b : String) {u : Upd}
    (hu : u.isEmpty = true) :
    Sqlite.updateBucket s b u = .error .valueError ∧ Sqlite.step s (.update b u) = s := by
  have h := Sqlite.updateBucket_empty (s := s) (b := b) hu
  exact ⟨h, by simp only [Sqlite.step, h]⟩

/-- deleting a bucket removes it from view and listing; every other bucket is unchanged -/
theorem delete_removes_bucket_and_events_sqlite {s : Sqlite.St D} (hI : Sqlite.Inv s) {b : String}
    (hb : (Sqlite.view s b).isSome) :
    let s' := Sqlite.step s (.deleteBucket b)
    Sqlite.view s' b = none ∧ (∀ m, (b, m) ∉ Sqlite.bucketsOf s') ∧
    Sqlite.getMetadata s' b = .error .valueError ∧
    (∀ b', b' ≠ b → Sqlite.view s' b' = Sqlite.view s b') := by
  intro s'
  have hI' : Sqlite.Inv s' := Sqlite.inv_step hI _
  have hv' : Sqlite.view s' = Spec.deleteBucket (Sqlite.view s) b :=
    Sqlite.refines hI (.deleteBucket b) hb
  have hvb : Sqlite.view s' b = none := by rw [hv']; exact deleteBucket_self _ b
  refine ⟨hvb, unlisted_of_view (Sqlite.bucketsOf_eq hI') hvb, ?_,
    fun b' h => Sqlite.only_step hI (.deleteBucket b) b' h⟩
  rw [Sqlite.getMetadata_eq hI', hvb]

/-- delete then create under the same id: an empty bucket with the new metadata — none of the old
    events comes back -/
theorem recreate_is_empty_sqlite {s : Sqlite.St D} (hI : Sqlite.Inv s) {b : String}
    (hb : (Sqlite.view s b).isSome) (m : Meta) :
    Sqlite.view (Sqlite.step (Sqlite.step s (.deleteBucket b)) (.create b m)) b = some (m, []) :=
  (create_listed_sqlite (Sqlite.inv_step hI _)
    (delete_removes_bucket_and_events_sqlite hI hb).1 m).1

/-- on a bucket that does not exist: not listed (the driver's KeyError); describe, update and
    delete raise ValueError; the state is unchanged -/
theorem missing_raises_and_unchanged_sqlite {s : Sqlite.St D} (hI : Sqlite.Inv s) {b : String}
    (hb : Sqlite.view s b = none) :
    (∀ m, (b, m) ∉ Sqlite.bucketsOf s) ∧
    Sqlite.getMetadata s b = .error .valueError ∧
    (∀ u, Sqlite.updateBucket s b u = .error .valueError ∧ Sqlite.step s (.update b u) = s) ∧
    Sqlite.deleteBucket s b = .error .valueError ∧ Sqlite.step s (.deleteBucket b) = s := by
  refine ⟨unlisted_of_view (Sqlite.bucketsOf_eq hI) hb, ?_, ?_, ?_, ?_⟩
  · rw [Sqlite.getMetadata_eq hI, hb]
  · intro u
    have h := Sqlite.updateBucket_missing (u := u) hI hb
    exact ⟨h, by simp only [Sqlite.step, h]⟩
  · exact Sqlite.deleteBucket_missing hI hb
  · simp only [Sqlite.step, Sqlite.deleteBucket_missing hI hb]

/-! ## Memory -/

/-- the listing is the view: `(b, m)` is listed iff bucket `b` reads back with metadata `m` -/
theorem listing_is_view_memory {s : Memory.St D} (hI : Memory.Inv s) (b : String) (m : Meta) :
    (b, m) ∈ Memory.bucketsOf s ↔ ∃ es, Memory.view s b = some (m, es) :=
  Memory.bucketsOf_eq hI b m

/-- no bucket id is listed twice -/
theorem listing_keys_unique_memory {s : Memory.St D} (hI : Memory.Inv s) :
    ((Memory.bucketsOf s).map (·.1)).Nodup := by
  unfold Memory.bucketsOf
  rw [List.map_map]
  exact hI.1

/-- describing a bucket returns the metadata of the view -/
theorem describe_is_view_memory {s : Memory.St D} (hI : Memory.Inv s) (b : String) :
    Memory.getMetadata s b =
      (match Memory.view s b with | some (m, _) => .ok m | none => .error .valueError) :=
  Memory.getMetadata_eq hI b

/-- creating a bucket: it reads back empty with the metadata given (`name` defaulted to the id
    when falsy), is listed once with it, everything else unchanged. The memory backend does not
    reject an existing id: the bucket is replaced by an empty one. -/
theorem create_listed_memory {s : Memory.St D} (hI : Memory.Inv s) (b : String) (m : Meta) :
    let s' := Memory.step s (.create b m)
    Memory.view s' b = some (Memory.storedMeta b m, []) ∧
    (b, Memory.storedMeta b m) ∈ Memory.bucketsOf s' ∧
    (∀ m', (b, m') ∈ Memory.bucketsOf s' → m' = Memory.storedMeta b m) ∧
    (∀ b', b' ≠ b → Memory.view s' b' = Memory.view s b') ∧
    (∀ b' m', b' ≠ b → ((b', m') ∈ Memory.bucketsOf s' ↔ (b', m') ∈ Memory.bucketsOf s)) := by
  intro s'
  have hI' : Memory.Inv s' := Memory.inv_step hI _
  have hv : Memory.view s' = Spec.create (Memory.view s) b (Memory.storedMeta b m) :=
    Memory.createBucket_view hI b m
  have hvb : Memory.view s' b = some (Memory.storedMeta b m, []) := by
    rw [hv]; exact create_self _ b _
  have hfr : ∀ b', b' ≠ b → Memory.view s' b' = Memory.view s b' :=
    fun b' h => Memory.only_step hI (.create b m) b' h
  obtain ⟨h1, h2⟩ := listed_of_view (Memory.bucketsOf_eq hI') hvb
  exact ⟨hvb, h1, h2, hfr, fun b' m' h =>
    listed_congr (Memory.bucketsOf_eq hI) (Memory.bucketsOf_eq hI') (hfr b' h) m'⟩

/-- the stored metadata is the metadata given, except that a falsy name becomes the bucket id -/
theorem stored_meta_memory (b : String) (m : Meta) :
    (Memory.storedMeta b m).type = m.type ∧ (Memory.storedMeta b m).client = m.client ∧
    (Memory.storedMeta b m).hostname = m.hostname ∧ (Memory.storedMeta b m).created = m.created ∧
    (Memory.storedMeta b m).data = m.data ∧
    (Memory.storedMeta b m).name =
      (match Memory.truthy m.name with | some n => some n | none => some b) :=
  ⟨rfl, rfl, rfl, rfl, rfl, rfl⟩

/-- an update changes the metadata to `memApply u m` (`update_fields_memory`), keeps the events, and
    leaves every other bucket alone -/
theorem update_only_supplied_memory {s : Memory.St D} (hI : Memory.Inv s) {b : String} {m : Meta}
    {es : List (Ev D)} (hv : Memory.view s b = some (m, es)) (u : Upd) :
    let s' := Memory.step s (.update b u)
    Memory.view s' b = some (Memory.memApply u m, es) ∧
    Memory.getMetadata s' b = .ok (Memory.memApply u m) ∧
    (∀ b', b' ≠ b → Memory.view s' b' = Memory.view s b') := by
  intro s'
  have hI' : Memory.Inv s' := Memory.inv_step hI _
  have hv' : Memory.view s' = Spec.update (Memory.view s) b (Memory.memApply u) :=
    Memory.refines hI (.update b u) ⟨by rw [hv]; rfl, fun h => by cases h⟩
  have hvb : Memory.view s' b = some (Memory.memApply u m, es) := by
    rw [hv']; exact update_self hv _
  refine ⟨hvb, ?_, fun b' h => Memory.only_step hI (.update b u) b' h⟩
  rw [Memory.getMetadata_eq hI', hvb]

/-- deleting a bucket removes it from view and listing; every other bucket is unchanged -/
theorem delete_removes_bucket_and_events_memory {s : Memory.St D} (hI : Memory.Inv s) {b : String}
    (hb : (Memory.view s b).isSome) :
    let s' := Memory.step s (.deleteBucket b)
    Memory.view s' b = none ∧ (∀ m, (b, m) ∉ Memory.bucketsOf s') ∧
    Memory.getMetadata s' b = .error .valueError ∧
    (∀ b', b' ≠ b → Memory.view s' b' = Memory.view s b') := by
  intro s'
  have hI' : Memory.Inv s' := Memory.inv_step hI _
  have hv' : Memory.view s' = Spec.deleteBucket (Memory.view s) b :=
    Memory.refines hI (.deleteBucket b) hb
  have hvb : Memory.view s' b = none := by rw [hv']; exact deleteBucket_self _ b
  refine ⟨hvb, unlisted_of_view (Memory.bucketsOf_eq hI') hvb, ?_,
    fun b' h => Memory.only_step hI (.deleteBucket b) b' h⟩
  rw [Memory.getMetadata_eq hI', hvb]

/-- delete then create under the same id: an empty bucket with the new metadata -/
theorem recreate_is_empty_memory {s : Memory.St D} (hI : Memory.Inv s) (b : String) (m : Meta) :
    Memory.view (Memory.step (Memory.step s (.deleteBucket b)) (.create b m)) b =
      some (Memory.storedMeta b m, []) :=
  (create_listed_memory (Memory.inv_step hI _) b m).1

/-- on a bucket that does not exist: not listed (the driver's KeyError); describe, update and
    delete raise ValueError; the state is unchanged -/
theorem missing_raises_and_unchanged_memory {s : Memory.St D} (hI : Memory.Inv s) {b : String}
    (hb : Memory.view s b = none) :
    (∀ m, (b, m) ∉ Memory.bucketsOf s) ∧
    Memory.getMetadata s b = .error .valueError ∧
    (∀ u, Memory.updateBucket s b u = .error .valueError ∧ Memory.step s (.update b u) = s) ∧
    Memory.deleteBucket s b = .error .valueError ∧ Memory.step s (.deleteBucket b) = s := by
  refine ⟨unlisted_of_view (Memory.bucketsOf_eq hI) hb, ?_, ?_, ?_, ?_⟩
  · rw [Memory.getMetadata_eq hI, hb]
  · intro u
    have h := Memory.updateBucket_missing hI hb u
    exact ⟨h, by simp only [Memory.step, h]⟩
  · exact Memory.deleteBucket_missing hI hb
  · simp only [Memory.step, Memory.deleteBucket_missing hI hb]

/-! ## Peewee -/

/-- the listing is the view: `(b, m)` is listed iff bucket `b` reads back with metadata `m` -/
theorem listing_is_view_peewee {s : Peewee.St D} (hI : Peewee.Inv s) (b : String) (m : Meta) :
    (b, m) ∈ Peewee.bucketsOf s ↔ ∃ es, Peewee.view s b = some (m, es) :=
  Peewee.bucketsOf_eq hI b m

/-- no bucket id is listed twice -/
theorem listing_keys_unique_peewee {s : Peewee.St D} (hI : Peewee.Inv s) :
    ((Peewee.bucketsOf s).map (·.1)).Nodup := by
  unfold Peewee.bucketsOf
  rw [List.map_map]
  exact hI.bids

/-- describing a bucket returns the metadata of the view (the cache never names a key that is not
    in the table) -/
theorem describe_is_view_peewee {s : Peewee.St D} (hI : Peewee.Inv s) (b : String) :
    Peewee.getMetadata s b =
      (match Peewee.view s b with | some (m, _) => .ok m | none => .error .valueError) :=
  Peewee.getMetadata_eq hI

/-- the `bucket_keys` cache equals the bucket table (id ↦ key) in every state satisfying the
    invariant — hence after every step and in every reachable state; in particular the cached key
    of `b` exists iff the bucket does -/
theorem peewee_keys_coherent {s : Peewee.St D} (hI : Peewee.Inv s) :
    s.keys = s.buckets.map (fun r => (r.bid, r.key)) ∧
    (∀ op : Op D, (Peewee.step s op).keys =
      (Peewee.step s op).buckets.map (fun r => (r.bid, r.key))) ∧
    (∀ b, Peewee.keyOf s b = none ↔ Peewee.view s b = none) :=
  ⟨hI.cache, fun op => (Peewee.inv_step hI op).cache, fun b => Peewee.keyOf_none_iff hI b⟩

/-- in every state reachable from the empty store the cache equals the table -/
theorem peewee_keys_coherent_reachable (ops : List (Op D)) :
    (Peewee.run ({} : Peewee.St D) ops).keys =
      (Peewee.run ({} : Peewee.St D) ops).buckets.map (fun r => (r.bid, r.key)) :=
  (inv_foldl Peewee.step Peewee.Inv (fun _ op h => Peewee.inv_step h op) ops _ Peewee.inv_init).cache

/-- creating a bucket under a fresh id: it reads back empty with exactly the metadata given, is
    listed (once) with that metadata, and every other bucket and listing entry is unchanged -/
theorem create_listed_peewee {s : Peewee.St D} (hI : Peewee.Inv s) {b : String}
    (hb : Peewee.view s b = none) (m : Meta) :
    let s' := Peewee.step s (.create b m)
    Peewee.view s' b = some (m, []) ∧
    (b, m) ∈ Peewee.bucketsOf s' ∧ (∀ m', (b, m') ∈ Peewee.bucketsOf s' → m' = m) ∧
    (∀ b', b' ≠ b → Peewee.view s' b' = Peewee.view s b') ∧
    (∀ b' m', b' ≠ b → ((b', m') ∈ Peewee.bucketsOf s' ↔ (b', m') ∈ Peewee.bucketsOf s)) := by
  intro s'
  have hI' : Peewee.Inv s' := Peewee.inv_step hI _
  have hv : Peewee.view s' = Spec.create (Peewee.view s) b m := Peewee.refines hI (.create b m) hb
  have hvb : Peewee.view s' b = some (m, []) := by rw [hv]; exact create_self _ b m
  have hfr : ∀ b', b' ≠ b → Peewee.view s' b' = Peewee.view s b' :=
    fun b' h => Peewee.only_step hI (.create b m) b' h
  obtain ⟨h1, h2⟩ := listed_of_view (Peewee.bucketsOf_eq hI') hvb
  exact ⟨hvb, h1, h2, hfr, fun b' m' h =>
    listed_congr (Peewee.bucketsOf_eq hI) (Peewee.bucketsOf_eq hI') (hfr b' h) m'⟩

/-- creating under an id that exists is rejected (IntegrityError) and changes nothing -/
theorem create_existing_rejected_peewee {s : Peewee.St D} (hI : Peewee.Inv s) {b : String}
    (hb : (Peewee.view s b).isSome) (m : Meta) :
    Peewee.createBucket s b m = .error .integrity ∧ Peewee.step s (.create b m) = s := by
  have h := Peewee.createBucket_exists (m := m) hI hb
  exact ⟨h, by simp only [Peewee.step, h]⟩

/-- an update changes the metadata to `u.apply m` (`update_fields_sql`; no field supplied: no
    change), keeps the events, and leaves every other bucket alone -/
theorem update_only_supplied_peewee {s : Peewee.St D} (hI : Peewee.Inv s) {b : String} {m : Meta}
    {es : List (Ev D)} (hv : Peewee.view s b = some (m, es)) (u : Upd) :
    let s' := Peewee.step s (.update b u)
    Peewee.view s' b = some (u.apply m, es) ∧ Peewee.getMetadata s' b = .ok (u.apply m) ∧
    (∀ b', b' ≠ b → Peewee.view s' b' = Peewee.view s b') := by
  intro s'
  have hI' : Peewee.Inv s' := Peewee.inv_step hI _
  have hv' : Peewee.view s' = Spec.update (Peewee.view s) b u.apply :=
    Peewee.refines hI (.update b u) ⟨by rw [hv]; rfl, fun h => by cases h⟩
  have hvb : Peewee.view s' b = some (u.apply m, es) := by rw [hv']; exact update_self hv _
  refine ⟨hvb, ?_, fun b' h => Peewee.only_step hI (.update b u) b' h⟩
  rw [Peewee.getMetadata_eq hI', hvb]

/-- deleting a bucket removes it from view and listing; every other bucket is unchanged -/
theorem delete_removes_bucket_and_events_peewee {s : Peewee.St D} (hI : Peewee.Inv s) {b : String}
    (hb : (Peewee.view s b).isSome) :
    let s' := Peewee.step s (.deleteBucket b)
    Peewee.view s' b = none ∧ (∀ m, (b, m) ∉ Peewee.bucketsOf s') ∧
    Peewee.getMetadata s' b = .error .valueError ∧
    (∀ b', b' ≠ b → Peewee.view s' b' = Peewee.view s b') := by
  intro s'
  have hI' : Peewee.Inv s' := Peewee.inv_step hI _
  have hv' : Peewee.view s' = Spec.deleteBucket (Peewee.view s) b :=
    Peewee.refines hI (.deleteBucket b) hb
  have hvb : Peewee.view s' b = none := by rw [hv']; exact deleteBucket_self _ b
  refine ⟨hvb, unlisted_of_view (Peewee.bucketsOf_eq hI') hvb, ?_,
    fun b' h => Peewee.only_step hI (.deleteBucket b) b' h⟩
  rw [Peewee.getMetadata_eq hI', hvb]

/-- delete then create under the same id yields an empty bucket although the new bucket row may get
    the key of the deleted one (`max key + 1`): the invariant's foreign-key clause — no event row
    refers to a key that is not in the bucket table — is what excludes stale rows -/
theorem recreate_is_empty_peewee {s : Peewee.St D} (hI : Peewee.Inv s) {b : String}
    (hb : (Peewee.view s b).isSome) (m : Meta) :
    Peewee.view (Peewee.step (Peewee.step s (.deleteBucket b)) (.create b m)) b = some (m, []) :=
  (create_listed_peewee (Peewee.inv_step hI _)
    (delete_removes_bucket_and_events_peewee hI hb).1 m).1

/-- on a bucket that does not exist: not listed (the driver's KeyError); describe, update and
    delete raise ValueError; the state is unchanged -/
theorem missing_raises_and_unchanged_peewee {s : Peewee.St D} (hI : Peewee.Inv s) {b : String}
    (hb : Peewee.view s b = none) :
    (∀ m, (b, m) ∉ Peewee.bucketsOf s) ∧
    Peewee.getMetadata s b = .error .valueError ∧
    (∀ u, Peewee.updateBucket s b u = .error .valueError ∧ Peewee.step s (.update b u) = s) ∧
    Peewee.deleteBucket s b = .error .valueError ∧ Peewee.step s (.deleteBucket b) = s := by
  refine ⟨unlisted_of_view (Peewee.bucketsOf_eq hI) hb, ?_, ?_, ?_, ?_⟩
  · rw [Peewee.getMetadata_eq hI, hb]
  · intro u
    have h := Peewee.updateBucket_missing (u := u) hI hb
    exact ⟨h, by simp only [Peewee.step, h]⟩
  · exact Peewee.deleteBucket_missing hI hb
  · simp only [Peewee.step, Peewee.deleteBucket_missing hI hb]


/-! ## the `Datastore` layer: cached bucket handles never go stale -/

/-- `bucket_instances` only ever holds ids of listed buckets: it starts empty, a lookup adds a listed id,
    `create_bucket` and every storage operation that keeps the listing keep it, `delete_bucket` drops the handle
    before calling the storage; so a lookup of a bucket that does not exist always raises KeyError.
    Generic in the backend (`listed` = the ids `buckets()` returns); the two backend facts used are
    instantiated for sqlite below from `frame_sqlite` / `listing_is_view_sqlite`. -/
theorem handle_cache_coherent {σ : Type} (listed : σ → List String) :
    (∀ s, Datastore.Coherent listed ({ st := s } : Datastore.DS σ)) ∧
    (∀ d d' b, Datastore.Coherent listed d → Datastore.getitem listed d b = .ok d' →
      Datastore.Coherent listed d' ∧ b ∈ listed d.st) ∧
    (∀ d b, Datastore.Coherent listed d → b ∉ listed d.st → Datastore.getitem listed d b = .error .keyError) ∧
    (∀ (create : σ → String → Meta → Except Err σ),
      (∀ s s' b m, create s b m = .ok s' → ∀ x, x ∈ listed s → x ∈ listed s') →
      ∀ d d' b m, Datastore.Coherent listed d → Datastore.createBucket listed create d b m = .ok d' →
        Datastore.Coherent listed d') ∧
    (∀ (delete : σ → String → Except Err σ),
      (∀ s s' b, delete s b = .ok s' → ∀ x, x ≠ b → x ∈ listed s → x ∈ listed s') →
      ∀ d b, Datastore.Coherent listed d →
        Datastore.Coherent listed (Datastore.deleteBucket delete d b).1 ∧
        b ∉ (Datastore.deleteBucket delete d b).1.cache) :=
  ⟨fun s => Datastore.coherent_init listed s,
   fun _ _ _ h hg => ⟨(Datastore.getitem_coherent h hg).1, Datastore.getitem_listed h hg⟩,
   fun _ _ h hb => Datastore.getitem_missing h hb,
   fun _ hc _ _ _ _ h hcr => Datastore.createBucket_coherent hc h hcr,
   fun _ hd _ _ h => Datastore.deleteBucket_coherent hd h⟩

/-- sqlite satisfies the two backend facts: an operation on bucket `b` keeps every other bucket listed
    (from the frame theorem and the listing/view equivalence) -/
theorem listing_preserved_sqlite {s : Sqlite.St D} (hI : Sqlite.Inv s) (op : Op D) (x : String)
    (hx : x ≠ op.bucket) (hl : x ∈ (Sqlite.bucketsOf s).map (·.1)) :
    x ∈ (Sqlite.bucketsOf (Sqlite.step s op)).map (·.1) := by
  obtain ⟨⟨b, m⟩, hm, rfl⟩ := List.mem_map.1 hl
  obtain ⟨es, hv⟩ := (Sqlite.bucketsOf_eq hI b m).1 hm
  have hf : Sqlite.view (Sqlite.step s op) b = Sqlite.view s b := Sqlite.only_step hI op b hx
  have hI' : Sqlite.Inv (Sqlite.step s op) := Sqlite.inv_step hI op
  exact List.mem_map.2 ⟨(b, m), (Sqlite.bucketsOf_eq hI' b m).2 ⟨es, by rw [hf, hv]⟩, rfl⟩

/-! ## non-vacuity: the hypotheses hold on concrete two-bucket states -/

example := create_listed_sqlite Sqlite.exS_inv (b := "c") rfl default
example := update_only_supplied_sqlite Sqlite.exS_inv (b := "a") rfl (u := { name := some "n" }) rfl
example := delete_removes_bucket_and_events_sqlite Sqlite.exS_inv (b := "a") rfl
example : Sqlite.view (Sqlite.step (Sqlite.step Sqlite.exS (.deleteBucket "a")) (.create "a" default))
    "a" = some (default, []) := recreate_is_empty_sqlite Sqlite.exS_inv rfl default
example := missing_raises_and_unchanged_sqlite Sqlite.exS_inv (b := "zz") rfl
example := create_listed_memory Memory.exSt_inv "c" Memory.exMeta
/-- the memory backend's `create_bucket` over an existing id replaces the bucket by an empty one -/
example : Memory.view (Memory.step Memory.exSt (.create "b" Memory.exMeta)) "b" =
    some (Memory.exMeta, []) := (create_listed_memory Memory.exSt_inv "b" Memory.exMeta).1
example := update_only_supplied_memory Memory.exSt_inv (b := "b") rfl { type := some "u" }
example := delete_removes_bucket_and_events_memory Memory.exSt_inv (b := "b") rfl
example := missing_raises_and_unchanged_memory Memory.exSt_inv (b := "zz") rfl
example := create_listed_peewee Peewee.Example.inv0 (b := "c") rfl Peewee.Example.m0
example := update_only_supplied_peewee Peewee.Example.inv0 (b := "a") Peewee.Example.view_a
  { hostname := some "x" }
example : Peewee.view (Peewee.step (Peewee.step Peewee.Example.s0 (.deleteBucket "b"))
    (.create "b" Peewee.Example.m0)) "b" = some (Peewee.Example.m0, []) :=
  recreate_is_empty_peewee Peewee.Example.inv0 rfl _
example := missing_raises_and_unchanged_peewee Peewee.Example.inv0 (b := "zz") rfl
example := peewee_keys_coherent Peewee.Example.inv0

end AwProofs.C05
