import AwProofs.Lemmas.UnionNoOverlap
/-!
# C15 — union_no_overlap keeps list one intact and only the uncovered parts of list two

Property theorems only, about `Aw.Unov.unov`, the model of the (repaired, four-case) loop of
`aw_transform/union_no_overlap.py` including `_split_event` and the millisecond floor of
`Event.timestamp`'s setter. `unov l1 l2` returns every output event tagged with its origin
(`true` = list one); the Python result is `(unov l1 l2).map (·.2)`, `out1`/`out2` are the events
of either origin in output order. The payload type `D` is arbitrary.

The quantifier of C15 is `Input l`: durations ≥ 0, every event ends at or before the start of every
later one (sorted, internally non-overlapping; a zero-length event may sit on an edge of its
neighbour), instants whole milliseconds (true of every `Event` object). Coverage is **half-open**,
`ts ≤ t < ts + dur`, everywhere; zero-length events (which cover nothing) have their own statement
`list2_zero_length`.

The property does NOT hold in full on the real code, and the model shows why: `_split_event` writes
the start of the tail through `Event.timestamp`'s setter, which floors to whole milliseconds, while
durations keep microseconds. When a list-one event ends between two millisecond ticks, the tail of
the list-two event it cuts starts up to 999 µs *before* that end (and, its duration being computed
from the exact cut, also ends that much early). Hence `list2_pieces`, `out_nonoverlap` and
`cover_union` hold only under the extra hypothesis `WholeMsDurations l1` (the list-one durations are
multiples of 1000 µs; list two may have any durations). They are proved under it with the suffix
`_partial`; the full statements are the `def`s `List2Pieces`, `OutNonoverlap`, `CoverUnion`, and all
three are refuted on the model by one concrete witness (`…_refuted`) which the harness replays on
the real code (open finding `submillisecond-list-one`; same root cause as C10's
`submillisecond-duration`). `list1_intact`, `list2_pieces_within`, `list2_zero_length` and
`terminates` hold in full.
-/
namespace AwProofs.C15
open Aw Aw.Unov AwProofs.Unov
variable {D : Type}

/-- the quantifier of C15 for one list -/
def Input (l : List (Ev D)) : Prop := Chain l ∧ TsMs l

/-- some event of the list covers `t` (half-open) -/
def cov (l : List (Ev D)) (t : Int) : Prop := ∃ e ∈ l, e.ts ≤ t ∧ t < e.ts + e.dur

/-- some event of the list with payload `p` covers `t` (half-open) -/
def covD (l : List (Ev D)) (p : D) (t : Int) : Prop :=
  ∃ e ∈ l, e.data = p ∧ e.ts ≤ t ∧ t < e.ts + e.dur

/-- durations ≥ 0 and, in the order given, every event ends at or before the start of every later
    one -/
def Nonoverlap (o : List (Ev D)) : Prop :=
  (∀ e ∈ o, 0 ≤ e.dur) ∧ o.Pairwise (fun a b => a.ts + a.dur ≤ b.ts)

/-- C15, second part, full strength: `t` is covered by a list-two output piece with payload `p`
    iff `t` is covered by a list-two event with payload `p` and by no list-one event -/
def List2Pieces (D : Type) : Prop :=
  ∀ (l1 l2 : List (Ev D)), Input l1 → Input l2 → ∀ (t : Int) (p : D),
    covD (out2 (unov l1 l2)) p t ↔ covD l2 p t ∧ ¬ cov l1 t

/-- C15, third part, full strength: the returned list, in the order returned, is sorted and
    non-overlapping -/
def OutNonoverlap (D : Type) : Prop :=
  ∀ (l1 l2 : List (Ev D)), Input l1 → Input l2 → Nonoverlap ((unov l1 l2).map (·.2))

/-- C15, fourth part, full strength: the covered time is the union of both inputs -/
def CoverUnion (D : Type) : Prop :=
  ∀ (l1 l2 : List (Ev D)), Input l1 → Input l2 → ∀ t : Int,
    cov ((unov l1 l2).map (·.2)) t ↔ cov l1 t ∨ cov l2 t

/-! ## statements that hold in full -/

/-- the list-one outputs are exactly `l1`: unchanged, in order, nothing added or lost
    (for all inputs, no hypotheses) -/
theorem list1_intact (l1 l2 : List (Ev D)) : out1 (unov l1 l2) = l1 :=
  list1_eq l1 l2

/-- every list-two output is a part of one list-two event: same payload and id, inside its
    interval (any durations; only "instants are whole milliseconds" is used) -/
theorem list2_pieces_within (l1 l2 : List (Ev D)) (h1 : Input l1) (h2 : Input l2) :
    ∀ o ∈ out2 (unov l1 l2), ∃ f ∈ l2, o.data = f.data ∧ o.id = f.id ∧ f.ts ≤ o.ts ∧
      o.ts + o.dur ≤ f.ts + f.dur := by
  intro o ho
  exact pieces_within l1 l2 h1.2 h2.2 (false, o) (mem_out2.1 ho) rfl

/-- a zero-length event is among the list-two outputs iff it is a list-two event that is not
    strictly inside a list-one event (on an edge of a list-one event it is kept) -/
theorem list2_zero_length (l1 l2 : List (Ev D)) (h1 : Input l1) (h2 : Input l2)
    (f : Ev D) (hf : f.dur = 0) :
    f ∈ out2 (unov l1 l2) ↔
      f ∈ l2 ∧ ¬ ∃ e ∈ l1, e.ts < f.ts ∧ f.ts < e.ts + e.dur := by
  rw [mem_out2]
  exact zero_length_iff l1 l2 f hf h1.1 h2.1 h1.2

/-- The loop terminates on **all** integer inputs (unsorted, overlapping, negative durations,
    instants that are not whole milliseconds). `unov` is a total Lean function, accepted by
    well-founded recursion on the lexicographic measure `Aw.Unov.measure` = (number of remaining
    events, µs from the start of head one to the end of head two, phase of the two heads); and the
    `while` loop with an explicit iteration budget (`unovFuel`, structural recursion on the budget,
    `none` when it runs out) reaches the end of the loop for some budget with that result. -/
theorem terminates (l1 l2 : List (Ev D)) : ∃ n, unovFuel n l1 l2 = some (unov l1 l2) :=
  fuel_exists l1 l2

/-! ## statements that need whole-millisecond list-one durations -/

/-- `List2Pieces` for inputs whose list-one durations are whole milliseconds.
    PARTIAL: needs `WholeMsDurations l1`; the full statement `List2Pieces` is refuted below. -/
theorem list2_pieces_partial (l1 l2 : List (Ev D)) (h1 : Input l1) (h2 : Input l2)
    (hw : WholeMsDurations l1) (t : Int) (p : D) :
    covD (out2 (unov l1 l2)) p t ↔ covD l2 p t ∧ ¬ cov l1 t := by
  have h := pieces_iff l1 l2 p t h1.1 h2.1 (msAligned_of h1.2 hw)
  simp only [OutCov2, CovByData, CovBy, Covers] at h
  simp only [covD, cov]
  constructor
  · rintro ⟨o, ho, hp, hc⟩
    exact h.1 ⟨(false, o), mem_out2.1 ho, rfl, hp, hc⟩
  · intro hr
    obtain ⟨x, hx, hb, hp, hc⟩ := h.2 hr
    obtain ⟨b, o⟩ := x
    simp only at hb
    subst hb
    exact ⟨o, mem_out2.2 hx, hp, hc⟩

/-- `OutNonoverlap` for inputs whose list-one durations are whole milliseconds.
    PARTIAL: needs `WholeMsDurations l1`; the full statement `OutNonoverlap` is refuted below. -/
theorem out_nonoverlap_partial (l1 l2 : List (Ev D)) (h1 : Input l1) (h2 : Input l2)
    (hw : WholeMsDurations l1) : Nonoverlap ((unov l1 l2).map (·.2)) :=
  out_chain l1 l2 h1.1 h2.1 (msAligned_of h1.2 hw)

/-- `CoverUnion` for inputs whose list-one durations are whole milliseconds.
    PARTIAL: needs `WholeMsDurations l1`; the full statement `CoverUnion` is refuted below. -/
theorem cover_union_partial (l1 l2 : List (Ev D)) (h1 : Input l1) (h2 : Input l2)
    (hw : WholeMsDurations l1) (t : Int) :
    cov ((unov l1 l2).map (·.2)) t ↔ cov l1 t ∨ cov l2 t := by
  have hl : ∀ e, (true, e) ∈ unov l1 l2 ↔ e ∈ l1 := by
    intro e
    rw [← mem_out1, list1_eq]
  constructor
  · rintro ⟨o, ho, hc⟩
    obtain ⟨⟨b, o'⟩, hx, rfl⟩ := List.mem_map.1 ho
    cases b
    · have := (list2_pieces_partial l1 l2 h1 h2 hw t o'.data).1 ⟨o', mem_out2.2 hx, rfl, hc⟩
      obtain ⟨⟨f, hf, _, hfc⟩, _⟩ := this
      exact Or.inr ⟨f, hf, hfc⟩
    · exact Or.inl ⟨o', (hl o').1 hx, hc⟩
  · intro h
    by_cases hc1 : cov l1 t
    · obtain ⟨e, he, hc⟩ := hc1
      exact ⟨e, List.mem_map.2 ⟨(true, e), (hl e).2 he, rfl⟩, hc⟩
    · rcases h with h | ⟨f, hf, hfc⟩
      · exact absurd h hc1
      · obtain ⟨o, ho, _, hc⟩ :=
          (list2_pieces_partial l1 l2 h1 h2 hw t f.data).2 ⟨⟨f, hf, rfl, hfc⟩, hc1⟩
        exact ⟨o, List.mem_map.2 ⟨(false, o), mem_out2.1 ho, rfl⟩, hc⟩

/-! ## the full statements are false: a list-one event ending between two millisecond ticks -/

/-- witness: list one `[0, 1.5 ms)`, list two `[1 ms, 2 ms)`. The uncovered part of the list-two
    event is `[1.5 ms, 2 ms)`; the tail is written at `floor(1.5 ms) = 1 ms` with duration 0.5 ms,
    so `[1 ms, 1.5 ms)` is returned: entirely under the list-one event, and `[1.5 ms, 2 ms)` is
    covered by nothing. -/
def subMsWitness1 : List (Ev Bool) := [⟨none, 0, 1500, true⟩]
def subMsWitness2 : List (Ev Bool) := [⟨none, 1000, 1000, false⟩]

theorem subMsWitness_input : Input subMsWitness1 ∧ Input subMsWitness2 := by
  unfold Input Chain TsMs subMsWitness1 subMsWitness2
  decide

theorem subMsWitness_out :
    unov subMsWitness1 subMsWitness2 =
      [(true, ⟨none, 0, 1500, true⟩), (false, ⟨none, 1000, 500, false⟩)] :=
  fuel_sound _ _ 4 _ (by decide)

/-- the returned list-two piece starts before the list-one event ends -/
theorem out_nonoverlap_refuted : ¬ OutNonoverlap Bool := by
  intro h
  have := (h subMsWitness1 subMsWitness2 subMsWitness_input.1 subMsWitness_input.2).2
  rw [subMsWitness_out] at this
  revert this
  decide

/-- instant 1 ms is covered by a list-two output although the list-one event covers it -/
theorem list2_pieces_refuted : ¬ List2Pieces Bool := by
  intro h
  have := (h subMsWitness1 subMsWitness2 subMsWitness_input.1 subMsWitness_input.2 1000 false).1
  rw [subMsWitness_out] at this
  have hc : covD (out2 [(true, (⟨none, 0, 1500, true⟩ : Ev Bool)), (false, ⟨none, 1000, 500, false⟩)])
      false 1000 := ⟨⟨none, 1000, 500, false⟩, by decide, by decide⟩
  obtain ⟨_, hn⟩ := this hc
  exact hn ⟨⟨none, 0, 1500, true⟩, by decide, by decide⟩

/-- instant 1.7 ms is covered by the list-two event but by no returned event -/
theorem cover_union_refuted : ¬ CoverUnion Bool := by
  intro h
  have := (h subMsWitness1 subMsWitness2 subMsWitness_input.1 subMsWitness_input.2 1700).2
    (Or.inr ⟨⟨none, 1000, 1000, false⟩, by decide, by decide⟩)
  rw [subMsWitness_out] at this
  obtain ⟨o, ho, hc⟩ := this
  simp only [List.map_cons, List.map_nil, List.mem_cons, List.not_mem_nil, or_false] at ho
  rcases ho with rfl | rfl
  · revert hc; decide
  · revert hc; decide

/-! Non-vacuity of the `_partial` hypotheses: a concrete input where a list-one event spans several
list-two events, a zero-length list-one event lies inside a list-two event and edges are shared. -/

example : Input (D := Nat) [⟨none, 0, 2000, 1⟩, ⟨none, 5000, 0, 2⟩] ∧
    WholeMsDurations (D := Nat) [⟨none, 0, 2000, 1⟩, ⟨none, 5000, 0, 2⟩] ∧
    Input (D := Nat) [⟨none, 0, 1000, 7⟩, ⟨none, 1000, 1500, 8⟩, ⟨none, 3000, 4000, 9⟩] := by
  unfold Input Chain TsMs WholeMsDurations
  decide

example : unov (D := Nat) [⟨none, 0, 2000, 1⟩, ⟨none, 5000, 0, 2⟩]
      [⟨none, 0, 1000, 7⟩, ⟨none, 1000, 1500, 8⟩, ⟨none, 3000, 4000, 9⟩]
    = [(true, ⟨none, 0, 2000, 1⟩), (false, ⟨none, 2000, 500, 8⟩), (false, ⟨none, 3000, 2000, 9⟩),
        (true, ⟨none, 5000, 0, 2⟩), (false, ⟨none, 5000, 2000, 9⟩)] :=
  fuel_sound _ _ 9 _ (by decide)

end AwProofs.C15
