import AwModel.UnionNoOverlap
namespace AwProofs.C15
end AwProofs.C15
