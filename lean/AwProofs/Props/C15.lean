import AwProofs.Lemmas.UnionNoOverlap
/-!
# C15 — union_no_overlap keeps list one intact and only the uncovered parts of list two

Property theorems only, about `Aw.Unov.unov`, the model of the (repaired, four-case) loop of
`aw_transform/union_no_overlap.py` including `_split_event` and the millisecond floor of
`Event.timestamp`'s setter. `unov l1 l2` returns every output event tagged with its origin
(`true` = list one); the Python result is `(unov l1 l2).map (·.2)`, `out1`/`out2` are the events
of either origin in output order. The payload type `D` is arbitrary.

Hypotheses. `Chain l`: durations ≥ 0 and every event ends at or before the start of every later
one (sorted, internally non-overlapping; a zero-length event may sit on an edge of its neighbour).
`MsAligned l1`: instants and durations of the **list-one** events are whole milliseconds (an
`Event` cannot hold a finer instant, and the cut points are the edges of list-one events; list two
may have microsecond durations).

Coverage is **half-open**, `ts ≤ t < ts + dur`, everywhere; zero-length events (which cover
nothing) have their own statement `list2_zero_length`.
-/
namespace AwProofs.C15
open Aw Aw.Unov AwProofs.Unov
variable {D : Type}

/-- the list-one outputs are exactly `l1`: unchanged, in order, nothing added or lost
    (for all inputs, no hypotheses) -/
theorem list1_intact (l1 l2 : List (Ev D)) : out1 (unov l1 l2) = l1 :=
  list1_eq l1 l2

/-- `t` is covered by a list-two output piece with payload `p` iff `t` is covered by a list-two
    event with payload `p` and by no list-one event (half-open coverage) -/
theorem list2_pieces (l1 l2 : List (Ev D)) (h1 : Chain l1) (h2 : Chain l2) (ha : MsAligned l1)
    (t : Int) (p : D) :
    (∃ o ∈ out2 (unov l1 l2), o.data = p ∧ o.ts ≤ t ∧ t < o.ts + o.dur) ↔
    (∃ f ∈ l2, f.data = p ∧ f.ts ≤ t ∧ t < f.ts + f.dur ∧
      ¬ ∃ e ∈ l1, e.ts ≤ t ∧ t < e.ts + e.dur) := by
  have h := pieces_iff l1 l2 p t h1 h2 ha
  simp only [OutCov2, CovByData, CovBy, Covers] at h
  constructor
  · rintro ⟨o, ho, hp, hc⟩
    obtain ⟨⟨f, hf, hfp, hfc⟩, hn⟩ := h.1 ⟨(false, o), mem_out2.1 ho, rfl, hp, hc⟩
    exact ⟨f, hf, hfp, hfc.1, hfc.2, hn⟩
  · rintro ⟨f, hf, hfp, hf1, hf2, hn⟩
    obtain ⟨x, hx, hb, hp, hc⟩ := h.2 ⟨⟨f, hf, hfp, hf1, hf2⟩, hn⟩
    obtain ⟨b, o⟩ := x
    simp only at hb
    subst hb
    exact ⟨o, mem_out2.2 hx, hp, hc⟩

/-- every list-two output is a part of one list-two event: same payload and id, inside its
    interval -/
theorem list2_pieces_within (l1 l2 : List (Ev D)) (ha : MsAligned l1) :
    ∀ o ∈ out2 (unov l1 l2), ∃ f ∈ l2, o.data = f.data ∧ o.id = f.id ∧ f.ts ≤ o.ts ∧
      o.ts + o.dur ≤ f.ts + f.dur := by
  intro o ho
  exact pieces_within l1 l2 ha (false, o) (mem_out2.1 ho) rfl

/-- a zero-length event is among the list-two outputs iff it is a list-two event that is not
    strictly inside a list-one event (on an edge of a list-one event it is kept) -/
theorem list2_zero_length (l1 l2 : List (Ev D)) (h1 : Chain l1) (h2 : Chain l2)
    (ha : MsAligned l1) (f : Ev D) (hf : f.dur = 0) :
    f ∈ out2 (unov l1 l2) ↔
      f ∈ l2 ∧ ¬ ∃ e ∈ l1, e.ts < f.ts ∧ f.ts < e.ts + e.dur := by
  rw [mem_out2]
  exact zero_length_iff l1 l2 f hf h1 h2 ha

/-- the returned list, in the order returned, is sorted and non-overlapping: durations ≥ 0 and
    every event ends at or before the start of every later one -/
theorem out_nonoverlap (l1 l2 : List (Ev D)) (h1 : Chain l1) (h2 : Chain l2) (ha : MsAligned l1) :
    (∀ o ∈ (unov l1 l2).map (·.2), 0 ≤ o.dur) ∧
    ((unov l1 l2).map (·.2)).Pairwise (fun a b => a.ts + a.dur ≤ b.ts) :=
  out_chain l1 l2 h1 h2 ha

/-- the time covered by the result is the union of the time covered by the two inputs -/
theorem cover_union (l1 l2 : List (Ev D)) (h1 : Chain l1) (h2 : Chain l2) (ha : MsAligned l1)
    (t : Int) :
    (∃ o ∈ (unov l1 l2).map (·.2), o.ts ≤ t ∧ t < o.ts + o.dur) ↔
    ((∃ e ∈ l1, e.ts ≤ t ∧ t < e.ts + e.dur) ∨ (∃ f ∈ l2, f.ts ≤ t ∧ t < f.ts + f.dur)) := by
  have hl : ∀ e, (true, e) ∈ unov l1 l2 ↔ e ∈ l1 := by
    intro e
    rw [← mem_out1, list1_eq]
  constructor
  · rintro ⟨o, ho, hc⟩
    obtain ⟨⟨b, o'⟩, hx, rfl⟩ := List.mem_map.1 ho
    cases b
    · have := (list2_pieces l1 l2 h1 h2 ha t o'.data).1 ⟨o', mem_out2.2 hx, rfl, hc⟩
      obtain ⟨f, hf, _, hf1, hf2, _⟩ := this
      exact Or.inr ⟨f, hf, hf1, hf2⟩
    · exact Or.inl ⟨o', (hl o').1 hx, hc⟩
  · intro h
    by_cases hc1 : ∃ e ∈ l1, e.ts ≤ t ∧ t < e.ts + e.dur
    · obtain ⟨e, he, hc⟩ := hc1
      exact ⟨e, List.mem_map.2 ⟨(true, e), (hl e).2 he, rfl⟩, hc⟩
    · rcases h with h | ⟨f, hf, hf1, hf2⟩
      · exact absurd h hc1
      · obtain ⟨o, ho, _, hc⟩ :=
          (list2_pieces l1 l2 h1 h2 ha t f.data).2 ⟨f, hf, rfl, hf1, hf2, hc1⟩
        exact ⟨o, List.mem_map.2 ⟨(false, o), mem_out2.1 ho, rfl⟩, hc⟩

/-- The loop terminates on **all** integer inputs (unsorted, overlapping, negative durations,
    instants that are not whole milliseconds). `unov` is a total Lean function, accepted by
    well-founded recursion on the lexicographic measure `Aw.Unov.measure` = (number of remaining
    events, µs from the start of head one to the end of head two, phase of the two heads); and the
    `while` loop with an explicit iteration budget (`unovFuel`, structural recursion on the budget,
    `none` when it runs out) reaches the end of the loop for some budget with that result. -/
theorem terminates (l1 l2 : List (Ev D)) : ∃ n, unovFuel n l1 l2 = some (unov l1 l2) :=
  fuel_exists l1 l2

/-! Non-vacuity: the hypotheses hold on a concrete input where a list-one event spans several
list-two events, a zero-length list-one event lies inside a list-two event and edges are shared. -/

example : Chain (D := Nat) [⟨none, 0, 2000, 1⟩, ⟨none, 5000, 0, 2⟩] ∧
    MsAligned (D := Nat) [⟨none, 0, 2000, 1⟩, ⟨none, 5000, 0, 2⟩] ∧
    Chain (D := Nat) [⟨none, 0, 1000, 7⟩, ⟨none, 1000, 1500, 8⟩, ⟨none, 3000, 4000, 9⟩] := by
  refine ⟨⟨by decide, by decide⟩, by unfold MsAligned; decide, ⟨by decide, by decide⟩⟩

example : unovFuel (D := Nat) 9 [⟨none, 0, 2000, 1⟩, ⟨none, 5000, 0, 2⟩]
      [⟨none, 0, 1000, 7⟩, ⟨none, 1000, 1500, 8⟩, ⟨none, 3000, 4000, 9⟩]
    = some [(true, ⟨none, 0, 2000, 1⟩), (false, ⟨none, 2000, 500, 8⟩), (false, ⟨none, 3000, 2000, 9⟩),
        (true, ⟨none, 5000, 0, 2⟩), (false, ⟨none, 5000, 2000, 9⟩)] := by decide

end AwProofs.C15
