import AwProofs.Lemmas.Classify
/-!
# C19 — Annotating transforms add their keys and leave everything else alone

Property theorems only. All statements hold for every event list and rule list and for *every*
behaviour of the external functions: the regex engine `m : Search` (pattern, ignore-case flag,
subject ↦ found?), `up : UrlParse` and the three substitutions `sb : Subs` are universally
quantified parameters. Event data is an insertion-ordered association list; values are strings,
lists of strings, or opaque other JSON values.

`ListShape ks ins outs` (spelled out in `shape_spelled_out`) says: same number of events, and
position by position the same id, timestamp and duration, every data key outside `ks` reads the
same, and the entries outside `ks` are the same entries in the same order.
-/
namespace AwProofs.C19
open Aw Aw.Classify

/-- what `ListShape` means, unfolded -/
theorem shape_spelled_out (ks : List String) (ins outs : List Event) :
    ListShape ks ins outs ↔
      (outs.length = ins.length ∧
       ∀ (i : Nat) (h₁ : i < ins.length) (h₂ : i < outs.length),
         outs[i].id = ins[i].id ∧ outs[i].ts = ins[i].ts ∧ outs[i].dur = ins[i].dur ∧
         (∀ k, k ∉ ks → get outs[i].data k = get ins[i].data k) ∧
         outs[i].data.filter (fun kv => !ks.contains kv.1) = ins[i].data.filter (fun kv => !ks.contains kv.1)) :=
  Iff.rfl

/-! ## shape -/

/-- `categorize` returns the same events in the same order; only `$category` is written -/
theorem shape_preserved_categorize (m : Search) (classes : List (List String × Rule)) (evs : List Event) :
    ListShape ["$category"] evs (categorize m classes evs) :=
  listShape_map _ _ (categorizeOne_sameBut m classes) evs

/-- `tag` returns the same events in the same order; only `$tags` is written -/
theorem shape_preserved_tag (m : Search) (classes : List (String × Rule)) (evs : List Event) :
    ListShape ["$tags"] evs (tag m classes evs) :=
  listShape_map _ _ (tagOne_sameBut m classes) evs

/-- whenever `split_url_events` returns (i.e. `urlparse` raised on no url), it returns the same
    events in the same order, only the six `$…` keys are written, an event without `url` is returned
    exactly as it was, and an event with url `u` carries the six components of `urlparse(u)` (the
    domain without a leading `www.`) -/
theorem shape_preserved_split_url_events (up : UrlParse) (evs out : List Event)
    (h : splitUrlEvents up evs = .ok out) :
    ListShape ["$protocol", "$domain", "$path", "$params", "$options", "$identifier"] evs out ∧
    ∀ (i : Nat) (h₁ : i < evs.length) (h₂ : i < out.length),
      (get evs[i].data "url" = none ∧ out[i] = evs[i]) ∨
      (∃ u p, get evs[i].data "url" = some (JVal.str u) ∧ up u = some p ∧
        get out[i].data "$protocol" = some (.str p.scheme) ∧
        get out[i].data "$domain" = some (.str (stripWww p.netloc)) ∧
        get out[i].data "$path" = some (.str p.path) ∧
        get out[i].data "$params" = some (.str p.params) ∧
        get out[i].data "$options" = some (.str p.query) ∧
        get out[i].data "$identifier" = some (.str p.fragment)) := by
  refine ⟨listShape_mapE splitKeys _ (splitOne_sameBut up) evs out h, fun i h₁ h₂ => ?_⟩
  have hi := (mapE_ok _ evs out h).2 i h₁ h₂
  rcases splitOne_ok up _ _ hi with ⟨hn, he⟩ | ⟨u, p, hu, hp, he⟩
  · exact Or.inl ⟨hn, he⟩
  · refine Or.inr ⟨u, p, hu, hp, ?_⟩
    rw [he]
    simp only [splitData]
    refine ⟨?_, ?_, ?_, ?_, ?_, ?_⟩ <;>
      simp only [get_set_eq, get_set_ne _ _ _ _ (by decide : ("$protocol" : String) ≠ "$domain"),
        get_set_ne _ _ _ _ (by decide : ("$protocol" : String) ≠ "$path"),
        get_set_ne _ _ _ _ (by decide : ("$protocol" : String) ≠ "$params"),
        get_set_ne _ _ _ _ (by decide : ("$protocol" : String) ≠ "$options"),
        get_set_ne _ _ _ _ (by decide : ("$protocol" : String) ≠ "$identifier"),
        get_set_ne _ _ _ _ (by decide : ("$domain" : String) ≠ "$path"),
        get_set_ne _ _ _ _ (by decide : ("$domain" : String) ≠ "$params"),
        get_set_ne _ _ _ _ (by decide : ("$domain" : String) ≠ "$options"),
        get_set_ne _ _ _ _ (by decide : ("$domain" : String) ≠ "$identifier"),
        get_set_ne _ _ _ _ (by decide : ("$path" : String) ≠ "$params"),
        get_set_ne _ _ _ _ (by decide : ("$path" : String) ≠ "$options"),
        get_set_ne _ _ _ _ (by decide : ("$path" : String) ≠ "$identifier"),
        get_set_ne _ _ _ _ (by decide : ("$params" : String) ≠ "$options"),
        get_set_ne _ _ _ _ (by decide : ("$params" : String) ≠ "$identifier"),
        get_set_ne _ _ _ _ (by decide : ("$options" : String) ≠ "$identifier")]

/-- whenever `simplify_string` returns, it returns the same number of events in the same order,
    only `key` is written, and `key` then holds the substituted string -/
theorem shape_preserved_simplify_string (sb : Subs) (key : String) (evs out : List Event)
    (h : simplifyString sb key evs = .ok out) :
    ListShape [key] evs out ∧
    ∀ (i : Nat) (h₁ : i < evs.length) (h₂ : i < out.length),
      ∃ v, get evs[i].data key = some (JVal.str v) ∧
        get out[i].data key = some (JVal.str
          (if key = "title" ∧ has evs[i].data "app" = true then sb.dot (sb.fps (sb.parens v)) else sb.parens v)) := by
  refine ⟨listShape_mapE [key] _ (simplifyOne_sameBut sb key) evs out h, fun i h₁ h₂ => ?_⟩
  have hi := (mapE_ok _ evs out h).2 i h₁ h₂
  obtain ⟨v, hv, he⟩ := simplifyOne_ok sb key _ _ hi
  refine ⟨v, hv, ?_⟩
  rw [he]
  simp only [simplifiedData]
  split <;> simp only [get_set_eq]

/-- key present with a string value is exactly the precondition: then `simplify_string` returns;
    and when it raises, some event lacks the key (`KeyError`) or holds a non-string (`TypeError`) -/
theorem simplify_string_returns_iff (sb : Subs) (key : String) (evs : List Event) :
    (∃ out, simplifyString sb key evs = .ok out) ↔ ∀ e ∈ evs, ∃ v, get e.data key = some (JVal.str v) := by
  constructor
  · rintro ⟨out, h⟩ e he
    obtain ⟨i, hi, rfl⟩ := List.getElem_of_mem he
    have hl := (mapE_ok _ evs out h).1
    have := (mapE_ok _ evs out h).2 i hi (by omega)
    obtain ⟨v, hv, _⟩ := simplifyOne_ok sb key _ _ this
    exact ⟨v, hv⟩
  · intro h
    exact mapE_ok_of_forall _ evs (fun e he => by
      obtain ⟨v, hv⟩ := h e he
      exact simplifyOne_of_str sb key e v hv)

/-- the four functions together (the record's `shape_preserved`) -/
theorem shape_preserved :
    (∀ (m : Search) (classes : List (List String × Rule)) (evs : List Event),
      ListShape ["$category"] evs (categorize m classes evs)) ∧
    (∀ (m : Search) (classes : List (String × Rule)) (evs : List Event),
      ListShape ["$tags"] evs (tag m classes evs)) ∧
    (∀ (up : UrlParse) (evs out : List Event), splitUrlEvents up evs = .ok out →
      ListShape ["$protocol", "$domain", "$path", "$params", "$options", "$identifier"] evs out) ∧
    (∀ (sb : Subs) (key : String) (evs out : List Event), simplifyString sb key evs = .ok out →
      ListShape [key] evs out) :=
  ⟨shape_preserved_categorize, shape_preserved_tag,
   fun up evs out h => (shape_preserved_split_url_events up evs out h).1,
   fun sb key evs out h => (shape_preserved_simplify_string sb key evs out h).1⟩

/-! ## which rules match -/

/-- a rule built from `{"regex": rx, "ignore_case": ic, "select_keys": sk}` matches an event iff its
    regex is present and non-empty and the engine finds it (with the flag as given) in some string
    value among the selected ones: the values under `select_keys` if that is a non-empty list,
    all values of the data if it is `None` or `[]`. Missing keys and non-string values never match. -/
theorem rule_match_iff (m : Search) (rx : Option String) (ic : Bool) (sk : Option (List String)) (e : Event) :
    (Rule.ofDict rx ic sk).match m e = true ↔
      ∃ p, rx = some p ∧ p ≠ "" ∧
        ∃ s, m p ic s = true ∧
          ((∃ ks, sk = some ks ∧ ks ≠ [] ∧ ∃ key, key ∈ ks ∧ get e.data key = some (JVal.str s)) ∨
           ((sk = none ∨ sk = some []) ∧ ∃ key, (key, JVal.str s) ∈ e.data)) := by
  rw [match_iff]
  unfold Matches
  constructor
  · rintro ⟨p, hp, s, hs, hm⟩
    obtain ⟨h1, h2⟩ := (ofDict_regex rx ic sk p).mp hp
    exact ⟨p, h1, h2, s, hm, hs⟩
  · rintro ⟨p, h1, h2, s, hm, hs⟩
    exact ⟨p, (ofDict_regex rx ic sk p).mpr ⟨h1, h2⟩, s, hs, hm⟩

/-- the same for an already constructed rule (`regex = none` is what an empty pattern became) -/
theorem rule_match_iff_constructed (m : Search) (r : Rule) (e : Event) :
    r.match m e = true ↔
      ∃ p, r.regex = some p ∧ ∃ s, Selected r.selectKeys e.data (JVal.str s) ∧ m p r.ignoreCase s = true :=
  match_iff m r e

/-! ## categorize -/

/-- `r` is the last among the longest of `ms`, or `["Uncategorized"]` when `ms` has no category of
    length ≥ 1 (in particular when it is empty) -/
def DeepestLast (ms : List (List String)) (r : List String) : Prop :=
  ((∀ c ∈ ms, c.length = 0) ∧ r = ["Uncategorized"]) ∨
  (∃ pre post, ms = pre ++ r :: post ∧ 1 ≤ r.length ∧
    (∀ c ∈ pre, c.length ≤ r.length) ∧ ∀ c ∈ post, c.length < r.length)

/-- `DeepestLast` determines its result -/
theorem deepestLast_unique (ms : List (List String)) (r r' : List String)
    (h : DeepestLast ms r) (h' : DeepestLast ms r') : r = r' := by
  rcases h with ⟨h0, hr⟩ | ⟨pre, post, hms, h1, hpre, hpost⟩ <;>
    rcases h' with ⟨h0', hr'⟩ | ⟨pre', post', hms', h1', hpre', hpost'⟩
  · rw [hr, hr']
  · have : r' ∈ ms := by rw [hms']; simp
    have := h0 r' this; omega
  · have : r ∈ ms := by rw [hms]; simp
    have := h0' r this; omega
  · -- two decompositions of the same list: compare the positions
    have e : pre ++ r :: post = pre' ++ r' :: post' := hms ▸ hms'
    rcases List.append_eq_append_iff.mp e with ⟨a, ha, hb⟩ | ⟨a, ha, hb⟩
    · -- pre' = pre ++ a,  r :: post = a ++ r' :: post'
      cases a with
      | nil => simp at hb; exact hb.1
      | cons x a' =>
        simp at hb
        obtain ⟨hx, hpost_eq⟩ := hb
        subst hx
        have h₁ : r'.length < r.length := hpost r' (by rw [hpost_eq]; simp)
        have h₂ : r.length ≤ r'.length := hpre' r (by rw [ha]; simp)
        omega
    · cases a with
      | nil => simp at hb; exact hb.1.symm
      | cons x a' =>
        simp at hb
        obtain ⟨hx, hpost_eq⟩ := hb
        subst hx
        have h₁ : r.length < r'.length := hpost' r (by rw [hpost_eq]; simp)
        have h₂ : r'.length ≤ r.length := hpre r' (by rw [ha]; simp)
        omega

open Classical in
/-- every returned event carries under `$category` the deepest matching category, the later rule
    winning ties, `["Uncategorized"]` when nothing (or only empty categories) matches — where the
    matching categories are those of the rules that match in the sense of `rule_match_iff`, in
    rule order -/
theorem categorize_deepest_last (m : Search) (classes : List (List String × Rule)) (evs : List Event)
    (i : Nat) (h₁ : i < evs.length) (h₂ : i < (categorize m classes evs).length) :
    ∃ r, get (categorize m classes evs)[i].data "$category" = some (JVal.strs r) ∧
      DeepestLast ((classes.filter (fun c => decide (Matches m c.2 evs[i]))).map (·.1)) r := by
  have hf : (classes.filter (fun c => decide (Matches m c.2 evs[i]))) = classes.filter (fun c => c.2.match m evs[i]) := by
    apply List.filter_congr
    intro c _
    by_cases hc : c.2.match m evs[i] = true
    · simp [hc, (match_iff m c.2 evs[i]).mp hc]
    · have : ¬ Matches m c.2 evs[i] := fun hm => hc ((match_iff m c.2 evs[i]).mpr hm)
      simp [hc, this]
  rw [hf, ← matching_eq]
  refine ⟨pickCategory (matching m classes evs[i]), ?_, ?_⟩
  · simp only [categorize, List.getElem_map, categorizeOne, get_set_eq]
  · unfold pickCategory
    rcases foldl_pick (matching m classes evs[i]) ["Uncategorized"] with ⟨he, hall⟩ | ⟨pre, post, hms, hle, hpre, hpost⟩
    · left
      refine ⟨fun c hc => ?_, he⟩
      have := hall c hc
      simp at this
      simpa using this
    · right
      exact ⟨pre, post, hms, by simpa using hle, hpre, hpost⟩

/-- guard of the record made explicit: when every category is non-empty the result is
    `["Uncategorized"]` exactly when no rule matches, and otherwise a matching category that is at
    least as deep as every matching category and strictly deeper than all later ones -/
theorem categorize_nonempty_categories (ms : List (List String)) (r : List String)
    (hne : ∀ c ∈ ms, c ≠ []) (h : DeepestLast ms r) :
    (ms = [] ∧ r = ["Uncategorized"]) ∨
    (∃ pre post, ms = pre ++ r :: post ∧ (∀ c ∈ ms, c.length ≤ r.length) ∧ ∀ c ∈ post, c.length < r.length) := by
  rcases h with ⟨h0, hr⟩ | ⟨pre, post, hms, _, hpre, hpost⟩
  · left
    refine ⟨?_, hr⟩
    cases ms with
    | nil => rfl
    | cons c t =>
      have := h0 c (by simp)
      exact absurd (List.eq_nil_of_length_eq_zero this) (hne c (by simp))
  · right
    refine ⟨pre, post, hms, ?_, hpost⟩
    intro c hc
    rw [hms] at hc
    rcases List.mem_append.mp hc with hc | hc
    · exact hpre c hc
    · rcases List.mem_cons.mp hc with e | hc
      · rw [e]; exact Nat.le_refl _
      · exact Nat.le_of_lt (hpost c hc)

/-! ## tag -/

open Classical in
/-- every returned event carries under `$tags` exactly the tags of the matching rules, in rule order
    (a tag named by two matching rules appears twice) -/
theorem tag_exact_in_rule_order (m : Search) (classes : List (String × Rule)) (evs : List Event)
    (i : Nat) (h₁ : i < evs.length) (h₂ : i < (tag m classes evs).length) :
    get (tag m classes evs)[i].data "$tags" =
      some (JVal.strs ((classes.filter (fun c => decide (Matches m c.2 evs[i]))).map (·.1))) := by
  have hf : (classes.filter (fun c => decide (Matches m c.2 evs[i]))) = classes.filter (fun c => c.2.match m evs[i]) := by
    apply List.filter_congr
    intro c _
    by_cases hc : c.2.match m evs[i] = true
    · simp [hc, (match_iff m c.2 evs[i]).mp hc]
    · have : ¬ Matches m c.2 evs[i] := fun hm => hc ((match_iff m c.2 evs[i]).mpr hm)
      simp [hc, this]
  rw [hf, ← matching_eq]
  simp only [tag, List.getElem_map, tagOne, get_set_eq]

/-! ## non-vacuity: the rules fire on a concrete input -/

/-- engine stub: "found" iff pattern = subject, or they are the pair ("ff", "FF") with the flag -/
private def m0 : Search := fun p ic s => p == s || (ic && p == "ff" && s == "FF")

deriving instance DecidableEq for Except

private def e0 : Event := { ts := 5, dur := 7, data := [("app", .str "FF"), ("n", .other "5"), ("t", .str "x")] }

example :
    categorize m0
      [(["A"], Rule.ofDict (some "x") false none), (["B", "b"], Rule.ofDict (some "ff") true (some ["app", "zz"])),
       (["C", "c"], Rule.ofDict (some "x") false (some [])), (["D", "d"], Rule.ofDict (some "ff") false none),
       (["E", "e", "f"], Rule.ofDict (some "") false none), (["F", "f", "f"], Rule.ofDict (some "5") false (some ["n"]))]
      [e0]
    = [{ e0 with data := e0.data ++ [("$category", .strs ["C", "c"])] }] := by decide

example :
    tag m0 [("a", Rule.ofDict (some "x") false none), ("b", Rule.ofDict none false none),
            ("a", Rule.ofDict (some "ff") true (some ["app"]))] [e0]
    = [{ e0 with data := e0.data ++ [("$tags", .strs ["a", "a"])] }] := by decide

example :
    splitUrlEvents (fun u => if u == "U" then some ⟨"http", "www.a.b", "/p", "", "q", ""⟩ else none)
      [{ e0 with data := [("$domain", .str "old"), ("url", .str "U")] }, e0]
    = .ok [{ e0 with data := [("$domain", .str "a.b"), ("url", .str "U"), ("$protocol", .str "http"),
                               ("$path", .str "/p"), ("$params", .str ""), ("$options", .str "q"),
                               ("$identifier", .str "")] }, e0] := by decide

example :
    simplifyString ⟨fun s => s ++ "1", fun s => s ++ "2", fun s => s ++ "3"⟩ "title"
      [{ e0 with data := [("title", .str "t"), ("app", .str "a")] }, { e0 with data := [("title", .str "t")] }]
    = .ok [{ e0 with data := [("title", .str "t123"), ("app", .str "a")] }, { e0 with data := [("title", .str "t1")] }] := by
  decide

example : simplifyString ⟨id, id, id⟩ "title" [e0] = .error .keyError := by decide

end AwProofs.C19
