import AwModel.Basic
/-!
# Line protocol helpers (see DESIGN.md Appendix B)

A request is one line of space-separated tokens. Integers are decimal, strings are lower-case hex of
their UTF-8 bytes (`-` for the empty string), an optional is `N` or `S <v>`, a list is its length
followed by the items.
-/
namespace Drv
open Aw

abbrev P := StateT (List String) (Except String)

def tok : P String := do
  match (← get) with
  | [] => throw "eof"
  | t :: ts => set ts; pure t

def pInt : P Int := do
  let t ← tok
  match t.toInt? with
  | some i => pure i
  | none => throw s!"int? {t}"

def pNat : P Nat := do
  let t ← tok
  match t.toNat? with
  | some i => pure i
  | none => throw s!"nat? {t}"

def hexVal (c : Char) : Option Nat :=
  if '0' ≤ c ∧ c ≤ '9' then some (c.toNat - '0'.toNat)
  else if 'a' ≤ c ∧ c ≤ 'f' then some (c.toNat - 'a'.toNat + 10)
  else none

def unhexBytes : List Char → Option (List UInt8)
  | [] => some []
  | [_] => none
  | a :: b :: r => do
    let x ← hexVal a
    let y ← hexVal b
    let t ← unhexBytes r
    pure (UInt8.ofNat (x * 16 + y) :: t)

def unhex (s : String) : Option String :=
  if s == "-" then some "" else do
    let bs ← unhexBytes s.toList
    String.fromUTF8? (ByteArray.mk bs.toArray)

def hexDigit (n : Nat) : Char :=
  if n < 10 then Char.ofNat ('0'.toNat + n) else Char.ofNat ('a'.toNat + (n - 10))

def hex (s : String) : String :=
  if s.isEmpty then "-" else
  String.ofList (s.toUTF8.toList.flatMap fun b => [hexDigit (b.toNat / 16), hexDigit (b.toNat % 16)])

def pStr : P String := do
  let t ← tok
  match unhex t with
  | some s => pure s
  | none => throw s!"hex? {t}"

def pMany {α} (p : P α) : Nat → P (List α)
  | 0 => pure []
  | n + 1 => do
    let x ← p
    let xs ← pMany p n
    pure (x :: xs)

def pList {α} (p : P α) : P (List α) := do
  let n ← pNat
  pMany p n

def pOpt {α} (p : P α) : P (Option α) := do
  let t ← tok
  if t == "N" then pure none
  else if t == "S" then some <$> p
  else throw s!"opt? {t}"

def pBool : P Bool := do
  let t ← tok
  if t == "1" then pure true else if t == "0" then pure false else throw s!"bool? {t}"

/-- event with opaque data: `<id?> <ts> <dur> <datahex>` -/
def pEv : P (Ev String) := do
  let id ← pOpt pInt
  let ts ← pInt
  let dur ← pInt
  let d ← pStr
  pure { id := id, ts := ts, dur := dur, data := d }

def showOpt {α} (f : α → String) : Option α → String
  | none => "N"
  | some a => "S " ++ f a

def showList {α} (f : α → String) (l : List α) : String :=
  String.intercalate " " (toString l.length :: l.map f)

def showEv (e : Ev String) : String :=
  s!"{showOpt toString e.id} {e.ts} {e.dur} {hex e.data}"

def showBool (b : Bool) : String := if b then "1" else "0"

/-- run a parser on the tokens of a request; all tokens must be consumed -/
def runP (p : P String) (ts : List String) : String :=
  match p.run ts with
  | .ok (out, []) => "ok " ++ out
  | .ok (_, r) => s!"bad trailing {r.length}"
  | .error e => "bad " ++ e

end Drv
