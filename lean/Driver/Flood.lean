import AwModel.Flood
import Driver.Proto
namespace Drv.Flood
open Drv Aw

/-- `flood flood <pt> <n> <ev>*` -> `ok <k> <ev>*`;
    `flood sort <n> <ev>*` -> the stable sort by timestamp alone (ties keep input order) -/
def handle : List String → String
  | "flood" :: r => runP (do
      let pt ← pInt; let l ← pList pEv
      pure (showList showEv (Aw.Flood.flood pt l))) r
  | "sort" :: r => runP (do
      let l ← pList pEv
      pure (showList showEv (Aw.PySort.sortBy (fun e => e.ts) l))) r
  | _ => "bad flood-op"

end Drv.Flood
