import AwModel.Intersect
import Driver.Proto
/-! Driver areas `isect` (filter_period_intersect, Timeslot methods) and `punion` (period_union). -/
namespace Drv.Isect
open Drv Aw Aw.Intersect

def pSlot : P Slot := do
  let s ← pInt; let e ← pInt
  pure ⟨s, e⟩

def showSlot (p : Slot) : String := s!"{p.s} {p.e}"

def showExcept {α} (f : α → String) : Except String α → String
  | .ok a => "S " ++ f a
  | .error _ => "N"

/-- `isect run <n> <ev>* <m> <ev>*` -> `ok <k> <ev>* <times the unreachable branch was logged>`
    `isect slot <s> <e> <s> <e>` -> `ok <contains> <intersection?> <gap?> <union? (N = raised)>` -/
def handle : List String → String
  | "run" :: r => runP (do
      let a ← pList pEv; let f ← pList pEv
      let steps := isectSteps a f
      pure (showList showEv (pieces steps) ++ " " ++ toString (unreachableCount steps))) r
  | "slot" :: r => runP (do
      let a ← pSlot; let b ← pSlot
      pure (showBool (a.contains b) ++ " " ++ showOpt showSlot (a.intersection b) ++ " " ++
        showOpt showSlot (a.gap b) ++ " " ++ showExcept showSlot (a.union b))) r
  | _ => "bad isect-op"

/-- `punion <n> <ev>* <m> <ev>*` -> `ok <k> <ev>*` | `err Exception`; data is cleared to `{}` -/
def handleUnion (r : List String) : String :=
  match (pList pEv >>= fun a => pList pEv >>= fun b => pure (a, b)).run r with
  | .ok ((a, b), []) =>
    match periodUnion "{}" a b with
    | .ok l => "ok " ++ showList showEv l
    | .error x => "err " ++ x
  | .ok (_, rest) => s!"bad trailing {rest.length}"
  | .error e => "bad " ++ e

end Drv.Isect
