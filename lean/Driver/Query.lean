import AwModel.Query.Render
import AwModel.Query.RegistryGen
import AwModel.Query.Pipeline
import Driver.Proto
import Driver.Grp
/-!
Driver area `q` (query language).

  q parse  <env> <text>                 -> ok <name> <tok>            | err <Kind>
  q run    <ret> <env> <text>           -> ok <val>                   | err <Kind>
  q denote <ret> <env> <prog>           -> ok <val>                   | err <Kind>
  q render <seed> <table> <prog>        -> ok <text>
  q registry                            -> ok <n> <entry>*
  q pipe   <S> <E> <buckets> <env> <text> -> ok <val>               | err <Kind>
      (whole query over a memory-store state: <buckets> = list of (<id> <hostname> <events>), events in
       storage order as in `grp`; every modelled builtin body — `Pipeline.fullApply` — and the
       generated registry; unmodelled builtins answer symbolically)

<env> = list of (<name> <str>) bindings added to `create_namespace()`; <ret> = list of
(<name> <kindchar>): result kind of the symbolic builtins (default `l`); <table> = list of
whitespace strings; the layout is `ws p = table[hash seed p % |table|]`.
-/
namespace Drv.Query
open Drv Aw.Query

def hexS (s : Str) : String := hex (String.ofList s)
def pS : P Str := do let s ← pStr; pure s.toList

def errName : Err → String
  | .parse _ => "QueryParse"
  | .interp _ => "QueryInterpret"
  | .func _ => "QueryFunction"
  | .py .indexError => "IndexError"
  | .py .valueError => "ValueError"
  | .py .attributeError => "AttributeError"
  | .py .typeError => "TypeError"
  | .fuel => "Fuel"

partial def showVal : Val → String
  | .int n => s!"i {n}"
  | .str s => s!"s {hexS s}"
  | .bool b => s!"b {showBool b}"
  | .list xs => showList showVal xs
      |> fun t => "l " ++ t
  | .dict kvs => "d " ++ showList (fun kv => hexS kv.1 ++ " " ++ showVal kv.2) kvs
  | .sym k f args => s!"c {k} {hexS f} " ++ showList showVal args
  | .ds => "ds"
  | .ns => "ns"
  | .none => "none"

partial def showTok : Tok → String
  | .int n => s!"int {n}"
  | .str s => s!"str {hexS s}"
  | .var n c => s!"var {hexS n} " ++ showOpt showVal c
  | .call f args => s!"call {hexS f} " ++ showList showTok args
  | .list xs => "list " ++ showList showTok xs
  | .dict kvs => "dict " ++ showList (fun kv => hexS kv.1 ++ " " ++ showTok kv.2) kvs

partial def pExpr : P Expr := do
  let t ← tok
  match t with
  | "i" => return .int (← pNat)
  | "s" => return .str (← pS)
  | "v" => return .var (← pS)
  | "c" => do let f ← pS; let args ← pList pExpr; return .call f args
  | "l" => return .list (← pList pExpr)
  | "d" => return .dict (← pList (do let k ← pS; let e ← pExpr; pure (k, e)))
  | _ => throw s!"expr? {t}"

def pProg : P Prog := pList (do let n ← pS; let e ← pExpr; pure (n, e))

def pEnv : P Ns := pList (do let n ← pS; let v ← pS; pure (n, Val.str v))

def pRet : P (List (Str × Char)) := pList (do
  let n ← pS
  let k ← tok
  match k.toList with
  | [c] => pure (n, c)
  | _ => throw s!"kind? {k}")

/-- builtins under the free interpretation -/
def symApply (ret : List (Str × Char)) : Apply := fun name args =>
  let k := ((ret.find? (fun p => p.1 = name)).map (·.2)).getD 'l'
  .ok (.sym k name args)

def hashPath (seed : Nat) (p : List Nat) : Nat :=
  p.foldl (fun h x => (h * 1000003 + x + 1) % 2147483647) seed

def mkLayout (seed : Nat) (table : List Str) : Layout :=
  { ws := fun p => table.getD (hashPath seed p % table.length) [],
    dq := fun p => (hashPath seed p / 8) % 2 == 0 }

def showRes {α} (f : α → String) : Except Err α → String
  | .ok a => "ok " ++ f a
  | .error e => "err " ++ errName e

def showKind : PKind → String
  | .list => "list" | .str => "str" | .int => "int" | .float => "float" | .other => "other"

def showEntry (e : Entry) : String :=
  s!"{hexS e.name} {e.minArgs} {showOpt toString e.maxArgs} {showBool e.takesDs} {showBool e.takesNs} {showBool e.typechecked} "
    ++ showList (fun p => showKind p.kind ++ " " ++ showBool p.required) e.params

/-- like `runP` but the payload carries its own ok/err prefix -/
def runR (p : P String) (ts : List String) : String :=
  match p.run ts with
  | .ok (out, []) => out
  | .ok (_, r) => s!"bad trailing {r.length}"
  | .error e => "bad " ++ e

def handle : List String → String
  | "parse" :: r => runR (do
      let env ← pEnv; let text ← pS
      pure (showRes (fun p => hexS p.1 ++ " " ++ showTok p.2) (parseStmt (baseNs ++ env) text))) r
  | "run" :: r => runR (do
      let ret ← pRet; let env ← pEnv; let text ← pS
      pure (showRes showVal (runQuery Registry.registry (symApply ret) env text))) r
  | "denote" :: r => runR (do
      let ret ← pRet; let env ← pEnv; let p ← pProg
      pure (showRes showVal (denoteProg Registry.registry (symApply ret) env p))) r
  | "render" :: r => runR (do
      let seed ← pNat; let table ← pList pS; let p ← pProg
      pure ("ok " ++ hexS (render p (mkLayout seed table)))) r
  | "pipe" :: r => runR (do
      let S ← pInt; let E ← pInt
      let bs ← pList (do
        let b ← pStr; let h ← pStr; let evs ← pList Grp.pEvt
        pure (b, (({ name := none, type := "t", client := "c", hostname := h, created := "", data := "{}" } : Aw.Store.Meta), evs)))
      let env ← pEnv; let text ← pS
      let st : Aw.Store.Memory.St Aw.Group.Data := bs
      pure (showRes showVal (runQuery Registry.registry
        (Pipeline.fullApply (Reads.ofMemory st) S E (symApply [])) env text))) r
  | "registry" :: r => runR (do
      pure ("ok " ++ showList showEntry Registry.registry)) r
  | _ => "bad q-op"

end Drv.Query
