import AwModel.Group
import Driver.Proto
/-!
Driver area `grp` (C16).

Wire encoding of a JSON value: `s <hex>` (string) | `l <n> <hex>*` (list of strings) |
`o <hex>` (anything else, canonical JSON text). Data: `<n> (<keyhex> <jval>)*` in dict order.
Event: `<id?> <ts> <dur> <data>`. Chunk: `<ts> <dur> <jval> <n> <event>*`.
-/
namespace Drv.Grp
open Drv Aw Aw.Group

def pJVal : P JVal := do
  let t ← tok
  if t == "s" then JVal.str <$> pStr
  else if t == "l" then JVal.list <$> pList pStr
  else if t == "o" then JVal.other <$> pStr
  else throw s!"jval? {t}"

def pData : P Data := pList (do let k ← pStr; let v ← pJVal; pure (k, v))

def pEvt : P Event := do
  let id ← pOpt pInt
  let ts ← pInt
  let dur ← pInt
  let d ← pData
  pure { id := id, ts := ts, dur := dur, data := d }

def showJVal : JVal → String
  | .str s => "s " ++ hex s
  | .list l => "l " ++ showList hex l
  | .other t => "o " ++ hex t

def showData (d : Data) : String := showList (fun kv => hex kv.1 ++ " " ++ showJVal kv.2) d

def showEvt (e : Event) : String :=
  s!"{showOpt toString e.id} {e.ts} {e.dur} {showData e.data}"

def showChunk (c : Chunk) : String :=
  s!"{c.ts} {c.dur} {showJVal c.val} {showList showEvt c.subs}"

/-- like `runP`, but the parser result is the whole answer line (`ok …` or `err …`) -/
def runA (p : P String) (ts : List String) : String :=
  match p.run ts with
  | .ok (out, []) => out
  | .ok (_, r) => s!"bad trailing {r.length}"
  | .error e => "bad " ++ e

def handle : List String → String
  | "merge" :: r => runA (do
      let l ← pList pEvt; let keys ← pList pStr
      match mergeEventsByKeys l keys with
      | .ok o => pure ("ok " ++ showList showEvt o)
      | .error .typeError => pure "err TypeError") r
  | "chunk" :: r => runP (do
      let l ← pList pEvt; let key ← pStr; let pt ← pInt
      pure (showList showChunk (chunkEventsByKey l key pt))) r
  | "sortts" :: r => runP (do
      let l ← pList pEvt
      pure (showList showEvt (sortByTimestamp l))) r
  | "sortdur" :: r => runP (do
      let l ← pList pEvt
      pure (showList showEvt (sortByDuration l))) r
  | "limit" :: r => runP (do
      let l ← pList pEvt; let c ← pInt
      pure (showList showEvt (limitEvents l c))) r
  | "filter" :: r => runP (do
      let l ← pList pEvt; let key ← pStr; let vals ← pList pJVal; let ex ← pBool
      pure (showList showEvt (filterKeyvals l key vals ex))) r
  | _ => "bad grp-op"

end Drv.Grp
