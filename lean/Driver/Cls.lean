import AwModel.Classify
import Driver.Proto
/-!
Driver area `cls` (C19): categorize / tag / Rule.match / split_url_events / simplify_string.

Extra token forms (on top of Proto): a JSON value is `s <hex>` (string), `l <list hex>` (list of
strings) or `o <hex>` (anything else, canonical text); data is a list of `<keyhex> <value>` in dict
order; an event is `<id?> <ts> <dur> <data>`; a rule is `<regex?> <ignore_case> <select_keys?>`.
The `re.search` table is `<list pattern> <list subject> <bits>`: bit `((ic·|P|)+i)·|S|+j` is the
engine's answer for pattern i with the ignore-case flag ic on subject j. A request whose tables do
not cover what the model looks up is answered `bad table` (a harness error, never compared).
-/
namespace Drv.Cls
open Drv Aw Aw.Classify

def pJVal : P JVal := do
  let t ← tok
  if t == "s" then JVal.str <$> pStr
  else if t == "l" then JVal.strs <$> pList pStr
  else if t == "o" then JVal.other <$> pStr
  else throw s!"jval? {t}"

def pData : P Data := pList (do let k ← pStr; let v ← pJVal; pure (k, v))

def pEvent : P Event := do
  let id ← pOpt pInt
  let ts ← pInt
  let dur ← pInt
  let d ← pData
  pure { id := id, ts := ts, dur := dur, data := d }

def pRule : P Rule := do
  let rx ← pOpt pStr
  let ic ← pBool
  let sk ← pOpt (pList pStr)
  pure (Rule.ofDict rx ic sk)

def showJVal : JVal → String
  | .str s => "s " ++ hex s
  | .strs l => "l " ++ showList hex l
  | .other t => "o " ++ hex t

def showData (d : Data) : String := showList (fun kv => hex kv.1 ++ " " ++ showJVal kv.2) d

def showEvent (e : Event) : String :=
  s!"{showOpt toString e.id} {e.ts} {e.dur} {showData e.data}"

structure Table where
  pats : List String
  subs : List String
  bits : Array Char

def pTable : P Table := do
  let ps ← pList pStr
  let ss ← pList pStr
  let b ← tok
  let bits := if b == "-" then #[] else b.toList.toArray
  if bits.size ≠ 2 * ps.length * ss.length then throw "table size"
  pure { pats := ps, subs := ss, bits := bits }

def idxOf (l : List String) (s : String) : Option Nat :=
  let i := l.findIdx (· == s)
  if i < l.length then some i else none

def Table.search (t : Table) : Search := fun p ic s =>
  match idxOf t.pats p, idxOf t.subs s with
  | some i, some j => t.bits.getD (((if ic then t.pats.length else 0) + i) * t.subs.length + j) '0' == '1'
  | _, _ => false

def strValues (evs : List Event) : List String :=
  evs.flatMap fun e => e.data.filterMap fun kv => match kv.2 with | .str s => some s | _ => none

def Table.covers (t : Table) (rules : List Rule) (evs : List Event) : Bool :=
  rules.all (fun r => match r.regex with | some p => t.pats.contains p | none => true) &&
  (strValues evs).all (fun s => t.subs.contains s)

def missing : String := "\x01missing-table-entry"

def pFun : P (String → String) := do
  let l ← pList (do let a ← pStr; let b ← pStr; pure (a, b))
  pure fun s => (l.lookup s).getD missing

def showExc : PyErr → String
  | .keyError => "KeyError"
  | .typeError => "TypeError"
  | .valueError => "ValueError"
  | .attributeError => "AttributeError"

def showRes : Except PyErr (List Event) → String
  | .ok l => "R " ++ showList showEvent l
  | .error x => "X " ++ showExc x

def pParts : P UrlParts := do
  let a ← pStr; let b ← pStr; let c ← pStr; let d ← pStr; let e ← pStr; let f ← pStr
  pure ⟨a, b, c, d, e, f⟩

def handle : List String → String
  | "categorize" :: r => runP (do
      let t ← pTable
      let cl ← pList (do let c ← pList pStr; let ru ← pRule; pure (c, ru))
      let evs ← pList pEvent
      if !t.covers (cl.map (·.2)) evs then throw "table"
      pure (showList showEvent (categorize t.search cl evs))) r
  | "tag" :: r => runP (do
      let t ← pTable
      let cl ← pList (do let c ← pStr; let ru ← pRule; pure (c, ru))
      let evs ← pList pEvent
      if !t.covers (cl.map (·.2)) evs then throw "table"
      pure (showList showEvent (tag t.search cl evs))) r
  | "match" :: r => runP (do
      let t ← pTable
      let rules ← pList pRule
      let evs ← pList pEvent
      if !t.covers rules evs then throw "table"
      pure (showList (fun ru => showList (fun e => showBool (ru.match t.search e)) evs) rules)) r
  | "spliturl" :: r => runP (do
      let tb ← pList (do let u ← pStr; let p ← pOpt pParts; pure (u, p))
      let evs ← pList pEvent
      let need := evs.filterMap fun e => match get e.data "url" with | some (.str u) => some u | _ => none
      if !need.all (fun u => (tb.lookup u).isSome) then throw "table"
      let up : UrlParse := fun u => (tb.lookup u).getD none
      pure (showRes (splitUrlEvents up evs))) r
  | "simplify" :: r => runP (do
      let key ← pStr
      let f1 ← pFun; let f2 ← pFun; let f3 ← pFun
      let evs ← pList pEvent
      let res := simplifyString ⟨f1, f2, f3⟩ key evs
      match res with
      | .ok l => if l.any (fun e => get e.data key == some (.str missing)) then throw "table" else pure ()
      | _ => pure ()
      pure (showRes res)) r
  | _ => "bad cls-op"

end Drv.Cls
