import AwModel.Store.Commit
import AwModel.Store.Codec
import Driver.Store
/-!
Driver area `commit <op> <now> …` (stateful): the lazily committing sqlite store with a clock.
-/
namespace Drv.Commit
open Drv Aw Aw.Store Drv.Store

abbrev CS := Commit.CSt String

def dumpOf (s : Sqlite.St String) : String :=
  showDump (Sqlite.bucketsOf s) (fun b => (Sqlite.view s b).map (fun p => (p.1, p.2.map Codec.sqliteDecode)))

def handle (c : CS) : List String → CS × String
  | "reset" :: lazy :: now :: _ =>
    ({ lazy := lazy == "1", last := now.toInt?.getD 0 }, "ok")
  | "state" :: _ => (c, s!"ok {c.n} {c.pend.length} {c.last} {c.log.length}")
  | "dumpdur" :: _ => (c, "ok " ++ dumpOf c.dur)
  | "dumpcur" :: _ => (c, "ok " ++ dumpOf c.cur)
  | "logdump" :: i :: _ =>
    match c.log.reverse[i.toNat?.getD 0]? with
    | some s => (c, "ok " ++ dumpOf s)
    | none => (c, "bad log-index")
  | op :: r =>
    let run (p : P (CS × String)) : CS × String :=
      match p.run r with
      | .ok ((c', out), []) => (c', out)
      | .ok (_, rest) => (c, s!"bad trailing {rest.length}")
      | .error e => (c, "bad " ++ e)
    let ok (c' : CS) (out : String) : CS × String := (c', if out.isEmpty then "ok" else "ok " ++ out)
    match op with
    | "create" => run do
        let now ← pInt; let b ← pStr; let m ← pMeta
        match Commit.createBucket c now b m with
        | (.ok _, c') => pure (ok c' "")
        | (.error e, c') => pure (c', showErr e)
    | "update" => run do
        let now ← pInt; let b ← pStr; let u ← pUpd
        match Commit.updateBucket c now b u with
        | (.ok _, c') => pure (ok c' "")
        | (.error e, c') => pure (c', showErr e)
    | "delbucket" => run do
        let now ← pInt; let b ← pStr
        match Commit.deleteBucket c now b with
        | (.ok _, c') => pure (ok c' "")
        | (.error e, c') => pure (c', showErr e)
    | "insert" => run do
        let now ← pInt; let b ← pStr; let e ← pEv
        match Commit.insertOne c now b e with
        | (.ok (_, i), c') => pure (ok c' (toString i))
        | (.error e, c') => pure (c', showErr e)
    | "bulk" => run do
        let now ← pInt; let b ← pStr; let es ← pList pEv
        match Commit.insertMany c now b es with
        | (.ok _, c') => pure (ok c' "")
        | (.error e, c') => pure (c', showErr e)
    | "replace" => run do
        let now ← pInt; let b ← pStr; let i ← pInt; let e ← pEv
        pure (ok (Commit.replace c now b i e) "")
    | "replacelast" => run do
        let now ← pInt; let b ← pStr; let _ ← pOpt pInt; let e ← pEv
        pure (ok (Commit.replaceLast c now b e) "")
    | "delete" => run do
        let now ← pInt; let b ← pStr; let i ← pInt
        let (c', r) := Commit.delete c now b i
        pure (ok c' (showBool r))
    | "read" => run do
        let now ← pInt
        pure (ok (Commit.readCommit c now) "")
    | _ => (c, "bad commit-op")
  | _ => (c, "bad commit-request")

end Drv.Commit
