import AwModel.Store.Heap
import Driver.Proto
import Driver.Store
/-!
Driver area `heap <op> …` (stateful): executes an ownership trace of C01 on the heap model of the
memory backend (`AwModel/Store/Heap.lean`).

The driver keeps the tables the harness keeps on the real side: `objs` (client-held event objects,
addressed by position), `handles` (metadata dicts handed out), and the dicts the client passed to
create / update. One request per trace step. API steps answer `ok` or `err <Kind>`; client
mutation steps answer `ok <held> <changed>`: whether the mutated object is one the model says the
client holds, and whether `observe` differs before and after. `dump` prints `observe`,
`objs` / `handles` the client's objects by value.
-/
namespace Drv.HeapArea
open Drv Aw Aw.Store Aw.Store.Heap

structure DrvSt where
  st : State := {}
  objs : Array Ref := #[]
  handles : Array Ref := #[]
  cdata : Option Ref := none
  udata : Option Ref := none

def showRes (r : Res) : String :=
  match r with
  | .err e => Drv.Store.showErr e
  | _ => "ok"

/-- the reference of the data dict behind an event object or a metadata dict -/
def dataRefAt (s : State) (r : Ref) : Option Ref :=
  match s.heap r with
  | some (.ev o) => some o.dataRef
  | some (.mdict o) => some o.dataRef
  | _ => none

/-- a client mutation: (new state, held, changed) -/
def doMut (d : DrvSt) (m : Mut) : DrvSt × String :=
  let held := m.held d.st
  let s' := step d.st (.mutation m)
  let changed := decide (observe s' ≠ observe d.st)
  ({ d with st := s' }, s!"ok {showBool held} {showBool changed}")

/-- the client creates an event: the new event object is the last allocated reference -/
def newEvent (s : State) (e : Ev String) : State × Ref :=
  let s' := step s (.mutation (.newEvent e.id e.ts e.dur e.data))
  (s', s'.next - 1)

def newDict (s : State) (text : String) : State × Ref :=
  let s' := step s (.mutation (.newDict text))
  (s', s'.next - 1)

def showObs (s : State) : String :=
  showList (fun p => hex p.1 ++ " " ++ Drv.Store.showMeta p.2.1 ++ " " ++ showList showEv p.2.2) (observe s)

def handle (d : DrvSt) : List String → DrvSt × String
  | "reset" :: _ => ({}, "ok")
  | op :: r =>
    let run (p : P (DrvSt × String)) : DrvSt × String :=
      match p.run r with
      | .ok ((d', out), []) => (d', out)
      | .ok (_, rest) => (d, s!"bad trailing {rest.length}")
      | .error e => (d, "bad " ++ e)
    let indexError : DrvSt × String := (d, "err IndexError")
    match op with
    | "create" => run do
        let b ← pStr; let m ← Drv.Store.pMeta
        let (s1, c) := newDict d.st m.data
        let (s2, res) := api s1 (.createBucket b m (some c))
        pure ({ d with st := s2, cdata := some c }, showRes res)
    | "new" => run do
        let e ← pEv
        let (s1, x) := newEvent d.st e
        pure ({ d with st := s1, objs := d.objs.push x }, "ok")
    | "insert" => run do
        let b ← pStr; let k ← pNat
        match d.objs[k]? with
        | none => pure indexError
        | some x =>
          match api d.st (.insertOne b x) with
          | (s1, .ref c) => pure ({ d with st := s1, objs := d.objs.push c }, "ok")
          | (s1, res) => pure ({ d with st := s1 }, showRes res)
    | "bulk" => run do
        let b ← pStr; let ks ← pList pNat
        match ks.mapM (fun k => d.objs[k]?) with
        | none => pure indexError
        | some xs =>
          let (s1, res) := api d.st (.insertMany b xs)
          pure ({ d with st := s1 }, showRes res)
    | "mut" => run do
        let k ← pNat; let what ← tok
        match d.objs[k]? with
        | none =>
          -- consume the arguments, then IndexError like the real side
          let _ ← (if what == "id" then (do let _ ← pOpt pInt; pure ()) else (do let _ ← tok; pure ()))
          pure indexError
        | some x =>
          match what with
          | "data" => do
            let t ← pStr
            match dataRefAt d.st x with
            | some c => pure (doMut d (.setDict c t))
            | none => pure (d, "err AttributeError")
          | "assign" => do
            let t ← pStr
            let (s1, c) := newDict d.st t
            pure (doMut { d with st := s1 } (.setDataRef x c))
          | "ts" => do let v ← pInt; pure (doMut d (.setTs x v))
          | "dur" => do let v ← pInt; pure (doMut d (.setDur x v))
          | "id" => do let v ← pOpt pInt; pure (doMut d (.setId x v))
          | w => throw s!"mut? {w}"
    | "get" => run do
        let b ← pStr; let fb ← pEv
        match api d.st (.getEvents b (-1) none none) with
        | (s1, .refs (x :: _)) => pure ({ d with st := s1, objs := d.objs.push x }, "ok")
        | (s1, .refs []) =>
          let (s2, x) := newEvent s1 fb
          pure ({ d with st := s2, objs := d.objs.push x }, "ok")
        | (s1, res) => pure ({ d with st := s1 }, showRes res)
    | "getbyid" => run do
        let b ← pStr; let fb ← pEv
        match api d.st (.getEvents b 1 none none) with
        | (s1, .refs (x :: _)) =>
          let found : State × Option Ref :=
            match idOf s1 x with
            | none => (s1, none)
            | some i =>
              match api s1 (.getEvent b i) with
              | (s2, .optRef o) => (s2, o)
              | (s2, _) => (s2, none)
          match found with
          | (s2, some g) => pure ({ d with st := s2, objs := d.objs.push g }, "ok")
          | (s2, none) =>
            let (s3, g) := newEvent s2 fb
            pure ({ d with st := s3, objs := d.objs.push g }, "ok")
        | (s1, .refs []) =>
          let (s2, g) := newEvent s1 fb
          pure ({ d with st := s2, objs := d.objs.push g }, "ok")
        | (s1, res) => pure ({ d with st := s1 }, showRes res)
    | "meta" => run do
        let b ← pStr
        match api d.st (.getMetadata b) with
        | (s1, .ref h) => pure ({ d with st := s1, handles := d.handles.push h }, "ok")
        | (s1, res) => pure ({ d with st := s1 }, showRes res)
    | "buckets" => run do
        let b ← pStr
        match api d.st .buckets with
        | (s1, .named l) =>
          match l.find? (fun p => p.1 = b) with
          | some p => pure ({ d with st := s1, handles := d.handles.push p.2 }, "ok")
          | none => pure ({ d with st := s1 }, "err KeyError")
        | (s1, res) => pure ({ d with st := s1 }, showRes res)
    | "mutmeta" => run do
        let k ← pNat; let what ← tok
        match d.handles[k]?, what with
        | some h, "scalars" => do
          let name ← pOpt pStr; let type ← pStr; let client ← pStr; let hostname ← pStr; let created ← pStr
          pure (doMut d (.setMeta h name type client hostname created))
        | some h, "data" => do
          let t ← pStr
          match dataRefAt d.st h with
          | some c => pure (doMut d (.setDict c t))
          | none => pure (d, "err AttributeError")
        | none, "scalars" => do
          let _ ← pOpt pStr; let _ ← pStr; let _ ← pStr; let _ ← pStr; let _ ← pStr
          pure indexError
        | none, "data" => do let _ ← pStr; pure indexError
        | _, w => throw s!"mutmeta? {w}"
    | "mutcreate" => run do
        let t ← pStr
        match d.cdata with
        | some c => pure (doMut d (.setDict c t))
        | none => pure (d, "err TypeError")
    | "update" => run do
        let b ← pStr; let t ← pStr
        let (s1, c) := newDict d.st t
        let (s2, res) := api s1 (.updateBucket b {} (some c))
        pure ({ d with st := s2, udata := some c }, showRes res)
    | "mutupdate" => run do
        let t ← pStr
        match d.udata with
        | some c => pure (doMut d (.setDict c t))
        | none => pure (d, "err TypeError")
    | "replacelast" => run do
        let b ← pStr; let k ← pNat
        match d.objs[k]? with
        | none => pure indexError
        | some x =>
          let (s1, res) := api d.st (.replaceLast b x)
          pure ({ d with st := s1 }, showRes res)
    | "replace" => run do
        let b ← pStr; let k ← pNat
        match api d.st (.getEvents b 1 none none) with
        | (s1, .refs (f :: _)) =>
          match d.objs[k]? with
          | none => pure ({ d with st := s1 }, "err IndexError")
          | some x =>
            let (s2, res) := api s1 (.replace b (idOf s1 f) x)
            pure ({ d with st := s2 }, showRes res)
        | (s1, res) => pure ({ d with st := s1 }, showRes res)
    | "dump" => run (pure (d, "ok " ++ showObs d.st))
    | "objs" => run (pure (d, "ok " ++ showList (fun x => showEv (evVal d.st x)) d.objs.toList))
    | "handles" => run (pure (d, "ok " ++ showList (fun x => Drv.Store.showMeta (metaVal d.st x)) d.handles.toList))
    | "held" => run (pure (d, "ok " ++ showBool ((d.objs.toList ++ d.handles.toList).all (fun x =>
        d.st.client x && (match dataRefAt d.st x with | some c => d.st.client c | none => false)))))
    | w => (d, s!"bad heap op {w}")
  | [] => (d, "bad empty")

end Drv.HeapArea
