import AwModel.Heartbeat
import Driver.Proto
namespace Drv.Hb
open Drv Aw

def handle : List String → String
  | "merge" :: r => runP (do
      let pt ← pInt; let a ← pEv; let b ← pEv
      pure (showOpt showEv (Heartbeat.merge pt a b))) r
  | "reduce" :: r => runP (do
      let pt ← pInt; let l ← pList pEv
      let o := Heartbeat.reduce pt l
      pure (showList showEv o ++ " " ++ showList showEv (Heartbeat.reduce pt o))) r
  | _ => "bad hb-op"

end Drv.Hb
