import AwModel.Store.Sqlite
import AwModel.Store.Memory
import AwModel.Store.Peewee
import AwModel.Store.HbLoop
import AwModel.Store.Codec
import AwModel.Store.Migrate
import Driver.Proto
/-!
Driver area `store <backend> <op> …` (stateful). D = String (canonical JSON text of the data).
-/
namespace Drv.Store
open Drv Aw Aw.Store

structure DrvSt where
  sq : Sqlite.St String := {}
  mem : Memory.St String := []
  pw : Peewee.St String := {}

def showErr : Err → String
  | .keyError => "err KeyError"
  | .valueError => "err ValueError"
  | .integrity => "err Integrity"
  | .indexError => "err IndexError"
  | .attributeError => "err AttributeError"
  | .doesNotExist => "err DoesNotExist"

def pMeta : P Meta := do
  let name ← pOpt pStr
  let type ← pStr; let client ← pStr; let hostname ← pStr; let created ← pStr; let data ← pStr
  pure { name, type, client, hostname, created, data }

def pUpd : P Upd := do
  let type ← pOpt pStr; let client ← pOpt pStr; let hostname ← pOpt pStr
  let name ← pOpt pStr; let data ← pOpt pStr
  pure { type, client, hostname, name, data }

def showMeta (m : Meta) : String :=
  s!"{showOpt hex m.name} {hex m.type} {hex m.client} {hex m.hostname} {hex m.created} {hex m.data}"

def showBuckets (l : List (String × Meta)) : String :=
  showList (fun p => hex p.1 ++ " " ++ showMeta p.2) l

/-- every bucket with its metadata and events (storage order) -/
def showDump (bs : List (String × Meta)) (v : View String) : String :=
  showList (fun p => hex p.1 ++ " " ++ (match v p.1 with
    | some (m, evs) => showMeta m ++ " " ++ showList showEv evs
    | none => showMeta p.2 ++ " 0")) bs

/-- `Bucket.get` window rounding: start floored to ms, end floored to ms plus one ms -/
def floorMs (t : Int) : Int := t - t % 1000
def roundWin (st en : Option Int) : Option Int × Option Int :=
  (st.map floorMs, en.map (fun e => floorMs e + 1000))

/-- a request: `(state, answer)`; a parse failure leaves the state alone -/
def handle (s : DrvSt) : List String → DrvSt × String
  | "reset" :: _ => ({}, "ok")
  | "migrate" :: _ =>
    -- migrate the peewee state into a fresh sqlite state
    match Migrate.migrate s.pw {} with
    | .ok q => ({ s with sq := q }, "ok")
    | .error e => (s, showErr e)
  | "trigger" :: t :: n :: c :: files =>
    (s, "ok " ++ showBool (Migrate.triggers (t == "1") (n == "1") (c == "1") (files.filterMap unhex)))
  | be :: op :: r =>
    let run (p : P (DrvSt × String)) : DrvSt × String :=
      match p.run r with
      | .ok ((s', out), []) => (s', out)
      | .ok (_, rest) => (s, s!"bad trailing {rest.length}")
      | .error e => (s, "bad " ++ e)
    let ok (s' : DrvSt) (out : String) : DrvSt × String := (s', if out.isEmpty then "ok" else "ok " ++ out)
    let er (e : Err) : DrvSt × String := (s, showErr e)
    match be, op with
    -- ---------------------------------------------------------------- sqlite
    | "sqlite", "create" => run do
        let b ← pStr; let m ← pMeta
        match Sqlite.createBucket s.sq b m with
        | .ok q => pure (ok { s with sq := q } "")
        | .error e => pure (er e)
    | "sqlite", "update" => run do
        let b ← pStr; let u ← pUpd
        match Sqlite.updateBucket s.sq b u with
        | .ok q => pure (ok { s with sq := q } "")
        | .error e => pure (er e)
    | "sqlite", "delbucket" => run do
        let b ← pStr
        match Sqlite.deleteBucket s.sq b with
        | .ok q => pure (ok { s with sq := q } "")
        | .error e => pure (er e)
    | "sqlite", "metadata" => run do
        let b ← pStr
        match Sqlite.getMetadata s.sq b with
        | .ok m => pure (ok s (showMeta m))
        | .error e => pure (er e)
    | "sqlite", "buckets" => run (pure (ok s (showBuckets (Sqlite.bucketsOf s.sq))))
    | "sqlite", "insert" => run do
        let b ← pStr; let e ← pEv
        match Sqlite.insertOne s.sq b e with
        | .ok (q, i) => pure (ok { s with sq := q } (toString i))
        | .error e => pure (er e)
    | "sqlite", "bulk" => run do
        let b ← pStr; let es ← pList pEv
        match Sqlite.insertMany s.sq b es with
        | .ok q => pure (ok { s with sq := q } "")
        | .error e => pure (er e)
    | "sqlite", "replace" => run do
        let b ← pStr; let i ← pInt; let e ← pEv
        pure (ok { s with sq := Sqlite.replace s.sq b i e } "")
    | "sqlite", "replacelast" => run do
        let b ← pStr; let _ ← pOpt pInt; let e ← pEv
        pure (ok { s with sq := Sqlite.replaceLast s.sq b e } "")
    | "sqlite", "delete" => run do
        let b ← pStr; let i ← pInt
        let (q, r) := Sqlite.delete s.sq b i
        pure (ok { s with sq := q } (showBool r))
    | "sqlite", "get" => run do
        let b ← pStr; let lim ← pInt; let st ← pOpt pInt; let en ← pOpt pInt
        let (st, en) := roundWin st en
        pure (ok s (showList showEv ((Sqlite.getEvents s.sq b lim st en).map Codec.sqliteDecode)))
    | "sqlite", "getbyid" => run do
        let b ← pStr; let i ← pInt
        pure (ok s (showOpt showEv ((Sqlite.getEvent s.sq b i).map Codec.sqliteDecode)))
    | "sqlite", "count" => run do
        let b ← pStr; let st ← pOpt pInt; let en ← pOpt pInt
        pure (ok s (toString (Sqlite.getEventcount s.sq b st en)))
    | "sqlite", "hbloop" => run do
        let b ← pStr; let pt ← pInt; let l ← pList pEv
        match Sqlite.hbLoop pt b s.sq l with
        | .ok q => pure (ok { s with sq := q } "")
        | .error e => pure (er e)
    | "sqlite", "dump" => run (pure (ok s (showDump (Sqlite.bucketsOf s.sq) (fun b => (Sqlite.view s.sq b).map (fun p => (p.1, p.2.map Codec.sqliteDecode))))))
    | "sqlite", "lookup" => run do
        let b ← pStr
        pure (if (Sqlite.bucketsOf s.sq).any (fun p => p.1 = b) then ok s "" else er .keyError)
    -- ---------------------------------------------------------------- memory
    | "memory", "create" => run do
        let b ← pStr; let m ← pMeta
        pure (ok { s with mem := Memory.createBucket s.mem b m } "")
    | "memory", "update" => run do
        let b ← pStr; let u ← pUpd
        match Memory.updateBucket s.mem b u with
        | .ok q => pure (ok { s with mem := q } "")
        | .error e => pure (er e)
    | "memory", "delbucket" => run do
        let b ← pStr
        match Memory.deleteBucket s.mem b with
        | .ok q => pure (ok { s with mem := q } "")
        | .error e => pure (er e)
    | "memory", "metadata" => run do
        let b ← pStr
        match Memory.getMetadata s.mem b with
        | .ok m => pure (ok s (showMeta m))
        | .error e => pure (er e)
    | "memory", "buckets" => run (pure (ok s (showBuckets (Memory.bucketsOf s.mem))))
    | "memory", "insert" => run do
        let b ← pStr; let e ← pEv
        match Memory.insertOne s.mem b e with
        | .ok (q, i) => pure (ok { s with mem := q } (showOpt toString i))
        | .error e => pure (er e)
    | "memory", "bulk" => run do
        let b ← pStr; let es ← pList pEv
        match Memory.insertMany s.mem b es with
        | .ok q => pure (ok { s with mem := q } "")
        | .error e => pure (er e)
    | "memory", "replace" => run do
        let b ← pStr; let i ← pInt; let e ← pEv
        match Memory.replace s.mem b i e with
        | .ok q => pure (ok { s with mem := q } "")
        | .error e => pure (er e)
    | "memory", "replacelast" => run do
        let b ← pStr; let _ ← pOpt pInt; let e ← pEv
        match Memory.replaceLast s.mem b e with
        | .ok q => pure (ok { s with mem := q } "")
        | .error e => pure (er e)
    | "memory", "delete" => run do
        let b ← pStr; let i ← pInt
        match Memory.delete s.mem b i with
        | .ok (q, r) => pure (ok { s with mem := q } (showBool r))
        | .error e => pure (er e)
    | "memory", "get" => run do
        let b ← pStr; let lim ← pInt; let st ← pOpt pInt; let en ← pOpt pInt
        let (st, en) := roundWin st en
        match Memory.getEvents s.mem b lim st en with
        | .ok l => pure (ok s (showList showEv l))
        | .error e => pure (er e)
    | "memory", "getbyid" => run do
        let b ← pStr; let i ← pInt
        match Memory.getEvent s.mem b i with
        | .ok o => pure (ok s (showOpt showEv o))
        | .error e => pure (er e)
    | "memory", "count" => run do
        let b ← pStr; let st ← pOpt pInt; let en ← pOpt pInt
        match Memory.getEventcount s.mem b st en with
        | .ok n => pure (ok s (toString n))
        | .error e => pure (er e)
    | "memory", "hbloop" => run do
        let b ← pStr; let pt ← pInt; let l ← pList pEv
        match Memory.hbLoop pt b s.mem l with
        | .ok q => pure (ok { s with mem := q } "")
        | .error e => pure (er e)
    | "memory", "dump" => run (pure (ok s (showDump (Memory.bucketsOf s.mem) (Memory.view s.mem))))
    | "memory", "lookup" => run do
        let b ← pStr
        pure (if (Memory.bucketsOf s.mem).any (fun p => p.1 = b) then ok s "" else er .keyError)
    -- ---------------------------------------------------------------- peewee
    | "peewee", "create" => run do
        let b ← pStr; let m ← pMeta
        match Peewee.createBucket s.pw b m with
        | .ok q => pure (ok { s with pw := q } "")
        | .error e => pure (er e)
    | "peewee", "update" => run do
        let b ← pStr; let u ← pUpd
        match Peewee.updateBucket s.pw b u with
        | .ok q => pure (ok { s with pw := q } "")
        | .error e => pure (er e)
    | "peewee", "delbucket" => run do
        let b ← pStr
        match Peewee.deleteBucket s.pw b with
        | .ok q => pure (ok { s with pw := q } "")
        | .error e => pure (er e)
    | "peewee", "metadata" => run do
        let b ← pStr
        match Peewee.getMetadata s.pw b with
        | .ok m => pure (ok s (showMeta m))
        | .error e => pure (er e)
    | "peewee", "buckets" => run (pure (ok s (showBuckets (Peewee.bucketsOf s.pw))))
    | "peewee", "insert" => run do
        let b ← pStr; let e ← pEv
        match Peewee.insertOne s.pw b e with
        | .ok (q, i) => pure (ok { s with pw := q } (showOpt toString i))
        | .error e => pure (er e)
    | "peewee", "bulk" => run do
        let b ← pStr; let es ← pList pEv
        match Peewee.insertMany s.pw b es with
        | .ok q => pure (ok { s with pw := q } "")
        | .error e => pure (er e)
    | "peewee", "replace" => run do
        let b ← pStr; let i ← pInt; let e ← pEv
        match Peewee.replace s.pw b i e with
        | .ok q => pure (ok { s with pw := q } "")
        | .error e => pure (er e)
    | "peewee", "replacelast" => run do
        let b ← pStr; let h ← pOpt pInt; let e ← pEv
        match Peewee.replaceLast s.pw b h e with
        | .ok (some (q, i)) => pure (ok { s with pw := q } (toString i))
        | .ok none => pure (s, "ok illegal-hint")
        | .error e => pure (er e)
    | "peewee", "delete" => run do
        let b ← pStr; let i ← pInt
        match Peewee.delete s.pw b i with
        | .ok (q, n) => pure (ok { s with pw := q } (toString n))
        | .error e => pure (er e)
    | "peewee", "get" => run do
        let b ← pStr; let lim ← pInt; let st ← pOpt pInt; let en ← pOpt pInt
        let (st, en) := roundWin st en
        match Peewee.getEvents s.pw b lim st en Codec.peeweeDecode with
        | .ok l => pure (ok s (showList showEv l))
        | .error e => pure (er e)
    | "peewee", "getbyid" => run do
        let b ← pStr; let i ← pInt
        match Peewee.getEvent s.pw b i with
        | .ok o => pure (ok s (showOpt showEv (o.map Codec.peeweeDecode)))
        | .error e => pure (er e)
    | "peewee", "count" => run do
        let b ← pStr; let st ← pOpt pInt; let en ← pOpt pInt
        match Peewee.getEventcount s.pw b st en with
        | .ok n => pure (ok s (toString n))
        | .error e => pure (er e)
    | "peewee", "hbloop" => run do
        let b ← pStr; let pt ← pInt; let l ← pList pEv
        match Peewee.hbLoop pt b s.pw l with
        | .ok q => pure (ok { s with pw := q } "")
        | .error e => pure (er e)
    | "peewee", "dump" => run (pure (ok s (showDump (Peewee.bucketsOf s.pw) (fun b => (Peewee.view s.pw b).map (fun p => (p.1, p.2.map Codec.peeweeDecode))))))
    | "peewee", "lookup" => run do
        let b ← pStr
        pure (if (Peewee.bucketsOf s.pw).any (fun p => p.1 = b) then ok s "" else er .keyError)
    | _, _ => (s, "bad store-op")
  | _ => (s, "bad store-request")

end Drv.Store
