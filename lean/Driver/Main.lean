import Driver.Proto
import Driver.Hb
import Driver.Query
/-! Model driver: one request per line on stdin, one answer per line on stdout. -/
open Drv

def dispatch (line : String) : String :=
  match (line.splitOn " ").filter (· ≠ "") with
  | "hb" :: r => Hb.handle r
  | "q" :: r => Query.handle r
  | [] => "bad empty"
  | a :: _ => s!"bad area {a}"

partial def loop (hin : IO.FS.Stream) (hout : IO.FS.Stream) : IO Unit := do
  let line ← hin.getLine
  if line.isEmpty then return ()
  let l := line.trimAscii.toString
  hout.putStrLn (dispatch l)
  loop hin hout

def main : IO Unit := do
  let hin ← IO.getStdin
  let hout ← IO.getStdout
  loop hin hout
  hout.flush
