import Driver.Proto
import Driver.Hb
import Driver.Store
import Driver.Fl
import Driver.Cls
import Driver.Flood
import Driver.Grp
import Driver.Commit
import Driver.Ev
import Driver.Cfg
import Driver.Isect
import Driver.Heap
import Driver.Unov
import Driver.Query
/-! Model driver: one request per line on stdin, one answer per line on stdout.
    Pure areas answer from the request alone; `store` threads the backend states. -/
open Drv

structure State where
  store : Store.DrvSt := {}
  commit : Commit.CS := {}
  heap : HeapArea.DrvSt := {}

def dispatch (st : State) (line : String) : State × String :=
  match (line.splitOn " ").filter (· ≠ "") with
  | "hb" :: r => (st, Hb.handle r)
  | "fl" :: r => (st, Fl.handle r)
  | "cls" :: r => (st, Cls.handle r)
  | "flood" :: r => (st, Flood.handle r)
  | "grp" :: r => (st, Grp.handle r)
  | "ev" :: r => (st, Ev.handle r)
  | "cfg" :: r => (st, Cfg.handle r)
  | "isect" :: r => (st, Isect.handle r)
  | "punion" :: r => (st, Isect.handleUnion r)
  | "unov" :: r => (st, Unov.handle r)
  | "q" :: r => (st, Query.handle r)
  | "commit" :: r => let (c', out) := Commit.handle st.commit r; ({ st with commit := c' }, out)
  | "heap" :: r => let (h', out) := HeapArea.handle st.heap r; ({ st with heap := h' }, out)
  | "store" :: r => let (s', out) := Store.handle st.store r; ({ st with store := s' }, out)
  | [] => (st, "bad empty")
  | a :: _ => (st, s!"bad area {a}")

partial def loop (hin : IO.FS.Stream) (hout : IO.FS.Stream) (st : State) : IO Unit := do
  let line ← hin.getLine
  if line.isEmpty then return ()
  let l := line.trimAscii.toString
  let (st', out) := dispatch st l
  hout.putStrLn out
  loop hin hout st'

def main : IO Unit := do
  let hin ← IO.getStdin
  let hout ← IO.getStdout
  loop hin hout {}
  hout.flush
