import AwModel.Config
import AwModel.ConfigSkel
import Driver.Proto
/-!
Driver area `cfg` (aw_core/config.py). A tree is `L <hex canonical leaf>` or
`T <n> (<hex key> <tree>)*`; text is hex.
  cfg merge <tree a> <tree b>                  -> merged tree
  cfg comment <text>                           -> commented text
  cfg strip <text>                             -> stripped text
  cfg skel <text>                              -> N | S <tree>      (parseSkel)
  cfg firstfile <default text>                 -> N | S <tree>      (parseSkel of the commented-out text)
  cfg load <n> <default text> <N | S tree> <N | S <file text> <N | S tree>>
      -> n times: <N | S result tree> <N | S file text>
-/
namespace Drv.Cfg
open Drv Aw Aw.Config

abbrev T := Toml String

partial def pTree : P T := do
  let t ← tok
  if t == "L" then
    let s ← pStr
    pure (.leaf s)
  else if t == "T" then
    let n ← pNat
    let es ← pMany (do let k ← pStr; let v ← pTree; pure (k, v)) n
    pure (.table (Entries.ofList es))
  else throw s!"tree? {t}"

def pRoot : P (Entries String) := do
  match (← pTree) with
  | .table es => pure es
  | .leaf _ => throw "root must be a table"

partial def showTree : T → String
  | .leaf v => "L " ++ hex v
  | .table es =>
    let l := es.toList
    String.intercalate " " (["T", toString l.length] ++ l.map fun (k, v) => hex k ++ " " ++ showTree v)

def pText : P Text := do
  let s ← pStr
  pure s.toList

def showText (t : Text) : String := hex (String.ofList t)

def showRes : Option (Entries String) → String := showOpt (fun es => showTree (.table es))

def loads (parse : Text → Option (Entries String)) (dflt : Text) : Nat → Option Text → List String
  | 0, _ => []
  | n + 1, file =>
    let r := load parse dflt file
    (showRes r.result ++ " " ++ showOpt showText r.file) :: loads parse dflt n r.file

def handle : List String → String
  | "merge" :: r => runP (do
      let a ← pRoot; let b ← pRoot
      pure (showTree (.table (merge a b)))) r
  | "comment" :: r => runP (do
      let s ← pText
      pure (showText (commentOut s))) r
  | "strip" :: r => runP (do
      let s ← pText
      pure (showText (pyStrip s))) r
  | "skel" :: r => runP (do
      let s ← pText
      pure (showRes (parseSkel s))) r
  | "firstfile" :: r => runP (do
      let s ← pText
      pure (showRes (parseSkel (commentOut s)))) r
  | "load" :: r => runP (do
      let n ← pNat
      let dflt ← pText
      let dtree ← pOpt pRoot
      let file ← pOpt (do let t ← pText; let u ← pOpt pRoot; pure (t, u))
      let parse : Text → Option (Entries String) := fun t =>
        if t = dflt then dtree
        else match file with
          | some (ft, u) => if t = ft then u else parseSkel t
          | none => parseSkel t
      pure (String.intercalate " " (loads parse dflt n (file.map (·.1))))) r
  | _ => "bad cfg-op"

end Drv.Cfg
