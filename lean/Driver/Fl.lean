import AwModel.Float64
import Driver.Proto
/-!
Driver area `fl`: rationals are sent as `<num> <den>` (a double is sent as its exact value,
`float.as_integer_ratio()`), answers are exact rationals `<num> <den>` or integers.

```
fl div|mul|add|sub <num> <den> <num> <den>   -> ok <num> <den>
fl rnd <num> <den>                           -> ok <num> <den>      (fl of any rational)
fl rne|trunc|td|dec <num> <den>              -> ok <int>
fl enc|tot <int>                             -> ok <num> <den>
```
-/
namespace Drv.Fl
open Drv Aw.Fl

def pRat : P Rat := do
  let n ← pInt
  let d ← pNat
  if d = 0 then throw "den0" else pure (mkRat n d)

def showRat (r : Rat) : String := s!"{r.num} {r.den}"

def bin (f : Rat → Rat → Rat) : P String := do
  let a ← pRat; let b ← pRat
  pure (showRat (f a b))

def handle : List String → String
  | "div" :: r => runP (do
      let a ← pRat; let b ← pRat
      if b = 0 then throw "div0" else pure (showRat (fdiv a b))) r
  | "mul" :: r => runP (bin fmul) r
  | "add" :: r => runP (bin fadd) r
  | "sub" :: r => runP (bin fsub) r
  | "rnd" :: r => runP (do let a ← pRat; pure (showRat (fl a))) r
  | "rne" :: r => runP (do let a ← pRat; pure (toString (rne a))) r
  | "trunc" :: r => runP (do let a ← pRat; pure (toString (trunc a))) r
  | "td" :: r => runP (do let a ← pRat; pure (toString (tdOfSeconds a))) r
  | "dec" :: r => runP (do let a ← pRat; pure (toString (decF a))) r
  | "enc" :: r => runP (do let a ← pInt; pure (showRat (encF a))) r
  | "tot" :: r => runP (do let a ← pInt; pure (showRat (totalSeconds a))) r
  | _ => "bad fl-op"

end Drv.Fl
