import AwModel.Event
import Driver.Proto
import Driver.Fl
/-!
Driver area `ev` (C13). Event data is the canonical JSON text (opaque), the empty dict is `{}`.

```
ev mk <id?> <loc> <off?> <dur> <data?>
   <dur> ::= td <us> | int <n> | float <num> <den> | other
   -> err <Kind>
    | ok <ev> <jloc> <joff?> <jdurnum> <jdurden> <schemaok> <again> <again>
   <again> ::= E <Kind> | R <ev> <eq>          (Event(**json) and Event(**e))
ev msfloor <us>            -> ok <int>          (int(us / 1000) * 1000)
```
-/
namespace Drv.Ev
open Drv Aw Aw.Event

def pDur : P DurIn := do
  let t ← tok
  if t == "td" then DurIn.td <$> pInt
  else if t == "int" then DurIn.int <$> pInt
  else if t == "float" then DurIn.float <$> Fl.pRat
  else if t == "other" then pure DurIn.other
  else throw s!"dur? {t}"

def showErr : PyErr → String
  | .typeError => "TypeError"
  | .overflowError => "OverflowError"
  | .unmodelled => "Unmodelled"

def emp : String := "{}"

def again (e : Ev String) : Except PyErr (Ev String) → String
  | .error k => "E " ++ showErr k
  | .ok e' => s!"R {showEv e'} {showBool (eqEv e e')}"

def run (p : P String) (ts : List String) : String :=
  match p.run ts with
  | .ok (out, []) => out
  | .ok (_, r) => s!"bad trailing {r.length}"
  | .error e => "bad " ++ e

def handle : List String → String
  | "mk" :: r => run (do
      let id ← pOpt pInt
      let loc ← pInt
      let off ← pOpt pInt
      let dur ← pDur
      let data ← pOpt pStr
      match mk emp id ⟨loc, off⟩ dur data with
      | .error k => pure ("err " ++ showErr k)
      | .ok e =>
        let j := toJson e
        let jts : String := match lookup "timestamp" j with
          | some (.str d) => s!"{d.loc} {showOpt toString d.off}"
          | _ => "? ?"
        let jdur : String := match lookup "duration" j with
          | some (.num q) => Fl.showRat q
          | _ => "? ?"
        pure s!"ok {showEv e} {jts} {jdur} {showBool (schemaOk j)} {again e (ofJson emp j)} {again e (copy emp e)}") r
  | "msfloor" :: r => runP (do let us ← pInt; pure (toString (msTrunc us))) r
  | _ => "bad ev-op"

end Drv.Ev
