import AwModel.UnionNoOverlap
import Driver.Proto
namespace Drv.Unov
open Drv Aw

/-- `run <list1> <list2>` → the tagged output (`1` = list one) of the repaired loop -/
def handle : List String → String
  | "run" :: r => runP (do
      let l1 ← pList pEv; let l2 ← pList pEv
      pure (showList (fun (p : Bool × Ev String) => showBool p.1 ++ " " ++ showEv p.2)
        (Aw.Unov.unov l1 l2))) r
  | "split" :: r => runP (do
      let e ← pEv; let dt ← pInt
      let (a, b) := Aw.Unov.splitEvent e dt
      pure (showEv a ++ " " ++ showOpt showEv b)) r
  | _ => "bad unov-op"

end Drv.Unov
