/-!
# Basic types of the aw-core model

Instants and durations are `Int` microseconds (instants: since the Unix epoch, UTC).
`Ev D` is `aw_core.models.Event` with payload type `D` (the `data` dict).
-/
namespace Aw

/-- `aw_core.models.Event`: optional id, instant (µs), duration (µs), data. -/
structure Ev (D : Type) where
  id : Option Int := none
  ts : Int
  dur : Int
  data : D
deriving Repr, DecidableEq, Inhabited

variable {D : Type}

/-- end instant `timestamp + duration` -/
def Ev.fin (e : Ev D) : Int := e.ts + e.dur

/-- microseconds of `timedelta(seconds=s)` for an integer number of milliseconds etc. is exact;
    one second -/
def usPerSec : Int := 1000000

end Aw
