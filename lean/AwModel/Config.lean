/-!
# aw_core/config.py : `_merge`, `_comment_out_toml`, `load_config_toml`

* `Toml V` is a parsed TOML document as `_merge` sees it: `isinstance(x, dict)` (tables, inline
  tables, tables made by dotted keys) is `table`, everything else (scalars, arrays, arrays of
  tables) is `leaf v`. `V` is the type of leaf values with Python's `==` as equality (the harness
  sends one canonical representative per `==`-class).
* `mergeE`/`combine` follow the repaired `_merge` statement for statement: iterate over the keys of
  `b` in order; key present in `a`: both dicts -> recurse in place, else replace in place; key
  absent: append. (The pinned code had a third branch `elif a[key] == b[key]: pass`; Python's `==`
  identifies `1`, `True`, `1.0` and a date with every datetime on that day, so that branch kept the
  default where the user had set a different value - see notes/c20_repair.patch.)
* Text is `List Char`; `commentOut` is `_comment_out_toml` on the characters: `split("\n")`,
  `strip()` (Python's white-space set), the `startswith("[")` tests, `"\n".join`.
* `load` is `load_config_toml` on a one-file file-system state (`Option Text`: the config file's
  content, `none` = no file) with the TOML parser as a parameter.
-/
namespace Aw.Config

/-! ## trees -/

mutual
/-- value in a parsed document, as `_merge` distinguishes them -/
inductive Toml (V : Type) where
  | leaf (v : V)
  | table (es : Entries V)
/-- the items of a dict, in insertion order -/
inductive Entries (V : Type) where
  | nil
  | cons (k : String) (t : Toml V) (rest : Entries V)
end

variable {V : Type}

namespace Entries

def toList : Entries V → List (String × Toml V)
  | nil => []
  | cons k t r => (k, t) :: toList r

def ofList : List (String × Toml V) → Entries V
  | [] => nil
  | (k, t) :: r => cons k t (ofList r)

def keys : Entries V → List String
  | nil => []
  | cons k _ r => k :: keys r

/-- `d[k]` / `k in d` -/
def lookup : Entries V → String → Option (Toml V)
  | nil, _ => none
  | cons k' t r, k => if k' = k then some t else lookup r k

/-- `a[k] = f(a.get(k))`: an existing key keeps its position, a new key is appended -/
def upd (f : Option (Toml V) → Toml V) : Entries V → String → Entries V
  | nil, k => cons k (f none) nil
  | cons k' t r, k => if k' = k then cons k' (f (some t)) r else cons k' t (upd f r k)

end Entries

/-! ## `_merge` -/

mutual
/-- what `a[key]` is after the loop body of `_merge` ran for `key` with `a[key] = av`, `b[key] = bv` -/
def combine (bv : Toml V) (av : Toml V) : Toml V :=
  match bv with
  | .table eb =>
    match av with
    | .table ea => .table (mergeE eb ea)      -- both dicts: `_merge(a[key], b[key])`
    | .leaf _ => .table eb                      -- `a[key] == b[key]` is False: `a[key] = b[key]`
  | .leaf y =>
    match av with
    | .leaf _ => .leaf y                        -- `a[key] = b[key]` (repaired: no `==` shortcut)
    | .table _ => .leaf y
/-- `_merge(a, b)`: `for key in b: ...; return a` (first argument is `b`, the loop variable) -/
def mergeE (b : Entries V) (a : Entries V) : Entries V :=
  match b with
  | .nil => a
  | .cons k bv rest =>
    mergeE rest (a.upd (fun
      | some av => combine bv av     -- `if key in a`
      | none => bv) k)               -- `else: a[key] = b[key]`
end

/-- `_merge(a, b)` on documents -/
def merge (a b : Entries V) : Entries V := mergeE b a

/-- overlay of two values: what `_merge` leaves at a key both have -/
def overlay (d u : Toml V) : Toml V := combine u d

/-! ## paths -/

abbrev Path := List String

/-- the value at a path (`t[p0][p1]...`), if every step is a key of a table -/
def Toml.get? : Toml V → Path → Option (Toml V)
  | t, [] => some t
  | .leaf _, _ :: _ => none
  | .table es, k :: p =>
    match es.lookup k with
    | some t => t.get? p
    | none => none

def Toml.leafAt (t : Toml V) (p : Path) : Option V :=
  match t.get? p with
  | some (.leaf v) => some v
  | _ => none

def Toml.tableAt (t : Toml V) (p : Path) : Bool :=
  match t.get? p with
  | some (.table _) => true
  | _ => false

def Toml.definedAt (t : Toml V) (p : Path) : Bool := (t.get? p).isSome

/-- some proper prefix of `p` is a leaf of `t` -/
def Toml.leafAbove : Toml V → Path → Bool
  | .leaf _, _ :: _ => true
  | .leaf _, [] => false
  | .table _, [] => false
  | .table es, k :: p =>
    match es.lookup k with
    | some t => t.leafAbove p
    | none => false

/-! ## skeletons (documents made of table headers only) -/

/-- `[p0.p1...]` on a document: walk, creating missing tables; `none` if the path runs into a leaf -/
def Toml.insertPath : Toml V → Path → Toml V
  | t, [] => t
  | .leaf v, _ :: _ => .leaf v
  | .table es, k :: p =>
    .table (es.upd (fun
      | some t => t.insertPath p
      | none => (Toml.table .nil).insertPath p) k)

def skeleton (ps : List Path) : Toml V := ps.foldl Toml.insertPath (.table .nil)

/-! ## text: `_comment_out_toml` -/

abbrev Text := List Char

/-- `str.isspace()` for one character (Python 3.12 / Unicode 15) -/
def pyIsSpace (c : Char) : Bool :=
  let n := c.toNat
  (9 ≤ n && n ≤ 13) || (28 ≤ n && n ≤ 32) || n == 0x85 || n == 0xA0 || n == 0x1680 ||
  (0x2000 ≤ n && n ≤ 0x200A) || n == 0x2028 || n == 0x2029 || n == 0x202F || n == 0x205F ||
  n == 0x3000

/-- `line.strip()` -/
def pyStrip (l : Text) : Text :=
  ((l.dropWhile pyIsSpace).reverse.dropWhile pyIsSpace).reverse

/-- `s.split("\n")` -/
def splitNl : Text → List Text
  | [] => [[]]
  | c :: cs =>
    if c = '\n' then [] :: splitNl cs
    else
      match splitNl cs with
      | [] => [[c]]            -- unreachable: `splitNl` never returns `[]`
      | l :: ls => (c :: l) :: ls

/-- `"\n".join(lines)` -/
def joinNl : List Text → Text
  | [] => []
  | [l] => l
  | l :: l' :: ls => l ++ '\n' :: joinNl (l' :: ls)

/-- `t.startswith("[")` -/
def startsBr (t : Text) : Bool :=
  match t with
  | '[' :: _ => true
  | _ => false

/-- `t.startswith("[[")` -/
def startsBrBr (t : Text) : Bool :=
  match t with
  | '[' :: '[' :: _ => true
  | _ => false

/-- the loop of the repaired `_comment_out_toml`; `seen` = an array-of-tables header was seen -/
def commentLines : Bool → List Text → List Text
  | _, [] => []
  | seen, l :: ls =>
    let t := pyStrip l
    let seen' := seen || startsBrBr t
    (if !t.isEmpty && (seen' || !startsBr t) then '#' :: l else l) :: commentLines seen' ls

/-- `_comment_out_toml(s)` -/
def commentOut (s : Text) : Text := joinNl (commentLines false (splitNl s))

/-! ## `load_config_toml` -/

/-- outcome of one call: the returned configuration (or `none`: the parser raised) and the file
    afterwards -/
structure Loaded (V : Type) where
  result : Option (Entries V)
  file : Option Text

/-- `load_config_toml(appname, default_config)` with the config file's state `file`.
    `parse` stands for `tomlkit.parse` followed by reading the document as nested dicts. -/
def load (parse : Text → Option (Entries V)) (dflt : Text) (file : Option Text) :
    Loaded V :=
  match parse dflt with
  | none => ⟨none, file⟩                 -- "Run early to ensure input is valid toml before writing"
  | some d =>
    match file with
    | some txt =>                          -- `os.path.isfile`: read and parse, never written
      match parse txt with
      | none => ⟨none, some txt⟩
      | some u => ⟨some (merge d u), some txt⟩
    | none =>                              -- write the commented-out defaults; `config_toml = dict()`
      ⟨some (merge d .nil), some (commentOut dflt)⟩

end Aw.Config
