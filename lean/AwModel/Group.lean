import AwModel.Basic
import AwModel.PySort
/-!
# aw_transform: merge_events_by_keys.py (after the F13 repair), chunk_events_by_key.py, sort_by.py,
# filter_keyvals.py

Event data is an association list in Python dict order; `lookup` is `d[k]` / `k in d`.
A JSON value is a string, a list of strings, or anything else as its canonical JSON text; the three
classes are disjoint (a list of strings is never sent as `other`), so `=` on `JVal` is Python's `==`
on the values (the generators do not mix `1`, `1.0`, `True`).

Not modelled: `chunk_events_by_key` with `key = "subevents"` (the output's own bookkeeping key: the
dict literal `{key: …, "subevents": […]}` then has one entry and the comparison is between a list of
Event objects and a JSON value).
-/
namespace Aw.Group
open Aw

inductive JVal where
  | str (s : String)
  | list (l : List String)
  | other (json : String)
deriving Repr, DecidableEq, Inhabited

abbrev Data := List (String × JVal)
abbrev Event := Ev Data

inductive PyErr where
  | typeError
deriving Repr, DecidableEq

/-- `d[k]` where `k in d` (first entry; a dict has at most one) -/
def lookup (k : String) : Data → Option JVal
  | [] => none
  | (k', v) :: r => if k' = k then some v else lookup k r

/-- `d[k] = v`: overwrite in place, or append a new entry -/
def dictSet (k : String) (v : JVal) : Data → Data
  | [] => [(k, v)]
  | (k', v') :: r => if k' = k then (k', v) :: r else (k', v') :: dictSet k v r

/-! ## hashability of `tuple(val)` / `val` as part of a dict key -/

/-- no `[` or `{` outside string literals in the rest of a canonical JSON list text -/
def noNested : List Char → Bool → Bool
  | [], _ => true
  | c :: r, false =>
    if c = '[' ∨ c = '{' then false else if c = '"' then noNested r true else noNested r false
  | c :: r, true =>
    if c = '"' then noNested r false
    else if c = '\\' then
      match r with
      | [] => true
      | _ :: r' => noNested r' true
    else noNested r true

/-- can the value (lists turned into tuples at top level only, as the source does) be hashed?
    dicts and lists that contain a list or dict cannot -/
def JVal.hashable : JVal → Bool
  | .str _ => true
  | .list _ => true
  | .other t =>
    match t.toList with
    | '{' :: _ => false
    | '[' :: r => noNested r false
    | _ => true

/-! ## merge_events_by_keys -/

/-- the composite key: `(key, val)` for every key of `keys` that the event has, in `keys` order.
    `tuple(val)` for lists is injective and never equal to a non-list value, so the value itself
    stands for it. -/
def compositeKey : List String → Data → List (String × JVal)
  | [], _ => []
  | k :: ks, d =>
    match lookup k d with
    | some v => (k, v) :: compositeKey ks d
    | none => compositeKey ks d

/-- `for key in keys: if key in event.data: merged.data[key] = event.data[key]` -/
def pickData (d : Data) : List String → Data → Data
  | [], acc => acc
  | k :: ks, acc =>
    match lookup k d with
    | some v => pickData d ks (dictSet k v acc)
    | none => pickData d ks acc

abbrev Table := List (List (String × JVal) × Event)

/-- one loop iteration on the insertion-ordered dict `merged_events`:
    `if ck not in merged_events: merged_events[ck] = Event(…) else: merged_events[ck].duration += …` -/
def upsert (keys : List String) (ck : List (String × JVal)) (e : Event) : Table → Table
  | [] => [(ck, { id := none, ts := e.ts, dur := e.dur, data := pickData e.data keys [] })]
  | (c, m) :: r =>
    if c = ck then (c, { m with dur := m.dur + e.dur }) :: r
    else (c, m) :: upsert keys ck e r

def mergeLoop (keys : List String) : Table → List Event → Except PyErr Table
  | acc, [] => .ok acc
  | acc, e :: es =>
    let ck := compositeKey keys e.data
    -- `composite_key not in merged_events` hashes the tuple
    if ck.all (fun kv => kv.2.hashable) then mergeLoop keys (upsert keys ck e acc) es
    else .error .typeError

/-- `merge_events_by_keys(events, keys)` (repaired: the composite key holds `(key, val)` pairs) -/
def mergeEventsByKeys (l : List Event) (keys : List String) : Except PyErr (List Event) :=
  if keys.length < 1 then .ok l
  else (mergeLoop keys [] l).map (fun t => t.map (·.2))

/-! ## chunk_events_by_key -/

/-- a chunked event: `Event(timestamp, duration, data={key: val, "subevents": subs})` -/
structure Chunk where
  ts : Int
  dur : Int
  val : JVal
  subs : List Event
deriving Repr, DecidableEq

/-- the loop; `acc` is `chunked_events` reversed (head = `chunked_events[-1]`), `lf` is
    `events[-1].timestamp + events[-1].duration` (the LAST INPUT event, as in the source),
    `pt` the µs of `timedelta(seconds=pulsetime)` -/
def chunkLoop (key : String) (pt lf : Int) : List Chunk → List Event → List Chunk
  | acc, [] => acc.reverse
  | acc, e :: es =>
    match lookup key e.data with
    | none => acc.reverse -- break
    | some v =>
      match acc with
      | [] => chunkLoop key pt lf [⟨e.ts, e.dur, v, [e]⟩] es
      | c :: acc' =>
        if c.val = v ∧ e.ts - lf < pt then
          chunkLoop key pt lf ({ c with dur := c.dur + e.dur, subs := c.subs ++ [e] } :: acc') es
        else chunkLoop key pt lf (⟨e.ts, e.dur, v, [e]⟩ :: c :: acc') es

/-- `chunk_events_by_key(events, key, pulsetime)`; `events[-1]` is only evaluated inside the loop,
    i.e. for a non-empty list -/
def chunkEventsByKey (l : List Event) (key : String) (pt : Int) : List Chunk :=
  match l.getLast? with
  | none => []
  | some last => chunkLoop key pt (last.ts + last.dur) [] l

/-! ## sort_by.py -/

def sortByTimestamp (l : List Event) : List Event := PySort.sortBy (·.ts) l

/-- `sorted(events, key=duration, reverse=True)` -/
def sortByDuration (l : List Event) : List Event := PySort.sortByDesc (·.dur) l

/-- `events[:count]` for any integer count (a negative count drops from the end) -/
def limitEvents (l : List Event) (count : Int) : List Event :=
  if 0 ≤ count then l.take count.toNat else l.take (l.length - (-count).toNat)

/-! ## filter_keyvals.py -/

/-- `key in event.data and event.data[key] in vals` -/
def predicate (key : String) (vals : List JVal) (e : Event) : Bool :=
  match lookup key e.data with
  | some v => vals.contains v
  | none => false

def filterKeyvals (l : List Event) (key : String) (vals : List JVal) (exclude : Bool) : List Event :=
  if exclude then l.filter (fun e => !predicate key vals e) else l.filter (predicate key vals)

end Aw.Group
