import AwModel.Config
/-!
# The TOML parser on first-run files

`tomlkit.parse` is a parameter of the model. For the driver the parameter has to be a function; on
the user's and the default document the harness supplies what the real tomlkit returned, and on
the files the model itself writes on a first run (blank lines, `#` comment lines and plain
`[table.header]` lines only) `parseSkel` below is used. It is *not* used by any theorem: the
theorems assume a parser specification (`AwProofs.Lemmas.Config.ParserSpec`). The correspondence
check compares `parseSkel` with the real tomlkit on every first-run file it produces.
-/
namespace Aw.Config

def isBare (c : Char) : Bool := c.isAlphanum || c = '_' || c = '-'

def skipWs : Text → Text
  | c :: r => if c = ' ' || c = '\t' then skipWs r else c :: r
  | [] => []

/-- a basic string after its opening quote: (content, rest after the closing quote) -/
def basicStr : Text → Text → Option (Text × Text)
  | _, [] => none
  | acc, '"' :: r => some (acc.reverse, r)
  | acc, '\\' :: '"' :: r => basicStr ('"' :: acc) r
  | acc, '\\' :: '\\' :: r => basicStr ('\\' :: acc) r
  | acc, '\\' :: 't' :: r => basicStr ('\t' :: acc) r
  | acc, '\\' :: 'n' :: r => basicStr ('\n' :: acc) r
  | _, '\\' :: _ => none
  | acc, c :: r => basicStr (c :: acc) r

def literalStr : Text → Text → Option (Text × Text)
  | _, [] => none
  | acc, '\'' :: r => some (acc.reverse, r)
  | acc, c :: r => literalStr (c :: acc) r

def bareKey : Text → Text → Text × Text
  | acc, c :: r => if isBare c then bareKey (c :: acc) r else (acc.reverse, c :: r)
  | acc, [] => (acc.reverse, [])

def oneKey (t : Text) : Option (Text × Text) :=
  match t with
  | '"' :: r => basicStr [] r
  | '\'' :: r => literalStr [] r
  | _ =>
    let (k, r) := bareKey [] t
    if k.isEmpty then none else some (k, r)

/-- keys of a dotted name up to the closing bracket; fuel = length of the input -/
def dotted : Nat → Text → Option (List Text × Text)
  | 0, _ => none
  | n + 1, t =>
    match oneKey (skipWs t) with
    | none => none
    | some (k, r) =>
      match skipWs r with
      | '.' :: r' =>
        match dotted n r' with
        | some (ks, rest) => some (k :: ks, rest)
        | none => none
      | ']' :: r' => some ([k], r')
      | _ => none

/-- the path named by a stripped plain header line `[a.b]  # comment` -/
def headerPath (t : Text) : Option Path :=
  match t with
  | '[' :: r =>
    match dotted (r.length + 1) r with
    | some (ks, rest) =>
      match skipWs rest with
      | [] => some (ks.map String.ofList)
      | '#' :: _ => some (ks.map String.ofList)
      | _ => none
    | none => none
  | _ => none

/-- header paths of a document of blank / comment / plain-header lines, `none` outside the fragment -/
def skelPaths : List Text → Option (List Path)
  | [] => some []
  | l :: ls =>
    let t := pyStrip l
    match skelPaths ls with
    | none => none
    | some ps =>
      if t.isEmpty then some ps
      else match t with
        | '#' :: _ => some ps
        | _ =>
          if startsBr t && !startsBrBr t then
            match headerPath t with
            | some p => some (p :: ps)
            | none => none
          else none

/-- tomlkit on a first-run file: the skeleton of its headers; a table defined twice is an error -/
def parseSkel {V : Type} (s : Text) : Option (Entries V) :=
  match skelPaths (splitNl s) with
  | none => none
  | some ps =>
    if ps.Nodup then
      match (skeleton ps : Toml V) with
      | .table es => some es
      | .leaf _ => none
    else none

end Aw.Config
