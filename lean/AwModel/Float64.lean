/-!
# IEEE-754 binary64 arithmetic on `Rat` (normal range), executable, core Lean only

A finite double *is* a rational. One float operation of the code is one application of `fl`
(round to nearest, ties to even, 53 significant bits) to the exact rational result:

* `fdiv a b = fl (a / b)`  — `float / float`, and also `int / int` (CPython's long true division
  is correctly rounded), e.g. `microsecond / 1000`, `timedelta.total_seconds()`;
* `fmul`, `fadd`, `fsub`    — `float * float`, `float + float`, `float - float`;
* `modf`                    — exact split into fractional and integral part (same sign, C `modf`);
* `rne`                     — round-half-even to an integer (`_PyTime_ROUND_HALF_EVEN`, and the
  leftover rounding of `timedelta(seconds=float)`);
* `trunc`                   — `int(float)`.

Range: exponents are unbounded (no overflow to `inf`, no subnormal flush), so `fl` agrees with the
hardware exactly when the rounded result is 0 or has magnitude in `[2^-1022, 2^1024)`. Everything
the repository computes on instants and durations is far inside that range; the `fl` stream of
the C13 check compares `fl` with the hardware on every run.
-/
namespace Aw.Fl

/-- `2^e` for an integer exponent -/
def pow2 (e : Int) : Rat := if e ≥ 0 then ((2:Rat)^e.toNat) else 1 / ((2:Rat)^(-e).toNat)

/-- `⌊log₂ x⌋` for `x > 0` (estimate from the bit lengths of numerator and denominator, then one
    correction step) -/
def ilog2 (x : Rat) : Int :=
  let n := x.num.toNat; let d := x.den
  let e0 : Int := (Nat.log2 n : Int) - (Nat.log2 d : Int)
  let p : Rat := if e0 ≥ 0 then ((2:Rat)^e0.toNat) else 1 / ((2:Rat)^(-e0).toNat)
  if p ≤ x then (if 2*p ≤ x then e0+1 else e0) else e0-1

/-- round to the nearest integer, ties to the even one -/
def rne (q : Rat) : Int :=
  let f := q.floor; let r := q - f
  if r < 1/2 then f else if 1/2 < r then f+1 else if f % 2 = 0 then f else f+1

/-- the double nearest to `x` (ties to even significand): `x` is scaled so that its integer part
    has exactly 53 bits, rounded with `rne`, and scaled back -/
def fl (x : Rat) : Rat :=
  if x = 0 then 0 else
  let a := if x < 0 then -x else x
  let s := pow2 (ilog2 a - 52)
  let m := (rne (a / s) : Rat) * s
  if x < 0 then -m else m

/-- `a / b` in double arithmetic (also CPython `int / int`) -/
def fdiv (a b : Rat) : Rat := fl (a / b)
/-- `a * b` in double arithmetic -/
def fmul (a b : Rat) : Rat := fl (a * b)
/-- `a + b` in double arithmetic -/
def fadd (a b : Rat) : Rat := fl (a + b)
/-- `a - b` in double arithmetic -/
def fsub (a b : Rat) : Rat := fl (a - b)

/-- `int(x)`: truncation toward zero -/
def trunc (r : Rat) : Int := if r < 0 then -((-r).floor) else r.floor

/-- C `modf`: `(fractional part, integral part)`, both with the sign of the argument; exact -/
def modf (r : Rat) : Rat × Int := let i := trunc r; (r - i, i)

/-- microseconds of `timedelta(seconds=r)` for a double `r` (CPython `delta_new`/`accum`):
    `modf`, whole seconds × 10⁶ exactly, the fraction times `1e6` in double arithmetic, and the
    result rounded half-even. (`accum` splits `fl(frac·1e6)` once more with `modf` and rounds the
    leftover half-even *with respect to the parity of the integer sum*; as `10⁶·k` is even that is
    `rne` of the whole product.) -/
def tdOfSeconds (r : Rat) : Int :=
  (modf r).2 * 1000000 + rne (fmul (modf r).1 1000000)

/-- `timedelta(microseconds=D).total_seconds()` = `D / 10**6` as a correctly rounded division -/
def totalSeconds (D : Int) : Rat := fdiv D 1000000

/-- sqlite-style float encoding of an instant in µs: `(T / 1e6) * 1e6` -/
def encF (T : Int) : Rat := fmul (fdiv T 1000000) 1000000

/-- `datetime.fromtimestamp(m / 1e6, tz)` as µs since the epoch (`_PyTime_ObjectToTimeval` with
    `ROUND_HALF_EVEN`): one division, `modf`, one product, round-half-even. For `m ≥ 0`. -/
def decFNonneg (m : Rat) : Int :=
  let r := fl (m / 1000000)
  let ip := r.floor
  let fp := r - ip
  let p := fl (fp * 1000000)
  ip * 1000000 + rne p

/-- … for every `m`: C's `modf` splits towards zero and the division, the product and the
    half-even rounding are all odd functions of their argument (`_PyTime_DoubleToDenominator` only
    renormalises a negative fraction afterwards), so an instant before the epoch decodes to the
    mirror image of its absolute value. (Compared with the hardware on every C13 run, negative
    readings included.) -/
def decF (m : Rat) : Int := if m < 0 then -(decFNonneg (-m)) else decFNonneg m

end Aw.Fl
