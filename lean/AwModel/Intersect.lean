import AwModel.Basic
import AwModel.PySort
/-!
# aw_transform/filter_period_intersect.py and the `timeslot` library it uses

`Slot` is `timeslot.Timeslot` (start, end; nothing forces `start ≤ end`). Its methods
`contains`, `intersection`, `gap`, `union` follow the library source branch for branch.
A `Timeslot` object is always truthy (the class defines neither `__bool__` nor `__len__`), so
`if ip:` / `if not e_p.gap(le_p):` test for `None`.

`sweep` is the `while` loop of `_intersecting_eventpairs` (two indices = two list suffixes) with its
six advance branches, including the one the source calls "Should be unreachable"; what the loop
yields and what it logs is one list of `Step`s in program order.
`periodUnion` is `period_union`: sort, pop the first, loop with `merged_events[-1]` threaded as
`last`, clear data.
-/
namespace Aw.Intersect
open Aw
variable {D : Type}

/-- `timeslot.Timeslot` -/
structure Slot where
  s : Int
  e : Int
deriving Repr, DecidableEq, Inhabited

/-- `Timeslot.duration` -/
def Slot.duration (p : Slot) : Int := p.e - p.s

/-- `Timeslot.contains(other: Timeslot)` -/
def Slot.contains (self other : Slot) : Bool :=
  self.s ≤ other.s ∧ other.e ≤ self.e

/-- `Timeslot.intersection` -/
def Slot.intersection (self other : Slot) : Option Slot :=
  if self.contains other then some other
  else if self.s ≤ other.s ∧ other.s < self.e then some ⟨other.s, self.e⟩
  else if self.s < other.e ∧ other.e ≤ self.e then some ⟨self.s, other.e⟩
  else if other.contains self then some self
  else none

/-- `Timeslot.gap` -/
def Slot.gap (self other : Slot) : Option Slot :=
  if self.e < other.s then some ⟨self.e, other.s⟩
  else if other.e < self.s then some ⟨other.e, self.s⟩
  else none

/-- `Timeslot.union`; raises `Exception` when the slots have a gap -/
def Slot.union (self other : Slot) : Except String Slot :=
  match self.gap other with
  | none => .ok ⟨min self.s other.s, max self.e other.e⟩
  | some _ => .error "Exception"

/-- `_get_event_period` -/
def period (e : Ev D) : Slot := ⟨e.ts, e.ts + e.dur⟩

/-- what the `Event.timestamp` setter does to an instant: `_timestamp_parse` drops the
    sub-millisecond part (`ts.replace(microsecond=int(ts.microsecond / 1000) * 1000)`; the
    `microsecond` field of a `datetime` is in `0..999999` also before the epoch, so this is the
    floor to a multiple of 1000 µs); `astimezone(utc)` does not change the instant -/
def msFloor (t : Int) : Int := t - t % 1000

/-- `_replace_event_period`: a deep copy of the event (id and data kept); `e.timestamp = period.start`
    goes through the `Event.timestamp` setter, `e.duration = period.duration` is stored as is -/
def replacePeriod (e : Ev D) (p : Slot) : Ev D := { e with ts := msFloor p.s, dur := p.duration }

/-- one observable action of the generator `_intersecting_eventpairs` -/
inductive Step (D : Type) where
  /-- `yield (e1, e2, ip)` -/
  | pair (e1 e2 : Ev D) (ip : Slot)
  /-- `logger.error("Should be unreachable, skipping period")` -/
  | unreachable
deriving Repr

/-- the `while e1_i < len(events1) and e2_i < len(events2)` loop of `_intersecting_eventpairs`
    (the arguments are `events1[e1_i:]` and `events2[e2_i:]`) -/
def sweep : List (Ev D) → List (Ev D) → List (Step D)
  | [], _ => []
  | _ :: _, [] => []
  | e1 :: r1, e2 :: r2 =>
    match (period e1).intersection (period e2) with
    | some ip =>
      .pair e1 e2 ip ::
        (if (period e1).e ≤ (period e2).e then sweep r1 (e2 :: r2) else sweep (e1 :: r1) r2)
    | none =>
      if (period e1).e ≤ (period e2).s then sweep r1 (e2 :: r2)
      else if (period e2).e ≤ (period e1).s then sweep (e1 :: r1) r2
      else .unreachable :: sweep r1 r2
termination_by l1 l2 => l1.length + l2.length

/-- `_intersecting_eventpairs(events1, events2)`: two in-place stable sorts by timestamp, then the
    loop -/
def eventpairs (events1 events2 : List (Ev D)) : List (Step D) :=
  sweep (sortBy (·.ts) events1) (sortBy (·.ts) events2)

/-- everything `filter_period_intersect` makes the generator do: `sorted(events)`,
    `sorted(filterevents)` (`Event.__lt__` compares timestamps), then `_intersecting_eventpairs` -/
def isectSteps (events filterevents : List (Ev D)) : List (Step D) :=
  eventpairs (sortBy (·.ts) events) (sortBy (·.ts) filterevents)

/-- the list comprehension of `filter_period_intersect` over what the generator yields -/
def pieces : List (Step D) → List (Ev D)
  | [] => []
  | .pair e1 _ ip :: r => replacePeriod e1 ip :: pieces r
  | .unreachable :: r => pieces r

/-- how often the "Should be unreachable" line was logged -/
def unreachableCount : List (Step D) → Nat
  | [] => 0
  | .pair _ _ _ :: r => unreachableCount r
  | .unreachable :: r => unreachableCount r + 1

/-- `filter_period_intersect(events, filterevents)` -/
def isect (events filterevents : List (Ev D)) : List (Ev D) :=
  pieces (isectSteps events filterevents)

/-- the `for e in events` loop of `period_union`; `last` is `merged_events[-1]`, `done` is
    `merged_events[:-1]` reversed -/
def unionLoop (last : Ev D) (done : List (Ev D)) : List (Ev D) → Except String (List (Ev D))
  | [] => .ok (last :: done).reverse
  | e :: es =>
    let e_p := period e
    let le_p := period last
    match e_p.gap le_p with
    | none =>
      match e_p.union le_p with
      | .ok new_period => unionLoop (replacePeriod last new_period) done es
      | .error x => .error x
    | some _ => unionLoop e (last :: done) es

/-- `period_union(events1, events2)`; `empty` is the value `{}` the data is cleared to -/
def periodUnion (empty : D) (events1 events2 : List (Ev D)) : Except String (List (Ev D)) :=
  match sortBy (·.ts) (events1 ++ events2) with
  | [] => .ok []
  | e0 :: es =>
    match unionLoop e0 [] es with
    | .ok merged => .ok (merged.map fun ev => { ev with data := empty })
    | .error x => .error x

end Aw.Intersect
