import AwModel.Basic
/-!
# aw_transform/heartbeats.py

`merge` follows the nested conditions of `heartbeat_merge` in source order;
`reduce` is the loop of `heartbeat_reduce` with `reduced` kept reversed.
`pt` is the µs value of `timedelta(seconds=pulsetime)`.
-/
namespace Aw.Heartbeat
open Aw
variable {D : Type} [DecidableEq D]

/-- `heartbeat_merge(last_event, heartbeat, pulsetime)`; the id (like every other dict entry of
    `last_event`) is kept because the source mutates and returns `last_event`. -/
def merge (pt : Int) (last hb : Ev D) : Option (Ev D) :=
  if last.data = hb.data then
    -- pulseperiod_end = last.timestamp + last.duration + pulsetime
    if last.ts ≤ hb.ts ∧ hb.ts ≤ last.ts + last.dur + pt then
      if last.dur < 0 then none
      else some { last with dur := max last.dur ((hb.ts - last.ts) + hb.dur) }
    else none
  else none

/-- loop of `heartbeat_reduce`; `acc` is `reduced` reversed (head = `reduced[-1]`). -/
def reduceAux (pt : Int) : List (Ev D) → List (Ev D) → List (Ev D)
  | acc, [] => acc.reverse
  | [], e :: es => reduceAux pt [e] es
  | l :: acc, e :: es =>
    match merge pt l e with
    | some m => reduceAux pt (m :: acc) es
    | none => reduceAux pt (e :: l :: acc) es

/-- `heartbeat_reduce(events, pulsetime)` -/
def reduce (pt : Int) (l : List (Ev D)) : List (Ev D) := reduceAux pt [] l

end Aw.Heartbeat
