import AwModel.Basic
/-!
# `aw_transform/union_no_overlap.py` (after the repair of F14: the four-case loop body)

`unov l1 l2` is the `while e1_i < len(events1) and e2_i < len(events2)` loop followed by the two
`events_union += …[i:]` statements. The indices are modelled by the remaining suffixes of the two
(deep-copied) lists; `events2[e2_i] = e2_tail` replaces the head of the second suffix. Every output
event is tagged with its origin (`true` = list one); the Python result is `(unov l1 l2).map (·.2)`.

`Event.timestamp`'s setter floors the instant to whole milliseconds (`_timestamp_parse`), durations
are kept to the microsecond; `_split_event` assigns `e2.timestamp = dt`, so the tail starts at
`msFloor dt` (and keeps the duration computed from the unfloored `dt`). That is modelled here.

The loop is a total function for **all** integer inputs (unsorted lists, negative durations,
instants that are not whole milliseconds): well-founded recursion on the lexicographic measure
(number of remaining events, µs from the start of head one to the end of head two, phase 0..2 of
the two heads). Core Lean only (linked into the driver).
-/
namespace Aw.Unov
variable {D : Type}

/-- `ts.replace(microsecond=int(ts.microsecond / 1000) * 1000)` on µs since the epoch
    (the `microsecond` field is in 0..999999 also before 1970, so this is the floor) -/
def msFloor (t : Int) : Int := t - t % 1000

theorem msFloor_le (t : Int) : msFloor t ≤ t := by unfold msFloor; omega

theorem msFloor_of_dvd {t : Int} (h : 1000 ∣ t) : msFloor t = t := by unfold msFloor; omega

/-- `_split_event(e, dt)`: two deep copies cut at `dt` when `dt` is strictly inside `e`,
    otherwise `(e, None)` -/
def splitEvent (e : Ev D) (dt : Int) : Ev D × Option (Ev D) :=
  if e.ts < dt ∧ dt < e.ts + e.dur then
    ({ e with dur := dt - e.ts }, some { e with ts := msFloor dt, dur := (e.ts + e.dur) - dt })
  else (e, none)

theorem splitEvent_inside (e : Ev D) (dt : Int) (h1 : e.ts < dt) (h2 : dt < e.ts + e.dur) :
    splitEvent e dt =
      ({ e with dur := dt - e.ts }, some { e with ts := msFloor dt, dur := (e.ts + e.dur) - dt }) := by
  simp [splitEvent, h1, h2]

theorem splitEvent_outside (e : Ev D) (dt : Int) (h : ¬ (e.ts < dt ∧ dt < e.ts + e.dur)) :
    splitEvent e dt = (e, none) := by
  simp [splitEvent, h]

/-- the second component is `some` exactly when `dt` is strictly inside, and then it starts at `dt` -/
theorem splitEvent_some {e : Ev D} {dt : Int} {hd t : Ev D} (h : splitEvent e dt = (hd, some t)) :
    e.ts < dt ∧ dt < e.ts + e.dur ∧ hd = { e with dur := dt - e.ts } ∧
      t = { e with ts := msFloor dt, dur := (e.ts + e.dur) - dt } := by
  unfold splitEvent at h
  split at h
  · rename_i hc
    simp only [Prod.mk.injEq, Option.some.injEq] at h
    exact ⟨hc.1, hc.2, h.1.symm, h.2.symm⟩
  · simp at h

theorem splitEvent_none {e : Ev D} {dt : Int} {hd : Ev D} (h : splitEvent e dt = (hd, none)) :
    ¬ (e.ts < dt ∧ dt < e.ts + e.dur) ∧ hd = e := by
  unfold splitEvent at h
  split at h
  · simp at h
  · rename_i hc
    simp only [Prod.mk.injEq] at h
    exact ⟨hc, h.1.symm⟩

/-- position of the two heads relative to each other: 2 = `e2` starts before `e1`,
    1 = `e2` starts inside `e1` (or at its start), 0 = `e2` starts at or after the end of `e1` -/
def phase (e1 e2 : Ev D) : Nat :=
  if e2.ts < e1.ts then 2 else if e2.ts < e1.ts + e1.dur then 1 else 0

/-- second component of the termination measure: µs from the start of head one to the end of
    head two (0 when negative or when a list is empty) -/
def reach : List (Ev D) → List (Ev D) → Nat
  | e1 :: _, e2 :: _ => (e2.ts + e2.dur - e1.ts).toNat
  | _, _ => 0

/-- third component of the termination measure -/
def headPhase : List (Ev D) → List (Ev D) → Nat
  | e1 :: _, e2 :: _ => phase e1 e2
  | _, _ => 0

/-- the termination measure of the loop, ordered lexicographically -/
def measure (l1 l2 : List (Ev D)) : Nat × Nat × Nat :=
  (l1.length + l2.length, reach l1 l2, headPhase l1 l2)

/-- The repaired `union_no_overlap` loop (plus the two trailing `+=`), output tagged with origin.

Case 3 executes `events2[e2_i] = e2_tail` without testing `e2_tail`; the branch conditions
(`e2.ts < e1.ts` and not `e2_end <= e1.ts`) make the split point strictly inside `e2`, so
`e2_tail` is never `None` there: the `none` arm is closed by that proof (no error value needed). -/
def unov : List (Ev D) → List (Ev D) → List (Bool × Ev D)
  | [], l2 => l2.map (fun e => (false, e))
  | e1 :: r1, [] => (e1 :: r1).map (fun e => (true, e))
  | e1 :: r1, e2 :: r2 =>
    if h1 : e2.ts + e2.dur ≤ e1.ts then
      -- e2 lies entirely before e1
      (false, e2) :: unov (e1 :: r1) r2
    else if e1.ts + e1.dur ≤ e2.ts then
      -- e1 lies entirely before e2
      (true, e1) :: unov r1 (e2 :: r2)
    else if h3 : e2.ts < e1.ts then
      -- e2 starts first and reaches into e1: emit the part before e1, keep the tail
      match hs : splitEvent e2 e1.ts with
      | (hd, some t) => (false, hd) :: unov (e1 :: r1) (t :: r2)
      | (_, none) => absurd (splitEvent_none hs).1 (by simp only [Decidable.not_not]; omega)
    else
      -- e2 starts within e1: drop the covered part; if e2 reaches past e1, e1 is done
      match splitEvent e2 (e1.ts + e1.dur) with
      | (_, some t) => (true, e1) :: unov r1 (t :: r2)
      | (_, none) => unov (e1 :: r1) r2
termination_by l1 l2 => measure l1 l2
decreasing_by
  · simp_wf; simp [measure, Prod.lex_def]
  · simp_wf; simp [measure, Prod.lex_def]
  · have hsp := splitEvent_some hs
    simp_wf
    simp only [measure, Prod.lex_def, reach, headPhase, phase, hsp.2.2.2, msFloor]
    refine Or.inr ⟨rfl, ?_⟩
    by_cases hm : e1.ts % 1000 = 0
    · refine Or.inr ⟨by simp only [hm]; omega, ?_⟩
      simp only [hm, h3, if_true]
      split
      · omega
      · split <;> omega
    · exact Or.inl (by omega)
  · simp_wf; simp [measure, Prod.lex_def]
  · simp_wf; simp [measure, Prod.lex_def]

/-- the loop with an explicit iteration budget (structural recursion on the budget): `none` when
    the budget runs out before the `while` condition becomes false (or if case 3 met a `None`
    tail, which cannot happen) -/
def unovFuel : Nat → List (Ev D) → List (Ev D) → Option (List (Bool × Ev D))
  | _, [], l2 => some (l2.map (fun e => (false, e)))
  | _, e1 :: r1, [] => some ((e1 :: r1).map (fun e => (true, e)))
  | 0, _ :: _, _ :: _ => none
  | n + 1, e1 :: r1, e2 :: r2 =>
    if e2.ts + e2.dur ≤ e1.ts then
      (unovFuel n (e1 :: r1) r2).map ((false, e2) :: ·)
    else if e1.ts + e1.dur ≤ e2.ts then
      (unovFuel n r1 (e2 :: r2)).map ((true, e1) :: ·)
    else if e2.ts < e1.ts then
      match splitEvent e2 e1.ts with
      | (hd, some t) => (unovFuel n (e1 :: r1) (t :: r2)).map ((false, hd) :: ·)
      | (_, none) => none
    else
      match splitEvent e2 (e1.ts + e1.dur) with
      | (_, some t) => (unovFuel n r1 (t :: r2)).map ((true, e1) :: ·)
      | (_, none) => unovFuel n (e1 :: r1) r2

end Aw.Unov
