import AwModel.Store.Sqlite
/-!
# Lazy commit of `SqliteStorage` (C06, C18)

`cur` is what the storage's own connection sees (every statement executed so far), `dur` what a
reopened database would hold (the last committed state). `n` is `num_uncommitted_statements`,
`last` the clock reading stored in `last_commit`, `pend` the clock readings at which the still
uncommitted event-write statements were issued (newest first), `txn` whether a transaction is open
(Python's sqlite3 opens one implicitly before the first INSERT/UPDATE/DELETE; `commit()` without an
open transaction issues no COMMIT), `log` the ghost list of states committed so far (newest first).
Every operation takes the clock reading `now` (µs) that `datetime.now()` returns while it runs.
-/
namespace Aw.Store.Commit
open Aw Aw.Store

structure CSt (D : Type) where
  cur : Sqlite.St D := {}
  dur : Sqlite.St D := {}
  n : Nat := 0
  last : Int := 0
  pend : List Int := []
  txn : Bool := false
  lazy : Bool := true
  log : List (Sqlite.St D) := []

variable {D : Type}

def tenSeconds : Int := 10000000

/-- `commit()` -/
def commit (c : CSt D) (now : Int) : CSt D :=
  { c with dur := c.cur, n := 0, last := now, pend := [], txn := false,
           log := if c.txn then c.cur :: c.log else c.log }

/-- `conditional_commit(k)` (age test as repaired, F1: `now - last_commit > 10 s`) -/
def condCommit (c : CSt D) (k : Nat) (now : Int) : CSt D :=
  if c.lazy then
    let c1 := { c with n := c.n + k }
    let c2 := if c1.n > 50 then commit c1 now else c1
    if now - c2.last > tenSeconds then commit c2 now else c2
  else commit c now

/-- an event-write statement was executed on the connection at clock `now` -/
def wrote (c : CSt D) (s : Sqlite.St D) (now : Int) : CSt D :=
  { c with cur := s, pend := now :: c.pend, txn := true }

/-- a bucket-table statement was executed -/
def wroteB (c : CSt D) (s : Sqlite.St D) : CSt D := { c with cur := s, txn := true }

def insertOne (c : CSt D) (now : Int) (b : String) (e : Ev D) : Except Err (CSt D × Int) × CSt D :=
  match Sqlite.insertOne c.cur b e with
  | .error x => (.error x, { c with txn := true })   -- the failed INSERT still opened a transaction
  | .ok (s, i) => let c' := condCommit (wrote c s now) 1 now; (.ok (c', i), c')

def replace (c : CSt D) (now : Int) (b : String) (i : Int) (e : Ev D) : CSt D :=
  condCommit (wrote c (Sqlite.replace c.cur b i e) now) 1 now

def replaceLast (c : CSt D) (now : Int) (b : String) (e : Ev D) : CSt D :=
  condCommit (wrote c (Sqlite.replaceLast c.cur b e) now) 1 now

/-- `delete` (repaired, F2: counts and conditionally commits like the other event writes) -/
def delete (c : CSt D) (now : Int) (b : String) (i : Int) : CSt D × Bool :=
  let (s, r) := Sqlite.delete c.cur b i
  (condCommit (wrote c s now) 1 now, r)

/-- rows of the bulk INSERT, one elementary write each -/
def insertRows (c : CSt D) (now : Int) (b : String) : List (Ev D) → Except Err (CSt D) × CSt D
  | [] => (.ok c, c)
  | e :: es => match Sqlite.insertOne c.cur b e with
    | .error x => (.error x, { c with txn := true })
    | .ok (s, _) => insertRows (wrote c s now) now b es

/-- the UPDATE statements of the upserts of `insert_many`, one elementary write each (no commit
    decision is taken between them) -/
def upsertRows (c : CSt D) (now : Int) (b : String) : List (Ev D) → CSt D
  | [] => c
  | e :: es => upsertRows (wrote c (Sqlite.replace c.cur b (e.id.getD 0) e) now) now b es

/-- `insert_many` (as repaired, F20): the upserts, then the id-less events as one `executemany`, then ONE
    `conditional_commit` counting every statement of the call -/
def insertMany (c : CSt D) (now : Int) (b : String) (es : List (Ev D)) : Except Err (CSt D) × CSt D :=
  let ups := es.filter (fun e => e.id.isSome)
  let c1 := upsertRows c now b ups
  let rows := es.filter (fun e => e.id.isNone)
  match insertRows c1 now b rows with
  | (.error x, _) =>
    -- the bulk INSERT raises only when the bucket does not exist (NOT NULL bucketrow); the UPDATEs
    -- before it then matched no row, so nothing was written and nothing is counted: only a
    -- transaction is open (`AwProofs.CommitL.failed_bulk_literal` relates this to the literal
    -- statement sequence)
    (.error x, { c with txn := true })
  | (.ok c2, _) =>
    let c3 := condCommit c2 (ups.length + rows.length) now
    (.ok c3, c3)

def createBucket (c : CSt D) (now : Int) (b : String) (m : Meta) : Except Err (CSt D) × CSt D :=
  match Sqlite.createBucket c.cur b m with
  | .error x => (.error x, { c with txn := true })
  | .ok s => let c' := commit (wroteB c s) now; (.ok c', c')

/-- `update_bucket`: with no field nothing is executed; otherwise UPDATE, commit, then the
    `get_metadata` that may raise -/
def updateBucket (c : CSt D) (now : Int) (b : String) (u : Upd) : Except Err (CSt D) × CSt D :=
  if u.isEmpty then (.error .valueError, c) else
  match Sqlite.updateBucket c.cur b u with
  | .error x => let c' := commit { c with txn := true } now; (.error x, c')
  | .ok s => let c' := commit (wroteB c s) now; (.ok c', c')

def deleteBucket (c : CSt D) (now : Int) (b : String) : Except Err (CSt D) × CSt D :=
  match Sqlite.deleteBucket c.cur b with
  | .error x => let c' := commit { c with txn := true } now; (.error x, c')
  | .ok s => let c' := commit (wroteB c s) now; (.ok c', c')

/-- `get_event`, `get_events` (limit ≠ 0) and `get_eventcount` commit before they read -/
def readCommit (c : CSt D) (now : Int) : CSt D := commit c now

/-- number of event-write statements a crash would lose -/
def pending (c : CSt D) : Nat := c.pend.length

end Aw.Store.Commit
