import AwModel.Store.Sqlite
import AwModel.Store.Peewee
/-!
# aw_datastore/migration.py — `peewee_v2_to_sqlite_v1` (after the repair of F12)

For every bucket of the legacy store: `create_bucket` in the new store with all metadata incl. the
data dict, read all its events (`get_events(bucket_id, -1)`: timestamp descending), drop their ids
(the new database assigns its own), `insert_many`.
-/
namespace Aw.Store.Migrate
open Aw Aw.Store

variable {D : Type}

/-- one bucket of the migration loop -/
def migrateBucket (old : Peewee.St D) (acc : Except Err (Sqlite.St D)) (r : Peewee.BRow) :
    Except Err (Sqlite.St D) := do
  let s ← acc
  let s1 ← Sqlite.createBucket s r.bid r.md
  let evs ← Peewee.getEvents old r.bid (-1) none none
  Sqlite.insertMany s1 r.bid (evs.map (fun e => { e with id := none }))

/-- `peewee_v2_to_sqlite_v1(datastore)` -/
def migrate (old : Peewee.St D) (new : Sqlite.St D) : Except Err (Sqlite.St D) :=
  old.buckets.foldl (migrateBucket old) (.ok new)

/-! ## the legacy FILE (F27)

`PeeweeStorage.__init__` upgrades the schema of the file it opens: `auto_migrate` adds the `datastr`
column to a bucket table written before that column existed (every row then reads `"{}"`). Opening a
file that already has the column writes nothing (observed by hashing the file on every C14 run, not
modelled below the level of "has the column / content"). -/

/-- a legacy database file: does its bucket table have the `datastr` column, and what it holds -/
structure LegacyFile (D : Type) where
  hasDatastr : Bool
  content : Peewee.St D

/-- `PeeweeStorage(testing, filepath)` on a file: the file as it is afterwards -/
def openPeewee (f : LegacyFile D) : LegacyFile D := { f with hasDatastr := true }

/-- `check_for_migration` (repaired, F27): the legacy file is copied to a scratch directory, the legacy
    store opens the COPY and the migration reads from it. Result: the legacy file afterwards, and the
    new store. -/
def migrateFile (legacy : LegacyFile D) (new : Sqlite.St D) : LegacyFile D × Except Err (Sqlite.St D) :=
  let scratch := legacy                         -- shutil.copyfile(legacy_path, scratch_path)
  let opened := openPeewee scratch              -- PeeweeStorage(testing, filepath=scratch_path)
  (legacy, migrate opened.content new)

/-- before the repair the legacy store opened the legacy file itself -/
def migrateFilePinned (legacy : LegacyFile D) (new : Sqlite.St D) :
    LegacyFile D × Except Err (Sqlite.St D) :=
  let opened := openPeewee legacy
  (opened, migrate opened.content new)

/-- `check_for_migration` / `SqliteStorage.__init__`: the migration runs when the default database
    file is new and a legacy file `peewee-sqlite[-testing].v2.*` exists beside it -/
def legacyName (testing : Bool) : String := "peewee-sqlite" ++ (if testing then "-testing" else "")

/-- `filename.split(".")[0] == name and filename.split(".")[1] == "v2"` -/
def isLegacyFile (testing : Bool) (filename : String) : Bool :=
  match filename.splitOn "." with
  | n :: v :: _ => n == legacyName testing && v == "v2"
  | _ => false

def triggers (testing : Bool) (newDbFile : Bool) (customPath : Bool) (files : List String) : Bool :=
  newDbFile && !customPath && files.any (isLegacyFile testing)

end Aw.Store.Migrate
