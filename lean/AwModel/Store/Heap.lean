import AwModel.Store.Types
import AwModel.Store.Memory
import AwModel.PySort
/-!
# Object ownership in aw_datastore/storages/memory.py (C01, "the store owns its copy")

`Store/Memory.lean` models the memory backend on *values*. This file models the Python objects
behind those values, to decide whether the store shares mutable objects with its client.

* A heap maps references (`Ref := Nat`) to cells. An `Event` object has the fields `id`,
  `timestamp`, `duration` (immutable values) and a reference `dataRef` to its `data` dict. A
  metadata dict has its scalar entries and a reference to its `"data"` dict. A data dict with
  everything nested below it is ONE cell holding its canonical text: an in-place mutation anywhere
  inside it (top level or nested) changes the text of that cell.
* `copy.copy(event)` allocates a new event object with the same `dataRef`; `copy.deepcopy`
  allocates a new data cell as well.
* The store holds, per bucket, the reference of its metadata object and the list of references of
  its event objects (`self._metadata[b]`, `self.db[b]`).
* `client r` says that the client holds object `r`: it created it or was handed it by an API
  call. The client may pass held objects to the API (`api`) and may mutate held objects between
  calls (`mutate`).

Every API function follows the source after the repair of F8 (`deep := true`); `deep := false`
is the pinned `insert_one`, which appended the shallow copy it returns.

`observe` is everything reads can return, by value: it has the type of the value model's state
(`Memory.St String`).

Not modelled: the `"id"` entry of the metadata dict (a string, immutable), the order in which
`replace` visits positions (it allocates one deep copy per matching position either way).
-/
namespace Aw.Store.Heap
open Aw Aw.Store

abbrev Ref := Nat

/-- an `aw_core.models.Event` object -/
structure EvObj where
  id : Option Int
  ts : Int
  dur : Int
  dataRef : Ref
deriving DecidableEq, Repr

/-- a bucket metadata dict (`{"id","name","type","client","hostname","created","data"}`) -/
structure MetaObj where
  name : Option String
  type : String
  client : String
  hostname : String
  created : String
  dataRef : Ref
deriving DecidableEq, Repr

inductive Cell
  | ev (o : EvObj)
  | mdict (o : MetaObj)
  | dict (text : String)
deriving DecidableEq, Repr

structure State where
  heap : Ref → Option Cell := fun _ => none
  /-- every allocated reference is `< next` -/
  next : Ref := 0
  /-- bucket id ↦ (metadata object, event objects in list order), in dict insertion order -/
  store : List (String × (Ref × List Ref)) := []
  /-- objects the client holds -/
  client : Ref → Bool := fun _ => false

/-! ## heap primitives -/

def alloc (s : State) (c : Cell) : State × Ref :=
  ({ s with heap := fun r => if r = s.next then some c else s.heap r, next := s.next + 1 }, s.next)

/-- overwrite a cell in place -/
def write (s : State) (r : Ref) (c : Cell) : State :=
  { s with heap := fun x => if x = r then some c else s.heap x }

/-- the client gets hold of `r` -/
def hold (s : State) (r : Ref) : State :=
  { s with client := fun x => decide (x = r) || s.client x }

def evAt (s : State) (r : Ref) : Option EvObj :=
  match s.heap r with | some (.ev o) => some o | _ => none

def metaAt (s : State) (r : Ref) : Option MetaObj :=
  match s.heap r with | some (.mdict o) => some o | _ => none

/-- canonical text of the dict at `r` -/
def textAt (s : State) (r : Ref) : String :=
  match s.heap r with | some (.dict t) => t | _ => "{}"

/-- `copy.deepcopy` of an event whose fields are `o`: a new data cell and a new event object.
    The new event is at the returned reference, its data cell at the reference before it. -/
def deepEv (s : State) (o : EvObj) : State × Ref :=
  let (s1, d) := alloc s (.dict (textAt s o.dataRef))
  alloc s1 (.ev { o with dataRef := d })

/-- `copy.deepcopy` of a metadata dict -/
def deepMeta (s : State) (o : MetaObj) : State × Ref :=
  let (s1, d) := alloc s (.dict (textAt s o.dataRef))
  alloc s1 (.mdict { o with dataRef := d })

/-- allocate an object the client holds from the start -/
def allocHeld (s : State) (c : Cell) : State × Ref :=
  let (s1, r) := alloc s c
  (hold s1 r, r)

/-- a deep copy handed to the client (it holds the event and its data dict) -/
def handOutEv (s : State) (o : EvObj) : State × Ref :=
  let (s1, d) := allocHeld s (.dict (textAt s o.dataRef))
  allocHeld s1 (.ev { o with dataRef := d })

def handOutMeta (s : State) (o : MetaObj) : State × Ref :=
  let (s1, d) := allocHeld s (.dict (textAt s o.dataRef))
  allocHeld s1 (.mdict { o with dataRef := d })

/-! ## the store dict -/

abbrev Store := List (String × (Ref × List Ref))

def lookup (st : Store) (b : String) : Option (Ref × List Ref) :=
  (st.find? (fun p => p.1 = b)).map (·.2)

/-- `d[b] = v`: replace in place or append -/
def setKey (st : Store) (b : String) (v : Ref × List Ref) : Store :=
  if st.any (fun p => p.1 = b) then st.map (fun p => if p.1 = b then (b, v) else p) else st ++ [(b, v)]

/-! ## results -/

inductive Res
  | unit
  | ref (r : Ref)
  | optRef (o : Option Ref)
  | refs (l : List Ref)
  | named (l : List (String × Ref))
  | bool (b : Bool)
  | err (e : Err)
deriving DecidableEq, Repr

/-! ## buckets -/

/-- an optional dict argument is one the client holds -/
def heldOpt (s : State) : Option Ref → Bool
  | some d => s.client d
  | none => true

/-- `create_bucket(b, type, client, hostname, created, name, data)`; `m.data` is not used: the
    dict is passed by reference (`data`, `none` = not supplied). Stores
    `copy.deepcopy(data) if data else {}` — a fresh cell in both cases. -/
def createBucket (s : State) (b : String) (m : Meta) (data : Option Ref) : State × Res :=
  if !heldOpt s data then (s, .err .attributeError) else
  let t := match data with | some d => textAt s d | none => "{}"
  let (s1, d') := alloc s (.dict t)
  let (s2, mr) := alloc s1 (.mdict
    { name := match Memory.truthy m.name with | some n => some n | none => some b
      type := m.type, client := m.client, hostname := m.hostname, created := m.created, dataRef := d' })
  ({ s2 with store := setKey s.store b (mr, []) }, .unit)

/-- the scalar part of `update_bucket`: only truthy arguments are written -/
def applyUpd (u : Upd) (mo : MetaObj) : MetaObj :=
  { mo with
    type := (Memory.truthy u.type).getD mo.type
    client := (Memory.truthy u.client).getD mo.client
    hostname := (Memory.truthy u.hostname).getD mo.hostname
    name := match Memory.truthy u.name with | some n => some n | none => mo.name }

/-- `update_bucket`: truthy scalars are written into the stored dict in place; a truthy `data`
    dict is deep-copied (`u.data` is not used: the dict is passed by reference) -/
def updateBucket (s : State) (b : String) (u : Upd) (data : Option Ref) : State × Res :=
  if !heldOpt s data then (s, .err .attributeError) else
  match lookup s.store b with
  | none => (s, .err .valueError)
  | some (mr, _) =>
    match metaAt s mr with
    | none => (s, .err .attributeError)
    | some mo =>
      match data with
      | none => (write s mr (.mdict (applyUpd u mo)), .unit)
      | some d =>
        if textAt s d = "{}" then (write s mr (.mdict (applyUpd u mo)), .unit) else
        let (s1, d') := alloc s (.dict (textAt s d))
        (write s1 mr (.mdict { applyUpd u mo with dataRef := d' }), .unit)

def deleteBucket (s : State) (b : String) : State × Res :=
  match lookup s.store b with
  | none => (s, .err .valueError)
  | some _ => ({ s with store := s.store.filter (fun p => p.1 ≠ b) }, .unit)

/-- `get_metadata`: a deep copy -/
def getMetadata (s : State) (b : String) : State × Res :=
  match lookup s.store b with
  | none => (s, .err .valueError)
  | some (mr, _) =>
    match metaAt s mr with
    | none => (s, .err .attributeError)
    | some mo => let (s1, r) := handOutMeta s mo; (s1, .ref r)

/-- deep copies of the metadata objects `l`, in order -/
def handOutMetas : State → List (String × Ref) → State × List (String × Ref)
  | s, [] => (s, [])
  | s, (b, mr) :: rest =>
    match metaAt s mr with
    | none => handOutMetas s rest
    | some mo =>
      let (s1, r) := handOutMeta s mo
      let (s2, rs) := handOutMetas s1 rest
      (s2, (b, r) :: rs)

/-- `buckets()`: a deep copy of every bucket's metadata -/
def bucketsOf (s : State) : State × Res :=
  let (s1, l) := handOutMetas s (s.store.map (fun p => (p.1, p.2.1)))
  (s1, .named l)

/-! ## events -/

def idOf (s : State) (r : Ref) : Option Int := (evAt s r).bind (·.id)
def tsOf (s : State) (r : Ref) : Int := ((evAt s r).map (·.ts)).getD 0
def durOf (s : State) (r : Ref) : Int := ((evAt s r).map (·.dur)).getD 0

/-- `max(int(e.id or 0) for e in db) + 1`, or 0 for an empty bucket -/
def nextId (s : State) : List Ref → Int
  | [] => 0
  | evs => (evs.foldl (fun acc r => max acc ((idOf s r).getD 0)) 0) + 1

/-- the loop of `replace`: every position whose event has id `eid` is overwritten with its own
    deep copy of the passed event, `id` set to `eid` -/
def replaceRefs (eid : Option Int) (o : EvObj) : State → List Ref → State × List Ref
  | s, [] => (s, [])
  | s, r :: rs =>
    if idOf s r = eid then
      let (s1, r') := deepEv s { o with id := eid }
      let (s2, rs') := replaceRefs eid o s1 rs
      (s2, r' :: rs')
    else
      let (s2, rs') := replaceRefs eid o s rs
      (s2, r :: rs')

/-- `replace(bucket, event_id, event)` -/
def replace (s : State) (b : String) (eid : Option Int) (r : Ref) : State × Res :=
  if !s.client r then (s, .err .attributeError) else
  match evAt s r with
  | none => (s, .err .attributeError)
  | some o =>
    match lookup s.store b with
    | none => (s, .err .keyError)
    | some (mr, evs) =>
      let (s1, evs') := replaceRefs eid o s evs
      ({ s1 with store := setKey s.store b (mr, evs') }, .unit)

/-- `insert_one`. An event carrying an id is a `replace` and the passed object itself is returned.
    Otherwise `event = copy.copy(event)`, the id is set on the copy, a deep copy of it is appended
    (`deep = true`, the repaired code) or the copy itself (`deep = false`, the pinned code), and
    the copy is returned. -/
def insertOneWith (deep : Bool) (s : State) (b : String) (r : Ref) : State × Res :=
  if !s.client r then (s, .err .attributeError) else
  match evAt s r with
  | none => (s, .err .attributeError)
  | some o =>
    match o.id with
    | some eid =>
      match replace s b (some eid) r with
      | (s', .unit) => (s', .ref r)
      | x => x
    | none =>
      match lookup s.store b with
      | none => (s, .err .keyError)
      | some (mr, evs) =>
        let o' : EvObj := { o with id := some (nextId s evs) }
        let (s1, c) := allocHeld s (.ev o')
        if deep then
          let (s2, k) := deepEv s1 o'
          ({ s2 with store := setKey s.store b (mr, evs ++ [k]) }, .ref c)
        else
          ({ s1 with store := setKey s.store b (mr, evs ++ [c]) }, .ref c)

def insertOne (s : State) (b : String) (r : Ref) : State × Res := insertOneWith true s b r

/-- `insert_many` (inherited): `insert_one` in order; an error leaves the earlier ones in place -/
def insertMany (s : State) (b : String) : List Ref → State × Res
  | [] => (s, .unit)
  | r :: rs =>
    match insertOne s b r with
    | (s', .err e) => (s', .err e)
    | (s', _) => insertMany s' b rs

/-- `sorted(db, key=timestamp)[-1]` -/
def newest (s : State) (evs : List Ref) : Option Ref := (sortBy (tsOf s) evs).getLast?

/-- `replace_last`: IndexError on an empty bucket -/
def replaceLast (s : State) (b : String) (r : Ref) : State × Res :=
  match lookup s.store b with
  | none => (s, .err .keyError)
  | some (_, evs) =>
    match newest s evs with
    | none => (s, .err .indexError)
    | some l => replace s b (idOf s l) r

/-- remove the last position holding `eid` -/
def removeLast (s : State) (evs : List Ref) (eid : Int) : List Ref × Bool :=
  let r := evs.reverse
  match r.findIdx? (fun x => idOf s x = some eid) with
  | none => (evs, false)
  | some i => ((r.eraseIdx i).reverse, true)

def delete (s : State) (b : String) (eid : Int) : State × Res :=
  match lookup s.store b with
  | none => (s, .err .keyError)
  | some (mr, evs) =>
    let (evs', ok) := removeLast s evs eid
    ({ s with store := setKey s.store b (mr, evs') }, .bool ok)

/-- `get_event`: a deep copy of the last position holding `eid`, or `None` -/
def getEvent (s : State) (b : String) (eid : Int) : State × Res :=
  match lookup s.store b with
  | none => (s, .err .keyError)
  | some (_, evs) =>
    match evs.reverse.find? (fun x => idOf s x = some eid) with
    | none => (s, .optRef none)
    | some x =>
      match evAt s x with
      | none => (s, .optRef none)
      | some o => let (s1, r) := handOutEv s o; (s1, .optRef (some r))

/-- deep copies of the events `l`, in order -/
def handOutEvs : State → List Ref → State × List Ref
  | s, [] => (s, [])
  | s, x :: rest =>
    match evAt s x with
    | none => handOutEvs s rest
    | some o =>
      let (s1, r) := handOutEv s o
      let (s2, rs) := handOutEvs s1 rest
      (s2, r :: rs)

/-- `get_events`: stable sort by timestamp, reversed, filtered, limited, then `copy.deepcopy` -/
def getEvents (s : State) (b : String) (limit : Int) (st en : Option Int) : State × Res :=
  match lookup s.store b with
  | none => (s, .err .keyError)
  | some (_, evs) =>
    let l := (sortBy (tsOf s) evs).reverse
    let l := match st with | some a => l.filter (fun x => decide (a ≤ tsOf s x + durOf s x)) | none => l
    let l := match en with | some z => l.filter (fun x => decide (tsOf s x ≤ z)) | none => l
    let (s1, rs) := handOutEvs s (applyLimit limit l)
    (s1, .refs rs)

/-! ## the API as one step function -/

inductive Api
  | createBucket (b : String) (m : Meta) (data : Option Ref)
  | updateBucket (b : String) (u : Upd) (data : Option Ref)
  | deleteBucket (b : String)
  | getMetadata (b : String)
  | buckets
  | insertOne (b : String) (r : Ref)
  | insertMany (b : String) (rs : List Ref)
  | replace (b : String) (eid : Option Int) (r : Ref)
  | replaceLast (b : String) (r : Ref)
  | delete (b : String) (eid : Int)
  | getEvent (b : String) (eid : Int)
  | getEvents (b : String) (limit : Int) (st en : Option Int)
deriving Repr

def api (s : State) : Api → State × Res
  | .createBucket b m d => createBucket s b m d
  | .updateBucket b u d => updateBucket s b u d
  | .deleteBucket b => deleteBucket s b
  | .getMetadata b => getMetadata s b
  | .buckets => bucketsOf s
  | .insertOne b r => insertOne s b r
  | .insertMany b rs => insertMany s b rs
  | .replace b eid r => replace s b eid r
  | .replaceLast b r => replaceLast s b r
  | .delete b eid => delete s b eid
  | .getEvent b eid => getEvent s b eid
  | .getEvents b l st en => getEvents s b l st en

/-! ## what the client can do between API calls -/

inductive Mut
  /-- `Event(id, timestamp, duration, data)` with a new data dict -/
  | newEvent (id : Option Int) (ts dur : Int) (text : String)
  /-- a new dict (to be passed to create/update, or assigned to an event's `data`) -/
  | newDict (text : String)
  | setId (r : Ref) (v : Option Int)
  | setTs (r : Ref) (v : Int)
  | setDur (r : Ref) (v : Int)
  /-- `e.data = d` / `m["data"] = d` for a held dict `d` -/
  | setDataRef (r d : Ref)
  /-- any in-place mutation of the dict `r` (at any depth): its text becomes `text` -/
  | setDict (r : Ref) (text : String)
  /-- overwrite the scalar entries of a held metadata dict -/
  | setMeta (r : Ref) (name : Option String) (type client hostname created : String)
deriving Repr

/-- the objects the mutation touches are held by the client -/
def Mut.held (s : State) : Mut → Bool
  | .newEvent .. => true
  | .newDict _ => true
  | .setId r _ => s.client r
  | .setTs r _ => s.client r
  | .setDur r _ => s.client r
  | .setDataRef r d => s.client r && s.client d
  | .setDict r _ => s.client r
  | .setMeta r .. => s.client r

def mutate (s : State) : Mut → State
  | .newEvent id ts dur text =>
    let (s1, d) := allocHeld s (.dict text)
    (allocHeld s1 (.ev ⟨id, ts, dur, d⟩)).1
  | .newDict text => (allocHeld s (.dict text)).1
  | .setId r v => match evAt s r with | some o => write s r (.ev { o with id := v }) | none => s
  | .setTs r v => match evAt s r with | some o => write s r (.ev { o with ts := v }) | none => s
  | .setDur r v => match evAt s r with | some o => write s r (.ev { o with dur := v }) | none => s
  | .setDataRef r d =>
    match s.heap r with
    | some (.ev o) => write s r (.ev { o with dataRef := d })
    | some (.mdict o) => write s r (.mdict { o with dataRef := d })
    | _ => s
  | .setDict r text => match s.heap r with | some (.dict _) => write s r (.dict text) | _ => s
  | .setMeta r name type client hostname created =>
    match metaAt s r with
    | some o => write s r (.mdict { o with name, type, client, hostname, created })
    | none => s

/-! ## traces -/

inductive Step
  | api (a : Api)
  | mutation (m : Mut)
deriving Repr

/-- one step of a trace; a mutation of an object the client does not hold is impossible -/
def step (s : State) : Step → State
  | .api a => (api s a).1
  | .mutation m => if m.held s then mutate s m else s

/-- any interleaving of API calls and client mutations from the initial state -/
inductive Reachable : State → Prop
  | init : Reachable {}
  | step {s : State} (st : Step) : Reachable s → Reachable (step s st)

/-! ## observation -/

def evVal (s : State) (r : Ref) : Ev String :=
  match evAt s r with
  | some o => { id := o.id, ts := o.ts, dur := o.dur, data := textAt s o.dataRef }
  | none => { id := none, ts := 0, dur := 0, data := "" }

def metaVal (s : State) (r : Ref) : Meta :=
  match metaAt s r with
  | some o => { name := o.name, type := o.type, client := o.client, hostname := o.hostname,
                created := o.created, data := textAt s o.dataRef }
  | none => default

/-- everything reads can return, by value: the state of the value model `Store/Memory.lean` -/
def observe (s : State) : Memory.St String :=
  s.store.map (fun p => (p.1, (metaVal s p.2.1, p.2.2.map (evVal s))))

end Aw.Store.Heap
