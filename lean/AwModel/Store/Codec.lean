import AwModel.Float64
import AwModel.Basic
/-!
# Row codecs of the file backends (C01)

* sqlite (after the repairs F9 and F24): `starttime`/`endtime` are exact integer microseconds, read
  back as `epoch + starttime µs` and `(endtime - starttime) µs` (integer arithmetic; no double is
  involved any more), then the `Event` constructor's millisecond floor.
* peewee: the timestamp text round trip is trusted to be the identity on ms-aligned UTC instants;
  the duration is stored as the double `total_seconds()` and read back through
  `timedelta(seconds=float)`.
-/
namespace Aw.Store.Codec
open Aw

def floorMs (t : Int) : Int := t - t % 1000

/-- what `_rows_to_events` makes of a sqlite row `(id, starttime, endtime, data)` -/
def sqliteDecode {D} (e : Ev D) : Ev D :=
  { e with ts := floorMs e.ts, dur := (e.ts + e.dur) - e.ts }

/-- duration written by peewee and read back -/
def peeweeDur (d : Int) : Int := Fl.tdOfSeconds (Fl.totalSeconds d)

def peeweeDecode {D} (e : Ev D) : Ev D := { e with dur := peeweeDur e.dur }

end Aw.Store.Codec
