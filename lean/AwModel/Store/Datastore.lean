import AwModel.Store.Types
/-!
# aw_datastore/datastore.py — the `Datastore` layer over a storage backend

`bucket_instances` caches the `Bucket` handles that were looked up. The layer is generic in the
backend: `listed s` are the bucket ids `buckets()` returns.
-/
namespace Aw.Store.Datastore
open Aw Aw.Store

structure DS (σ : Type) where
  st : σ
  cache : List String := []

variable {σ : Type}

/-- `Datastore.__getitem__`: a cached handle is returned as is; otherwise the bucket must be listed -/
def getitem (listed : σ → List String) (d : DS σ) (b : String) : Except Err (DS σ) :=
  if b ∈ d.cache then .ok d
  else if b ∈ listed d.st then .ok { d with cache := b :: d.cache }
  else .error .keyError

/-- `Datastore.create_bucket`: the storage call, then `self[bucket_id]` -/
def createBucket (listed : σ → List String) (create : σ → String → Meta → Except Err σ)
    (d : DS σ) (b : String) (m : Meta) : Except Err (DS σ) :=
  match create d.st b m with
  | .error e => .error e
  | .ok st' => getitem listed { d with st := st' } b

/-- `Datastore.delete_bucket`: the cached handle is dropped first, then the storage call (whose
    error propagates with the handle already dropped) -/
def deleteBucket (delete : σ → String → Except Err σ) (d : DS σ) (b : String) : DS σ × Option Err :=
  let d1 := { d with cache := d.cache.filter (· ≠ b) }
  match delete d1.st b with
  | .ok st' => ({ d1 with st := st' }, none)
  | .error e => (d1, some e)

/-- any storage operation issued through a handle or `update_bucket`: the cache is not involved -/
def onStore (f : σ → σ) (d : DS σ) : DS σ := { d with st := f d.st }

/-- the invariant of C05: every cached handle names a listed bucket -/
def Coherent (listed : σ → List String) (d : DS σ) : Prop := ∀ b ∈ d.cache, b ∈ listed d.st

end Aw.Store.Datastore
