import AwModel.Store.Types
import AwModel.PySort
/-!
# aw_datastore/storages/peewee.py

Tables `bucketmodel` (key INTEGER PRIMARY KEY: rowid alias, new key = max key + 1) and `eventmodel`
(id INTEGER PRIMARY KEY without AUTOINCREMENT: new id = max id of the whole table + 1), plus the
`bucket_keys` cache (bucket id ↦ key), refreshed by create/delete bucket. Every statement is
auto-committed. Durations are exact integer microseconds here; the float/Decimal codec is the subject
of C01 (`peewee_duration_roundtrip`).

SQL leaves the order among equal `timestamp`s unspecified: `replaceLast` and `getEvents` take the
order the database actually produced as a *hint* (ids in the order observed) and check that it is a
legal one.
-/
namespace Aw.Store.Peewee
open Aw Aw.Store

structure ERow (D : Type) where
  id : Int
  bucket : Int
  ts : Int
  dur : Int
  data : D
deriving DecidableEq, Repr

structure BRow where
  key : Int
  bid : String
  md : Meta
deriving DecidableEq, Repr

structure St (D : Type) where
  buckets : List BRow := []
  events : List (ERow D) := []
  keys : List (String × Int) := []      -- bucket_keys
deriving Repr

variable {D : Type}

def keyOf (s : St D) (b : String) : Option Int := (s.keys.find? (fun p => p.1 = b)).map (·.2)

def toEv (r : ERow D) : Ev D := { id := some r.id, ts := r.ts, dur := r.dur, data := r.data }

/-- `update_bucket_keys` -/
def refresh (s : St D) : St D := { s with keys := s.buckets.map (fun r => (r.bid, r.key)) }

def maxKey (l : List BRow) : Int := l.foldl (fun a r => max a r.key) 0
def maxId (l : List (ERow D)) : Int := l.foldl (fun a r => max a r.id) 0

def bucketsOf (s : St D) : List (String × Meta) := s.buckets.map (fun r => (r.bid, r.md))

/-- `create_bucket`: UNIQUE(id) -> IntegrityError; `datastr = json.dumps(data or {})` -/
def createBucket (s : St D) (b : String) (m : Meta) : Except Err (St D) :=
  if s.buckets.any (fun r => r.bid = b) then .error .integrity
  else .ok (refresh { s with buckets := s.buckets ++ [⟨maxKey s.buckets + 1, b, m⟩] })

/-- `update_bucket`: `BucketModel.get(key == cached key)` then `save()` -/
def updateBucket (s : St D) (b : String) (u : Upd) : Except Err (St D) :=
  match keyOf s b with
  | none => .error .valueError
  | some k =>
    if s.buckets.any (fun r => r.key = k) then
      .ok { s with buckets := s.buckets.map (fun r => if r.key = k then { r with md := u.apply r.md } else r) }
    else .error .doesNotExist

def deleteBucket (s : St D) (b : String) : Except Err (St D) :=
  match keyOf s b with
  | none => .error .valueError
  | some k =>
    .ok (refresh { s with events := s.events.filter (fun e => e.bucket ≠ k),
                          buckets := s.buckets.filter (fun r => r.key ≠ k) })

def getMetadata (s : St D) (b : String) : Except Err Meta :=
  match keyOf s b with
  | none => .error .valueError
  | some k => match s.buckets.find? (fun r => r.key = k) with
    | some r => .ok r.md
    | none => .error .doesNotExist

/-- `insert_one` (repaired, F5): an event carrying an id updates that event *of this bucket* in
    place (nothing happens when the bucket has no such event); otherwise INSERT -/
def insertOne (s : St D) (b : String) (e : Ev D) : Except Err (St D × Option Int) :=
  match keyOf s b with
  | none => .error .keyError
  | some k =>
    match e.id with
    | some eid =>
      .ok ({ s with events := s.events.map (fun row =>
              if row.id = eid ∧ row.bucket = k then { row with ts := e.ts, dur := e.dur, data := e.data } else row) },
           some eid)
    | none =>
      let i := maxId s.events + 1
      .ok ({ s with events := s.events ++ [⟨i, k, e.ts, e.dur, e.data⟩] }, some i)

/-- `insert_many`: upserts one by one, then the id-less events in chunks (one INSERT per chunk;
    ids are consecutive either way) -/
def insertMany (s : St D) (b : String) (es : List (Ev D)) : Except Err (St D) :=
  match keyOf s b with
  | none => if es.isEmpty then .ok s else .error .keyError
  | some _ =>
    let step := fun (acc : Except Err (St D)) (e : Ev D) =>
      match acc with
      | .error x => .error x
      | .ok s => (insertOne s b e).map (·.1)
    let s1 := (es.filter (fun e => e.id.isSome)).foldl step (.ok s)
    (es.filter (fun e => e.id.isNone)).foldl step s1

def getRow (s : St D) (b : String) (eid : Int) : Except Err (Option (ERow D)) :=
  match keyOf s b with
  | none => .error .keyError
  | some k => .ok (s.events.find? (fun row => row.id = eid ∧ row.bucket = k))

def getEvent (s : St D) (b : String) (eid : Int) : Except Err (Option (Ev D)) :=
  (getRow s b eid).map (fun o => o.map toEv)

/-- `replace`: `_get_event` returning None makes the attribute assignment raise AttributeError -/
def replace (s : St D) (b : String) (eid : Int) (e : Ev D) : Except Err (St D) :=
  match getRow s b eid with
  | .error x => .error x
  | .ok none => .error .attributeError
  | .ok (some t) =>
    .ok { s with events := s.events.map (fun row =>
            if row.id = t.id then { row with ts := e.ts, dur := e.dur, data := e.data } else row) }

def rowsOf (s : St D) (k : Int) : List (ERow D) := s.events.filter (fun e => e.bucket = k)

/-- is `t` a legal answer of `ORDER BY timestamp DESC LIMIT 1` over `rows`? -/
def isNewest (rows : List (ERow D)) (t : ERow D) : Bool :=
  rows.any (fun r => r.id = t.id) && rows.all (fun r => decide (r.ts ≤ t.ts))

/-- default choice among tied newest rows when no hint is given: lowest id (what SQLite does with
    the index on (timestamp) in practice; the harness always passes the observed id) -/
def defaultNewest (rows : List (ERow D)) : Option (ERow D) :=
  rows.find? (fun t => rows.all (fun r => decide (r.ts ≤ t.ts)))

/-- `replace_last`: `_get_last` raises DoesNotExist on an empty bucket. `hint` is the id of the
    row the database chose; an illegal hint yields `none` (reported as a model/implementation
    disagreement by the driver). -/
def replaceLast (s : St D) (b : String) (hint : Option Int) (e : Ev D) : Except Err (Option (St D × Int)) :=
  match keyOf s b with
  | none => .error .keyError
  | some k =>
    let rows := rowsOf s k
    if rows.isEmpty then .error .doesNotExist else
    let tgt := match hint with
      | some h => rows.find? (fun (r : ERow D) => r.id = h ∧ isNewest rows r)
      | none => defaultNewest rows
    match tgt with
    | none => .ok none
    | some t =>
      .ok (some ({ s with events := s.events.map (fun (row : ERow D) =>
            if row.id = t.id then { row with ts := e.ts, dur := e.dur, data := e.data } else row) }, t.id))

/-- `delete`: number of rows removed -/
def delete (s : St D) (b : String) (eid : Int) : Except Err (St D × Nat) :=
  match keyOf s b with
  | none => .error .keyError
  | some k =>
    .ok ({ s with events := s.events.filter (fun row => ¬ (row.id = eid ∧ row.bucket = k)) },
         (s.events.filter (fun row => row.id = eid ∧ row.bucket = k)).length)

/-- the rows selected by `_where_range` with exact arithmetic: 24 h prefilter and
    `starttime <= timestamp + duration`, `timestamp <= endtime` -/
def inRange (st en : Option Int) (r : ERow D) : Bool :=
  (match st with
   | some a => decide (a - 86400000000 ≤ r.ts) && decide (a ≤ r.ts + r.dur)
   | none => true) &&
  (match en with | some z => decide (r.ts ≤ z) | none => true)

/-- the clipping loop of `get_events` -/
def clip (st en : Option Int) (e : Ev D) : Ev D :=
  let e1 := match st with
    | some a => if e.ts < a then { e with ts := a, dur := e.ts + e.dur - a } else e
    | none => e
  match en with
  | some z => if e1.ts + e1.dur > z then { e1 with dur := z - e1.ts } else e1
  | none => e1

/-- `get_events` with exact range arithmetic; order: timestamp descending, ties by id ascending
    unless the observed order is passed to the driver -/
def getEvents (s : St D) (b : String) (limit : Int) (st en : Option Int)
    (dec : Ev D → Ev D := id) : Except Err (List (Ev D)) :=
  if limit = 0 then .ok [] else
  match keyOf s b with
  | none => .error .keyError
  | some k =>
    let rows := (rowsOf s k).filter (inRange st en)
    let sorted := (sortBy (fun r => r.ts) rows.reverse).reverse
    let lim := if limit < 0 then sorted else sorted.take limit.toNat
    .ok (lim.map (fun r => clip st en (dec (toEv r))))

def getEventcount (s : St D) (b : String) (st en : Option Int) : Except Err Nat :=
  match keyOf s b with
  | none => .error .keyError
  | some k => .ok ((rowsOf s k).filter (inRange st en)).length

/-- observable contents: by bucket id through the *table* (not the cache) -/
def view (s : St D) : View D := fun b =>
  match s.buckets.find? (fun r => r.bid = b) with
  | none => none
  | some r => some (r.md, (rowsOf s r.key).map toEv)

end Aw.Store.Peewee
