import AwModel.Store.Types
/-!
# The reference model of C02: one plain event list per bucket

The specification acts on a `View`: bucket id ↦ metadata and the bucket's events in storage order
(each with `id := some i`). Every operation is a pure function on views; where the backend makes a
choice (the fresh id of an insert, the newest event among equal timestamps) the choice is a
parameter and the refinement theorems say which choices are legal.

All operations are *pointwise*: they change the entry of the addressed bucket only
(`frame` lemmas in `AwProofs/Lemmas/Spec.lean`), which is C04 for every backend that refines them.
-/
namespace Aw.Store.Spec
open Aw Aw.Store
variable {D : Type}

/-- overwrite the entry of bucket `b` -/
def setB (v : View D) (b : String) (x : Option (Meta × List (Ev D))) : View D :=
  fun b' => if b' = b then x else v b'

/-- apply `f` to the event list of bucket `b` (nothing happens if `b` does not exist) -/
def onEvents (v : View D) (b : String) (f : List (Ev D) → List (Ev D)) : View D :=
  match v b with
  | some (m, es) => setB v b (some (m, f es))
  | none => v

/-- a new, empty bucket -/
def create (v : View D) (b : String) (m : Meta) : View D := setB v b (some (m, []))

/-- change the metadata of `b` -/
def update (v : View D) (b : String) (f : Meta → Meta) : View D :=
  match v b with
  | some (m, es) => setB v b (some (f m, es))
  | none => v

/-- remove the bucket and its events -/
def deleteBucket (v : View D) (b : String) : View D := setB v b none

/-- append `e` with the id `i` chosen by the backend -/
def insert (v : View D) (b : String) (i : Int) (e : Ev D) : View D :=
  onEvents v b (fun es => es ++ [{ e with id := some i }])

/-- rewrite the event with id `i` (if the bucket has one) -/
def replaceId (v : View D) (b : String) (i : Int) (e : Ev D) : View D :=
  onEvents v b (fun es => es.map (fun x => if x.id = some i then { e with id := some i } else x))

/-- remove the event with id `i` (if the bucket has one) -/
def delete (v : View D) (b : String) (i : Int) : View D :=
  onEvents v b (fun es => es.filter (fun x => x.id ≠ some i))

/-- ids live in bucket `b` -/
def ids (v : View D) (b : String) : List Int :=
  match v b with
  | some (_, es) => es.filterMap (·.id)
  | none => []

/-- `t` is a newest event of the list: a member with maximal timestamp -/
def IsNewest (es : List (Ev D)) (t : Ev D) : Prop := t ∈ es ∧ ∀ x ∈ es, x.ts ≤ t.ts

/-- the events a windowed read must / may return (closed intervals), before ordering and limit -/
def inWindowList (es : List (Ev D)) (s e : Option Int) : List (Ev D) := es.filter (inWindow s e)

end Aw.Store.Spec
