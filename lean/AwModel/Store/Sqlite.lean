import AwModel.Store.Types
import AwModel.PySort
/-!
# aw_datastore/storages/sqlite.py — the tables and every statement

Tables as lists of rows in rowid order. `seqB`/`seqE` are the `sqlite_sequence` entries of the two
AUTOINCREMENT keys (largest rowid ever assigned). Instants are exact integer microseconds
(the row encoding after the repair of F9; decoding `datetime.fromtimestamp(v / 1e6)` is exact by
`C01.decode_exact`). Commit behaviour is modelled separately in `Store/Commit.lean`.
-/
namespace Aw.Store.Sqlite
open Aw Aw.Store

structure ERow (D : Type) where
  id : Int
  brow : Int
  st : Int
  en : Int
  data : D
deriving DecidableEq, Repr

structure BRow where
  rowid : Int
  bid : String
  md : Meta
deriving DecidableEq, Repr

structure St (D : Type) where
  buckets : List BRow := []
  events : List (ERow D) := []
  seqB : Int := 0
  seqE : Int := 0
deriving Repr

variable {D : Type}

/-- `(SELECT rowid FROM buckets WHERE id = ?)` (a scalar sub-select: first match or NULL) -/
def rowOf (s : St D) (b : String) : Option Int :=
  (s.buckets.find? (fun r => r.bid = b)).map (·.rowid)

def toEv (r : ERow D) : Ev D := { id := some r.id, ts := r.st, dur := r.en - r.st, data := r.data }

/-- `get_metadata` -/
def getMetadata (s : St D) (b : String) : Except Err Meta :=
  match s.buckets.find? (fun r => r.bid = b) with
  | some r => .ok r.md
  | none => .error .valueError

/-- `buckets()` -/
def bucketsOf (s : St D) : List (String × Meta) := s.buckets.map (fun r => (r.bid, r.md))

/-- `create_bucket`: UNIQUE(id) violated -> IntegrityError, nothing changed -/
def createBucket (s : St D) (b : String) (m : Meta) : Except Err (St D) :=
  if s.buckets.any (fun r => r.bid = b) then .error .integrity
  else .ok { s with buckets := s.buckets ++ [⟨s.seqB + 1, b, m⟩], seqB := s.seqB + 1 }

/-- `update_bucket`: no field -> ValueError from the `zip(*[])` unpacking; missing bucket ->
    the UPDATE matches nothing and `get_metadata` raises ValueError -/
def updateBucket (s : St D) (b : String) (u : Upd) : Except Err (St D) :=
  if u.isEmpty then .error .valueError
  else if s.buckets.any (fun r => r.bid = b) then
    .ok { s with buckets := s.buckets.map (fun r => if r.bid = b then { r with md := u.apply r.md } else r) }
  else .error .valueError

/-- `delete_bucket`: both DELETEs run, then ValueError if no bucket row was removed -/
def deleteBucket (s : St D) (b : String) : Except Err (St D) :=
  match rowOf s b with
  | none => .error .valueError
  | some r =>
    .ok { s with events := s.events.filter (fun e => e.brow ≠ r),
                 buckets := s.buckets.filter (fun x => x.bid ≠ b) }

/-- `insert_one`: the event's own id is ignored, a NULL bucketrow violates NOT NULL -/
def insertOne (s : St D) (b : String) (e : Ev D) : Except Err (St D × Int) :=
  match rowOf s b with
  | none => .error .integrity
  | some r =>
    .ok ({ s with events := s.events ++ [⟨s.seqE + 1, r, e.ts, e.ts + e.dur, e.data⟩], seqE := s.seqE + 1 },
         s.seqE + 1)

/-- `replace` (repaired, F4): `WHERE id = ? AND bucketrow = (SELECT rowid …)` -/
def replace (s : St D) (b : String) (eid : Int) (e : Ev D) : St D :=
  match rowOf s b with
  | none => s
  | some r =>
    { s with events := s.events.map (fun row =>
        if row.id = eid ∧ row.brow = r then { row with st := e.ts, en := e.ts + e.dur, data := e.data } else row) }

/-- `delete`: returns `rowcount == 1` -/
def delete (s : St D) (b : String) (eid : Int) : St D × Bool :=
  match rowOf s b with
  | none => (s, false)
  | some r =>
    ({ s with events := s.events.filter (fun row => ¬ (row.id = eid ∧ row.brow = r)) },
     (s.events.filter (fun row => row.id = eid ∧ row.brow = r)).length == 1)

/-- rows of bucketrow `r` -/
def rowsOf (s : St D) (r : Int) : List (ERow D) := s.events.filter (fun e => e.brow = r)

/-- `ORDER BY starttime DESC, id DESC LIMIT 1` over the rows of one bucket: the row with the
    greatest `(st, id)` -/
def newestRow : List (ERow D) → Option (ERow D)
  | [] => none
  | x :: xs => match newestRow xs with
    | none => some x
    | some m => if m.st > x.st ∨ (m.st = x.st ∧ m.id > x.id) then some m else some x

/-- `replace_last` (repaired, F3): the target is the newest row of this bucket -/
def replaceLast (s : St D) (b : String) (e : Ev D) : St D :=
  match rowOf s b with
  | none => s
  | some r =>
    match newestRow (rowsOf s r) with
    | none => s
    | some t =>
      { s with events := s.events.map (fun row =>
          if row.id = t.id then { row with st := e.ts, en := e.ts + e.dur, data := e.data } else row) }

/-- the bulk part of `insert_many`: `executemany` of the INSERT; the first row with a NULL
    bucketrow aborts with IntegrityError (earlier rows of the same call stay in the transaction) -/
def insertRows (s : St D) (b : String) : List (Ev D) → Except Err (St D)
  | [] => .ok s
  | e :: es => match insertOne s b e with
    | .error x => .error x
    | .ok (s', _) => insertRows s' b es

/-- `insert_many`: upserts (events carrying an id) one by one through `replace`, then the rest -/
def insertMany (s : St D) (b : String) (es : List (Ev D)) : Except Err (St D) :=
  let ups := es.filter (fun e => e.id.isSome)
  let s1 := ups.foldl (fun s e => replace s b (e.id.getD 0) e) s
  insertRows s1 b (es.filter (fun e => e.id.isNone))

/-- `get_event` -/
def getEvent (s : St D) (b : String) (eid : Int) : Option (Ev D) :=
  match rowOf s b with
  | none => none
  | some r => (s.events.find? (fun row => row.brow = r ∧ row.id = eid)).map toEv

/-- descending by `(st, id)`: `ORDER BY starttime DESC, id DESC` -/
def orderDesc (l : List (ERow D)) : List (ERow D) :=
  -- ids ascend in table order, so a stable ascending sort by st followed by reversal orders
  -- ties by id descending
  (sortBy (fun r => r.st) (sortBy (fun r => r.id) l)).reverse

/-- `get_events` (window already rounded by `Bucket.get`): `endtime >= ? AND starttime <= ?`
    (repaired, F22: no lower bound without a start instant — the parameter is then -2^63, below
    every representable instant; it used to be `endtime >= 0`, which hid events ending before 1970) -/
def getEvents (s : St D) (b : String) (limit : Int) (st en : Option Int) : List (Ev D) :=
  if limit = 0 then [] else
  match rowOf s b with
  | none => []
  | some r =>
    let rows := (rowsOf s r).filter (fun row =>
      (match st with | some a => decide (row.en ≥ a) | none => true) &&
      (match en with | some z => decide (row.st ≤ z) | none => true))
    applyLimit (if limit < 0 then -1 else limit) ((orderDesc rows).map toEv)

/-- `get_eventcount` (repaired, F22: no lower bound without a start instant, as in `get_events`) -/
def getEventcount (s : St D) (b : String) (st en : Option Int) : Nat :=
  match rowOf s b with
  | none => 0
  | some r =>
    ((rowsOf s r).filter (fun row =>
      (match st with | some a => decide (row.en ≥ a) | none => true) &&
      (match en with | some z => decide (row.st ≤ z) | none => true))).length

/-- what a client can observe of bucket `b`: metadata and events in table order -/
def view (s : St D) : View D := fun b =>
  match s.buckets.find? (fun r => r.bid = b) with
  | none => none
  | some r => some (r.md, (rowsOf s r.rowid).map toEv)

end Aw.Store.Sqlite
