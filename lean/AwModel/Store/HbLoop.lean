import AwModel.Store.Sqlite
import AwModel.Store.Memory
import AwModel.Store.Peewee
import AwModel.Heartbeat
/-!
# The standard heartbeat ingestion loop over a store (C07)

For each heartbeat: read the newest event (`get(limit=1)`), try `heartbeat_merge`, then either
`replace_last` with the merged event or `insert` the heartbeat.
-/
namespace Aw.Store
open Aw

variable {D : Type} [DecidableEq D]

def Sqlite.hbStep (pt : Int) (b : String) (s : Sqlite.St D) (hb : Ev D) : Except Err (Sqlite.St D) :=
  match Sqlite.getEvents s b 1 none none with
  | last :: _ =>
    match Heartbeat.merge pt last hb with
    | some m => .ok (Sqlite.replaceLast s b m)
    | none => (Sqlite.insertOne s b hb).map (·.1)
  | [] => (Sqlite.insertOne s b hb).map (·.1)

def Memory.hbStep (pt : Int) (b : String) (s : Memory.St D) (hb : Ev D) : Except Err (Memory.St D) := do
  match (← Memory.getEvents s b 1 none none) with
  | last :: _ =>
    match Heartbeat.merge pt last hb with
    | some m => Memory.replaceLast s b m
    | none => (Memory.insertOne s b { hb with id := none }).map (·.1)
  | [] => (Memory.insertOne s b { hb with id := none }).map (·.1)

def Peewee.hbStep (pt : Int) (b : String) (s : Peewee.St D) (hb : Ev D) : Except Err (Peewee.St D) := do
  match (← Peewee.getEvents s b 1 none none) with
  | last :: _ =>
    match Heartbeat.merge pt last hb with
    | some m =>
      match (← Peewee.replaceLast s b last.id m) with
      | some (s', _) => pure s'
      | none => .error .doesNotExist
    | none => (Peewee.insertOne s b { hb with id := none }).map (·.1)
  | [] => (Peewee.insertOne s b { hb with id := none }).map (·.1)

def foldE {σ α ε} (f : σ → α → Except ε σ) : σ → List α → Except ε σ
  | s, [] => .ok s
  | s, a :: as => match f s a with
    | .ok s' => foldE f s' as
    | .error e => .error e

def Sqlite.hbLoop (pt : Int) (b : String) (s : Sqlite.St D) (l : List (Ev D)) := foldE (Sqlite.hbStep pt b) s l
def Memory.hbLoop (pt : Int) (b : String) (s : Memory.St D) (l : List (Ev D)) := foldE (Memory.hbStep pt b) s l
def Peewee.hbLoop (pt : Int) (b : String) (s : Peewee.St D) (l : List (Ev D)) := foldE (Peewee.hbStep pt b) s l

end Aw.Store
