import AwModel.Basic
/-!
# Shared types of the storage models

`Meta` is a bucket's metadata (the bucket id is the key it is stored under); `data` is the canonical
JSON text of the `data` dict. `View D` is what a client can observe of a store: for every bucket id,
nothing or its metadata and its events in storage order (each with `id := some i`).
-/
namespace Aw.Store
open Aw

structure Meta where
  name : Option String
  type : String
  client : String
  hostname : String
  created : String
  data : String
deriving DecidableEq, Repr, Inhabited

/-- errors of the storage layer, mapped from Python exceptions -/
inductive Err
  | keyError | valueError | integrity | indexError | attributeError | doesNotExist
deriving DecidableEq, Repr

abbrev View (D : Type) := String → Option (Meta × List (Ev D))

/-- fields of `update_bucket` (`None` = not supplied) -/
structure Upd where
  type : Option String := none
  client : Option String := none
  hostname : Option String := none
  name : Option String := none
  data : Option String := none
deriving DecidableEq, Repr, Inhabited

def Upd.isEmpty (u : Upd) : Bool :=
  u.type.isNone && u.client.isNone && u.hostname.isNone && u.name.isNone && u.data.isNone

/-- SQL-backend semantics of update: every supplied (non-None) field is written -/
def Upd.apply (u : Upd) (m : Meta) : Meta :=
  { m with
    type := u.type.getD m.type
    client := u.client.getD m.client
    hostname := u.hostname.getD m.hostname
    name := match u.name with | some n => some n | none => m.name
    data := u.data.getD m.data }

/-- closed-interval window test used by reads: event [ts, ts+dur] reaches into [s, e] -/
def inWindow {D} (s e : Option Int) (x : Ev D) : Bool :=
  (match s with | some s => decide (s ≤ x.ts + x.dur) | none => true) &&
  (match e with | some e => decide (x.ts ≤ e) | none => true)

/-- Python `events[:limit]` after `limit == 0 -> []`, `limit < 0 -> all` -/
def applyLimit {α} (limit : Int) (l : List α) : List α :=
  if limit = 0 then [] else if limit < 0 then l else l.take limit.toNat

end Aw.Store
