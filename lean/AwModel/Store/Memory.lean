import AwModel.Store.Types
import AwModel.PySort
/-!
# aw_datastore/storages/memory.py

`db` and `_metadata` always have the same keys, so the state is one association list in dict
insertion order: bucket id ↦ (metadata, events in list order). Events are values (the store owns
deep copies after the repair of F8; ownership itself is the subject of `Store/Heap.lean`).
-/
namespace Aw.Store.Memory
open Aw Aw.Store

abbrev St (D : Type) := List (String × (Meta × List (Ev D)))

variable {D : Type}

def lookup (s : St D) (b : String) : Option (Meta × List (Ev D)) :=
  (s.find? (fun p => p.1 = b)).map (·.2)

/-- `d[b] = v` on a dict: replace in place or append -/
def setKey (s : St D) (b : String) (v : Meta × List (Ev D)) : St D :=
  if s.any (fun p => p.1 = b) then s.map (fun p => if p.1 = b then (b, v) else p) else s ++ [(b, v)]

/-- Python truthiness of an optional string argument -/
def truthy : Option String → Option String
  | some "" => none
  | x => x

/-- `create_bucket`: silently replaces an existing bucket (metadata and events); `name` defaults
    to the id, `data or {}` -/
def createBucket (s : St D) (b : String) (m : Meta) : St D :=
  setKey s b ({ m with name := match truthy m.name with | some n => some n | none => some b }, [])

/-- `update_bucket`: only truthy arguments are written (`{}` is falsy: its text is `{}`) -/
def updateBucket (s : St D) (b : String) (u : Upd) : Except Err (St D) :=
  match lookup s b with
  | none => .error .valueError
  | some (m, evs) =>
    let m' : Meta := { m with
      type := (truthy u.type).getD m.type
      client := (truthy u.client).getD m.client
      hostname := (truthy u.hostname).getD m.hostname
      name := match truthy u.name with | some n => some n | none => m.name
      data := match u.data with | some d => if d = "{}" then m.data else d | none => m.data }
    .ok (setKey s b (m', evs))

def deleteBucket (s : St D) (b : String) : Except Err (St D) :=
  match lookup s b with
  | none => .error .valueError
  | some _ => .ok (s.filter (fun p => p.1 ≠ b))

def getMetadata (s : St D) (b : String) : Except Err Meta :=
  match lookup s b with
  | none => .error .valueError
  | some (m, _) => .ok m

def bucketsOf (s : St D) : List (String × Meta) := s.map (fun p => (p.1, p.2.1))

/-- `replace`: every list position holding `event_id` is overwritten (ids are unique, so one) -/
def replaceIn (evs : List (Ev D)) (eid : Int) (e : Ev D) : List (Ev D) :=
  evs.map (fun x => if x.id = some eid then { e with id := some eid } else x)

def replace (s : St D) (b : String) (eid : Int) (e : Ev D) : Except Err (St D) :=
  match lookup s b with
  | none => .error .keyError
  | some (m, evs) => .ok (setKey s b (m, replaceIn evs eid e))

/-- `max(int(e.id or 0) for e in db) + 1`, or 0 for an empty bucket -/
def nextId : List (Ev D) → Int
  | [] => 0
  | evs => (evs.foldl (fun acc x => max acc (x.id.getD 0)) 0) + 1

/-- `insert_one`: an event carrying an id is a `replace`; otherwise append with a fresh id -/
def insertOne (s : St D) (b : String) (e : Ev D) : Except Err (St D × Option Int) :=
  match e.id with
  | some eid => (replace s b eid e).map (fun s' => (s', some eid))
  | none =>
    match lookup s b with
    | none => .error .keyError
    | some (m, evs) =>
      let i := nextId evs
      .ok (setKey s b (m, evs ++ [{ e with id := some i }]), some i)

/-- `insert_many` (inherited): `insert_one` in order; an error leaves the earlier ones in place -/
def insertMany (s : St D) (b : String) : List (Ev D) → Except Err (St D)
  | [] => .ok s
  | e :: es => match insertOne s b e with
    | .error x => .error x
    | .ok (s', _) => insertMany s' b es

/-- remove the last position holding `eid` -/
def removeLast (evs : List (Ev D)) (eid : Int) : List (Ev D) × Bool :=
  let r := evs.reverse
  match r.findIdx? (fun x => x.id = some eid) with
  | none => (evs, false)
  | some i => ((r.eraseIdx i).reverse, true)

def delete (s : St D) (b : String) (eid : Int) : Except Err (St D × Bool) :=
  match lookup s b with
  | none => .error .keyError
  | some (m, evs) =>
    let (evs', ok) := removeLast evs eid
    .ok (setKey s b (m, evs'), ok)

/-- `sorted(db, key=timestamp)[-1]`: the last of the maximal-timestamp events in list order -/
def newest (evs : List (Ev D)) : Option (Ev D) := (sortBy (fun x => x.ts) evs).getLast?

/-- `replace_last`: IndexError on an empty bucket -/
def replaceLast (s : St D) (b : String) (e : Ev D) : Except Err (St D) :=
  match lookup s b with
  | none => .error .keyError
  | some (m, evs) =>
    match newest evs with
    | none => .error .indexError
    | some l => .ok (setKey s b (m, replaceIn evs (l.id.getD 0) e))

def getEvent (s : St D) (b : String) (eid : Int) : Except Err (Option (Ev D)) :=
  match lookup s b with
  | none => .error .keyError
  | some (_, evs) => .ok (evs.reverse.find? (fun x => x.id = some eid))

/-- `get_events`: stable sort by timestamp, reversed, filtered, limited. `if starttime:` /
    `if endtime:` test the datetime objects, which are always truthy. -/
def getEvents (s : St D) (b : String) (limit : Int) (st en : Option Int) : Except Err (List (Ev D)) :=
  match lookup s b with
  | none => .error .keyError
  | some (_, evs) =>
    let l := (sortBy (fun x => x.ts) evs).reverse
    let l := match st with | some a => l.filter (fun x => decide (a ≤ x.ts + x.dur)) | none => l
    let l := match en with | some z => l.filter (fun x => decide (x.ts ≤ z)) | none => l
    .ok (applyLimit limit l)

/-- `get_eventcount` (repaired, F7: same interval predicate as the read) -/
def getEventcount (s : St D) (b : String) (st en : Option Int) : Except Err Nat :=
  match lookup s b with
  | none => .error .keyError
  | some (_, evs) => .ok (evs.filter (inWindow st en)).length

def view (s : St D) : View D := fun b => lookup s b

end Aw.Store.Memory
