import AwModel.Basic
import AwModel.PySort
/-!
# aw_transform/flood.py

`flood(events, pulsetime)`:

* `events = deepcopy(events)` — this is a value model: the function works on its own copy by
  construction (that the real code leaves the caller's list and its elements untouched is checked
  on the real code by the harness oracle, not here);
* `events = sorted(events, key=lambda e: e.timestamp)` — `PySort.sortBy` (stable);
* the loop `for e1, e2 in zip(events[:-1], events[1:])` walks neighbouring *objects*: the `e2`
  mutated by iteration `i` is the `e1` of iteration `i+1`. `sweep` threads that carried event
  explicitly. `step` is one loop body, its branches in source order. The flag
  `warned_about_negative_gap_unsafe` takes part in a branch condition and is threaded too
  (`warned_about_negative_gap_safe` only guards a log call);
* `[e for e in events if e.duration > timedelta(0)]`.

`pt` is the µs value of `timedelta(seconds=pulsetime)`; `negative_gap_trim_thres` is
`timedelta(seconds=0.1)` = 100000 µs.

**Assignments to `e.timestamp` go through the property setter of `aw_core.models.Event`**, which
calls `_timestamp_parse`: `ts.replace(microsecond=int(ts.microsecond / 1000) * 1000)`, i.e. the
instant is floored to a whole millisecond (`setTs`). Reads that follow such an assignment
(`e2.duration = e2_end - e2.timestamp`) see the floored value. Assignments to `e.duration` store
the timedelta as it is. Events handed to `flood` were built by the `Event` constructor, so their
timestamps are already whole milliseconds; their durations need not be.
-/
namespace Aw.Flood
open Aw
variable {D : Type} [DecidableEq D]

/-- `negative_gap_trim_thres = timedelta(seconds=0.1)` in microseconds -/
def thres : Int := 100000

/-- `_timestamp_parse` on a datetime: drop the sub-millisecond part (`Int` division by a positive
    literal rounds down, like replacing the microsecond field) -/
def msFloor (t : Int) : Int := t / 1000 * 1000

/-- `e.timestamp = t` (property setter of `Event`) -/
def setTs (e : Ev D) (t : Int) : Ev D := { e with ts := msFloor t }

/-- one iteration of the pair loop: the mutated `(e1, e2)` and the `warned_…_unsafe` flag -/
def step (pt : Int) (wu : Bool) (e1 e2 : Ev D) : Ev D × Ev D × Bool :=
  -- gap = e2.timestamp - (e1.timestamp + e1.duration)
  let gap := e2.ts - (e1.ts + e1.dur)
  -- if not gap: continue
  if gap = 0 then (e1, e2, wu)
  -- if gap < timedelta(0) and e1.data == e2.data:
  else if gap < 0 ∧ e1.data = e2.data then
    let start := min e1.ts e2.ts
    let stop := max (e1.ts + e1.dur) (e2.ts + e2.dur)
    -- e1.timestamp, e1.duration = start, (end - start)
    -- e2.timestamp, e2.duration = end, timedelta(0)
    ({ setTs e1 start with dur := stop - start }, { setTs e2 stop with dur := 0 }, wu)
  -- elif gap < -negative_gap_trim_thres and not warned_about_negative_gap_unsafe:  (log only)
  else if gap < -thres ∧ wu = false then (e1, e2, true)
  -- elif -negative_gap_trim_thres < gap <= timedelta(seconds=pulsetime):
  else if -thres < gap ∧ gap ≤ pt then
    let e2end := e2.ts + e2.dur
    -- if e1.duration >= e2.duration:
    if e1.dur ≥ e2.dur then
      if e1.data = e2.data then
        -- e1.duration = e2_end - e1.timestamp; e2.timestamp = e2_end; e2.duration = 0
        ({ e1 with dur := e2end - e1.ts }, { setTs e2 e2end with dur := 0 }, wu)
      else
        -- e1.duration = e2.timestamp - e1.timestamp
        ({ e1 with dur := e2.ts - e1.ts }, e2, wu)
    else
      if e1.data = e2.data then
        -- e2.timestamp = e1.timestamp; e2.duration = e2_end - e2.timestamp; e1.duration = 0
        let e2' := setTs e2 e1.ts
        ({ e1 with dur := 0 }, { e2' with dur := e2end - e2'.ts }, wu)
      else
        -- e2.timestamp = e1.timestamp + e1.duration; e2.duration = e2_end - e2.timestamp
        let e2' := setTs e2 (e1.ts + e1.dur)
        (e1, { e2' with dur := e2end - e2'.ts }, wu)
  else (e1, e2, wu)

/-- the loop over `zip(events[:-1], events[1:])` on shared objects: `c` is the current `e1`
    (already mutated by the previous iteration), the result is the list after all mutations -/
def sweep (pt : Int) : Bool → Ev D → List (Ev D) → List (Ev D)
  | _, c, [] => [c]
  | wu, c, e :: es =>
    let r := step pt wu c e
    r.1 :: sweep pt r.2.2 r.2.1 es

/-- the loop and the final filter on an already sorted list -/
def floodSorted (pt : Int) : List (Ev D) → List (Ev D)
  | [] => []
  | c :: es => (sweep pt false c es).filter (fun e => 0 < e.dur)

/-- `flood(events, pulsetime)` -/
def flood (pt : Int) (l : List (Ev D)) : List (Ev D) :=
  floodSorted pt (PySort.sortBy (fun e => e.ts) l)

end Aw.Flood
