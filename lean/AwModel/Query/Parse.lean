import AwModel.Query.Scan
/-!
# `parse` methods of the token classes, `parse(line)` and the statement split of `query()`

Model of the REPAIRED parser. `Tok` is the tree of `QToken` objects the real parser builds; a
`QVariable` captures the namespace value at parse time, so parsing takes the namespace.
The mutually recursive `parse` methods / argument loops are structurally recursive on a fuel
counter; `AwProofs` proves that the fuel supplied by `parseStmt` is never exhausted
(`C17.parse_total`).
-/
namespace Aw.Query

/-- query values. `sym k f args` is the result of applying builtin `f` under the free
    interpretation (`k` = which Python type the result is an instance of: `l`ist, `s`tr, `i`nt,
    `f`loat, `o`ther); `ds` / `ns` are the datastore / namespace objects handed to builtins. -/
inductive Val where
  | int (n : Int)
  | str (s : Str)
  | bool (b : Bool)
  | list (xs : List Val)
  | dict (kvs : List (Str × Val))
  | sym (kind : Char) (name : Str) (args : List Val)
  | ds
  | ns
  | none                                           -- Python `None`
deriving Repr, Inhabited

/-- the namespace dict (insertion-ordered; keys distinct) -/
abbrev Ns := List (Str × Val)

def Ns.get? : Ns → Str → Option Val
  | [], _ => none
  | (k', v) :: rest, k => if k' = k then some v else Ns.get? rest k
/-- `k in namespace` -/
def Ns.has (ns : Ns) (k : Str) : Bool := (ns.get? k).isSome
/-- `namespace[k] = v` (an existing key keeps its place) -/
def Ns.set : Ns → Str → Val → Ns
  | [], k, v => [(k, v)]
  | (k', v') :: rest, k, v => if k' = k then (k, v) :: rest else (k', v') :: Ns.set rest k v

/-- tree of `QToken` objects -/
inductive Tok where
  | int (n : Nat)                                  -- QInteger(value)
  | str (s : Str)                                  -- QString(value)
  | var (name : Str) (captured : Option Val)       -- QVariable(name, value)
  | call (f : Str) (args : List Tok)               -- QFunction(name, args)
  | list (xs : List Tok)                           -- QList(value)
  | dict (kvs : List (Str × Tok))                  -- QDict(value), insertion order
deriving Repr, Inhabited

/-- `string.replace("\\" + q, q)`; `pend` = an unconsumed backslash precedes -/
def unescapeAux (q : Char) : Bool → Str → Str
  | pend, [] => if pend then ['\\'] else []
  | false, c :: cs => if c = '\\' then unescapeAux q true cs else c :: unescapeAux q false cs
  | true, c :: cs =>
    if c = q then q :: unescapeAux q false cs
    else if c = '\\' then '\\' :: unescapeAux q true cs
    else '\\' :: c :: unescapeAux q false cs
def unescape (q : Char) (s : Str) : Str := unescapeAux q false s

/-- `QString.parse(string).value` -/
def parseStrTok (tok : Str) : Except Err Str :=
  match tok with
  | [] => .error (.py .indexError)                 -- string[0]
  | q :: _ => .ok ((unescape q tok).drop 1).dropLast

/-- CPython's default `sys.get_int_max_str_digits()`: `int()` of a digit string longer than this raises
    `ValueError`. It is a parameter of the runtime the interpreter runs on (it can be changed with
    `sys.set_int_max_str_digits` / `PYTHONINTMAXSTRDIGITS`), not of aw-core; the model fixes the default. -/
def maxIntDigits : Nat := 4300

/-- `int(string)` as far as it is reachable: a non-empty string of ASCII digits (leading zeros count
    towards the length limit). CPython's `int` accepts more — signs, `_`, surrounding blanks — on strings
    `QInteger.check` never produces; whatever it refuses is a `ValueError`. -/
def pyInt (tok : Str) : Except Err Nat :=
  if tok ≠ [] ∧ tok.all isDigit = true ∧ tok.length ≤ maxIntDigits then .ok (natOfDigits tok)
  else .error (.py .valueError)

/-- `QInteger.parse` (repaired): `try: int(string)  except ValueError: raise QueryParseException` -/
def parseIntTok (tok : Str) : Except Err Nat :=
  match pyInt tok with
  | .error (.py .valueError) => .error (.parse "Integer literal is too long")
  | r => r

/-- accumulate `d[key] = val` on the reversed entry list -/
def dictSet (acc : List (Str × Tok)) (key : Str) (v : Tok) : List (Str × Tok) :=
  if acc.any (·.1 = key) then acc.map (fun kv => if kv.1 = key then (key, v) else kv)
  else (key, v) :: acc

/-- `comma = args_str.find(","); if comma != -1: args_str = args_str[comma + 1:]` -/
def afterComma (rest : Str) : Str :=
  match find ',' rest with
  | some k => rest.drop (k + 1)
  | none => rest

mutual
/-- `t.parse(token, namespace)` -/
def parseTok (ns : Ns) (fuel : Nat) (ty : Ty) (tok : Str) : Except Err Tok :=
  match fuel with
  | 0 => .error .fuel
  | fuel + 1 =>
    match ty with
    | .int => (parseIntTok tok).map .int
    | .str => (parseStrTok tok).map .str
    | .var => .ok (.var tok (ns.get? tok))
    | .func =>
      let i0 := (find '(' tok).getD tok.length
      let name := tok.take i0
      let argsStr := (tok.take (tok.length - 1)).drop (i0 + 1)
      (parseArgs ns fuel argsStr []).map (.call name)
    | .list => (parseList ns fuel ((tok.drop 1).dropLast) []).map .list
    | .dict => (parseDict ns fuel ((tok.drop 1).dropLast) []).map .dict
/-- `QFunction.parse` loop (`acc` reversed) -/
def parseArgs (ns : Ns) (fuel : Nat) (s : Str) (acc : List Tok) : Except Err (List Tok) :=
  match fuel with
  | 0 => .error .fuel
  | fuel + 1 =>
    if s = [] then .ok acc.reverse else
    match parseToken s with
    | .error e => .error e
    | .ok (none, _) => .error (.parse "Function expected an argument, got nothing")
    | .ok (some (ty, tok), rest) =>
      match parseTok ns fuel ty tok with
      | .error e => .error e
      | .ok a => parseArgs ns fuel (afterComma rest) (a :: acc)
/-- `QList.parse` loop -/
def parseList (ns : Ns) (fuel : Nat) (s : Str) (acc : List Tok) : Except Err (List Tok) :=
  match fuel with
  | 0 => .error .fuel
  | fuel + 1 =>
    if s = [] then .ok acc.reverse else
    let s1 := strip s
    -- `len(ls) > 0 and entries_str[0] == ","`
    if acc ≠ [] ∧ s1 = [] then .error (.py .indexError) else
    let s2 := if acc ≠ [] ∧ s1.head? = some ',' then s1.drop 1 else s1
    match parseToken s2 with
    | .error e => .error e
    | .ok (none, _) => .error (.parse "List expected a value, got nothing")
    | .ok (some (ty, tok), rest) =>
      match parseTok ns fuel ty tok with
      | .error e => .error e
      | .ok a => parseList ns fuel rest (a :: acc)
/-- `QDict.parse` loop -/
def parseDict (ns : Ns) (fuel : Nat) (s : Str) (acc : List (Str × Tok)) :
    Except Err (List (Str × Tok)) :=
  match fuel with
  | 0 => .error .fuel
  | fuel + 1 =>
    if s = [] then .ok acc.reverse else
    let s1 := strip s
    if acc ≠ [] ∧ s1 = [] then .error (.py .indexError) else
    let s2 := if acc ≠ [] ∧ s1.head? = some ',' then s1.drop 1 else s1
    match parseToken s2 with
    | .error e => .error e
    | .ok (some (.str, ktok), rest) =>
      match parseStrTok ktok with
      | .error e => .error e
      | .ok key =>
        let r1 := strip rest
        -- repaired: `if not entries_str or entries_str[0] != ":"`
        if r1.head? ≠ some ':' then .error (.parse "Key in dict is not followed by a :") else
        match parseToken (r1.drop 1) with
        | .error e => .error e
        | .ok (none, _) => .error (.parse "Dict expected a value, got nothing")
        | .ok (some (ty, tok), rest2) =>
          match parseTok ns fuel ty tok with
          | .error e => .error e
          | .ok v => parseDict ns fuel rest2 (dictSet acc key v)
    | .ok _ => .error (.parse "Key in dict is not a str")
end

/-- fuel that `parse(line)` needs at most for a token cut from `line` -/
def stmtFuel (line : Str) : Nat := 2 * line.length + 3

/-- `line[:i]`, `line[i+1:]` with `i = line.find("=")` (`-1`: `line[:-1]`, `line[0:]`) -/
def splitAssign (line : Str) : Str × Str :=
  match find '=' line with
  | some k => (line.take k, line.drop (k + 1))
  | none => (line.dropLast, line)

/-- body of `parse(line, namespace)` after the split -/
def parseAssign (ns : Ns) (fuel : Nat) (varStr valStr : Str) : Except Err (Str × Tok) :=
  if valStr = [] then .error (.parse "Nothing to assign") else
  match parseToken varStr with
  | .error e => .error e
  | .ok (vt, vrest) =>
    if strip vrest ≠ [] then .error (.parse "Invalid syntax for assignment variable") else
    match vt with
    | some (.var, name) =>
      match parseToken valStr with
      | .error e => .error e
      | .ok (tt, rest) =>
        if rest ≠ [] then .error (.parse "Invalid syntax for value to assign") else
        match tt with
        | none => .error (.py .attributeError)      -- `val_t` is None: `None.parse`
        | some (ty, tok) =>
          match parseTok ns fuel ty tok with
          | .error e => .error e
          | .ok e => .ok (name, e)
    | _ => .error (.parse "Cannot assign to a non-variable")

/-- `parse(line, namespace)`: returns the assigned name and the value token -/
def parseStmt (ns : Ns) (line : Str) : Except Err (Str × Tok) :=
  parseAssign ns (stmtFuel line) (splitAssign line).1 (splitAssign line).2

/-- `[s.strip() for s in query.split(";") if s.strip()]` -/
def statements (text : Str) : List Str :=
  ((splitOn ';' text).map strip).filter (· ≠ [])

/-- parse every statement of a query text (namespace-independent part of `query()`; captured
    variable values are those of the given fixed namespace) -/
def parseProg (ns : Ns) (text : Str) : Except Err (List (Str × Tok)) :=
  (statements text).mapM (parseStmt ns)

end Aw.Query
