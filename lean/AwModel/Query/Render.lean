import AwModel.Query.Reference
/-!
# Concrete syntax: `render : Prog → Layout → Str`

A `Layout` chooses, for every separator of the program (addressed by the path of the node and a
slot number), the whitespace written before and after it, and for every string literal its quote
style. Theorems quantify over all layouts whose `ws` values are ASCII whitespace.
-/
namespace Aw.Query

structure Layout where
  /-- whitespace at a slot -/
  ws : List Nat → Str
  /-- `true`: the string literal at this place is written with double quotes -/
  dq : List Nat → Bool

/-- layout of the `j`-th child -/
def Layout.sub (l : Layout) (j : Nat) : Layout :=
  ⟨fun p => l.ws ((j + 1) :: p), fun p => l.dq ((j + 1) :: p)⟩
/-- whitespace at slot `m` of this node -/
def Layout.slot (l : Layout) (m : Nat) : Str := l.ws [0, m]
def Layout.quote (l : Layout) (m : Nat) : Char := if l.dq [0, m] then '"' else '\''

def digitChar (d : Nat) : Char := Char.ofNat ('0'.toNat + d)

/-- decimal numeral of a natural number -/
def decimal (n : Nat) : Str :=
  if _h : n < 10 then [digitChar n] else decimal (n / 10) ++ [digitChar (n % 10)]
termination_by n
decreasing_by omega

/-- body of a string literal: the own quote character is written `\q` -/
def escape (q : Char) : Str → Str
  | [] => []
  | c :: cs => if c = q then '\\' :: q :: escape q cs else c :: escape q cs

def renderStr (q : Char) (s : Str) : Str := q :: (escape q s ++ [q])

mutual
def renderExpr (l : Layout) : Expr → Str
  | .int n => decimal n
  | .str s => renderStr (l.quote 0) s
  | .var name => name
  | .call f args => f ++ '(' :: (renderArgs l 0 args ++ [')'])
  | .list xs => '[' :: (renderArgs l 0 xs ++ [']'])
  | .dict kvs => '{' :: (renderEntries l 0 kvs ++ ['}'])
/-- the separator before element `j` of a comma-separated sequence (nothing before the first) -/
def commaSep (l : Layout) (a b : Nat) (j : Nat) : Str :=
  if j = 0 then [] else l.slot a ++ ',' :: l.slot b

/-- elements `j, j+1, …` separated by `ws , ws` -/
def renderArgs (l : Layout) (j : Nat) : List Expr → Str
  | [] => []
  | e :: es =>
    commaSep l (2 * j) (2 * j + 1) j ++ (renderExpr (l.sub j) e ++ renderArgs l (j + 1) es)
def renderEntries (l : Layout) (j : Nat) : List (Str × Expr) → Str
  | [] => []
  | (k, e) :: es =>
    commaSep l (4 * j) (4 * j + 1) j ++
      (renderStr (l.quote (4 * j + 2)) k ++ (l.slot (4 * j + 2) ++ ':' :: (l.slot (4 * j + 3) ++
        (renderExpr (l.sub j) e ++ renderEntries l (j + 1) es))))
end

/-- statements `i, i+1, …`: `ws name ws = ws expr ws ;` -/
def renderStmts (l : Layout) (i : Nat) : Prog → Str
  | [] => l.slot (4 * i)
  | (name, e) :: rest =>
    l.slot (4 * i) ++ (name ++ (l.slot (4 * i + 1) ++ '=' :: (l.slot (4 * i + 2) ++
      (renderExpr (l.sub i) e ++ (l.slot (4 * i + 3) ++ ';' :: renderStmts l (i + 1) rest)))))

def render (p : Prog) (l : Layout) : Str := renderStmts l 0 p

end Aw.Query
