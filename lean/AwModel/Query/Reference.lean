import AwModel.Query.Interp
/-!
# Reference semantics of the query language: abstract syntax and its denotation

`Expr` is the grammar the property C11 speaks about; `denote` is the meaning of a program text:
literals denote themselves, a variable its most recent assignment, a call applies the named
builtin (through the registry's call protocol) to the values of all its arguments in written order.
(Error outcomes carry the same message texts as the interpreter model so that the C11 theorems can
be stated as plain equalities.)
-/
namespace Aw.Query

inductive Expr where
  | int (n : Nat)
  | str (s : Str)
  | var (name : Str)
  | call (f : Str) (args : List Expr)
  | list (xs : List Expr)
  | dict (kvs : List (Str × Expr))
deriving Repr, Inhabited

/-- a program: assignments `name = expr;` in order -/
abbrev Prog := List (Str × Expr)

mutual
def denote (reg : List Entry) (apply : Apply) (ns : Ns) : Expr → Except Err Val
  | .int n => .ok (.int n)
  | .str s => .ok (.str s)
  | .var name =>
    match ns.get? name with
    | some v => .ok v
    | none => .error (.interp "Tried to reference variable which is not defined")
  | .call f args =>
    match lookupEntry reg f with
    | none => .error (.interp "Tried to call function which doesn't exist")
    | some e => (denoteList reg apply ns args).bind (callBuiltin apply e)
  | .list xs => (denoteList reg apply ns xs).map .list
  | .dict kvs => (denoteDict reg apply ns kvs).map .dict
def denoteList (reg : List Entry) (apply : Apply) (ns : Ns) : List Expr → Except Err (List Val)
  | [] => .ok []
  | e :: es => (denote reg apply ns e).bind fun v => (denoteList reg apply ns es).map (v :: ·)
def denoteDict (reg : List Entry) (apply : Apply) (ns : Ns) :
    List (Str × Expr) → Except Err (List (Str × Val))
  | [] => .ok []
  | (k, e) :: es =>
    (denote reg apply ns e).bind fun v => (denoteDict reg apply ns es).map ((k, v) :: ·)
end

def denoteStmts (reg : List Entry) (apply : Apply) : Prog → Ns → Except Err Ns
  | [], ns => .ok ns
  | (name, e) :: rest, ns =>
    (denote reg apply ns e).bind fun v => denoteStmts reg apply rest (ns.set name v)

/-- the value a program denotes: the final binding of `RETURN` -/
def denoteProg (reg : List Entry) (apply : Apply) (env : Ns) (p : Prog) : Except Err Val :=
  (denoteStmts reg apply p (baseNs ++ env)).bind fun ns =>
    match ns.get? returnName with
    | some v => .ok v
    | none => .error (.parse "Query doesn't assign the RETURN variable, nothing to respond")

end Aw.Query
