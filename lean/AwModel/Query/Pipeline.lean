import AwModel.Query.Builtins
import AwModel.Group
import AwModel.Intersect
import AwModel.Flood
import AwModel.UnionNoOverlap
/-!
# The value-only builtins of `aw_query/functions.py` as bodies over the transform models

`Interp.lean` takes the builtin bodies as a parameter (`Apply`); `Builtins.lean` gives the three
datastore-taking ones. This file gives the bodies of the `q2_*` wrappers around `aw_transform` whose
transform is modelled in `AwModel` — so that a whole query text (`query_bucket` → transforms →
`RETURN`) has ONE denotation inside the model, made of the same definitions the transform theorems
(C09, C10, C15, C16) and the read theorems (C03, C12) are about:

| registered name | wrapper body in `functions.py` | body here |
|---|---|---|
| `nop` | `return 1` | `1` |
| `concat` | `events1 + events2` | `++` |
| `sum_durations` | `sum(durations, timedelta())` | sum of µs |
| `limit_events` | `events[:count]` | `Group.limitEvents` |
| `sort_by_timestamp` / `sort_by_duration` | `sorted(…)` | `Group.sortByTimestamp` / `sortByDuration` |
| `filter_keyvals` / `exclude_keyvals` | `filter_keyvals(events, key, vals, False / True)` | `Group.filterKeyvals … false / true` |
| `merge_events_by_keys` | same name | `Group.mergeEventsByKeys` |
| `chunk_events_by_key` | same name, `pulsetime = 5.0` | `Group.chunkEventsByKey … 5 s` |
| `period_union` / `filter_period_intersect` | same names | `Intersect.periodUnion` / `isect` |
| `flood` | `flood(events)`, `pulsetime = 5` | `Flood.flood 5 s` |
| `union_no_overlap` | same name | `Unov.unov` (the tags dropped) |

Not given here (they stay in the `other` parameter): `categorize`, `tag`, `split_url_events`,
`simplify_window_titles`, `filter_keyvals_regex` (regular expressions and URL parsing are parameters of
their own model, `Classify.lean`), and every argument shape that does not decode (`decEvs` etc.:
an element that is not an event where events are expected — Python then raises `AttributeError`
from inside the transform, which is outside the query-error family and outside this model).

Events inside query values: `Val` has no event constructor; an event is the symbolic value
`sym 'e' [] [id, ts, dur, data]`, a `timedelta` is `sym 't' [] [µs]`, a JSON value that is neither
a string nor a list of strings is `sym 'j' <canonical JSON text> []` (kinds `e`, `t`, `j` are none
of the kinds `typeOk` accepts for `list`/`str`/`int`/`float`, as an `Event` / `timedelta` is none of
those types). Core Lean only.
-/
namespace Aw.Query.Pipeline
open Aw Aw.Query Aw.Group

/-! ## events and JSON values as query values -/

def encJ : JVal → Val
  | .str s => .str s.toList
  | .list l => .list (l.map fun s => Val.str s.toList)
  | .other t => .sym 'j' t.toList []

def encData (d : Data) : Val := .dict (d.map fun kv => (kv.1.toList, encJ kv.2))

def encId : Option Int → Val
  | none => .none
  | some i => .int i

def encEv (e : Event) : Val := .sym 'e' [] [encId e.id, .int e.ts, .int e.dur, encData e.data]

def encEvs (l : List Event) : Val := .list (l.map encEv)

/-- `timedelta` of that many microseconds -/
def encTd (us : Int) : Val := .sym 't' [] [.int us]

/-- a chunk of `chunk_events_by_key`: `Event(timestamp, duration, {key: val, "subevents": [...]})` -/
def encChunk (key : String) (c : Chunk) : Val :=
  .sym 'e' [] [.none, .int c.ts, .int c.dur,
    .dict [(key.toList, encJ c.val), ("subevents".toList, encEvs c.subs)]]

def decStr : Val → Option String
  | .str s => some (String.ofList s)
  | _ => none

/-- a query value as the JSON value event data can hold (what `==` compares it with): strings,
    lists of strings, integers (canonical text), and JSON values that came out of event data -/
def decJ : Val → Option JVal
  | .str s => some (.str (String.ofList s))
  | .list xs => (xs.mapM decStr).map .list
  | .int n => some (.other (toString n))
  | .sym 'j' t [] => some (.other (String.ofList t))
  | _ => none

def decData : Val → Option Data
  | .dict kvs => kvs.mapM fun kv => (decJ kv.2).map fun v => (String.ofList kv.1, v)
  | _ => none

def decId : Val → Option (Option Int)
  | .none => some none
  | .int i => some (some i)
  | _ => none

def decEv : Val → Option Event
  | .sym 'e' [] [i, .int ts, .int dur, d] =>
    match decId i, decData d with
    | some i, some d => some { id := i, ts := ts, dur := dur, data := d }
    | _, _ => none
  | _ => none

def decEvs : Val → Option (List Event)
  | .list xs => xs.mapM decEv
  | _ => none

def decStrs : Val → Option (List String)
  | .list xs => xs.mapM decStr
  | _ => none

def decJs : Val → Option (List JVal)
  | .list xs => xs.mapM decJ
  | _ => none

/-! ## the bodies -/

/-- default `pulsetime` of `flood` and `chunk_events_by_key` when called from a query: 5 s -/
def defaultPulse : Int := 5000000

def sumDurations (l : List Event) : Int := (l.map (·.dur)).foldl (· + ·) 0

def n (s : String) : Str := s.toList

/-- the value-only builtins; whatever is not modelled goes to `other` -/
def pipeApply (other : Apply) : Apply := fun name args =>
  if name = n "nop" then
    match args with
    | [] => .ok (.int 1)
    | _ => other name args
  else if name = n "concat" then
    match args with
    | [a, b] =>
      match decEvs a, decEvs b with
      | some l1, some l2 => .ok (encEvs (l1 ++ l2))
      | _, _ => other name args
    | _ => other name args
  else if name = n "sum_durations" then
    match args with
    | [a] =>
      match decEvs a with
      | some l => .ok (encTd (sumDurations l))
      | none => other name args
    | _ => other name args
  else if name = n "limit_events" then
    match args with
    | [a, .int c] =>
      match decEvs a with
      | some l => .ok (encEvs (limitEvents l c))
      | none => other name args
    | _ => other name args
  else if name = n "sort_by_timestamp" then
    match args with
    | [a] =>
      match decEvs a with
      | some l => .ok (encEvs (sortByTimestamp l))
      | none => other name args
    | _ => other name args
  else if name = n "sort_by_duration" then
    match args with
    | [a] =>
      match decEvs a with
      | some l => .ok (encEvs (sortByDuration l))
      | none => other name args
    | _ => other name args
  else if name = n "filter_keyvals" then
    match args with
    | [a, .str k, vs] =>
      match decEvs a, decJs vs with
      | some l, some vals => .ok (encEvs (filterKeyvals l (String.ofList k) vals false))
      | _, _ => other name args
    | _ => other name args
  else if name = n "exclude_keyvals" then
    match args with
    | [a, .str k, vs] =>
      match decEvs a, decJs vs with
      | some l, some vals => .ok (encEvs (filterKeyvals l (String.ofList k) vals true))
      | _, _ => other name args
    | _ => other name args
  else if name = n "merge_events_by_keys" then
    match args with
    | [a, ks] =>
      match decEvs a, decStrs ks with
      | some l, some keys =>
        match mergeEventsByKeys l keys with
        | .ok o => .ok (encEvs o)
        -- `TypeError: unhashable type` raised inside the body; `QFunction.interpret` turns every
        -- `TypeError` of the call into a `QueryInterpretException` (`catchTypeError`)
        | .error .typeError => .error (.py .typeError)
      | _, _ => other name args
    | _ => other name args
  else if name = n "chunk_events_by_key" then
    match args with
    | [a, .str k] =>
      match decEvs a with
      | some l =>
        .ok (.list ((chunkEventsByKey l (String.ofList k) defaultPulse).map (encChunk (String.ofList k))))
      | none => other name args
    | _ => other name args
  else if name = n "period_union" then
    match args with
    | [a, b] =>
      match decEvs a, decEvs b with
      | some l1, some l2 =>
        match Intersect.periodUnion ([] : Data) l1 l2 with
        | .ok o => .ok (encEvs o)
        | .error _ => other name args        -- cannot happen: `C09.union_never_raises`
      | _, _ => other name args
    | _ => other name args
  else if name = n "filter_period_intersect" then
    match args with
    | [a, b] =>
      match decEvs a, decEvs b with
      | some l1, some l2 => .ok (encEvs (Intersect.isect l1 l2))
      | _, _ => other name args
    | _ => other name args
  else if name = n "flood" then
    match args with
    | [a] =>
      match decEvs a with
      | some l => .ok (encEvs (Flood.flood defaultPulse l))
      | none => other name args
    | _ => other name args
  else if name = n "union_no_overlap" then
    match args with
    | [a, b] =>
      match decEvs a, decEvs b with
      | some l1, some l2 => .ok (encEvs ((Unov.unov l1 l2).map (·.2)))
      | _, _ => other name args
    | _ => other name args
  else other name args

/-- how the read builtins hand events and storage exceptions to the query -/
def enc : Enc Data where
  ev := encEv
  storeErr
    | .keyError => .py .indexError      -- placeholder kinds; a listed bucket never raises
    | _ => .py .valueError

/-- every builtin body the model has: the three datastore readers over `r`, the value-only ones
    above, the rest `other` -/
def fullApply (r : Reads Data) (S E : Int) (other : Apply) : Apply :=
  dsApply r enc S E (pipeApply other)

end Aw.Query.Pipeline
