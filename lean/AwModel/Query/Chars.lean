/-!
# Character classes and string primitives used by `aw_query/query2.py` (ASCII)

Strings are `List Char`. Python's `str.isdigit`, `str.isalpha`, `str.strip` are Unicode-aware;
the model (and every theorem over it) is about ASCII text. `isSpace` is exactly the set that
`str.strip()` removes among code points < 128.
-/
namespace Aw.Query
abbrev Str := List Char

/-- `str.isspace` on ASCII: `\t \n \v \f \r`, `\x1c`–`\x1f`, space -/
def isSpace (c : Char) : Bool :=
  c = ' ' || c = '\t' || c = '\n' || c = '\r' || c = '\x0b' || c = '\x0c' ||
  c = '\x1c' || c = '\x1d' || c = '\x1e' || c = '\x1f'

/-- `char in "0123456789"` (repaired `QInteger.check`) and `char.isdigit()` on ASCII -/
def isDigit (c : Char) : Bool := '0' ≤ c && c ≤ '9'

/-- `char.isalpha()` on ASCII -/
def isAlpha (c : Char) : Bool := ('a' ≤ c && c ≤ 'z') || ('A' ≤ c && c ≤ 'Z')

/-- the test `char.isalpha() or char == "_"` / `i != 0 and char.isdigit()` of identifiers -/
def isIdent (i : Nat) (c : Char) : Bool := isAlpha c || c = '_' || (i != 0 && isDigit c)

def lstrip : Str → Str
  | [] => []
  | c :: cs => if isSpace c then lstrip cs else c :: cs

def rstrip (s : Str) : Str := (lstrip s.reverse).reverse

/-- `str.strip()` -/
def strip (s : Str) : Str := rstrip (lstrip s)

/-- `str.find(c)` for a one-character needle; `none` is Python's `-1` -/
def find (c : Char) : Str → Option Nat
  | [] => none
  | x :: xs => if x = c then some 0 else (find c xs).map (· + 1)

/-- value of a string of ASCII digits -/
def natOfDigits (s : Str) : Nat := s.foldl (fun n c => 10 * n + (c.toNat - '0'.toNat)) 0

/-- `str.split(c)` for a one-character separator (always at least one piece) -/
def splitOn (c : Char) : Str → List Str
  | [] => [[]]
  | x :: xs =>
    if x = c then [] :: splitOn c xs
    else match splitOn c xs with
      | [] => [[x]]
      | p :: ps => (x :: p) :: ps

end Aw.Query
